/-
  Operator lemmas 5 and 6 for C11: a further MATCH as a join on shared variables (bound start node = label filter
  + expansion from the bound node; fresh start node = cartesian product with a scan), and OPTIONAL MATCH
  (OptionalWhereFixup) as per-row null padding.
-/
import Nervus.Proofs.CypherExpand
import Nervus.Model.Generated.OptionalFixup
namespace Nervus.Cy
open Nervus.Cy

variable (A : Algebra) (env : Env)

theorem flatMap_congr_mem {α β} (l : List α) (f g : α → List β) (h : ∀ x ∈ l, f x = g x) :
    l.flatMap f = l.flatMap g := by
  induction l with
  | nil => rfl
  | cons x xs ih =>
    simp only [List.flatMap_cons, h x (by simp)]
    rw [ih (fun y hy => h y (List.mem_cons_of_mem _ hy))]

theorem all_congr_mem {α} (l : List α) (p q : α → Bool) (h : ∀ x ∈ l, p x = q x) : l.all p = l.all q := by
  induction l with
  | nil => rfl
  | cons x xs ih =>
    simp only [List.all_cons, h x (by simp)]
    rw [ih (fun y hy => h y (List.mem_cons_of_mem _ hy))]

/-! ### 6. OPTIONAL MATCH: OptionalWhereFixup = per-row padding, when the outer rows are pairwise distinct -/

theorem filter_flatMap_unique {α β} [DecidableEq α] (l : List α) (ext : α → List β) (p : β → Bool) (o : α)
    (hnd : l.Nodup) (ho : o ∈ l) (hself : ∀ r ∈ ext o, p r = true)
    (hother : ∀ o' ∈ l, o' ≠ o → ∀ r ∈ ext o', p r = false) :
    (l.flatMap ext).filter p = ext o := by
  induction l with
  | nil => cases ho
  | cons x xs ih =>
    rw [List.nodup_cons] at hnd
    simp only [List.flatMap_cons, List.filter_append]
    by_cases hx : x = o
    · subst hx
      have h1 : (ext x).filter p = ext x := List.filter_eq_self.mpr hself
      have h2 : (xs.flatMap ext).filter p = [] := by
        rw [List.filter_eq_nil_iff]
        intro r hr
        obtain ⟨o', ho', hr'⟩ := List.mem_flatMap.mp hr
        have hne : o' ≠ x := fun h => hnd.1 (h ▸ ho')
        simp [hother o' (List.mem_cons_of_mem _ ho') hne r hr']
      rw [h1, h2, List.append_nil]
    · have hox : o ∈ xs := by
        rcases List.mem_cons.mp ho with h | h
        · exact absurd h.symm hx
        · exact h
      have h1 : (ext x).filter p = [] := by
        rw [List.filter_eq_nil_iff]
        intro r hr
        simp [hother x (by simp) hx r hr]
      rw [h1, List.nil_append]
      exact ih hnd.2 hox (fun o' ho' hne => hother o' (List.mem_cons_of_mem _ ho') hne)

/-- **operator lemma 6** — OptionalWhereFixup over pairwise distinct outer rows: every outer row keeps exactly
    its own matches, or is padded with nulls when it has none.  `ext o` are the rows the filtered plan derives
    from outer row `o`; they carry `o`'s bindings (`hself`) and no other outer row's (`hother`). -/
theorem optionalFixup_correct (outer : Table) (ext : Row → Table) (nulls : List String) (hnd : outer.Nodup)
    (hself : ∀ o ∈ outer, ∀ r ∈ ext o, Exec.containsAllBindings r o = true)
    (hother : ∀ o ∈ outer, ∀ o' ∈ outer, o' ≠ o → ∀ r ∈ ext o', Exec.containsAllBindings r o = false) :
    Exec.optionalFixup outer (outer.flatMap ext) nulls =
      outer.flatMap fun o => if (ext o).isEmpty then [nulls.foldl (fun r a => r.set a .null) o] else ext o := by
  unfold Exec.optionalFixup
  apply flatMap_congr_mem
  intro o ho
  show (if ((outer.flatMap ext).filter fun r => Exec.containsAllBindings r o).isEmpty then _ else _) = _
  rw [filter_flatMap_unique outer ext (fun r => Exec.containsAllBindings r o) o hnd ho (hself o ho)
    (fun o' ho' hne => hother o ho o' ho' hne)]

/-- the engine pads by overwriting the listed aliases with null, the reference by binding the still unbound
    pattern variables to null: the same row when none of the aliases is bound -/
theorem padNulls_eq_foldl (r : Row) (xs : List String) (h : ∀ x ∈ xs, r.get x = none) :
    Spec.padNulls r xs = xs.foldl (fun r a => r.set a .null) r := by
  unfold Spec.padNulls
  induction xs generalizing r with
  | nil => rfl
  | cons x xs ih =>
    simp only [List.foldl_cons, h x (by simp), Option.isSome_none, Bool.false_eq_true, ↓reduceIte]
    -- after binding x, a later occurrence of x is skipped by the reference and overwritten with the same null
    -- by the engine; handle both by the general statement below
    have key : ∀ (r : Row) (ys : List String), (∀ y ∈ ys, r.get y = none ∨ r.get y = some .null) →
        ys.foldl (fun r x => if (r.get x).isSome then r else r.set x .null) r =
        ys.foldl (fun r a => r.set a .null) r := by
      intro r ys
      induction ys generalizing r with
      | nil => intro _; rfl
      | cons y ys ihy =>
        intro hy
        simp only [List.foldl_cons]
        have hstep : (if (r.get y).isSome then r else r.set y .null) = r.set y .null := by
          rcases hy y (by simp) with h0 | h1
          · simp [h0]
          · simp [h1, Row.set_same r y .null h1]
        rw [hstep]
        apply ihy
        intro z hz
        by_cases hzy : z = y
        · subst hzy; right; exact Row.get_set_self r z .null
        · rw [Row.get_set_ne r y z .null hzy]; exact hy z (List.mem_cons_of_mem _ hz)
    apply key
    intro y hy
    by_cases hyx : y = x
    · subst hyx; right; exact Row.get_set_self r y .null
    · left; rw [Row.get_set_ne r x y .null hyx]; exact h y (List.mem_cons_of_mem _ hy)

/-! ### 5. a further MATCH: join on a shared (bound) start variable, cartesian product for a fresh one -/

/-- the label filter `apply_label_filters_for_alias` on a row that binds `a` to a node -/
theorem evalBool_labelFilter_bound (r : Row) (a : String) (n : Nat) (ls : List String) (e : Expr)
    (hr : r.get a = some (.node n))
    (he : Compile.andChain (ls.map fun l => Expr.bool .or (.isNull (.var a)) (.hasLabel (.var a) l)) = some e) :
    evalBool A env r e = ls.all (env.g.hasLabel n) := by
  rw [evalBool_andChain A env r _ e he, List.all_map]
  apply all_congr_mem
  intro l _
  simp only [Function.comp, evalBool, eval, hr, hasLabelVal]
  have : (Val.node n == Val.null) = false := by simp
  rw [this, boolOp_or_bool]
  cases env.g.hasLabel n l <;> simp

theorem flatMap_unique_node (nodes : List NodeRec) (hnd : nodes.Pairwise fun a b => a.id ≠ b.id) (nd : NodeRec)
    (hmem : nd ∈ nodes) {β} (f : NodeRec → List β) (hf : ∀ m ∈ nodes, m.id ≠ nd.id → f m = []) :
    nodes.flatMap f = f nd := by
  induction nodes with
  | nil => cases hmem
  | cons x xs ih =>
    rw [List.pairwise_cons] at hnd
    simp only [List.flatMap_cons]
    rcases List.mem_cons.mp hmem with rfl | hm
    · have : xs.flatMap f = [] := by
        rw [List.flatMap_eq_nil_iff]
        intro m hm
        exact hf m (List.mem_cons_of_mem _ hm) (fun h => hnd.1 m hm h.symm)
      rw [this, List.append_nil]
    · have hx : f x = [] := hf x (by simp) (hnd.1 nd hm)
      rw [hx, List.nil_append]
      exact ih hnd.2 hm (fun m hm' hne => hf m (List.mem_cons_of_mem _ hm') hne)

/-- **operator lemma 5a (join on a bound start variable)** — the reference matching of a pattern whose first
    node variable is already bound to a live node `n` is: check its labels, then continue the chain from `n`.
    (The engine plans exactly that: label Filter on the existing rows, then the hops.) -/
theorem matchPath_bound (hg : env.g.NodesDistinct) (used : List RelId) (r : Row) (a : String) (nd : NodeRec)
    (hmem : nd ∈ env.g.nodes) (hr : r.get a = some (.node nd.id)) (ls : List String)
    (steps : List (RelPat × NodePat)) :
    Spec.matchPath A env used r ⟨⟨some a, ls, []⟩, steps⟩ =
      if ls.all (env.g.hasLabel nd.id) then Spec.matchSteps A env used nd.id r steps else [] := by
  unfold Spec.matchPath
  rw [flatMap_unique_node env.g.nodes hg nd hmem]
  · simp only [Spec.nodeOk, Spec.propsOk, List.all_nil, Bool.and_true, Spec.bind, hr, beq_self_eq_true, ↓reduceIte]
    cases ls.all (env.g.hasLabel nd.id) <;> simp
  · intro m _ hne
    have : (Val.node nd.id == Val.node m.id) = false := by
      simpa using (fun h : nd.id = m.id => hne h.symm)
    simp only [Spec.bind, hr, this, Bool.false_eq_true, ↓reduceIte]
    split <;> rfl

/-- **operator lemma 5b (fresh start variable = cartesian product with a scan)** — for a row that does not
    mention `a`, the reference binds `a` to every node with the labels, appending the column: exactly
    `CartesianProduct(existing, NodeScan a)` followed by the label filter. -/
theorem matchPath_fresh (used : List RelId) (r : Row) (a : String) (ha : a ∉ r.cols) (ls : List String) :
    (Spec.matchPath A env used r ⟨⟨some a, ls, []⟩, []⟩).map (·.1) =
      (env.g.nodes.filter fun n => ls.all (env.g.hasLabel n.id)).map fun n => r ++ [(a, Val.node n.id)] := by
  have hget : r.get a = none := by
    unfold Row.get
    induction r with
    | nil => rfl
    | cons p rest ih =>
      obtain ⟨y, w⟩ := p
      simp only [Row.cols, List.map_cons, List.mem_cons, not_or] at ha
      have : (a == y) = false := by simpa using ha.1
      simp only [List.lookup, this]
      exact ih (by simpa [Row.cols] using ha.2)
  simp only [Spec.matchPath, Spec.nodeOk, Spec.propsOk, List.all_nil, Bool.and_true, Spec.bind, hget,
    Spec.matchSteps, Row.set_append_fresh r a _ ha]
  rw [flatMap_ite_singleton]
  simp [List.map_map, Function.comp]

/-! ### 6'. OPTIONAL MATCH never removes outer rows -/

theorem filterMap_congr_mem {α β} (l : List α) (f g : α → Option β) (h : ∀ x ∈ l, f x = g x) :
    l.filterMap f = l.filterMap g := by
  induction l with
  | nil => rfl
  | cons x xs ih =>
    simp only [List.filterMap_cons, h x (by simp)]
    rw [ih (fun y hy => h y (List.mem_cons_of_mem _ hy))]

theorem length_flatMap_ge {α β} (l : List α) (f : α → List β) (h : ∀ a ∈ l, 1 ≤ (f a).length) :
    l.length ≤ (l.flatMap f).length := by
  induction l with
  | nil => simp
  | cons a rest ih =>
    simp only [List.flatMap_cons, List.length_append, List.length_cons]
    have h1 := h a (by simp)
    have h2 := ih (fun b hb => h b (List.mem_cons_of_mem _ hb))
    omega

/-- the bindings of a row on the given columns -/
def restrictCols (cols : List String) (r : Row) : Row := cols.filterMap fun c => (r.get c).map fun v => (c, v)

theorem get_of_mem_nodup (o : Row) (hnd : o.cols.Nodup) (k : String) (v : Val) (h : (k, v) ∈ o) : o.get k = some v := by
  unfold Row.get
  induction o with
  | nil => cases h
  | cons p rest ih =>
    obtain ⟨k', v'⟩ := p
    simp only [Row.cols, List.map_cons, List.nodup_cons] at hnd
    rcases List.mem_cons.mp h with heq | hmem
    · cases heq; simp [List.lookup]
    · have hne : k ≠ k' := by
        intro hk; subst hk
        exact hnd.1 (List.mem_map_of_mem (f := (·.1)) hmem)
      have : (k == k') = false := by simpa using hne
      simp only [List.lookup, this]
      exact ih hnd.2 hmem

theorem restrictCols_self (o : Row) (hnd : o.cols.Nodup) : restrictCols o.cols o = o := by
  induction o with
  | nil => rfl
  | cons p rest ih =>
    obtain ⟨k, v⟩ := p
    have hnd' := hnd
    simp only [Row.cols, List.map_cons, List.nodup_cons] at hnd'
    have hrest : restrictCols (Row.cols rest) ((k, v) :: rest) = restrictCols (Row.cols rest) rest := by
      unfold restrictCols
      apply filterMap_congr_mem
      intro c hc
      have hne : c ≠ k := fun h => hnd'.1 (h ▸ hc)
      have : (c == k) = false := by simpa using hne
      simp [Row.get, List.lookup, this]
    have hhead : Row.get ((k, v) :: rest) k = some v := by simp [Row.get, List.lookup]
    show restrictCols (k :: Row.cols rest) ((k, v) :: rest) = (k, v) :: rest
    unfold restrictCols
    rw [List.filterMap_cons, hhead]
    simp only [Option.map_some]
    congr 1
    exact hrest.trans (ih hnd'.2)

theorem restrictCols_congr (cols : List String) (r o : Row) (h : ∀ c ∈ cols, r.get c = o.get c) :
    restrictCols cols r = restrictCols cols o := by
  unfold restrictCols
  apply filterMap_congr_mem
  intro c hc
  rw [h c hc]

theorem get_of_containsAll (r o : Row) (hnd : o.cols.Nodup) (h : Exec.containsAllBindings r o = true) :
    ∀ c ∈ o.cols, r.get c = o.get c := by
  intro c hc
  obtain ⟨p, hp, hpc⟩ := List.mem_map.mp hc
  obtain ⟨k, v⟩ := p
  simp only at hpc
  subst hpc
  have hall := List.all_eq_true.mp h (k, v) hp
  rw [get_of_mem_nodup o hnd k v hp]
  simp only at hall
  cases hr : r.get k with
  | none => simp [hr] at hall
  | some w =>
    simp only [hr] at hall
    rw [eq_of_beq hall]

theorem get_pad_other (nulls : List String) (o : Row) (c : String) (hc : c ∉ nulls) :
    (nulls.foldl (fun r a => r.set a .null) o).get c = o.get c := by
  induction nulls generalizing o with
  | nil => rfl
  | cons a rest ih =>
    simp only [List.foldl_cons]
    rw [ih (o.set a .null) (fun h => hc (List.mem_cons_of_mem _ h))]
    exact Row.get_set_ne o a c .null (fun h => hc (h ▸ List.mem_cons_self))

/-- **operator lemma 6'' (OPTIONAL MATCH never removes outer rows)** — whatever the filtered side is (any pattern,
    ANY predicate, reading outer variables, optional ones, both or none) and however often outer rows repeat:
    projected on the outer columns, the output of OptionalWhereFixup is the outer table with every row repeated
    once per row of the filtered side that carries its bindings — and once when there is none.  No outer row is
    dropped, none is invented; the order of the outer rows is kept. -/
theorem optionalFixup_preserves_outer (outer filtered : Table) (nulls cols : List String)
    (hcols : ∀ o ∈ outer, o.cols = cols) (hnd : cols.Nodup) (hdisj : ∀ a ∈ nulls, a ∉ cols) :
    (Exec.optionalFixup outer filtered nulls).map (restrictCols cols) =
      outer.flatMap fun o =>
        List.replicate (max 1 (filtered.filter fun r => Exec.containsAllBindings r o).length) o := by
  unfold Exec.optionalFixup
  rw [List.map_flatMap]
  apply flatMap_congr_mem
  intro o ho
  have hoc := hcols o ho
  have hond : o.cols.Nodup := hoc ▸ hnd
  cases hm : (filtered.filter fun r => Exec.containsAllBindings r o) with
  | nil =>
    simp only [List.isEmpty_nil, ↓reduceIte, List.map_cons, List.map_nil, List.length_nil]
    have : restrictCols cols (nulls.foldl (fun r a => r.set a .null) o) = o := by
      rw [restrictCols_congr cols _ o (fun c hc => get_pad_other nulls o c (fun h => hdisj c h hc)), ← hoc]
      exact restrictCols_self o hond
    rw [this]; rfl
  | cons x xs =>
    simp only [List.isEmpty_cons, Bool.false_eq_true, ↓reduceIte, List.length_cons]
    have hall : ∀ r ∈ x :: xs, restrictCols cols r = o := by
      intro r hr
      have hr' : r ∈ filtered.filter fun r => Exec.containsAllBindings r o := hm ▸ hr
      have hc := (List.mem_filter.mp hr').2
      rw [restrictCols_congr cols r o (fun c hc' => get_of_containsAll r o hond hc c (hoc ▸ hc')), ← hoc]
      exact restrictCols_self o hond
    have hmax : max 1 (xs.length + 1) = xs.length + 1 := by omega
    rw [hmax]
    apply List.eq_replicate_iff.mpr
    refine ⟨by simp, ?_⟩
    intro b hb
    obtain ⟨r, hr, rfl⟩ := List.mem_map.mp hb
    exact hall r hr

/-- … hence every outer row is in the output (projected), at least once -/
theorem optionalFixup_keeps_every_outer_row (outer filtered : Table) (nulls cols : List String)
    (hcols : ∀ o ∈ outer, o.cols = cols) (hnd : cols.Nodup) (hdisj : ∀ a ∈ nulls, a ∉ cols) :
    ∀ o ∈ outer, o ∈ (Exec.optionalFixup outer filtered nulls).map (restrictCols cols) := by
  intro o ho
  rw [optionalFixup_preserves_outer outer filtered nulls cols hcols hnd hdisj]
  apply List.mem_flatMap.mpr
  refine ⟨o, ho, ?_⟩
  apply List.mem_replicate.mpr
  exact ⟨by omega, rfl⟩

/-- … and the output is never shorter than the outer table: `count(*)` after OPTIONAL MATCH counts padded rows -/
theorem optionalFixup_length_ge (outer filtered : Table) (nulls : List String) :
    outer.length ≤ (Exec.optionalFixup outer filtered nulls).length := by
  unfold Exec.optionalFixup
  apply length_flatMap_ge
  intro o _
  cases hm : (filtered.filter fun r => Exec.containsAllBindings r o) <;> simp [hm]

/-- plan level: for ANY outer plan and ANY filtered-side plan (in particular `Filter p` over the expanded pattern,
    for every predicate `p`) -/
theorem optionalWhereFixup_preserves_outer (o f : Plan) (ns cols : List String) (outer filtered : Table)
    (ho : Exec.exec A env o = .ok outer) (hf : Exec.exec A env f = .ok filtered)
    (hcols : ∀ r ∈ outer, r.cols = cols) (hnd : cols.Nodup) (hdisj : ∀ a ∈ ns, a ∉ cols) :
    ∃ out, Exec.exec A env (.optionalWhereFixup o f ns) = .ok out ∧
      out.map (restrictCols cols) = (outer.flatMap fun r =>
        List.replicate (max 1 (filtered.filter fun x => Exec.containsAllBindings x r).length) r) ∧
      (∀ r ∈ outer, r ∈ out.map (restrictCols cols)) ∧ outer.length ≤ out.length := by
  refine ⟨Exec.optionalFixup outer filtered ns, ?_, optionalFixup_preserves_outer outer filtered ns cols hcols hnd hdisj,
    optionalFixup_keeps_every_outer_row outer filtered ns cols hcols hnd hdisj,
    optionalFixup_length_ge outer filtered ns⟩
  simp only [Exec.exec, ho, hf, bind, Except.bind, pure, Except.pure]

/-- the model's planner puts the incoming plan itself on the outer side of OptionalWhereFixup when a WHERE follows
    the OPTIONAL MATCH (the construction the table `Generated.optionalOuterSideIsIncomingPlan` recognises in
    compile_core.rs) -/
theorem compile_optional_where_outer (pats : List PathPat) (w : Expr) (rest : Query) (l : Compile.Loop) :
    Compile.compileClauses (.match_ true pats :: .where_ w :: rest) l =
      (do
        let (plan, st) ← Compile.compileMatch l.plan pats (Compile.extractPredicates w []) l.st
        let aliases := Compile.optionalAliases pats
          (match l.plan with | some p => Compile.outKinds p | none => []) (Compile.outKinds plan)
        Compile.exprVarsOk (Compile.outKinds plan ++ aliases.map (·, Kind.unknown)) w
        Compile.compileClauses rest
          { plan := some (.optionalWhereFixup (l.plan.getD .returnOne) (.filter plan w) aliases), st := st }) := by
  simp only [Compile.compileClauses, bind, Except.bind]
  cases Compile.compileMatch l.plan pats (Compile.extractPredicates w []) l.st with
  | error e => rfl
  | ok ps =>
    obtain ⟨plan, st⟩ := ps
    simp only [↓reduceIte]
    cases Compile.exprVarsOk _ w <;> rfl

end Nervus.Cy
