/-
  Proofs/EngineCommitG.lean — the published-state invariant (graph structure and properties) and its
  re-establishment by `commit`.
-/
import Nervus.Proofs.EngineIdmap
namespace Nervus.Storage
open Nervus.GraphSpec (Graph TxOp Op Rel)

/-- invariant between the published engine state and the Spec graph: graph structure, properties -/
structure SimG (s : Engine) (g : Graph) : Prop where
  segs : s.segs = []
  root : s.propsRoot = 0
  nodup : s.interner.Nodup
  dead : ∀ n, isTombNode s.runs n = true ↔ n ∈ g.dead
  edges : ∀ r nm a b, s.interner[r]? = some nm → visE ⟨a, r, b⟩ s.runs = g.mult ⟨a, nm, b⟩
  runsOK : RunsOK s.runs
  runsRel : ∀ run ∈ s.runs, ∀ e ∈ run.edges, e.rel < s.interner.length
  relsInt : ∀ e ∈ g.rels, e.typ ∈ s.interner
  nprops : ∀ n k, n ∉ g.dead → npropRuns n k s.runs = g.nprop n k
  eprops : ∀ r nm a b k, s.interner[r]? = some nm → a ∉ g.dead → b ∉ g.dead →
    epropRuns ⟨a, r, b⟩ k s.runs = g.eprop ⟨a, nm, b⟩ k
  runsERel : ∀ run ∈ s.runs, ∀ p ∈ run.eprops, p.1.1.rel < s.interner.length
  epropsInt : ∀ p ∈ g.eprops, p.1.1.typ ∈ s.interner

theorem visE_cons' (e : Edge) (r : Run) (rs : List Run) :
    visE e (r :: rs) = r.edges.count e +
      (if (e ∈ r.tombEdges ∨ e.src ∈ r.tombNodes ∨ e.dst ∈ r.tombNodes) then 0 else visE e rs) := by
  simp only [visE]
  congr 1
  by_cases h : (e ∈ r.tombEdges ∨ e.src ∈ r.tombNodes ∨ e.dst ∈ r.tombNodes)
  · rw [if_pos h, if_pos]
    simpa [or_assoc] using h
  · rw [if_neg h, if_neg]
    simpa [or_assoc] using h

theorem visE_zero_of_rel_ge (e : Edge) (runs : List Run) (n : Nat)
    (h : ∀ run ∈ runs, ∀ e' ∈ run.edges, e'.rel < n) (he : n ≤ e.rel) : visE e runs = 0 := by
  induction runs with
  | nil => rfl
  | cons r rs ih =>
    rw [visE_cons']
    have h1 : r.edges.count e = 0 := by
      apply List.count_eq_zero.mpr
      intro hm; have := h r List.mem_cons_self e hm; omega
    have h2 := ih (fun run hr => h run (List.mem_cons_of_mem _ hr))
    rw [h1, h2]; simp

theorem epropRuns_none_of_rel_ge (e : Edge) (k : Nat) (runs : List Run) (n : Nat)
    (h : ∀ run ∈ runs, ∀ p ∈ run.eprops, p.1.1.rel < n) (he : n ≤ e.rel) : epropRuns e k runs = none := by
  induction runs with
  | nil => rfl
  | cons r rs ih =>
    simp only [epropRuns]
    split
    · rfl
    · rw [lookup_none_of_rel_ge _ _ (h r List.mem_cons_self) e k he]
      exact ih (fun run hr => h run (List.mem_cons_of_mem _ hr))

/-- a name at a position beyond the old interner is not an old name -/
theorem not_mem_of_new {t0 t : Interner} (hp : t0 <+: t) (hn : t.Nodup) {r nm : Nat}
    (hr : t[r]? = some nm) (hge : t0.length ≤ r) : nm ∉ t0 := by
  intro hm
  obtain ⟨i, hi, hget⟩ := List.mem_iff_getElem.mp hm
  have h1 : t[i]? = some nm := by
    apply prefix_getElem? hp; rw [List.getElem?_eq_getElem hi, hget]
  have := name_inj _ hn _ _ _ hr h1
  omega

theorem old_of_lt {t0 t : Interner} (hp : t0 <+: t) {r nm : Nat}
    (hr : t[r]? = some nm) (hlt : r < t0.length) : t0[r]? = some nm := by
  obtain ⟨x, rfl⟩ := hp
  rw [List.getElem?_append_left hlt] at hr; exact hr

/-- the read clauses of `SimG` for the run list `run :: runs0`, where `run` is the frozen memtable -/
theorem commit_clauses {s0 g0 s t g} (hS : SimG s0 g0) (hst : Staged s0 g0 s t g) (txid : Nat) :
    let run := t.mt.freeze txid
    let R := run :: s0.runs
    (∀ n, isTombNode R n = true ↔ n ∈ g.dead) ∧
    (∀ r nm a b, s.interner[r]? = some nm → visE ⟨a, r, b⟩ R = g.mult ⟨a, nm, b⟩) ∧
    RunsOK R ∧
    (∀ run' ∈ R, ∀ e ∈ run'.edges, e.rel < s.interner.length) ∧
    (∀ n k, n ∉ g.dead → npropRuns n k R = g.nprop n k) ∧
    (∀ r nm a b k, s.interner[r]? = some nm → a ∉ g.dead → b ∉ g.dead →
      epropRuns ⟨a, r, b⟩ k R = g.eprop ⟨a, nm, b⟩ k) ∧
    (∀ run' ∈ R, ∀ p ∈ run'.eprops, p.1.1.rel < s.interner.length) := by
  intro run R
  have hlen : s0.interner.length ≤ s.interner.length := hst.ext.pre.length_le
  have hdead : ∀ n, isTombNode R n = true ↔ n ∈ g.dead := by
    intro n
    show isTombNode (run :: s0.runs) n = true ↔ _
    rw [isTombNode_cons, Bool.or_eq_true, hS.dead n, hst.dead n]
    have : run.tombNodes.contains n = true ↔ n ∈ t.mt.tombNodes := by
      show (isort (· ≤ ·) t.mt.tombNodes).contains n = true ↔ _
      rw [List.contains_eq_mem, decide_eq_true_eq, mem_isort]
    rw [this]; exact or_comm
  refine ⟨hdead, ?_, ?_, ?_, ?_, ?_, ?_⟩
  · intro r nm a b hr
    show visE ⟨a, r, b⟩ (run :: s0.runs) = _
    rw [visE_cons', hst.edges r nm a b hr]
    have h1 : run.edges.count ⟨a, r, b⟩ = t.mt.edges.count ⟨a, r, b⟩ := count_isort _ _ _
    have h2 : ((⟨a, r, b⟩ : Edge) ∈ run.tombEdges ∨ a ∈ run.tombNodes ∨ b ∈ run.tombNodes) ↔
        ((⟨a, r, b⟩ : Edge) ∈ t.mt.tombEdges ∨ a ∈ t.mt.tombNodes ∨ b ∈ t.mt.tombNodes) := by
      show (_ ∈ isort Edge.le t.mt.tombEdges ∨ a ∈ isort (· ≤ ·) t.mt.tombNodes ∨ b ∈ isort (· ≤ ·) t.mt.tombNodes) ↔ _
      simp only [mem_isort]
    rw [h1]
    congr 1
    by_cases hc : ((⟨a, r, b⟩ : Edge) ∈ t.mt.tombEdges ∨ a ∈ t.mt.tombNodes ∨ b ∈ t.mt.tombNodes)
    · rw [if_pos (h2.mpr hc), if_pos hc]
    · rw [if_neg (fun h => hc (h2.mp h)), if_neg hc]
      by_cases hlt : r < s0.interner.length
      · exact hS.edges r nm a b (old_of_lt hst.ext.pre hr hlt)
      · have hge := Nat.le_of_not_lt hlt
        rw [visE_zero_of_rel_ge _ _ _ hS.runsRel (by exact hge)]
        exact (mult_zero_of_typ_not_mem g0 _ hst.rels0 nm (not_mem_of_new hst.ext.pre hst.ext.nodup hr hge) a b).symm
  · refine ⟨?_, hS.runsOK⟩
    intro e he
    have he' : e ∈ t.mt.edges := (mem_isort _ _ _).mp he
    obtain ⟨h1, h2, _⟩ := hst.mtOK e he'
    constructor
    · rw [Bool.eq_false_iff]; intro h; exact h1 ((hdead _).mp h)
    · rw [Bool.eq_false_iff]; intro h; exact h2 ((hdead _).mp h)
  · intro run' hr' e he
    rw [List.mem_cons] at hr'
    rcases hr' with h | h
    · subst h; exact (hst.mtOK e ((mem_isort _ _ _).mp he)).2.2
    · exact Nat.lt_of_lt_of_le (hS.runsRel run' h e he) hlen
  · intro n k hn
    have hn0 : n ∉ g0.dead := fun h => hn ((hst.dead n).mpr (Or.inl h))
    show npropRuns n k (run :: s0.runs) = _
    rw [hst.nprops n k hn]
    simp only [npropRuns]
    show (if t.mt.nDel.contains (n, k) = true then none else
      match t.mt.nprops.lookup (n, k) with
      | some v => some v
      | none => npropRuns n k s0.runs) = _
    by_cases hd : (n, k) ∈ t.mt.nDel
    · have : t.mt.nDel.contains (n, k) = true := by simpa using hd
      rw [if_pos this, hst.mtN _ hd]; simp [hd]
    · have : ¬ t.mt.nDel.contains (n, k) = true := by simpa using hd
      rw [if_neg this, hS.nprops n k hn0]
      cases t.mt.nprops.lookup (n, k) <;> simp [hd]
  · intro r nm a b k hr ha hb
    have ha0 : a ∉ g0.dead := fun h => ha ((hst.dead a).mpr (Or.inl h))
    have hb0 : b ∉ g0.dead := fun h => hb ((hst.dead b).mpr (Or.inl h))
    show epropRuns ⟨a, r, b⟩ k (run :: s0.runs) = _
    rw [hst.eprops r nm a b k hr ha hb]
    simp only [epropRuns]
    show (if t.mt.eDel.contains (⟨a, r, b⟩, k) = true then none else
      match t.mt.eprops.lookup (⟨a, r, b⟩, k) with
      | some v => some v
      | none => epropRuns ⟨a, r, b⟩ k s0.runs) = _
    have hold : epropRuns ⟨a, r, b⟩ k s0.runs = g0.eprop ⟨a, nm, b⟩ k := by
      by_cases hlt : r < s0.interner.length
      · exact hS.eprops r nm a b k (old_of_lt hst.ext.pre hr hlt) ha0 hb0
      · have hge := Nat.le_of_not_lt hlt
        rw [epropRuns_none_of_rel_ge _ _ _ _ hS.runsERel (by exact hge)]
        exact (eprop_none_of_typ_not_mem g0 _ hst.eprops0 nm (not_mem_of_new hst.ext.pre hst.ext.nodup hr hge) a b k).symm
    by_cases hd : ((⟨a, r, b⟩ : Edge), k) ∈ t.mt.eDel
    · have : t.mt.eDel.contains (⟨a, r, b⟩, k) = true := by simpa using hd
      rw [if_pos this, hst.mtE _ hd]; simp [hd]
    · have : ¬ t.mt.eDel.contains (⟨a, r, b⟩, k) = true := by simpa using hd
      rw [if_neg this, hold]
      cases t.mt.eprops.lookup ((⟨a, r, b⟩ : Edge), k) <;> simp [hd]
  · intro run' hr' p hp
    rw [List.mem_cons] at hr'
    rcases hr' with h | h
    · subst h; exact hst.mtERel p hp
    · exact Nat.lt_of_lt_of_le (hS.runsERel run' h p hp) hlen

/-- an empty run on top changes no read -/
theorem empty_run_reads (run : Run) (he : run.isEmpty = true) (rs : List Run) :
    (∀ n, isTombNode (run :: rs) n = isTombNode rs n) ∧
    (∀ e, visE e (run :: rs) = visE e rs) ∧
    (RunsOK (run :: rs) → RunsOK rs) ∧
    (∀ n k, npropRuns n k (run :: rs) = npropRuns n k rs) ∧
    (∀ e k, epropRuns e k (run :: rs) = epropRuns e k rs) := by
  simp only [Run.isEmpty, Bool.and_eq_true, List.isEmpty_iff] at he
  obtain ⟨⟨⟨⟨⟨⟨h1, h2⟩, h3⟩, h4⟩, h5⟩, h6⟩, h7⟩ := he
  refine ⟨?_, ?_, ?_, ?_, ?_⟩
  · intro n; rw [isTombNode_cons, h2]; simp
  · intro e; rw [visE_cons', h1, h2, h3]; simp
  · intro h; exact h.2
  · intro n k; simp [npropRuns, h4, h6]
  · intro e k; simp [epropRuns, h5, h7]

/-- the state after a commit whose idmap step succeeded -/
def committed (c : Cfg) (s : Engine) (t : Txn) (m : IdMap) : Engine :=
  { s with wal := s.wal ++ t.walRecords c (t.mt.freeze t.txid), idmap := m,
           vecs := t.vecs.foldl (fun vs p => upsert p.1 p.2 vs) s.vecs,
           runs := if (t.mt.freeze t.txid).isEmpty then s.runs else t.mt.freeze t.txid :: s.runs,
           nextTxid := s.nextTxid + 1 }

theorem commit_ok_eq (c : Cfg) (s : Engine) (t : Txn) (m : IdMap)
    (hok : applyIdmap s.idmap t.created t.addL t.delL = (m, none)) :
    (s.commit c t).1 = committed c s t m := by
  unfold Engine.commit committed
  simp only [hok]

/-- `commit` re-establishes the graph part of the invariant -/
theorem SimG.commit {s0 g0 s t g} (c : Cfg) (hS : SimG s0 g0) (hst : Staged s0 g0 s t g) (m : IdMap)
    (hok : applyIdmap s.idmap t.created t.addL t.delL = (m, none)) :
    SimG (s.commit c t).1 g := by
  obtain ⟨c1, c2, c3, c4, c5, c6, c7⟩ := commit_clauses hS hst t.txid
  rw [commit_ok_eq c s t m hok]
  have hruns : (committed c s t m).runs =
      if (t.mt.freeze t.txid).isEmpty then s0.runs else t.mt.freeze t.txid :: s0.runs := by
    show (if (t.mt.freeze t.txid).isEmpty then s.runs else t.mt.freeze t.txid :: s.runs) = _
    rw [hst.ext.runs]
  have hint : (committed c s t m).interner = s.interner := rfl
  have hsegs : (committed c s t m).segs = s.segs := rfl
  have hroot : (committed c s t m).propsRoot = s.propsRoot := rfl
  by_cases he : (t.mt.freeze t.txid).isEmpty = true
  · rw [if_pos he] at hruns
    obtain ⟨e1, e2, e3, e4, e5⟩ := empty_run_reads _ he s0.runs
    refine { segs := by rw [hsegs, hst.ext.segs]; exact hS.segs, root := by rw [hroot, hst.ext.root]; exact hS.root,
             nodup := by rw [hint]; exact hst.ext.nodup, dead := ?_, edges := ?_, runsOK := ?_, runsRel := ?_,
             relsInt := by rw [hint]; exact hst.relsInt, nprops := ?_, eprops := ?_, runsERel := ?_,
             epropsInt := by rw [hint]; exact hst.epropsInt }
    · intro n; rw [hruns, ← e1]; exact c1 n
    · intro r nm a b hr; rw [hint] at hr; rw [hruns, ← e2]; exact c2 r nm a b hr
    · rw [hruns]; exact e3 c3
    · intro run hr; rw [hruns] at hr; rw [hint]; exact c4 run (List.mem_cons_of_mem _ hr)
    · intro n k hn; rw [hruns, ← e4]; exact c5 n k hn
    · intro r nm a b k hr ha hb; rw [hint] at hr; rw [hruns, ← e5]; exact c6 r nm a b k hr ha hb
    · intro run hr; rw [hruns] at hr; rw [hint]; exact c7 run (List.mem_cons_of_mem _ hr)
  · rw [if_neg he] at hruns
    refine { segs := by rw [hsegs, hst.ext.segs]; exact hS.segs, root := by rw [hroot, hst.ext.root]; exact hS.root,
             nodup := by rw [hint]; exact hst.ext.nodup, dead := ?_, edges := ?_, runsOK := ?_, runsRel := ?_,
             relsInt := by rw [hint]; exact hst.relsInt, nprops := ?_, eprops := ?_, runsERel := ?_,
             epropsInt := by rw [hint]; exact hst.epropsInt }
    · intro n; rw [hruns]; exact c1 n
    · intro r nm a b hr; rw [hint] at hr; rw [hruns]; exact c2 r nm a b hr
    · rw [hruns]; exact c3
    · rw [hruns, hint]; exact c4
    · intro n k hn; rw [hruns]; exact c5 n k hn
    · intro r nm a b k hr ha hb; rw [hint] at hr; rw [hruns]; exact c6 r nm a b k hr ha hb
    · rw [hruns, hint]; exact c7

end Nervus.Storage
