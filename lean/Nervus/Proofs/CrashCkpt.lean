/-
  Proofs.CrashCkpt — the log side of a manifest + checkpoint transaction (compaction,
  checkpoint-on-close): what `scan`, the replayed operations and the replayed runs become when the
  checkpoint is raised.
-/
import Nervus.Proofs.CrashPages
namespace Nervus.Crash

/-! ### a block of operations between BeginTx and CommitTx -/

theorem committed_partial_ops {rs0 : List Rec} {cs : List CTx} (h : committed rs0 = .ok cs)
    (t : Nat) (ops : List Rec) (hops : ∀ r ∈ ops, IsOp r) (i : Nat) (hi : i ≤ ops.length + 1) :
    committed (rs0 ++ (Rec.begin t :: ops ++ [Rec.commit t]).take i) = .ok cs := by
  obtain ⟨cur, pend, acc, hr, hacc⟩ := committed_runP h
  rw [committed_eq, runP_append, hr]
  simp only
  cases i with
  | zero => simp [runP, Except.map, hacc]
  | succ i =>
    have : (Rec.begin t :: ops ++ [Rec.commit t]).take (i + 1) = .begin t :: ops.take i := by
      simp only [List.cons_append, List.take_succ_cons, List.cons.injEq, true_and]
      rw [List.take_append_of_le_length (by omega)]
    rw [this, runP_partial _ (fun r hr => hops r (List.mem_of_mem_take hr))]
    simp [Except.map, hacc]

theorem committed_full_ops {rs0 : List Rec} {cs : List CTx} (h : committed rs0 = .ok cs) (t : Nat) (ops : List Rec)
    (hops : ∀ r ∈ ops, IsOp r) :
    committed (rs0 ++ (Rec.begin t :: ops ++ [Rec.commit t])) = .ok (cs ++ [⟨t, ops⟩]) := by
  obtain ⟨cur, pend, acc, hr, hacc⟩ := committed_runP h
  rw [committed_eq, runP_append, hr]
  simp only
  rw [runP_block _ hops]
  simp [Except.map, hacc]

/-! ### scan -/

theorem scan_snoc_manifest (cs : List CTx) (t ep : Nat) (segs : List Nat) (pr : Nat) (pt : Bool) (up : Nat)
    (hep : (scan cs).epoch ≤ ep) :
    scan (cs ++ [⟨t, [.manifest ep segs pr pt, .checkpoint up ep pr pt]⟩]) =
      { epoch := ep, segs := segs, ckpt := up, maxTxid := max (scan cs).maxTxid t, proot := pr, ptop := pt } := by
  have hep' : (List.foldl scanTx {} cs).epoch ≤ ep := hep
  simp [scan, List.foldl_append, scanTx, scanOp, hep']

/-! ### raising the checkpoint -/

theorem foldl_max_le : ∀ (l : List Nat) (a B : Nat), a ≤ B → (∀ x ∈ l, x ≤ B) → l.foldl max a ≤ B
  | [], _, _, ha, _ => ha
  | x :: l, a, B, ha, h => by
    simp only [List.foldl]
    exact foldl_max_le l _ B (Nat.max_le.mpr ⟨ha, h x (by simp)⟩) (fun y hy => h y (by simp [hy]))

theorem le_foldl_max : ∀ (l : List Nat) (a : Nat), a ≤ l.foldl max a ∧ ∀ x ∈ l, x ≤ l.foldl max a
  | [], a => ⟨Nat.le_refl _, by simp⟩
  | y :: l, a => by
    simp only [List.foldl]
    obtain ⟨h1, h2⟩ := le_foldl_max l (max a y)
    refine ⟨Nat.le_trans (Nat.le_max_left _ _) h1, ?_⟩
    intro x hx
    rcases List.mem_cons.mp hx with rfl | hx
    · exact Nat.le_trans (Nat.le_max_right _ _) h1
    · exact h2 x hx

theorem mem_logRuns {c : Nat} {r : Run} : ∀ {cs : List CTx}, r ∈ logRuns c cs → ∃ tx ∈ cs, r = runOf tx ∧ ¬ tx.txid ≤ c
  | [], h => by simp [logRuns] at h
  | tx :: rest, h => by
    simp only [logRuns] at h
    by_cases h1 : tx.txid ≤ c
    · simp only [h1, if_true] at h
      obtain ⟨tx', hm, he⟩ := mem_logRuns h
      exact ⟨tx', by simp [hm], he⟩
    · simp only [h1, if_false] at h
      by_cases h2 : ((runOf tx).edges.isEmpty && (runOf tx).props.isEmpty) = true
      · simp only [h2, if_true] at h
        obtain ⟨tx', hm, he⟩ := mem_logRuns h
        exact ⟨tx', by simp [hm], he⟩
      · simp only [h2] at h
        rcases List.mem_cons.mp h with rfl | h
        · exact ⟨tx, by simp, rfl, h1⟩
        · obtain ⟨tx', hm, he⟩ := mem_logRuns h
          exact ⟨tx', by simp [hm], he⟩

theorem logRuns_raise (c1 c2 : Nat) (hle : c1 ≤ c2) : ∀ (cs : List CTx), (∀ r ∈ logRuns c1 cs, r.txid ≤ c2) → logRuns c2 cs = []
  | [], _ => rfl
  | tx :: rest, h => by
    by_cases h2 : tx.txid ≤ c2
    · simp only [logRuns, h2, if_true]
      apply logRuns_raise c1 c2 hle rest
      intro r hr
      apply h r
      simp only [logRuns]
      by_cases h1 : tx.txid ≤ c1
      · simpa [h1] using hr
      · by_cases h3 : ((runOf tx).edges.isEmpty && (runOf tx).props.isEmpty) = true
        · simpa [h1, h3] using hr
        · simp [h1, h3, hr]
    · have h1 : ¬ tx.txid ≤ c1 := by omega
      by_cases h3 : ((runOf tx).edges.isEmpty && (runOf tx).props.isEmpty) = true
      · simp only [logRuns, h2, if_false, h3, if_true]
        apply logRuns_raise c1 c2 hle rest
        intro r hr
        apply h r
        simpa [logRuns, h1, h3] using hr
      · exfalso
        have : (runOf tx).txid ≤ c2 := h (runOf tx) (by simp [logRuns, h1, h3])
        exact h2 this

theorem flatOps_all_gt (c : Nat) : ∀ (cs : List CTx), (∀ b ∈ cs, c < b.txid) → flatOps c cs = cs.flatMap (·.ops)
  | [], _ => rfl
  | tx :: rest, h => by
    have h1 : ¬ tx.txid ≤ c := by have := h tx (by simp); omega
    simp [flatOps, h1, flatOps_all_gt c rest (fun b hb => h b (by simp [hb]))]

theorem flatOps_raise (c1 c2 : Nat) (hle : c1 ≤ c2) : ∀ (cs : List CTx), TxMono cs → ∃ X, flatOps c1 cs = X ++ flatOps c2 cs
  | [], _ => ⟨[], rfl⟩
  | tx :: rest, hm => by
    have hm' := List.pairwise_cons.mp hm
    obtain ⟨X, hX⟩ := flatOps_raise c1 c2 hle rest hm'.2
    by_cases h1 : tx.txid ≤ c1
    · have h2 : tx.txid ≤ c2 := by omega
      exact ⟨X, by simp [flatOps, h1, h2, hX]⟩
    · by_cases h2 : tx.txid ≤ c2
      · exact ⟨tx.ops ++ X, by simp [flatOps, h1, h2, hX]⟩
      · refine ⟨[], ?_⟩
        have e1 := flatOps_all_gt c1 rest (fun b hb => by have := hm'.1 b hb; omega)
        have e2 := flatOps_all_gt c2 rest (fun b hb => by have := hm'.1 b hb; omega)
        simp [flatOps, h1, h2, e1, e2]

theorem seqFrom_length (N : List Nat) : ∀ (n i : Nat), (seqFrom N i n).length = n
  | 0, _ => rfl
  | n + 1, i => by simp [seqFrom, seqFrom_length N n]

theorem seqFrom_suffix (N : List Nat) (c n : Nat) (A B : List (Nat × Nat)) (h : A ++ B = seqFrom N c n) :
    A.length ≤ n ∧ B = seqFrom N (c + A.length) (n - A.length) := by
  have hl : A.length + B.length = n := by
    have := congrArg List.length h
    rwa [List.length_append, seqFrom_length] at this
  refine ⟨by omega, ?_⟩
  have hn : n = A.length + (n - A.length) := by omega
  rw [hn, seqFrom_append] at h
  have := List.append_inj h (by rw [seqFrom_length])
  exact this.2

/-- the replayed runs all carry a transaction id above the checkpoint -/
theorem logRuns_gt {c : Nat} {cs : List CTx} {r : Run} (h : r ∈ logRuns c cs) : c < r.txid := by
  obtain ⟨tx, _, rfl, hn⟩ := mem_logRuns h
  show c < tx.txid
  omega

end Nervus.Crash
