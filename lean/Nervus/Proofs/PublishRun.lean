/-
  Proofs/PublishRun.lean — what publishing one more run on top of an engine state does to every read,
  expressed through the reads of the state below (segments and store included).  Used for the
  history-level C05 statement: two engines whose reads agree still agree after the same commit.
-/
import Nervus.Proofs.EngineCompactMap
namespace Nervus.Storage

theorem blockedOut_append (bn a : List Nat) (be b : List Edge) (e : Edge) :
    blockedOut (bn ++ a) (be ++ b) e = (blockedOut bn be e || blockedOut a b e) := by
  unfold blockedOut
  rw [List.contains_append, List.contains_append]
  cases bn.contains e.dst <;> cases a.contains e.dst <;> cases be.contains e <;> cases b.contains e <;> rfl

theorem blockedIn_append (bn a : List Nat) (be b : List Edge) (e : Edge) :
    blockedIn (bn ++ a) (be ++ b) e = (blockedIn bn be e || blockedIn a b e) := by
  unfold blockedIn
  rw [List.contains_append, List.contains_append]
  cases bn.contains e.src <;> cases a.contains e.src <;> cases be.contains e <;> cases b.contains e <;> rfl

theorem contains_append_of_not_mem {bn a : List Nat} {x : Nat} (h : x ∉ bn) :
    (bn ++ a).contains x = a.contains x := by
  simp [h]

/-- the run phase started with blocked sets `bn ++ a`, `be ++ b` (the node itself not in `bn`) is the
    run phase started with `a`, `b`, filtered -/
theorem outRuns_shift (src : Nat) (rel : Option Nat) (bn : List Nat) (be : List Edge) (hs : src ∉ bn)
    (rs : List Run) : ∀ (a : List Nat) (b : List Edge),
    outRuns src rel rs (bn ++ a) (be ++ b) =
      ((outRuns src rel rs a b).1.filter (fun e => !blockedOut bn be e),
       (outRuns src rel rs a b).2.map (fun f => (bn ++ f.1, be ++ f.2))) := by
  induction rs with
  | nil =>
    intro a b
    simp only [outRuns, contains_append_of_not_mem hs]
    split <;> simp
  | cons r rs ih =>
    intro a b
    simp only [outRuns, contains_append_of_not_mem hs]
    by_cases ha : a.contains src = true
    · have hm : src ∈ a := by simpa using ha
      simp [hm]
    · simp only [ha, Bool.false_eq_true, if_false]
      rw [List.append_assoc, List.append_assoc, ih]
      simp only [List.filter_append]
      congr 2
      by_cases ht : r.tombNodes.contains src = true
      · have hm : src ∈ r.tombNodes := by simpa using ht
        simp [hm]
      · simp only [ht, Bool.false_eq_true, if_false, List.filter_filter]
        apply List.filter_congr
        intro e _
        rw [blockedOut_append]
        cases blockedOut bn be e <;> cases blockedOut a b e <;> cases relOk rel e <;> rfl

theorem inRuns_shift (dst : Nat) (rel : Option Nat) (bn : List Nat) (be : List Edge) (hs : dst ∉ bn)
    (rs : List Run) : ∀ (a : List Nat) (b : List Edge),
    inRuns dst rel rs (bn ++ a) (be ++ b) =
      ((inRuns dst rel rs a b).1.filter (fun e => !blockedIn bn be e),
       (inRuns dst rel rs a b).2.map (fun f => (bn ++ f.1, be ++ f.2))) := by
  induction rs with
  | nil =>
    intro a b
    simp only [inRuns, contains_append_of_not_mem hs]
    split <;> simp
  | cons r rs ih =>
    intro a b
    simp only [inRuns, contains_append_of_not_mem hs]
    by_cases ha : a.contains dst = true
    · have hm : dst ∈ a := by simpa using ha
      simp [hm]
    · simp only [ha, Bool.false_eq_true, if_false]
      rw [List.append_assoc, List.append_assoc, ih]
      simp only [List.filter_append]
      congr 2
      by_cases ht : r.tombNodes.contains dst = true
      · have hm : dst ∈ r.tombNodes := by simpa using ht
        simp [hm]
      · simp only [ht, Bool.false_eq_true, if_false, List.filter_filter]
        apply List.filter_congr
        intro e _
        rw [blockedIn_append]
        cases blockedIn bn be e <;> cases blockedIn a b e <;> cases relOk rel e <;> rfl

/-- a terminated iterator: the node is in the blocked set from the start -/
theorem outRuns_blocked (src : Nat) (rel : Option Nat) (rs : List Run) (bn : List Nat) (be : List Edge)
    (h : bn.contains src = true) : outRuns src rel rs bn be = ([], none) := by
  have hm : src ∈ bn := by simpa using h
  cases rs <;> simp [outRuns, hm]

theorem inRuns_blocked (dst : Nat) (rel : Option Nat) (rs : List Run) (bn : List Nat) (be : List Edge)
    (h : bn.contains dst = true) : inRuns dst rel rs bn be = ([], none) := by
  have hm : dst ∈ bn := by simpa using h
  cases rs <;> simp [inRuns, hm]

/-- segment phase: filtering by the union of two blocked sets = filtering twice -/
theorem mapM_filter_comp {σ} (f : σ → Option (List Edge)) (p q : Edge → Bool) (l : List σ) :
    l.mapM (fun g => (f g).map (·.filter (fun e => p e && q e))) =
      (l.mapM (fun g => (f g).map (·.filter q))).map (·.map (·.filter p)) := by
  induction l with
  | nil => rfl
  | cons g gs ih =>
    rw [mapM_cons_some, mapM_cons_some, ih]
    cases f g with
    | none => rfl
    | some x =>
      simp only [Option.map_some, Option.bind_some]
      cases gs.mapM (fun g => (f g).map (·.filter q)) with
      | none => rfl
      | some ls =>
        show some (_ :: _) = some (List.map _ (_ :: _))
        rw [List.map_cons, List.filter_filter]

theorem filter_flatten' {α} (p : α → Bool) (ls : List (List α)) :
    (ls.map (·.filter p)).flatten = ls.flatten.filter p := by
  induction ls with
  | nil => rfl
  | cons l ls ih => rw [List.map_cons, List.flatten_cons, List.flatten_cons, List.filter_append, ih]

/-- the answer of `neighbors` after one more run `r` was published on top -/
def pushOut (r : Run) (n : Nat) (rel : Option Nat) (o : Option (List Edge)) : Option (List Edge) :=
  if r.tombNodes.contains n then some []
  else o.map (fun l => (r.edgesForSrc n).filter (relOk rel) ++
                        l.filter (fun e => !blockedOut r.tombNodes r.tombEdges e))

def pushIn (r : Run) (n : Nat) (rel : Option Nat) (o : Option (List Edge)) : Option (List Edge) :=
  if r.tombNodes.contains n then some []
  else o.map (fun l => (r.edgesForDst n).filter (relOk rel) ++
                        l.filter (fun e => !blockedIn r.tombNodes r.tombEdges e))

theorem neighbors_cons (x x' : Engine) (r : Run) (hr : x'.runs = r :: x.runs) (hs : x'.segs = x.segs)
    (n : Nat) (rel : Option Nat) : x'.neighbors n rel = pushOut r n rel (x.neighbors n rel) := by
  rw [neighbors_eq]; unfold Engine.neighborsFlushed pushOut
  rw [hr, hs]
  simp only [outRuns, List.contains_nil, Bool.false_eq_true, if_false, List.nil_append]
  by_cases ht : r.tombNodes.contains n = true
  · have hm : n ∈ r.tombNodes := by simpa using ht
    simp [hm, outRuns_blocked n rel x.runs r.tombNodes r.tombEdges ht]
  · have hnm : n ∉ r.tombNodes := by simpa using ht
    simp only [ht, Bool.false_eq_true, if_false]
    have hsh := outRuns_shift n rel r.tombNodes r.tombEdges hnm x.runs [] []
    simp only [List.append_nil] at hsh
    rw [hsh]
    have hcur : (r.edgesForSrc n).filter (fun e => relOk rel e && !blockedOut [] [] e) =
        (r.edgesForSrc n).filter (relOk rel) := by
      apply List.filter_congr; intro e _; rw [blockedOut_nil]; simp
    rw [hcur]
    cases hfin : (outRuns n rel x.runs [] []).2 with
    | none =>
      have : outRuns n rel x.runs [] [] = ((outRuns n rel x.runs [] []).1, none) := by rw [← hfin]
      rw [this]; simp
    | some f =>
      have : outRuns n rel x.runs [] [] = ((outRuns n rel x.runs [] []).1, some (f.1, f.2)) := by rw [← hfin]
      rw [this]
      simp only [Option.map_some]
      have hm := mapM_filter_comp (fun (g : Seg) => g.neighbors n rel)
        (fun e => !blockedOut r.tombNodes r.tombEdges e) (fun e => !blockedOut f.1 f.2 e) x.segs
      have hfun : (fun (g : Seg) => (g.neighbors n rel).map (·.filter (fun e => !blockedOut (r.tombNodes ++ f.1) (r.tombEdges ++ f.2) e))) =
          (fun (g : Seg) => (g.neighbors n rel).map (·.filter (fun e => (!blockedOut r.tombNodes r.tombEdges e) && (!blockedOut f.1 f.2 e)))) := by
        funext g; congr 1; funext l; apply List.filter_congr; intro e _; rw [blockedOut_append]; simp
      rw [hfun, hm]
      cases x.segs.mapM (fun (g : Seg) => (g.neighbors n rel).map (·.filter (fun e => !blockedOut f.1 f.2 e))) with
      | none => rfl
      | some ls =>
        show some _ = some _
        dsimp only
        rw [filter_flatten', List.filter_append, List.append_assoc]

theorem incoming_cons (c : Cfg) (x x' : Engine) (r : Run) (hr : x'.runs = r :: x.runs) (hs : x'.segs = x.segs)
    (n : Nat) (rel : Option Nat) : x'.incoming c n rel = pushIn r n rel (x.incoming c n rel) := by
  rw [incoming_eq]; unfold Engine.incomingFlushed pushIn
  rw [hr, hs]
  simp only [inRuns, List.contains_nil, Bool.false_eq_true, if_false, List.nil_append]
  by_cases ht : r.tombNodes.contains n = true
  · have hm : n ∈ r.tombNodes := by simpa using ht
    simp [hm, inRuns_blocked n rel x.runs r.tombNodes r.tombEdges ht]
  · have hnm : n ∉ r.tombNodes := by simpa using ht
    simp only [ht, Bool.false_eq_true, if_false]
    have hsh := inRuns_shift n rel r.tombNodes r.tombEdges hnm x.runs [] []
    simp only [List.append_nil] at hsh
    rw [hsh]
    have hcur : (r.edgesForDst n).filter (fun e => relOk rel e && !blockedIn [] [] e) =
        (r.edgesForDst n).filter (relOk rel) := by
      apply List.filter_congr; intro e _; rw [blockedIn_nil]; simp
    rw [hcur]
    cases hfin : (inRuns n rel x.runs [] []).2 with
    | none =>
      have : inRuns n rel x.runs [] [] = ((inRuns n rel x.runs [] []).1, none) := by rw [← hfin]
      rw [this]; simp
    | some f =>
      have : inRuns n rel x.runs [] [] = ((inRuns n rel x.runs [] []).1, some (f.1, f.2)) := by rw [← hfin]
      rw [this]
      simp only [Option.map_some]
      have hm := mapM_filter_comp (fun (g : Seg) => g.incomingG c.csrGuard n rel)
        (fun e => !blockedIn r.tombNodes r.tombEdges e) (fun e => !blockedIn f.1 f.2 e) x.segs
      have hfun : (fun (g : Seg) => (g.incomingG c.csrGuard n rel).map (·.filter (fun e => !blockedIn (r.tombNodes ++ f.1) (r.tombEdges ++ f.2) e))) =
          (fun (g : Seg) => (g.incomingG c.csrGuard n rel).map (·.filter (fun e => (!blockedIn r.tombNodes r.tombEdges e) && (!blockedIn f.1 f.2 e)))) := by
        funext g; congr 1; funext l; apply List.filter_congr; intro e _; rw [blockedIn_append]; simp
      rw [hfun, hm]
      cases x.segs.mapM (fun (g : Seg) => (g.incomingG c.csrGuard n rel).map (·.filter (fun e => !blockedIn f.1 f.2 e))) with
      | none => rfl
      | some ls =>
        show some _ = some _
        dsimp only
        rw [filter_flatten', List.filter_append, List.append_assoc]

theorem PermOpt.refl (o : Option (List Edge)) : PermOpt o o := by
  cases o with
  | none => exact Or.inl ⟨rfl, rfl⟩
  | some l => exact Or.inr ⟨l, l, rfl, rfl, List.Perm.refl _⟩

theorem PermOpt.symm {a b : Option (List Edge)} (h : PermOpt a b) : PermOpt b a := by
  rcases h with ⟨h1, h2⟩ | ⟨l, l', h1, h2, hp⟩
  · exact Or.inl ⟨h2, h1⟩
  · exact Or.inr ⟨l', l, h2, h1, hp.symm⟩

theorem PermOpt.trans {a b c : Option (List Edge)} (h1 : PermOpt a b) (h2 : PermOpt b c) : PermOpt a c := by
  rcases h1 with ⟨ha, hb⟩ | ⟨l, l', ha, hb, hp⟩
  · rcases h2 with ⟨_, hc⟩ | ⟨m, m', hb', _, _⟩
    · exact Or.inl ⟨ha, hc⟩
    · rw [hb] at hb'; cases hb'
  · rcases h2 with ⟨hb', _⟩ | ⟨m, m', hb', hc, hq⟩
    · rw [hb] at hb'; cases hb'
    · rw [hb] at hb'; cases hb'
      exact Or.inr ⟨l, m', ha, hc, hp.trans hq⟩

theorem PermOpt.pushOut {a b : Option (List Edge)} (h : PermOpt a b) (r : Run) (n : Nat) (rel : Option Nat) :
    PermOpt (pushOut r n rel a) (pushOut r n rel b) := by
  unfold Storage.pushOut
  split
  · exact PermOpt.refl _
  · rcases h with ⟨ha, hb⟩ | ⟨l, l', ha, hb, hp⟩
    · rw [ha, hb]; exact Or.inl ⟨rfl, rfl⟩
    · rw [ha, hb]; exact Or.inr ⟨_, _, rfl, rfl, List.Perm.append_left _ (hp.filter _)⟩

theorem PermOpt.pushIn {a b : Option (List Edge)} (h : PermOpt a b) (r : Run) (n : Nat) (rel : Option Nat) :
    PermOpt (pushIn r n rel a) (pushIn r n rel b) := by
  unfold Storage.pushIn
  split
  · exact PermOpt.refl _
  · rcases h with ⟨ha, hb⟩ | ⟨l, l', ha, hb, hp⟩
    · rw [ha, hb]; exact Or.inl ⟨rfl, rfl⟩
    · rw [ha, hb]; exact Or.inr ⟨_, _, rfl, rfl, List.Perm.append_left _ (hp.filter _)⟩

end Nervus.Storage
