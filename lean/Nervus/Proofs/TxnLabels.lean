/-
  Helper lemmas for C24's name-level fragment (labels added / removed by name inside one transaction).  Core only.
-/
import Nervus.Model.TxnLabels
namespace Nervus.TxnLabels

theorem snapshot_per_statement : Generated.capiTxnSnapshotPerStatement = true := by decide

theorem codeStep_def : codeStep = step true := by unfold codeStep; rw [snapshot_per_statement]

theorem createdNodes_append (a b : List Prim) : createdNodes (a ++ b) = createdNodes a ++ createdNodes b := by
  induction a with
  | nil => rfl
  | cons p ps ih => cases p <;> simp [createdNodes, ih]

theorem addsFor_append (id : Nat) (a b : List Prim) : addsFor id (a ++ b) = addsFor id a ++ addsFor id b := by
  induction a with
  | nil => rfl
  | cons p ps ih =>
    cases p <;> simp only [List.cons_append, addsFor, ih]
    split <;> simp

theorem remsFor_append (id : Nat) (a b : List Prim) : remsFor id (a ++ b) = remsFor id a ++ remsFor id b := by
  induction a with
  | nil => rfl
  | cons p ps ih =>
    cases p <;> simp only [List.cons_append, remsFor, ih]
    split <;> simp

theorem mem_addsFor_map (id x : Nat) (rows : List Node) (y : Nat) :
    y ∈ addsFor id (rows.map (fun m => Prim.addL m.id x)) ↔ y = x ∧ ∃ m ∈ rows, m.id = id := by
  induction rows with
  | nil => simp [addsFor]
  | cons r rs ih =>
    simp only [List.map_cons, addsFor]
    by_cases h : r.id = id
    · simp only [h, if_true, List.mem_cons, ih]
      constructor
      · rintro (h1 | h1)
        · exact ⟨h1, r, by simp, h⟩
        · exact ⟨h1.1, by obtain ⟨m, hm, e⟩ := h1.2; exact ⟨m, by simp [hm], e⟩⟩
      · rintro ⟨h1, _⟩; exact Or.inl h1
    · simp only [h, if_false, ih]
      constructor
      · rintro ⟨h1, m, hm, e⟩; exact ⟨h1, m, by simp [hm], e⟩
      · rintro ⟨h1, m, hm, e⟩
        refine ⟨h1, m, ?_, e⟩
        rcases List.mem_cons.1 hm with hm | hm
        · subst hm; exact absurd e h
        · exact hm

theorem mem_remsFor_map (id x : Nat) (rows : List Node) (y : Nat) :
    y ∈ remsFor id (rows.map (fun m => Prim.remL m.id x)) ↔ y = x ∧ ∃ m ∈ rows, m.id = id := by
  induction rows with
  | nil => simp [remsFor]
  | cons r rs ih =>
    simp only [List.map_cons, remsFor]
    by_cases h : r.id = id
    · simp only [h, if_true, List.mem_cons, ih]
      constructor
      · rintro (h1 | h1)
        · exact ⟨h1, r, by simp, h⟩
        · exact ⟨h1.1, by obtain ⟨m, hm, e⟩ := h1.2; exact ⟨m, by simp [hm], e⟩⟩
      · rintro ⟨h1, _⟩; exact Or.inl h1
    · simp only [h, if_false, ih]
      constructor
      · rintro ⟨h1, m, hm, e⟩; exact ⟨h1, m, by simp [hm], e⟩
      · rintro ⟨h1, m, hm, e⟩
        refine ⟨h1, m, ?_, e⟩
        rcases List.mem_cons.1 hm with hm | hm
        · subst hm; exact absurd e h
        · exact hm

theorem addsFor_remMap (id x : Nat) (rows : List Node) : addsFor id (rows.map (fun m => Prim.remL m.id x)) = [] := by
  induction rows with
  | nil => rfl
  | cons r rs ih => simp [addsFor, ih]

theorem remsFor_addMap (id x : Nat) (rows : List Node) : remsFor id (rows.map (fun m => Prim.addL m.id x)) = [] := by
  induction rows with
  | nil => rfl
  | cons r rs ih => simp [remsFor, ih]

theorem addsFor_hitMap (id : Nat) (rows : List Node) : addsFor id (rows.map (fun m => Prim.hit m.id)) = [] := by
  induction rows with
  | nil => rfl
  | cons r rs ih => simp [addsFor, ih]
theorem remsFor_hitMap (id : Nat) (rows : List Node) : remsFor id (rows.map (fun m => Prim.hit m.id)) = [] := by
  induction rows with
  | nil => rfl
  | cons r rs ih => simp [remsFor, ih]
theorem addsFor_edgeMap (id t : Nat) (rows : List Node) : addsFor id (rows.map (fun _ => Prim.edge t)) = [] := by
  induction rows with
  | nil => rfl
  | cons r rs ih => simp [addsFor, ih]
theorem remsFor_edgeMap (id t : Nat) (rows : List Node) : remsFor id (rows.map (fun _ => Prim.edge t)) = [] := by
  induction rows with
  | nil => rfl
  | cons r rs ih => simp [remsFor, ih]
theorem created_of_map_nocreate (rows : List Node) (f : Node → Prim) (hf : ∀ m, ∀ c, f m ≠ .create c) :
    createdNodes (rows.map f) = [] := by
  induction rows with
  | nil => rfl
  | cons r rs ih =>
    simp only [List.map_cons]
    cases hfr : f r with
    | create c => exact absurd hfr (hf r c)
    | _ => simp [createdNodes, ih]

/-- which rows of a label scan carry the id of a committed node `n`: exactly `n`'s own label decides -/
theorem scan_has_id (g : Graph) (created : List Node) (n : Node) (next l : Nat) (hn : n ∈ g)
    (huniq : ∀ m ∈ g, m.id = n.id → m.labels = n.labels) (hlt : ∀ m ∈ g, m.id < next)
    (hc : ∀ c ∈ created, next ≤ c.id) :
    (∃ m ∈ scanLabel g created l, m.id = n.id) ↔ l ∈ n.labels := by
  simp only [scanLabel, List.mem_filter, List.mem_append, List.contains_iff_mem]
  constructor
  · rintro ⟨m, ⟨hm | hm, hl⟩, e⟩
    · rw [← huniq m hm e]; exact hl
    · have := hc m hm; have := hlt n hn; omega
  · intro hl; exact ⟨n, ⟨Or.inl hn, hl⟩, rfl⟩


/-- what the staged writes of one statement contribute for the committed node `n` -/
structure StmtEffect (n : Node) (kn : List Nat) (nx : Nat) (s : Stmt) (prims : List Prim) (interned : List Nat) : Prop where
  fresh : ∀ c ∈ createdNodes prims, c.id = nx
  adds : ∀ y, y ∈ addsFor n.id prims ↔ ∃ l x, s = .addl l x ∧ y = x ∧ l ∈ n.labels
  rems : ∀ y, y ∈ remsFor n.id prims ↔
    (∃ l x, s = .reml l x ∧ y = x ∧ l ∈ n.labels ∧ x ∈ kn) ∨ (∃ x, s = .remall x ∧ y = x ∧ x ∈ kn)
  interns : ∀ l x, s = .addl l x → l ∈ n.labels → x ∈ interned

theorem exec_effect (g : Graph) (created : List Node) (n : Node) (next nx : Nat) (kn : List Nat) (s : Stmt)
    (hn : n ∈ g) (huniq : ∀ m ∈ g, m.id = n.id → m.labels = n.labels) (hlt : ∀ m ∈ g, m.id < next)
    (hc : ∀ c ∈ created, next ≤ c.id) :
    StmtEffect n kn nx s (exec g created kn nx s).1 (exec g created kn nx s).2 := by
  have hscan := fun l => scan_has_id g created n next l hn huniq hlt hc
  cases s with
  | crn l k => exact ⟨by simp [exec, createdNodes], by simp [exec, addsFor], by simp [exec, remsFor], by simp⟩
  | crx x k => exact ⟨by simp [exec, createdNodes], by simp [exec, addsFor], by simp [exec, remsFor], by simp⟩
  | seen l => exact ⟨by simp [exec, createdNodes], by simp [exec, addsFor], by simp [exec, remsFor], by simp⟩
  | addl l x =>
    refine ⟨?_, ?_, ?_, ?_⟩
    · simp only [exec]; rw [created_of_map_nocreate _ _ (by intro m c h; cases h)]; simp
    · intro y; simp only [exec, mem_addsFor_map, hscan]
      constructor
      · rintro ⟨h1, h2⟩; exact ⟨l, x, rfl, h1, h2⟩
      · rintro ⟨l', x', e, h1, h2⟩; cases e; exact ⟨h1, h2⟩
    · intro y; simp only [exec, remsFor_addMap]; simp
    · intro l' x' e hl
      cases e
      simp only [exec]
      have : ¬ (scanLabel g created l).isEmpty = true := by
        obtain ⟨m, hm, _⟩ := (hscan l).2 hl
        intro he
        rw [List.isEmpty_iff] at he
        rw [he] at hm; cases hm
      simp [this]
  | reml l x =>
    by_cases hk : kn.contains x = true
    · refine ⟨?_, ?_, ?_, by simp⟩
      · simp only [exec, hk, if_true]; rw [created_of_map_nocreate _ _ (by intro m c h; cases h)]; simp
      · intro y; simp only [exec, hk, if_true, addsFor_remMap]; simp
      · intro y; simp only [exec, hk, if_true, mem_remsFor_map, hscan]
        constructor
        · rintro ⟨h1, h2⟩; exact Or.inl ⟨l, x, rfl, h1, h2, by simpa using hk⟩
        · rintro (⟨l', x', e, h1, h2, _⟩ | ⟨x', e, _⟩)
          · cases e; exact ⟨h1, h2⟩
          · cases e
    · have hk' : kn.contains x = false := by simpa using hk
      have hk'' : x ∉ kn := by simpa using hk
      refine ⟨by simp [exec, hk'', createdNodes], by simp [exec, hk'', addsFor], ?_, by simp⟩
      intro y; simp only [exec, hk', Bool.false_eq_true, if_false, remsFor]
      constructor
      · intro h; cases h
      · rintro (⟨l', x', e, _, _, h3⟩ | ⟨x', e, _⟩)
        · cases e; exact absurd (by simpa using h3) hk
        · cases e
  | remall x =>
    by_cases hk : kn.contains x = true
    · refine ⟨?_, ?_, ?_, by simp⟩
      · simp only [exec, hk, if_true]; rw [created_of_map_nocreate _ _ (by intro m c h; cases h)]; simp
      · intro y; simp only [exec, hk, if_true, addsFor_remMap]; simp
      · intro y; simp only [exec, hk, if_true, mem_remsFor_map]
        constructor
        · rintro ⟨h1, _⟩; exact Or.inr ⟨x, rfl, h1, by simpa using hk⟩
        · rintro (⟨l', x', e, _⟩ | ⟨x', e, h1, _⟩)
          · cases e
          · cases e; exact ⟨h1, n, List.mem_append.2 (Or.inl hn), rfl⟩
    · have hk' : kn.contains x = false := by simpa using hk
      have hk'' : x ∉ kn := by simpa using hk
      refine ⟨by simp [exec, hk'', createdNodes], by simp [exec, hk'', addsFor], ?_, by simp⟩
      intro y; simp only [exec, hk', Bool.false_eq_true, if_false, remsFor]
      constructor
      · intro h; cases h
      · rintro (⟨l', x', e, _⟩ | ⟨x', e, _, h3⟩)
        · cases e
        · cases e; exact absurd (by simpa using h3) hk
  | setx x =>
    refine ⟨?_, ?_, ?_, by simp⟩
    · simp only [exec]; rw [created_of_map_nocreate _ _ (by intro m c h; cases h)]; simp
    · intro y; simp only [exec, addsFor_hitMap]; simp
    · intro y; simp only [exec, remsFor_hitMap]; simp
  | cre l t =>
    refine ⟨?_, ?_, ?_, by simp⟩
    · simp only [exec]; rw [created_of_map_nocreate _ _ (by intro m c h; cases h)]; simp
    · intro y; simp only [exec, addsFor_edgeMap]; simp
    · intro y; simp only [exec, remsFor_edgeMap]; simp


theorem mem_finalLabels (n : Node) (ps : List Prim) (l : Nat) :
    l ∈ finalLabels n ps ↔ (l ∈ n.labels ∨ l ∈ addsFor n.id ps) ∧ l ∉ remsFor n.id ps := by
  simp only [finalLabels, List.mem_filter, List.mem_append, Bool.not_eq_true', List.contains_eq_mem, decide_eq_false_iff_not]

theorem reAdds_cons (rm : List Nat) (s : Stmt) (ss : List Stmt) (h : reAdds rm (s :: ss) = false) :
    (∀ x, s.addsLabel = some x → x ∉ rm) ∧
      reAdds (match s.removesLabel with | some x => x :: rm | none => rm) ss = false := by
  simp only [reAdds, Bool.or_eq_false_iff] at h
  refine ⟨?_, h.2⟩
  intro x hx
  have := h.1
  rw [hx] at this
  simpa using this

/-- per committed node: the labels the code's commit produces are the labels read-your-writes demands -/
theorem node_labels_agree (g : Graph) (n : Node) (next : Nat) (hn : n ∈ g)
    (huniq : ∀ m ∈ g, m.id = n.id → m.labels = n.labels) (hlt : ∀ m ∈ g, m.id < next) :
    ∀ (stmts : List Stmt) (ps : List Prim) (kn rm cur : List Nat),
      (∀ s ∈ stmts, s.wellFormed = true) →
      (∀ c ∈ createdNodes ps, next ≤ c.id) →
      (∀ y ∈ addsFor n.id ps, 2 ≤ y) → (∀ y ∈ remsFor n.id ps, 2 ≤ y) →
      (∀ y ∈ remsFor n.id ps, y ∈ rm) →
      (∀ y, (y ∈ n.labels ∨ y ∈ addsFor n.id ps) → y ∈ kn) →
      (∀ l, l ∈ cur ↔ (l ∈ n.labels ∨ l ∈ addsFor n.id ps) ∧ l ∉ remsFor n.id ps) →
      reAdds rm stmts = false →
      ∀ l, l ∈ finalLabels n (codeTxnPrims g kn next ps stmts) ↔ l ∈ specNodeLabels cur stmts := by
  intro stmts
  induction stmts with
  | nil =>
    intro ps kn rm cur _ _ _ _ _ _ hcur _ l
    simp only [codeTxnPrims, specNodeLabels, List.foldl_nil]
    rw [mem_finalLabels, hcur]
  | cons s ss ih =>
    intro ps kn rm cur hwf hc hA2 hR2 hRm hK hcur hre l
    simp only [codeTxnPrims, specNodeLabels, List.foldl_cons]
    have eff := exec_effect g (createdNodes ps) n next (next + (createdNodes ps).length) kn s hn huniq hlt hc
    obtain ⟨hnoadd, hre'⟩ := reAdds_cons rm s ss hre
    have hwfs : s.wellFormed = true := hwf s (by simp)
    -- membership of the extended staged lists
    have hA : ∀ y, y ∈ addsFor n.id (ps ++ (exec g (createdNodes ps) kn (next + (createdNodes ps).length) s).1) ↔
        y ∈ addsFor n.id ps ∨ ∃ l x, s = .addl l x ∧ y = x ∧ l ∈ n.labels := by
      intro y; rw [addsFor_append, List.mem_append, eff.adds]
    have hR : ∀ y, y ∈ remsFor n.id (ps ++ (exec g (createdNodes ps) kn (next + (createdNodes ps).length) s).1) ↔
        y ∈ remsFor n.id ps ∨ ((∃ l x, s = .reml l x ∧ y = x ∧ l ∈ n.labels ∧ x ∈ kn) ∨
          (∃ x, s = .remall x ∧ y = x ∧ x ∈ kn)) := by
      intro y; rw [remsFor_append, List.mem_append, eff.rems]
    -- base labels are untouched by staged label writes
    have hbase : ∀ b, b < 2 → (b ∈ cur ↔ b ∈ n.labels) := by
      intro b hb
      rw [hcur]
      constructor
      · rintro ⟨h1 | h1, _⟩
        · exact h1
        · have := hA2 b h1; omega
      · intro h1
        refine ⟨Or.inl h1, ?_⟩
        intro h2; have := hR2 b h2; omega
    have := ih (ps ++ (exec g (createdNodes ps) kn (next + (createdNodes ps).length) s).1)
      (kn ++ (exec g (createdNodes ps) kn (next + (createdNodes ps).length) s).2)
      (match s.removesLabel with | some x => x :: rm | none => rm) (nodeStep s cur)
      (fun t ht => hwf t (List.mem_cons_of_mem _ ht))
      (by
        intro c hcm
        rw [createdNodes_append, List.mem_append] at hcm
        rcases hcm with hcm | hcm
        · exact hc c hcm
        · have := eff.fresh c hcm; omega)
      (by
        intro y hy
        rcases (hA y).1 hy with hy | ⟨l', x', e, rfl, _⟩
        · exact hA2 y hy
        · subst e; simp only [Stmt.wellFormed, Bool.and_eq_true, decide_eq_true_eq] at hwfs; exact hwfs.2)
      (by
        intro y hy
        rcases (hR y).1 hy with hy | ⟨l', x', e, rfl, _⟩ | ⟨x', e, rfl, _⟩
        · exact hR2 y hy
        · subst e; simp only [Stmt.wellFormed, Bool.and_eq_true, decide_eq_true_eq] at hwfs; exact hwfs.2
        · subst e; simpa [Stmt.wellFormed] using hwfs)
      (by
        intro y hy
        rcases (hR y).1 hy with hy | ⟨l', x', e, rfl, _⟩ | ⟨x', e, rfl, _⟩
        · have := hRm y hy
          cases hrl : s.removesLabel <;> simp [this]
        · subst e; simp [Stmt.removesLabel]
        · subst e; simp [Stmt.removesLabel])
      (by
        intro y hy
        rw [List.mem_append]
        rcases hy with hy | hy
        · exact Or.inl (hK y (Or.inl hy))
        · rcases (hA y).1 hy with hy | ⟨l', x', e, rfl, hl'⟩
          · exact Or.inl (hK y (Or.inr hy))
          · exact Or.inr (eff.interns l' y e hl'))
      (by
        intro l'
        rw [hA, hR]
        cases s with
        | addl b x =>
          simp only [Stmt.wellFormed, Bool.and_eq_true, decide_eq_true_eq] at hwfs
          have hxrm : x ∉ remsFor n.id ps := fun h => hnoadd x rfl (hRm x h)
          simp only [nodeStep, List.contains_iff_mem]
          by_cases hb : b ∈ n.labels
          · rw [if_pos ((hbase b hwfs.1).2 hb), List.mem_append, List.mem_singleton, hcur]
            constructor
            · rintro (⟨h1, h2⟩ | rfl)
              · exact ⟨by rcases h1 with h1 | h1; exact Or.inl h1; exact Or.inr (Or.inl h1), by
                  rintro (h3 | ⟨_, _, e, _⟩ | ⟨_, e, _⟩); exact h2 h3; cases e; cases e⟩
              · exact ⟨Or.inr (Or.inr ⟨b, l', rfl, rfl, hb⟩), by
                  rintro (h3 | ⟨_, _, e, _⟩ | ⟨_, e, _⟩); exact hxrm h3; cases e; cases e⟩
            · rintro ⟨h1, h2⟩
              rcases h1 with h1 | h1 | ⟨_, _, e, rfl, _⟩
              · exact Or.inl ⟨Or.inl h1, fun h3 => h2 (Or.inl h3)⟩
              · exact Or.inl ⟨Or.inr h1, fun h3 => h2 (Or.inl h3)⟩
              · cases e; exact Or.inr rfl
          · rw [if_neg (fun h => hb ((hbase b hwfs.1).1 h)), hcur]
            constructor
            · rintro ⟨h1, h2⟩
              exact ⟨by rcases h1 with h1 | h1; exact Or.inl h1; exact Or.inr (Or.inl h1), by
                rintro (h3 | ⟨_, _, e, _⟩ | ⟨_, e, _⟩); exact h2 h3; cases e; cases e⟩
            · rintro ⟨h1, h2⟩
              rcases h1 with h1 | h1 | ⟨_, _, e, _, h4⟩
              · exact ⟨Or.inl h1, fun h3 => h2 (Or.inl h3)⟩
              · exact ⟨Or.inr h1, fun h3 => h2 (Or.inl h3)⟩
              · cases e; exact absurd h4 hb
        | reml b x =>
          simp only [Stmt.wellFormed, Bool.and_eq_true, decide_eq_true_eq] at hwfs
          simp only [nodeStep, List.contains_iff_mem]
          by_cases hb : b ∈ n.labels
          · rw [if_pos ((hbase b hwfs.1).2 hb)]
            simp only [List.mem_filter, bne_iff_ne, ne_eq, hcur]
            constructor
            · rintro ⟨⟨h1, h2⟩, h3⟩
              exact ⟨by rcases h1 with h1 | h1; exact Or.inl h1; exact Or.inr (Or.inl h1), by
                rintro (h4 | ⟨_, _, e, rfl, _⟩ | ⟨_, e, _⟩); exact h2 h4; (cases e; exact h3 rfl); cases e⟩
            · rintro ⟨h1, h2⟩
              have h1' : l' ∈ n.labels ∨ l' ∈ addsFor n.id ps := by
                rcases h1 with h1 | h1 | ⟨_, _, e, _⟩
                · exact Or.inl h1
                · exact Or.inr h1
                · cases e
              refine ⟨⟨h1', fun h3 => h2 (Or.inl h3)⟩, ?_⟩
              intro hx
              subst hx
              exact h2 (Or.inr (Or.inl ⟨b, l', rfl, rfl, hb, hK l' h1'⟩))
          · rw [if_neg (fun h => hb ((hbase b hwfs.1).1 h)), hcur]
            constructor
            · rintro ⟨h1, h2⟩
              exact ⟨by rcases h1 with h1 | h1; exact Or.inl h1; exact Or.inr (Or.inl h1), by
                rintro (h3 | ⟨_, _, e, _, h4, _⟩ | ⟨_, e, _⟩); exact h2 h3; (cases e; exact hb h4); cases e⟩
            · rintro ⟨h1, h2⟩
              rcases h1 with h1 | h1 | ⟨_, _, e, _⟩
              · exact ⟨Or.inl h1, fun h3 => h2 (Or.inl h3)⟩
              · exact ⟨Or.inr h1, fun h3 => h2 (Or.inl h3)⟩
              · cases e
        | remall x =>
          simp only [nodeStep, List.mem_filter, bne_iff_ne, ne_eq, hcur]
          constructor
          · rintro ⟨⟨h1, h2⟩, h3⟩
            exact ⟨by rcases h1 with h1 | h1; exact Or.inl h1; exact Or.inr (Or.inl h1), by
              rintro (h4 | ⟨_, _, e, _⟩ | ⟨_, e, rfl, _⟩); exact h2 h4; cases e; (cases e; exact h3 rfl)⟩
          · rintro ⟨h1, h2⟩
            have h1' : l' ∈ n.labels ∨ l' ∈ addsFor n.id ps := by
              rcases h1 with h1 | h1 | ⟨_, _, e, _⟩
              · exact Or.inl h1
              · exact Or.inr h1
              · cases e
            refine ⟨⟨h1', fun h3 => h2 (Or.inl h3)⟩, ?_⟩
            intro hx
            subst hx
            exact h2 (Or.inr (Or.inr ⟨l', rfl, rfl, hK l' h1'⟩))
        | crn a k =>
          simp only [nodeStep, hcur]
          constructor
          · rintro ⟨h1, h2⟩
            exact ⟨by rcases h1 with h1 | h1; exact Or.inl h1; exact Or.inr (Or.inl h1), by
              rintro (h3 | ⟨_, _, e, _⟩ | ⟨_, e, _⟩); exact h2 h3; cases e; cases e⟩
          · rintro ⟨h1, h2⟩
            rcases h1 with h1 | h1 | ⟨_, _, e, _⟩
            · exact ⟨Or.inl h1, fun h3 => h2 (Or.inl h3)⟩
            · exact ⟨Or.inr h1, fun h3 => h2 (Or.inl h3)⟩
            · cases e
        | crx a k =>
          simp only [nodeStep, hcur]
          constructor
          · rintro ⟨h1, h2⟩
            exact ⟨by rcases h1 with h1 | h1; exact Or.inl h1; exact Or.inr (Or.inl h1), by
              rintro (h3 | ⟨_, _, e, _⟩ | ⟨_, e, _⟩); exact h2 h3; cases e; cases e⟩
          · rintro ⟨h1, h2⟩
            rcases h1 with h1 | h1 | ⟨_, _, e, _⟩
            · exact ⟨Or.inl h1, fun h3 => h2 (Or.inl h3)⟩
            · exact ⟨Or.inr h1, fun h3 => h2 (Or.inl h3)⟩
            · cases e
        | seen a =>
          simp only [nodeStep, hcur]
          constructor
          · rintro ⟨h1, h2⟩
            exact ⟨by rcases h1 with h1 | h1; exact Or.inl h1; exact Or.inr (Or.inl h1), by
              rintro (h3 | ⟨_, _, e, _⟩ | ⟨_, e, _⟩); exact h2 h3; cases e; cases e⟩
          · rintro ⟨h1, h2⟩
            rcases h1 with h1 | h1 | ⟨_, _, e, _⟩
            · exact ⟨Or.inl h1, fun h3 => h2 (Or.inl h3)⟩
            · exact ⟨Or.inr h1, fun h3 => h2 (Or.inl h3)⟩
            · cases e
        | setx a =>
          simp only [nodeStep, hcur]
          constructor
          · rintro ⟨h1, h2⟩
            exact ⟨by rcases h1 with h1 | h1; exact Or.inl h1; exact Or.inr (Or.inl h1), by
              rintro (h3 | ⟨_, _, e, _⟩ | ⟨_, e, _⟩); exact h2 h3; cases e; cases e⟩
          · rintro ⟨h1, h2⟩
            rcases h1 with h1 | h1 | ⟨_, _, e, _⟩
            · exact ⟨Or.inl h1, fun h3 => h2 (Or.inl h3)⟩
            · exact ⟨Or.inr h1, fun h3 => h2 (Or.inl h3)⟩
            · cases e
        | cre a t =>
          simp only [nodeStep, hcur]
          constructor
          · rintro ⟨h1, h2⟩
            exact ⟨by rcases h1 with h1 | h1; exact Or.inl h1; exact Or.inr (Or.inl h1), by
              rintro (h3 | ⟨_, _, e, _⟩ | ⟨_, e, _⟩); exact h2 h3; cases e; cases e⟩
          · rintro ⟨h1, h2⟩
            rcases h1 with h1 | h1 | ⟨_, _, e, _⟩
            · exact ⟨Or.inl h1, fun h3 => h2 (Or.inl h3)⟩
            · exact ⟨Or.inr h1, fun h3 => h2 (Or.inl h3)⟩
            · cases e)
      hre' l
    simpa [specNodeLabels] using this


/-- the statements of an open transaction, run by `step true`, stage exactly `codeTxnPrims` -/
theorem run_tqs (stmts : List Stmt) : ∀ (σ : State) (ps : List Prim), σ.staged = some ps →
    (run true σ (stmts.map .tq)).staged = some (codeTxnPrims σ.committed σ.known σ.allocated ps stmts) ∧
      (run true σ (stmts.map .tq)).committed = σ.committed ∧ (run true σ (stmts.map .tq)).allocated = σ.allocated := by
  induction stmts with
  | nil => intro σ ps h; exact ⟨by simpa [run, codeTxnPrims] using h, rfl, rfl⟩
  | cons s ss ih =>
    intro σ ps h
    simp only [List.map_cons, run, List.foldl_cons]
    have hstep : (step true σ (.tq s)).1 =
        { σ with staged := some (ps ++ (exec σ.committed (createdNodes ps) σ.known (σ.allocated + (createdNodes ps).length) s).1),
                 known := σ.known ++ (exec σ.committed (createdNodes ps) σ.known (σ.allocated + (createdNodes ps).length) s).2,
                 view := some σ.known } := by
      simp [step, h]
    have := ih (step true σ (.tq s)).1 _ (by rw [hstep])
    simp only [run] at this
    rw [hstep] at this ⊢
    simpa [codeTxnPrims] using this

theorem run_txn_committed (σ : State) (h : σ.staged = none) (stmts : List Stmt) :
    (run true σ (txnOps stmts)).committed =
      applyCommit σ.committed (codeTxnPrims σ.committed σ.known σ.allocated [] stmts) := by
  have hb : (step true σ .begin).1 = { σ with staged := some [], view := none } := by simp [step, h]
  simp only [txnOps, run, List.foldl_cons, List.foldl_append, List.foldl_nil]
  rw [hb]
  obtain ⟨h1, h2, _⟩ := run_tqs stmts { σ with staged := some [], view := none } [] rfl
  simp only [run] at h1 h2
  generalize List.foldl (fun σ op => (step true σ op).1)
    ({ σ with staged := some [], view := none } : State) (stmts.map Op.tq) = τ at h1 h2 ⊢
  simp only [step, h1, h2]

end Nervus.TxnLabels
