/-
  C26: the root-to-leaf descent reaches the leaf responsible for the key, and the read operations
  (cursor_lower_bound + scan loop, lookup) agree with the multimap spec on the tree's contents.
-/
import Nervus.Proofs.BTreeChain
set_option linter.unusedSectionVars false
set_option linter.unusedVariables false
namespace Nervus.BTree
open Nervus KO

variable {κ : Type} [KeyOrd κ] [LawfulKeyOrd κ]

/-- upper bound of the child found after a cell prefix: the next separator, else the page's bound -/
def hdKey (post : List (κ × Nat)) (hi : Option κ) : Option κ :=
  match post with
  | [] => hi
  | (k, _) :: _ => some k

theorem kidsR_at_prefix (lo hi : Option κ) (lm : Nat) (pre post : List (κ × Nat)) :
    ∃ tail, kidsR lo hi lm (pre ++ post) =
      front lo lm pre ++ ((endSt lo lm pre).2, (endSt lo lm pre).1, hdKey post hi) :: tail := by
  rw [kidsR_append]
  cases post with
  | nil => exact ⟨[], rfl⟩
  | cons x xs => obtain ⟨k, ch⟩ := x; exact ⟨_, rfl⟩

theorem kidsR_lo_le (lo hi : Option κ) (lm : Nat) (cells : List (κ × Nat))
    (h : ∀ x ∈ kidsR lo hi lm cells, bLe x.2.1 x.2.2) : ∀ e ∈ cells, bLo lo e.1 := by
  induction cells generalizing lo lm with
  | nil => intro e he; cases he
  | cons x xs ih =>
    obtain ⟨k2, ch2⟩ := x
    intro e he
    have h0 : bLe lo (some k2) := h (lm, lo, some k2) (by simp [kidsR])
    rcases List.mem_cons.mp he with rfl | he
    · exact bLo_of_bLe h0 (le_refl _)
    · have := ih (some k2) ch2 (fun x hx => h x (by simp [kidsR, hx])) e he
      exact bLo_of_bLe h0 this

/-- the separators of an internal page are weakly sorted when no child range is inverted -/
theorem kidsR_sorted (lo hi : Option κ) (lm : Nat) (cells : List (κ × Nat))
    (h : ∀ x ∈ kidsR lo hi lm cells, bLe x.2.1 x.2.2) : WSorted cells := by
  induction cells generalizing lo lm with
  | nil => exact List.Pairwise.nil
  | cons x xs ih =>
    obtain ⟨k2, ch2⟩ := x
    have hrest : ∀ x ∈ kidsR (some k2) hi ch2 xs, bLe x.2.1 x.2.2 := fun x hx => h x (by simp [kidsR, hx])
    apply List.Pairwise.cons
    · intro e he
      exact kidsR_lo_le (some k2) hi ch2 xs hrest e he
    · exact ih (some k2) ch2 hrest

/-- the path handed to insert_into_parent: every (page, child_pos) really is the parent of the page
    below it, at that position, one level up; the last one is the root -/
def PathOK (pg : Pg κ) (g : Ghost κ) (root : Nat) : Nat → Nat → List (Nat × Nat) → Prop
  | child, lvl, [] => child = root ∧ lvl = g.H
  | child, lvl, (pid, pos) :: rest =>
    (∃ lo hi lm cells b, g.G pid = some (lvl + 1, lo, hi) ∧ pg pid = some (.internal lm cells b) ∧
      pos ≤ cells.length ∧ (endSt lo lm (cells.take pos)).2 = child) ∧ PathOK pg g root pid (lvl + 1) rest

/-- what the descent returns -/
structure Found (pg : Pg κ) (g : Ghost κ) (root : Nat) (k : κ) (p : Nat) (es : List (κ × Nat)) (b r : Nat)
    (lo hi : Option κ) (path : List (Nat × Nat)) : Prop where
  ghost : g.G p = some (0, lo, hi)
  page : pg p = some (.leaf es b r)
  lo : bLo lo k
  hi : bHi k hi
  path : PathOK pg g root p 0 path

theorem descend_spec (c : Cfg) (hc : c.Std) (pages : PageMap (Node κ)) (root next : Nat) (g : Ghost κ)
    (wf : WF pages.get root next g) (k : κ) :
    ∀ (fuel cur l : Nat) (lo hi : Option κ) (path : List (Nat × Nat)),
      g.G cur = some (l, lo, hi) → bLo lo k → bHi k hi → l < fuel → PathOK pages.get g root cur l path →
      ∃ p es b r lo' hi' path', descend c pages k fuel cur path = .leaf p es b r path' ∧
        Found pages.get g root k p es b r lo' hi' path' := by
  intro fuel
  induction fuel with
  | zero => intro cur l lo hi path _ _ _ hl; omega
  | succ f ih =>
    intro cur l lo hi path hG hlo hhi hl hpath
    cases l with
    | zero =>
      obtain ⟨es, b, r, hp, _, _⟩ := wf.leaf cur lo hi hG
      exact ⟨cur, es, b, r, lo, hi, path, by simp [descend, hp], ⟨hG, hp, hlo, hhi, hpath⟩⟩
    | succ l' =>
      obtain ⟨lm, cells, b, hp, hkids, hnd⟩ := wf.int cur l' lo hi hG
      have hsorted : WSorted cells := kidsR_sorted lo hi lm cells (fun x hx =>
        (wf.rng x.1 l' x.2.1 x.2.2 (hkids x hx)).2.2)
      obtain ⟨pre, post, hcells, hpre, hpost, hchild⟩ := childForKey_spec c hc lm cells hsorted k
      obtain ⟨tail, htail⟩ := kidsR_at_prefix lo hi lm pre post
      have hGc : g.G (endSt lo lm pre).2 = some (l', (endSt lo lm pre).1, hdKey post hi) := by
        have := hkids ((endSt lo lm pre).2, (endSt lo lm pre).1, hdKey post hi) (by
          rw [hcells, htail]; simp)
        exact this
      have hlo' : bLo (endSt lo lm pre).1 k := endSt_bLo lo lm pre k hlo hpre
      have hhi' : bHi k (hdKey post hi) := by
        cases post with
        | nil => exact hhi
        | cons x xs => obtain ⟨k2, ch2⟩ := x; exact hpost (k2, ch2) (List.mem_cons_self ..)
      have hpath' : PathOK pages.get g root (endSt lo lm pre).2 l' ((cur, pre.length) :: path) := by
        refine ⟨⟨lo, hi, lm, cells, b, hG, hp, ?_, ?_⟩, hpath⟩
        · rw [hcells]; simp
        · rw [hcells, List.take_left']; rfl
      obtain ⟨p, es, b', r, lo', hi', path', hd, hfound⟩ :=
        ih (endSt lo lm pre).2 l' _ _ ((cur, pre.length) :: path) hGc hlo' hhi' (by omega) hpath'
      refine ⟨p, es, b', r, lo', hi', path', ?_, hfound⟩
      simp only [descend, hp, hchild lo]
      exact hd

/-- the descent from the root -/
theorem descend_root (c : Cfg) (hc : c.Std) (t : Tree κ) (g : Ghost κ)
    (wf : WF t.pages.get t.root t.next g) (k : κ) :
    ∃ p es b r lo hi path, descend c t.pages k t.next t.root [] = .leaf p es b r path ∧
      Found t.pages.get g t.root k p es b r lo hi path := by
  have hL : 1 ≤ g.L.length := by
    obtain ⟨p0, rest, hL, _⟩ := wf.seg
    rw [hL]; simp
  exact descend_spec c hc t.pages t.root t.next g wf k t.next t.root g.H none none [] wf.root trivial trivial
    (by have := wf.fuel; omega) ⟨rfl, rfl⟩

/-! ### where the found leaf sits in the chain -/

/-- the chain splits around a ghost leaf -/
theorem chain_split {pg : Pg κ} {root next : Nat} {g : Ghost κ} (wf : WF pg root next g)
    (p : Nat) (lo hi : Option κ) (hG : g.G p = some (0, lo, hi)) :
    ∃ A B p0 r, g.L = A ++ p :: B ∧ Seg pg g.G p0 none A p lo ∧ rightOf pg p = some r ∧ (hi = none → r = 0) ∧
      Seg pg g.G r hi B 0 none ∧ 0 < p := by
  have hmem : p ∈ g.L := (wf.lmem p).mpr ⟨lo, hi, hG⟩
  obtain ⟨A, B, hAB⟩ := List.append_of_mem hmem
  obtain ⟨p0, rest, hL, hseg⟩ := wf.seg
  rw [hAB] at hseg
  obtain ⟨m, mlo, h1, h2⟩ := (Seg_append pg g.G A (p :: B) p0 none 0 none).mp hseg
  obtain ⟨hpm, hpos, hi', r, hG', hr, hn, hrest⟩ := h2
  subst hpm
  rw [hG] at hG'
  cases hG'
  exact ⟨A, B, p0, r, hAB, h1, hr, hn, hrest, hpos⟩

/-! ### spec-side list lemmas -/

theorem mm_lowerBound_append (k : κ) (A B : List (κ × Nat)) (hA : ∀ e ∈ A, Lt e.1 k)
    (hB : ∀ e ∈ B.head?, Le k e.1) : Multimap.lowerBound k (A ++ B) = B := by
  induction A with
  | nil =>
    cases B with
    | nil => rfl
    | cons b bs =>
      have : KeyOrd.lt b.1 k = false := hB b (by simp)
      simp [Multimap.lowerBound, this]
  | cons a as ih =>
    have h1 : KeyOrd.lt a.1 k = true := hA a (List.mem_cons_self ..)
    simp only [List.cons_append, Multimap.lowerBound, h1, if_true]
    exact ih (fun e he => hA e (List.mem_cons_of_mem _ he))

/-- reading from the lower bound of `k` returns the spec's `lowerBound k` of the contents; the cursor
    points at its first pair -/
theorem cursor_spec (c : Cfg) (hc : c.Std) (t : Tree κ) (g : Ghost κ)
    (wf : WF t.pages.get t.root t.next g) (k : κ) :
    ∃ cur, cursorLowerBound c t k = .ok cur ∧
      collect c t.pages t.next cur = .ok (Multimap.lowerBound k (contents t.pages.get g.L)) ∧
      cur.es[cur.slot]? = (Multimap.lowerBound k (contents t.pages.get g.L)).head? := by
  obtain ⟨p, es, b, r, lo, hi, path, hd, hf⟩ := descend_root c hc t g wf k
  obtain ⟨es', b', r', hp', hsorted, hin⟩ := wf.leaf p lo hi hf.ghost
  rw [hf.page] at hp'; cases hp'
  obtain ⟨idx, hidx, hle, hbefore, hafter⟩ := leafLowerBound_spec c hc es hsorted.weak k
  obtain ⟨A, B, p0, r', hL, hsegA, hr, hn, hsegB, hpos⟩ := chain_split wf p lo hi hf.ghost
  have hr' : r' = r := by simp [rightOf, hf.page] at hr; exact hr.symm
  subst hr'
  have hlen : B.length < t.next := by
    have := wf.fuel; rw [hL] at this; simp at this; omega
  obtain ⟨cur, h1, h2, h3⟩ := settle_collect_spec c hc t.pages.get t.pages rfl g.G B p es r' idx hi t.next t.next
    hsegB hle hlen hlen
  have hcont : contents t.pages.get g.L = (contents t.pages.get A ++ es.take idx) ++ (es.drop idx ++ contents t.pages.get B) := by
    rw [hL, contents_append, contents_cons]
    simp only [entriesOf, hf.page, List.append_assoc]
    rw [← List.append_assoc (es.take idx), List.take_append_drop]
  have ok := wf.leafOK
  have hspec : Multimap.lowerBound k (contents t.pages.get g.L) = es.drop idx ++ contents t.pages.get B := by
    rw [hcont]
    apply mm_lowerBound_append
    · intro e he
      rcases List.mem_append.mp he with he | he
      · exact Seg_before ok A p0 none p lo hsegA hpos e he k hf.lo
      · exact hbefore e he
    · intro e he
      by_cases hd : es.drop idx = []
      · rw [hd, List.nil_append] at he
        have hmem : e ∈ contents t.pages.get B := List.mem_of_mem_head? he
        exact le_of_lt (Seg_after_hi ok B r' hi hn hsegB e hmem k hf.hi)
      · rw [head?_append_ne _ _ hd] at he
        exact hafter e (List.mem_of_mem_head? he)
  refine ⟨cur, ?_, ?_, ?_⟩
  · simp only [cursorLowerBound, hd, hidx]; exact h1
  · rw [hspec]; exact h2
  · rw [hspec]; exact h3

/-- **read side**: a scan from the lower bound of `k` returns exactly the spec's pairs with key ≥ k -/
theorem scanFrom_spec (c : Cfg) (hc : c.Std) (t : Tree κ) (g : Ghost κ)
    (wf : WF t.pages.get t.root t.next g) (k : κ) :
    scanFrom c t k = .ok (Multimap.lowerBound k (contents t.pages.get g.L)) := by
  obtain ⟨cur, h1, h2, _⟩ := cursor_spec c hc t g wf k
  simp only [scanFrom, h1, h2]

theorem mm_lowerBound_min (m : List (κ × Nat)) : Multimap.lowerBound (KeyOrd.min : κ) m = m := by
  cases m with
  | nil => rfl
  | cons e es => simp [Multimap.lowerBound, LawfulKeyOrd.min_le]

/-- **read side**: a full scan returns the contents -/
theorem scan_spec (c : Cfg) (hc : c.Std) (t : Tree κ) (g : Ghost κ)
    (wf : WF t.pages.get t.root t.next g) :
    scan c t = .ok (contents t.pages.get g.L) := by
  rw [scan, scanFrom_spec c hc t g wf, mm_lowerBound_min]

/-- **read side**: lookup returns the first pair of the key's group -/
theorem lookup_spec (c : Cfg) (hc : c.Std) (t : Tree κ) (g : Ghost κ)
    (wf : WF t.pages.get t.root t.next g) (k : κ) :
    lookup c t k = .ok (Multimap.lookup k (contents t.pages.get g.L)) := by
  obtain ⟨cur, h1, _, h3⟩ := cursor_spec c hc t g wf k
  simp only [lookup, h1, h3, Multimap.lookup]
  cases Multimap.lowerBound k (contents t.pages.get g.L) with
  | nil => rfl
  | cons e es => rfl

end Nervus.BTree
