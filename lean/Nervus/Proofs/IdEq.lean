/-
  Proofs/IdEq.lean — two idmaps that no caller can tell apart (same node table, same label vectors,
  same external-id lookups): the idmap rebuilt by `open` vs. the one kept in memory.
-/
import Nervus.Model.Engine
namespace Nervus.Storage

structure IdEq (m m' : IdMap) : Prop where
  i2e : m.i2e = m'.i2e
  i2l : m.i2l = m'.i2l
  lookup : ∀ x, m.lookup x = m'.lookup x

theorem IdEq.refl (m : IdMap) : IdEq m m := ⟨rfl, rfl, fun _ => rfl⟩
theorem IdEq.symm {a b : IdMap} (h : IdEq a b) : IdEq b a := ⟨h.i2e.symm, h.i2l.symm, fun x => (h.lookup x).symm⟩
theorem IdEq.trans {a b c : IdMap} (h1 : IdEq a b) (h2 : IdEq b c) : IdEq a c :=
  ⟨h1.i2e.trans h2.i2e, h1.i2l.trans h2.i2l, fun x => (h1.lookup x).trans (h2.lookup x)⟩
theorem IdEq.of_eq {a b : IdMap} (h : a = b) : IdEq a b := h ▸ IdEq.refl a

/-- the outcome of a step on two related idmaps -/
def StepRel (a b : Except IdMap.Err IdMap) : Prop :=
  match a, b with
  | .ok x, .ok y => IdEq x y
  | .error e, .error e' => e = e'
  | _, _ => False

theorem applyCreate_ideq {m m' : IdMap} (h : IdEq m m') (x l iid : Nat) :
    StepRel (m.applyCreate x l iid) (m'.applyCreate x l iid) := by
  unfold IdMap.applyCreate IdMap.nextId
  have hl : m.e2i.lookup x = m'.e2i.lookup x := h.lookup x
  rw [h.i2e, hl]
  by_cases h1 : (iid != m'.i2e.length) = true
  · simp only [h1, if_true]; exact rfl
  · simp only [h1, Bool.false_eq_true, if_false]
    by_cases h2 : (m'.e2i.lookup x).isSome = true
    · simp only [h2, if_true]; exact rfl
    · simp only [h2, Bool.false_eq_true, if_false]
      refine ⟨by simp, by simp [h.i2l], ?_⟩
      intro y
      show ((x, iid) :: m.e2i).lookup y = ((x, iid) :: m'.e2i).lookup y
      simp only [List.lookup_cons]
      have := h.lookup y
      unfold IdMap.lookup at this
      rw [this]

theorem applyAddLabel_ideq {m m' : IdMap} (h : IdEq m m') (n l : Nat) :
    StepRel (m.applyAddLabel n l) (m'.applyAddLabel n l) := by
  unfold IdMap.applyAddLabel
  rw [h.i2l]
  cases m'.i2l[n]? with
  | none => exact rfl
  | some ls => exact ⟨h.i2e, rfl, h.lookup⟩

theorem applyRemoveLabel_ideq {m m' : IdMap} (h : IdEq m m') (n l : Nat) :
    StepRel (m.applyRemoveLabel n l) (m'.applyRemoveLabel n l) := by
  unfold IdMap.applyRemoveLabel
  rw [h.i2l]
  cases m'.i2l[n]? with
  | none => exact rfl
  | some ls => exact ⟨h.i2e, rfl, h.lookup⟩

theorem foldStop_ideq {β} (f : IdMap → β → Except IdMap.Err IdMap)
    (hf : ∀ m m' b, IdEq m m' → StepRel (f m b) (f m' b)) :
    ∀ (l : List β) (m m' : IdMap), IdEq m m' →
      IdEq (foldStop f m l).1 (foldStop f m' l).1 ∧ (foldStop f m l).2 = (foldStop f m' l).2 := by
  intro l
  induction l with
  | nil => intro m m' h; exact ⟨h, rfl⟩
  | cons b bs ih =>
    intro m m' h
    have := hf m m' b h
    simp only [foldStop]
    cases h1 : f m b with
    | ok a =>
      cases h2 : f m' b with
      | ok a' => rw [h1, h2] at this; exact ih a a' this
      | error e => rw [h1, h2] at this; exact absurd this (by simp [StepRel])
    | error e =>
      cases h2 : f m' b with
      | ok a' => rw [h1, h2] at this; exact absurd this (by simp [StepRel])
      | error e' =>
        rw [h1, h2] at this
        have : e = e' := this
        subst this
        exact ⟨h, rfl⟩

/-- step 3 of commit on two related idmaps: related results, same outcome -/
theorem applyIdmap_ideq {m m' : IdMap} (h : IdEq m m') (created : List (Nat × Nat × Nat)) (addL delL : List (Nat × Nat)) :
    IdEq (applyIdmap m created addL delL).1 (applyIdmap m' created addL delL).1 ∧
    (applyIdmap m created addL delL).2 = (applyIdmap m' created addL delL).2 := by
  unfold applyIdmap
  obtain ⟨a1, a2⟩ := foldStop_ideq (fun m (c : Nat × Nat × Nat) => m.applyCreate c.1 c.2.1 c.2.2)
    (fun m m' c hh => applyCreate_ideq hh c.1 c.2.1 c.2.2) created m m' h
  cases h1 : foldStop (fun m (c : Nat × Nat × Nat) => m.applyCreate c.1 c.2.1 c.2.2) m created with
  | mk x ex =>
  cases h2 : foldStop (fun m (c : Nat × Nat × Nat) => m.applyCreate c.1 c.2.1 c.2.2) m' created with
  | mk y ey =>
  rw [h1, h2] at a1 a2
  simp only at a1 a2
  subst a2
  cases ex with
  | some e => exact ⟨a1, rfl⟩
  | none =>
    simp only
    obtain ⟨b1, b2⟩ := foldStop_ideq (fun m (p : Nat × Nat) => m.applyAddLabel p.1 p.2)
      (fun m m' p hh => applyAddLabel_ideq hh p.1 p.2) addL x y a1
    cases h3 : foldStop (fun m (p : Nat × Nat) => m.applyAddLabel p.1 p.2) x addL with
    | mk x2 ex2 =>
    cases h4 : foldStop (fun m (p : Nat × Nat) => m.applyAddLabel p.1 p.2) y addL with
    | mk y2 ey2 =>
    rw [h3, h4] at b1 b2
    simp only at b1 b2
    subst b2
    cases ex2 with
    | some e => exact ⟨b1, rfl⟩
    | none =>
      simp only
      exact foldStop_ideq (fun m (p : Nat × Nat) => m.applyRemoveLabel p.1 p.2)
        (fun m m' p hh => applyRemoveLabel_ideq hh p.1 p.2) delL x2 y2 b1

end Nervus.Storage
