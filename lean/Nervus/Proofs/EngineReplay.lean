/-
  Proofs/EngineReplay.lean — recover ∘ log = id for one transaction (C04): replaying the WAL records
  that `commit` wrote for a transaction through a fresh memtable (replay_graph_transactions) yields a
  run that is read-equivalent to the run `commit` published — for EVERY memtable the write API can
  build, given the record order of the current source (tombstones before CreateEdge).
-/
import Nervus.Proofs.EngineSimBase
namespace Nervus.Storage

/-- invariants of every memtable built by the write API -/
structure MemTable.WF (m : MemTable) : Prop where
  nKeys : (m.nprops.map (·.1)).Nodup
  eKeys : (m.eprops.map (·.1)).Nodup
  nDisj : ∀ k ∈ m.nDel, m.nprops.lookup k = none
  eDisj : ∀ k ∈ m.eDel, m.eprops.lookup k = none

theorem nodup_keys_upsert {κ ν} [DecidableEq κ] (k : κ) (v : ν) (m : List (κ × ν))
    (h : (m.map (·.1)).Nodup) : ((upsert k v m).map (·.1)).Nodup := by
  unfold upsert
  rw [List.map_cons, List.nodup_cons]
  constructor
  · intro hm
    obtain ⟨p, hp, hpk⟩ := List.mem_map.mp hm
    have := (List.mem_filter.mp hp).2
    simp only [bne_iff_ne, ne_eq] at this
    exact this hpk
  · exact List.Nodup.sublist (List.Sublist.map _ List.filter_sublist) h

theorem nodup_keys_mapErase {κ ν} [DecidableEq κ] (k : κ) (m : List (κ × ν))
    (h : (m.map (·.1)).Nodup) : ((mapErase k m).map (·.1)).Nodup :=
  List.Nodup.sublist (List.Sublist.map _ List.filter_sublist) h

theorem MemTable.WF.empty : MemTable.WF {} :=
  ⟨List.nodup_nil, List.nodup_nil, fun _ h => absurd h List.not_mem_nil, fun _ h => absurd h List.not_mem_nil⟩

theorem MemTable.WF.setNodeProp {m : MemTable} (h : m.WF) (n k : Nat) (v : PV) : (m.setNodeProp n k v).WF := by
  refine ⟨nodup_keys_upsert _ _ _ h.nKeys, h.eKeys, ?_, h.eDisj⟩
  intro key hk
  have hk' : key ∈ m.nDel.filter (· != (n, k)) := hk
  rw [mem_filter_ne] at hk'
  show (upsert (n, k) v m.nprops).lookup key = none
  rw [lookup_upsert, if_neg hk'.2]; exact h.nDisj key hk'.1

theorem MemTable.WF.removeNodeProp {m : MemTable} (h : m.WF) (n k : Nat) : (m.removeNodeProp n k).WF := by
  refine ⟨nodup_keys_mapErase _ _ h.nKeys, h.eKeys, ?_, h.eDisj⟩
  intro key hk
  have hk' : key ∈ setInsert (n, k) m.nDel := hk
  rw [mem_setInsert] at hk'
  show (mapErase (n, k) m.nprops).lookup key = none
  rw [lookup_mapErase]
  rcases hk' with h1 | h1
  · rw [if_pos h1]
  · split
    · rfl
    · exact h.nDisj key h1

theorem MemTable.WF.setEdgeProp {m : MemTable} (h : m.WF) (e : Edge) (k : Nat) (v : PV) : (m.setEdgeProp e k v).WF := by
  refine ⟨h.nKeys, nodup_keys_upsert _ _ _ h.eKeys, h.nDisj, ?_⟩
  intro key hk
  have hk' : key ∈ m.eDel.filter (· != (e, k)) := hk
  rw [mem_filter_ne] at hk'
  show (upsert (e, k) v m.eprops).lookup key = none
  rw [lookup_upsert, if_neg hk'.2]; exact h.eDisj key hk'.1

theorem MemTable.WF.removeEdgeProp {m : MemTable} (h : m.WF) (e : Edge) (k : Nat) : (m.removeEdgeProp e k).WF := by
  refine ⟨h.nKeys, nodup_keys_mapErase _ _ h.eKeys, h.nDisj, ?_⟩
  intro key hk
  have hk' : key ∈ setInsert (e, k) m.eDel := hk
  rw [mem_setInsert] at hk'
  show (mapErase (e, k) m.eprops).lookup key = none
  rw [lookup_mapErase]
  rcases hk' with h1 | h1
  · rw [if_pos h1]
  · split
    · rfl
    · exact h.eDisj key h1

/-- the memtable part of `replayOp` -/
def memOp (m : MemTable) : WalRec → MemTable
  | .createEdge e => m.createEdge e
  | .tombstoneNode n => m.tombstoneNode n
  | .tombstoneEdge e => m.tombstoneEdge e
  | .setNodeProperty n k v => m.setNodeProp n k v
  | .setEdgeProperty e k v => m.setEdgeProp e k v
  | .removeNodeProperty n k => m.removeNodeProp n k
  | .removeEdgeProperty e k => m.removeEdgeProp e k
  | _ => m

theorem replayOp_mem (a a' : IdMap × MemTable) (r : WalRec) (h : replayOp a r = .ok a') :
    a'.2 = memOp a.2 r := by
  cases r <;> simp only [replayOp, memOp] at h ⊢
  case createNode x l i =>
    split at h
    · split at h
      · cases h
      · cases h; rfl
    · split at h
      · cases h; rfl
      · cases h
  case addNodeLabel n l => split at h <;> cases h; rfl
  case removeNodeLabel n l => split at h <;> cases h; rfl
  all_goals (cases h; rfl)

theorem replay_fold_mem (recs : List WalRec) :
    ∀ (a a' : IdMap × MemTable), recs.foldlM replayOp a = .ok a' → a'.2 = recs.foldl memOp a.2 := by
  induction recs with
  | nil => intro a a' h; cases h; rfl
  | cons r rs ih =>
    intro a a' h
    rw [List.foldlM_cons] at h
    cases hr : replayOp a r with
    | error e => rw [hr] at h; cases h
    | ok a1 =>
      rw [hr] at h
      have h1 := ih a1 a' h
      rw [h1, List.foldl_cons, replayOp_mem a a1 r hr]

/-! ### the folds of one record kind -/

theorem fold_ignored {α} (f : α → WalRec) (hf : ∀ a m, memOp m (f a) = m) (l : List α) (m : MemTable) :
    (l.map f).foldl memOp m = m := by
  induction l generalizing m with
  | nil => rfl
  | cons a as ih => simp only [List.map_cons, List.foldl_cons, hf, ih]

theorem fold_tombNode (l : List Nat) (m : MemTable) :
    (l.map WalRec.tombstoneNode).foldl memOp m =
      { m with tombNodes := l.foldl (fun s n => setInsert n s) m.tombNodes } := by
  induction l generalizing m with
  | nil => rfl
  | cons a as ih => simp only [List.map_cons, List.foldl_cons, memOp, MemTable.tombstoneNode, ih]

theorem fold_tombEdge (l : List Edge) (m : MemTable) (he : m.edges = []) :
    (l.map WalRec.tombstoneEdge).foldl memOp m =
      { m with tombEdges := l.foldl (fun s e => setInsert e s) m.tombEdges } := by
  induction l generalizing m with
  | nil => rfl
  | cons a as ih =>
    simp only [List.map_cons, List.foldl_cons, memOp, MemTable.tombstoneEdge]
    rw [ih _ (by simp [he])]
    simp [he]

theorem fold_createEdge (l : List Edge) (m : MemTable) :
    (l.map WalRec.createEdge).foldl memOp m = { m with edges := m.edges ++ l } := by
  induction l generalizing m with
  | nil => simp
  | cons a as ih =>
    simp only [List.map_cons, List.foldl_cons, memOp, MemTable.createEdge, ih, List.append_assoc,
      List.singleton_append]

theorem fold_setN (l : List ((Nat × Nat) × PV)) (m : MemTable) (hd : m.nDel = []) :
    (l.map (fun p => WalRec.setNodeProperty p.1.1 p.1.2 p.2)).foldl memOp m =
      { m with nprops := l.foldl (fun a p => upsert p.1 p.2 a) m.nprops } := by
  induction l generalizing m with
  | nil => rfl
  | cons a as ih =>
    simp only [List.map_cons, List.foldl_cons, memOp, MemTable.setNodeProp]
    rw [ih _ (by simp [hd])]
    simp [hd]

theorem fold_setE (l : List ((Edge × Nat) × PV)) (m : MemTable) (hd : m.eDel = []) :
    (l.map (fun p => WalRec.setEdgeProperty p.1.1 p.1.2 p.2)).foldl memOp m =
      { m with eprops := l.foldl (fun a p => upsert p.1 p.2 a) m.eprops } := by
  induction l generalizing m with
  | nil => rfl
  | cons a as ih =>
    simp only [List.map_cons, List.foldl_cons, memOp, MemTable.setEdgeProp]
    rw [ih _ (by simp [hd])]
    simp [hd]

theorem fold_delN (l : List (Nat × Nat)) (m : MemTable) :
    (l.map (fun p => WalRec.removeNodeProperty p.1 p.2)).foldl memOp m =
      { m with nprops := l.foldl (fun a k => mapErase k a) m.nprops,
               nDel := l.foldl (fun s k => setInsert k s) m.nDel } := by
  induction l generalizing m with
  | nil => rfl
  | cons a as ih => simp only [List.map_cons, List.foldl_cons, memOp, MemTable.removeNodeProp, ih]

theorem fold_delE (l : List (Edge × Nat)) (m : MemTable) :
    (l.map (fun p => WalRec.removeEdgeProperty p.1 p.2)).foldl memOp m =
      { m with eprops := l.foldl (fun a k => mapErase k a) m.eprops,
               eDel := l.foldl (fun s k => setInsert k s) m.eDel } := by
  induction l generalizing m with
  | nil => rfl
  | cons a as ih => simp only [List.map_cons, List.foldl_cons, memOp, MemTable.removeEdgeProp, ih]

/-! ### what the folds compute -/

theorem mem_fold_setInsert {α} [DecidableEq α] (l s : List α) (a : α) :
    a ∈ l.foldl (fun s x => setInsert x s) s ↔ (a ∈ s ∨ a ∈ l) := by
  induction l generalizing s with
  | nil => simp
  | cons x xs ih =>
    rw [List.foldl_cons, ih, mem_setInsert, List.mem_cons]
    constructor
    · rintro ((h | h) | h)
      · exact Or.inr (Or.inl h)
      · exact Or.inl h
      · exact Or.inr (Or.inr h)
    · rintro (h | h | h)
      · exact Or.inl (Or.inr h)
      · exact Or.inl (Or.inl h)
      · exact Or.inr h

theorem lookup_fold_upsert {κ} [DecidableEq κ] [BEq κ] [LawfulBEq κ] (l : List (κ × PV)) (acc : List (κ × PV))
    (hn : (l.map (·.1)).Nodup) (k : κ) :
    (l.foldl (fun a p => upsert p.1 p.2 a) acc).lookup k =
      (match l.lookup k with | some v => some v | none => acc.lookup k) := by
  induction l generalizing acc with
  | nil => rfl
  | cons p ps ih =>
    obtain ⟨a, b⟩ := p
    rw [List.map_cons, List.nodup_cons] at hn
    rw [List.foldl_cons, ih _ hn.2, List.lookup_cons, lookup_upsert]
    by_cases hk : k = a
    · subst hk
      have : ps.lookup k = none := by
        apply lookup_eq_none_of_not_mem_keys
        intro p hp heq
        exact hn.1 (List.mem_map.mpr ⟨p, hp, heq⟩)
      simp [this]
    · have h1 : (k == a) = false := by simpa using hk
      simp only [h1, hk, if_false]

theorem lookup_fold_erase {κ} [DecidableEq κ] [BEq κ] [LawfulBEq κ] (d : List κ) (acc : List (κ × PV)) (k : κ) :
    (d.foldl (fun a x => mapErase x a) acc).lookup k = if k ∈ d then none else acc.lookup k := by
  induction d generalizing acc with
  | nil => simp
  | cons x xs ih =>
    rw [List.foldl_cons, ih, lookup_mapErase]
    by_cases h1 : k ∈ xs
    · simp [h1]
    · by_cases h2 : k = x
      · subst h2; simp [h1]
      · simp [h1, h2]

end Nervus.Storage
