/-
  Helper lemmas for C10: racing creators (Nervus.Model.OpenRace).
-/
import Nervus.Model.OpenRace
namespace Nervus.OpenRace

/-- invariant of the lock-before-initialise protocol: every descriptor is on THE inode of the path -/
structure Inv (s : State) : Prop where
  fd : ∀ i n, s.ops i = .haveFd n ∨ s.ops i = .locked n → s.pathIno = some n
  held : ∀ i n, s.ops i = .locked n → s.lockOf n = some i

theorem inv_init : Inv init := ⟨by intro i n h; simp [init] at h, by intro i n h; simp [init] at h⟩

theorem inv_step {s s' : State} {l : Label} (hi : Inv s) (hs : step false s l = some s') : Inv s' := by
  obtain ⟨hfd, hheld⟩ := hi
  cases l with
  | check i => simp [step] at hs
  | create i => simp [step] at hs
  | openp i =>
    simp only [step, Bool.false_eq_true, if_false] at hs
    split at hs
    · split at hs
      · rename_i n hp
        cases hs
        constructor
        · intro j m hj
          by_cases hji : j = i
          · subst hji; simp [setOp] at hj; subst hj; exact hp
          · simp [setOp, hji] at hj; exact hfd j m hj
        · intro j m hj
          by_cases hji : j = i
          · subst hji; simp [setOp] at hj
          · simp [setOp, hji] at hj; exact hheld j m hj
      · rename_i hp
        cases hs
        constructor
        · intro j m hj
          by_cases hji : j = i
          · subst hji; simp [setOp] at hj; subst hj; rfl
          · simp [setOp, hji] at hj; have := hfd j m hj; rw [hp] at this; cases this
        · intro j m hj
          by_cases hji : j = i
          · subst hji; simp [setOp] at hj
          · simp [setOp, hji] at hj; exact hheld j m hj
    · cases hs
  | lock i =>
    simp only [step] at hs
    split at hs
    · rename_i n hop
      split at hs
      · rename_i hfree
        cases hs
        constructor
        · intro j m hj
          by_cases hji : j = i
          · subst hji; simp [setOp] at hj; subst hj; exact hfd j n (Or.inl hop)
          · simp [setOp, hji] at hj; exact hfd j m hj
        · intro j m hj
          by_cases hji : j = i
          · subst hji; simp [setOp] at hj; subst hj; simp
          · simp [setOp, hji] at hj
            have h1 := hheld j m hj
            by_cases hmn : m = n
            · subst hmn; rw [hfree] at h1; cases h1
            · simp [hmn, h1]
      · cases hs
        constructor
        · intro j m hj
          by_cases hji : j = i
          · subst hji; simp [setOp] at hj
          · simp [setOp, hji] at hj; exact hfd j m hj
        · intro j m hj
          by_cases hji : j = i
          · subst hji; simp [setOp] at hj
          · simp [setOp, hji] at hj; exact hheld j m hj
    · cases hs

theorem reach_inv {s : State} (h : Reach false s) : Inv s := by
  induction h with
  | init => exact inv_init
  | step l _ hs ih => exact inv_step ih hs

theorem reach_of_runTrace {r : Bool} {s s' : State} (tr : List Label)
    (h0 : Reach r s) (h : runTrace r s tr = some s') : Reach r s' := by
  induction tr generalizing s with
  | nil => simp [runTrace] at h; subst h; exact h0
  | cons l ls ih =>
    simp only [runTrace] at h
    split at h
    · rename_i s1 hs1; exact ih (Reach.step l h0 hs1) h
    · cases h

end Nervus.OpenRace
