/-
  Proofs/CheckpointTail.lean — after the last compaction / log rewrite (C04): transactions WITH label
  operations, reopens, and closes that find unflushed runs (so `close` does not rewrite the log).  The part
  of the pair invariant that does not speak about future checkpoints (`PairD`) is enough for them.
-/
import Nervus.Proofs.ReadsAgreeEqv
namespace Nervus.Storage
open Nervus.GraphSpec (Graph TxOp Op txWF wfFrom anyCommitted txDeletesRelWithProps
  txLabelReAdd txEdgeAndEndpointDelete txExtZero)

/-- the pair invariant without the two clauses that only a later checkpoint needs (`Quiet`, `LabelsBase`) -/
structure PairD (s u : Engine) (g : Graph) : Prop where
  eqv : Eqv Cfg.current s u
  sim : Sim u g
  recv : Rec s
  segs : SegsOK s
  root : RootOK s

theorem Pair.toD {s u : Engine} {g : Graph} (h : Pair s u g) : PairD s u g :=
  ⟨h.eqv, h.sim, h.recv, h.segs, h.root⟩

/-- a committed transaction, label operations allowed -/
theorem PairD.commit {s u : Engine} {g : Graph} (h : PairD s u g) (ops : List TxOp)
    (hwf : txWF g ops = true) (hb : u.interner.length + ops.length ≤ labelMax)
    (hz : txExtZero ops = false) (hra : txLabelReAdd ops = false) (hed : txEdgeAndEndpointDelete ops = false)
    (hrp : txDeletesRelWithProps g ops = false)
    (hclear : removalsClear (runTx Cfg.current s ops true) = true) :
    PairD (runTx Cfg.current s ops true) (runTx Cfg.current u ops true) (g.apply ops) := by
  have hu0 : u.propsRoot = 0 := h.sim.G.root
  obtain ⟨hE', _⟩ := tx_eqv Cfg.current h.eqv hu0 ops true hclear
  have hS' := tx_commit Cfg.current h.sim ops hwf hb hz hra hed hrp
  obtain ⟨k1, k2, k3, k4, k5, k6⟩ := stage_facts h.sim ops hwf hb hz hra hed hrp
  obtain ⟨_, _, _, hm, _, ht⟩ := fold_cor Cfg.current ops s.beginWrite u.beginWrite h.eqv.interner h.eqv.idmap h.eqv.vecs
    ⟨rfl, rfl, rfl, rfl, rfl⟩
  have hsf := fold_sframe Cfg.current ops s.beginWrite
  have hrs : Rec (ops.foldl (stepTx Cfg.current) s.beginWrite).1 := Rec.fold Cfg.current ops s.beginWrite h.recv.begin
  have hmt := fold_mtWF Cfg.current ops s.beginWrite MemTable.WF.empty
  have htxid : (ops.foldl (stepTx Cfg.current) s.beginWrite).2.txid = s.nextTxid := fold_txid Cfg.current ops s.beginWrite
  have hfr := fold_frame2 Cfg.current ops s.beginWrite
  generalize hst : ops.foldl (stepTx Cfg.current) s.beginWrite = st at *
  generalize hsu : ops.foldl (stepTx Cfg.current) u.beginWrite = su at *
  have hfresh : ∀ c ∈ st.2.created, st.1.idmap.lookup c.1 = none := by
    intro c hc; rw [hm.lookup c.1]; exact k2 c (by rw [← ht.created]; exact hc)
  have hnd : (st.2.created.map (·.1)).Nodup := by rw [ht.created]; exact k3
  have hcommit := Rec.commit hrs hmt (by rw [htxid, hfr.1]; exact h.recv.ckptLt) (by rw [htxid]; exact hfr.2)
    (by intro i c hc; rw [hm.i2e]; exact k1 i c (by rw [← ht.created]; exact hc))
    hfresh hnd (by rw [hm.i2l, hm.i2e]; exact k4)
    (by intro p hp; rw [hm.i2l, ht.created]; exact k5 p (by rw [← ht.addL]; exact hp))
    (by intro p hp; rw [hm.i2l, ht.created]; exact k6 p (by rw [← ht.delL]; exact hp))
  have hrun : runTx Cfg.current s ops true = committed Cfg.current st.1 st.2 (idmapAfter st.1.idmap st.2) := by
    unfold runTx
    simp only [if_true]
    rw [hst, commit_ok_eq Cfg.current _ _ _ hcommit.1]
  refine ⟨hE', hS', by rw [hrun]; exact hcommit.2, ?_, runTx_rootOK Cfg.current h.root ops true⟩
  rw [hrun]
  have hbs : SFrame s st.1 := SFrame.trans (b := s.beginWrite.1) ⟨rfl, rfl, rfl, rfl⟩ hsf
  exact ⟨by show st.1.segStore = st.1.segs; rw [hbs.segStore, hbs.segs]; exact h.segs.store,
    by intro g' hg'; show g'.id < st.1.nextSegId; rw [hbs.nextSegId]; exact h.segs.lt g' (by
      have : g' ∈ st.1.segs := hg'
      rw [hbs.segs] at this; exact this),
    by show (st.1.segs.map (·.id)).Nodup; rw [hbs.segs]; exact h.segs.nodup⟩

theorem PairD.abort {s u : Engine} {g : Graph} (h : PairD s u g) (ops : List TxOp)
    (hb : u.interner.length + ops.length ≤ labelMax)
    (hclear : removalsClear (runTx Cfg.current s ops false) = true) :
    PairD (runTx Cfg.current s ops false) (runTx Cfg.current u ops false) g := by
  have hu0 : u.propsRoot = 0 := h.sim.G.root
  obtain ⟨hE', _⟩ := tx_eqv Cfg.current h.eqv hu0 ops false hclear
  have hsf : SFrame s (runTx Cfg.current s ops false) :=
    SFrame.trans (b := s.beginWrite.1) ⟨rfl, rfl, rfl, rfl⟩ (fold_sframe Cfg.current ops s.beginWrite)
  refine ⟨hE', tx_abort Cfg.current h.sim ops hb, tx_abort_rec Cfg.current h.recv ops, ?_,
    runTx_rootOK Cfg.current h.root ops false⟩
  exact ⟨by rw [hsf.segStore, hsf.segs]; exact h.segs.store,
    by intro g' hg'; rw [hsf.nextSegId]; exact h.segs.lt g' (by rw [hsf.segs] at hg'; exact hg'),
    by rw [hsf.segs]; exact h.segs.nodup⟩

theorem PairD.reopen {s u : Engine} {g : Graph} (h : PairD s u g) : ∃ s', s.reopen = .ok s' ∧ PairD s' u g := by
  have hload : ∀ x, (IdMap.load s.idmap.i2e).lookup x = s.idmap.lookup x := by
    intro x
    rw [h.eqv.idmap.i2e, h.eqv.idmap.lookup x]
    exact load_lookup_eq h.sim.L x
  obtain ⟨s', hopen, r1, r2, r3, r4, r5, r6, _, _, _, rid, rE, rR, rlt, rsr⟩ := reopen_rec h.recv h.segs.find hload
  have hid : IdEq s'.idmap s.idmap := by rw [rid]; exact ⟨rfl, rfl, hload⟩
  have hE : Eqv Cfg.current s' s :=
    eqv_runsEq Cfg.current rE r1 r3 r4 rsr hid r5 r6
  exact ⟨s', hopen, hE.trans h.eqv, h.sim, rR,
    ⟨by rw [r2, r1]; exact h.segs.store, rlt, by rw [r1]; exact h.segs.nodup⟩,
    ⟨by rw [r4, rsr]; exact h.root.eq, fun h0 => by rw [r3]; exact h.root.empty (by rw [← r4]; exact h0)⟩⟩

/-- the decidable side conditions of the tail: no removal over a store value; reopens; closes only while
    runs are unflushed (then `checkpoint_on_close` is a flush and the log stays); compactions only when there
    is nothing to compact -/
def tailSafe (c : Cfg) : Engine → List Op → Bool
  | _, [] => true
  | s, .tx ops b :: h => removalsClear (runTx c s ops b) && tailSafe c (runTx c s ops b) h
  | s, .compact :: h => s.runs.isEmpty && tailSafe c s h
  | s, .reopen :: h => match s.reopen with
    | .ok s' => tailSafe c s' h
    | .error _ => false
  | s, .close :: h => !s.runs.isEmpty && (match s.reopen with
    | .ok s' => tailSafe c s' h
    | .error _ => false)

theorem hist_tail : ∀ (h : List Op) (s u : Engine) (g : Graph), PairD s u g →
    tailSafe Cfg.current s h = true → wfFrom g h = true → u.interner.length + histSize h ≤ labelMax →
    anyCommitted txDeletesRelWithProps g h = false →
    anyCommitted (fun _ => txLabelReAdd) g h = false →
    anyCommitted (fun _ => txEdgeAndEndpointDelete) g h = false →
    anyCommitted (fun _ => txExtZero) g h = false →
    ∃ s' u', h.foldlM (runOp Cfg.current) s = .ok s' ∧ (txPart h).foldlM (runOp Cfg.current) u = .ok u' ∧
      PairD s' u' (h.foldl Graph.opStep g) := by
  intro h
  induction h with
  | nil => intro s u g hP _ _ _ _ _ _ _; exact ⟨s, u, rfl, rfl, hP⟩
  | cons op h ih =>
    intro s u g hP hs hwf hb t1 t2 t3 t4
    cases op with
    | tx ops b =>
      simp only [tailSafe, Bool.and_eq_true] at hs
      simp only [wfFrom, Bool.and_eq_true] at hwf
      simp only [histSize] at hb
      have hlen := runTx_interner_le Cfg.current u hP.sim.G.nodup ops b
      have htp : txPart (Op.tx ops b :: h) = Op.tx ops b :: txPart h := by
        unfold txPart; rw [List.filter_cons_of_pos (by rfl)]
      cases b with
      | true =>
        simp only [anyCommitted, Bool.or_eq_false_iff] at t1 t2 t3 t4
        have hP' := hP.commit ops hwf.1 (by omega) t4.1 t2.1 t3.1 t1.1 hs.1
        obtain ⟨s', u', h1, h2, h3⟩ := ih _ _ _ hP' hs.2 hwf.2 (by omega) t1.2 t2.2 t3.2 t4.2
        exact ⟨s', u', by rw [List.foldlM_cons]; exact h1, by rw [htp, List.foldlM_cons]; exact h2, h3⟩
      | false =>
        simp only [anyCommitted] at t1 t2 t3 t4
        have hP' := hP.abort ops (by omega) hs.1
        obtain ⟨s', u', h1, h2, h3⟩ := ih _ _ _ hP' hs.2 hwf.2 (by omega) t1 t2 t3 t4
        exact ⟨s', u', by rw [List.foldlM_cons]; exact h1, by rw [htp, List.foldlM_cons]; exact h2, h3⟩
    | compact =>
      simp only [tailSafe, Bool.and_eq_true] at hs
      simp only [wfFrom] at hwf
      simp only [histSize] at hb
      simp only [anyCommitted] at t1 t2 t3 t4
      have hno : s.compact Cfg.current = s := compact_noop Cfg.current s hs.1
      obtain ⟨s', u', h1, h2, h3⟩ := ih _ _ _ hP hs.2 hwf hb t1 t2 t3 t4
      refine ⟨s', u', ?_, ?_, h3⟩
      · rw [List.foldlM_cons]
        show (Except.ok (s.compact Cfg.current) >>= fun s' => h.foldlM (runOp Cfg.current) s') = _
        rw [hno]; exact h1
      · show ((Op.compact :: h).filter isTxOp).foldlM (runOp Cfg.current) u = _
        rw [List.filter_cons_of_neg (by simp [isTxOp])]; exact h2
    | reopen =>
      obtain ⟨s1, hopen, hP'⟩ := hP.reopen
      simp only [tailSafe, hopen] at hs
      simp only [wfFrom] at hwf
      simp only [histSize] at hb
      simp only [anyCommitted] at t1 t2 t3 t4
      obtain ⟨s', u', h1, h2, h3⟩ := ih _ _ _ hP' hs hwf hb t1 t2 t3 t4
      refine ⟨s', u', ?_, ?_, h3⟩
      · rw [List.foldlM_cons]
        show (s.reopen >>= fun s' => h.foldlM (runOp Cfg.current) s') = _
        rw [hopen]; exact h1
      · show ((Op.reopen :: h).filter isTxOp).foldlM (runOp Cfg.current) u = _
        rw [List.filter_cons_of_neg (by simp [isTxOp])]; exact h2
    | close =>
      obtain ⟨s1, hopen, hP'⟩ := hP.reopen
      simp only [tailSafe, hopen, Bool.and_eq_true, Bool.not_eq_true'] at hs
      simp only [wfFrom] at hwf
      simp only [histSize] at hb
      simp only [anyCommitted] at t1 t2 t3 t4
      have hsame : s.checkpointOnClose = s := by
        unfold Engine.checkpointOnClose
        rw [hs.1]; rfl
      obtain ⟨s', u', h1, h2, h3⟩ := ih _ _ _ hP' hs.2 hwf hb t1 t2 t3 t4
      refine ⟨s', u', ?_, ?_, h3⟩
      · rw [List.foldlM_cons]
        show (s.checkpointOnClose.reopen >>= fun s' => h.foldlM (runOp Cfg.current) s') = _
        rw [hsame, hopen]; exact h1
      · show ((Op.close :: h).filter isTxOp).foldlM (runOp Cfg.current) u = _
        rw [List.filter_cons_of_neg (by simp [isTxOp])]; exact h2

/-! ### a checkpointed history followed by a tail -/

theorem wfFrom_append (a b : List Op) : ∀ g, wfFrom g (a ++ b) = (wfFrom g a && wfFrom (a.foldl Graph.opStep g) b) := by
  induction a with
  | nil => intro g; simp [wfFrom]
  | cons op a ih =>
    intro g
    cases op with
    | tx ops c => simp only [List.cons_append, wfFrom, ih, Bool.and_assoc, List.foldl_cons]
    | compact => simp only [List.cons_append, wfFrom, ih, List.foldl_cons]; rfl
    | close => simp only [List.cons_append, wfFrom, ih, List.foldl_cons]; rfl
    | reopen => simp only [List.cons_append, wfFrom, ih, List.foldl_cons]; rfl

theorem anyCommitted_append (p : Graph → List TxOp → Bool) (a b : List Op) :
    ∀ g, anyCommitted p g (a ++ b) = (anyCommitted p g a || anyCommitted p (a.foldl Graph.opStep g) b) := by
  induction a with
  | nil => intro g; simp [anyCommitted]
  | cons op a ih =>
    intro g
    cases op with
    | tx ops c =>
      cases c with
      | true => simp only [List.cons_append, anyCommitted, ih, Bool.or_assoc, List.foldl_cons]; rfl
      | false => simp only [List.cons_append, anyCommitted, ih, List.foldl_cons]; rfl
    | compact => simp only [List.cons_append, anyCommitted, ih, List.foldl_cons]; rfl
    | close => simp only [List.cons_append, anyCommitted, ih, List.foldl_cons]; rfl
    | reopen => simp only [List.cons_append, anyCommitted, ih, List.foldl_cons]; rfl

theorem histSize_append (a b : List Op) : histSize (a ++ b) = histSize a + histSize b := by
  induction a with
  | nil => simp [histSize]
  | cons op a ih =>
    cases op with
    | tx ops c => simp only [List.cons_append, histSize, ih]; omega
    | compact => simp only [List.cons_append, histSize, ih]
    | close => simp only [List.cons_append, histSize, ih]
    | reopen => simp only [List.cons_append, histSize, ih]

/-- the side conditions of a history `h₁ ++ h₂`: `h₁` as in `ckptHistSafe`, the tail `h₂` as in `tailSafe` -/
def ckptTailSafe (h₁ h₂ : List Op) : Bool :=
  ckptHistSafe Cfg.current {} h₁ &&
  (match Storage.run Cfg.current h₁ with
   | .ok s₁ => tailSafe Cfg.current s₁ h₂
   | .error _ => false)

theorem hist_ckpt_tail (h₁ h₂ : List Op) (hs : ckptTailSafe h₁ h₂ = true)
    (hwf : GraphSpec.wellFormed (h₁ ++ h₂) = true) (hsz : histSize (h₁ ++ h₂) ≤ labelMax)
    (k1 : anyCommitted txDeletesRelWithProps {} (h₁ ++ h₂) = false)
    (k2 : anyCommitted (fun _ => txLabelReAdd) {} (h₁ ++ h₂) = false)
    (k3 : anyCommitted (fun _ => txEdgeAndEndpointDelete) {} (h₁ ++ h₂) = false)
    (k4 : anyCommitted (fun _ => txExtZero) {} (h₁ ++ h₂) = false) :
    ∃ s u, Storage.run Cfg.current (h₁ ++ h₂) = .ok s ∧ Storage.run Cfg.current (txPart (h₁ ++ h₂)) = .ok u ∧
      PairD s u (GraphSpec.run (h₁ ++ h₂)) := by
  simp only [ckptTailSafe, Bool.and_eq_true] at hs
  obtain ⟨hs1, hs2⟩ := hs
  have hwf' : wfFrom {} (h₁ ++ h₂) = true := hwf
  rw [wfFrom_append, Bool.and_eq_true] at hwf'
  rw [anyCommitted_append, Bool.or_eq_false_iff] at k1 k2 k3 k4
  rw [histSize_append] at hsz
  obtain ⟨s1, u1, hr1, hru1, hP1⟩ := hist_pair h₁ {} {} {} Pair.empty hs1 hwf'.1 (by show 0 + _ ≤ _; omega)
    k1.1 k2.1 k3.1 k4.1
  have hrun1 : Storage.run Cfg.current h₁ = .ok s1 := hr1
  rw [hrun1] at hs2
  -- the label table of the shadow after h₁
  have hint : u1.interner.length ≤ histSize h₁ := by
    have : ∀ (h : List Op) (u u' : Engine), u.interner.Nodup → (txPart h).foldlM (runOp Cfg.current) u = .ok u' →
        u'.interner.length ≤ u.interner.length + histSize h ∧ True := by
      intro h
      induction h with
      | nil => intro u u' _ hh; cases hh; exact ⟨by simp [histSize], trivial⟩
      | cons op h ih =>
        intro u u' hn hh
        cases op with
        | tx ops b =>
          have htp : txPart (Op.tx ops b :: h) = Op.tx ops b :: txPart h := by
            unfold txPart; rw [List.filter_cons_of_pos (by rfl)]
          rw [htp, List.foldlM_cons] at hh
          have hlen := runTx_interner_le Cfg.current u hn ops b
          have hn' : (runTx Cfg.current u ops b).interner.Nodup := by
            obtain ⟨he, _⟩ := fold_ext Cfg.current u ops u.beginWrite ⟨rfl, rfl, rfl, rfl, List.prefix_refl _, hn⟩
            unfold runTx
            cases b with
            | true =>
              simp only [if_true]
              have : ∀ (x : Engine) (t : Txn), (x.commit Cfg.current t).1.interner = x.interner := by
                intro x t; unfold Engine.commit; split <;> rfl
              rw [this]; exact he.nodup
            | false => exact he.nodup
          obtain ⟨h1, _⟩ := ih _ u' hn' hh
          exact ⟨by simp only [histSize]; omega, trivial⟩
        | compact =>
          have : txPart (Op.compact :: h) = txPart h := by unfold txPart; rw [List.filter_cons_of_neg (by simp [isTxOp])]
          rw [this] at hh; obtain ⟨h1, _⟩ := ih u u' hn hh; exact ⟨by simpa [histSize] using h1, trivial⟩
        | close =>
          have : txPart (Op.close :: h) = txPart h := by unfold txPart; rw [List.filter_cons_of_neg (by simp [isTxOp])]
          rw [this] at hh; obtain ⟨h1, _⟩ := ih u u' hn hh; exact ⟨by simpa [histSize] using h1, trivial⟩
        | reopen =>
          have : txPart (Op.reopen :: h) = txPart h := by unfold txPart; rw [List.filter_cons_of_neg (by simp [isTxOp])]
          rw [this] at hh; obtain ⟨h1, _⟩ := ih u u' hn hh; exact ⟨by simpa [histSize] using h1, trivial⟩
    have := (this h₁ {} u1 List.nodup_nil hru1).1
    simpa using this
  obtain ⟨s, u, hr2, hru2, hP2⟩ := hist_tail h₂ s1 u1 _ hP1.toD hs2 hwf'.2 (by omega) k1.2 k2.2 k3.2 k4.2
  refine ⟨s, u, ?_, ?_, ?_⟩
  · show (h₁ ++ h₂).foldlM (runOp Cfg.current) {} = _
    rw [List.foldlM_append]
    show (h₁.foldlM (runOp Cfg.current) {} >>= _) = _
    rw [hr1]; exact hr2
  · show (txPart (h₁ ++ h₂)).foldlM (runOp Cfg.current) {} = _
    unfold txPart
    rw [List.filter_append, List.foldlM_append]
    show ((txPart h₁).foldlM (runOp Cfg.current) {} >>= _) = _
    rw [hru1]; exact hru2
  · show PairD s u ((h₁ ++ h₂).foldl Graph.opStep {})
    rw [List.foldl_append]; exact hP2

end Nervus.Storage
