/-
  C26: one split step, generically.
  A ghost page `x` (level `lvl`, range [a,b)) has been split at `s` into `x` [a,s) and the fresh page
  `next` [s,b) (`SplitStep`).  Then the tree in which the parent ALSO holds the new cell `(s, next)`
  right after `x` is well formed (`split_parent`), respectively the tree with a new root above
  `x`/`next` when `x` was the root (`split_root`).  insert_into_parent either writes exactly that
  tree, or splits the parent — which is the same situation one level up.
-/
import Nervus.Proofs.BTreeWrite
set_option linter.unusedSectionVars false
set_option linter.unusedVariables false
namespace Nervus.BTree
open Nervus KO

variable {κ : Type} [KeyOrd κ] [LawfulKeyOrd κ]

/-- ghost ranges after splitting `x` at `s` into `x` and the fresh page `y` -/
def splitG (G : GMap κ) (x y lvl : Nat) (a b : Option κ) (s : κ) : GMap κ :=
  fun p => if p = y then some (lvl, some s, b) else if p = x then some (lvl, a, some s) else G p

structure SplitStep (pgV : Pg κ) (next : Nat) (g : Ghost κ) (x lvl : Nat) (a b : Option κ) (s : κ)
    (pgS : Pg κ) (L' : List Nat) : Prop where
  hx : g.G x = some (lvl, a, b)
  as_ : bLe a (some s)
  sb : bLe (some s) b
  same : ∀ p, p ≠ x → p ≠ next → pgS p = pgV p
  leafc : lvl = 0 →
    (∃ es bb r, pgS x = some (.leaf es bb r) ∧ SSorted es ∧ ∀ e ∈ es, bLo a e.1 ∧ bHi e.1 (some s)) ∧
    (∃ es bb r, pgS next = some (.leaf es bb r) ∧ SSorted es ∧ ∀ e ∈ es, bLo (some s) e.1 ∧ bHi e.1 b)
  intc : ∀ l, lvl = l + 1 →
    (∃ lm cells bb, pgS x = some (.internal lm cells bb) ∧
      (∀ z ∈ kidsR a (some s) lm cells, g.G z.1 = some (l, z.2.1, z.2.2)) ∧ (kidsOf lm cells).Nodup) ∧
    (∃ lm cells bb, pgS next = some (.internal lm cells bb) ∧
      (∀ z ∈ kidsR (some s) b lm cells, g.G z.1 = some (l, z.2.1, z.2.2)) ∧ (kidsOf lm cells).Nodup)
  kidsub : ∀ c, (c ∈ kidsOfPage pgS x ∨ c ∈ kidsOfPage pgS next) → c ∈ kidsOfPage pgV x
  kidsdisj : ∀ c, c ∈ kidsOfPage pgS x → c ∈ kidsOfPage pgS next → False
  lnodup : L'.Nodup
  lmem : ∀ p, p ∈ L' ↔ ∃ lo hi, splitG g.G x next lvl a b s p = some (0, lo, hi)
  seg : ∃ p0 rest, L' = p0 :: rest ∧ Seg pgS (splitG g.G x next lvl a b s) p0 none L' 0 none
  len : L'.length ≤ g.L.length + 1

theorem splitG_other (G : GMap κ) (x y lvl : Nat) (a b : Option κ) (s : κ) (p : Nat)
    (h1 : p ≠ x) (h2 : p ≠ y) : splitG G x y lvl a b s p = G p := by
  simp [splitG, h1, h2]

theorem splitG_x (G : GMap κ) (x y lvl : Nat) (a b : Option κ) (s : κ) (h : x ≠ y) :
    splitG G x y lvl a b s x = some (lvl, a, some s) := by
  simp [splitG, h]

theorem splitG_y (G : GMap κ) (x y lvl : Nat) (a b : Option κ) (s : κ) :
    splitG G x y lvl a b s y = some (lvl, some s, b) := by
  simp [splitG]

section
variable {pgV : Pg κ} {root next : Nat} {g : Ghost κ} (wf : WF pgV root next g)
include wf

theorem WF.fresh : g.G next = none := by
  cases h : g.G next with
  | none => rfl
  | some v =>
    obtain ⟨l, lo, hi⟩ := v
    have := (wf.rng next l lo hi h).2.1
    omega

/-- kids of ghost internal pages are ghost pages one level down -/
theorem WF.kid_ghost (p l : Nat) (lo hi : Option κ) (hp : g.G p = some (l + 1, lo, hi)) (c : Nat)
    (hc : c ∈ kidsOfPage pgV p) : ∃ lo' hi', g.G c = some (l, lo', hi') := by
  obtain ⟨lm, cells, b, hpg, hk, _⟩ := wf.int p l lo hi hp
  simp only [kidsOfPage, hpg] at hc
  rw [← kidsR_map_fst lo hi lm cells] at hc
  obtain ⟨z, hz, rfl⟩ := List.mem_map.mp hc
  exact ⟨_, _, hk z hz⟩

theorem WF.kid_ne_next (p l : Nat) (lo hi : Option κ) (hp : g.G p = some (l + 1, lo, hi)) (c : Nat)
    (hc : c ∈ kidsOfPage pgV p) : c ≠ next := by
  obtain ⟨lo', hi', h⟩ := wf.kid_ghost p l lo hi hp c hc
  intro e; subst e
  rw [wf.fresh] at h; cases h

end

/-- the general shape of every proof below: a ghost lookup under `splitG` -/
theorem splitG_cases (G : GMap κ) (x y lvl : Nat) (a b : Option κ) (s : κ) (hxy : x ≠ y) (p l : Nat)
    (lo hi : Option κ) (h : splitG G x y lvl a b s p = some (l, lo, hi)) :
    (y = p ∧ lvl = l ∧ some s = lo ∧ b = hi) ∨ (x = p ∧ lvl = l ∧ a = lo ∧ some s = hi) ∨
    (p ≠ x ∧ p ≠ y ∧ G p = some (l, lo, hi)) := by
  unfold splitG at h
  by_cases h1 : p = y
  · simp only [h1, if_true] at h
    cases h
    exact Or.inl ⟨h1.symm, rfl, rfl, rfl⟩
  · by_cases h2 : p = x
    · simp only [h1, h2, if_false] at h
      have : ¬ x = y := hxy
      simp only [this, if_false, if_true] at h
      cases h
      exact Or.inr (Or.inl ⟨h2.symm, rfl, rfl, rfl⟩)
    · simp only [h1, h2, if_false] at h
      exact Or.inr (Or.inr ⟨h2, h1, h⟩)

/-- **split step below a parent**: with the new cell `(s, next)` in the parent the tree is well formed -/
theorem split_parent {pgV : Pg κ} {root next : Nat} {g : Ghost κ} (wf : WF pgV root next g)
    {x lvl : Nat} {a b : Option κ} {s : κ} {pgS : Pg κ} {L' : List Nat}
    (st : SplitStep pgV next g x lvl a b s pgS L')
    (pid pos : Nat) (plo phi : Option κ) (lm : Nat) (cells : List (κ × Nat)) (bb : Nat)
    (hpid : g.G pid = some (lvl + 1, plo, phi)) (hpg : pgV pid = some (.internal lm cells bb))
    (hpos : pos ≤ cells.length) (hchild : (endSt plo lm (cells.take pos)).2 = x) (bb' : Nat) :
    WF (upd pgS pid (.internal lm (cells.insertIdx pos (s, next)) bb')) root (next + 1)
      ⟨splitG g.G x next lvl a b s, L', g.H⟩ := by
  have hfresh := wf.fresh
  have hxn : x ≠ next := by intro e; have := st.hx; rw [e, hfresh] at this; cases this
  have hpn : pid ≠ next := by intro e; rw [e, hfresh] at hpid; cases hpid
  have hpx : pid ≠ x := by
    intro e; rw [e, st.hx] at hpid
    simp only [Option.some.injEq, Prod.mk.injEq] at hpid; omega
  have hrx : root ≠ x := by
    intro e
    have h1 := wf.root; rw [e, st.hx] at h1
    simp only [Option.some.injEq, Prod.mk.injEq] at h1
    have := wf.lvl pid (lvl + 1) plo phi hpid
    omega
  have hrn : root ≠ next := by intro e; have := wf.root; rw [e, hfresh] at this; cases this
  -- the parent's cells around the position
  have hcells : cells = cells.take pos ++ cells.drop pos := (List.take_append_drop pos cells).symm
  have hins : cells.insertIdx pos (s, next) = cells.take pos ++ (s, next) :: cells.drop pos :=
    insertIdx_eq_take_drop _ _ _ hpos
  obtain ⟨lm0, cells0, b0, hpg0, hkids, hnd⟩ := wf.int pid lvl plo phi hpid
  rw [hpg] at hpg0; cases hpg0
  obtain ⟨bq, tail, hold, hnew⟩ := kidsR_insert plo phi lm (cells.take pos) (cells.drop pos) s next
  rw [← hcells] at hold
  rw [← hins, hchild] at hnew
  rw [hchild] at hold
  have hxin : g.G x = some (lvl, (endSt plo lm (cells.take pos)).1, bq) :=
    hkids (x, (endSt plo lm (cells.take pos)).1, bq) (by rw [hold]; simp)
  rw [st.hx] at hxin
  simp only [Option.some.injEq, Prod.mk.injEq, true_and] at hxin
  obtain ⟨ha, hb⟩ := hxin
  rw [← ha, ← hb] at hold hnew
  -- old kids are distinct
  have hndk : ((front plo lm (cells.take pos)).map (·.1) ++ x :: tail.map (·.1)).Nodup := by
    have := hnd
    rw [← kidsR_map_fst plo phi lm cells, hold] at this
    simpa using this
  have hx_front : x ∉ (front plo lm (cells.take pos)).map (·.1) := by
    intro h
    exact (List.nodup_append.mp hndk).2.2 x h x (List.mem_cons_self ..) rfl
  have hx_tail : x ∉ tail.map (·.1) := (List.nodup_cons.mp (List.nodup_append.mp hndk).2.1).1
  have hkid_old : ∀ z, z ∈ front plo lm (cells.take pos) ∨ z ∈ tail → g.G z.1 = some (lvl, z.2.1, z.2.2) := by
    intro z hz
    apply hkids z
    rw [hold]
    rcases hz with hz | hz
    · exact List.mem_append_left _ hz
    · exact List.mem_append_right _ (List.mem_cons_of_mem _ hz)
  have hkid_ne : ∀ z, z ∈ front plo lm (cells.take pos) ∨ z ∈ tail → z.1 ≠ x ∧ z.1 ≠ next := by
    intro z hz
    constructor
    · rcases hz with hz | hz
      · intro e; exact hx_front (e ▸ List.mem_map_of_mem hz)
      · intro e; exact hx_tail (e ▸ List.mem_map_of_mem hz)
    · intro e
      have := hkid_old z hz
      rw [e, hfresh] at this; cases this
  -- kids of pages in the new page map
  have hkidsP_pid : kidsOfPage (upd pgS pid (.internal lm (cells.insertIdx pos (s, next)) bb')) pid =
      (front plo lm (cells.take pos)).map (·.1) ++ x :: next :: tail.map (·.1) := by
    simp only [kidsOfPage, upd_same]
    rw [← kidsR_map_fst plo phi lm, hnew]; simp
  have hkidsV_pid : kidsOfPage pgV pid = (front plo lm (cells.take pos)).map (·.1) ++ x :: tail.map (·.1) := by
    simp only [kidsOfPage, hpg]
    rw [← kidsR_map_fst plo phi lm, hold]; simp
  have hkidsP_other : ∀ q, q ≠ pid → q ≠ x → q ≠ next →
      kidsOfPage (upd pgS pid (.internal lm (cells.insertIdx pos (s, next)) bb')) q = kidsOfPage pgV q := by
    intro q h1 h2 h3
    simp only [kidsOfPage, upd_other _ _ _ _ h1, st.same q h2 h3]
  have hkidsP_x : kidsOfPage (upd pgS pid (.internal lm (cells.insertIdx pos (s, next)) bb')) x = kidsOfPage pgS x := by
    simp only [kidsOfPage, upd_other _ _ _ _ (Ne.symm hpx)]
  have hkidsP_n : kidsOfPage (upd pgS pid (.internal lm (cells.insertIdx pos (s, next)) bb')) next = kidsOfPage pgS next := by
    simp only [kidsOfPage, upd_other _ _ _ _ (Ne.symm hpn)]
  -- every page whose kids contain `c ≠ next` comes from a page of the old tree that had `c`
  have horigin : ∀ q l lo hi, splitG g.G x next lvl a b s q = some (l + 1, lo, hi) → ∀ c,
      c ∈ kidsOfPage (upd pgS pid (.internal lm (cells.insertIdx pos (s, next)) bb')) q → c ≠ next →
      ∃ q0 l0 lo0 hi0, g.G q0 = some (l0 + 1, lo0, hi0) ∧ c ∈ kidsOfPage pgV q0 ∧
        (q0 = (if q = next then x else q)) := by
    intro q l lo hi hq c hc hcn
    rcases splitG_cases g.G x next lvl a b s hxn q (l + 1) lo hi hq with ⟨rfl, hl, _, _⟩ | ⟨rfl, hl, _, _⟩ | ⟨h1, h2, hG⟩
    · rw [hkidsP_n] at hc
      refine ⟨x, l, a, b, by rw [st.hx, hl], st.kidsub c (Or.inr hc), by simp⟩
    · rw [hkidsP_x] at hc
      refine ⟨x, l, a, b, by rw [st.hx, hl], st.kidsub c (Or.inl hc), by simp [hxn]⟩
    · by_cases hqp : q = pid
      · subst hqp
        rw [hkidsP_pid] at hc
        refine ⟨q, lvl, plo, phi, hpid, ?_, by simp [h2]⟩
        rw [hkidsV_pid]
        simp only [List.mem_append, List.mem_cons] at hc ⊢
        rcases hc with hc | hc | hc | hc
        · exact Or.inl hc
        · exact Or.inr (Or.inl hc)
        · exact absurd hc hcn
        · exact Or.inr (Or.inr hc)
      · rw [hkidsP_other q hqp h1 h2] at hc
        exact ⟨q, l, lo, hi, hG, hc, by simp [h2]⟩
  refine
    { root := ?_, rng := ?_, lvl := ?_, int := ?_, leaf := ?_, share := ?_, lnodup := st.lnodup,
      lmem := st.lmem, seg := ?_, fuel := ?_ }
  · -- root
    show splitG g.G x next lvl a b s root = some (g.H, none, none)
    rw [splitG_other _ _ _ _ _ _ _ _ hrx hrn]; exact wf.root
  · -- rng
    intro p l lo hi hp
    rcases splitG_cases g.G x next lvl a b s hxn p l lo hi hp with ⟨rfl, _, rfl, rfl⟩ | ⟨rfl, _, rfl, rfl⟩ | ⟨_, _, hG⟩
    · have := wf.rng x lvl a b st.hx
      exact ⟨by omega, by omega, st.sb⟩
    · have := wf.rng x lvl a b st.hx
      exact ⟨this.1, by omega, st.as_⟩
    · have := wf.rng p l lo hi hG
      exact ⟨this.1, by omega, this.2.2⟩
  · -- lvl
    intro p l lo hi hp
    show l ≤ g.H
    rcases splitG_cases g.G x next lvl a b s hxn p l lo hi hp with ⟨_, rfl, _, _⟩ | ⟨_, rfl, _, _⟩ | ⟨_, _, hG⟩
    · exact wf.lvl x _ a b st.hx
    · exact wf.lvl x _ a b st.hx
    · exact wf.lvl p l lo hi hG
  · -- int
    intro p l lo hi hp
    show ∃ lm' cells' b', upd pgS pid _ p = some (.internal lm' cells' b') ∧
      (∀ z ∈ kidsR lo hi lm' cells', splitG g.G x next lvl a b s z.1 = some (l, z.2.1, z.2.2)) ∧ _
    rcases splitG_cases g.G x next lvl a b s hxn p (l + 1) lo hi hp with ⟨rfl, hl, rfl, rfl⟩ | ⟨rfl, hl, rfl, rfl⟩ | ⟨h1, h2, hG⟩
    · obtain ⟨_, ⟨lm', cells', b', hp', hk', hn'⟩⟩ := st.intc l hl
      refine ⟨lm', cells', b', by rw [upd_other _ _ _ _ (Ne.symm hpn)]; exact hp', ?_, hn'⟩
      intro z hz
      have hz' := hk' z hz
      have n1 : z.1 ≠ x := by intro e; rw [e, st.hx] at hz'; simp at hz'; omega
      have n2 : z.1 ≠ next := by intro e; rw [e, hfresh] at hz'; cases hz'
      rw [splitG_other _ _ _ _ _ _ _ _ n1 n2]; exact hz'
    · obtain ⟨⟨lm', cells', b', hp', hk', hn'⟩, _⟩ := st.intc l hl
      refine ⟨lm', cells', b', by rw [upd_other _ _ _ _ (Ne.symm hpx)]; exact hp', ?_, hn'⟩
      intro z hz
      have hz' := hk' z hz
      have n1 : z.1 ≠ x := by intro e; rw [e, st.hx] at hz'; simp at hz'; omega
      have n2 : z.1 ≠ next := by intro e; rw [e, hfresh] at hz'; cases hz'
      rw [splitG_other _ _ _ _ _ _ _ _ n1 n2]; exact hz'
    · by_cases hpp : p = pid
      · subst hpp
        rw [hpid] at hG
        simp only [Option.some.injEq, Prod.mk.injEq, Nat.add_right_cancel_iff] at hG
        obtain ⟨rfl, rfl, rfl⟩ := hG
        refine ⟨lm, cells.insertIdx pos (s, next), bb', by simp, ?_, ?_⟩
        · intro z hz
          rw [hnew] at hz
          simp only [List.mem_append, List.mem_cons] at hz
          rcases hz with hz | rfl | rfl | hz
          · obtain ⟨n1, n2⟩ := hkid_ne z (Or.inl hz)
            rw [splitG_other _ _ _ _ _ _ _ _ n1 n2]; exact hkid_old z (Or.inl hz)
          · exact splitG_x _ _ _ _ _ _ _ hxn
          · exact splitG_y _ _ _ _ _ _ _
          · obtain ⟨n1, n2⟩ := hkid_ne z (Or.inr hz)
            rw [splitG_other _ _ _ _ _ _ _ _ n1 n2]; exact hkid_old z (Or.inr hz)
        · have : kidsOf lm (cells.insertIdx pos (s, next)) =
              (front plo lm (cells.take pos)).map (·.1) ++ x :: next :: tail.map (·.1) := by
            rw [← kidsR_map_fst plo phi lm, hnew]; simp
          rw [this]
          have hn_front : next ∉ (front plo lm (cells.take pos)).map (·.1) := by
            intro h
            obtain ⟨z, hz, he⟩ := List.mem_map.mp h
            exact (hkid_ne z (Or.inl hz)).2 he
          have hn_tail : next ∉ tail.map (·.1) := by
            intro h
            obtain ⟨z, hz, he⟩ := List.mem_map.mp h
            exact (hkid_ne z (Or.inr hz)).2 he
          obtain ⟨n1, n2, n3⟩ := List.nodup_append.mp hndk
          apply List.nodup_append.mpr
          refine ⟨n1, ?_, ?_⟩
          · apply List.nodup_cons.mpr
            refine ⟨?_, ?_⟩
            · simp only [List.mem_cons, not_or]
              exact ⟨hxn, hx_tail⟩
            · exact List.nodup_cons.mpr ⟨hn_tail, (List.nodup_cons.mp n2).2⟩
          · intro u hu w hw
            rcases List.mem_cons.mp hw with rfl | hw
            · exact n3 u hu _ (List.mem_cons_self ..)
            · rcases List.mem_cons.mp hw with rfl | hw
              · intro e; exact hn_front (e ▸ hu)
              · exact n3 u hu w (List.mem_cons_of_mem _ hw)
      · obtain ⟨lm', cells', b', hp', hk', hn'⟩ := wf.int p l lo hi hG
        refine ⟨lm', cells', b', by rw [upd_other _ _ _ _ hpp, st.same p h1 h2]; exact hp', ?_, hn'⟩
        intro z hz
        have hz' := hk' z hz
        have hzk : z.1 ∈ kidsOfPage pgV p := by
          simp only [kidsOfPage, hp']
          rw [← kidsR_map_fst lo hi lm' cells']
          exact List.mem_map_of_mem hz
        have n1 : z.1 ≠ x := by
          intro e
          have hx_in : x ∈ kidsOfPage pgV pid := by rw [hkidsV_pid]; simp
          exact hpp (wf.share p pid x l lo hi lvl plo phi hG hpid (e ▸ hzk) hx_in)
        have n2 : z.1 ≠ next := wf.kid_ne_next p l lo hi hG z.1 hzk
        rw [splitG_other _ _ _ _ _ _ _ _ n1 n2]; exact hz'
  · -- leaf
    intro p lo hi hp
    show ∃ es b' r, upd pgS pid _ p = some (.leaf es b' r) ∧ _
    rcases splitG_cases g.G x next lvl a b s hxn p 0 lo hi hp with ⟨rfl, hl, rfl, rfl⟩ | ⟨rfl, hl, rfl, rfl⟩ | ⟨h1, h2, hG⟩
    · obtain ⟨_, ⟨es, b', r, hp', hs, hin⟩⟩ := st.leafc hl
      exact ⟨es, b', r, by rw [upd_other _ _ _ _ (Ne.symm hpn)]; exact hp', hs, hin⟩
    · obtain ⟨⟨es, b', r, hp', hs, hin⟩, _⟩ := st.leafc hl
      exact ⟨es, b', r, by rw [upd_other _ _ _ _ (Ne.symm hpx)]; exact hp', hs, hin⟩
    · obtain ⟨es, b', r, hp', hs, hin⟩ := wf.leaf p lo hi hG
      have hpp : p ≠ pid := by intro e; rw [e, hpid] at hG; cases hG
      exact ⟨es, b', r, by rw [upd_other _ _ _ _ hpp, st.same p h1 h2]; exact hp', hs, hin⟩
  · -- share
    intro p1 p2 c l1 lo1 hi1 l2 lo2 hi2 h1 h2 hc1 hc2
    change splitG g.G x next lvl a b s p1 = _ at h1
    change splitG g.G x next lvl a b s p2 = _ at h2
    by_cases hcn : c = next
    · -- only the parent has the fresh page as a kid
      have only : ∀ q l lo hi, splitG g.G x next lvl a b s q = some (l + 1, lo, hi) →
          next ∈ kidsOfPage (upd pgS pid (.internal lm (cells.insertIdx pos (s, next)) bb')) q → q = pid := by
        intro q l lo hi hq hc
        rcases splitG_cases g.G x next lvl a b s hxn q (l + 1) lo hi hq with ⟨rfl, hl, _, _⟩ | ⟨rfl, hl, _, _⟩ | ⟨n1, n2, hG⟩
        · rw [hkidsP_n] at hc
          have := st.kidsub _ (Or.inr hc)
          exact absurd rfl (wf.kid_ne_next x l a b (by rw [st.hx, hl]) _ this)
        · rw [hkidsP_x] at hc
          have := st.kidsub _ (Or.inl hc)
          exact absurd rfl (wf.kid_ne_next x l a b (by rw [st.hx, hl]) _ this)
        · by_cases hqp : q = pid
          · exact hqp
          · rw [hkidsP_other q hqp n1 n2] at hc
            exact absurd rfl (wf.kid_ne_next q l lo hi hG _ hc)
      rw [hcn] at hc1 hc2
      rw [only p1 l1 lo1 hi1 h1 hc1, only p2 l2 lo2 hi2 h2 hc2]
    · obtain ⟨q1, m1, a1, b1, g1, k1, e1⟩ := horigin p1 l1 lo1 hi1 h1 c hc1 hcn
      obtain ⟨q2, m2, a2, b2, g2, k2, e2⟩ := horigin p2 l2 lo2 hi2 h2 c hc2 hcn
      have hq : q1 = q2 := wf.share q1 q2 c m1 a1 b1 m2 a2 b2 g1 g2 k1 k2
      rw [e1, e2] at hq
      by_cases n1 : p1 = next
      · by_cases n2 : p2 = next
        · rw [n1, n2]
        · simp only [n1, n2, if_true, if_false] at hq
          -- p2 = x and p1 = next share the kid c
          subst hq
          rw [n1, hkidsP_n] at hc1
          rw [hkidsP_x] at hc2
          exact absurd hc1 (fun h => st.kidsdisj c hc2 h)
      · by_cases n2 : p2 = next
        · simp only [n1, n2, if_true, if_false] at hq
          subst hq
          rw [n2, hkidsP_n] at hc2
          rw [hkidsP_x] at hc1
          exact absurd hc2 (fun h => st.kidsdisj c hc1 h)
        · simpa only [n1, n2, if_false] using hq
  · -- seg
    obtain ⟨p0, rest, hL, hseg⟩ := st.seg
    refine ⟨p0, rest, hL, ?_⟩
    apply Seg_frame pgS _ _ _ L' _ p0 none 0 none hseg
    intro q hq
    refine ⟨?_, rfl⟩
    by_cases e : q = pid
    · -- the parent is not a leaf in either map
      subst e
      obtain ⟨lo, hi, h⟩ := (st.lmem q).mp hq
      rw [splitG_other _ _ _ _ _ _ _ _ hpx hpn, hpid] at h
      cases h
    · simp [rightOf, upd_other _ _ _ _ e]
  · show L'.length + g.H ≤ next + 1
    have := wf.fuel; have := st.len; omega

/-- ghost after putting a new root above the two halves -/
def rootG (G : GMap κ) (nr h : Nat) : GMap κ := fun p => if p = nr then some (h, none, none) else G p

/-- **split step at the root**: with a new root page above `root`/`next` the tree is well formed -/
theorem split_root {pgV : Pg κ} {root next : Nat} {g : Ghost κ} (wf : WF pgV root next g)
    {s : κ} {pgS : Pg κ} {L' : List Nat}
    (st : SplitStep pgV next g root g.H none none s pgS L') (bb' : Nat) :
    WF (upd pgS (next + 1) (.internal root [(s, next)] bb')) (next + 1) (next + 2)
      ⟨rootG (splitG g.G root next g.H none none s) (next + 1) (g.H + 1), L', g.H + 1⟩ := by
  have hfresh := wf.fresh
  have hxn : root ≠ next := by intro e; have := st.hx; rw [e, hfresh] at this; cases this
  have hlt : ∀ p l lo hi, splitG g.G root next g.H none none s p = some (l, lo, hi) → p < next + 1 ∧ l ≤ g.H := by
    intro p l lo hi hp
    rcases splitG_cases g.G root next g.H none none s hxn p l lo hi hp with ⟨rfl, rfl, _, _⟩ | ⟨rfl, rfl, _, _⟩ | ⟨_, _, hG⟩
    · exact ⟨by omega, Nat.le_refl _⟩
    · have := wf.rng root g.H none none st.hx; exact ⟨by omega, Nat.le_refl _⟩
    · have := wf.rng p l lo hi hG; exact ⟨by omega, wf.lvl p l lo hi hG⟩
  have hrootG_other : ∀ p, p ≠ next + 1 →
      rootG (splitG g.G root next g.H none none s) (next + 1) (g.H + 1) p = splitG g.G root next g.H none none s p := by
    intro p hp; simp [rootG, hp]
  have hrootG_cases : ∀ p l lo hi, rootG (splitG g.G root next g.H none none s) (next + 1) (g.H + 1) p = some (l, lo, hi) →
      (p = next + 1 ∧ l = g.H + 1 ∧ lo = none ∧ hi = none) ∨
      (p ≠ next + 1 ∧ splitG g.G root next g.H none none s p = some (l, lo, hi)) := by
    intro p l lo hi hp
    by_cases e : p = next + 1
    · simp only [rootG, e, if_true, Option.some.injEq, Prod.mk.injEq] at hp
      exact Or.inl ⟨e, hp.1.symm, hp.2.1.symm, hp.2.2.symm⟩
    · rw [hrootG_other p e] at hp; exact Or.inr ⟨e, hp⟩
  -- ghost pages of the old tree are below `next`, their kids are neither the root nor fresh
  have hkid_ok : ∀ q l lo hi, g.G q = some (l + 1, lo, hi) → ∀ c ∈ kidsOfPage pgV q,
      c ≠ root ∧ c ≠ next ∧ c ≠ next + 1 := by
    intro q l lo hi hq c hc
    obtain ⟨lo', hi', hcg⟩ := wf.kid_ghost q l lo hi hq c hc
    refine ⟨?_, wf.kid_ne_next q l lo hi hq c hc, ?_⟩
    · intro e
      rw [e, st.hx] at hcg
      simp only [Option.some.injEq, Prod.mk.injEq] at hcg
      have := wf.lvl q (l + 1) lo hi hq
      omega
    · have := (wf.rng c l lo' hi' hcg).2.1; omega
  have hkidsP_nr : kidsOfPage (upd pgS (next + 1) (.internal root [(s, next)] bb')) (next + 1) = [root, next] := by
    simp [kidsOfPage, kidsOf]
  have hkidsP_other : ∀ q, q ≠ next + 1 →
      kidsOfPage (upd pgS (next + 1) (.internal root [(s, next)] bb')) q = kidsOfPage pgS q := by
    intro q h; simp only [kidsOfPage, upd_other _ _ _ _ h]
  -- kids (in the new map) of a page other than the new root come from a page of the old tree
  have horigin : ∀ q l lo hi, splitG g.G root next g.H none none s q = some (l + 1, lo, hi) → ∀ c,
      c ∈ kidsOfPage pgS q →
      ∃ q0 l0 lo0 hi0, g.G q0 = some (l0 + 1, lo0, hi0) ∧ c ∈ kidsOfPage pgV q0 ∧
        (q0 = (if q = next then root else q)) := by
    intro q l lo hi hq c hc
    rcases splitG_cases g.G root next g.H none none s hxn q (l + 1) lo hi hq with ⟨rfl, hl, _, _⟩ | ⟨rfl, hl, _, _⟩ | ⟨h1, h2, hG⟩
    · exact ⟨root, l, none, none, by rw [st.hx, hl], st.kidsub c (Or.inr hc), by simp⟩
    · exact ⟨root, l, none, none, by rw [st.hx, hl], st.kidsub c (Or.inl hc), by simp [hxn]⟩
    · have hk : kidsOfPage pgS q = kidsOfPage pgV q := by simp only [kidsOfPage, st.same q h1 h2]
      rw [hk] at hc
      exact ⟨q, l, lo, hi, hG, hc, by simp [h2]⟩
  refine
    { root := ?_, rng := ?_, lvl := ?_, int := ?_, leaf := ?_, share := ?_, lnodup := st.lnodup,
      lmem := ?_, seg := ?_, fuel := ?_ }
  · show rootG _ (next + 1) (g.H + 1) (next + 1) = some (g.H + 1, none, none)
    simp [rootG]
  · intro p l lo hi hp
    rcases hrootG_cases p l lo hi hp with ⟨rfl, _, rfl, rfl⟩ | ⟨hne, hp'⟩
    · exact ⟨by omega, by omega, trivial⟩
    · rcases splitG_cases g.G root next g.H none none s hxn p l lo hi hp' with ⟨rfl, _, rfl, rfl⟩ | ⟨rfl, _, rfl, rfl⟩ | ⟨_, _, hG⟩
      · have := wf.rng root g.H none none st.hx
        exact ⟨by omega, by omega, st.sb⟩
      · have := wf.rng root g.H none none st.hx
        exact ⟨this.1, by omega, st.as_⟩
      · have := wf.rng p l lo hi hG
        exact ⟨this.1, by omega, this.2.2⟩
  · intro p l lo hi hp
    show l ≤ g.H + 1
    rcases hrootG_cases p l lo hi hp with ⟨_, rfl, _, _⟩ | ⟨hne, hp'⟩
    · exact Nat.le_refl _
    · have := (hlt p l lo hi hp').2; omega
  · -- int
    intro p l lo hi hp
    show ∃ lm' cells' b', upd pgS (next + 1) _ p = some (.internal lm' cells' b') ∧
      (∀ z ∈ kidsR lo hi lm' cells', rootG _ (next + 1) (g.H + 1) z.1 = some (l, z.2.1, z.2.2)) ∧ _
    rcases hrootG_cases p (l + 1) lo hi hp with ⟨rfl, hl, rfl, rfl⟩ | ⟨hne, hp'⟩
    · have hl' : l = g.H := by omega
      subst hl'
      refine ⟨root, [(s, next)], bb', by simp, ?_, ?_⟩
      · intro z hz
        simp only [kidsR, List.mem_cons, List.not_mem_nil, or_false] at hz
        have hr1 : root ≠ next + 1 := by have := wf.rng root g.H none none st.hx; omega
        rcases hz with rfl | rfl
        · rw [hrootG_other _ hr1]; exact splitG_x _ _ _ _ _ _ _ hxn
        · rw [hrootG_other _ (by omega)]; exact splitG_y _ _ _ _ _ _ _
      · simp [kidsOf, hxn]
    · rw [upd_other _ _ _ _ hne]
      rcases splitG_cases g.G root next g.H none none s hxn p (l + 1) lo hi hp' with ⟨rfl, hl, rfl, rfl⟩ | ⟨rfl, hl, rfl, rfl⟩ | ⟨h1, h2, hG⟩
      · obtain ⟨_, ⟨lm', cells', b', hp'', hk', hn'⟩⟩ := st.intc l hl
        refine ⟨lm', cells', b', hp'', ?_, hn'⟩
        intro z hz
        have hz' := hk' z hz
        have n1 : z.1 ≠ root := by intro e; rw [e, st.hx] at hz'; simp at hz'; omega
        have n2 : z.1 ≠ next := by intro e; rw [e, hfresh] at hz'; cases hz'
        have n3 : z.1 ≠ next + 1 := by have := (wf.rng z.1 l _ _ hz').2.1; omega
        rw [hrootG_other _ n3, splitG_other _ _ _ _ _ _ _ _ n1 n2]; exact hz'
      · obtain ⟨⟨lm', cells', b', hp'', hk', hn'⟩, _⟩ := st.intc l hl
        refine ⟨lm', cells', b', hp'', ?_, hn'⟩
        intro z hz
        have hz' := hk' z hz
        have n1 : z.1 ≠ root := by intro e; rw [e, st.hx] at hz'; simp at hz'; omega
        have n2 : z.1 ≠ next := by intro e; rw [e, hfresh] at hz'; cases hz'
        have n3 : z.1 ≠ next + 1 := by have := (wf.rng z.1 l _ _ hz').2.1; omega
        rw [hrootG_other _ n3, splitG_other _ _ _ _ _ _ _ _ n1 n2]; exact hz'
      · obtain ⟨lm', cells', b', hp'', hk', hn'⟩ := wf.int p l lo hi hG
        refine ⟨lm', cells', b', by rw [st.same p h1 h2]; exact hp'', ?_, hn'⟩
        intro z hz
        have hz' := hk' z hz
        have hzk : z.1 ∈ kidsOfPage pgV p := by
          simp only [kidsOfPage, hp'']
          rw [← kidsR_map_fst lo hi lm' cells']
          exact List.mem_map_of_mem hz
        obtain ⟨n1, n2, n3⟩ := hkid_ok p l lo hi hG z.1 hzk
        rw [hrootG_other _ n3, splitG_other _ _ _ _ _ _ _ _ n1 n2]; exact hz'
  · -- leaf
    intro p lo hi hp
    show ∃ es b' r, upd pgS (next + 1) _ p = some (.leaf es b' r) ∧ _
    rcases hrootG_cases p 0 lo hi hp with ⟨_, hl, _, _⟩ | ⟨hne, hp'⟩
    · omega
    · rw [upd_other _ _ _ _ hne]
      rcases splitG_cases g.G root next g.H none none s hxn p 0 lo hi hp' with ⟨rfl, hl, rfl, rfl⟩ | ⟨rfl, hl, rfl, rfl⟩ | ⟨h1, h2, hG⟩
      · obtain ⟨_, ⟨es, b', r, hp'', hs, hin⟩⟩ := st.leafc hl
        exact ⟨es, b', r, hp'', hs, hin⟩
      · obtain ⟨⟨es, b', r, hp'', hs, hin⟩, _⟩ := st.leafc hl
        exact ⟨es, b', r, hp'', hs, hin⟩
      · obtain ⟨es, b', r, hp'', hs, hin⟩ := wf.leaf p lo hi hG
        exact ⟨es, b', r, by rw [st.same p h1 h2]; exact hp'', hs, hin⟩
  · -- share
    intro p1 p2 c l1 lo1 hi1 l2 lo2 hi2 h1 h2 hc1 hc2
    change rootG _ (next + 1) (g.H + 1) p1 = _ at h1
    change rootG _ (next + 1) (g.H + 1) p2 = _ at h2
    -- a page other than the new root has neither the old root nor the fresh page as a kid
    have notkid : ∀ q l lo hi, q ≠ next + 1 → splitG g.G root next g.H none none s q = some (l + 1, lo, hi) →
        ∀ c, c ∈ kidsOfPage pgS q → c ≠ root ∧ c ≠ next := by
      intro q l lo hi hq hqg c hc
      obtain ⟨q0, l0, lo0, hi0, g0, k0, _⟩ := horigin q l lo hi hqg c hc
      have := hkid_ok q0 l0 lo0 hi0 g0 c k0
      exact ⟨this.1, this.2.1⟩
    rcases hrootG_cases p1 (l1 + 1) lo1 hi1 h1 with ⟨e1, _, _, _⟩ | ⟨n1, g1⟩
    · rcases hrootG_cases p2 (l2 + 1) lo2 hi2 h2 with ⟨e2, _, _, _⟩ | ⟨n2, g2⟩
      · rw [e1, e2]
      · rw [e1, hkidsP_nr] at hc1
        rw [hkidsP_other p2 n2] at hc2
        have := notkid p2 l2 lo2 hi2 n2 g2 c hc2
        simp only [List.mem_cons, List.not_mem_nil, or_false] at hc1
        rcases hc1 with e | e
        · exact absurd e this.1
        · exact absurd e this.2
    · rcases hrootG_cases p2 (l2 + 1) lo2 hi2 h2 with ⟨e2, _, _, _⟩ | ⟨n2, g2⟩
      · rw [e2, hkidsP_nr] at hc2
        rw [hkidsP_other p1 n1] at hc1
        have := notkid p1 l1 lo1 hi1 n1 g1 c hc1
        simp only [List.mem_cons, List.not_mem_nil, or_false] at hc2
        rcases hc2 with e | e
        · exact absurd e this.1
        · exact absurd e this.2
      · rw [hkidsP_other p1 n1] at hc1
        rw [hkidsP_other p2 n2] at hc2
        obtain ⟨q1, m1, a1, b1, gg1, k1, e1⟩ := horigin p1 l1 lo1 hi1 g1 c hc1
        obtain ⟨q2, m2, a2, b2, gg2, k2, e2⟩ := horigin p2 l2 lo2 hi2 g2 c hc2
        have hq : q1 = q2 := wf.share q1 q2 c m1 a1 b1 m2 a2 b2 gg1 gg2 k1 k2
        rw [e1, e2] at hq
        by_cases m1 : p1 = next
        · by_cases m2 : p2 = next
          · rw [m1, m2]
          · simp only [m1, m2, if_true, if_false] at hq
            subst hq
            rw [m1] at hc1
            exact absurd hc1 (fun h => st.kidsdisj c hc2 h)
        · by_cases m2 : p2 = next
          · simp only [m1, m2, if_true, if_false] at hq
            subst hq
            rw [m2] at hc2
            exact absurd hc2 (fun h => st.kidsdisj c hc1 h)
          · simpa only [m1, m2, if_false] using hq
  · -- lmem
    intro p
    show p ∈ L' ↔ ∃ lo hi, rootG _ (next + 1) (g.H + 1) p = some (0, lo, hi)
    rw [st.lmem p]
    constructor
    · rintro ⟨lo, hi, h⟩
      have := (hlt p 0 lo hi h).1
      exact ⟨lo, hi, by rw [hrootG_other p (by omega)]; exact h⟩
    · rintro ⟨lo, hi, h⟩
      rcases hrootG_cases p 0 lo hi h with ⟨_, hl, _, _⟩ | ⟨_, h'⟩
      · omega
      · exact ⟨lo, hi, h'⟩
  · -- seg
    obtain ⟨p0, rest, hL, hseg⟩ := st.seg
    refine ⟨p0, rest, hL, ?_⟩
    apply Seg_frame pgS _ _ _ L' _ p0 none 0 none hseg
    intro q hq
    obtain ⟨lo, hi, h⟩ := (st.lmem q).mp hq
    have hqn : q ≠ next + 1 := by have := (hlt q 0 lo hi h).1; omega
    exact ⟨by simp [rightOf, upd_other _ _ _ _ hqn], hrootG_other q hqn⟩
  · show L'.length + (g.H + 1) ≤ next + 2
    have := wf.fuel; have := st.len; omega

end Nervus.BTree
