/-
  Proofs.CrashCreate — first-time creation of a database (`Pager::open` on a fresh file, catalog
  page, the two reserved index roots) is crash-safe at every I/O step: every crash image is again a
  *nascent* database — one on which `open` completes the creation — or the finished empty database.
-/
import Nervus.Proofs.CrashPBlk
import Nervus.Proofs.CrashOpen
namespace Nervus.Crash

/-- nothing but creation has ever touched the page file -/
structure NBase (p : PImg) : Prop where
  i2e : p.i2e = []
  segs : p.segs = []
  trees : p.trees = []
  start : p.hdr.i2eStart = 0
  ilen : p.hdr.i2eLen = 0
  np : 2 ≤ p.hdr.nextPage
  bm : 2 ≤ p.bm

/-- the catalog page holds at most the two reserved indexes, and every root it names (and every
    root in `R`) is an initialised index page -/
def CatOK (R : List Nat) (p : PImg) : Prop :=
  ∃ es, p.cat = some es ∧ es.length ≤ 2 ∧ (∀ r ∈ es, r ∈ p.idx) ∧ ∀ r ∈ R, r ∈ p.idx

/-- classes of page-file images during creation: `ini` = the meta page is initialised and the file
    has its two fixed pages; `cr` = the catalog root the meta page names (if pinned); `R` = the
    catalog page is durable and names only initialised index roots, `R` are initialised -/
structure NCls (ini : Bool) (cr : Option Nat) (R : Option (List Nat)) (p : PImg) : Prop where
  base : NBase p
  ini : ini = true → p.hdr.init = true ∧ 2 ≤ p.len
  root : ∀ c, cr = some c → p.hdr.catRoot = c
  cat : ∀ R', R = some R' → CatOK R' p

def NEff (ini : Bool) (cr : Option Nat) (R : Option (List Nat)) : PEff → Prop
  | .setLen _ => True
  | .bitmap top => 2 ≤ top
  | .hdr pm => pm.i2eStart = 0 ∧ pm.i2eLen = 0 ∧ 2 ≤ pm.nextPage ∧ (ini = true → pm.init = true) ∧ (∀ c, cr = some c → pm.catRoot = c)
  | .cat es => ∀ R', R = some R' → es.length ≤ 2 ∧ ∀ r ∈ es, r ∈ R'
  | .idxRoot _ => True
  | _ => False

theorem ncls_applyEff {ini : Bool} {cr : Option Nat} {R : Option (List Nat)} {p : PImg} {e : PEff}
    (h : NCls ini cr R p) (he : NEff ini cr R e) : NCls ini cr R (applyEff e p) := by
  have hb := h.base
  cases e <;> simp only [NEff] at he
  case setLen n =>
    exact { h with base := { hb with }, ini := fun hi => ⟨(h.ini hi).1, Nat.le_trans (h.ini hi).2 (Nat.le_max_left _ _)⟩ }
  case bitmap top => exact { h with base := { hb with bm := he } }
  case hdr pm =>
    exact { base := { hb with start := he.1, ilen := he.2.1, np := he.2.2.1 }
            ini := fun hi => ⟨he.2.2.2.1 hi, (h.ini hi).2⟩
            root := he.2.2.2.2
            cat := h.cat }
  case cat es =>
    refine { h with base := { hb with }, cat := ?_ }
    intro R' hR
    obtain ⟨es0, _, _, _, h4⟩ := h.cat R' hR
    obtain ⟨h1, h2⟩ := he R' hR
    exact ⟨es, rfl, h1, fun r hr => h4 r (h2 r hr), h4⟩
  case idxRoot r =>
    refine { h with base := { hb with }, cat := ?_ }
    intro R' hR
    obtain ⟨es0, e1, e2, e3, e4⟩ := h.cat R' hR
    exact ⟨es0, e1, e2, fun x hx => List.mem_cons_of_mem _ (e3 x hx), fun x hx => List.mem_cons_of_mem _ (e4 x hx)⟩

def NStepOK (ini : Bool) (cr : Option Nat) (R : Option (List Nat)) : Step → Prop
  | .pg e _ => NEff ini cr R e
  | .ps => True
  | _ => False

theorem neff_torn {ini : Bool} {cr : Option Nat} {R : Option (List Nat)} {p : PImg} {e e' : PEff}
    (he : NEff ini cr R e) (ht : tornEff p e = some e') : e' = e := by
  cases e <;> simp only [NEff] at he <;> simp only [tornEff, Option.some.injEq] at ht <;> exact ht.symm

theorem allImgs_nstep {ini : Bool} {cr : Option Nat} {R : Option (List Nat)} (fs : FS) (s : Step)
    (h : AllImgs fs (NCls ini cr R)) (hs : NStepOK ini cr R s) : AllImgs (fs.step s) (NCls ini cr R) := by
  cases s <;> simp only [NStepOK] at hs
  case pg e pid =>
    apply allImgs_pg fs _ e pid h
    intro p hp
    refine ⟨ncls_applyEff hp hs, ?_⟩
    intro e' ht
    rw [neff_torn hs ht]
    exact ncls_applyEff hp hs
  case ps => exact allImgs_ps fs _ (allImgs_pv fs _ h)

theorem nstep_block {ini : Bool} {cr : Option Nat} {R : Option (List Nat)} (S : List Step) :
    ∀ (fs : FS), AllImgs fs (NCls ini cr R) → (∀ s ∈ S, NStepOK ini cr R s) →
      SafeAlong (fun fs => AllImgs fs (NCls ini cr R)) fs S := by
  induction S with
  | nil => intro fs h _; exact safeAlong_nil h
  | cons s S ih =>
    intro fs h hs
    exact safeAlong_cons h (ih _ (allImgs_nstep fs s h (hs s (by simp))) (fun s' hs' => hs s' (by simp [hs'])))

/-- a nascent page file: never used, with no catalog root yet, or with a catalog that names only
    initialised index pages -/
structure NascentP (p : PImg) : Prop where
  base : NBase p
  cat : p.hdr.catRoot = 0 ∨ (p.hdr.init = true ∧ 2 ≤ p.len ∧ CatOK [] p)

theorem NCls.nascent {ini : Bool} {cr : Option Nat} {R : Option (List Nat)} {p : PImg} (h : NCls ini cr R p)
    (hc : cr = some 0 ∨ (ini = true ∧ ∃ R', R = some R')) : NascentP p := by
  refine ⟨h.base, ?_⟩
  rcases hc with hc | ⟨hi, R', hR⟩
  · exact Or.inl (h.root 0 hc)
  · obtain ⟨es, e1, e2, e3, _⟩ := h.cat R' hR
    exact Or.inr ⟨(h.ini hi).1, (h.ini hi).2, es, e1, e2, e3, by simp⟩

end Nervus.Crash

namespace Nervus.Crash

/-- every image is in the class; the page cache holds the scratch meta page and bitmap -/
structure NSt (X : PImg → Prop) (fs : FS) (ps : PS) : Prop where
  imgs : AllImgs fs X
  hdr : fs.pv.hdr = ps.pm
  bm : fs.pv.bm = ps.bm

theorem cat_idx_allocEffs : ∀ (E : List PEff), (∀ e ∈ E, AllocEff e) → ∀ p,
    (applyEffs E p).cat = p.cat ∧ (applyEffs E p).idx = p.idx
  | [], _, _ => ⟨rfl, rfl⟩
  | e :: E, h, p => by
    have he := h e (by simp)
    have : applyEffs (e :: E) p = applyEffs E (applyEff e p) := rfl
    rw [this]
    obtain ⟨h1, h2⟩ := cat_idx_allocEffs E (fun x hx => h x (by simp [hx])) (applyEff e p)
    rw [h1, h2]
    cases e <;> simp only [AllocEff] at he <;> exact ⟨rfl, rfl⟩

variable {ini : Bool} {cr : Option Nat} {R : Option (List Nat)}

/-- what the class allows as a meta page -/
def NHdrOK (ini : Bool) (cr : Option Nat) (pm : Meta) : Prop :=
  pm.i2eStart = 0 ∧ pm.i2eLen = 0 ∧ 2 ≤ pm.nextPage ∧ (ini = true → pm.init = true) ∧ (∀ c, cr = some c → pm.catRoot = c)

theorem nhdrOK_of_cls {p : PImg} (h : NCls ini cr R p) : NHdrOK ini cr p.hdr :=
  ⟨h.base.start, h.base.ilen, h.base.np, fun hi => (h.ini hi).1, h.root⟩

/-- a flush of `pm`, `bm` inside a class -/
theorem n_flush (fs : FS) (pm : Meta) (bm : Nat) (h : AllImgs fs (NCls ini cr R)) (hpm : NHdrOK ini cr pm) (hbm : 2 ≤ bm) :
    SafeAlong (fun g => AllImgs g (NCls ini cr R)) fs (flushSteps pm bm) ∧
    AllImgs (fs.steps (flushSteps pm bm)) (NCls ini cr R) ∧
    (fs.steps (flushSteps pm bm)).pj = [] ∧ (fs.steps (flushSteps pm bm)).pd.hdr = pm ∧
    (fs.steps (flushSteps pm bm)).pd.bm = bm ∧
    (fs.steps (flushSteps pm bm)).pd.cat = fs.pv.cat ∧ (fs.steps (flushSteps pm bm)).pd.idx = fs.pv.idx := by
  have hS : ∀ s ∈ flushSteps pm bm, NStepOK ini cr R s := by
    intro s hs
    simp [flushSteps] at hs
    rcases hs with rfl | rfl | rfl
    · exact hpm
    · exact hbm
    · trivial
  have sa := nstep_block (flushSteps pm bm) fs h hS
  obtain ⟨f1, f2, f3⟩ := steps_flushed fs (flushSteps pm bm) pm bm ⟨[], rfl⟩
  refine ⟨sa, safeAlong_last sa, f1, f2, f3, ?_, ?_⟩
  all_goals
    have hpv : (fs.steps (flushSteps pm bm)).pv = (fs.steps (flushSteps pm bm)).pd := by
      simp [FS.pv, f1, applyEffs]
    rw [← hpv, pv_steps]
    simp [flushSteps, effsOf, applyEffs, applyEff]

/-- `allocate_page` inside a class -/
theorem n_alloc (fs : FS) (ps : PS) (h : NSt (NCls ini cr R) fs ps) :
    failOf (allocA ps).1 = none ∧ PagerActs (allocA ps).1 ∧
    SafeAlong (fun g => AllImgs g (NCls ini cr R)) fs (ioSteps (allocA ps).1) ∧
    NSt (NCls ini cr R) (fs.steps (ioSteps (allocA ps).1)) (allocA ps).2.1 ∧
    (fs.steps (ioSteps (allocA ps).1)).pj = [] ∧
    (fs.steps (ioSteps (allocA ps).1)).pv.cat = fs.pv.cat ∧ (fs.steps (ioSteps (allocA ps).1)).pv.idx = fs.pv.idx ∧
    2 ≤ (allocA ps).2.2 ∧ NHdrOK ini cr (allocA ps).2.1.pm ∧ 2 ≤ (allocA ps).2.1.bm := by
  obtain ⟨hpid, hmin, hsame, hbmle, hnf, pre, hpre, hio⟩ := allocA_form ps
  have hcl := allImgs_pv fs _ h.imgs
  have hok0 : NHdrOK ini cr ps.pm := by rw [← h.hdr]; exact nhdrOK_of_cls hcl
  have hbm0 : 2 ≤ ps.bm := by rw [← h.bm]; exact hcl.base.bm
  -- the allocation changes `nextPage` only
  have hpm' : NHdrOK ini cr (allocA ps).2.1.pm := by
    obtain ⟨a1, a2, a3, a4, a5⟩ := hok0
    have hfields : (allocA ps).2.1.pm.i2eStart = ps.pm.i2eStart ∧ (allocA ps).2.1.pm.i2eLen = ps.pm.i2eLen ∧
        (allocA ps).2.1.pm.init = ps.pm.init ∧ (allocA ps).2.1.pm.catRoot = ps.pm.catRoot := by
      unfold allocA ensureA
      by_cases hh : ps.bm < ps.pm.nextPage <;> simp [hh] <;> (split <;> simp)
    obtain ⟨g1, g2, g3, g4⟩ := hfields
    exact ⟨by rw [g1]; exact a1, by rw [g2]; exact a2, by have := hsame.np; omega, fun hi => by rw [g3]; exact a4 hi,
      fun c hc => by rw [g4]; exact a5 c hc⟩
  have hbm' : 2 ≤ (allocA ps).2.1.bm := by omega
  have hS : ∀ s ∈ ioSteps (allocA ps).1, NStepOK ini cr R s := by
    rw [hio]
    intro s hs
    rcases List.mem_append.mp hs with h' | h'
    · obtain ⟨n, pid, rfl⟩ := hpre s h'
      trivial
    · simp [flushSteps] at h'
      rcases h' with rfl | rfl | rfl
      · exact hpm'
      · exact hbm'
      · trivial
  have sa := nstep_block _ fs h.imgs hS
  obtain ⟨f1, f2, f3⟩ := steps_flushed fs (ioSteps (allocA ps).1) (allocA ps).2.1.pm (allocA ps).2.1.bm ⟨pre, hio⟩
  have hpv : (fs.steps (ioSteps (allocA ps).1)).pv = (fs.steps (ioSteps (allocA ps).1)).pd := by
    simp [FS.pv, f1, applyEffs]
  have hae : ∀ e ∈ effsOf (ioSteps (allocA ps).1), AllocEff e := by
    intro e he
    rw [hio, effsOf_append] at he
    rcases List.mem_append.mp he with h' | h'
    · have : ∀ (l : List Step), (∀ s ∈ l, ∃ n pid, s = Step.pg (.setLen n) pid) → ∀ e ∈ effsOf l, AllocEff e := by
        intro l
        induction l with
        | nil => intro _ e he; simp [effsOf] at he
        | cons s l ih =>
          intro hl e he
          obtain ⟨n, pid, rfl⟩ := hl s (by simp)
          simp only [effsOf, List.mem_cons] at he
          rcases he with rfl | he
          · trivial
          · exact ih (fun s' hs' => hl s' (by simp [hs'])) e he
      exact this pre hpre e h'
    · simp [flushSteps, effsOf] at h'
      rcases h' with rfl | rfl <;> trivial
  obtain ⟨c1, c2⟩ := cat_idx_allocEffs _ hae fs.pv
  refine ⟨hnf, pagerActs_alloc ps, sa, ⟨safeAlong_last sa, by rw [hpv]; exact f2, by rw [hpv]; exact f3⟩, f1,
    by rw [pv_steps]; exact c1, by rw [pv_steps]; exact c2, by rw [hpid]; have := hok0.2.2.1; omega, hpm', hbm'⟩

end Nervus.Crash

namespace Nervus.Crash

theorem safeAlong_single {P : FS → Prop} {fs : FS} {s : Step} (h0 : P fs) (h1 : P (fs.step s)) : SafeAlong P fs [s] :=
  safeAlong_cons h0 (safeAlong_nil h1)

/-- creation of one reserved index (or nothing, if the catalog already has it) -/
theorem mkIndex_safe (cfg : Cfg) (hsc : cfg.syncCreate = true) (fs : FS) (ps : PS) (c : Nat) (es : List Nat) (i : Nat)
    (hst : NSt (NCls true (some c) (some es)) fs ps) (hpj : fs.pj = []) (hcat : fs.pv.cat = some es)
    (hlen : es.length ≤ 2) (hi : i ≤ 1) (hge : i ≤ es.length) :
    failOf (mkIndexA cfg ps c es i).1 = none ∧ PagerActs (mkIndexA cfg ps c es i).1 ∧
    SafeAlong (fun g => AllImgs g NascentP) fs (ioSteps (mkIndexA cfg ps c es i).1) ∧
    NSt (NCls true (some c) (some (mkIndexA cfg ps c es i).2.2)) (fs.steps (ioSteps (mkIndexA cfg ps c es i).1)) (mkIndexA cfg ps c es i).2.1 ∧
    (fs.steps (ioSteps (mkIndexA cfg ps c es i).1)).pj = [] ∧
    (fs.steps (ioSteps (mkIndexA cfg ps c es i).1)).pv.cat = some (mkIndexA cfg ps c es i).2.2 ∧
    (mkIndexA cfg ps c es i).2.2.length ≤ 2 ∧ i < (mkIndexA cfg ps c es i).2.2.length ∧
    (∃ tl, (mkIndexA cfg ps c es i).2.2 = es ++ tl) ∧
    (memUpds (mkIndexA cfg ps c es i).1 = [] ∨ ∃ l, memUpds (mkIndexA cfg ps c es i).1 = l) := by
  have toN : ∀ (R : List Nat) (g : FS), AllImgs g (NCls true (some c) (some R)) → AllImgs g NascentP :=
    fun R g hg => allImgs_mono g _ _ hg (fun p hp => hp.nascent (Or.inr ⟨rfl, R, rfl⟩))
  by_cases hskip : i < es.length
  · have hm : mkIndexA cfg ps c es i = ([], ps, es) := by simp [mkIndexA, hskip]
    rw [hm]
    exact ⟨rfl, by intro a ha; simp at ha, safeAlong_nil (toN es fs hst.imgs), by simpa [ioSteps, FS.steps] using hst,
      by simpa [ioSteps, FS.steps] using hpj, by simpa [ioSteps, FS.steps] using hcat, hlen, hskip, ⟨[], by simp⟩, Or.inl rfl⟩
  · -- names
    let pm1 : Meta := { ps.pm with nextIdx := (if ps.pm.nextIdx = 0 then 1 else ps.pm.nextIdx) + 1 }
    let ps1 : PS := { ps with pm := pm1 }
    have hacts : (mkIndexA cfg ps c es i).1 =
        ([memA (.setPm pm1)] ++ flushA pm1 ps.bm) ++ ((allocA ps1).1 ++
          ([ioA (.pg (.idxRoot (allocA ps1).2.2) (allocA ps1).2.2), ioA .ps] ++
            [memA (.catalog c (es ++ [(allocA ps1).2.2])), ioA (.pg (.cat (es ++ [(allocA ps1).2.2])) c), ioA .ps])) := by
      simp [mkIndexA, hskip, hsc, pm1, ps1]
    have hres : (mkIndexA cfg ps c es i).2 = ((allocA ps1).2.1, es ++ [(allocA ps1).2.2]) := by
      simp [mkIndexA, hskip, pm1, ps1]
    have hes1 : es.length ≤ 1 := by omega
    -- (1) flush of the meta page with the new index counter
    have hcl := allImgs_pv fs _ hst.imgs
    have hok0 : NHdrOK true (some c) ps.pm := by rw [← hst.hdr]; exact nhdrOK_of_cls hcl
    have hok1 : NHdrOK true (some c) pm1 := hok0
    have hbm0 : 2 ≤ ps.bm := by rw [← hst.bm]; exact hcl.base.bm
    obtain ⟨sa1, im1, pj1, hd1, bm1, ct1, ix1⟩ := n_flush (ini := true) (cr := some c) (R := some es) fs pm1 ps.bm hst.imgs hok1 hbm0
    generalize hfs1 : fs.steps (flushSteps pm1 ps.bm) = fs1 at sa1 im1 pj1 hd1 bm1 ct1 ix1
    have hpv1 : fs1.pv = fs1.pd := by simp [FS.pv, pj1, applyEffs]
    have st1 : NSt (NCls true (some c) (some es)) fs1 ps1 := ⟨im1, by rw [hpv1]; exact hd1, by rw [hpv1]; exact bm1⟩
    -- (2) allocation of the index root page
    obtain ⟨nf2, pg2, sa2, st2, pj2, ct2, ix2, hr2, _, _⟩ := n_alloc fs1 ps1 st1
    generalize hfs2 : fs1.steps (ioSteps (allocA ps1).1) = fs2 at sa2 st2 pj2 ct2 ix2
    -- (3) the root page, sync
    have im3 : AllImgs (fs2.step (.pg (.idxRoot (allocA ps1).2.2) (allocA ps1).2.2)) (NCls true (some c) (some es)) :=
      allImgs_nstep fs2 _ st2.imgs (by trivial)
    have hpv3 : (fs2.step (.pg (.idxRoot (allocA ps1).2.2) (allocA ps1).2.2)).pv = applyEff (.idxRoot (allocA ps1).2.2) fs2.pv :=
      pv_step_pg fs2 _ _
    have hcat2 : fs2.pv.cat = some es := by rw [ct2, hpv1, ct1]; exact hcat
    have hcls3 : NCls true (some c) (some (es ++ [(allocA ps1).2.2])) (fs2.step (.pg (.idxRoot (allocA ps1).2.2) (allocA ps1).2.2)).pv := by
      have h3 := allImgs_pv _ _ im3
      refine { h3 with cat := ?_ }
      intro R' hR
      cases hR
      obtain ⟨es0, e1, e2, e3, e4⟩ := h3.cat es rfl
      refine ⟨es0, e1, e2, e3, ?_⟩
      intro x hx
      rcases List.mem_append.mp hx with hx | hx
      · exact e4 x hx
      · simp only [List.mem_singleton] at hx
        subst hx
        rw [hpv3]; simp [applyEff]
    have im4 : AllImgs ((fs2.step (.pg (.idxRoot (allocA ps1).2.2) (allocA ps1).2.2)).step .ps)
        (NCls true (some c) (some (es ++ [(allocA ps1).2.2]))) := allImgs_ps _ _ hcls3
    generalize hfs4 : (fs2.step (.pg (.idxRoot (allocA ps1).2.2) (allocA ps1).2.2)).step .ps = fs4 at im4
    have hpv4 : fs4.pv = applyEff (.idxRoot (allocA ps1).2.2) fs2.pv := by
      rw [← hfs4, pv_step_ps, hpv3]
    -- (4) the catalog page with the new entry, sync
    have hceff : NEff true (some c) (some (es ++ [(allocA ps1).2.2])) (.cat (es ++ [(allocA ps1).2.2])) := by
      intro R' hR
      cases hR
      exact ⟨by simp; omega, fun r hr => hr⟩
    have im5 : AllImgs (fs4.step (.pg (.cat (es ++ [(allocA ps1).2.2])) c)) (NCls true (some c) (some (es ++ [(allocA ps1).2.2]))) :=
      allImgs_nstep fs4 _ im4 hceff
    have im6 : AllImgs ((fs4.step (.pg (.cat (es ++ [(allocA ps1).2.2])) c)).step .ps) (NCls true (some c) (some (es ++ [(allocA ps1).2.2]))) :=
      allImgs_nstep _ _ im5 (by trivial)
    have hpv6 : ((fs4.step (.pg (.cat (es ++ [(allocA ps1).2.2])) c)).step .ps).pv =
        applyEff (.cat (es ++ [(allocA ps1).2.2])) (applyEff (.idxRoot (allocA ps1).2.2) fs2.pv) := by
      rw [pv_step_ps, pv_step_pg, hpv4]
    -- assemble
    have hio : ioSteps (mkIndexA cfg ps c es i).1 = flushSteps pm1 ps.bm ++ (ioSteps (allocA ps1).1 ++
        ([Step.pg (.idxRoot (allocA ps1).2.2) (allocA ps1).2.2, .ps] ++ [Step.pg (.cat (es ++ [(allocA ps1).2.2])) c, .ps])) := by
      rw [hacts, ioSteps_append_noFail _ _ (by rfl)]
      congr 1
      rw [ioSteps_append_noFail _ _ nf2]
      rfl
    have hfinal : fs.steps (ioSteps (mkIndexA cfg ps c es i).1) = (fs4.step (.pg (.cat (es ++ [(allocA ps1).2.2])) c)).step .ps := by
      rw [hio, steps_append, hfs1, steps_append, hfs2, ← hfs4]
      rfl
    rw [hres]
    refine ⟨?_, ?_, ?_, ?_, ?_, ?_, by simp; omega, by simp; omega, ⟨[(allocA ps1).2.2], rfl⟩, Or.inr ⟨_, rfl⟩⟩
    · rw [hacts, failOf_append]
      simp only [failOf, flushA, List.cons_append, List.nil_append, Option.orElse]
      rw [failOf_append, nf2]
      rfl
    · rw [hacts]
      refine PagerActs.append ((pagerActs_single_mem _).append (pagerActs_flush _ _)) (pg2.append ?_)
      intro a ha
      simp at ha
      rcases ha with rfl | rfl | rfl | rfl | rfl <;> trivial
    · rw [hio]
      apply safeAlong_append (safeAlong_mono sa1 (toN es))
      rw [hfs1]
      apply safeAlong_append (safeAlong_mono sa2 (toN es))
      rw [hfs2]
      show SafeAlong (fun g => AllImgs g NascentP) fs2
        (Step.pg (.idxRoot (allocA ps1).2.2) (allocA ps1).2.2 :: Step.ps :: Step.pg (.cat (es ++ [(allocA ps1).2.2])) c :: [Step.ps])
      refine safeAlong_cons (toN es _ st2.imgs) (safeAlong_cons (toN es _ im3) ?_)
      rw [hfs4]
      exact safeAlong_cons (toN _ _ im4) (safeAlong_cons (toN _ _ im5) (safeAlong_nil (toN _ _ im6)))
    · rw [hfinal]
      refine ⟨im6, ?_, ?_⟩
      · rw [hpv6]; simp only [applyEff]; exact st2.hdr
      · rw [hpv6]; simp only [applyEff]; exact st2.bm
    · rw [hfinal]; rfl
    · rw [hfinal, hpv6]; simp [applyEff]

end Nervus.Crash

namespace Nervus.Crash

def bootM0 (pm0 : Meta) (bm : Nat) : Mem := { pm := pm0, bm := bm, idStart := 0, idLen := 0, exts := [] }

/-- `IndexCatalog::open_or_create` when there is no catalog yet -/
def catCreateA (ps : PS) : List Action × PS × Nat :=
  ((allocA ps).1 ++ [ioA (.pg (.cat []) (allocA ps).2.2)] ++ [ioA .ps] ++
      [memA (.setPm { (allocA ps).2.1.pm with catRoot := (allocA ps).2.2 })] ++
      flushA { (allocA ps).2.1.pm with catRoot := (allocA ps).2.2 } (allocA ps).2.1.bm ++ [memA (.catalog (allocA ps).2.2 [])],
   { (allocA ps).2.1 with pm := { (allocA ps).2.1.pm with catRoot := (allocA ps).2.2 } }, (allocA ps).2.2)

/-- the result of the first half of `open`, given what the catalog step produced -/
def bootTail (cfg : Cfg) (vol : PImg) (pre : List Action) (m0 : Mem) (ps : PS) (c : Nat) (es0 : List Nat) :
    Except (List Action × Err) BootRes :=
  let r2 := mkIndexA cfg ps c es0 0
  let r3 := mkIndexA cfg r2.2.1 c r2.2.2 1
  if !(r3.2.2.all (fun r => (r3.2.2.drop es0.length).contains r || vol.idx.contains r)) then
    .error (pre ++ r2.1 ++ r3.1, .idxBad)
  else .ok { acts := pre ++ r2.1 ++ r3.1, ps := r3.2.1, catRoot := c, entries := r3.2.2, m0 := m0 }

theorem bootA_cat (cfg : Cfg) (vol : PImg) (hfz : cfg.freshZero = true) (hb : NBase vol) (hinit : vol.hdr.init = true) (hlen : 2 ≤ vol.len)
    (hc : vol.hdr.catRoot ≠ 0) (es : List Nat) (hcat : vol.cat = some es) :
    bootA cfg vol = bootTail cfg vol
      ([memA (.setPm vol.hdr)] ++ [memA (.loaded (bootM0 vol.hdr vol.bm))] ++ [memA (.catalog vol.hdr.catRoot es)])
      (bootM0 vol.hdr vol.bm) { pm := vol.hdr, len := vol.len, bm := vol.bm } vol.hdr.catRoot es := by
  have h0 : ¬ vol.len = 0 := by omega
  have h2 : ¬ vol.len < 2 := by omega
  unfold bootA bootTail
  simp [h0, h2, hinit, hc, hcat, hb.start, hb.ilen, bootM0, hfz]

theorem bootA_nocat (cfg : Cfg) (vol : PImg) (hfz : cfg.freshZero = true) (hsc : cfg.syncCreate = true) (hb : NBase vol)
    (hinit : vol.hdr.init = true) (hlen : 2 ≤ vol.len) (hc : vol.hdr.catRoot = 0) :
    bootA cfg vol = bootTail cfg vol
      ([memA (.setPm vol.hdr)] ++ [memA (.loaded (bootM0 vol.hdr vol.bm))] ++ (catCreateA { pm := vol.hdr, len := vol.len, bm := vol.bm }).1)
      (bootM0 vol.hdr vol.bm) (catCreateA { pm := vol.hdr, len := vol.len, bm := vol.bm }).2.1
      (catCreateA { pm := vol.hdr, len := vol.len, bm := vol.bm }).2.2 [] := by
  have h0 : ¬ vol.len = 0 := by omega
  have h2 : ¬ vol.len < 2 := by omega
  unfold bootA bootTail catCreateA
  simp [h0, h2, hinit, hc, hb.start, hb.ilen, bootM0, hfz, hsc]

theorem bootA_fresh (cfg : Cfg) (vol : PImg) (hfz : cfg.freshZero = true) (hsc : cfg.syncCreate = true)
    (hf : vol.len = 0 ∨ vol.len < 2 ∨ vol.hdr.init = false) :
    bootA cfg vol = bootTail cfg vol
      ([memA (.setPm { init := true }), ioA (.pg (.setLen 2) 2)] ++ flushA { init := true } 2 ++
        [memA (.loaded (bootM0 { init := true } 2))] ++ (catCreateA { pm := { init := true }, len := max vol.len 2, bm := 2 }).1)
      (bootM0 { init := true } 2) (catCreateA { pm := { init := true }, len := max vol.len 2, bm := 2 }).2.1
      (catCreateA { pm := { init := true }, len := max vol.len 2, bm := 2 }).2.2 [] := by
  have hfr : (vol.len = 0 || (cfg.freshZero && (decide (vol.len < 2) || !vol.hdr.init))) = true := by
    rcases hf with h | h | h <;> simp [h, hfz]
  unfold bootA bootTail catCreateA
  simp only [hfr, Bool.not_true, Bool.false_and, Bool.false_eq_true, if_false, if_true]
  simp [bootM0, hsc]

end Nervus.Crash

namespace Nervus.Crash

/-- creation of the catalog page: allocated, written, synced, and only then named by the meta page -/
theorem catCreate_safe (fs : FS) (ps : PS) (hst : NSt (NCls true (some 0) none) fs ps) :
    failOf (catCreateA ps).1 = none ∧ PagerActs (catCreateA ps).1 ∧
    SafeAlong (fun g => AllImgs g NascentP) fs (ioSteps (catCreateA ps).1) ∧
    NSt (NCls true (some (catCreateA ps).2.2) (some [])) (fs.steps (ioSteps (catCreateA ps).1)) (catCreateA ps).2.1 ∧
    (fs.steps (ioSteps (catCreateA ps).1)).pj = [] ∧
    (fs.steps (ioSteps (catCreateA ps).1)).pv.cat = some [] ∧ (catCreateA ps).2.2 ≠ 0 := by
  have toN0 : ∀ (g : FS), AllImgs g (NCls true (some 0) none) → AllImgs g NascentP :=
    fun g hg => allImgs_mono g _ _ hg (fun p hp => hp.nascent (Or.inl rfl))
  have toN1 : ∀ (g : FS), AllImgs g (NCls true none (some [])) → AllImgs g NascentP :=
    fun g hg => allImgs_mono g _ _ hg (fun p hp => hp.nascent (Or.inr ⟨rfl, [], rfl⟩))
  obtain ⟨nf1, pg1, sa1, st1, pj1, ct1, ix1, hc2, hok1, hbm1⟩ := n_alloc fs ps hst
  generalize hfs1 : fs.steps (ioSteps (allocA ps).1) = fs1 at sa1 st1 pj1 ct1 ix1
  -- the (empty) catalog page, sync
  have im2 : AllImgs (fs1.step (.pg (.cat []) (allocA ps).2.2)) (NCls true (some 0) none) :=
    allImgs_nstep fs1 _ st1.imgs (by intro R' hR; cases hR)
  have hpv2 : (fs1.step (.pg (.cat []) (allocA ps).2.2)).pv = applyEff (.cat []) fs1.pv := pv_step_pg fs1 _ _
  have hcls2 : NCls true none (some []) (fs1.step (.pg (.cat []) (allocA ps).2.2)).pv := by
    have h2 := allImgs_pv _ _ im2
    refine { base := h2.base, ini := h2.ini, root := (by intro c hc; cases hc), cat := ?_ }
    intro R' hR
    cases hR
    exact ⟨[], by rw [hpv2]; rfl, by simp, by simp, by simp⟩
  have im3 : AllImgs ((fs1.step (.pg (.cat []) (allocA ps).2.2)).step .ps) (NCls true none (some [])) := allImgs_ps _ _ hcls2
  generalize hfs3 : (fs1.step (.pg (.cat []) (allocA ps).2.2)).step .ps = fs3 at im3
  have hpv3 : fs3.pv = applyEff (.cat []) fs1.pv := by rw [← hfs3, pv_step_ps, hpv2]
  -- the meta page names the catalog
  have hokc : NHdrOK true none { (allocA ps).2.1.pm with catRoot := (allocA ps).2.2 } :=
    ⟨hok1.1, hok1.2.1, hok1.2.2.1, hok1.2.2.2.1, by intro c hc; cases hc⟩
  obtain ⟨sa4, im4, pj4, hd4, bm4, ct4, _⟩ := n_flush (ini := true) (cr := none) (R := some []) fs3
    { (allocA ps).2.1.pm with catRoot := (allocA ps).2.2 } (allocA ps).2.1.bm im3 hokc hbm1
  generalize hfs4 : fs3.steps (flushSteps { (allocA ps).2.1.pm with catRoot := (allocA ps).2.2 } (allocA ps).2.1.bm) = fs4
    at sa4 im4 pj4 hd4 bm4 ct4
  have hpv4 : fs4.pv = fs4.pd := by simp [FS.pv, pj4, applyEffs]
  have im4' : AllImgs fs4 (NCls true (some (allocA ps).2.2) (some [])) := by
    intro p' hp'
    rw [pj4] at hp'
    rw [isImg_nil _ _ hp']
    have h4 := im4 _ (isImg_pd _ _)
    exact { h4 with root := (by intro c hc; cases hc; rw [hd4]) }
  have hio : ioSteps (catCreateA ps).1 = ioSteps (allocA ps).1 ++
      ([Step.pg (.cat []) (allocA ps).2.2, Step.ps] ++ flushSteps { (allocA ps).2.1.pm with catRoot := (allocA ps).2.2 } (allocA ps).2.1.bm) := by
    unfold catCreateA
    simp only [List.append_assoc]
    rw [ioSteps_append_noFail _ _ nf1]
    rfl
  have hfinal : fs.steps (ioSteps (catCreateA ps).1) = fs4 := by
    rw [hio, steps_append, hfs1, steps_append, ← hfs4, ← hfs3]
    rfl
  rw [hfinal]
  refine ⟨?_, ?_, ?_, ⟨im4', by rw [hpv4]; exact hd4, by rw [hpv4]; exact bm4⟩, pj4, ?_, by show (allocA ps).2.2 ≠ 0; omega⟩
  · unfold catCreateA
    simp only [List.append_assoc]
    rw [failOf_append, nf1]
    rfl
  · unfold catCreateA
    refine PagerActs.append (PagerActs.append (PagerActs.append (PagerActs.append (PagerActs.append pg1 ?_) ?_) (pagerActs_single_mem _))
      (pagerActs_flush _ _)) (pagerActs_single_mem _)
    · intro a ha; simp at ha; subst ha; trivial
    · intro a ha; simp at ha; subst ha; trivial
  · rw [hio]
    apply safeAlong_append (safeAlong_mono sa1 toN0)
    rw [hfs1]
    show SafeAlong (fun g => AllImgs g NascentP) fs1 (Step.pg (.cat []) (allocA ps).2.2 :: Step.ps :: flushSteps _ _)
    refine safeAlong_cons (toN0 _ st1.imgs) (safeAlong_cons (toN0 _ im2) ?_)
    rw [hfs3]
    exact safeAlong_mono sa4 toN1
  · rw [hpv4, ct4, hpv3]; rfl

end Nervus.Crash

namespace Nervus.Crash

/-- the two reserved indexes, then the finished page file -/
theorem bootTail_safe (cfg : Cfg) (hsc : cfg.syncCreate = true) (vol : PImg) (pre : List Action) (m0 : Mem)
    (fs : FS) (ps : PS) (c : Nat) (es : List Nat)
    (hst : NSt (NCls true (some c) (some es)) fs ps) (hpj : fs.pj = []) (hcat : fs.pv.cat = some es) (hlen : es.length ≤ 2)
    (hc : c ≠ 0) (hvol : ∀ r ∈ es, r ∈ vol.idx) :
    ∃ b X, bootTail cfg vol pre m0 ps c es = .ok b ∧ b.m0 = m0 ∧ b.acts = pre ++ X ∧ failOf X = none ∧ PagerActs X ∧
      SafeAlong (fun g => AllImgs g NascentP) fs (ioSteps X) ∧
      (fs.steps (ioSteps X)).pj = [] ∧ Booted (fs.steps (ioSteps X)).pd ∧ NBase (fs.steps (ioSteps X)).pd ∧
      (fs.steps (ioSteps X)).pd.hdr = b.ps.pm ∧ (fs.steps (ioSteps X)).pd.bm = b.ps.bm := by
  obtain ⟨nf2, pg2, sa2, st2, pj2, ct2, len2, lt2, ⟨tl2, htl2⟩, _⟩ :=
    mkIndex_safe cfg hsc fs ps c es 0 hst hpj hcat hlen (by omega) (Nat.zero_le _)
  generalize hr2 : mkIndexA cfg ps c es 0 = r2 at nf2 pg2 sa2 st2 pj2 ct2 len2 lt2 htl2
  generalize hfs2 : fs.steps (ioSteps r2.1) = fs2 at st2 pj2 ct2
  obtain ⟨nf3, pg3, sa3, st3, pj3, ct3, len3, lt3, ⟨tl3, htl3⟩, _⟩ :=
    mkIndex_safe cfg hsc fs2 r2.2.1 c r2.2.2 1 st2 pj2 ct2 len2 (Nat.le_refl _) (by omega)
  generalize hr3 : mkIndexA cfg r2.2.1 c r2.2.2 1 = r3 at nf3 pg3 sa3 st3 pj3 ct3 len3 lt3 htl3
  have hchk : (r3.2.2.all (fun r => (r3.2.2.drop es.length).contains r || vol.idx.contains r)) = true := by
    rw [List.all_eq_true]
    intro r hr
    rw [htl3, htl2, List.append_assoc] at hr ⊢
    simp only [List.drop_left, Bool.or_eq_true, List.contains_iff_mem]
    rcases List.mem_append.mp hr with h | h
    · exact Or.inr (by simpa using hvol r h)
    · exact Or.inl (by simpa using h)
  refine ⟨{ acts := pre ++ r2.1 ++ r3.1, ps := r3.2.1, catRoot := c, entries := r3.2.2, m0 := m0 }, r2.1 ++ r3.1, ?_, rfl,
    by simp [List.append_assoc], ?_, pg2.append pg3, ?_, ?_⟩
  · unfold bootTail
    simp only [hr2, hr3, hchk, Bool.not_true, Bool.false_eq_true, if_false]
  · rw [failOf_append, nf2]; simpa using nf3
  · rw [ioSteps_append_noFail _ _ nf2]
    apply safeAlong_append sa2
    rw [hfs2]; exact sa3
  · rw [ioSteps_append_noFail _ _ nf2, steps_append, hfs2]
    generalize hfs3 : fs2.steps (ioSteps r3.1) = fs3 at st3 pj3 ct3
    have hpv3 : fs3.pv = fs3.pd := by simp [FS.pv, pj3, applyEffs]
    have hcl := st3.imgs _ (isImg_pd _ _)
    have hlen3 : r3.2.2.length = 2 := by omega
    refine ⟨pj3, ?_, hcl.base, by rw [← hpv3]; exact st3.hdr, by rw [← hpv3]; exact st3.bm⟩
    obtain ⟨es', e1, e2, e3, _⟩ := hcl.cat _ rfl
    have hes' : es' = r3.2.2 := by
      rw [← hpv3, ct3] at e1
      exact (Option.some.inj e1).symm
    exact { init := (hcl.ini rfl).1, len := (hcl.ini rfl).2, nextPage := hcl.base.np, bm := hcl.base.bm,
            catRoot := by rw [hcl.root c rfl]; exact hc,
            cat := ⟨es', e1, by rw [hes']; exact hlen3, e3⟩ }

end Nervus.Crash

namespace Nervus.Crash

theorem pagerActs_mems (l : List Action) (h : ∀ a ∈ l, ∃ u, a = memA u) : PagerActs l := by
  intro a ha
  obtain ⟨u, rfl⟩ := h a ha
  trivial

/-- **the first half of `open` on a nascent page file**: it completes the creation; every crash
    image on the way is nascent again; the page file it leaves is a finished, empty database -/
theorem boot_nascent (cfg : Cfg) (hfz : cfg.freshZero = true) (hsc : cfg.syncCreate = true) (fs : FS) (hpj : fs.pj = [])
    (hn : NascentP fs.pd) :
    ∃ b, bootA cfg fs.pd = .ok b ∧ failOf b.acts = none ∧ PagerActs b.acts ∧
      SafeAlong (fun g => AllImgs g NascentP) fs (ioSteps b.acts) ∧
      (fs.steps (ioSteps b.acts)).pj = [] ∧ Booted (fs.steps (ioSteps b.acts)).pd ∧ NBase (fs.steps (ioSteps b.acts)).pd ∧
      (fs.steps (ioSteps b.acts)).pd.hdr = b.ps.pm ∧ (fs.steps (ioSteps b.acts)).pd.bm = b.ps.bm ∧
      b.m0.idStart = 0 ∧ b.m0.idLen = 0 ∧ b.m0.exts = [] ∧ b.m0.walOpen = true ∧ b.m0.tailChecked = false := by
  have hpv : fs.pv = fs.pd := by simp [FS.pv, hpj, applyEffs]
  have himgs : ∀ (X : PImg → Prop), X fs.pd → AllImgs fs X := by
    intro X hX p' hp'
    rw [hpj] at hp'
    rw [isImg_nil _ _ hp']; exact hX
  by_cases hf : fs.pd.len = 0 ∨ fs.pd.len < 2 ∨ fs.pd.hdr.init = false
  · -- fresh: the file is initialised again from scratch
    have hroot : fs.pd.hdr.catRoot = 0 := by
      rcases hn.cat with h | ⟨h1, h2, _⟩
      · exact h
      · rcases hf with h | h | h
        · omega
        · omega
        · rw [h1] at h; cases h
    rw [bootA_fresh cfg fs.pd hfz hsc hf]
    -- set_len 2, first flush
    have hNA : AllImgs fs (NCls false (some 0) none) :=
      himgs _ { base := hn.base, ini := (by intro h; cases h), root := (by intro c hc; cases hc; exact hroot), cat := (by intro R' hR; cases hR) }
    have im1 : AllImgs (fs.step (.pg (.setLen 2) 2)) (NCls false (some 0) none) := allImgs_nstep fs _ hNA (by trivial)
    have hok0 : NHdrOK false (some 0) ({ init := true } : Meta) := by
      refine ⟨rfl, rfl, Nat.le_refl _, ?_, ?_⟩
      · intro h; cases h
      · intro c hc; cases hc; rfl
    obtain ⟨sa2, im2, pj2, hd2, bm2, ct2, ix2⟩ := n_flush (ini := false) (cr := some 0) (R := none) (fs.step (.pg (.setLen 2) 2))
      { init := true } 2 im1 hok0 (Nat.le_refl _)
    generalize hfs2 : (fs.step (.pg (.setLen 2) 2)).steps (flushSteps { init := true } 2) = fs2 at sa2 im2 pj2 hd2 bm2 ct2 ix2
    have hpv2 : fs2.pv = fs2.pd := by simp [FS.pv, pj2, applyEffs]
    have hlen2 : 2 ≤ fs2.pd.len := by
      rw [← hpv2, ← hfs2]
      have : ((fs.step (.pg (.setLen 2) 2)).steps (flushSteps { init := true } 2)) = fs.steps ([Step.pg (.setLen 2) 2] ++ flushSteps { init := true } 2) := rfl
      rw [this, pv_steps]
      simp [flushSteps, effsOf, applyEffs, applyEff]
      exact Nat.le_max_right _ _
    have st2 : NSt (NCls true (some 0) none) fs2 { pm := { init := true }, len := max fs.pd.len 2, bm := 2 } := by
      refine ⟨?_, by rw [hpv2]; exact hd2, by rw [hpv2]; exact bm2⟩
      intro p' hp'
      rw [pj2] at hp'
      rw [isImg_nil _ _ hp']
      have h2 := im2 _ (isImg_pd _ _)
      exact { h2 with ini := (fun _ => ⟨by rw [hd2], hlen2⟩) }
    obtain ⟨nf3, pg3, sa3, st3, pj3, ct3, hc3⟩ := catCreate_safe fs2 _ st2
    generalize hcc : catCreateA { pm := ({ init := true } : Meta), len := max fs.pd.len 2, bm := 2 } = cc at nf3 pg3 sa3 st3 pj3 ct3 hc3
    generalize hfs3 : fs2.steps (ioSteps cc.1) = fs3 at st3 pj3 ct3
    obtain ⟨b, X, hb, hm0, hacts, nfX, pgX, saX, r1, r2, r3, r4, r5⟩ := bootTail_safe cfg hsc fs.pd
      ([memA (.setPm { init := true }), ioA (.pg (.setLen 2) 2)] ++ flushA { init := true } 2 ++
        [memA (.loaded (bootM0 { init := true } 2))] ++ cc.1) (bootM0 { init := true } 2) fs3 cc.2.1 cc.2.2 []
      st3 pj3 ct3 (by simp) hc3 (by simp)
    have hioPre : ioSteps ([memA (.setPm { init := true }), ioA (.pg (.setLen 2) 2)] ++ flushA { init := true } 2 ++
        [memA (.loaded (bootM0 { init := true } 2))] ++ cc.1) = (Step.pg (.setLen 2) 2 :: flushSteps { init := true } 2) ++ ioSteps cc.1 := by
      simp [ioSteps, flushA, flushSteps]
    have hnfPre : failOf ([memA (.setPm { init := true }), ioA (.pg (.setLen 2) 2)] ++ flushA { init := true } 2 ++
        [memA (.loaded (bootM0 { init := true } 2))] ++ cc.1) = none := by
      simp [failOf, flushA, nf3]
    have hsteps : fs.steps (ioSteps b.acts) = fs3.steps (ioSteps X) := by
      rw [hacts, ioSteps_append_noFail _ _ hnfPre, hioPre, steps_append, steps_append]
      show (((fs.step (.pg (.setLen 2) 2)).steps (flushSteps { init := true } 2)).steps (ioSteps cc.1)).steps (ioSteps X) = _
      rw [hfs2, hfs3]
    refine ⟨b, hb, ?_, ?_, ?_, ?_⟩
    · rw [hacts, failOf_append, hnfPre]; simpa using nfX
    · rw [hacts]
      refine PagerActs.append (PagerActs.append (PagerActs.append (PagerActs.append ?_ (pagerActs_flush _ _)) (pagerActs_single_mem _)) pg3) pgX
      intro a ha; simp at ha; rcases ha with rfl | rfl <;> trivial
    · rw [hacts, ioSteps_append_noFail _ _ hnfPre, hioPre]
      have toN0 : ∀ (g : FS), AllImgs g (NCls false (some 0) none) → AllImgs g NascentP :=
        fun g hg => allImgs_mono g _ _ hg (fun p hp => hp.nascent (Or.inl rfl))
      apply safeAlong_append
      · apply safeAlong_append
        · exact safeAlong_cons (toN0 _ hNA) (safeAlong_mono sa2 toN0)
        · show SafeAlong _ ((fs.step (.pg (.setLen 2) 2)).steps (flushSteps { init := true } 2)) _
          rw [hfs2]; exact sa3
      · rw [steps_append]
        show SafeAlong _ (((fs.step (.pg (.setLen 2) 2)).steps (flushSteps { init := true } 2)).steps (ioSteps cc.1)) _
        rw [hfs2, hfs3]; exact saX
    · rw [hsteps]
      exact ⟨r1, r2, r3, r4, r5, by rw [hm0]; rfl, by rw [hm0]; rfl, by rw [hm0]; rfl, by rw [hm0]; rfl, by rw [hm0]; rfl⟩
  · -- the meta page is initialised
    have hinit : fs.pd.hdr.init = true := by
      cases h : fs.pd.hdr.init with
      | true => rfl
      | false => exact absurd (Or.inr (Or.inr h)) hf
    have hlen : 2 ≤ fs.pd.len := by
      by_cases h : 2 ≤ fs.pd.len
      · exact h
      · exact absurd (Or.inr (Or.inl (by omega))) hf
    by_cases hroot : fs.pd.hdr.catRoot = 0
    · -- no catalog yet
      rw [bootA_nocat cfg fs.pd hfz hsc hn.base hinit hlen hroot]
      have st0 : NSt (NCls true (some 0) none) fs { pm := fs.pd.hdr, len := fs.pd.len, bm := fs.pd.bm } :=
        ⟨himgs _ { base := hn.base, ini := (fun _ => ⟨hinit, hlen⟩), root := (by intro c hc; cases hc; exact hroot),
                   cat := (by intro R' hR; cases hR) }, by rw [hpv], by rw [hpv]⟩
      obtain ⟨nf3, pg3, sa3, st3, pj3, ct3, hc3⟩ := catCreate_safe fs _ st0
      generalize hcc : catCreateA { pm := fs.pd.hdr, len := fs.pd.len, bm := fs.pd.bm } = cc at nf3 pg3 sa3 st3 pj3 ct3 hc3
      generalize hfs3 : fs.steps (ioSteps cc.1) = fs3 at st3 pj3 ct3
      obtain ⟨b, X, hb, hm0, hacts, nfX, pgX, saX, r1, r2, r3, r4, r5⟩ := bootTail_safe cfg hsc fs.pd
        ([memA (.setPm fs.pd.hdr)] ++ [memA (.loaded (bootM0 fs.pd.hdr fs.pd.bm))] ++ cc.1) (bootM0 fs.pd.hdr fs.pd.bm) fs3 cc.2.1 cc.2.2 []
        st3 pj3 ct3 (by simp) hc3 (by simp)
      have hioPre : ioSteps ([memA (.setPm fs.pd.hdr)] ++ [memA (.loaded (bootM0 fs.pd.hdr fs.pd.bm))] ++ cc.1) = ioSteps cc.1 := by
        simp [ioSteps]
      have hnfPre : failOf ([memA (.setPm fs.pd.hdr)] ++ [memA (.loaded (bootM0 fs.pd.hdr fs.pd.bm))] ++ cc.1) = none := by
        simp [failOf, nf3]
      have hsteps : fs.steps (ioSteps b.acts) = fs3.steps (ioSteps X) := by
        rw [hacts, ioSteps_append_noFail _ _ hnfPre, hioPre, steps_append, hfs3]
      refine ⟨b, hb, ?_, ?_, ?_, ?_⟩
      · rw [hacts, failOf_append, hnfPre]; simpa using nfX
      · rw [hacts]
        exact PagerActs.append (PagerActs.append (PagerActs.append (pagerActs_single_mem _) (pagerActs_single_mem _)) pg3) pgX
      · rw [hacts, ioSteps_append_noFail _ _ hnfPre, hioPre]
        apply safeAlong_append sa3
        rw [hfs3]; exact saX
      · rw [hsteps]
        exact ⟨r1, r2, r3, r4, r5, by rw [hm0]; rfl, by rw [hm0]; rfl, by rw [hm0]; rfl, by rw [hm0]; rfl, by rw [hm0]; rfl⟩
    · -- the catalog exists: only missing reserved indexes are created
      have hcatOK : CatOK [] fs.pd := by
        rcases hn.cat with h | ⟨_, _, h⟩
        · exact absurd h hroot
        · exact h
      obtain ⟨es, e1, e2, e3, _⟩ := hcatOK
      rw [bootA_cat cfg fs.pd hfz hn.base hinit hlen hroot es e1]
      have st0 : NSt (NCls true (some fs.pd.hdr.catRoot) (some es)) fs { pm := fs.pd.hdr, len := fs.pd.len, bm := fs.pd.bm } :=
        ⟨himgs _ { base := hn.base, ini := (fun _ => ⟨hinit, hlen⟩), root := (by intro c hc; cases hc; rfl),
                   cat := (by intro R' hR; cases hR; exact ⟨es, e1, e2, e3, e3⟩) }, by rw [hpv], by rw [hpv]⟩
      obtain ⟨b, X, hb, hm0, hacts, nfX, pgX, saX, r1, r2, r3, r4, r5⟩ := bootTail_safe cfg hsc fs.pd
        ([memA (.setPm fs.pd.hdr)] ++ [memA (.loaded (bootM0 fs.pd.hdr fs.pd.bm))] ++ [memA (.catalog fs.pd.hdr.catRoot es)])
        (bootM0 fs.pd.hdr fs.pd.bm) fs _ fs.pd.hdr.catRoot es st0 hpj (by rw [hpv]; exact e1) e2 hroot e3
      have hioPre : ioSteps ([memA (.setPm fs.pd.hdr)] ++ [memA (.loaded (bootM0 fs.pd.hdr fs.pd.bm))] ++
          [memA (.catalog fs.pd.hdr.catRoot es)]) = [] := rfl
      have hnfPre : failOf ([memA (.setPm fs.pd.hdr)] ++ [memA (.loaded (bootM0 fs.pd.hdr fs.pd.bm))] ++
          [memA (.catalog fs.pd.hdr.catRoot es)]) = none := rfl
      have hsteps : fs.steps (ioSteps b.acts) = fs.steps (ioSteps X) := by
        rw [hacts, ioSteps_append_noFail _ _ hnfPre, hioPre]; rfl
      refine ⟨b, hb, ?_, ?_, ?_, ?_⟩
      · rw [hacts, failOf_append, hnfPre]; simpa using nfX
      · rw [hacts]
        exact PagerActs.append (PagerActs.append (PagerActs.append (pagerActs_single_mem _) (pagerActs_single_mem _)) (pagerActs_single_mem _)) pgX
      · rw [hacts, ioSteps_append_noFail _ _ hnfPre, hioPre]
        exact saX
      · rw [hsteps]
        exact ⟨r1, r2, r3, r4, r5, by rw [hm0]; rfl, by rw [hm0]; rfl, by rw [hm0]; rfl, by rw [hm0]; rfl, by rw [hm0]; rfl⟩

end Nervus.Crash

namespace Nervus.Crash

/-- the memory `open` assembles on an empty log -/
def emptyLogMem (b : BootRes) : Mem :=
  { b.m0 with pm := b.ps.pm, bm := b.ps.bm, catRootM := b.catRoot, catEntries := b.entries,
              segs := [], epoch := 0, ckpt := 0, proot := 0, ptop := false, nextTxid := 1 }

theorem replayA_empty (cfg : Cfg) (vol : PImg) (b : BootRes) :
    replayA cfg vol [] b = [memA (.loaded (emptyLogMem b)), memA (.setRuns [])] := by
  simp [replayA, readAll, committed, committedAux, scan, planTxs, nodesA, emptyLogMem]

/-- **`open` on a nascent database** (created, or cut short at any step of its creation, any number
    of times): it succeeds; every crash image at every I/O step is nascent again with an empty log;
    the handle satisfies the invariant for the empty transaction list. -/
theorem create_safe {cfg : Cfg} (hfz : cfg.freshZero = true) (hsc : cfg.syncCreate = true) (fs : FS)
    (hpj : fs.pj = []) (hq : WalQuiet fs) (hw : fs.wf = []) (hn : NascentP fs.pd) :
    failOf (openA cfg fs.pv fs.wf) = none ∧
    (∀ n mode, NascentP ((fs.steps ((ioSteps (openA cfg fs.pv fs.wf)).take n)).crashP mode) ∧
      (fs.steps ((ioSteps (openA cfg fs.pv fs.wf)).take n)).crashW mode = []) ∧
    (fs.steps (ioSteps (openA cfg fs.pv fs.wf))).wf = fs.wf ∧
    InvOpen [] (fs.steps (ioSteps (openA cfg fs.pv fs.wf))) ((memUpds (openA cfg fs.pv fs.wf)).foldl applyUpd {}) [] 0 ∧
    ((memUpds (openA cfg fs.pv fs.wf)).foldl applyUpd {}).tailChecked = false := by
  have hpv : fs.pv = fs.pd := by simp [FS.pv, hpj, applyEffs]
  obtain ⟨b, hb, nfb, pgb, sab, pjF, hboot, hbase, hhdr, hbm, m1, m2, m3, m4, m5⟩ := boot_nascent cfg hfz hsc fs hpj hn
  have hopen : openA cfg fs.pv fs.wf = b.acts ++ replayA cfg fs.pd [] b := by
    unfold openA
    rw [hpv, hb, hw]
  rw [hopen, replayA_empty]
  have hio : ioSteps (b.acts ++ [memA (.loaded (emptyLogMem b)), memA (.setRuns [])]) = ioSteps b.acts := by
    rw [ioSteps_append_noFail _ _ nfb]; simp [ioSteps]
  obtain ⟨_, hpg⟩ := pgb.facts
  rw [hio]
  refine ⟨by rw [failOf_append, nfb]; rfl, ?_, (steps_pager_wal _ hpg fs).1, ?_, ?_⟩
  · intro n mode
    obtain ⟨hwn, hdn, hrn⟩ := take_pager_wal _ hpg fs n
    have hqn : WalQuiet (fs.steps ((ioSteps b.acts).take n)) := ⟨by rw [hdn, hwn]; exact hq.wdur, by rw [hrn]; exact hq.ren⟩
    exact ⟨sab n _ (crashP_isImg _ mode), by rw [hqn.crashW, hwn, hw]⟩
  · obtain ⟨hwF, hdF, hrF⟩ := steps_pager_wal _ hpg fs
    rw [memUpds_append_noFail _ _ nfb, List.foldl_append]
    generalize hfsF : fs.steps (ioSteps b.acts) = fsF at pjF hboot hbase hhdr hbm hwF hdF hrF
    simp only [memUpds, List.foldl_cons, List.foldl_nil, applyUpd, emptyLogMem]
    have hlogRuns : logRuns (scan []).ckpt [] = [] := rfl
    exact
      { pj := by rw [pjF]; exact inert_nil
        wal := WalStable.of_quiet ⟨by rw [hdF, hwF]; exact hq.wdur, by rw [hrF]; exact hq.ren⟩ (by rw [hwF, hw]; rfl)
        log := ⟨by decide, by decide, by decide, by decide, by decide, List.Pairwise.nil, by intro tx h; simp at h⟩
        pager := { booted := hboot, start := fun _ => hbase.ilen, lo := Nat.zero_le _, hi := by rw [hbase.ilen]; exact Nat.le_refl _,
                   slots := by intro i hi; rw [hbase.ilen] at hi; omega }
        store := ⟨by intro k hk; simp [scan] at hk, by rw [hbase.segs]; intro s hs; simp at hs,
          by rw [hbase.trees]; intro t ht; simp at ht, by intro e; simp [allEdges, logRuns, scan], by intro q hq; simp [logRuns] at hq,
          ⟨[], by intro q hq; simp [allProps] at hq, fun _ => rfl, fun h => absurd (by decide) h⟩⟩
        full := by rw [hbase.ilen]; rfl
        mpm := by show SameKey fsF.pd.hdr b.ps.pm; rw [hhdr]; exact SameKey.refl _
        mbm := by show fsF.pd.bm ≤ b.ps.bm; rw [hbm]; exact Nat.le_refl _
        mlen := by show b.m0.idLen = _; rw [m2]; rfl
        mstart := by show b.m0.idStart = _; rw [m1, hbase.start]
        mexts := by show b.m0.exts = _; rw [m3]; rfl
        mruns := rfl
        msegs := rfl
        mroot := rfl
        mptop := rfl
        mepoch := rfl
        mtxid := by show 0 < 1; omega
        mwal := by show b.m0.walOpen = true; exact m4 }
  · rw [memUpds_append_noFail _ _ nfb, List.foldl_append]
    simp only [memUpds, List.foldl_cons, List.foldl_nil, applyUpd, emptyLogMem]
    exact m5

end Nervus.Crash
