/-
  Transactions over the record sequence, and the writer (C17): commits appended to any recoverable log are
  recovered; the committed transactions of a prefix stay a prefix; appending through a handle opened on a file
  with an arbitrary tail continues the log right after its last complete valid frame.
-/
import Nervus.Proofs.WalFrame
namespace Nervus.WalFrame
open Nervus Nervus.PropVal Nervus.WalRec

/-! ### `replay_committed`'s grouping -/

theorem commitGo_ops (x : Nat) : ∀ (ops : List Rec) (p : List Rec) (o : List Tx) (rest : List Rec),
    (∀ r ∈ ops, Rec.isOp r = true) →
    commitGo (some x) p o (ops ++ rest) = commitGo (some x) (p ++ ops) o rest
  | [], p, o, rest, _ => by simp
  | r :: ops, p, o, rest, h => by
    have hr := h r (by simp)
    have ih := commitGo_ops x ops (p ++ [r]) o rest (fun q hq => h q (by simp [hq]))
    cases r <;> simp [Rec.isOp] at hr <;> simp [commitGo, ih]

/-- the state the loop is in does not matter: a whole transaction block appended to a log that replays
    is committed, with exactly its operations -/
theorem commitGo_durable (x : Nat) (ops : List Rec) (hops : ∀ r ∈ ops, Rec.isOp r = true) :
    ∀ (xs : List Rec) (c : Option Nat) (p : List Rec) (o txs : List Tx), commitGo c p o xs = .ok txs →
    commitGo c p o (xs ++ (.beginTx x :: (ops ++ [.commitTx x]))) = .ok (txs ++ [⟨x, ops⟩])
  | [], c, p, o, txs, h => by
    simp only [commitGo] at h
    injection h with h; subst h
    simp only [List.nil_append, commitGo]
    rw [commitGo_ops x ops [] o [.commitTx x] hops]
    simp [commitGo]
  | r :: xs, c, p, o, txs, h => by
    cases r with
    | beginTx t =>
      simp only [commitGo] at h
      simp only [List.cons_append, commitGo]
      exact commitGo_durable x ops hops xs _ _ _ txs h
    | commitTx t =>
      simp only [commitGo] at h
      simp only [List.cons_append, commitGo]
      split at h
      · cases h
      · rename_i hc
        rw [if_neg hc]
        exact commitGo_durable x ops hops xs _ _ _ txs h
    | _ =>
      simp only [commitGo] at h
      simp only [List.cons_append, commitGo]
      split at h
      · cases h
      · rename_i hc
        rw [if_neg hc]
        exact commitGo_durable x ops hops xs _ _ _ txs h

theorem commitGo_out_prefix : ∀ (ys : List Rec) (c : Option Nat) (p : List Rec) (o t : List Tx),
    commitGo c p o ys = .ok t → o <+: t
  | [], c, p, o, t, h => by
    simp only [commitGo] at h; injection h with h; subst h; exact List.prefix_refl _
  | r :: ys, c, p, o, t, h => by
    cases r with
    | beginTx x => simp only [commitGo] at h; exact commitGo_out_prefix ys _ _ _ t h
    | commitTx x =>
      simp only [commitGo] at h
      split at h
      · cases h
      · have := commitGo_out_prefix ys _ _ _ t h
        exact List.IsPrefix.trans (List.prefix_append _ _) this
    | _ =>
      simp only [commitGo] at h
      split at h
      · cases h
      · exact commitGo_out_prefix ys _ _ _ t h

/-- what a prefix of the log committed stays committed, in the same order, when more records follow -/
theorem commitGo_prefix : ∀ (xs ys : List Rec) (c : Option Nat) (p : List Rec) (o txs txs' : List Tx),
    commitGo c p o xs = .ok txs → commitGo c p o (xs ++ ys) = .ok txs' → txs <+: txs'
  | [], ys, c, p, o, txs, txs', h, h' => by
    simp only [commitGo] at h; injection h with h; subst h
    exact commitGo_out_prefix ys c p o txs' (by simpa using h')
  | r :: xs, ys, c, p, o, txs, txs', h, h' => by
    cases r with
    | beginTx x =>
      simp only [commitGo] at h; simp only [List.cons_append, commitGo] at h'
      exact commitGo_prefix xs ys _ _ _ txs txs' h h'
    | commitTx x =>
      simp only [commitGo] at h; simp only [List.cons_append, commitGo] at h'
      split at h
      · cases h
      · rename_i hc
        rw [if_neg hc] at h'
        exact commitGo_prefix xs ys _ _ _ txs txs' h h'
    | _ =>
      simp only [commitGo] at h; simp only [List.cons_append, commitGo] at h'
      split at h
      · cases h
      · rename_i hc
        rw [if_neg hc] at h'
        exact commitGo_prefix xs ys _ _ _ txs txs' h h'

/-- on protocol-conforming sequences `replay_committed` never fails and yields the spec's transactions -/
theorem commitGo_of_proto : ∀ (rs : List Rec) (c : Option Nat) (p : List Rec) (o : List Tx),
    protoGo c rs = true → commitGo c p o rs = .ok (specGo c p o rs)
  | [], c, p, o, _ => rfl
  | r :: rs, c, p, o, h => by
    cases r with
    | beginTx x => simp only [protoGo] at h; simp only [commitGo, specGo]; exact commitGo_of_proto rs _ _ _ h
    | commitTx x =>
      simp only [protoGo, Bool.and_eq_true, decide_eq_true_eq] at h
      simp only [commitGo, specGo, h.1, ne_eq, not_true_eq_false, if_false, if_true]
      exact commitGo_of_proto rs _ _ _ h.2
    | _ =>
      simp only [protoGo, Bool.and_eq_true, decide_eq_true_eq] at h
      simp only [commitGo, specGo, h.1, if_false]
      exact commitGo_of_proto rs _ _ _ h.2

theorem protoGo_append_left : ∀ (xs ys : List Rec) (c : Option Nat), protoGo c (xs ++ ys) = true → protoGo c xs = true
  | [], _, _, _ => rfl
  | r :: xs, ys, c, h => by
    cases r with
    | beginTx x => simp only [List.cons_append, protoGo] at h ⊢; exact protoGo_append_left xs ys _ h
    | commitTx x =>
      simp only [List.cons_append, protoGo, Bool.and_eq_true] at h ⊢
      exact ⟨h.1, protoGo_append_left xs ys _ h.2⟩
    | _ =>
      simp only [List.cons_append, protoGo, Bool.and_eq_true] at h ⊢
      exact ⟨h.1, protoGo_append_left xs ys _ h.2⟩

/-- **replay is positional**: a complete block `BeginTx x, ops…, CommitTx x` anywhere in a record list that
    replays is handed out with exactly `ops` — whatever precedes it (unfinished fragments under the same txid or
    any other) and whatever follows it -/
theorem commitGo_block (x : Nat) (ops : List Rec) (hops : ∀ r ∈ ops, Rec.isOp r = true) (post : List Rec) :
    ∀ (pre : List Rec) (c : Option Nat) (p : List Rec) (o txs : List Tx),
    commitGo c p o (pre ++ (.beginTx x :: (ops ++ [.commitTx x])) ++ post) = .ok txs →
    ∃ a b, commitGo c p o pre = .ok a ∧ txs = a ++ ⟨x, ops⟩ :: b
  | [], c, p, o, txs, h => by
    simp only [List.nil_append, List.cons_append, List.append_assoc, commitGo] at h
    rw [commitGo_ops x ops [] o (.commitTx x :: post) hops] at h
    simp only [List.nil_append, commitGo, ne_eq, not_true_eq_false, if_false] at h
    obtain ⟨b, hb⟩ := commitGo_out_prefix post none [] (o ++ [⟨x, ops⟩]) txs h
    exact ⟨o, b, rfl, by rw [← hb]; simp⟩
  | r :: pre, c, p, o, txs, h => by
    cases r with
    | beginTx t =>
      simp only [List.cons_append, commitGo] at h ⊢
      exact commitGo_block x ops hops post pre _ _ _ txs h
    | commitTx t =>
      simp only [List.cons_append, commitGo] at h ⊢
      split at h
      · cases h
      · rename_i hc
        rw [if_neg hc]
        exact commitGo_block x ops hops post pre _ _ _ txs h
    | _ =>
      simp only [List.cons_append, commitGo] at h ⊢
      split at h
      · cases h
      · rename_i hc
        rw [if_neg hc]
        exact commitGo_block x ops hops post pre _ _ _ txs h

/-- records after the last `CommitTx` that contain no `CommitTx` commit nothing -/
theorem commitGo_no_commit : ∀ (ys : List Rec) (c : Option Nat) (p : List Rec) (o t : List Tx),
    (∀ r ∈ ys, ∀ z, r ≠ .commitTx z) → commitGo c p o ys = .ok t → t = o
  | [], _, _, o, t, _, h => by simp only [commitGo] at h; injection h with h; exact h.symm
  | r :: ys, c, p, o, t, hn, h => by
    have hn' : ∀ q ∈ ys, ∀ z, q ≠ .commitTx z := fun q hq => hn q (by simp [hq])
    cases r with
    | beginTx x => simp only [commitGo] at h; exact commitGo_no_commit ys _ _ o t hn' h
    | commitTx x => exact absurd rfl (hn (.commitTx x) (by simp) x)
    | _ =>
      simp only [commitGo] at h
      split at h
      · cases h
      · exact commitGo_no_commit ys _ _ o t hn' h

theorem commitGo_append_eq : ∀ (xs ys : List Rec) (c : Option Nat) (p : List Rec) (o a t : List Tx),
    commitGo c p o xs = .ok a → commitGo c p o (xs ++ ys) = .ok t → (∀ r ∈ ys, ∀ z, r ≠ .commitTx z) → t = a
  | [], ys, c, p, o, a, t, h, h', hn => by
    simp only [commitGo] at h; injection h with h; subst h
    exact commitGo_no_commit ys c p _ t hn (by simpa using h')
  | r :: xs, ys, c, p, o, a, t, h, h', hn => by
    cases r with
    | beginTx x =>
      simp only [commitGo] at h; simp only [List.cons_append, commitGo] at h'
      exact commitGo_append_eq xs ys _ _ _ a t h h' hn
    | commitTx x =>
      simp only [commitGo] at h; simp only [List.cons_append, commitGo] at h'
      split at h
      · cases h
      · rename_i hc
        rw [if_neg hc] at h'
        exact commitGo_append_eq xs ys _ _ _ a t h h' hn
    | _ =>
      simp only [commitGo] at h; simp only [List.cons_append, commitGo] at h'
      split at h
      · cases h
      · rename_i hc
        rw [if_neg hc] at h'
        exact commitGo_append_eq xs ys _ _ _ a t h h' hn

/-- an unfinished transaction appended to a log that replays changes nothing -/
theorem commitGo_fragment (x : Nat) (ops₀ : List Rec) (h0 : ∀ r ∈ ops₀, Rec.isOp r = true) :
    ∀ (xs : List Rec) (c : Option Nat) (p : List Rec) (o a : List Tx), commitGo c p o xs = .ok a →
    commitGo c p o (xs ++ (.beginTx x :: ops₀)) = .ok a
  | [], c, p, o, a, h => by
    simp only [commitGo] at h; injection h with h; subst h
    simp only [List.nil_append, commitGo]
    have := commitGo_ops x ops₀ [] o [] h0
    simp only [List.append_nil] at this
    rw [this]; rfl
  | r :: xs, c, p, o, a, h => by
    cases r with
    | beginTx t =>
      simp only [commitGo] at h; simp only [List.cons_append, commitGo]
      exact commitGo_fragment x ops₀ h0 xs _ _ _ a h
    | commitTx t =>
      simp only [commitGo] at h; simp only [List.cons_append, commitGo]
      split at h
      · cases h
      · rename_i hc
        rw [if_neg hc]
        exact commitGo_fragment x ops₀ h0 xs _ _ _ a h
    | _ =>
      simp only [commitGo] at h; simp only [List.cons_append, commitGo]
      split at h
      · cases h
      · rename_i hc
        rw [if_neg hc]
        exact commitGo_fragment x ops₀ h0 xs _ _ _ a h

theorem committedCfg_eq {cfg : Cfg} (h : cfg.beginResetsPending = true) (rs : List Rec) :
    committedCfg cfg rs = committed rs := by
  simp [committedCfg, h]

theorem committed_of_proto (rs : List Rec) (h : ProtoOk rs = true) : committed rs = .ok (specTxs rs) :=
  commitGo_of_proto rs none [] [] h

theorem readAll_of_eof' {cfg : Cfg} {t : Bytes} (h : nextRecord cfg t = .eof) : (readAll cfg t).1 = [] := by
  rw [readAll_unfold, h]

/-! ### the writer -/

/-- the repaired configuration: tolerant reader, tail cut before the first append, oversize records refused,
    a codec that never writes what it cannot read -/
structure Fixed (cfg : Cfg) : Prop where
  over : cfg.oversizeIsEof = true
  undec : cfg.undecodableIsEof = true
  trunc : cfg.truncatesBeforeAppend = true
  rej : cfg.appendRejectsOversize = true
  resets : cfg.beginResetsPending = true
  cap : cfg.maxLen < two32
  codec : Coherent cfg.codec

/-- reading a file whose head is complete valid frames: the valid prefix is those frames plus the complete
    valid frames at the head of the rest -/
theorem validPrefix_frames {cfg : Cfg} (hf : Fixed cfg) {pre : Bytes} {rs : List Rec} (hp : IsFrames cfg pre rs)
    (t : Bytes) : ∃ pt tail, t = pt ++ tail ∧ IsFrames cfg pt (readAll cfg t).1 ∧ (readAll cfg t).2 = .eof tail ∧
      validPrefix cfg (pre ++ t) = .ok (pre ++ pt) := by
  obtain ⟨tail, htail⟩ := readAll_tolerant hf.over hf.undec t.length t (Nat.le_refl _)
  obtain ⟨pt, hpt, hdec⟩ := readAll_decompose cfg t.length t (Nat.le_refl _)
  obtain ⟨e, -⟩ := hdec tail htail
  refine ⟨pt, tail, e, hpt, htail, ?_⟩
  unfold validPrefix
  rw [readAll_frames_append hf.cap hp t, htail]
  simp only
  subst e
  have : (pre ++ (pt ++ tail)).length - tail.length = (pre ++ pt).length := by simp; omega
  rw [this, ← List.append_assoc, List.take_left']
  rfl

/-- an acknowledged append wrote one complete valid frame carrying exactly the record, right after the
    complete valid frames of the file (first append) or at the end of the file (later appends) -/
theorem append_inv {cfg : Cfg} (hf : Fixed cfg) (h h' : Handle) (r : Rec) (hw : r.wf = true)
    (ha : append cfg h r = .ok h') :
    ∃ base body, h'.file = base ++ frame body ∧ body.length ≤ cfg.maxLen ∧ decodeBody cfg.codec body = .ok r ∧
      h'.tailChecked = true ∧
      (if h.tailChecked then base = h.file else validPrefix cfg h.file = .ok base) := by
  unfold append at ha
  cases he : encodeBody cfg.codec r with
  | error e => rw [he] at ha; cases ha
  | ok body =>
    rw [he] at ha; simp only at ha
    have hdec := rec_roundtrip_cfg cfg.codec hf.codec r hw body he
    split at ha; · cases ha
    split at ha; · cases ha
    rename_i hlen hrej
    have hle : body.length ≤ cfg.maxLen := by
      rw [hf.rej] at hrej; simp at hrej; exact hrej
    rw [hf.trunc] at ha
    cases htc : h.tailChecked with
    | true =>
      rw [htc] at ha; simp at ha
      subst ha
      exact ⟨h.file, body, rfl, hle, hdec, rfl, by simp⟩
    | false =>
      rw [htc] at ha; simp at ha
      cases hv : validPrefix cfg h.file with
      | error e => rw [hv] at ha; cases ha
      | ok f =>
        rw [hv] at ha; simp at ha; subst ha
        exact ⟨f, body, rfl, hle, hdec, rfl, by simp⟩

/-- appending through a handle whose file is complete valid frames keeps it so and adds exactly the records -/
theorem appendAll_checked {cfg : Cfg} (hf : Fixed cfg) : ∀ (ns : List Rec) (h h' : Handle) (rs : List Rec),
    (∀ r ∈ ns, r.wf = true) → h.tailChecked = true → IsFrames cfg h.file rs → appendAll cfg h ns = .ok h' →
    IsFrames cfg h'.file (rs ++ ns) ∧ h'.tailChecked = true
  | [], h, h', rs, _, htc, hfr, ha => by
    simp only [appendAll] at ha; injection ha with ha; subst ha
    exact ⟨by simpa using hfr, htc⟩
  | r :: ns, h, h', rs, hw, htc, hfr, ha => by
    simp only [appendAll] at ha
    cases h1 : append cfg h r with
    | error e => rw [h1] at ha; cases ha
    | ok h1' =>
      rw [h1] at ha; simp only at ha
      obtain ⟨base, body, hfile, hle, hdec, htc', hbase⟩ := append_inv hf h h1' r (hw r (by simp)) h1
      rw [htc] at hbase; simp at hbase; subst hbase
      have hfr' : IsFrames cfg h1'.file (rs ++ [r]) := by
        rw [hfile]; exact hfr.append (IsFrames.single hle hdec)
      have := appendAll_checked hf ns h1' h' (rs ++ [r]) (fun q hq => hw q (by simp [hq])) htc' hfr' ha
      simpa using this

/-- **appending after any tail**: a handle opened on complete valid frames followed by arbitrary bytes; every
    acknowledged append lands right after the complete valid frames of the file -/
theorem appendAll_after_tail {cfg : Cfg} (hf : Fixed cfg) {pre : Bytes} {rs : List Rec} (hp : IsFrames cfg pre rs)
    (t : Bytes) (r : Rec) (ns : List Rec) (hw : ∀ q ∈ r :: ns, q.wf = true) (h' : Handle)
    (ha : appendAll cfg (walOpen (pre ++ t)) (r :: ns) = .ok h') :
    IsFrames cfg h'.file (rs ++ (readAll cfg t).1 ++ (r :: ns)) := by
  simp only [appendAll] at ha
  cases h1 : append cfg (walOpen (pre ++ t)) r with
  | error e => rw [h1] at ha; cases ha
  | ok h1' =>
    rw [h1] at ha; simp only at ha
    obtain ⟨base, body, hfile, hle, hdec, htc', hbase⟩ := append_inv hf _ h1' r (hw r (by simp)) h1
    simp only [walOpen, Bool.false_eq_true, if_false] at hbase
    obtain ⟨pt, tail, -, hpt, -, hv⟩ := validPrefix_frames hf hp t
    rw [hv] at hbase; injection hbase with hbase; subst hbase
    have hfr' : IsFrames cfg h1'.file (rs ++ (readAll cfg t).1 ++ [r]) := by
      rw [hfile]; exact (hp.append hpt).append (IsFrames.single hle hdec)
    have := appendAll_checked hf ns h1' h' _ (fun q hq => hw q (by simp [hq])) htc' hfr' ha
    simpa using this.1

/-- **no stale bytes, no resurrection**: a handle opened on ANY file `f` (damage anywhere, valid frames of discarded
    transactions possibly behind it); after at least one acknowledged append the file is exactly the frames of
    the records the reader accepted from `f` followed by the frames of the new records -/
theorem appendAll_any_file {cfg : Cfg} (hf : Fixed cfg) (f : Bytes) (r : Rec) (ns : List Rec)
    (hw : ∀ q ∈ r :: ns, q.wf = true) (h' : Handle) (ha : appendAll cfg (walOpen f) (r :: ns) = .ok h') :
    IsFrames cfg h'.file ((readAll cfg f).1 ++ (r :: ns)) := by
  obtain ⟨tail, htail⟩ := readAll_tolerant hf.over hf.undec f.length f (Nat.le_refl _)
  obtain ⟨pre, hpre, hdec⟩ := readAll_decompose cfg f.length f (Nat.le_refl _)
  obtain ⟨e, hn⟩ := hdec tail htail
  subst e
  have := appendAll_after_tail hf hpre tail r ns hw h' ha
  rw [readAll_of_eof' hn] at this
  simpa using this

/-- a log written from scratch through one handle is exactly the frames of its records -/
theorem appendAll_fresh {cfg : Cfg} (hf : Fixed cfg) (rs : List Rec) (hw : ∀ q ∈ rs, q.wf = true) (h' : Handle)
    (ha : appendAll cfg (walOpen []) rs = .ok h') : IsFrames cfg h'.file rs := by
  cases rs with
  | nil => simp only [appendAll] at ha; injection ha with ha; subst ha; exact IsFrames.nil
  | cons r ns =>
    have := appendAll_after_tail hf (IsFrames.nil (cfg := cfg)) [] r ns hw h' (by simpa using ha)
    have he : (readAll cfg []).1 = [] := by
      rw [readAll_unfold]; have : nextRecord cfg [] = .eof := by unfold nextRecord; simp
      rw [this]
    simpa [he] using this

end Nervus.WalFrame
