/-
  Proofs.Cmp — laws of the leaf three-way comparisons (`cmpInt`, `cmpNat`, `cmpBool`, `cmpBytes`,
  `cmpEKey`, lexicographic lists) in the functional form used everywhere:
    swap  : cmp a b = (cmp b a).swap
    trans : cmp a b ≠ gt → cmp b c ≠ gt → cmp a c = (cmp a b).then (cmp b c)
    eq    : cmp a b = eq ↔ a = b          (for the antisymmetric ones)
-/
import Nervus.Model.Value
import Nervus.Spec.Order
import Nervus.Proofs.BytesOrder
namespace Nervus
open Value F64


namespace CmpLaws
variable {α : Type} {cmp : α → α → Ordering}

theorem refl (h : CmpLaws cmp) (a : α) : cmp a a = .eq := by
  have := h.swap a a
  cases hc : cmp a a <;> simp_all [Ordering.swap]

theorem le_trans (h : CmpLaws cmp) {a b c : α} (h1 : cmp a b ≠ .gt) (h2 : cmp b c ≠ .gt) : cmp a c ≠ .gt := by
  rw [h.trans a b c h1 h2]
  cases h3 : cmp a b <;> cases h4 : cmp b c <;> simp_all [Ordering.then]

theorem eq_trans (h : CmpLaws cmp) {a b c : α} (h1 : cmp a b = .eq) (h2 : cmp b c = .eq) : cmp a c = .eq := by
  rw [h.trans a b c (by simp [h1]) (by simp [h2]), h1, h2]; rfl

theorem gt_iff_lt (h : CmpLaws cmp) (a b : α) : cmp a b = .gt ↔ cmp b a = .lt := by
  rw [h.swap a b]; cases cmp b a <;> simp [Ordering.swap]

theorem eq_comm (h : CmpLaws cmp) (a b : α) : cmp a b = .eq ↔ cmp b a = .eq := by
  rw [h.swap a b]; cases cmp b a <;> simp [Ordering.swap]

end CmpLaws

/-! `Ordering` helpers -/

theorem Ordering.then_eq_eq {a b : Ordering} : a.then b = .eq ↔ a = .eq ∧ b = .eq := by
  cases a <;> cases b <;> simp [Ordering.then]

theorem Ordering.swap_then (a b : Ordering) : (a.then b).swap = a.swap.then b.swap := by
  cases a <;> cases b <;> rfl

/-! ### integers and naturals -/

theorem cmpInt_lt {a b : Int} : cmpInt a b = .lt ↔ a < b := by
  unfold cmpInt
  by_cases h1 : a < b <;> by_cases h2 : a = b <;> simp [h1, h2] <;> omega
theorem cmpInt_eq {a b : Int} : cmpInt a b = .eq ↔ a = b := by
  unfold cmpInt
  by_cases h1 : a < b <;> by_cases h2 : a = b <;> simp [h1, h2] <;> omega
theorem cmpInt_gt {a b : Int} : cmpInt a b = .gt ↔ b < a := by
  unfold cmpInt
  by_cases h1 : a < b <;> by_cases h2 : a = b <;> simp [h1, h2] <;> omega
theorem cmpInt_ne_gt {a b : Int} : cmpInt a b ≠ .gt ↔ a ≤ b := by
  rw [Ne, cmpInt_gt]; omega

theorem cmpInt_laws : CmpLaws cmpInt where
  swap a b := by
    cases h : cmpInt b a
    · rw [cmpInt_lt] at h; simpa [Ordering.swap] using cmpInt_gt.2 h
    · rw [cmpInt_eq] at h; subst h; simp [Ordering.swap, cmpInt_eq.2 rfl]
    · rw [cmpInt_gt] at h; simpa [Ordering.swap] using cmpInt_lt.2 h
  trans a b c h1 h2 := by
    rw [cmpInt_ne_gt] at h1 h2
    unfold cmpInt
    by_cases e1 : a < b <;> by_cases e2 : b < c <;> by_cases e3 : a = b <;> by_cases e4 : b = c <;>
      by_cases e5 : a < c <;> by_cases e6 : a = c <;> simp_all [Ordering.then] <;> omega

theorem cmpNat_lt {a b : Nat} : cmpNat a b = .lt ↔ a < b := by
  unfold cmpNat
  by_cases h1 : a < b <;> by_cases h2 : a = b <;> simp [h1, h2] <;> omega
theorem cmpNat_eq {a b : Nat} : cmpNat a b = .eq ↔ a = b := by
  unfold cmpNat
  by_cases h1 : a < b <;> by_cases h2 : a = b <;> simp [h1, h2] <;> omega
theorem cmpNat_gt {a b : Nat} : cmpNat a b = .gt ↔ b < a := by
  unfold cmpNat
  by_cases h1 : a < b <;> by_cases h2 : a = b <;> simp [h1, h2] <;> omega
theorem cmpNat_ne_gt {a b : Nat} : cmpNat a b ≠ .gt ↔ a ≤ b := by
  rw [Ne, cmpNat_gt]; omega

theorem cmpNat_laws : CmpLaws cmpNat where
  swap a b := by
    cases h : cmpNat b a
    · rw [cmpNat_lt] at h; simpa [Ordering.swap] using cmpNat_gt.2 h
    · rw [cmpNat_eq] at h; subst h; simp [Ordering.swap, cmpNat_eq.2 rfl]
    · rw [cmpNat_gt] at h; simpa [Ordering.swap] using cmpNat_lt.2 h
  trans a b c h1 h2 := by
    rw [cmpNat_ne_gt] at h1 h2
    unfold cmpNat
    by_cases e1 : a < b <;> by_cases e2 : b < c <;> by_cases e3 : a = b <;> by_cases e4 : b = c <;>
      by_cases e5 : a < c <;> by_cases e6 : a = c <;> simp_all [Ordering.then] <;> omega

/-! ### booleans -/

theorem cmpBool_laws : CmpLaws cmpBool where
  swap a b := by cases a <;> cases b <;> rfl
  trans a b c := by cases a <;> cases b <;> cases c <;> simp [cmpBool, Ordering.then]

theorem cmpBool_eq {a b : Bool} : cmpBool a b = .eq ↔ a = b := by
  cases a <;> cases b <;> simp [cmpBool]

/-! ### byte strings -/

theorem cmpBytes_lt {a b : Bytes} : cmpBytes a b = .lt ↔ bytesLt a b = true := by
  unfold cmpBytes
  by_cases h1 : bytesLt a b = true <;> by_cases h2 : bytesLt b a = true <;> simp [h1, h2]

theorem cmpBytes_eq {a b : Bytes} : cmpBytes a b = .eq ↔ a = b := by
  unfold cmpBytes
  constructor
  · intro h
    by_cases h1 : bytesLt a b = true <;> by_cases h2 : bytesLt b a = true <;> simp [h1, h2] at h
    rcases bytesLt_total a b with h3 | h3 | h3 <;> simp_all
  · intro h; subst h; simp [bytesLt_irrefl]

theorem cmpBytes_gt {a b : Bytes} : cmpBytes a b = .gt ↔ bytesLt b a = true := by
  unfold cmpBytes
  constructor
  · intro h
    by_cases h1 : bytesLt a b = true <;> by_cases h2 : bytesLt b a = true <;> simp [h1, h2] at h
    exact h2
  · intro h
    have := bytesLt_asymm b a h
    simp [this, h]

theorem cmpBytes_laws : CmpLaws cmpBytes where
  swap a b := by
    cases h : cmpBytes b a
    · rw [cmpBytes_lt] at h; simpa [Ordering.swap] using cmpBytes_gt.2 h
    · rw [cmpBytes_eq] at h; subst h; simp [Ordering.swap, cmpBytes_eq.2 rfl]
    · rw [cmpBytes_gt] at h; simpa [Ordering.swap] using cmpBytes_lt.2 h
  trans a b c h1 h2 := by
    cases e1 : cmpBytes a b <;> cases e2 : cmpBytes b c <;> simp_all [Ordering.then]
    · rw [cmpBytes_lt] at *; exact bytesLt_trans a b c e1 e2
    · rw [cmpBytes_eq] at e2; subst e2; exact e1
    · rw [cmpBytes_eq] at e1; subst e1; exact e2
    · rw [cmpBytes_eq] at *; subst e1; exact e2

/-! ### lexicographic combination -/

/-- `(c1 on f).then (c2 on g)` is lawful when both parts are -/
theorem CmpLaws.lex {α β γ : Type} {c1 : β → β → Ordering} {c2 : γ → γ → Ordering}
    (h1 : CmpLaws c1) (h2 : CmpLaws c2) (f : α → β) (g : α → γ) :
    CmpLaws (fun x y => (c1 (f x) (f y)).then (c2 (g x) (g y))) where
  swap a b := by
    show _ = ((c1 (f b) (f a)).then (c2 (g b) (g a))).swap
    rw [Ordering.swap_then, ← h1.swap, ← h2.swap]
  trans a b c := by
    intro p q
    have s1 := h1.trans (f a) (f b) (f c)
    have s2 := h2.trans (g a) (g b) (g c)
    revert p q
    cases e1 : c1 (f a) (f b) <;> cases e2 : c1 (f b) (f c) <;> simp_all [Ordering.then] <;>
      cases e3 : c2 (g a) (g b) <;> cases e4 : c2 (g b) (g c) <;> simp_all

theorem cmpEKey_laws : CmpLaws cmpEKey := by
  have h := CmpLaws.lex (α := EKey) cmpNat_laws
    (CmpLaws.lex (α := EKey) cmpNat_laws cmpNat_laws (fun k => k.2.1) (fun k => k.2.2)) (fun k => k.1) id
  exact h

theorem cmpEKey_eq {a b : EKey} : cmpEKey a b = .eq ↔ a = b := by
  obtain ⟨a1, a2, a3⟩ := a
  obtain ⟨b1, b2, b3⟩ := b
  simp [cmpEKey, cmpNat_eq]

/-- lexicographic comparison of lists, a proper prefix is smaller (`Vec<T>::cmp`) -/
def lexList {α : Type} (c : α → α → Ordering) : List α → List α → Ordering
  | [], [] => .eq
  | [], _ :: _ => .lt
  | _ :: _, [] => .gt
  | a :: as, b :: bs => (c a b).then (lexList c as bs)

theorem lexList_laws {α : Type} {c : α → α → Ordering} (h : CmpLaws c) : CmpLaws (lexList c) where
  swap := by
    intro a
    induction a with
    | nil => intro b; cases b <;> rfl
    | cons x xs ih =>
      intro b
      cases b with
      | nil => rfl
      | cons y ys => simp only [lexList]; rw [Ordering.swap_then, ← h.swap, ← ih]
  trans := by
    intro a
    induction a with
    | nil => intro b c; cases b <;> cases c <;> simp [lexList, Ordering.then]
    | cons x xs ih =>
      intro b c
      cases b with
      | nil => simp [lexList]
      | cons y ys =>
        cases c with
        | nil => simp [lexList]
        | cons z zs =>
          simp only [lexList]
          intro p q
          have s1 := h.trans x y z
          have s2 := ih ys zs
          revert p q
          cases e1 : c x y <;> cases e2 : c y z <;> simp_all [Ordering.then] <;>
            cases e3 : lexList c xs ys <;> cases e4 : lexList c ys zs <;> simp_all

theorem lexList_eq {α : Type} {c : α → α → Ordering} (hc : ∀ a b, c a b = .eq ↔ a = b) :
    ∀ (a b : List α), lexList c a b = .eq ↔ a = b
  | [], [] => by simp [lexList]
  | [], _ :: _ => by simp [lexList]
  | _ :: _, [] => by simp [lexList]
  | x :: xs, y :: ys => by simp [lexList, hc, lexList_eq hc xs ys]

theorem cmpNatList_eq_lex : ∀ a b, cmpNatList a b = lexList cmpNat a b
  | [], [] => rfl
  | [], _ :: _ => rfl
  | _ :: _, [] => rfl
  | x :: xs, y :: ys => by simp [cmpNatList, lexList, cmpNatList_eq_lex xs ys]

theorem cmpEKeyList_eq_lex : ∀ a b, cmpEKeyList a b = lexList cmpEKey a b
  | [], [] => rfl
  | [], _ :: _ => rfl
  | _ :: _, [] => rfl
  | x :: xs, y :: ys => by simp [cmpEKeyList, lexList, cmpEKeyList_eq_lex xs ys]

theorem cmpNatList_laws : CmpLaws cmpNatList := by
  have : cmpNatList = lexList cmpNat := by funext a b; exact cmpNatList_eq_lex a b
  rw [this]; exact lexList_laws cmpNat_laws

theorem cmpEKeyList_laws : CmpLaws cmpEKeyList := by
  have : cmpEKeyList = lexList cmpEKey := by funext a b; exact cmpEKeyList_eq_lex a b
  rw [this]; exact lexList_laws cmpEKey_laws

theorem cmpNatList_eq {a b : List Nat} : cmpNatList a b = .eq ↔ a = b := by
  rw [cmpNatList_eq_lex]; exact lexList_eq (fun _ _ => cmpNat_eq) a b

theorem cmpEKeyList_eq {a b : List EKey} : cmpEKeyList a b = .eq ↔ a = b := by
  rw [cmpEKeyList_eq_lex]; exact lexList_eq (fun _ _ => cmpEKey_eq) a b

end Nervus
