/-
  Proofs/EngineProps.lean — the property overlay: the whole-map merge agrees with the single-key
  read on every key (model-internal; node and edge versions).
-/
import Nervus.Proofs.EngineReads
namespace Nervus.Storage

theorem lookup_append_of_none {κ ν} [BEq κ] (m : List (κ × ν)) (x : List (κ × ν)) (k : κ)
    (h : m.lookup k = none) : (m ++ x).lookup k = x.lookup k := by
  simp [List.lookup_append, h]

theorem lookup_append_of_some {κ ν} [BEq κ] (m : List (κ × ν)) (x : List (κ × ν)) (k : κ) (v : ν)
    (h : m.lookup k = some v) : (m ++ x).lookup k = some v := by
  simp [List.lookup_append, h]

/-- accumulator invariant of the merge loops: every key of `merged` is in `resolved` -/
def KeysIn (m : List (Nat × PV)) (res : List Nat) : Prop := ∀ k, k ∉ res → m.lookup k = none

theorem mergeStep_fold (ps : List (Nat × PV)) (m : List (Nat × PV)) (res : List Nat) (hk : KeysIn m res) (k : Nat) :
    let acc := ps.foldl mergeStep (m, res)
    (acc.1.lookup k = if k ∈ res then m.lookup k else ps.lookup k) ∧
    (k ∈ acc.2 ↔ k ∈ res ∨ (ps.lookup k).isSome) ∧ KeysIn acc.1 acc.2 := by
  induction ps generalizing m res with
  | nil => simp only [List.foldl_nil, List.lookup_nil, Option.isSome_none, Bool.false_eq_true, or_false, true_and]
           refine ⟨?_, hk⟩
           by_cases h : k ∈ res
           · simp [h]
           · simp [h, hk k h]
  | cons p ps ih =>
    obtain ⟨a, b⟩ := p
    simp only [List.foldl_cons]
    by_cases ha : res.contains a = true
    · -- already resolved: skipped
      have ha' : a ∈ res := by simpa using ha
      have hstep : mergeStep (m, res) (a, b) = (m, res) := by simp [mergeStep, ha']
      rw [hstep]
      have := ih m res hk
      refine ⟨?_, ?_, this.2.2⟩
      · rw [this.1]
        by_cases h : k ∈ res
        · simp [h]
        · have hne : (k == a) = false := by
            simp only [beq_eq_false_iff_ne, ne_eq]; intro h'; subst h'; exact h ha'
          simp [h, List.lookup, hne]
      · rw [this.2.1]
        by_cases hka : k = a
        · subst hka; simp [ha', List.lookup]
        · have hne : (k == a) = false := by simpa using hka
          simp [List.lookup, hne]
    · have ha' : a ∉ res := by simpa using ha
      have hstep : mergeStep (m, res) (a, b) = (m ++ [(a, b)], a :: res) := by
        simp [mergeStep, ha']
      rw [hstep]
      have hk' : KeysIn (m ++ [(a, b)]) (a :: res) := by
        intro k' hk'
        simp only [List.mem_cons, not_or] at hk'
        rw [lookup_append_of_none _ _ _ (hk k' hk'.2)]
        have : (k' == a) = false := by simpa using hk'.1
        simp [List.lookup, this]
      have := ih (m ++ [(a, b)]) (a :: res) hk'
      refine ⟨?_, ?_, this.2.2⟩
      · rw [this.1]
        by_cases hka : k = a
        · subst hka
          simp only [List.mem_cons, true_or, if_true, ha', if_false]
          rw [lookup_append_of_none _ _ _ (hk k ha')]
          simp [List.lookup]
        · have hne : (k == a) = false := by simpa using hka
          by_cases h : k ∈ res
          · simp only [List.mem_cons, hka, h, or_true, if_true, false_or]
            cases hm : m.lookup k with
            | none => rw [lookup_append_of_none _ _ _ hm]; simp [List.lookup, hne]
            | some v => rw [lookup_append_of_some _ _ _ _ hm]
          · simp [List.mem_cons, hka, h, List.lookup, hne]
      · rw [this.2.1]
        by_cases hka : k = a
        · subst hka; simp [List.lookup]
        · have hne : (k == a) = false := by simpa using hka
          simp [List.mem_cons, hka, List.lookup, hne]

theorem lookup_filter_map_node (l : List ((Nat × Nat) × PV)) (n k : Nat) :
    ((l.filter (·.1.1 == n)).map (fun p => (p.1.2, p.2))).lookup k = l.lookup (n, k) := by
  induction l with
  | nil => rfl
  | cons p ps ih =>
    obtain ⟨⟨a, b⟩, v⟩ := p
    simp only [List.filter_cons]
    by_cases han : a = n
    · subst han
      simp only [beq_self_eq_true, if_true, List.map_cons, List.lookup]
      by_cases hkb : k = b
      · subst hkb; simp
      · have h1 : (k == b) = false := by simpa using hkb
        have h2 : ((a, k) == (a, b)) = false := by simp [hkb]
        simp only [h1, h2]; exact ih
    · have h1 : (a == n) = false := by simpa using han
      have h2 : ((n, k) == (a, b)) = false := by
        simp only [beq_eq_false_iff_ne, ne_eq, Prod.mk.injEq, not_and]; intro h; exact absurd h.symm han
      simp only [h1, Bool.false_eq_true, if_false, List.lookup, h2]; exact ih

theorem mem_filter_map_node (l : List (Nat × Nat)) (n k : Nat) :
    k ∈ (l.filter (·.1 == n)).map (·.2) ↔ (n, k) ∈ l := by
  simp only [List.mem_map, List.mem_filter, beq_iff_eq]
  constructor
  · rintro ⟨⟨a, b⟩, ⟨h1, h2⟩, h3⟩; simp only at h2 h3; subst h2 h3; exact h1
  · intro h; exact ⟨(n, k), ⟨h, rfl⟩, rfl⟩

/-- whole-map merge vs single-key read, with accumulators -/
theorem mergeNProps_lookup (n : Nat) (runs : List Run) (m : List (Nat × PV)) (res : List Nat)
    (hk : KeysIn m res) (k : Nat) :
    (mergeNProps n runs m res).lookup k = if k ∈ res then m.lookup k else npropRuns n k runs := by
  induction runs generalizing m res with
  | nil =>
    simp only [mergeNProps, npropRuns]
    by_cases h : k ∈ res
    · simp [h]
    · simp [h, hk k h]
  | cons r rs ih =>
    simp only [mergeNProps]
    have hk1 : KeysIn m (res ++ (r.nDel.filter (·.1 == n)).map (·.2)) := by
      intro k' hk'; apply hk; intro h; exact hk' (List.mem_append_left _ h)
    have hs := mergeStep_fold ((r.nprops.filter (·.1.1 == n)).map (fun p => (p.1.2, p.2))) m _ hk1 k
    simp only at hs
    rw [ih _ _ hs.2.2, hs.1, lookup_filter_map_node]
    simp only [hs.2.1, lookup_filter_map_node, List.mem_append, mem_filter_map_node, npropRuns,
      List.contains_eq_mem, decide_eq_true_eq]
    by_cases h1 : k ∈ res
    · simp [h1]
    · by_cases h2 : (n, k) ∈ r.nDel
      · simp [h1, h2, hk k h1]
      · cases h3 : r.nprops.lookup (n, k) with
        | none => simp [h1, h2]
        | some v => simp [h1, h2]

/-- api.rs node_properties agrees with node_property on every key (run overlay) -/
theorem mergeNProps_eq_npropRuns (n : Nat) (runs : List Run) (k : Nat) :
    (mergeNProps n runs [] []).lookup k = npropRuns n k runs := by
  rw [mergeNProps_lookup n runs [] [] (fun _ _ => rfl) k]; simp

theorem lookup_filter_map_edge (l : List ((Edge × Nat) × PV)) (e : Edge) (k : Nat) :
    ((l.filter (·.1.1 == e)).map (fun p => (p.1.2, p.2))).lookup k = l.lookup (e, k) := by
  induction l with
  | nil => rfl
  | cons p ps ih =>
    obtain ⟨⟨a, b⟩, v⟩ := p
    simp only [List.filter_cons]
    by_cases han : a = e
    · subst han
      simp only [beq_self_eq_true, if_true, List.map_cons, List.lookup]
      by_cases hkb : k = b
      · subst hkb; simp
      · have h1 : (k == b) = false := by simpa using hkb
        have h2 : ((a, k) == (a, b)) = false := by simp [hkb]
        simp only [h1, h2]; exact ih
    · have h1 : (a == e) = false := by simpa using han
      have h2 : ((e, k) == (a, b)) = false := by
        simp only [beq_eq_false_iff_ne, ne_eq, Prod.mk.injEq, not_and]; intro h; exact absurd h.symm han
      simp only [h1, Bool.false_eq_true, if_false, List.lookup, h2]; exact ih

theorem mem_filter_map_edge (l : List (Edge × Nat)) (e : Edge) (k : Nat) :
    k ∈ (l.filter (·.1 == e)).map (·.2) ↔ (e, k) ∈ l := by
  simp only [List.mem_map, List.mem_filter, beq_iff_eq]
  constructor
  · rintro ⟨⟨a, b⟩, ⟨h1, h2⟩, h3⟩; simp only at h2 h3; subst h2 h3; exact h1
  · intro h; exact ⟨(e, k), ⟨h, rfl⟩, rfl⟩

theorem mergeEProps_lookup (e : Edge) (runs : List Run) (m : List (Nat × PV)) (res : List Nat)
    (hk : KeysIn m res) (k : Nat) :
    (mergeEProps e runs m res).lookup k = if k ∈ res then m.lookup k else epropRuns e k runs := by
  induction runs generalizing m res with
  | nil =>
    simp only [mergeEProps, epropRuns]
    by_cases h : k ∈ res
    · simp [h]
    · simp [h, hk k h]
  | cons r rs ih =>
    simp only [mergeEProps]
    have hk1 : KeysIn m (res ++ (r.eDel.filter (·.1 == e)).map (·.2)) := by
      intro k' hk'; apply hk; intro h; exact hk' (List.mem_append_left _ h)
    have hs := mergeStep_fold ((r.eprops.filter (·.1.1 == e)).map (fun p => (p.1.2, p.2))) m _ hk1 k
    simp only at hs
    rw [ih _ _ hs.2.2, hs.1, lookup_filter_map_edge]
    simp only [hs.2.1, lookup_filter_map_edge, List.mem_append, mem_filter_map_edge, epropRuns,
      List.contains_eq_mem, decide_eq_true_eq]
    by_cases h1 : k ∈ res
    · simp [h1]
    · by_cases h2 : (e, k) ∈ r.eDel
      · simp [h1, h2, hk k h1]
      · cases h3 : r.eprops.lookup (e, k) with
        | none => simp [h1, h2]
        | some v => simp [h1, h2]

theorem mergeEProps_eq_epropRuns (e : Edge) (runs : List Run) (k : Nat) :
    (mergeEProps e runs [] []).lookup k = epropRuns e k runs := by
  rw [mergeEProps_lookup e runs [] [] (fun _ _ => rfl) k]; simp

end Nervus.Storage
