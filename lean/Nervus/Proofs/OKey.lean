import Nervus.Proofs.BytesOrder
import Nervus.Spec.OrderedValue
namespace Nervus.OKey
open Nervus

theorem u8_pos_of_ne_zero {y : UInt8} (h : y ≠ 0) : (0 : UInt8) < y := by
  rw [UInt8.lt_iff_toNat_lt]
  have : y.toNat ≠ 0 := by
    intro h0; apply h; exact UInt8.toNat_inj.mp (by simpa using h0)
  simp; omega

theorem u8_not_lt_zero (y : UInt8) : ¬ y < 0 := by
  rw [UInt8.lt_iff_toNat_lt]; simp

theorem stuff_lt : ∀ (a b : Bytes), bytesLt a b = true → bytesLt (stuff a) (stuff b) = true
  | [], [], h => by simp [bytesLt] at h
  | [], y :: ys, _ => by
    by_cases hy : y = 0
    · subst hy; simp [stuff, bytesLt]
    · simp [stuff, hy, bytesLt, u8_pos_of_ne_zero hy]
  | _ :: _, [], h => by simp [bytesLt] at h
  | x :: xs, y :: ys, h => by
    simp only [bytesLt] at h
    by_cases hxy : x < y
    · have hy : y ≠ 0 := by intro h0; subst h0; exact u8_not_lt_zero _ hxy
      by_cases hx : x = 0
      · subst hx; simp [stuff, hy, bytesLt, hxy]
      · simp [stuff, hx, hy, bytesLt, hxy]
    · by_cases hyx : y < x
      · simp [hxy, hyx] at h
      · have : x = y := u8_eq_of_not_lt hxy hyx
        subst this
        simp only [hxy, if_false] at h
        have ih := stuff_lt xs ys h
        by_cases hx : x = 0
        · subst hx; simp [stuff, bytesLt, ih]
        · simp [stuff, hx, bytesLt, ih]

theorem stuff_inj (a b : Bytes) (h : stuff a = stuff b) : a = b := by
  rcases bytesLt_total a b with hlt | heq | hgt
  · have := stuff_lt a b hlt; rw [h, bytesLt_irrefl] at this; cases this
  · exact heq
  · have := stuff_lt b a hgt; rw [h, bytesLt_irrefl] at this; cases this

theorem stuff_not_prefix : ∀ (a b : Bytes), properPrefix (stuff a) (stuff b) = false
  | [], [] => by simp [stuff, properPrefix]
  | [], y :: ys => by
    by_cases hy : y = 0
    · subst hy; simp [stuff, properPrefix]
    · simp [stuff, hy, properPrefix]; intro h; exact absurd h.symm hy
  | x :: xs, [] => by
    by_cases hx : x = 0
    · subst hx; simp [stuff, properPrefix]
    · simp [stuff, hx, properPrefix]
  | x :: xs, y :: ys => by
    have ih := stuff_not_prefix xs ys
    by_cases hx : x = 0 <;> by_cases hy : y = 0
    · subst hx; subst hy; simp [stuff, properPrefix, ih]
    · subst hx; simp [stuff, hy, properPrefix]; intro h; exact absurd h.symm hy
    · subst hy; simp [stuff, hx, properPrefix]
    · simp [stuff, hx, hy, properPrefix, ih]

/-! integers -/
theorem signFlip_eq (i : Int) (h : I64.inRange i) : (signFlip i : Int) = i + 9223372036854775808 := by
  unfold signFlip toU64 two63 two64
  unfold I64.inRange at h
  omega

theorem signFlip_lt (i : Int) (h : I64.inRange i) : signFlip i < 256 ^ 8 := by
  have := signFlip_eq i h
  unfold I64.inRange at h
  have e : (256:Nat) ^ 8 = 18446744073709551616 := by decide
  omega

/-! floats -/
theorem floatSortable_lt (b : Nat) (h : b < two64) : floatSortable b < 256 ^ 8 := by
  have e : (256:Nat) ^ 8 = 18446744073709551616 := by decide
  unfold floatSortable two63 two64 at *
  split <;> omega

/-- with `-0.0` normalised, the sortable image is a strictly monotone function of `fkey` -/
theorem floatSortable_norm (b : Nat) (h : b < two64) (hn : Generated.okeyNormalisesNegZero = true) :
    (floatSortable (normZero b) : Int) =
      if fkey b < 0 then 9223372036854775807 + fkey b else 9223372036854775808 + fkey b := by
  unfold normZero floatSortable fkey fmag two63 two64 at *
  simp only [hn, Bool.true_and, beq_iff_eq]
  split <;> split <;> split <;> omega

theorem normZero_lt (b : Nat) (h : b < two64) : normZero b < two64 := by
  unfold normZero; split <;> simp_all [two64]

end Nervus.OKey
