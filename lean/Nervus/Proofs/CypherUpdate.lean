/-
  Helper lemmas and proofs for C12: MERGE idempotence (reference semantics and model), refinement of single
  update clauses, and the agreement relation used by the counterexample theorems.
-/
import Nervus.Spec.UpdateSem
import Nervus.Model.QUpdate
import Nervus.Model.UFindings
import Nervus.Proofs.CypherBase
namespace Nervus.Cy
open Nervus.Cy

/-! ### agreement of a model step with the reference result (graphs as sets of records) -/

def propsEqB (a b : Props) : Bool := a.all (b.contains ·) && b.all (a.contains ·)

def nodeEqB (a b : NodeRec) : Bool :=
  a.id == b.id && a.labels.all b.labels.contains && b.labels.all a.labels.contains && propsEqB a.props b.props

def relEqB (a b : RelRec) : Bool := a.id == b.id && a.mult == b.mult && propsEqB a.props b.props

def graphEqB (g h : Graph) : Bool :=
  g.nodes.length == h.nodes.length && g.nodes.all (fun n => h.nodes.any (nodeEqB n)) &&
  g.rels.length == h.rels.length && g.rels.all (fun e => h.rels.any (relEqB e))

def uAgreesB (m : Except Err (Graph × Nat × Nat × List String)) (s : Except Err (Graph × Nat × Counts)) : Bool :=
  match m, s with
  | .ok (g, _, c, _), .ok (g', _, c') => graphEqB (Update.live g) (Update.live g') && c == c'.total
  | .error e, .error e' => e == e'
  | _, _ => false

def UAgrees (m : Except Err (Graph × Nat × Nat × List String)) (s : Except Err (Graph × Nat × Counts)) : Prop :=
  uAgreesB m s = true

instance (m : Except Err (Graph × Nat × Nat × List String)) (s : Except Err (Graph × Nat × Counts)) :
    Decidable (UAgrees m s) := by unfold UAgrees; infer_instance

def NoKnownUTrigger (A : Algebra) (params : List (String × Val)) (g : Graph) (names : List String) (s : Stmt) : Bool :=
  (UFindings.triggers A params g names s).isEmpty

variable (A : Algebra) (params : List (String × Val))

/-! ### MERGE idempotence, reference semantics -/

theorem foldlM_const_ok {α σ ε} (f : σ → α → Except ε σ) (l : List α) (s : σ) (h : ∀ s a, f s a = .ok s) :
    l.foldlM f s = .ok s := by
  induction l generalizing s with
  | nil => rfl
  | cons x xs ih => simp only [List.foldlM_cons, h, bind, Except.bind]; exact ih s

theorem applySetItems_nil (g0 : Graph) (r : Row) (s : Spec.St) :
    Spec.applySetItems A params g0 r s [] = .ok s := rfl

/-- one row: if the pattern already matches in the current graph and there is no ON MATCH part, MERGE leaves the
    state (graph, id counter, counters) untouched and returns the matches -/
theorem mergeRow_matched (pat : PathPat) (onC : List SetItem) (s : Spec.St) (r : Row)
    (h : (Spec.matches_ A { g := s.g, params } r [pat]).isEmpty = false) :
    Spec.mergeRow A params pat onC [] s r = .ok (s, Spec.matches_ A { g := s.g, params } r [pat]) := by
  unfold Spec.mergeRow
  simp only [h, Bool.false_eq_true, ↓reduceIte, bind, Except.bind, pure, Except.pure]
  rw [foldlM_const_ok _ _ _ (fun s' r' => applySetItems_nil A params s'.g r' s')]

/-- **merge_idempotent (reference)**: a MERGE statement whose pattern has a match changes nothing and reports
    zero counts — whatever ON CREATE says -/
theorem merge_idempotent_spec (g : Graph) (next : Nat) (pat : PathPat) (onC : List SetItem)
    (h : Spec.matches_ A { g, params } [] [pat] ≠ []) :
    Spec.apply A params g next ⟨[], [.merge pat onC []]⟩ = .ok (g, next, {}) := by
  have he : (Spec.matches_ A { g, params } [] [pat]).isEmpty = false := by
    cases hm : Spec.matches_ A { g, params } [] [pat] with
    | nil => exact absurd hm h
    | cons _ _ => rfl
  have hrow := mergeRow_matched A params pat onC { g, next } [] he
  have hc : Spec.applyClause A params { g, next } [[]] (.merge pat onC []) =
      .ok ({ g, next }, Spec.matches_ A { g, params } [] [pat]) := by
    simp only [Spec.applyClause, Spec.forRows, List.foldlM_cons, List.foldlM_nil, bind, Except.bind, hrow, pure,
      Except.pure, List.nil_append]
  unfold Spec.apply
  have hp : Spec.prefixTable A params g [] = .ok [[]] := rfl
  rw [hp]
  simp only [bind, Except.bind, Spec.applyClauses, hc, pure, Except.pure]

/-! ### MERGE idempotence, model (single-node pattern) -/

theorem foldlM_keep {α β σ ε} (f : σ × List β → α → Except ε (σ × List β)) (l : List α) (s : σ) (acc : List β)
    (hf : ∀ acc n, ∃ x, f acc n = .ok (acc.1, acc.2 ++ [x])) :
    ∃ rows, l.foldlM f (s, acc) = .ok (s, rows) ∧ rows.length = acc.length + l.length := by
  induction l generalizing acc with
  | nil => exact ⟨acc, rfl, by simp⟩
  | cons n ns ih =>
    obtain ⟨x, hx⟩ := hf (s, acc) n
    obtain ⟨rows, h1, h2⟩ := ih (acc ++ [x])
    refine ⟨rows, ?_, by simp at h2 ⊢; omega⟩
    simp only [List.foldlM_cons, hx, bind, Except.bind]
    exact h1

theorem foldlM_keep0 {α β σ ε} (f : σ × List β → α → Except ε (σ × List β)) (l : List α) (s : σ)
    (hf : ∀ acc n, ∃ x, f acc n = .ok (acc.1, acc.2 ++ [x])) :
    ∃ rows, l.foldlM f (s, []) = .ok (s, rows) ∧ rows.length = l.length := by
  obtain ⟨rows, h1, h2⟩ := foldlM_keep f l s [] hf
  exact ⟨rows, h1, by simpa using h2⟩

theorem mergeApplySet_nil (g : Graph) (s : Update.St) (u : Update.URow) :
    Update.mergeApplySet A params g [] s u = .ok (s, u) := by
  simp only [Update.mergeApplySet, List.filterMap_nil, List.forIn_nil, bind, Except.bind, pure, Except.pure]

/-- the single-node MERGE of the model, when candidates exist and there is no ON MATCH part: no WriteableGraph
    call is issued, nothing is counted, no node id is consumed -/
theorem mergeRow_model_matched (g : Graph) (next : Nat) (np : NodePat) (onC : List SetItem) (s : Update.St)
    (u : Update.URow) (props : Props)
    (hp : Update.mergeProps A params g u np.props = .ok props)
    (hunbound : np.var.bind (Update.rowNode u.row) = none)
    (hc : Update.findCandidates g s np.labels props ≠ []) :
    ∃ rows, Update.mergeRow A params g next ⟨np, []⟩ onC [] s u = .ok (s, rows) ∧
      rows.length = (Update.findCandidates g s np.labels props).length := by
  have hne : (Update.findCandidates g s np.labels props).isEmpty = false := by
    cases hm : Update.findCandidates g s np.labels props with
    | nil => exact absurd hm hc
    | cons _ _ => rfl
  simp only [Update.mergeRow, hp, hunbound, bind, Except.bind, List.isEmpty_nil, ↓reduceIte, hne,
    Bool.false_eq_true]
  apply foldlM_keep0
  intro acc n
  simp only [mergeApplySet_nil]
  exact ⟨_, rfl⟩

/-! ### refinement of a single SET item on a node (one row, no row overlay yet) -/

theorem ev_noOverlay (g : Graph) (r : Row) (e : Expr) :
    Update.ev A params g ⟨r, []⟩ e = eval A { g, params } r e := by
  induction e with
  | lit l => rfl
  | var x =>
    cases hr : r.get x with
    | some v => simp [Update.ev, eval, hr]
    | none => cases hp : List.lookup x params <;> simp [Update.ev, eval, hr, hp]
  | prop x k => simp only [Update.ev, eval, List.lookup]
  | param p => cases hp : List.lookup p params <;> simp [Update.ev, eval, hp]
  | cmp op a b iha ihb => simp only [Update.ev, eval, iha, ihb]
  | bool op a b iha ihb => simp only [Update.ev, eval, iha, ihb]
  | not a ih => simp only [Update.ev, eval, ih]
  | isNull a ih => simp only [Update.ev, eval, ih]
  | isNotNull a ih => simp only [Update.ev, eval, ih]
  | hasLabel a l ih => simp only [Update.ev, eval, ih]
  | listLit xs => rfl

theorem updNode_congr (g : Graph) (n : Nat) (f1 f2 : NodeRec → NodeRec)
    (h : ∀ nd ∈ g.nodes, nd.id = n → f1 nd = f2 nd) : Spec.updNode g n f1 = Spec.updNode g n f2 := by
  unfold Spec.updNode
  congr 1
  apply List.map_congr_left
  intro nd hnd
  by_cases hid : nd.id = n
  · simp [hid, h nd hnd hid]
  · have : (nd.id == n) = false := by simpa using hid
    simp [this]

theorem propsOf_node_of_mem {g : Graph} (hg : g.nodes.Pairwise fun a b => a.id ≠ b.id) {nd : NodeRec}
    (hnd : nd ∈ g.nodes) : Spec.propsOf g (.node nd.id) = nd.props := by
  have : g.node? nd.id = some nd := find?_of_mem_distinct g.nodes hg hnd
  simp [Spec.propsOf, this]

/-- what the model's one call does at commit = what the reference SET does, for a non-null storable value -/
theorem set_prop_graph_eq (g : Graph) (hg : g.nodes.Pairwise fun a b => a.id ≠ b.id) (n : Nat) (k : String)
    (pv : Scalar) :
    Update.applyOp g (.setNodeProp n k pv) =
      Spec.setProps g (.node n) (Spec.setKey (Spec.propsOf g (.node n)) k pv) := by
  simp only [Update.applyOp, Spec.setProps]
  apply updNode_congr
  intro nd hnd hid
  subst hid
  rw [propsOf_node_of_mem hg hnd]

theorem remove_prop_graph_eq (g : Graph) (hg : g.nodes.Pairwise fun a b => a.id ≠ b.id) (n : Nat) (k : String) :
    Update.applyOp g (.removeNodeProp n k) =
      Spec.setProps g (.node n) (Spec.delKey (Spec.propsOf g (.node n)) k) := by
  simp only [Update.applyOp, Spec.setProps]
  apply updNode_congr
  intro nd hnd hid
  subst hid
  rw [propsOf_node_of_mem hg hnd]

/-- **update_refines (SET x.k = e, node target, storable non-null value)**: the model issues exactly one
    `set_node_property` call and counts 1; committing it yields the graph the reference semantics yields, with
    the same count -/
theorem update_refines_set_prop (g : Graph) (hg : g.nodes.Pairwise fun a b => a.id ≠ b.id) (next : Nat)
    (r : Row) (x k : String) (e : Expr) (n : Nat) (pv : Scalar)
    (hx : r.get x = some (.node n)) (hv : Update.toProp (eval A { g, params } r e) = .ok pv)
    (hnn : pv ≠ .null) :
    (∃ u', Update.setPropertyRow A params g [(x, k, e)] {} ⟨r, []⟩ =
        .ok ({ ops := [.setNodeProp n k pv], count := 1 }, u')) ∧
    Spec.setItem A params g r { g, next } (.prop x k e) =
      .ok { g := Update.applyOp g (.setNodeProp n k pv), next, c := { propsSet := 1 } } := by
  have hb : (pv == Scalar.null) = false := by simpa using hnn
  constructor
  · simp only [Update.setPropertyRow, List.forIn_cons, List.forIn_nil, ev_noOverlay, hv, bind, Except.bind, pure,
      Except.pure, Update.rowNode, hx, hb, Bool.false_eq_true, ↓reduceIte, List.nil_append, Nat.zero_add,
      Update.URow.ent, List.lookup]
    exact ⟨_, rfl⟩
  · have hs : (eval A { g, params } r e).toScalar? = some pv ∧ (∀ m, pv ≠ .node m) ∧ (∀ m, pv ≠ .rel m) := by
      cases hev : eval A { g, params } r e <;> simp [hev, Update.toProp] at hv <;> subst hv <;>
        simp [Val.toScalar?]
    obtain ⟨h1, h2, h3⟩ := hs
    have hw : Spec.writeProp (Spec.propsOf g (.node n)) k (eval A { g, params } r e) =
        .ok (Spec.setKey (Spec.propsOf g (.node n)) k pv, 1) := by
      unfold Spec.writeProp
      rw [h1]
      cases pv with
      | null => exact absurd rfl hnn
      | node m => exact absurd rfl (h2 m)
      | rel m => exact absurd rfl (h3 m)
      | bool b => rfl
      | int i => rfl
      | str s => rfl
    simp only [Spec.setItem, hx, Spec.target?, Spec.evalIn, hw, bind, Except.bind, pure, Except.pure,
      set_prop_graph_eq g hg n k pv]

end Nervus.Cy
