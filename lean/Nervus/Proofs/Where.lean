/-
  C19 helper lemmas: what `FilterIter` keeps of a list of rows under `p`, `NOT p`, `p IS NULL`,
  row by row, and the unlimited guard is the identity.   core-only.
-/
import Nervus.Proofs.Limits
namespace Nervus.PlanOps

section
variable {χ ρ ν ε κ α : Type}

theorem keep_nil (S : Sem χ ρ ν ε κ α) (Q : Quirks) (env : ρ) (p : χ) : keep S Q env p [] = .ok [] := rfl

theorem keep_cons (S : Sem χ ρ ν ε κ α) (Q : Quirks) (env : ρ) (p : χ) (r : ρ) (rows : List ρ) :
    keep S Q env p (r :: rows) =
      collect (filterRow S Q LimEnv.unlimited env p r ++
        (filterT S Q LimEnv.unlimited env p).run () (rows.map .ok)) := by
  simp [keep, filterT, Trans.run_cons, mapT]

theorem collect_append_ok (a b : Stream ε ρ) :
    collect (a ++ b) = (match collect a with
      | .error e => .error e
      | .ok xs => (match collect b with
        | .error e => .error e
        | .ok ys => .ok (xs ++ ys))) := by
  induction a with
  | nil => simp [collect]; cases collect b <;> rfl
  | cons x xs ih =>
    cases x with
    | error e => simp [collect]
    | ok r =>
      simp only [List.cons_append, collect, ih]
      cases collect xs with
      | error e => rfl
      | ok xs' => cases collect b <;> rfl

/-- the three answers for one more row, when the predicate's value has the class `c` -/
theorem keep_cons_of_truth (S : Sem χ ρ ν ε κ α) (Q : Quirks) (env : ρ) (p : χ) (r : ρ) (rows : List ρ)
    (v : ν) (hv : S.eval LimEnv.unlimited.coll p env r = .ok v)
    (hp : S.park LimEnv.unlimited.coll p env r = none) :
    keep S Q env p (r :: rows) =
      (match S.truth v with
       | .tt => (keep S Q env p rows).map (r :: ·)
       | .ff => keep S Q env p rows
       | .null => keep S Q env p rows
       | .other => if Q.filterNonBoolDrops then keep S Q env p rows else .error S.nonBool) := by
  rw [keep_cons, collect_append_ok]
  simp only [filterRow, hp, hv]
  cases S.truth v with
  | tt => simp only [collect]; unfold keep; cases collect _ <;> rfl
  | ff => simp only [collect]; unfold keep; cases collect _ <;> rfl
  | null => simp only [collect]; unfold keep; cases collect _ <;> rfl
  | other =>
    cases Q.filterNonBoolDrops with
    | true => simp only [if_true, collect]; unfold keep; cases collect _ <;> rfl
    | false => simp [collect]

theorem keep_cons_of_park (S : Sem χ ρ ν ε κ α) (Q : Quirks) (env : ρ) (p : χ) (r : ρ) (rows : List ρ)
    (e : ε) (hp : S.park LimEnv.unlimited.coll p env r = some e) :
    keep S Q env p (r :: rows) = .error e := by
  rw [keep_cons, collect_append_ok]
  simp [filterRow, hp, collect]

theorem keep_cons_of_error (S : Sem χ ρ ν ε κ α) (Q : Quirks) (env : ρ) (p : χ) (r : ρ) (rows : List ρ)
    (e : ε) (hv : S.eval LimEnv.unlimited.coll p env r = .error e) :
    ∃ e', keep S Q env p (r :: rows) = .error e' := by
  cases hp : S.park LimEnv.unlimited.coll p env r with
  | some e' => exact ⟨e', keep_cons_of_park S Q env p r rows e' hp⟩
  | none =>
    refine ⟨e, ?_⟩
    rw [keep_cons, collect_append_ok]
    simp [filterRow, hv, hp, collect]

theorem guardT_unlimited_step (site : Site) (st : GuardSt) (x : Except ε ρ) :
    (guardT LimEnv.unlimited site).step st x = (⟨st.calls + 1, false⟩, [x]) := by
  cases x <;> rfl

/-- the unlimited guard hands everything through -/
theorem guard_unlimited (site : Site) (s : Stream ε ρ) : guard LimEnv.unlimited site s = s := by
  have h : ∀ (n : Nat) (s : Stream ε ρ), (guardT LimEnv.unlimited site).run ⟨n, false⟩ s = s := by
    intro n s
    induction s generalizing n with
    | nil => rfl
    | cons x xs ih =>
      rw [Trans.run_cons, guardT_unlimited_step]
      have hd : (guardT (ρ := ρ) (LimEnv.unlimited (ε := ε)) site).done ⟨n, false⟩ = false := rfl
      rw [hd]
      simp [ih]
  show (match (LimEnv.unlimited (ε := ε)).time site 0 with
    | some e => [.error e]
    | none => (guardT LimEnv.unlimited site).run ⟨0, false⟩ s) = s
  exact h 0 s

theorem collect_eq_ok_iff (s : Stream ε ρ) (rows : List ρ) : collect s = .ok rows ↔ s = rows.map .ok := by
  induction s generalizing rows with
  | nil => cases rows <;> simp [collect]
  | cons x xs ih =>
    cases x with
    | error e => cases rows <;> simp [collect]
    | ok r =>
      simp only [collect]
      cases hc : collect xs with
      | error e =>
        constructor
        · intro h; cases h
        · intro h
          cases rows with
          | nil => simp at h
          | cons r' rs =>
            simp at h
            have := (ih rs).2 h.2
            rw [hc] at this; cases this
      | ok ys =>
        constructor
        · intro h
          injection h with h; subst h
          simp [(ih ys).1 hc]
        · intro h
          cases rows with
          | nil => simp at h
          | cons r' rs =>
            simp at h
            have := (ih rs).2 h.2
            rw [hc] at this
            injection this with this
            rw [h.1, this]

end

theorem fixupMerge_unlimited_site {χ ρ ν ε κ α : Type} (S : Sem χ ρ ν ε κ α) (site site' : Site)
    (nulls : List String) (filtered : List ρ) (os : List ρ) : ∀ (i n : Nat),
    fixupMerge S LimEnv.unlimited site nulls filtered i n os =
      fixupMerge S LimEnv.unlimited site' nulls filtered i n os := by
  induction os with
  | nil => intro i n; rfl
  | cons o os ih =>
    intro i n
    show (fixupMerge S LimEnv.unlimited site nulls filtered (i + 1) _ os).map _ =
      (fixupMerge S LimEnv.unlimited site' nulls filtered (i + 1) _ os).map _
    rw [ih]

/-- without limits, the stream of a node does not depend on where the node sits -/
theorem runL_unlimited_site {χ ρ ν ε κ α : Type} [DecidableEq κ] (S : Sem χ ρ ν ε κ α) (Q : Quirks)
    (p : Plan χ ρ ε α) : ∀ (site site' : Site) (env : ρ),
    runL S Q LimEnv.unlimited site env p = runL S Q LimEnv.unlimited site' env p := by
  induction p with
  | scan rows => intro site site' env; simp only [runL, guard_unlimited]
  | fail e => intro site site' env; simp only [runL, guard_unlimited]
  | arg => intro site site' env; simp only [runL, guard_unlimited]
  | indexSeek key value fb ih =>
    intro site site' env; simp only [runL, guard_unlimited]; rw [ih (.left site) (.left site')]
  | procedureCall name args inp ih =>
    intro site site' env; simp only [runL, guard_unlimited]; rw [ih (.left site) (.left site')]
  | fixup nulls outer filtered iho ihf =>
    intro site site' env; simp only [runL, guard_unlimited]
    rw [iho (.left site) (.left site'), ihf (.right site) (.right site')]
    simp only [fixupBody]
    have : ∀ fr os, fixupMerge S LimEnv.unlimited site nulls fr 0 0 os =
        fixupMerge S LimEnv.unlimited site' nulls fr 0 0 os :=
      fun fr os => fixupMerge_unlimited_site S site site' nulls fr os 0 0
    simp only [this]
    rfl
  | filter pred inp ih =>
    intro site site' env; simp only [runL, guard_unlimited]; rw [ih (.left site) (.left site')]
  | project projs inp ih =>
    intro site site' env; simp only [runL, guard_unlimited]; rw [ih (.left site) (.left site')]
  | distinct inp ih =>
    intro site site' env; simp only [runL, guard_unlimited]; rw [ih (.left site) (.left site')]
  | unwind e alias inp ih =>
    intro site site' env; simp only [runL, guard_unlimited]; rw [ih (.left site) (.left site')]; rfl
  | expand kind g inp ih =>
    intro site site' env; simp only [runL, guard_unlimited]; rw [ih (.left site) (.left site')]
  | skip n inp ih =>
    intro site site' env; simp only [runL, guard_unlimited]; rw [ih (.left site) (.left site')]
  | limit n inp ih =>
    intro site site' env; simp only [runL, guard_unlimited]; rw [ih (.left site) (.left site')]
  | orderBy keys inp ih =>
    intro site site' env; simp only [runL, guard_unlimited]; rw [ih (.left site) (.left site')]; rfl
  | aggregate groupBy aggs inp ih =>
    intro site site' env; simp only [runL, guard_unlimited]; rw [ih (.left site) (.left site')]; rfl
  | union all l r ihl ihr =>
    intro site site' env; simp only [runL, guard_unlimited]
    rw [ihl (.left site) (.left site'), ihr (.right site) (.right site')]
  | filterExists sub inp ihs ihi =>
    intro site site' env; simp only [runL, guard_unlimited]
    rw [ihi (.left site) (.left site')]
    have : (fun k r => existsRow Q r (runL S Q LimEnv.unlimited (.exec k site) (S.bind env r) sub)) =
        (fun k r => existsRow Q r (runL S Q LimEnv.unlimited (.exec k site') (S.bind env r) sub)) := by
      funext k r; rw [ihs (.exec k site) (.exec k site')]
    rw [this]
  | cartesian l r ihl ihr =>
    intro site site' env; simp only [runL, guard_unlimited]
    rw [ihl (.left site) (.left site')]
    have : (fun k lrow => (dropErrs (Q.dropsErr .cartesianRight) (runL S Q LimEnv.unlimited (.exec k site) env r)).map (joinItem S lrow)) =
        (fun k lrow => (dropErrs (Q.dropsErr .cartesianRight) (runL S Q LimEnv.unlimited (.exec k site') env r)).map (joinItem S lrow)) := by
      funext k lrow; rw [ihr (.exec k site) (.exec k site')]
    rw [this]
  | apply inp sub ihi ihs =>
    intro site site' env; simp only [runL, guard_unlimited]
    rw [ihi (.left site) (.left site')]
    have : (fun k r => applyRow S LimEnv.unlimited site k r (dropErrs (Q.dropsErr .applySub) (runL S Q LimEnv.unlimited (.exec k site) (S.bind env r) sub))) =
        (fun k r => applyRow S LimEnv.unlimited site' k r (dropErrs (Q.dropsErr .applySub) (runL S Q LimEnv.unlimited (.exec k site') (S.bind env r) sub))) := by
      funext k r; rw [ihs (.exec k site) (.exec k site')]; rfl
    show (dropErrT _ (flatMapT _)).run 0 _ = (dropErrT _ (flatMapT _)).run 0 _
    rw [this]

end Nervus.PlanOps
