/-
  Proofs/EngineStagedN.lean — per-operation simulation lemmas, part 4: `create_node` against `node`.
-/
import Nervus.Proofs.EngineStagedL
namespace Nervus.Storage
open Nervus.GraphSpec (Graph TxOp Op Rel)

theorem StagedL.created_lt {s0 g0 s t g} (hst : StagedL s0 g0 s t g) :
    ∀ c ∈ t.created, c.2.2 < g.next := by
  intro c hc
  obtain ⟨i, hi, hget⟩ := List.mem_iff_getElem.mp hc
  have := hst.ids i c (by rw [List.getElem?_eq_getElem hi, hget])
  rw [hst.next]; omega

theorem find_cons_fst (n : Nat) (a : Nat × Nat) (l : List (Nat × Nat)) :
    ((a :: l).find? (·.1 == n)).map (·.2) = if a.1 = n then some a.2 else (l.find? (·.1 == n)).map (·.2) := by
  rw [List.find?_cons]
  by_cases h : a.1 = n
  · simp [h]
  · have : (a.1 == n) = false := by simpa using h
    simp [h, this]

def labelsAfterNode (g : Graph) (lab : Option Nat) : List (Nat × Nat) :=
  match lab with
  | some l => (g.next, l) :: g.labels
  | none => g.labels

theorem step_node_eq (g : Graph) (x : Nat) (lab : Option Nat) (h4 : g.extLookup x = none) :
    g.step (.node x lab) =
      { g with next := g.next + 1, ext := (g.next, x) :: g.ext, labels := labelsAfterNode g lab } := by
  show (if (g.extLookup x).isSome then g else _) = _
  rw [h4]; rfl

theorem mem_labelsAfterNode (g : Graph) (lab : Option Nat) (p : Nat × Nat) :
    p ∈ labelsAfterNode g lab ↔ ((∃ l, lab = some l ∧ p = (g.next, l)) ∨ p ∈ g.labels) := by
  cases lab with
  | none => simp [labelsAfterNode]
  | some l => simp [labelsAfterNode, List.mem_cons]

/-- `create_node` with a fresh, non-zero external id against `node` -/
theorem StagedL.node {s0 g0 s t g} (hst : StagedL s0 g0 s t g) (h0 : SimL s0 g0) (hid : s.idmap = s0.idmap)
    (hn : s.interner.Nodup) {x lid : Nat} {lab : Option Nat}
    (hlid0 : (∃ l, lab = some l ∧ s.interner[lid]? = some l) ∨ (lab = none ∧ lid = labelMax))
    (hfresh : ∀ p ∈ g.ext, p.2 ≠ x) (hx0 : x ≠ 0) :
    ∃ t', t.createNode s x lid = some (t', g.next) ∧ t'.mt = t.mt ∧ t'.addL = t.addL ∧ t'.delL = t.delL ∧
      StagedL s0 g0 s t' (g.step (.node x lab)) := by
  have hlid : (match lab with | some l => s.interner[lid]? = some l | none => lid = labelMax) := by
    rcases hlid0 with ⟨l, rfl, h⟩ | ⟨rfl, h⟩ <;> exact h
  -- the model accepts the node
  have hsub0 : ∀ p ∈ g0.ext, p ∈ g.ext := by
    intro p hp; rw [hst.extEq]; exact List.mem_append_right _ hp
  have h1 : s.lookupInternal x = none := by
    unfold Engine.lookupInternal
    rw [hid, h0.e2i x]
    apply lookup_eq_none_of_not_mem_keys
    intro p hp
    obtain ⟨q, hq, rfl⟩ := List.mem_map.mp hp
    exact hfresh q (hsub0 q hq)
  have h2 : t.created.any (·.1 == x) = false := by
    rw [Bool.eq_false_iff]
    intro h
    obtain ⟨c, hc, hcx⟩ := List.any_eq_true.mp h
    have hm : (c.2.2, c.1) ∈ g.ext := by
      rw [hst.extEq]; apply List.mem_append_left
      rw [List.mem_reverse]; exact List.mem_map.mpr ⟨c, hc, rfl⟩
    exact hfresh _ hm (by simpa using hcx)
  have h3 : s.idmap.nextId + t.created.length = g.next := by
    unfold IdMap.nextId; rw [hid, h0.lenE, hst.next]
  -- the spec accepts the node
  have h4 : g.extLookup x = none := by
    unfold Graph.extLookup
    have : g.ext.find? (fun p => p.2 == x && !g.dead.contains p.1) = none := by
      apply List.find?_eq_none.mpr
      intro p hp
      have := hfresh p hp
      simp [this]
    rw [this]; rfl
  have hg' := step_node_eq g x lab h4
  refine ⟨{ t with created := t.created ++ [(x, lid, g.next)] }, ?_, rfl, rfl, rfl, ?_⟩
  · unfold Txn.createNode
    rw [h1, h2, h3]; rfl
  rw [hg']
  have hcl := hst.created_lt
  have hlabmem := mem_labelsAfterNode g lab
  refine { next := ?_, extEq := ?_, ids := ?_, extPt := ?_, extLt := ?_, extNZ := ?_, extND := ?_, extIdND := ?_, labels := ?_,
           labelsInt := ?_, labelsLt := ?_, addOK := ?_, delOK := ?_, createdLid := ?_, deadLt := ?_,
           small := hst.small }
  · show g.next + 1 = g0.next + (t.created ++ [(x, lid, g.next)]).length
    rw [List.length_append, hst.next]; simp; omega
  · show (g.next, x) :: g.ext = ((t.created ++ [(x, lid, g.next)]).map (fun c => (c.2.2, c.1))).reverse ++ g0.ext
    rw [List.map_append, List.reverse_append, hst.extEq]; rfl
  · intro i c hc
    have hc' : (t.created ++ [(x, lid, g.next)])[i]? = some c := hc
    by_cases hi : i < t.created.length
    · rw [List.getElem?_append_left hi] at hc'; exact hst.ids i c hc'
    · rw [List.getElem?_append_right (Nat.le_of_not_lt hi)] at hc'
      have hi0 : i - t.created.length = 0 := by
        by_cases h : i - t.created.length = 0
        · exact h
        · rw [List.getElem?_eq_none (by simp; omega)] at hc'; cases hc'
      rw [hi0] at hc'
      simp only [List.getElem?_cons_zero, Option.some.injEq] at hc'
      subst hc'
      simp only; rw [hst.next]; omega
  · intro n
    show (((g.next, x) :: g.ext).find? (·.1 == n)).map (·.2) =
      if n < g0.next then g0.extOf n else ((t.created ++ [(x, lid, g.next)])[n - g0.next]?).map (·.1)
    rw [find_cons_fst]
    have hpt := hst.extPt n
    unfold Graph.extOf at hpt
    by_cases hng : g.next = n
    · subst hng
      simp only [if_true]
      have : ¬ g.next < g0.next := by rw [hst.next]; omega
      rw [if_neg this]
      have : g.next - g0.next = t.created.length := by rw [hst.next]; omega
      rw [this, List.getElem?_append_right (Nat.le_refl _)]; simp
    · simp only [hng, if_false]
      rw [hpt]
      by_cases hlt : n < g0.next
      · simp only [hlt, if_true]; rfl
      · simp only [hlt, if_false]
        by_cases hi : n - g0.next < t.created.length
        · rw [List.getElem?_append_left hi]
        · have hne : n - g0.next ≠ t.created.length := by rw [hst.next] at hng; omega
          rw [List.getElem?_eq_none (Nat.le_of_not_lt hi), List.getElem?_eq_none]
          simp; omega
  · intro p hp
    have hp' : p ∈ (g.next, x) :: g.ext := hp
    rw [List.mem_cons] at hp'
    show p.1 < g.next + 1
    rcases hp' with h | h
    · rw [h]; simp
    · have := hst.extLt p h; omega
  · intro p hp
    have hp' : p ∈ (g.next, x) :: g.ext := hp
    rw [List.mem_cons] at hp'
    rcases hp' with h | h
    · rw [h]; exact hx0
    · exact hst.extNZ p h
  · show (((g.next, x) :: g.ext).map (·.2)).Nodup
    rw [List.map_cons, List.nodup_cons]
    refine ⟨?_, hst.extND⟩
    intro hm
    obtain ⟨q, hq, hqx⟩ := List.mem_map.mp hm
    exact hfresh q hq hqx
  · show (((g.next, x) :: g.ext).map (·.1)).Nodup
    rw [List.map_cons, List.nodup_cons]
    refine ⟨?_, hst.extIdND⟩
    intro hm
    obtain ⟨q, hq, hqx⟩ := List.mem_map.mp hm
    have := hst.extLt q hq
    simp only at hqx; omega
  · intro n lid' nm h hn' hd
    have hn'' : n < g.next + 1 := hn'
    have hd' : n ∉ g.dead := hd
    show (n, nm) ∈ labelsAfterNode g lab ↔
      (((n, nm) ∈ g0.labels ∨ (∃ x', (x', lid', n) ∈ t.created ++ [(x, lid, g.next)]) ∨ (n, lid') ∈ t.addL) ∧
        (n, lid') ∉ t.delL)
    rw [hlabmem]
    by_cases hng : n = g.next
    · have e1 : (n, nm) ∉ g.labels := fun h => by have := hst.labelsLt _ h; simp only at this; omega
      have e2 : (n, nm) ∉ g0.labels := fun h => by
        have := h0.labelsLt _ h; simp only at this; rw [hst.next] at hng; omega
      have e3 : (n, lid') ∉ t.addL := fun h => by have := (hst.addOK _ h).1; simp only at this; omega
      have e4 : (n, lid') ∉ t.delL := fun h => by have := (hst.delOK _ h).1; simp only at this; omega
      have e5 : (∃ x', (x', lid', n) ∈ t.created ++ [(x, lid, g.next)]) ↔ lid' = lid := by
        constructor
        · rintro ⟨x', hx'⟩
          rw [List.mem_append, List.mem_singleton] at hx'
          rcases hx' with h | h
          · have := hcl _ h; simp only at this; omega
          · injection h with _ h; injection h
        · intro h; subst h; rw [hng]; exact ⟨x, List.mem_append_right _ (List.mem_singleton.mpr rfl)⟩
      have hL : ((∃ l, lab = some l ∧ (n, nm) = (g.next, l)) ∨ (n, nm) ∈ g.labels) ↔ lab = some nm := by
        constructor
        · rintro (⟨l, hl, he⟩ | h)
          · injection he with _ he; rw [he]; exact hl
          · exact absurd h e1
        · intro h; exact Or.inl ⟨nm, h, by rw [hng]⟩
      have hR : ((((n, nm) ∈ g0.labels ∨ (∃ x', (x', lid', n) ∈ t.created ++ [(x, lid, g.next)]) ∨
          (n, lid') ∈ t.addL) ∧ (n, lid') ∉ t.delL)) ↔ lid' = lid := by
        constructor
        · rintro ⟨h | h | h, _⟩
          · exact absurd h e2
          · exact e5.mp h
          · exact absurd h e3
        · intro h; exact ⟨Or.inr (Or.inl (e5.mpr h)), e4⟩
      rw [hL, hR]
      cases lab with
      | none =>
        simp only at hlid
        constructor
        · intro hl; cases hl
        · intro h'; subst h'; subst hlid
          have := lt_of_getElem?_eq_some h; have := hst.small; omega
      | some l =>
        simp only at hlid
        constructor
        · intro hl'
          injection hl' with hl'; subst hl'
          exact name_inj _ hn _ _ _ h hlid
        · intro h'; subst h'
          rw [hlid] at h; injection h with h
          rw [h]
    · have hlt : n < g.next := by omega
      have hold := hst.labels n lid' nm h hlt hd'
      have e1 : ¬ (∃ l, lab = some l ∧ (n, nm) = (g.next, l)) := by
        rintro ⟨l, _, hl⟩; injection hl with hl _; exact hng hl
      have e5 : (∃ x', (x', lid', n) ∈ t.created ++ [(x, lid, g.next)]) ↔ (∃ x', (x', lid', n) ∈ t.created) := by
        constructor
        · rintro ⟨x', hx'⟩
          rw [List.mem_append, List.mem_singleton] at hx'
          rcases hx' with h | h
          · exact ⟨x', h⟩
          · injection h with _ h; injection h with _ h; exact absurd h hng
        · rintro ⟨x', hx'⟩; exact ⟨x', List.mem_append_left _ hx'⟩
      simp only [e1, false_or, e5]
      exact hold
  · intro p hp
    have hp' := (hlabmem p).mp hp
    rcases hp' with ⟨l, hl, rfl⟩ | h
    · subst hl; simp only at hlid; exact mem_of_getElem?_eq_some hlid
    · exact hst.labelsInt p h
  · intro p hp
    show p.1 < g.next + 1
    have hp' := (hlabmem p).mp hp
    rcases hp' with ⟨l, hl, rfl⟩ | h
    · simp
    · have := hst.labelsLt p h; omega
  · intro p hp
    show p.1 < g.next + 1 ∧ _
    have := hst.addOK p hp; exact ⟨by omega, this.2⟩
  · intro p hp
    show p.1 < g.next + 1 ∧ _
    have := hst.delOK p hp; exact ⟨by omega, this.2⟩
  · intro c hc
    have hc' : c ∈ t.created ++ [(x, lid, g.next)] := hc
    rw [List.mem_append, List.mem_singleton] at hc'
    rcases hc' with h | h
    · exact hst.createdLid c h
    · subst h
      cases lab with
      | none => left; exact hlid
      | some l => right; exact lt_of_getElem?_eq_some hlid
  · intro n' hn'
    show n' < g.next + 1
    have := hst.deadLt n' hn'; omega

end Nervus.Storage
