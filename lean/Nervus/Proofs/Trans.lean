/-
  Generic theorems about transducers (`Trans`): an operator that answers an `Err` input item with
  an `Err` first (`ErrFwd`) preserves errors (`ErrPreserved`), stops pulling at the first error
  (`StopsAtError`), and — given a step-wise relation between its limited and its unlimited version —
  maps `LimRel`-related inputs to `LimRel`-related outputs.   core-only.
-/
import Nervus.Proofs.Streams
namespace Nervus.PlanOps

section
variable {σ ε ρ : Type}

/-- the `next()` call that pulled an `Err` item returns an `Err` -/
def ErrFwd (t : Trans σ ε ρ) : Prop :=
  ∀ st e, t.done st = false → ∃ e' rest, (t.step st (.error e)).2 = .error e' :: rest

theorem Trans.run_nil (t : Trans σ ε ρ) (st : σ) : t.run st [] = if t.done st then [] else t.flush st := by
  simp [Trans.run]

theorem Trans.run_cons (t : Trans σ ε ρ) (st : σ) (x : Except ε ρ) (xs : Stream ε ρ) :
    t.run st (x :: xs) = if t.done st then [] else (t.step st x).2 ++ t.run (t.step st x).1 xs := by
  simp [Trans.run]

theorem Trans.run_done (t : Trans σ ε ρ) (st : σ) (s : Stream ε ρ) (h : t.done st = true) : t.run st s = [] := by
  cases s <;> simp [Trans.run, h]

theorem Trans.need_zero (t : Trans σ ε ρ) (st : σ) (s : Stream ε ρ) : t.need st s 0 = 0 := by
  cases s <;> simp [Trans.need]

theorem Trans.need_le (t : Trans σ ε ρ) (st : σ) (s : Stream ε ρ) (d : Nat) : t.need st s d ≤ s.length + 1 := by
  induction s generalizing st d with
  | nil => simp only [Trans.need]; split <;> simp
  | cons x xs ih =>
    simp only [Trans.need, List.length_cons]
    split
    · omega
    · split
      · omega
      · have := ih (t.step st x).1 (d - (t.step st x).2.length); omega

/-- the core of C22: if the `d` items handed out are all `Ok`, so are the input items pulled for them -/
theorem Trans.pulled_ok (t : Trans σ ε ρ) (hf : ErrFwd t) (st : σ) (s : Stream ε ρ) (d : Nat)
    (h : allOk ((t.run st s).take d) = true) : allOk (s.take (t.need st s d)) = true := by
  induction s generalizing st d with
  | nil => simp
  | cons x xs ih =>
    simp only [Trans.need]
    split
    · simp
    · rename_i hnd
      have hd0 : d ≠ 0 := fun h0 => hnd (Or.inl h0)
      have hdone : t.done st = false := by
        cases hdn : t.done st with
        | false => rfl
        | true => exact absurd (Or.inr hdn) hnd
      rw [Trans.run_cons, hdone] at h
      simp only [Bool.false_eq_true, if_false] at h
      -- the pulled item x is Ok: otherwise the head of the emission is an Err within the first d items
      have hx : Item.isOk x = true := by
        cases x with
        | ok r => rfl
        | error e =>
          obtain ⟨e', rest, he⟩ := hf st e hdone
          rw [he] at h
          obtain ⟨d', rfl⟩ := Nat.exists_eq_succ_of_ne_zero hd0
          simp [List.take_succ_cons] at h
      split
      · simp [List.take_succ_cons, hx]
      · rename_i hlen
        have hlen' : (t.step st x).2.length < d := by omega
        rw [List.take_append] at h
        simp only [allOk_append, Bool.and_eq_true] at h
        have := ih (t.step st x).1 (d - (t.step st x).2.length) h.2
        rw [Nat.add_comm, List.take_succ_cons]
        simp [hx, this]

/-- C22 per operator, in the words of the brief -/
theorem Trans.errPreserved (t : Trans σ ε ρ) (hf : ErrFwd t) : ErrPreserved t := by
  intro st s d hex
  have h1 : allOk (s.take (t.need st s d)) = false := (not_allOk_iff _).2 hex
  cases h2 : allOk ((t.run st s).take d) with
  | false => exact (not_allOk_iff _).1 h2
  | true => rw [t.pulled_ok hf st s d h2] at h1; cases h1

/-- C33 per operator: nothing is pulled beyond the first `Err` of the input when the consumer
    stops at the first `Err` it receives -/
theorem Trans.stopsAtError (t : Trans σ ε ρ) (hf : ErrFwd t) : StopsAtError t := by
  intro st pre e rest hpre
  induction pre generalizing st with
  | nil =>
    simp only [List.nil_append, Trans.need, List.length_nil]
    split
    · omega
    · rename_i hnd
      have hdone : t.done st = false := by
        cases hdn : t.done st with
        | false => rfl
        | true => exact absurd (Or.inr hdn) hnd
      obtain ⟨e', r', he⟩ := hf st e hdone
      have hd : driverDemand (t.run st (.error e :: rest)) = 1 := by
        rw [Trans.run_cons, hdone]; simp [he, driverDemand, collectDemand]
      rw [hd, he]; simp
  | cons x xs ih =>
    simp only [allOk_cons, Bool.and_eq_true] at hpre
    simp only [List.cons_append, Trans.need, List.length_cons]
    split
    · omega
    · rename_i hnd
      have hdone : t.done st = false := by
        cases hdn : t.done st with
        | false => rfl
        | true => exact absurd (Or.inr hdn) hnd
      split
      · omega
      · rename_i hlen
        rw [Trans.run_cons, hdone] at hlen ⊢
        simp only [Bool.false_eq_true, if_false] at hlen ⊢
        cases ho : allOk (t.step st x).2 with
        | false =>
          exact absurd (driverDemand_of_not_allOk_le _ _ ho) hlen
        | true =>
          rw [driverDemand_append_of_allOk _ _ ho, Nat.add_sub_cancel_left]
          have := ih (t.step st x).1 hpre.2
          omega

end

/-! ### limited vs unlimited version of an operator -/

section
variable {σL σU ε ρ : Type}

/-- step-wise relation between the limited (`tL`) and the unlimited (`tU`) version of an operator,
    over related states (`sim`): emissions are `LimRel`-related, an error-free limited emission is THE
    unlimited emission (and leads to related states), and an `Err` item is answered with an `Err` first -/
structure StepRel (isLimit : ε → Bool) (sim : σL → σU → Prop) (tL : Trans σL ε ρ) (tU : Trans σU ε ρ) : Prop where
  done : ∀ a b, sim a b → tL.done a = tU.done b
  /-- either the emissions are related (and an error-free limited emission is the unlimited one,
      leading to related states), or the limited side stops with an error that the unlimited side,
      having emitted the same error-free items, owes as its very next item whatever input follows -/
  step : ∀ a b x, sim a b →
    (LimRel isLimit (tL.step a x).2 (tU.step b x).2 ∧
      (allOk (tL.step a x).2 = true → (tL.step a x).2 = (tU.step b x).2 ∧ sim (tL.step a x).1 (tU.step b x).1)) ∨
    (∃ P e rest, (tL.step a x).2 = P ++ .error e :: rest ∧ allOk P = true ∧ (tU.step b x).2 = P ∧
      ∀ xs, cut (tU.run (tU.step b x).1 xs) = [.error e]) ∨
    -- or the limited side emits nothing now and owes an error: a limit error, or the error the
    -- unlimited side emits first with this step
    ((tL.step a x).2 = [] ∧ ∃ e, (∀ xs, cut (tL.run (tL.step a x).1 xs) = [.error e]) ∧
      (isLimit e = true ∨ ∃ rest, (tU.step b x).2 = .error e :: rest))
  flush : ∀ a b, sim a b → LimRel isLimit (tL.flush a) (tU.flush b)
  /-- an `Err` item is answered with an `Err` first: the same error, a limit error, or an error the
      unlimited side owes as its next item anyway -/
  fwd : ∀ a b e, sim a b → tL.done a = false → ∃ e' rest, (tL.step a (.error e)).2 = .error e' :: rest ∧
    (e' = e ∨ isLimit e' = true ∨ ∀ xs, cut (tU.run b xs) = [.error e'])

theorem LimRel.of_owes (isLimit : ε → Bool) (P : Stream ε ρ) (e : ε) (rest x u : Stream ε ρ)
    (hP : allOk P = true) (hu : cut u = [.error e]) :
    LimRel isLimit (P ++ .error e :: rest ++ x) (P ++ u) := by
  left
  rw [List.append_assoc, cut_append_of_allOk _ _ hP, cut_append_of_allOk _ _ hP, hu]
  rfl

/-- lockstep over a common input prefix -/
theorem StepRel.lockstep {isLimit : ε → Bool} {sim : σL → σU → Prop} {tL : Trans σL ε ρ} {tU : Trans σU ε ρ}
    (h : StepRel isLimit sim tL tU) (P : Stream ε ρ) (a : σL) (b : σU) (hab : sim a b) (ta tb : Stream ε ρ)
    (k : ∀ a' b', sim a' b' → LimRel isLimit (tL.run a' ta) (tU.run b' tb)) :
    LimRel isLimit (tL.run a (P ++ ta)) (tU.run b (P ++ tb)) := by
  induction P generalizing a b with
  | nil => exact k a b hab
  | cons x xs ih =>
    simp only [List.cons_append, Trans.run_cons, ← h.done a b hab]
    cases hd : tL.done a with
    | true => exact .refl _ _
    | false =>
      simp only [Bool.false_eq_true, if_false]
      rcases h.step a b x hab with ⟨hrel, heq⟩ | ⟨P, e, rest, hL, hP, hU, howe⟩ | ⟨hL, e, howe, hle⟩
      · cases ho : allOk (tL.step a x).2 with
        | true =>
          obtain ⟨he, hs⟩ := heq ho
          rw [← he]
          exact LimRel.append_left _ _ _ _ (ih _ _ hs)
        | false => exact LimRel.append_of_err _ _ _ _ _ hrel ho
      · rw [hL, hU]
        exact LimRel.of_owes isLimit P e rest _ _ hP (howe _)
      · rw [hL, List.nil_append]
        rcases hle with hl | ⟨rest, hU⟩
        · exact Or.inr ⟨[], e, howe _, hl, ⟨_, rfl⟩⟩
        · left; rw [howe, hU]; rfl

/-- the operator maps `LimRel`-related inputs to `LimRel`-related outputs -/
theorem StepRel.run {isLimit : ε → Bool} {sim : σL → σU → Prop} {tL : Trans σL ε ρ} {tU : Trans σU ε ρ}
    (h : StepRel isLimit sim tL tU) (a : σL) (b : σU) (hab : sim a b) (sa sb : Stream ε ρ)
    (hs : LimRel isLimit sa sb) : LimRel isLimit (tL.run a sa) (tU.run b sb) := by
  rcases hs with hc | ⟨pre, e, hc, hl, hp⟩
  · rcases of_cut_eq sa sb hc with ⟨rfl, _⟩ | ⟨pre, e, ta, tb, _, rfl, rfl⟩
    · have := h.lockstep sa a b hab [] [] (fun a' b' hab' => by
        simp only [Trans.run_nil, ← h.done a' b' hab']
        cases tL.done a' with
        | true => exact .refl _ _
        | false => exact h.flush a' b' hab')
      simpa using this
    · refine h.lockstep pre a b hab _ _ (fun a' b' hab' => ?_)
      simp only [Trans.run_cons, ← h.done a' b' hab']
      cases hd : tL.done a' with
      | true => exact .refl _ _
      | false =>
        simp only [Bool.false_eq_true, if_false]
        obtain ⟨e', r', he, _⟩ := h.fwd a' b' e hab' hd
        rcases h.step a' b' (.error e) hab' with ⟨hrel, _⟩ | ⟨P, e2, rest, hL, hP, hU, howe⟩ | ⟨hL, _⟩
        · exact LimRel.append_of_err _ _ _ _ _ hrel (by rw [he]; simp)
        · rw [hL, hU]
          exact LimRel.of_owes isLimit P e2 rest _ _ hP (howe _)
        · rw [he] at hL; cases hL
  · obtain ⟨_, ta, rfl⟩ := of_cut_eq_append_error sa pre e hc
    obtain ⟨tb, rfl⟩ := hp
    refine h.lockstep pre a b hab _ _ (fun a' b' hab' => ?_)
    rw [Trans.run_cons]
    cases hd : tL.done a' with
    | true =>
      rw [Trans.run_done tU b' tb (by rw [← h.done a' b' hab']; exact hd)]
      exact .refl _ _
    | false =>
      simp only [Bool.false_eq_true, if_false]
      obtain ⟨e', r', he, hle⟩ := h.fwd a' b' e hab' hd
      rw [he]
      rcases hle with rfl | h' | howe
      · exact LimRel.of_stop isLimit [] _ _ _ hl ⟨_, rfl⟩
      · exact LimRel.of_stop isLimit [] e' _ _ h' ⟨_, rfl⟩
      · have := LimRel.of_owes isLimit [] e' r' (tL.run (tL.step a' (.error e)).1 ta) (tU.run b' tb) rfl (howe tb)
        simpa using this

end

/-! the simple form: same state type, states stay EQUAL while the limited emission is error-free -/

section
variable {σ ε ρ : Type}

structure StepRelCore (isLimit : ε → Bool) (tL tU : Trans σ ε ρ) : Prop where
  done : ∀ st, tL.done st = tU.done st
  step : ∀ st x, LimRel isLimit (tL.step st x).2 (tU.step st x).2 ∧
    (allOk (tL.step st x).2 = true → tL.step st x = tU.step st x)
  fwd : ∀ st e, tL.done st = false → ∃ e' rest, (tL.step st (.error e)).2 = .error e' :: rest ∧
    (e' = e ∨ isLimit e' = true)

structure StepRel0 (isLimit : ε → Bool) (tL tU : Trans σ ε ρ) : Prop extends StepRelCore isLimit tL tU where
  flush : ∀ st, LimRel isLimit (tL.flush st) (tU.flush st)

theorem StepRel0.toStepRel {isLimit : ε → Bool} {tL tU : Trans σ ε ρ} (h : StepRel0 isLimit tL tU) :
    StepRel isLimit Eq tL tU where
  done a b hab := by subst hab; exact h.done a
  step a b x hab := by
    subst hab
    obtain ⟨hrel, heq⟩ := h.step a x
    exact Or.inl ⟨hrel, fun ho => by rw [heq ho]; exact ⟨rfl, rfl⟩⟩
  flush a b hab := by subst hab; exact h.flush a
  fwd a b e hab hd := by
    subst hab
    obtain ⟨e', rest, he, hl⟩ := h.fwd a e hd
    exact ⟨e', rest, he, hl.elim Or.inl (fun x => Or.inr (Or.inl x))⟩

theorem StepRel0.run {isLimit : ε → Bool} {tL tU : Trans σ ε ρ} (h : StepRel0 isLimit tL tU)
    (st : σ) (a b : Stream ε ρ) (hab : LimRel isLimit a b) :
    LimRel isLimit (tL.run st a) (tU.run st b) :=
  h.toStepRel.run st st rfl a b hab

end

end Nervus.PlanOps
