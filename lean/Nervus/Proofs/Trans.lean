/-
  Generic theorems about transducers (`Trans`): an operator that answers an `Err` input item with
  an `Err` first (`ErrFwd`) preserves errors (`ErrPreserved`), stops pulling at the first error
  (`StopsAtError`), and — given a step-wise relation between its limited and its unlimited version —
  maps `LimRel`-related inputs to `LimRel`-related outputs.   core-only.
-/
import Nervus.Proofs.Streams
namespace Nervus.PlanOps

section
variable {σ ε ρ : Type}

/-- the `next()` call that pulled an `Err` item returns an `Err` -/
def ErrFwd (t : Trans σ ε ρ) : Prop :=
  ∀ st e, t.done st = false → ∃ e' rest, (t.step st (.error e)).2 = .error e' :: rest

theorem Trans.run_nil (t : Trans σ ε ρ) (st : σ) : t.run st [] = if t.done st then [] else t.flush st := by
  simp [Trans.run]

theorem Trans.run_cons (t : Trans σ ε ρ) (st : σ) (x : Except ε ρ) (xs : Stream ε ρ) :
    t.run st (x :: xs) = if t.done st then [] else (t.step st x).2 ++ t.run (t.step st x).1 xs := by
  simp [Trans.run]

theorem Trans.run_done (t : Trans σ ε ρ) (st : σ) (s : Stream ε ρ) (h : t.done st = true) : t.run st s = [] := by
  cases s <;> simp [Trans.run, h]

theorem Trans.need_zero (t : Trans σ ε ρ) (st : σ) (s : Stream ε ρ) : t.need st s 0 = 0 := by
  cases s <;> simp [Trans.need]

theorem Trans.need_le (t : Trans σ ε ρ) (st : σ) (s : Stream ε ρ) (d : Nat) : t.need st s d ≤ s.length + 1 := by
  induction s generalizing st d with
  | nil => simp only [Trans.need]; split <;> simp
  | cons x xs ih =>
    simp only [Trans.need, List.length_cons]
    split
    · omega
    · split
      · omega
      · have := ih (t.step st x).1 (d - (t.step st x).2.length); omega

/-- the core of C22: if the `d` items handed out are all `Ok`, so are the input items pulled for them -/
theorem Trans.pulled_ok (t : Trans σ ε ρ) (hf : ErrFwd t) (st : σ) (s : Stream ε ρ) (d : Nat)
    (h : allOk ((t.run st s).take d) = true) : allOk (s.take (t.need st s d)) = true := by
  induction s generalizing st d with
  | nil => simp
  | cons x xs ih =>
    simp only [Trans.need]
    split
    · simp
    · rename_i hnd
      have hd0 : d ≠ 0 := fun h0 => hnd (Or.inl h0)
      have hdone : t.done st = false := by
        cases hdn : t.done st with
        | false => rfl
        | true => exact absurd (Or.inr hdn) hnd
      rw [Trans.run_cons, hdone] at h
      simp only [Bool.false_eq_true, if_false] at h
      -- the pulled item x is Ok: otherwise the head of the emission is an Err within the first d items
      have hx : Item.isOk x = true := by
        cases x with
        | ok r => rfl
        | error e =>
          obtain ⟨e', rest, he⟩ := hf st e hdone
          rw [he] at h
          obtain ⟨d', rfl⟩ := Nat.exists_eq_succ_of_ne_zero hd0
          simp [List.take_succ_cons] at h
      split
      · simp [List.take_succ_cons, hx]
      · rename_i hlen
        have hlen' : (t.step st x).2.length < d := by omega
        rw [List.take_append] at h
        simp only [allOk_append, Bool.and_eq_true] at h
        have := ih (t.step st x).1 (d - (t.step st x).2.length) h.2
        rw [Nat.add_comm, List.take_succ_cons]
        simp [hx, this]

/-- C22 per operator, in the words of the brief -/
theorem Trans.errPreserved (t : Trans σ ε ρ) (hf : ErrFwd t) : ErrPreserved t := by
  intro st s d hex
  have h1 : allOk (s.take (t.need st s d)) = false := (not_allOk_iff _).2 hex
  cases h2 : allOk ((t.run st s).take d) with
  | false => exact (not_allOk_iff _).1 h2
  | true => rw [t.pulled_ok hf st s d h2] at h1; cases h1

/-- C33 per operator: nothing is pulled beyond the first `Err` of the input when the consumer
    stops at the first `Err` it receives -/
theorem Trans.stopsAtError (t : Trans σ ε ρ) (hf : ErrFwd t) : StopsAtError t := by
  intro st pre e rest hpre
  induction pre generalizing st with
  | nil =>
    simp only [List.nil_append, Trans.need, List.length_nil]
    split
    · omega
    · rename_i hnd
      have hdone : t.done st = false := by
        cases hdn : t.done st with
        | false => rfl
        | true => exact absurd (Or.inr hdn) hnd
      obtain ⟨e', r', he⟩ := hf st e hdone
      have hd : driverDemand (t.run st (.error e :: rest)) = 1 := by
        rw [Trans.run_cons, hdone]; simp [he, driverDemand, collectDemand]
      rw [hd, he]; simp
  | cons x xs ih =>
    simp only [allOk_cons, Bool.and_eq_true] at hpre
    simp only [List.cons_append, Trans.need, List.length_cons]
    split
    · omega
    · rename_i hnd
      have hdone : t.done st = false := by
        cases hdn : t.done st with
        | false => rfl
        | true => exact absurd (Or.inr hdn) hnd
      split
      · omega
      · rename_i hlen
        rw [Trans.run_cons, hdone] at hlen ⊢
        simp only [Bool.false_eq_true, if_false] at hlen ⊢
        cases ho : allOk (t.step st x).2 with
        | false =>
          exact absurd (driverDemand_of_not_allOk_le _ _ ho) hlen
        | true =>
          rw [driverDemand_append_of_allOk _ _ ho, Nat.add_sub_cancel_left]
          have := ih (t.step st x).1 hpre.2
          omega

end

/-! ### limited vs unlimited version of an operator -/

section
variable {σ ε ρ : Type}

/-- step-wise relation between the limited (`tL`) and the unlimited (`tU`) version of an operator:
    emissions are `LimRel`-related, an error-free limited emission is THE unlimited emission (and
    leads to the same state), and an `Err` item is answered with an `Err` first -/
structure StepRel (isLimit : ε → Bool) (tL tU : Trans σ ε ρ) : Prop where
  done : ∀ st, tL.done st = tU.done st
  step : ∀ st x, LimRel isLimit (tL.step st x).2 (tU.step st x).2 ∧
    (allOk (tL.step st x).2 = true → tL.step st x = tU.step st x)
  flush : ∀ st, LimRel isLimit (tL.flush st) (tU.flush st)
  fwd : ∀ st e, tL.done st = false → ∃ e' rest, (tL.step st (.error e)).2 = .error e' :: rest ∧
    (e' = e ∨ isLimit e' = true)

/-- lockstep over a common input prefix -/
theorem StepRel.lockstep {isLimit : ε → Bool} {tL tU : Trans σ ε ρ} (h : StepRel isLimit tL tU)
    (P : Stream ε ρ) (st : σ) (ta tb : Stream ε ρ)
    (k : ∀ st', LimRel isLimit (tL.run st' ta) (tU.run st' tb)) :
    LimRel isLimit (tL.run st (P ++ ta)) (tU.run st (P ++ tb)) := by
  induction P generalizing st with
  | nil => exact k st
  | cons x xs ih =>
    simp only [List.cons_append, Trans.run_cons, ← h.done st]
    cases hd : tL.done st with
    | true => exact .refl _ _
    | false =>
      simp only [Bool.false_eq_true, if_false]
      obtain ⟨hrel, heq⟩ := h.step st x
      cases ho : allOk (tL.step st x).2 with
      | true =>
        rw [← heq ho]
        exact LimRel.append_left _ _ _ _ (ih _)
      | false => exact LimRel.append_of_err _ _ _ _ _ hrel ho

/-- the operator maps `LimRel`-related inputs to `LimRel`-related outputs -/
theorem StepRel.run {isLimit : ε → Bool} {tL tU : Trans σ ε ρ} (h : StepRel isLimit tL tU)
    (st : σ) (a b : Stream ε ρ) (hab : LimRel isLimit a b) :
    LimRel isLimit (tL.run st a) (tU.run st b) := by
  rcases hab with hc | ⟨pre, e, hc, hl, hp⟩
  · rcases of_cut_eq a b hc with ⟨rfl, _⟩ | ⟨pre, e, ta, tb, _, rfl, rfl⟩
    · -- the same error-free input: lockstep to the end, then the flushes
      have := h.lockstep a st [] [] (fun st' => by
        simp only [Trans.run_nil, ← h.done st']
        cases tL.done st' with
        | true => exact .refl _ _
        | false => exact h.flush st')
      simpa using this
    · -- common prefix through the same first error
      refine h.lockstep pre st _ _ (fun st' => ?_)
      simp only [Trans.run_cons, ← h.done st']
      cases hd : tL.done st' with
      | true => exact .refl _ _
      | false =>
        simp only [Bool.false_eq_true, if_false]
        obtain ⟨hrel, _⟩ := h.step st' (.error e)
        obtain ⟨e', r', he, _⟩ := h.fwd st' e hd
        exact LimRel.append_of_err _ _ _ _ _ hrel (by rw [he]; simp)
  · -- the limited input ends (for its consumer) with a limit error after a prefix of the unlimited one
    obtain ⟨_, ta, rfl⟩ := of_cut_eq_append_error a pre e hc
    obtain ⟨tb, rfl⟩ := hp
    refine h.lockstep pre st _ _ (fun st' => ?_)
    rw [Trans.run_cons]
    cases hd : tL.done st' with
    | true =>
      rw [Trans.run_done tU st' tb (by rw [← h.done st']; exact hd)]
      exact .refl _ _
    | false =>
      simp only [Bool.false_eq_true, if_false]
      obtain ⟨e', r', he, hle⟩ := h.fwd st' e hd
      rw [he]
      have hl' : isLimit e' = true := by
        rcases hle with rfl | h'
        · exact hl
        · exact h'
      exact LimRel.of_stop isLimit [] e' _ _ hl' ⟨_, rfl⟩

end

end Nervus.PlanOps
