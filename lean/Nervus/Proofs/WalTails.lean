/-
  The tails named by C17 contain no completely written record at their head: a torn frame, zero fill,
  a bad checksum, an oversized length field (tolerant reader) — `next_record` answers end-of-log on each.
-/
import Nervus.Proofs.WalLog
namespace Nervus.WalFrame
open Nervus Nervus.PropVal Nervus.WalRec

theorem readAll_of_eof {cfg : Cfg} {t : Bytes} (h : nextRecord cfg t = .eof) : readAll cfg t = ([], .eof t) := by
  rw [readAll_unfold, h]

/-- fewer than 8 bytes are never a record -/
theorem nextRecord_short {cfg : Cfg} (ho : cfg.oversizeIsEof = true) {t : Bytes} (h : t.length < 8) :
    nextRecord cfg t = .eof := by
  simp [nextRecord, ho, h]

/-- a length field above the cap ends the log -/
theorem nextRecord_oversize {cfg : Cfg} (ho : cfg.oversizeIsEof = true) {t : Bytes}
    (h : leVal (t.take 4) > cfg.maxLen) : nextRecord cfg t = .eof := by
  simp [nextRecord, ho, h]

/-- a frame cut anywhere before its end is not a record -/
theorem nextRecord_torn {cfg : Cfg} (ho : cfg.oversizeIsEof = true) (body : Bytes) (hb : body.length < two32)
    (k : Nat) (hk : k < 8 + body.length) : nextRecord cfg ((frame body).take k) = .eof := by
  by_cases h8 : k < 8
  · exact nextRecord_short ho (by simp [List.length_take]; omega)
  · have hl : ((frame body).take k).length = k := by simp [List.length_take, frame_length]; omega
    have t4 : ((frame body).take k).take 4 = le4 body.length := by
      rw [List.take_take, Nat.min_eq_left (by omega)]
      unfold frame
      have := le4_length body.length
      rw [List.take_append_of_le_length (by omega), List.take_of_length_le (by omega)]
    have h8' : ¬ ((frame body).take k).length < 8 := by omega
    have h4' : ¬ ((frame body).take k).length < 4 := by omega
    have hlt : ((frame body).take k).length < 8 + body.length := by omega
    unfold nextRecord
    rw [if_neg h4']
    simp only [t4, leVal_le4 hb]
    by_cases hm : body.length > cfg.maxLen
    · rw [if_pos hm, ho]; rfl
    · rw [if_neg hm, if_neg h8', if_pos hlt]

/-- zero fill of any length is not a record: `len = 0`, `crc = 0` matches the empty body, which does not decode -/
theorem nextRecord_zeros {cfg : Cfg} (ho : cfg.oversizeIsEof = true) (hu : cfg.undecodableIsEof = true) (n : Nat) :
    nextRecord cfg (List.replicate n 0) = .eof := by
  by_cases h8 : n < 8
  · exact nextRecord_short ho (by simpa using h8)
  · obtain ⟨m, rfl⟩ : ∃ m, n = 8 + m := ⟨n - 8, by omega⟩
    have e : List.replicate (8 + m) (0 : UInt8) = [0, 0, 0, 0] ++ ([0, 0, 0, 0] ++ List.replicate m 0) := by
      rw [← List.replicate_append_replicate]; rfl
    unfold nextRecord
    rw [e]
    simp [leVal, hu, decodeBody, crc32]

/-- a frame whose checksum field does not match its body is not a record -/
theorem nextRecord_bad_crc {cfg : Cfg} (ho : cfg.oversizeIsEof = true) (body rest : Bytes) (c : Nat)
    (hb : body.length < two32) (hc : c < two32) (hne : c ≠ crc32 body) :
    nextRecord cfg (le4 body.length ++ (le4 c ++ (body ++ rest))) = .eof := by
  have t4 : (le4 body.length ++ (le4 c ++ (body ++ rest))).take 4 = le4 body.length := by
    have := le4_length body.length
    rw [List.take_append_of_le_length (by omega), List.take_of_length_le (by omega)]
  have t4' : ((le4 body.length ++ (le4 c ++ (body ++ rest))).drop 4).take 4 = le4 c := by
    rw [drop_prefix _ _ 4 (by simp)]
    have := le4_length c
    rw [List.take_append_of_le_length (by omega), List.take_of_length_le (by omega)]
  have tb : ((le4 body.length ++ (le4 c ++ (body ++ rest))).drop 8).take body.length = body := by
    have : le4 body.length ++ (le4 c ++ (body ++ rest)) = (le4 body.length ++ le4 c) ++ (body ++ rest) := by simp
    rw [this, drop_prefix _ _ 8 (by simp), List.take_append_of_le_length (Nat.le_refl _),
      List.take_of_length_le (Nat.le_refl _)]
  have hlen : (le4 body.length ++ (le4 c ++ (body ++ rest))).length = 8 + body.length + rest.length := by
    simp; omega
  have hne' : crc32 body ≠ c := fun h => hne h.symm
  unfold nextRecord
  rw [if_neg (by omega)]
  simp only [t4, t4', leVal_le4 hb, leVal_le4 hc, tb]
  by_cases hm : body.length > cfg.maxLen
  · rw [if_pos hm, ho]; rfl
  · rw [if_neg hm, if_neg (by omega), if_neg (by omega), if_pos hne']

end Nervus.WalFrame

namespace Nervus.WalFrame
open Nervus Nervus.PropVal Nervus.WalRec

/-! ### witnesses used by the counterexample theorems and non-vacuity examples of C17 -/

/-- the file a writer produces from scratch (empty if an append fails) -/
def logOf (cfg : Cfg) (rs : List Rec) : Bytes :=
  match appendAll cfg (walOpen []) rs with
  | .ok h => h.file
  | .error _ => []

/-- one committed transaction -/
def witnessTx : List Rec := [.beginTx 1, .createEdge 1 2 3, .commitTx 1]

/-- two committed transactions and an unfinished one -/
def witnessLog : List Rec :=
  [.beginTx 1, .createNode 10 0 0, .setNodeProperty 0 [0x6b] (.list (.cons (.str [0xC3, 0xA9]) (.cons (.float 0x7FF8000000000001) .nil))),
   .commitTx 1, .beginTx 3, .createEdge 0 1 0, .commitTx 3, .beginTx 5, .tombstoneNode 0]

theorem append_pinned_oversize (r : Rec) (body file : Bytes) (he : encodeBody WalRec.Cfg.pinned r = .ok body)
    (hb : body.length < two32) : append Cfg.pinned (walOpen file) r = .ok ⟨file ++ frame body, false⟩ := by
  unfold append
  have : Cfg.pinned.codec = WalRec.Cfg.pinned := rfl
  rw [this, he]
  simp [hb, Cfg.pinned, walOpen]

theorem nextRecord_pinned_oversize (body rest : Bytes) (hbig : 1048576 < body.length) (hb : body.length < two32) :
    nextRecord Cfg.pinned (frame body ++ rest) = .err (.tooLarge body.length) := by
  have t4 : (frame body ++ rest).take 4 = le4 body.length := by
    have e : frame body ++ rest = le4 body.length ++ (le4 (crc32 body) ++ (body ++ rest)) := by simp [frame]
    rw [e]; have := le4_length body.length
    rw [List.take_append_of_le_length (by omega), List.take_of_length_le (by omega)]
  have hl : ¬ (frame body ++ rest).length < 4 := by simp [frame_length]; omega
  unfold nextRecord
  rw [if_neg hl]
  simp only [t4, leVal_le4 hb]
  have : body.length > Cfg.pinned.maxLen := hbig
  rw [if_pos this]
  rfl

end Nervus.WalFrame
