/-
  Helper lemmas for C34 (write classification).  Core only.
-/
import Nervus.Model.CApi
namespace Nervus.CApi

/-! ### what the regenerated arm tables say (re-checked on every build) -/

theorem armWrite_WK (k : WK) : armWrite k.name = true := by cases k <;> decide
theorem armWrite_UK (k : UK) : armWrite k.name = false := by cases k <;> decide
theorem armRec_UK (k : UK) : armRec k.name "input" = true := by cases k <;> decide
theorem armWrite_MK (k : MK) : armWrite k.name = false := by cases k <;> decide
theorem armRec_MK (k : MK) : armRec k.name "input?" = true := by cases k <;> decide
theorem armWrite_LK (k : LK) : armWrite k.name = false := by cases k <;> decide
theorem arm_foreach : armWrite "Foreach" = true := by decide
theorem arm_optFixup : armWrite "OptionalWhereFixup" = false ∧ armRec "OptionalWhereFixup" "outer" = true ∧
    armRec "OptionalWhereFixup" "filtered" = true := by decide
theorem arm_indexSeek : armWrite "IndexSeek" = false ∧ armRec "IndexSeek" "fallback" = true := by decide
theorem arm_apply : armWrite "Apply" = false ∧ armRec "Apply" "input" = true ∧ armRec "Apply" "subquery" = true := by
  decide
theorem arm_cart : armWrite "CartesianProduct" = false ∧ armRec "CartesianProduct" "left" = true ∧
    armRec "CartesianProduct" "right" = true := by decide
theorem arm_union : armWrite "Union" = false ∧ armRec "Union" "left" = true ∧ armRec "Union" "right" = true := by
  decide

theorem clause_arms :
    Generated.clauseWriteKinds.contains "Create" = true ∧ Generated.clauseWriteKinds.contains "Merge" = true ∧
    Generated.clauseWriteKinds.contains "Set" = true ∧ Generated.clauseWriteKinds.contains "Remove" = true ∧
    Generated.clauseWriteKinds.contains "Delete" = true ∧ Generated.clauseWriteKinds.contains "Foreach" = true ∧
    Generated.clauseWriteKinds.contains "Match" = false ∧ Generated.clauseWriteKinds.contains "Where" = false ∧
    Generated.clauseWriteKinds.contains "With" = false ∧ Generated.clauseWriteKinds.contains "Return" = false ∧
    Generated.clauseWriteKinds.contains "Unwind" = false ∧ Generated.clauseWriteKinds.contains "Call.Procedure" = false ∧
    Generated.clauseWriteKinds.contains "Call.Subquery" = false ∧ Generated.clauseWriteKinds.contains "Union" = false ∧
    Generated.clauseRecurseKinds.contains "Call.Subquery" = true ∧ Generated.clauseRecurseKinds.contains "Union" = true := by
  decide

/-! ### plan_contains_write on each shape -/

@[simp] theorem pcw_write (k : WK) (i : Plan) : planContainsWrite (.write k i) = true := by
  simp [planContainsWrite, armWrite_WK]
@[simp] theorem pcw_foreach (i s : Plan) : planContainsWrite (.foreach i s) = true := by
  simp [planContainsWrite, arm_foreach]
@[simp] theorem pcw_unary (k : UK) (i : Plan) : planContainsWrite (.unary k i) = planContainsWrite i := by
  simp [planContainsWrite, armWrite_UK, armRec_UK]
@[simp] theorem pcw_expand0 (k : MK) : planContainsWrite (.expand0 k) = false := by
  simp [planContainsWrite, armWrite_MK]
@[simp] theorem pcw_expand1 (k : MK) (i : Plan) : planContainsWrite (.expand1 k i) = planContainsWrite i := by
  simp [planContainsWrite, armWrite_MK, armRec_MK]
@[simp] theorem pcw_optFixup (o f : Plan) :
    planContainsWrite (.optFixup o f) = (planContainsWrite o || planContainsWrite f) := by
  simp [planContainsWrite, arm_optFixup]
@[simp] theorem pcw_indexSeek (f : Plan) : planContainsWrite (.indexSeek f) = planContainsWrite f := by
  simp [planContainsWrite, arm_indexSeek]
@[simp] theorem pcw_apply (i s : Plan) : planContainsWrite (.apply i s) = (planContainsWrite i || planContainsWrite s) := by
  simp [planContainsWrite, arm_apply]
@[simp] theorem pcw_cart (l r : Plan) : planContainsWrite (.cart l r) = (planContainsWrite l || planContainsWrite r) := by
  simp [planContainsWrite, arm_cart]
@[simp] theorem pcw_union (l r : Plan) : planContainsWrite (.union l r) = (planContainsWrite l || planContainsWrite r) := by
  simp [planContainsWrite, arm_union]
@[simp] theorem pcw_leaf (k : LK) : planContainsWrite (.leaf k) = false := by
  simp [planContainsWrite, armWrite_LK]

/-- `plan_contains_write` of the plan so far (`None` ⇒ false) -/
def optPcw : Option Plan → Bool
  | none => false
  | some p => planContainsWrite p

@[simp] theorem pcw_orReturnOne (p : Option Plan) : planContainsWrite (orReturnOne p) = optPcw p := by
  cases p <;> simp [orReturnOne, optPcw]

theorem pcw_matchPlan (shape : Nat) (prev : Option Plan) : planContainsWrite (matchPlan shape prev) = optPcw prev := by
  cases prev with
  | none => simp only [matchPlan, optPcw]; split <;> simp
  | some p => simp only [matchPlan, optPcw]; split <;> simp

theorem pcw_projPlan (shape : Nat) (i : Plan) : planContainsWrite (projPlan shape i) = planContainsWrite i := by
  simp only [projPlan]; split <;> simp

theorem pcw_setPlan (s : SetShape) (i : Plan) : planContainsWrite (setPlan s i) = true := by
  cases s <;> simp [setPlan]

theorem pcw_removePlan (l : Bool) (i : Plan) : planContainsWrite (removePlan l i) = true := by
  cases l <;> simp [removePlan]

/-! ### the AST classifier is "an updating clause at any depth" -/

mutual
theorem clauseContainsWrite_eq : ∀ c : Clause, clauseContainsWrite c = clauseUpdates c
  | .foreach u => by
    obtain ⟨_, _, _, _, _, h, _⟩ := clause_arms
    simp only [clauseContainsWrite, clauseUpdates, h, Bool.true_or]
  | .callSub q => by
    have ih := queryContainsWrite_eq q
    have h := clause_arms.2.2.2.2.2.2.2.2.2.2.2.2
    simp only [clauseContainsWrite, clauseUpdates, h.1, h.2.2.1, ih, Bool.false_or, Bool.true_and]
  | .union q => by
    have ih := queryContainsWrite_eq q
    have h := clause_arms.2.2.2.2.2.2.2.2.2.2.2.2.2
    simp only [clauseContainsWrite, clauseUpdates, h.1, h.2.2, ih, Bool.false_or, Bool.true_and]
  | .match_ .. => by simp only [clauseContainsWrite, clauseUpdates, clause_arms.2.2.2.2.2.2.1]
  | .where_ => by simp only [clauseContainsWrite, clauseUpdates, clause_arms.2.2.2.2.2.2.2.1]
  | .with_ _ => by simp only [clauseContainsWrite, clauseUpdates, clause_arms.2.2.2.2.2.2.2.2.1]
  | .return_ _ => by simp only [clauseContainsWrite, clauseUpdates, clause_arms.2.2.2.2.2.2.2.2.2.1]
  | .unwind => by simp only [clauseContainsWrite, clauseUpdates, clause_arms.2.2.2.2.2.2.2.2.2.2.1]
  | .callProc => by simp only [clauseContainsWrite, clauseUpdates, clause_arms.2.2.2.2.2.2.2.2.2.2.2.1]
  | .create => by simp only [clauseContainsWrite, clauseUpdates, clause_arms.1]
  | .merge => by simp only [clauseContainsWrite, clauseUpdates, clause_arms.2.1]
  | .set _ => by simp only [clauseContainsWrite, clauseUpdates, clause_arms.2.2.1]
  | .remove _ => by simp only [clauseContainsWrite, clauseUpdates, clause_arms.2.2.2.1]
  | .delete => by simp only [clauseContainsWrite, clauseUpdates, clause_arms.2.2.2.2.1]
theorem queryContainsWrite_eq : ∀ q : Query, queryContainsWrite q = queryUpdates q
  | .nil => by simp only [queryContainsWrite, queryUpdates]
  | .cons c rest => by
    have h1 := clauseContainsWrite_eq c
    have h2 := queryContainsWrite_eq rest
    simp only [queryContainsWrite, queryUpdates, h1, h2]
end

/-! ### the compiled plan contains a write node exactly when the plan so far did or the clauses update -/

mutual
theorem compileClause_pcw : ∀ (c : Clause) (plan : Option Plan) (p : Plan), compileClause c plan = some p →
    planContainsWrite p = (optPcw plan || clauseUpdates c)
  | .match_ optional shape, plan, p, h => by
    simp only [compileClause] at h
    split at h <;> cases h <;> simp [pcw_matchPlan, clauseUpdates]
  | .where_, plan, p, h => by
    cases plan <;> simp [compileClause] at h
    subst h; simp [optPcw, clauseUpdates]
  | .with_ shape, plan, p, h => by
    simp only [compileClause] at h; cases h; simp [pcw_projPlan, clauseUpdates]
  | .return_ shape, plan, p, h => by
    simp only [compileClause] at h; cases h; simp [pcw_projPlan, clauseUpdates]
  | .unwind, plan, p, h => by simp only [compileClause] at h; cases h; simp [clauseUpdates]
  | .callProc, plan, p, h => by simp only [compileClause] at h; cases h; simp [clauseUpdates]
  | .create, plan, p, h => by simp only [compileClause] at h; cases h; simp [clauseUpdates]
  | .merge, plan, p, h => by simp only [compileClause] at h; cases h; simp [clauseUpdates]
  | .set s, plan, p, h => by
    cases plan <;> simp [compileClause] at h
    subst h; simp [pcw_setPlan, clauseUpdates]
  | .remove l, plan, p, h => by
    cases plan <;> simp [compileClause] at h
    subst h; simp [pcw_removePlan, clauseUpdates]
  | .delete, plan, p, h => by
    cases plan <;> simp [compileClause] at h
    subst h; simp [clauseUpdates]
  | .foreach updates, plan, p, h => by
    simp only [compileClause] at h
    cases hq : compileQuery updates (some (.leaf .values)) with
    | none => simp [hq] at h
    | some sub => simp [hq] at h; subst h; simp [clauseUpdates]
  | .callSub q, plan, p, h => by
    simp only [compileClause] at h
    cases hq : compileQuery q none with
    | none => simp [hq] at h
    | some sub =>
      have ih := compileQuery_pcw q none sub hq
      simp [hq] at h; subst h
      simp [clauseUpdates, ih, optPcw]
  | .union q, plan, p, h => by
    simp only [compileClause] at h
    cases plan with
    | none => simp at h
    | some l =>
      cases hq : compileQuery q none with
      | none => simp [hq] at h
      | some r =>
        have ih := compileQuery_pcw q none r hq
        simp [hq] at h; subst h
        simp [clauseUpdates, ih, optPcw]
theorem compileQuery_pcw : ∀ (q : Query) (plan : Option Plan) (p : Plan), compileQuery q plan = some p →
    planContainsWrite p = (optPcw plan || queryUpdates q)
  | .nil, plan, p, h => by
    simp only [compileQuery] at h; subst h; simp [optPcw, queryUpdates]
  | .cons c rest, plan, p, h => by
    simp only [compileQuery] at h
    cases hc : compileClause c plan with
    | none => simp [hc] at h
    | some p1 =>
      simp only [hc] at h
      have i1 := compileClause_pcw c plan p1 hc
      have i2 := compileQuery_pcw rest (some p1) p h
      rw [i2]; simp only [optPcw, i1, queryUpdates, Bool.or_assoc]
end

end Nervus.CApi
