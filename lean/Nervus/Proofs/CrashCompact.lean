/-
  Proofs.CrashCompact — `GraphEngine::compact` is crash-safe at every I/O step (page phase, log
  phase, log sync): every crash image that tears no leaf write of the live property tree
  represents the committed list, before the manifest is durable through the old manifest,
  afterwards through the new one; a completed compaction re-establishes the handle invariant.
-/
import Nervus.Proofs.CrashCkpt
import Nervus.Proofs.CrashPost
namespace Nervus.Crash

def sysOps (ep : Nat) (segs : List Nat) (root : Nat) (top : Bool) (up : Nat) : List Rec :=
  [.manifest ep segs root top, .checkpoint up ep root top]

theorem sysOps_isOp (ep : Nat) (segs : List Nat) (root : Nat) (top : Bool) (up : Nat) : ∀ r ∈ sysOps ep segs root top up, IsOp r := by
  intro r hr
  simp [sysOps] at hr
  rcases hr with rfl | rfl <;> trivial

theorem flatOps_sys_nodes (up t : Nat) (ops : List Rec) (h : nodesOfOps ops = []) : nodesOfOps (flatOps up [⟨t, ops⟩]) = [] := by
  by_cases ht : t ≤ up <;> simp [flatOps, ht, h, nodesOfOps]

theorem logRuns_sys (up t ep : Nat) (segs : List Nat) (root : Nat) (top : Bool) (u : Nat) :
    logRuns up [⟨t, sysOps ep segs root top u⟩] = [] := by
  by_cases ht : t ≤ up <;> simp [logRuns, ht, runOf, sysOps, edgesOf, propsOf]

/-- the log invariant after a manifest + checkpoint transaction that raises the checkpoint -/
theorem logOK_ckpt {T : List Tx} {cs : List CTx} {c : Nat} (hlog : LogOK T cs c) (t ep : Nat) (segs : List Nat)
    (root : Nat) (top : Bool) (up : Nat) (hep : (scan cs).epoch ≤ ep) (ht : (scan cs).maxTxid < t)
    (hup1 : (scan cs).ckpt ≤ up) (hup2 : up ≤ (scan cs).maxTxid) :
    ∃ c', c' ≤ (allNodes T).length ∧ LogOK T (cs ++ [⟨t, sysOps ep segs root top up⟩]) c' := by
  have hsc := scan_snoc_manifest cs t ep segs root top up hep
  obtain ⟨X, hX⟩ := flatOps_raise (scan cs).ckpt up hup1 cs hlog.mono
  have hnodes := hlog.nodes
  rw [hX, nodesOfOps_append] at hnodes
  obtain ⟨hA, hB⟩ := seqFrom_suffix _ _ _ _ _ hnodes
  refine ⟨c + (nodesOfOps X).length, by have := hlog.cle; omega, ?_⟩
  refine ⟨hlog.nodup, hlog.nozero, by have := hlog.cle; omega, ?_, ?_, ?_, ?_⟩
  · show nodesOfOps (flatOps (scan (cs ++ [⟨t, sysOps ep segs root top up⟩])).ckpt _) = _
    have hck : (scan (cs ++ [⟨t, sysOps ep segs root top up⟩])).ckpt = up := by
      unfold sysOps; rw [hsc]
    rw [hck, flatOps_append, nodesOfOps_append, flatOps_sys_nodes _ _ _ (by simp [sysOps, nodesOfOps]), List.append_nil, hB]
    congr 1
    have := hlog.cle
    omega
  · unfold sysOps; rw [hsc]
    show up ≤ max (scan cs).maxTxid t
    omega
  · unfold TxMono
    rw [List.pairwise_append]
    refine ⟨hlog.mono, by simp, ?_⟩
    intro a ha b hb
    simp only [List.mem_singleton] at hb
    subst hb
    have := hlog.maxle a ha
    show a.txid < t
    omega
  · intro x hx
    unfold sysOps at hx ⊢; rw [hsc]
    show x.txid ≤ max (scan cs).maxTxid t
    rcases List.mem_append.mp hx with hx | hx
    · have := hlog.maxle x hx; omega
    · simp only [List.mem_singleton] at hx
      subst hx
      show t ≤ _
      omega

theorem PagerOK.raise {N : List Nat} {c c' : Nat} {p : PImg} (h : PagerOK N c p) (hc : c' ≤ p.hdr.i2eLen) : PagerOK N c' p :=
  { h with lo := hc }

/-- `upTo` of a compaction lies between the old checkpoint and the largest transaction id -/
theorem cUpTo_bounds {T : List Tx} {cs : List CTx} {c : Nat} {m : Mem} (hlog : LogOK T cs c)
    (mruns : m.runs = logRuns (scan cs).ckpt cs) (hne : m.runs ≠ []) :
    (scan cs).ckpt < cUpTo m ∧ cUpTo m ≤ (scan cs).maxTxid ∧ ∀ r ∈ m.runs, r.txid ≤ cUpTo m := by
  have hle := le_foldl_max (m.runs.map (·.txid)) 0
  have hall : ∀ r ∈ m.runs, r.txid ≤ cUpTo m := fun r hr => hle.2 r.txid (List.mem_map.mpr ⟨r, hr, rfl⟩)
  refine ⟨?_, ?_, hall⟩
  · cases hm : m.runs with
    | nil => exact absurd hm hne
    | cons r rest =>
      have hr : r ∈ m.runs := by rw [hm]; simp
      have h1 := hall r hr
      rw [mruns] at hr
      have := logRuns_gt hr
      omega
  · apply foldl_max_le _ _ _ (Nat.zero_le _)
    intro x hx
    obtain ⟨r, hr, rfl⟩ := List.mem_map.mp hx
    rw [mruns] at hr
    obtain ⟨tx, htx, rfl, _⟩ := mem_logRuns hr
    exact hlog.maxle tx htx

/-- the covered set of the invariant can be taken disjoint from the properties of the runs -/
theorem StoreOK.props_disj {T : List Tx} {cs : List CTx} {p : PImg} (h : StoreOK T cs p) :
    ∃ covered, (∀ q ∈ allProps T, q ∈ (logRuns (scan cs).ckpt cs).flatMap (·.props) ∨ q ∈ covered) ∧
      ((scan cs).proot = 0 → covered = []) ∧
      ((scan cs).proot ≠ 0 → ∃ t, treeFind p (scan cs).proot = some t ∧ TreeOK (allProps T) covered (scan cs).ptop t) ∧
      ∀ q ∈ (logRuns (scan cs).ckpt cs).flatMap (·.props), q ∉ covered := by
  obtain ⟨covered, h1, h2, h3⟩ := h.props
  refine ⟨covered.filter (fun q => !((logRuns (scan cs).ckpt cs).flatMap (·.props)).contains q), ?_, ?_, ?_, ?_⟩
  · intro q hq
    by_cases hr : q ∈ (logRuns (scan cs).ckpt cs).flatMap (·.props)
    · exact Or.inl hr
    · rcases h1 q hq with h' | h'
      · exact Or.inl h'
      · right
        rw [List.mem_filter]
        exact ⟨h', by simpa using hr⟩
  · intro hr; rw [h2 hr]; rfl
  · intro hr
    obtain ⟨t, hf, hok⟩ := h3 hr
    obtain ⟨X, hs, ha, hc⟩ := hok.shape
    exact ⟨t, hf, ⟨⟨X, hs, ha, fun q hq => hc q (List.mem_filter.mp hq).1⟩⟩⟩
  · intro q hq hin
    have h4 := (List.mem_filter.mp hin).2
    have h5 : ((logRuns (scan cs).ckpt cs).flatMap (·.props)).contains q = true := List.contains_iff_mem.mpr hq
    rw [h5] at h4
    exact absurd h4 (by decide)

theorem cProps_disj {T : List Tx} {fs : FS} {m : Mem} {cs : List CTx} {c : Nat} (h : InvOpen T fs m cs c) {covered : List Nat}
    (hd : ∀ q ∈ (logRuns (scan cs).ckpt cs).flatMap (·.props), q ∉ covered) : ∀ q ∈ cProps m, q ∉ covered := by
  intro q hq
  have := (mem_sortNat q _).mp hq
  rw [h.mruns] at this
  exact hd q this

/-- segments, tree and runs after the manifest of a compaction -/
theorem frontier_ge2 {N : List Nat} {c : Nat} {p : PImg} (h : PagerOK N c p) : 2 ≤ frontier p := by
  have := h.booted.bm
  have := h.booted.nextPage
  unfold frontier; omega

theorem storeOK_compact {T : List Tx} {cs cs' : List CTx} {p0 pF : PImg} {covered : List Nat} {lv : LiveP} {n : Nat} {m : Mem}
    (hst : StoreOK T cs p0) (hcg : CG p0 (scan cs).proot (allProps T) covered lv (frontier p0) n pF) (hlv : lv.top = (scan cs).ptop)
    (h1 : ∀ q ∈ allProps T, q ∈ (logRuns (scan cs).ckpt cs).flatMap (·.props) ∨ q ∈ covered)
    (h2 : (scan cs).proot = 0 → covered = [])
    (mruns : m.runs = logRuns (scan cs).ckpt cs) (mroot : m.proot = (scan cs).proot) (mptop : m.ptop = (scan cs).ptop)
    (k0 root : Nat) (top : Bool)
    (hseg : ∃ s, segFind pF k0 = some s ∧ s.edges = cEdges m)
    (hsame : cProps m = [] → (root, top) = (m.proot, m.ptop))
    (htree : cProps m ≠ [] → root ≠ 0 ∧ ∃ t, treeFind pF root = some t ∧ TreeOK (allProps T) (covered ++ cProps m) top t)
    (hsegs : (scan cs').segs = k0 :: (scan cs).segs) (hroot : (scan cs').proot = root) (htop : (scan cs').ptop = top)
    (hruns : logRuns (scan cs').ckpt cs' = []) : StoreOK T cs' pF := by
  have hold : ∀ k ∈ (scan cs).segs, segFind pF k = segFind p0 k := fun k hk =>
    hcg.segOld k (by have := hst.segLt k hk; unfold frontier; omega)
  obtain ⟨s, hs, hse⟩ := hseg
  refine ⟨?_, fun s hs => ⟨Nat.lt_of_lt_of_le (hcg.segKeys s hs) hcg.np, Nat.lt_of_lt_of_le (hcg.segKeys s hs) hcg.bmlo⟩,
    fun t ht => ⟨Nat.lt_of_lt_of_le (hcg.treeKeys t ht) hcg.np, Nat.lt_of_lt_of_le (hcg.treeKeys t ht) hcg.bmlo⟩,
    ?_, by rw [hruns]; intro q hq; simp at hq, ?_⟩
  · intro k hk
    rw [hsegs] at hk
    rcases List.mem_cons.mp hk with rfl | hk
    · rw [hs]; rfl
    · rw [hold k hk]; exact hst.segs k hk
  · intro e
    rw [hsegs, hruns]
    have hE : (scan cs).segs.flatMap (segEdges pF) = (scan cs).segs.flatMap (segEdges p0) := by
      apply flatMap_congr'
      intro k hk
      simp only [segEdges, hold k hk]
    have hk0e : segEdges pF k0 = cEdges m := by simp [segEdges, hs, hse]
    simp only [List.flatMap_cons, hE, hk0e, List.flatMap_nil, List.append_nil, List.mem_append]
    rw [← hst.edges e, List.mem_append, cEdges, mruns]
    exact Or.comm
  · refine ⟨covered ++ cProps m, ?_, ?_, ?_⟩
    · intro q hq
      right
      rcases h1 q hq with h | h
      · exact List.mem_append_right _ ((mem_sortNat q _).mpr (by rw [mruns]; exact h))
      · exact List.mem_append_left _ h
    · rw [hroot]
      intro hr0
      by_cases hp : cProps m = []
      · have := hsame hp
        simp only [Prod.mk.injEq] at this
        rw [hp, List.append_nil]
        exact h2 (by rw [← mroot, ← this.1]; exact hr0)
      · exact absurd hr0 (htree hp).1
    · rw [hroot, htop]
      intro hrne
      by_cases hp : cProps m = []
      · have := hsame hp
        simp only [Prod.mk.injEq] at this
        rw [hp, List.append_nil, this.1, this.2, mroot, mptop]
        obtain ⟨t, last, hf, hok⟩ := hcg.treeLive (by rw [← mroot, ← this.1]; exact hrne)
        exact ⟨t, hf, by rw [← hlv]; exact hok.treeOK⟩
      · exact (htree hp).2

end Nervus.Crash

namespace Nervus.Crash

/-- every crash image that tears no leaf write of tree `live` represents one of the lists in `Ts` -/
def SafeFSL (live : Nat) (Ts : List (List Tx)) (fs : FS) : Prop :=
  ∀ mode : CrashMode, mode.tearsLive live fs.pj = false → ∃ T ∈ Ts, Rep T (fs.crashP mode) (fs.crashW mode)

theorem SafeFS.toL {live : Nat} {Ts : List (List Tx)} {fs : FS} (h : SafeFS Ts fs) : SafeFSL live Ts fs :=
  fun mode _ => h mode

/-- the committed list after the system transaction of a compaction -/
def compactCs (cfg : Cfg) (m : Mem) (vol : PImg) (cs : List CTx) : List CTx :=
  cs ++ [⟨m.nextTxid, sysOps (m.epoch + 1) ((pagesA cfg m vol).2.2.1 :: m.segs.map (·.1))
    (pagesA cfg m vol).2.2.2.1 (pagesA cfg m vol).2.2.2.2 (cUpTo m)⟩]

theorem manifestRecs_eq (m : Mem) (k0 root : Nat) (top : Bool) :
    manifestRecs m k0 root top =
      Rec.begin m.nextTxid :: sysOps (m.epoch + 1) (k0 :: m.segs.map (·.1)) root top (cUpTo m) ++ [Rec.commit m.nextTxid] := rfl

theorem msegs_keys {T : List Tx} {fs : FS} {m : Mem} {cs : List CTx} {c : Nat} (h : InvOpen T fs m cs c) :
    m.segs.map (·.1) = (scan cs).segs := by
  rw [h.msegs, List.map_map]
  exact List.map_id' _

/-- files and memory after the page phase still satisfy the handle invariant (old manifest) -/
theorem inv_after_pages {cfg : Cfg} {T : List Tx} {fs : FS} {m : Mem} {cs : List CTx} {c : Nat} {covered : List Nat} {lv : LiveP}
    (h : InvOpen T fs m cs c) (hlv : lv.top = (scan cs).ptop) (pp : PagesPost cfg T fs m covered lv)
    (h1 : ∀ q ∈ allProps T, q ∈ (logRuns (scan cs).ckpt cs).flatMap (·.props) ∨ q ∈ covered)
    (h2 : (scan cs).proot = 0 → covered = []) :
    InvOpen T (fs.steps (ioSteps (pagesA cfg m fs.pv).1))
      { m with pm := (pagesA cfg m fs.pv).2.1.pm, bm := (pagesA cfg m fs.pv).2.1.bm } cs c := by
  obtain ⟨hw, hd, hr⟩ := steps_pager_wal _ pp.pager.facts.2 fs
  obtain ⟨n, hcg⟩ := pp.cg
  rw [h.mroot] at hcg
  have hst := hcg.storeOK hlv h.store (Nat.le_refl _) rfl h1 h2
  have hold : ∀ k ∈ (scan cs).segs, segFind (fs.steps (ioSteps (pagesA cfg m fs.pv).1)).pd k = segFind fs.pd k :=
    fun k hk => hcg.segOld k (by have := h.store.segLt k hk; unfold frontier; omega)
  exact
    { pj := by rw [pp.pj]; intro e he; simpa using he
      wal := ⟨by rw [hr]; exact h.wal.ren, by rw [hd, hw]; exact h.wal.wdur, fun k hk => by rw [hw]; exact h.wal.stable k (by rw [← hd]; exact hk)⟩
      log := h.log
      pager := hcg.pagerOK h.pager (frontier_ge2 h.pager)
      store := hst
      full := by rw [hcg.hdr.len]; exact h.full
      mpm := by show SameKey _ (pagesA cfg m fs.pv).2.1.pm; rw [pp.hdr]; exact SameKey.refl _
      mbm := by show _ ≤ (pagesA cfg m fs.pv).2.1.bm; rw [pp.pbm]; exact Nat.le_refl _
      mlen := h.mlen
      mstart := by rw [hcg.hdr.start]; exact h.mstart
      mexts := h.mexts
      mruns := h.mruns
      msegs := by
        show m.segs = _
        rw [h.msegs]
        apply List.map_congr_left
        intro k hk
        simp only [segEdges, hold k hk]
      mroot := h.mroot
      mptop := h.mptop
      mepoch := h.mepoch
      mtxid := h.mtxid
      mwal := h.mwal }

/-- the representation through the NEW manifest, once the system transaction is in the log -/
theorem compact_new {cfg : Cfg} {T : List Tx} {fs : FS} {m : Mem} {cs : List CTx} {c : Nat} {covered : List Nat} {lv : LiveP}
    (h : InvOpen T fs m cs c) (hlv : lv.top = (scan cs).ptop) (hne : m.runs ≠ []) (pp : PagesPost cfg T fs m covered lv)
    (h1 : ∀ q ∈ allProps T, q ∈ (logRuns (scan cs).ckpt cs).flatMap (·.props) ∨ q ∈ covered)
    (h2 : (scan cs).proot = 0 → covered = []) :
    scan (compactCs cfg m fs.pv cs) =
      { epoch := m.epoch + 1, segs := (pagesA cfg m fs.pv).2.2.1 :: (scan cs).segs, ckpt := cUpTo m,
        maxTxid := max (scan cs).maxTxid m.nextTxid, proot := (pagesA cfg m fs.pv).2.2.2.1, ptop := (pagesA cfg m fs.pv).2.2.2.2 } ∧
    logRuns (cUpTo m) (compactCs cfg m fs.pv cs) = [] ∧
    ∃ c', LogOK T (compactCs cfg m fs.pv cs) c' ∧
      PagerOK (allNodes T) c' (fs.steps (ioSteps (pagesA cfg m fs.pv).1)).pd ∧
      StoreOK T (compactCs cfg m fs.pv cs) (fs.steps (ioSteps (pagesA cfg m fs.pv).1)).pd := by
  obtain ⟨b1, b2, b3⟩ := cUpTo_bounds h.log h.mruns hne
  have hsc : scan (compactCs cfg m fs.pv cs) =
      { epoch := m.epoch + 1, segs := (pagesA cfg m fs.pv).2.2.1 :: m.segs.map (·.1), ckpt := cUpTo m,
        maxTxid := max (scan cs).maxTxid m.nextTxid, proot := (pagesA cfg m fs.pv).2.2.2.1, ptop := (pagesA cfg m fs.pv).2.2.2.2 } := by
    unfold compactCs sysOps
    exact scan_snoc_manifest cs m.nextTxid (m.epoch + 1) _ _ _ (cUpTo m) (by rw [h.mepoch]; omega)
  rw [msegs_keys h] at hsc
  have hruns : logRuns (cUpTo m) (compactCs cfg m fs.pv cs) = [] := by
    unfold compactCs
    rw [logRuns_append, logRuns_sys, List.append_nil]
    exact logRuns_raise _ _ (Nat.le_of_lt b1) cs (by rw [← h.mruns]; exact b3)
  obtain ⟨c', hc', hlog'⟩ := logOK_ckpt h.log m.nextTxid (m.epoch + 1) ((pagesA cfg m fs.pv).2.2.1 :: m.segs.map (·.1))
    (pagesA cfg m fs.pv).2.2.2.1 (pagesA cfg m fs.pv).2.2.2.2 (cUpTo m) (by rw [h.mepoch]; omega) h.mtxid (Nat.le_of_lt b1) b2
  obtain ⟨n, hcg⟩ := pp.cg
  rw [h.mroot] at hcg
  refine ⟨hsc, hruns, c', hlog', (hcg.pagerOK h.pager (frontier_ge2 h.pager)).raise (by rw [hcg.hdr.len, h.full]; exact hc'), ?_⟩
  have htree' : cProps m ≠ [] → (pagesA cfg m fs.pv).2.2.2.1 ≠ 0 ∧
      ∃ t, treeFind (fs.steps (ioSteps (pagesA cfg m fs.pv).1)).pd (pagesA cfg m fs.pv).2.2.2.1 = some t ∧
        TreeOK (allProps T) (covered ++ cProps m) (pagesA cfg m fs.pv).2.2.2.2 t := pp.tree
  exact storeOK_compact (m := m) h.store hcg hlv h1 h2 h.mruns h.mroot h.mptop (pagesA cfg m fs.pv).2.2.1 (pagesA cfg m fs.pv).2.2.2.1
    (pagesA cfg m fs.pv).2.2.2.2 pp.seg (fun hp => by rw [← pp.same hp]) htree'
    (by rw [hsc]) (by rw [hsc]) (by rw [hsc]) (by rw [hsc]; exact hruns)

end Nervus.Crash

namespace Nervus.Crash

theorem compactA_steps (cfg : Cfg) (m : Mem) (vol : PImg) (w : List Frag) (hne : m.runs.isEmpty = false)
    (ho : m.walOpen = true) (hnf : failOf (pagesA cfg m vol).1 = none) :
    ioSteps (compactA cfg m vol w) = ioSteps (pagesA cfg m vol).1 ++ (cutSteps cfg (m.ws w) ++
      ((frames (manifestRecs m (pagesA cfg m vol).2.2.1 (pagesA cfg m vol).2.2.2.1 (pagesA cfg m vol).2.2.2.2)).map Step.ww ++ [Step.ws])) ∧
    failOf (compactA cfg m vol w) = none ∧
    memUpds (compactA cfg m vol w) = memUpds (pagesA cfg m vol).1 ++ ([MemUpd.bumpTxid] ++ cutUpds cfg (m.ws w) ++
      [MemUpd.compacted (cUpTo m) (pagesA cfg m vol).2.2.2.1 (pagesA cfg m vol).2.2.2.2 (pagesA cfg m vol).2.2.1 (cEdges m) (m.epoch + 1)]) := by
  have hws : (m.ws w).isOpen = true := ho
  obtain ⟨i1, i2, i3, i4⟩ := appendsA_steps cfg (Rec.begin m.nextTxid)
    (sysOps (m.epoch + 1) ((pagesA cfg m vol).2.2.1 :: m.segs.map (·.1)) (pagesA cfg m vol).2.2.2.1 (pagesA cfg m vol).2.2.2.2 (cUpTo m)
      ++ [Rec.commit m.nextTxid]) (m.ws w) hws
  rw [← List.cons_append, ← manifestRecs_eq] at i1 i2 i3 i4
  rw [compactA_eq cfg m vol w hne]
  simp only [i4, if_true]
  refine ⟨?_, ?_, ?_⟩
  · rw [ioSteps_append_noFail _ _ hnf]
    congr 1
    rw [show ∀ (x : Action) (l : List Action), [x] ++ l = x :: l from fun _ _ => rfl]
    simp only [ioSteps]
    rw [ioSteps_append_noFail _ _ i2, i1]
    simp [ioSteps]
  · rw [failOf_append, hnf]
    rw [show ∀ (x : Action) (l : List Action), [x] ++ l = x :: l from fun _ _ => rfl]
    simp only [failOf, Option.orElse]
    rw [failOf_append, i2]
    rfl
  · rw [memUpds_append_noFail _ _ hnf]
    congr 1
    rw [show ∀ (x : Action) (l : List Action), [x] ++ l = x :: l from fun _ _ => rfl]
    simp only [memUpds]
    rw [memUpds_append_noFail _ _ i2, i3]
    simp [memUpds]

/-- **compaction is crash-safe at every I/O step** (no in-place leaf split of the LIVE tree; crash images that tear no leaf
    write of the live property tree): after any prefix of its steps every such image represents `T`. -/
theorem compact_safe {cfg : Cfg} {T : List Tx} {fs : FS} {m : Mem} {cs : List CTx} {c : Nat}
    (hcap1 : 1 ≤ cfg.leafCap) (h : InvOpen T fs m cs c) (ht : TailPre cfg fs m) (hns : NoLiveSplit cfg m fs.pv) :
    SafeAlong (SafeFSL m.proot [T]) fs (ioSteps (compactA cfg m fs.pv fs.wf)) := by
  have hsafe0 : SafeFS [T] fs := safeFS_of_stable h.pj h.wal h.log h.pager h.store
  by_cases hne : m.runs.isEmpty = true
  · have : compactA cfg m fs.pv fs.wf = [] := by simp [compactA, hne]
    rw [this]
    exact safeAlong_nil hsafe0.toL
  have hne' : m.runs.isEmpty = false := by simpa using hne
  have hruns : m.runs ≠ [] := by
    intro h0; rw [h0] at hne'; simp at hne'
  obtain ⟨covered, h1, h2, h3, hdis⟩ := h.store.props_disj
  obtain ⟨lv, hlv, pp⟩ := pages_post hcap1 h hns covered (cProps_disj h hdis) h2 h3
  obtain ⟨hS, _, _⟩ := compactA_steps cfg m fs.pv fs.wf hne' h.mwal pp.nofail
  rw [hS]
  -- (1) page phase
  have sa1 : SafeAlong (SafeFSL m.proot [T]) fs (ioSteps (pagesA cfg m fs.pv).1) := by
    intro n mode hmode
    have himg := pp.safe n _ (crashP_isImgL m.proot _ mode hmode)
    obtain ⟨n', hcg⟩ := himg
    rw [h.mroot] at hcg
    obtain ⟨hw, hd, hr⟩ := take_pager_wal _ pp.pager.facts.2 fs n
    have hst : WalStable cs (fs.steps ((ioSteps (pagesA cfg m fs.pv).1).take n)) :=
      ⟨by rw [hr]; exact h.wal.ren, by rw [hd, hw]; exact h.wal.wdur, fun k hk => by rw [hw]; exact h.wal.stable k (by rw [← hd]; exact hk)⟩
    obtain ⟨k, hk, hW⟩ := hst.crashW mode
    exact ⟨T, by simp, cs, c, by rw [hW]; exact hst.stable k hk, h.log, hcg.pagerOK h.pager (frontier_ge2 h.pager), hcg.storeOK hlv h.store (Nat.le_refl _) rfl h1 h2⟩
  apply safeAlong_append sa1
  -- (2) tail cut
  have hinv := inv_after_pages h hlv pp h1 h2
  obtain ⟨hwP, hdP, hrP⟩ := steps_pager_wal _ pp.pager.facts.2 fs
  generalize hfsP : fs.steps (ioSteps (pagesA cfg m fs.pv).1) = fsP at hinv hwP hdP hrP
  have hnew := compact_new h hlv hruns pp h1 h2
  rw [hfsP] at hnew
  have htP : TailPre cfg fsP { m with pm := (pagesA cfg m fs.pv).2.1.pm, bm := (pagesA cfg m fs.pv).2.1.bm } := by
    rcases ht with ht | ht
    · left; rw [hwP]; exact ht
    · right; exact ht
  have hwsEq : ({ m with pm := (pagesA cfg m fs.pv).2.1.pm, bm := (pagesA cfg m fs.pv).2.1.bm } : Mem).ws fsP.wf = m.ws fs.wf := by
    simp [Mem.ws, hwP]
  obtain ⟨sa0, hpj0, hpd0, hst0, hclean0⟩ := cut_state hinv htP
  rw [hwsEq] at sa0 hpj0 hpd0 hst0 hclean0
  apply safeAlong_append (safeAlong_mono sa0 (fun g hg => hg.toL))
  generalize hfs0 : fsP.steps (cutSteps cfg (m.ws fs.wf)) = fs0 at hpj0 hpd0 hst0 hclean0
  -- (3) the system transaction, record by record
  have hin0 : Inert fs0.pj := by rw [hpj0]; exact hinv.pj
  have hp0 : PagerOK (allNodes T) c fs0.pd := by rw [hpd0]; exact hinv.pager
  have hs0 : StoreOK T cs fs0.pd := by rw [hpd0]; exact hinv.store
  have hwf0 : fs0.wf = frames (readAll fs0.wf) := clean_eq_frames _ hclean0
  obtain ⟨hsc', hruns', c', hlog', hpager', hstore'⟩ := hnew
  rw [← hpd0] at hpager' hstore'
  generalize hrecs : manifestRecs m (pagesA cfg m fs.pv).2.2.1 (pagesA cfg m fs.pv).2.2.2.1 (pagesA cfg m fs.pv).2.2.2.2 = recs
  have hrecsEq : recs = Rec.begin m.nextTxid :: sysOps (m.epoch + 1) ((pagesA cfg m fs.pv).2.2.1 :: m.segs.map (·.1))
      (pagesA cfg m fs.pv).2.2.2.1 (pagesA cfg m fs.pv).2.2.2.2 (cUpTo m) ++ [Rec.commit m.nextTxid] := by
    rw [← hrecs]; rfl
  have hlen : recs.length = 4 := by rw [hrecsEq]; rfl
  have hrepNew : Rep T fs0.pd (fs0.wf ++ frames recs) := by
    refine ⟨compactCs cfg m fs.pv cs, c', ?_, hlog', hpager', hstore'⟩
    rw [hwf0, readAll_frames_append, readAll_frames, hrecsEq]
    exact committed_full_ops hst0.com _ _ (sysOps_isOp _ _ _ _ _)
  have sa2 : SafeAlong (SafeFS [T]) fs0 ((frames recs).map Step.ww) := by
    intro n mode
    obtain ⟨hP, hW⟩ := crash_during_ww fs0 hst0.ren hst0.wdur hin0 (frames recs) n mode
    rw [hP]
    rcases hW with ⟨k, hk, hW⟩ | ⟨j, _, hW⟩
    · rw [hW]
      exact ⟨T, by simp, cs, c, hst0.stable k hk, h.log, hp0, hs0⟩
    · rw [hW]
      refine ⟨T, by simp, ?_⟩
      by_cases hj : j < 12
      · refine ⟨cs, c, ?_, h.log, hp0, hs0⟩
        rw [hwf0, readAll_append_take, hrecsEq]
        exact committed_partial_ops hst0.com _ _ (sysOps_isOp _ _ _ _ _) (j / 3) (by simp [sysOps]; omega)
      · rw [List.take_of_length_le (by rw [frames_length, hlen]; omega)]
        exact hrepNew
  apply safeAlong_append (safeAlong_mono sa2 (fun g hg => hg.toL))
  -- (4) log sync
  obtain ⟨hw1, hd1, hr1, hpd1, hpj1⟩ := steps_ww fs0 (frames recs)
  generalize hfs1 : fs0.steps ((frames recs).map Step.ww) = fs1 at hw1 hd1 hr1 hpd1 hpj1
  have hlast : SafeFS [T] fs1 := by have := safeAlong_last sa2; rwa [hfs1] at this
  apply safeAlong_cons hlast.toL
  apply safeAlong_nil
  apply SafeFS.toL
  have hq2 : WalQuiet (fs1.step .ws) := ⟨by simp [FS.step], by simp [FS.step]⟩
  intro mode
  refine ⟨T, by simp, ?_⟩
  rw [hq2.crashW, crashP_inert _ (by show Inert fs1.pj; rw [hpj1]; exact hin0)]
  show Rep T fs1.pd fs1.wf
  rw [hpd1, hw1]
  exact hrepNew

end Nervus.Crash

namespace Nervus.Crash

theorem foldl_onlySetPm : ∀ (l : List MemUpd), OnlySetPm l → ∀ m : Mem,
    l.foldl applyUpd m = { m with pm := lastPm l m.pm, bm := lastBm l m.bm }
  | [], _, m => rfl
  | u :: l, h, m => by
    rcases h u (by simp) with ⟨pm, rfl⟩ | ⟨b, rfl⟩
    all_goals
      simp only [List.foldl, lastPm, lastBm]
      rw [foldl_onlySetPm l (fun u hu => h u (by simp [hu]))]
      rfl

structure CompactMem (m mF : Mem) (pmF : Meta) (bmF : Nat) (root : Nat) (top : Bool) (k0 : Nat) (edges : List Nat) (ep : Nat) : Prop where
  pm : mF.pm = pmF
  bm : mF.bm = bmF
  idStart : mF.idStart = m.idStart
  idLen : mF.idLen = m.idLen
  exts : mF.exts = m.exts
  runs : mF.runs = []
  segs : mF.segs = (k0, edges) :: m.segs
  proot : mF.proot = root
  ptop : mF.ptop = top
  epoch : mF.epoch = ep
  nextTxid : mF.nextTxid = m.nextTxid + 1
  walOpen : mF.walOpen = m.walOpen

theorem compact_mem (m : Mem) (L cut : List MemUpd) (hL : OnlySetPm L) (hcut : cut = [] ∨ cut = [MemUpd.tailChecked])
    (up root : Nat) (top : Bool) (k0 : Nat) (edges : List Nat) (ep : Nat) :
    CompactMem m ((L ++ ([MemUpd.bumpTxid] ++ cut ++ [MemUpd.compacted up root top k0 edges ep])).foldl applyUpd m)
      (lastPm L m.pm) (lastBm L m.bm) root top k0 edges ep := by
  rw [List.foldl_append, foldl_onlySetPm L hL]
  rcases hcut with rfl | rfl <;> exact ⟨rfl, rfl, rfl, rfl, rfl, rfl, rfl, rfl, rfl, rfl, rfl, rfl⟩

/-- **a completed compaction re-establishes the handle invariant** (same committed list, new
    manifest) and leaves a log without torn tail (unless there was nothing to compact) -/
theorem compact_post {cfg : Cfg} {T : List Tx} {fs : FS} {m : Mem} {cs : List CTx} {c : Nat}
    (hcap1 : 1 ≤ cfg.leafCap) (h : InvOpen T fs m cs c) (ht : TailPre cfg fs m) (hns : NoLiveSplit cfg m fs.pv) :
    ∃ cs' c', InvOpen T (fs.steps (ioSteps (compactA cfg m fs.pv fs.wf)))
        ((memUpds (compactA cfg m fs.pv fs.wf)).foldl applyUpd m) cs' c' ∧
      TailPre cfg (fs.steps (ioSteps (compactA cfg m fs.pv fs.wf))) ((memUpds (compactA cfg m fs.pv fs.wf)).foldl applyUpd m) := by
  by_cases hne : m.runs.isEmpty = true
  · have : compactA cfg m fs.pv fs.wf = [] := by simp [compactA, hne]
    rw [this]
    exact ⟨cs, c, by simpa [ioSteps, memUpds, FS.steps] using h, by simpa [ioSteps, memUpds, FS.steps] using ht⟩
  have hne' : m.runs.isEmpty = false := by simpa using hne
  have hruns : m.runs ≠ [] := by
    intro h0; rw [h0] at hne'; simp at hne'
  obtain ⟨covered, h1, h2, h3, hdis⟩ := h.store.props_disj
  obtain ⟨lv, hlv, pp⟩ := pages_post hcap1 h hns covered (cProps_disj h hdis) h2 h3
  obtain ⟨hS, _, hM⟩ := compactA_steps cfg m fs.pv fs.wf hne' h.mwal pp.nofail
  rw [hS, hM]
  have hinv := inv_after_pages h hlv pp h1 h2
  obtain ⟨hwP, hdP, hrP⟩ := steps_pager_wal _ pp.pager.facts.2 fs
  have hnew := compact_new h hlv hruns pp h1 h2
  have hsegE : segEdges (fs.steps (ioSteps (pagesA cfg m fs.pv).1)).pd (pagesA cfg m fs.pv).2.2.1 = cEdges m := by
    obtain ⟨s, hs, hse⟩ := pp.seg
    simp [segEdges, hs, hse]
  rw [steps_append]
  generalize hfsP : fs.steps (ioSteps (pagesA cfg m fs.pv).1) = fsP at hinv hwP hdP hrP hnew hsegE
  have htP : TailPre cfg fsP { m with pm := (pagesA cfg m fs.pv).2.1.pm, bm := (pagesA cfg m fs.pv).2.1.bm } := by
    rcases ht with ht | ht
    · left; rw [hwP]; exact ht
    · right; exact ht
  have hwsEq : ({ m with pm := (pagesA cfg m fs.pv).2.1.pm, bm := (pagesA cfg m fs.pv).2.1.bm } : Mem).ws fsP.wf = m.ws fs.wf := by
    simp [Mem.ws, hwP]
  obtain ⟨_, hpj0, hpd0, hst0, hclean0⟩ := cut_state hinv htP
  rw [hwsEq] at hpj0 hpd0 hst0 hclean0
  rw [steps_append]
  generalize hfs0 : fsP.steps (cutSteps cfg (m.ws fs.wf)) = fs0 at hpj0 hpd0 hst0 hclean0
  have hwf0 : fs0.wf = frames (readAll fs0.wf) := clean_eq_frames _ hclean0
  obtain ⟨hsc', hruns', c', hlog', hpager', hstore'⟩ := hnew
  generalize hrecs : manifestRecs m (pagesA cfg m fs.pv).2.2.1 (pagesA cfg m fs.pv).2.2.2.1 (pagesA cfg m fs.pv).2.2.2.2 = recs
  have hrecsEq : recs = Rec.begin m.nextTxid :: sysOps (m.epoch + 1) ((pagesA cfg m fs.pv).2.2.1 :: m.segs.map (·.1))
      (pagesA cfg m fs.pv).2.2.2.1 (pagesA cfg m fs.pv).2.2.2.2 (cUpTo m) ++ [Rec.commit m.nextTxid] := by
    rw [← hrecs]; rfl
  have hcom' : committed (readAll (fs0.wf ++ frames recs)) = .ok (compactCs cfg m fs.pv cs) := by
    rw [hwf0, readAll_frames_append, readAll_frames, hrecsEq]
    exact committed_full_ops hst0.com _ _ (sysOps_isOp _ _ _ _ _)
  obtain ⟨hw1, hd1, hr1, hpd1, hpj1⟩ := steps_ww fs0 (frames recs)
  rw [steps_append]
  generalize hfs1 : fs0.steps ((frames recs).map Step.ww) = fs1 at hw1 hd1 hr1 hpd1 hpj1
  have hq2 : WalQuiet (fs1.steps [Step.ws]) := ⟨by simp [FS.steps, FS.step], by simp [FS.steps, FS.step]⟩
  have hpd2 : (fs1.steps [Step.ws]).pd = fsP.pd := by simp [FS.steps, FS.step, hpd1, hpd0]
  have hpj2 : (fs1.steps [Step.ws]).pj = fsP.pj := by simp [FS.steps, FS.step, hpj1, hpj0]
  have hwf2 : (fs1.steps [Step.ws]).wf = fs0.wf ++ frames recs := by simp [FS.steps, FS.step, hw1]
  have hCM := compact_mem m (memUpds (pagesA cfg m fs.pv).1) (cutUpds cfg (m.ws fs.wf)) pp.setpm (cutUpds_cases cfg (m.ws fs.wf))
    (cUpTo m) (pagesA cfg m fs.pv).2.2.2.1 (pagesA cfg m fs.pv).2.2.2.2 (pagesA cfg m fs.pv).2.2.1 (cEdges m) (m.epoch + 1)
  rw [pp.lastpm, pp.lastbm] at hCM
  generalize (memUpds (pagesA cfg m fs.pv).1 ++ ([MemUpd.bumpTxid] ++ cutUpds cfg (m.ws fs.wf) ++
    [MemUpd.compacted (cUpTo m) (pagesA cfg m fs.pv).2.2.2.1 (pagesA cfg m fs.pv).2.2.2.2 (pagesA cfg m fs.pv).2.2.1 (cEdges m)
      (m.epoch + 1)])).foldl applyUpd m = mF at hCM
  refine ⟨compactCs cfg m fs.pv cs, c', ?_, ?_⟩
  · exact
      { pj := by rw [hpj2]; exact hinv.pj
        wal := WalStable.of_quiet hq2 (by rw [hwf2]; exact hcom')
        log := hlog'
        pager := by rw [hpd2]; exact hpager'
        store := by rw [hpd2]; exact hstore'
        full := by rw [hpd2]; exact hinv.full
        mpm := by rw [hCM.pm, hpd2]; exact hinv.mpm
        mbm := by rw [hCM.bm, hpd2]; exact hinv.mbm
        mlen := by rw [hCM.idLen]; exact h.mlen
        mstart := by rw [hCM.idStart, hpd2]; exact hinv.mstart
        mexts := by rw [hCM.exts]; exact h.mexts
        mruns := by rw [hCM.runs, hsc']; exact hruns'.symm
        msegs := by
          rw [hCM.segs, hsc', hpd2]
          simp only [List.map_cons, hsegE]
          congr 1
          exact hinv.msegs
        mroot := by rw [hCM.proot, hsc']
        mptop := by rw [hCM.ptop, hsc']
        mepoch := by rw [hCM.epoch, hsc']
        mtxid := by
          rw [hCM.nextTxid, hsc']
          show max (scan cs).maxTxid m.nextTxid < m.nextTxid + 1
          have := h.mtxid; omega
        mwal := by rw [hCM.walOpen]; exact h.mwal }
  · left
    rw [hwf2, hwf0, ← frames_append]
    have := validLen_frames_append (readAll fs0.wf ++ recs) []
    simp [validLen] at this
    rw [this, frames_length, List.length_append]

end Nervus.Crash
