import Nervus.Model.Bytes
namespace Nervus

theorem bytesLt_irrefl (a : Bytes) : bytesLt a a = false := by
  induction a with
  | nil => rfl
  | cons x xs ih => simp [bytesLt, ih]

theorem u8_lt_asymm {a b : UInt8} (h : a < b) : ¬ b < a := by
  intro h'; exact absurd (UInt8.lt_trans h h') (UInt8.lt_irrefl _)

theorem u8_eq_of_not_lt {a b : UInt8} (h1 : ¬ a < b) (h2 : ¬ b < a) : a = b := by
  apply UInt8.le_antisymm
  · exact UInt8.not_lt.mp h2
  · exact UInt8.not_lt.mp h1

theorem bytesLt_trans : ∀ (a b c : Bytes), bytesLt a b = true → bytesLt b c = true → bytesLt a c = true
  | [], [], _, h, _ => by simp [bytesLt] at h
  | [], _ :: _, [], _, h => by simp [bytesLt] at h
  | [], _ :: _, _ :: _, _, _ => by simp [bytesLt]
  | _ :: _, [], _, h, _ => by simp [bytesLt] at h
  | _ :: _, _ :: _, [], _, h => by simp [bytesLt] at h
  | x :: xs, y :: ys, z :: zs, h1, h2 => by
    simp only [bytesLt] at h1 h2 ⊢
    by_cases hxy : x < y
    · by_cases hyz : y < z
      · simp [UInt8.lt_trans hxy hyz]
      · by_cases hzy : z < y
        · simp [hyz, hzy] at h2
        · have : y = z := u8_eq_of_not_lt hyz hzy
          subst this; simp [hxy]
    · by_cases hyx : y < x
      · simp [hxy, hyx] at h1
      · have : x = y := u8_eq_of_not_lt hxy hyx
        subst this
        simp only [hxy, if_false] at h1
        by_cases hxz : x < z
        · simp [hxz]
        · by_cases hzx : z < x
          · simp [hxz, hzx] at h2
          · simp only [hxz, hzx, if_false] at h2 ⊢
            exact bytesLt_trans xs ys zs h1 h2

theorem bytesLt_total : ∀ (a b : Bytes), bytesLt a b = true ∨ a = b ∨ bytesLt b a = true
  | [], [] => by simp
  | [], _ :: _ => by simp [bytesLt]
  | _ :: _, [] => by simp [bytesLt]
  | x :: xs, y :: ys => by
    simp only [bytesLt]
    by_cases hxy : x < y
    · simp [hxy]
    · by_cases hyx : y < x
      · simp [hxy, hyx]
      · have : x = y := u8_eq_of_not_lt hxy hyx
        subst this
        simp only [hxy, if_false]
        rcases bytesLt_total xs ys with h | h | h
        · simp [h]
        · simp [h]
        · simp [h]

theorem bytesLt_asymm (a b : Bytes) (h : bytesLt a b = true) : bytesLt b a = false := by
  cases hba : bytesLt b a with
  | false => rfl
  | true =>
    have := bytesLt_trans a b a h hba
    simp [bytesLt_irrefl] at this

/-- equal-length prefixes: order is decided by the prefixes, then by the rest -/
theorem bytesLt_append_of_lt : ∀ (a b c d : Bytes), a.length = b.length → bytesLt a b = true →
    bytesLt (a ++ c) (b ++ d) = true
  | [], [], _, _, _, h => by simp [bytesLt] at h
  | [], _ :: _, _, _, hl, _ => by simp at hl
  | _ :: _, [], _, _, hl, _ => by simp at hl
  | x :: xs, y :: ys, c, d, hl, h => by
    simp only [List.cons_append, bytesLt] at h ⊢
    by_cases hxy : x < y
    · simp [hxy]
    · by_cases hyx : y < x
      · simp [hxy, hyx] at h
      · simp only [hxy, hyx, if_false] at h ⊢
        exact bytesLt_append_of_lt xs ys c d (by simpa using hl) h

theorem bytesLt_append_same (a c d : Bytes) : bytesLt (a ++ c) (a ++ d) = bytesLt c d := by
  induction a with
  | nil => rfl
  | cons x xs ih => simp [bytesLt, ih]

theorem bytesLt_cons_same (x : UInt8) (c d : Bytes) : bytesLt (x :: c) (x :: d) = bytesLt c d := by
  simp [bytesLt]

/-! big-endian fixed-width encodings are strictly monotone and injective -/

theorem beBytes_length (n v : Nat) : (beBytes n v).length = n := by
  induction n generalizing v with
  | zero => rfl
  | succ n ih => simp [beBytes, ih]

theorem u8_ofNat_lt {a b : Nat} (ha : a < 256) (hb : b < 256) (h : a < b) :
    UInt8.ofNat a < UInt8.ofNat b := by
  rw [UInt8.lt_iff_toNat_lt]
  simp [UInt8.toNat_ofNat']
  omega

theorem u8_ofNat_inj {a b : Nat} (ha : a < 256) (hb : b < 256) (h : UInt8.ofNat a = UInt8.ofNat b) :
    a = b := by
  have := congrArg UInt8.toNat h
  simp [UInt8.toNat_ofNat'] at this
  omega

theorem beBytes_lt (n : Nat) : ∀ (x y : Nat), x < y → y < 256 ^ n →
    bytesLt (beBytes n x) (beBytes n y) = true := by
  induction n with
  | zero => intro x y h hy; simp at hy; omega
  | succ n ih =>
    intro x y h hy
    simp only [beBytes]
    by_cases hq : x / 256 < y / 256
    · apply bytesLt_append_of_lt
      · simp [beBytes_length]
      · apply ih _ _ hq
        rw [Nat.pow_succ] at hy
        exact Nat.div_lt_of_lt_mul (by omega)
    · have heq : x / 256 = y / 256 := by
        have : x / 256 ≤ y / 256 := Nat.div_le_div_right (by omega)
        omega
      rw [heq, bytesLt_append_same]
      have hx : x % 256 < y % 256 := by omega
      simp [bytesLt, u8_ofNat_lt (Nat.mod_lt _ (by omega)) (Nat.mod_lt _ (by omega)) hx]

theorem beBytes_inj (n : Nat) (x y : Nat) (hx : x < 256 ^ n) (hy : y < 256 ^ n)
    (h : beBytes n x = beBytes n y) : x = y := by
  rcases Nat.lt_trichotomy x y with hlt | heq | hgt
  · have := beBytes_lt n x y hlt hy
    rw [h, bytesLt_irrefl] at this; cases this
  · exact heq
  · have := beBytes_lt n y x hgt hx
    rw [h, bytesLt_irrefl] at this; cases this

/-! proper prefixes -/
theorem properPrefix_length : ∀ (a b : Bytes), properPrefix a b = true → a.length < b.length
  | [], [], h => by simp [properPrefix] at h
  | [], _ :: _, _ => by simp
  | _ :: _, [], h => by simp [properPrefix] at h
  | x :: xs, y :: ys, h => by
    simp only [properPrefix, Bool.and_eq_true] at h
    have := properPrefix_length xs ys h.2
    simp; omega

theorem properPrefix_cons (x y : UInt8) (a b : Bytes) :
    properPrefix (x :: a) (y :: b) = (x == y && properPrefix a b) := rfl

end Nervus
