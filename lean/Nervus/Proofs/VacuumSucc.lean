/-
  C28: vacuum's mark phase SUCCEEDS on a well-formed database.
  The worklist fails in three ways — a page does not pass vacuum's check for the role it is read in,
  a blob page is popped when it is already marked, the fuel runs out.  On a database that is typed,
  whose reachable pages pass their checks and in which every blob page is referenced once, none of
  them happens; the fuel needed is (number of roots) + (number of page references in the file).
-/
import Nervus.Proofs.Vacuum
set_option linter.unusedVariables false
namespace Nervus.Vacuum
open Nervus

/-- the pages of the file with their type -/
def univ (d : Db) (τ : Nat → Role) : List Node := d.pages.map (fun x => (x.1, τ x.1))

/-- references that will still be pushed: successors of the pages not yet marked -/
def futureOf (f : Node → List Node) (U done : List Node) : List Node :=
  (U.filter (fun n => !done.contains n)).flatMap f

theorem futureOf_notin (f : Node → List Node) (n : Node) : ∀ (U done : List Node), n ∉ U →
    futureOf f U (n :: done) = futureOf f U done
  | [], done, _ => rfl
  | u :: U, done, h => by
    have hu : u ≠ n := fun e => h (e ▸ List.mem_cons_self ..)
    have hU : n ∉ U := fun hm => h (List.mem_cons_of_mem _ hm)
    have ih := futureOf_notin f n U done hU
    unfold futureOf at ih ⊢
    have hc : (n :: done).contains u = done.contains u := by
      rw [List.contains_cons]; simp [hu]
    simp only [List.filter_cons, hc]
    split
    · simp only [List.flatMap_cons, ih]
    · exact ih

theorem futureOf_split (f : Node → List Node) (n : Node) : ∀ (U done : List Node), U.Nodup → n ∉ done → n ∈ U →
    ∃ A B, futureOf f U done = A ++ f n ++ B ∧ futureOf f U (n :: done) = A ++ B
  | [], done, _, _, h => by cases h
  | u :: U, done, hnd, hn, hmem => by
    obtain ⟨huU, hndU⟩ := List.nodup_cons.mp hnd
    by_cases hu : u = n
    · subst hu
      refine ⟨[], futureOf f U done, ?_, ?_⟩
      · have : done.contains u = false := by simpa using hn
        simp only [futureOf, List.filter_cons, this, Bool.not_false, if_true, List.flatMap_cons, List.nil_append]
      · have h1 : (u :: done).contains u = true := by simp
        have := futureOf_notin f u U done huU
        unfold futureOf at this ⊢
        simp only [List.filter_cons, h1, Bool.not_true, Bool.false_eq_true, if_false, List.nil_append]
        exact this
    · have hmemU : n ∈ U := by
        rcases List.mem_cons.mp hmem with e | e
        · exact absurd e.symm hu
        · exact e
      obtain ⟨A, B, h1, h2⟩ := futureOf_split f n U done hndU hn hmemU
      have hc : (n :: done).contains u = done.contains u := by
        rw [List.contains_cons]; simp [hu]
      unfold futureOf at h1 h2 ⊢
      by_cases hd : done.contains u = true
      · refine ⟨A, B, ?_, ?_⟩
        · simp only [List.filter_cons, hd, Bool.not_true, Bool.false_eq_true, if_false]; exact h1
        · simp only [List.filter_cons, hc, hd, Bool.not_true, Bool.false_eq_true, if_false]; exact h2
      · have hd' : done.contains u = false := by simpa using hd
        refine ⟨f u ++ A, B, ?_, ?_⟩
        · simp only [List.filter_cons, hd', Bool.not_false, if_true, List.flatMap_cons, h1, List.append_assoc]
        · simp only [List.filter_cons, hc, hd', Bool.not_false, if_true, List.flatMap_cons, h2, List.append_assoc]

/-- what a database needs for the mark phase to go through -/
structure Markable (L : Layout) (d : Db) (τ : Nat → Role) : Prop where
  typed : Typed L d τ
  keys : (d.pages.map (·.1)).Nodup
  checks : ∀ n, Reach (succV L d) (fixed ++ roots L d) n → checkV L n.2 (d.pages.get n.1) = .ok ()
  /-- every blob page is referenced once: among the roots and all page references of the file -/
  blobOnce : ∀ x : Node, x.2 = Role.blob →
    List.count x (roots L d) + List.count x (futureOf (succV L d) (univ d τ) []) ≤ 1

theorem univ_nodup (d : Db) (τ : Nat → Role) (h : (d.pages.map (·.1)).Nodup) : (univ d τ).Nodup := by
  unfold univ
  have : (d.pages.map (fun x => (x.1, τ x.1))) = (d.pages.map (·.1)).map (fun p => (p, τ p)) := by
    simp [List.map_map]
  rw [this]
  exact List.Pairwise.map _ (fun a b hab e => hab (Prod.mk.inj e).1) h

theorem get_none_of_notin {α : Type} (m : BTree.PageMap α) (p : Nat) (h : p ∉ m.map (·.1)) :
    BTree.PageMap.get m p = none := by
  induction m with
  | nil => rfl
  | cons x xs ih =>
    obtain ⟨q, a⟩ := x
    simp only [List.map_cons, List.mem_cons, not_or] at h
    simp only [BTree.PageMap.get]
    have : ¬ q = p := fun e => h.1 e.symm
    simp only [this, if_false]
    exact ih h.2

/-- a typed node that is not a page of the file has no successors -/
theorem succ_nil_of_notin (L : Layout) (d : Db) (τ : Nat → Role) (n : Node) (ht : τ n.1 = n.2)
    (h : n ∉ univ d τ) : succV L d n = [] := by
  have : n.1 ∉ d.pages.map (·.1) := by
    intro hm
    obtain ⟨x, hx, hxe⟩ := List.mem_map.mp hm
    apply h
    unfold univ
    refine List.mem_map.mpr ⟨x, hx, ?_⟩
    rw [hxe, ht]
  simp only [succV, get_none_of_notin _ _ this, succOf_none]

/-- the loop invariant: every work / done node is reachable; no blob node is pending twice, pending and
    marked, or pending and still to be referenced -/
structure LoopInv (L : Layout) (d : Db) (τ : Nat → Role) (work done : List Node) : Prop where
  reachW : ∀ n ∈ work, Reach (succV L d) (fixed ++ roots L d) n
  reachD : ∀ n ∈ done, Reach (succV L d) (fixed ++ roots L d) n
  blob : ∀ x : Node, x.2 = Role.blob →
    List.count x work + List.count x (futureOf (succV L d) (univ d τ) done) + (if x ∈ done then 1 else 0) ≤ 1

theorem markLoop_succeeds (L : Layout) (d : Db) (τ : Nat → Role) (mk : Markable L d τ) :
    ∀ (fuel : Nat) (work done : List Node), LoopInv L d τ work done →
      work.length + (futureOf (succV L d) (univ d τ) done).length ≤ fuel →
      ∃ res, markLoop L d fuel work done = .ok res
  | 0, [], done, _, _ => ⟨done, rfl⟩
  | 0, _ :: _, done, _, hf => by simp at hf
  | f + 1, [], done, _, _ => ⟨done, rfl⟩
  | f + 1, n :: work, done, inv, hf => by
    have hreach := inv.reachW n (List.mem_cons_self ..)
    have htyped : τ n.1 = n.2 := typed_reach L d τ mk.typed n hreach
    simp only [markLoop]
    by_cases hs : seenPage done n.1 = true
    · simp only [hs, if_true]
      obtain ⟨r, hr⟩ := (seenPage_iff done n.1).mp hs
      have hr_t : r = n.2 := by
        have := typed_reach L d τ mk.typed _ (inv.reachD _ hr)
        simp only at this
        rw [← this, htyped]
      have hmem : n ∈ done := by
        have : n = (n.1, r) := by rw [hr_t]
        rw [this]; exact hr
      by_cases hb : n.2 = Role.blob
      · -- a blob pending while already marked contradicts the invariant
        have := inv.blob n hb
        simp only [List.count_cons, beq_self_eq_true, if_true, hmem] at this
        omega
      · simp only [hb, if_false]
        apply markLoop_succeeds L d τ mk f work done
        · refine ⟨fun x hx => inv.reachW x (List.mem_cons_of_mem _ hx), inv.reachD, ?_⟩
          intro x hx
          have := inv.blob x hx
          have hne : ¬ (n == x) = true := by
            intro e; have := eq_of_beq e; subst this; exact hb hx
          simp only [List.count_cons, hne, if_false] at this
          simpa using this
        · simp only [List.length_cons] at hf; omega
    · simp only [hs]
      rw [mk.checks n hreach]
      simp only
      have hnd : n ∉ done := by
        intro hm
        have : seenPage done n.1 = true := (seenPage_iff done n.1).mpr ⟨n.2, hm⟩
        exact hs this
      -- how the pending references change when `n` gets marked
      have hsplit : ∃ A B, futureOf (succV L d) (univ d τ) done = A ++ succV L d n ++ B ∧
          futureOf (succV L d) (univ d τ) (n :: done) = A ++ B := by
        by_cases hu : n ∈ univ d τ
        · exact futureOf_split _ n _ done (univ_nodup d τ mk.keys) hnd hu
        · refine ⟨futureOf (succV L d) (univ d τ) done, [], ?_, ?_⟩
          · rw [succ_nil_of_notin L d τ n htyped hu]; simp
          · rw [futureOf_notin _ n _ done hu]; simp
      obtain ⟨A, B, hA, hB⟩ := hsplit
      apply markLoop_succeeds L d τ mk f (succV L d n ++ work) (n :: done)
      · refine ⟨?_, ?_, ?_⟩
        · intro x hx
          rcases List.mem_append.mp hx with e | e
          · exact Reach.step hreach e
          · exact inv.reachW x (List.mem_cons_of_mem _ e)
        · intro x hx
          rcases List.mem_cons.mp hx with e | e
          · subst e; exact hreach
          · exact inv.reachD x e
        · intro x hx
          have := inv.blob x hx
          rw [hA] at this
          rw [hB]
          simp only [List.count_cons, List.count_append, List.mem_cons] at this ⊢
          by_cases e : n = x
          · subst e
            simp only [beq_self_eq_true, if_true, hnd, if_false, true_or] at this ⊢
            omega
          · have hne : ¬ (n == x) = true := fun h => e (eq_of_beq h)
            have hne' : ¬ x = n := fun h => e h.symm
            simp only [hne, if_false, hne', false_or] at this ⊢
            omega
      · rw [hA] at hf
        rw [hB]
        simp only [List.length_cons, List.length_append] at hf ⊢
        omega

/-- **the mark phase succeeds**: on a markable database, with fuel ≥ number of roots + number of page
    references in the file, vacuum's mark phase returns a page set -/
theorem mark_succeeds (L : Layout) (d : Db) (τ : Nat → Role) (mk : Markable L d τ) (fuel : Nat)
    (hf : (roots L d).length + (futureOf (succV L d) (univ d τ) []).length ≤ fuel) :
    ∃ keep, mark L d fuel = .ok keep := by
  have hfix : ∀ u ∈ univ d τ, (fixed.contains u) = false → True := fun _ _ _ => trivial
  -- the two fixed pages are typed `i2e` and have no successors, so marking them first changes no pending reference
  have hfut : ∀ x, List.count x (futureOf (succV L d) (univ d τ) fixed) ≤ List.count x (futureOf (succV L d) (univ d τ) []) ∧
      (futureOf (succV L d) (univ d τ) fixed).length ≤ (futureOf (succV L d) (univ d τ) []).length := by
    have step : ∀ (n : Node) (done : List Node), n.2 = Role.i2e → n ∉ done → ∀ x,
        List.count x (futureOf (succV L d) (univ d τ) (n :: done)) ≤ List.count x (futureOf (succV L d) (univ d τ) done) ∧
        (futureOf (succV L d) (univ d τ) (n :: done)).length ≤ (futureOf (succV L d) (univ d τ) done).length := by
      intro n done hr hnd x
      by_cases hu : n ∈ univ d τ
      · obtain ⟨A, B, hA, hB⟩ := futureOf_split (succV L d) n _ done (univ_nodup d τ mk.keys) hnd hu
        rw [hA, hB]
        simp only [List.count_append, List.length_append]
        omega
      · rw [futureOf_notin _ n _ done hu]; omega
    intro x
    have s1 := step (1, Role.i2e) [] rfl (by simp) x
    have s0 := step (0, Role.i2e) [(1, Role.i2e)] rfl (by simp) x
    exact ⟨Nat.le_trans s0.1 s1.1, Nat.le_trans s0.2 s1.2⟩
  have inv0 : LoopInv L d τ (roots L d) fixed := by
    refine ⟨fun n hn => Reach.root (List.mem_append_right _ hn), fun n hn => Reach.root (List.mem_append_left _ hn), ?_⟩
    intro x hx
    have h1 := mk.blobOnce x hx
    have h2 := (hfut x).1
    have h3 : x ∉ fixed := by
      intro hm
      simp only [fixed, List.mem_cons, List.not_mem_nil, or_false] at hm
      rcases hm with e | e <;> (rw [e] at hx; cases hx)
    simp only [h3, if_false]
    omega
  obtain ⟨res, hres⟩ := markLoop_succeeds L d τ mk fuel (roots L d) fixed inv0 (by have := (hfut (0, Role.i2e)).2; omega)
  exact ⟨res.map (·.1), by simp [mark, hres]⟩

/-- every reachable node is a fixed page, a root, or referenced by a page of the file -/
theorem reach_mem_refs (L : Layout) (d : Db) (τ : Nat → Role) (ht : Typed L d τ) :
    ∀ n, Reach (succV L d) (fixed ++ roots L d) n →
      n ∈ fixed ++ roots L d ++ (univ d τ).flatMap (succV L d) := by
  intro n hn
  cases hn with
  | root hr => exact List.mem_append_left _ hr
  | step hm hs =>
    rename_i m
    apply List.mem_append_right
    have hmt := typed_reach L d τ ht m hm
    by_cases hu : m ∈ univ d τ
    · exact List.mem_flatMap.mpr ⟨m, hu, hs⟩
    · rw [succ_nil_of_notin L d τ m hmt hu] at hs; cases hs

/-- the conditions of `Markable` as checks over the finitely many pages and references of the file -/
theorem markable_of_refs (L : Layout) (d : Db) (τ : Nat → Role) (ht : Typed L d τ)
    (hk : (d.pages.map (·.1)).Nodup)
    (hc : ∀ n ∈ fixed ++ roots L d ++ (univ d τ).flatMap (succV L d), checkV L n.2 (d.pages.get n.1) = .ok ())
    (hb : ∀ x ∈ roots L d ++ (univ d τ).flatMap (succV L d), x.2 = Role.blob →
      List.count x (roots L d ++ (univ d τ).flatMap (succV L d)) ≤ 1) : Markable L d τ := by
  refine ⟨ht, hk, fun n hn => hc n (reach_mem_refs L d τ ht n hn), ?_⟩
  intro x hx
  have hfut : futureOf (succV L d) (univ d τ) [] = (univ d τ).flatMap (succV L d) := by
    have ft : ∀ l : List Node, l.filter (fun _ => true) = l := by
      intro l; induction l with
      | nil => rfl
      | cons a as ih => simp [List.filter_cons, ih]
    simp only [futureOf, List.contains_nil, Bool.not_false, ft]
  rw [hfut, ← List.count_append]
  by_cases hm : x ∈ roots L d ++ (univ d τ).flatMap (succV L d)
  · exact hb x hm hx
  · rw [List.count_eq_zero.mpr hm]; omega

end Nervus.Vacuum
