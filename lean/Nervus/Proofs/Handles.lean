/-
  Helper lemmas for C10: invariants of the handle LTS (Nervus.Model.Handles).
-/
import Nervus.Model.Handles
namespace Nervus.Handles

/-- invariant of the guarded `open` -/
structure Inv (s : State) : Prop where
  owns : ∀ h, h ∈ s.handles → s.lockTable h.path = some h.id
  fresh : ∀ h, h ∈ s.handles → h.id < s.nextId
  uniq : ∀ h h', h ∈ s.handles → h' ∈ s.handles → h.id = h'.id → h = h'
  one : ∀ p, (writers s p).length ≤ 1

theorem inv_init : Inv init :=
  ⟨by intro h hh; simp [init] at hh, by intro h hh; simp [init] at hh,
   by intro h h' hh; simp [init] at hh, by intro p; simp [writers, init]⟩

theorem filter_length_le_one {α} (l : List α) (p q : α → Bool) (h : (l.filter p).length ≤ 1) :
    ((l.filter q).filter p).length ≤ 1 := by
  have : ((l.filter q).filter p).length ≤ (l.filter p).length := by
    have e : (fun a => p a && q a) = (fun a => q a && p a) := by funext a; exact Bool.and_comm _ _
    rw [List.filter_filter, e, ← List.filter_filter]
    exact List.length_filter_le _ _
  omega

theorem inv_step {os : OsTryLock} (hos : OsSound os) {s : State} (hi : Inv s) (l : Label) :
    Inv (step true os s l).1 := by
  obtain ⟨hown, hfresh, huniq, hone⟩ := hi
  cases l with
  | «open» proc path =>
    simp only [step, if_true]
    split
    · rename_i hok
      have hfree := hos _ _ hok
      have nobody : ∀ h, h ∈ s.handles → h.path ≠ path := by
        intro h hh hp; have := hown h hh; rw [hp, hfree] at this; cases this
      refine ⟨?_, ?_, ?_, ?_⟩
      · intro h hh
        rcases List.mem_cons.mp hh with rfl | hh
        · simp
        · simp [nobody h hh, hown h hh]
      · intro h hh
        rcases List.mem_cons.mp hh with rfl | hh
        · simp
        · have := hfresh h hh; simp; omega
      · intro h h' hh hh' hid
        rcases List.mem_cons.mp hh with rfl | hh <;> rcases List.mem_cons.mp hh' with rfl | hh'
        · rfl
        · have := hfresh h' hh'; simp at hid; omega
        · have := hfresh h hh; simp at hid; omega
        · exact huniq h h' hh hh' hid
      · intro p
        simp only [writers, List.filter_cons]
        by_cases hp : p = path
        · subst hp
          have : s.handles.filter (fun h => h.path == p) = [] := by
            rw [List.filter_eq_nil_iff]; intro h hh; simp [nobody h hh]
          simp [this]
        · have : ((⟨s.nextId, proc, path⟩ : Handle).path == p) = false := by simp; exact fun e => hp e.symm
          simp only [this]; exact hone p
    · exact ⟨hown, hfresh, huniq, hone⟩
  | close id =>
    simp only [step]
    refine ⟨?_, ?_, ?_, ?_⟩
    · intro h hh
      simp only [List.mem_filter, bne_iff_ne, ne_eq] at hh
      simp [release, hown h hh.1, hh.2]
    · intro h hh; simp only [List.mem_filter] at hh; exact hfresh h hh.1
    · intro h h' hh hh' hid
      simp only [List.mem_filter] at hh hh'
      exact huniq h h' hh.1 hh'.1 hid
    · intro p; simp only [writers]; exact filter_length_le_one _ _ _ (hone p)
  | crash proc =>
    simp only [step]
    refine ⟨?_, ?_, ?_, ?_⟩
    · intro h hh
      simp only [List.mem_filter, bne_iff_ne, ne_eq] at hh
      have hnot : ((s.handles.filter (fun h => h.proc == proc)).map (·.id)).contains h.id = false := by
        rw [Bool.eq_false_iff]; intro hc
        simp only [List.contains_iff_mem, List.mem_map, List.mem_filter, beq_iff_eq] at hc
        obtain ⟨h', ⟨hh', hp'⟩, hid⟩ := hc
        have := huniq h' h hh' hh.1 hid
        subst this; exact hh.2 hp'
      simp only [release, hown h hh.1, hnot]
      simp
    · intro h hh; simp only [List.mem_filter] at hh; exact hfresh h hh.1
    · intro h h' hh hh' hid
      simp only [List.mem_filter] at hh hh'
      exact huniq h h' hh.1 hh'.1 hid
    · intro p; simp only [writers]; exact filter_length_le_one _ _ _ (hone p)

theorem reach_inv {os : OsTryLock} (hos : OsSound os) {s : State} (h : Reach true os s) : Inv s := by
  induction h with
  | init => exact inv_init
  | step l _ ih => exact inv_step hos ih l

/-- converse invariant: no stale lock — every lock-table entry belongs to an OPEN handle of that path
    (`close` and process death release the lock with the file description) -/
def NoStale (s : State) : Prop :=
  ∀ p i, s.lockTable p = some i → ∃ h, h ∈ s.handles ∧ h.id = i ∧ h.path = p

theorem noStale_init : NoStale init := by intro p i h; simp [init] at h

theorem noStale_step (os : OsTryLock) {s : State} (hi : NoStale s) (l : Label) :
    NoStale (step true os s l).1 := by
  cases l with
  | «open» proc path =>
    simp only [step, if_true]
    split
    · intro p i h
      simp only at h
      by_cases hp : p = path
      · subst hp
        simp only [if_true, Option.some.injEq] at h
        exact ⟨⟨s.nextId, proc, p⟩, List.mem_cons_self, h, rfl⟩
      · simp only [hp, if_false] at h
        obtain ⟨hd, hm, h1, h2⟩ := hi p i h
        exact ⟨hd, List.mem_cons_of_mem _ hm, h1, h2⟩
    · exact hi
  | close id =>
    simp only [step]
    intro p i h
    simp only [release] at h
    cases ht : s.lockTable p with
    | none => simp [ht] at h
    | some j =>
      simp only [ht] at h
      split at h
      · cases h
      · rename_i hc
        simp only [Option.some.injEq] at h; subst h
        obtain ⟨hd, hm, h1, h2⟩ := hi p j ht
        refine ⟨hd, ?_, h1, h2⟩
        simp only [List.mem_filter, bne_iff_ne, ne_eq]
        refine ⟨hm, ?_⟩
        intro e; apply hc; simp [← e, h1]
  | crash proc =>
    simp only [step]
    intro p i h
    simp only [release] at h
    cases ht : s.lockTable p with
    | none => simp [ht] at h
    | some j =>
      simp only [ht] at h
      split at h
      · cases h
      · rename_i hc
        simp only [Option.some.injEq] at h; subst h
        obtain ⟨hd, hm, h1, h2⟩ := hi p j ht
        refine ⟨hd, ?_, h1, h2⟩
        simp only [List.mem_filter, bne_iff_ne, ne_eq]
        refine ⟨hm, ?_⟩
        intro e; apply hc
        simp only [List.contains_iff_mem, List.mem_map, List.mem_filter, beq_iff_eq]
        exact ⟨hd, ⟨hm, e⟩, h1⟩

theorem reach_noStale {os : OsTryLock} {s : State} (h : Reach true os s) : NoStale s := by
  induction h with
  | init => exact noStale_init
  | step l _ ih => exact noStale_step os ih l

theorem osFlock_sound : OsSound osFlock := by
  intro tbl p h; simp [osFlock] at h; exact h

end Nervus.Handles
