/-
  Operator lemma 2 for C11: a single-hop expand (MatchOut / MatchIn / MatchUndirected on one input row) against
  one step of the reference pattern matching `Spec.matchSteps`.
  The engine tracks the relationships used by the current chain in a hidden row column (the path alias); the
  reference threads the set `used`.  `PathRel` relates the two; `eraseCol` removes the hidden column.
-/
import Nervus.Proofs.CypherOps
namespace Nervus.Cy
open Nervus.Cy

variable (A : Algebra) (env : Env)

/-- no relationship identity has parallel copies (then `path_alias_contains_edge` is plain membership) -/
def NoParallel (g : Graph) : Prop := ∀ e, Exec.edgeMultiplicity g e = 1

theorem filter_eq_length_le_one {l : List RelId} (h : l.Nodup) (e : RelId) :
    (l.filter fun c => c.src == e.src && c.typ == e.typ && c.dst == e.dst).length ≤ 1 := by
  have hfe : (l.filter fun c => c.src == e.src && c.typ == e.typ && c.dst == e.dst) = l.filter (· == e) := by
    apply List.filter_congr
    intro c _
    rw [Bool.eq_iff_iff]
    simp only [Bool.and_eq_true, beq_iff_eq]
    constructor
    · rintro ⟨⟨h1, h2⟩, h3⟩; cases c; cases e; simp_all
    · rintro rfl; simp
  rw [hfe, ← List.count_eq_length_filter]
  exact List.nodup_iff_count.mp h e

theorem noParallel_of_nodup {g : Graph} (h : g.copies.Nodup) : NoParallel g := by
  intro e
  unfold Exec.edgeMultiplicity
  have := filter_eq_length_le_one h e
  omega

def eraseCol (pa : String) (r : Row) : Row := r.filter (·.1 != pa)

/-- the hidden path column of a model row holds exactly the relationships the reference has in `used` -/
def PathRel (r : Row) (pa : String) (used : List RelId) : Prop :=
  match r.get pa with
  | some (.path _ es) => ∀ e, e ∈ es ↔ e ∈ used
  | none => used = []
  | some _ => False

theorem get_eraseCol_ne (pa x : String) (r : Row) (h : x ≠ pa) : (eraseCol pa r).get x = r.get x := by
  induction r with
  | nil => rfl
  | cons p rest ih =>
    obtain ⟨y, w⟩ := p
    by_cases hy : y = pa
    · subst hy
      have h1 : (x == y) = false := by simpa using h
      simp [eraseCol, Row.get, List.lookup, h1] at ih ⊢
      exact ih
    · have h2 : (y != pa) = true := by simpa using hy
      simp only [eraseCol, List.filter, h2, Row.get, List.lookup]
      cases hxy : (x == y)
      · simpa [eraseCol, Row.get] using ih
      · rfl

theorem eraseCol_set_self (pa : String) (r : Row) (v : Val) : eraseCol pa (r.set pa v) = eraseCol pa r := by
  induction r with
  | nil => simp [Row.set, eraseCol]
  | cons p rest ih =>
    obtain ⟨y, w⟩ := p
    by_cases hy : y = pa
    · subst hy; simp [Row.set, eraseCol]
    · have h1 : (y == pa) = false := by simpa using hy
      have h2 : (y != pa) = true := by simpa using hy
      simp only [Row.set, h1, Bool.false_eq_true, ↓reduceIte, eraseCol, List.filter, h2]
      simpa [eraseCol] using ih

theorem eraseCol_set_ne (pa x : String) (r : Row) (v : Val) (h : x ≠ pa) :
    eraseCol pa (r.set x v) = (eraseCol pa r).set x v := by
  induction r with
  | nil =>
    have : (x != pa) = true := by simpa using h
    simp [Row.set, eraseCol, this]
  | cons p rest ih =>
    obtain ⟨y, w⟩ := p
    by_cases hyx : y = x
    · subst hyx
      have h2 : (y != pa) = true := by simpa using h
      simp [Row.set, eraseCol, List.filter, h2]
    · have h1 : (y == x) = false := by simpa using hyx
      by_cases hy : y = pa
      · subst hy
        simp only [Row.set, h1, Bool.false_eq_true, ↓reduceIte, eraseCol, List.filter, bne_self_eq_false]
        simpa [eraseCol] using ih
      · have h2 : (y != pa) = true := by simpa using hy
        simp only [Row.set, h1, Bool.false_eq_true, ↓reduceIte, eraseCol, List.filter, h2]
        rw [show List.filter (fun x => x.1 != pa) (Row.set rest x v) = eraseCol pa (Row.set rest x v) from rfl, ih]
        rfl

theorem Row.set_same (r : Row) (x : String) (v : Val) (h : r.get x = some v) : r.set x v = r := by
  induction r with
  | nil => simp [Row.get, List.lookup] at h
  | cons p rest ih =>
    obtain ⟨y, w⟩ := p
    by_cases hy : y = x
    · subst hy
      simp [Row.get, List.lookup] at h
      simp [Row.set, h]
    · have h1 : (y == x) = false := by simpa using hy
      have h2 : (x == y) = false := by simpa using (Ne.symm hy)
      simp only [Row.get, List.lookup, h2] at h
      simp only [Row.set, h1, Bool.false_eq_true, ↓reduceIte]
      rw [ih h]

/-! ### the candidate relationships of the engine and of the reference are the same bag -/

theorem filter_or_perm {α} (l : List α) (p q : α → Bool) (hd : ∀ x, p x = true → q x = false) :
    (l.filter fun x => p x || q x).Perm (l.filter p ++ l.filter q) := by
  induction l with
  | nil => simp
  | cons x xs ih =>
    cases hp : p x
    · cases hq : q x
      · simpa [List.filter_cons, hp, hq] using ih
      · simp only [List.filter_cons, hp, hq, Bool.or_true, ↓reduceIte, Bool.false_eq_true]
        exact (List.Perm.cons x ih).trans (List.perm_middle.symm)
    · have hq := hd x hp
      simp only [List.filter_cons, hp, hq, Bool.or_false, ↓reduceIte, Bool.false_eq_true, List.cons_append]
      exact List.Perm.cons x ih

theorem filter_types_perm (cs : List RelId) (c : RelId → Bool) (ts : List String) (hnd : ts.Nodup) :
    (cs.filter fun e => ts.contains e.typ && c e).Perm (ts.flatMap fun t => cs.filter fun e => c e && e.typ == t) := by
  induction ts with
  | nil => simp
  | cons t ts ih =>
    rw [List.nodup_cons] at hnd
    have h1 : (cs.filter fun e => (t :: ts).contains e.typ && c e) =
        cs.filter fun e => (c e && e.typ == t) || (ts.contains e.typ && c e) := by
      apply List.filter_congr
      intro e _
      simp only [List.contains_cons]
      cases c e <;> cases (e.typ == t) <;> simp
    rw [h1, List.flatMap_cons]
    refine (filter_or_perm cs _ _ ?_).trans (List.Perm.append_left _ (ih hnd.2))
    intro e he
    simp only [Bool.and_eq_true, beq_iff_eq] at he
    have hn : e.typ ∉ ts := by rw [he.2]; exact hnd.1
    simp [hn]

/-- outgoing candidates: reference traversal = engine neighbour enumeration, as bags -/
theorem traversals_out_perm (g : Graph) (a : Nat) (ev : Option String) (rels : List String) (ps : List (String × Expr))
    (hnd : rels.Nodup) :
    (Spec.traversals g a ⟨ev, rels, .out, ps⟩).Perm ((Exec.outEdges g a rels).map fun e => (e, e.dst)) := by
  have hflat : Spec.traversals g a ⟨ev, rels, .out, ps⟩ =
      (g.copies.filter fun e => (rels.isEmpty || rels.contains e.typ) && e.src == a).map fun e => (e, e.dst) := by
    unfold Spec.traversals
    induction g.copies with
    | nil => rfl
    | cons e es ih =>
      simp only [List.flatMap_cons, List.filter_cons, ih]
      cases h1 : (rels.isEmpty || rels.contains e.typ) <;> cases h2 : (e.src == a) <;> simp [h1, h2]
  rw [hflat]
  apply List.Perm.map
  unfold Exec.outEdges
  cases hrel : rels.isEmpty
  · simp only [Bool.false_or, Bool.false_eq_true, ↓reduceIte]
    exact filter_types_perm g.copies (fun e => e.src == a) rels hnd
  · simp

/-! ### one candidate relationship: engine row (hidden column erased) = reference row -/

theorem pathContains_eq (g : Graph) (hnp : NoParallel g) (r : Row) (pa : String) (used : List RelId) (e : RelId)
    (hpa : PathRel r pa used) : Exec.pathContains g r (some pa) e = used.contains e := by
  unfold PathRel at hpa
  simp only [Exec.pathContains]
  generalize r.get pa = v at hpa ⊢
  match v, hpa with
  | none, hpa => subst hpa; simp
  | some (.path ns es), hpa =>
    simp only [hnp e]
    by_cases hin : e ∈ es
    · have hc : List.count e es ≠ 0 := by
        intro h0; exact (List.count_eq_zero.mp h0) hin
      have hu : e ∈ used := (hpa e).mp hin
      have h1 : (List.count e es == 0) = false := by simpa using hc
      have h2 : List.count e es ≥ 1 := Nat.pos_of_ne_zero hc
      simp [h1, h2, hu]
    · have hc : List.count e es = 0 := List.count_eq_zero.mpr hin
      have hu : e ∉ used := fun h => hin ((hpa e).mpr h)
      simp [hc, hu]

theorem eraseCol_joinPath (pa : String) (r : Row) (a : Nat) (e : RelId) (b : Nat) :
    eraseCol pa (Exec.joinPath r pa a e b) = eraseCol pa r := by
  unfold Exec.joinPath
  split <;> exact eraseCol_set_self pa r _

theorem eraseCol_withOpt (pa : String) (r : Row) (ev : Option String) (v : Val) (h : ∀ x, ev = some x → x ≠ pa) :
    eraseCol pa (Exec.withOpt r ev v) = Exec.withOpt (eraseCol pa r) ev v := by
  cases ev with
  | none => rfl
  | some x => exact eraseCol_set_ne pa x r v (h x rfl)

theorem bind_dst (r1 : Row) (d : String) (nxt : Nat) :
    Spec.bind r1 (some d) (.node nxt) =
      if Exec.nodeBindingOk r1 d nxt then some (r1.set d (.node nxt)) else none := by
  cases hv : r1.get d with
  | none =>
    have h1 : Exec.nodeBindingOk r1 d nxt = true := by simp [Exec.nodeBindingOk, hv]
    have h2 : Spec.bind r1 (some d) (.node nxt) = some (r1.set d (.node nxt)) := by simp [Spec.bind, hv]
    rw [h1, h2]; rfl
  | some w =>
    by_cases hw : w = .node nxt
    · subst hw
      have h1 : Exec.nodeBindingOk r1 d nxt = true := by simp [Exec.nodeBindingOk, hv]
      have h2 : Spec.bind r1 (some d) (.node nxt) = some r1 := by simp [Spec.bind, hv]
      rw [h1, h2, Row.set_same _ _ _ hv]; rfl
    · have h1 : Exec.nodeBindingOk r1 d nxt = false := by
        cases w with
        | node n =>
          have : n ≠ nxt := fun h => hw (by rw [h])
          simp [Exec.nodeBindingOk, hv, this]
        | _ => simp [Exec.nodeBindingOk, hv]
      have h2 : Spec.bind r1 (some d) (.node nxt) = none := by simp [Spec.bind, hv, hw]
      rw [h1, h2]; rfl

/-- the reference binding of the relationship variable and of the destination variable, written with the
    engine's tests -/
theorem bind_chain (rs : Row) (ev : Option String) (d : String) (e : RelId) (nxt : Nat)
    (hev : ∀ x, ev = some x → x ≠ d ∧ rs.get x = none) :
    (Spec.bind rs ev (.rel e)).bind (Spec.bind · (some d) (.node nxt)) =
      if Exec.nodeBindingOk rs d nxt then some ((Exec.withOpt rs ev (.rel e)).set d (.node nxt)) else none := by
  have h1 : Spec.bind rs ev (.rel e) = some (Exec.withOpt rs ev (.rel e)) := by
    cases ev with
    | none => rfl
    | some x => simp [Spec.bind, (hev x rfl).2, Exec.withOpt]
  have hget : (Exec.withOpt rs ev (.rel e)).get d = rs.get d := by
    cases ev with
    | none => rfl
    | some x => exact Row.get_set_ne rs x d _ (fun h => (hev x rfl).1 h.symm)
  have hok : Exec.nodeBindingOk (Exec.withOpt rs ev (.rel e)) d nxt = Exec.nodeBindingOk rs d nxt := by
    simp only [Exec.nodeBindingOk, hget]
  rw [h1, Option.bind, bind_dst, hok]

/-- **operator lemma 2 (outgoing hop, one candidate)** -/
theorem stepOut_edge (g : Graph) (hnp : NoParallel g) (r : Row) (rels : List String) (ev : Option String)
    (d pa : String) (dl : List String) (used : List RelId) (e : RelId)
    (hpa : PathRel r pa used) (hd : d ≠ pa)
    (hev : ∀ x, ev = some x → x ≠ pa ∧ x ≠ d ∧ r.get x = none) :
    ((if Exec.pathContains g r (some pa) e || !Exec.nodeBindingOk r d e.dst || !Exec.labelsOk g e.dst dl then none
      else some (Exec.joinPathOpt ((Exec.withOpt r ev (.rel e)).set d (.node e.dst)) (some pa) e.src e e.dst)).map
        (eraseCol pa)).toList =
    ((if used.contains e || !(Spec.relOk A { g } (eraseCol pa r) ⟨ev, rels, .out, []⟩ e &&
          Spec.nodeOk A { g } (eraseCol pa r) ⟨some d, dl, []⟩ e.dst) then []
      else match (Spec.bind (eraseCol pa r) ev (.rel e)).bind (Spec.bind · (some d) (.node e.dst)) with
        | none => []
        | some r' => Spec.matchSteps A { g } (e :: used) e.dst r' []).map (·.1)) := by
  have hb : Exec.nodeBindingOk (eraseCol pa r) d e.dst = Exec.nodeBindingOk r d e.dst := by
    simp only [Exec.nodeBindingOk, get_eraseCol_ne pa d r hd]
  have hchain := bind_chain (eraseCol pa r) ev d e e.dst (fun x hx =>
    ⟨(hev x hx).2.1, by rw [get_eraseCol_ne pa x r (hev x hx).1]; exact (hev x hx).2.2⟩)
  rw [hchain, hb, pathContains_eq g hnp r pa used e hpa]
  simp only [Spec.relOk, Spec.propsOk, List.all_nil, Spec.nodeOk, Bool.and_true, Bool.true_and, Exec.labelsOk]
  by_cases hu : used.contains e = true
  · have hmem : e ∈ used := by simpa using hu
    simp [hmem]
  · have hu' : used.contains e = false := by simpa using hu
    by_cases hl : dl.all (g.hasLabel e.dst) = true
    · by_cases hn : Exec.nodeBindingOk r d e.dst = true
      · simp only [hu', hl, hn, Bool.not_true, Bool.or_self, Bool.false_eq_true, ↓reduceIte, Option.map_some,
          Option.toList_some, Spec.matchSteps, List.map_cons, List.map_nil, Exec.joinPathOpt]
        rw [eraseCol_joinPath, eraseCol_set_ne pa d _ _ hd,
          eraseCol_withOpt pa r ev _ (fun x hx => (hev x hx).1)]
      · have hn' : Exec.nodeBindingOk r d e.dst = false := by simpa using hn
        simp [hu', hl, hn']
    · have hl' : dl.all (g.hasLabel e.dst) = false := by simpa using hl
      simp [hu', hl']

theorem filterMap_map_eq_flatMap {α β γ} (l : List α) (f : α → Option β) (h : β → γ) :
    (l.filterMap f).map h = l.flatMap fun x => ((f x).map h).toList := by
  induction l with
  | nil => rfl
  | cons x xs ih =>
    simp only [List.filterMap_cons, List.flatMap_cons]
    cases hf : f x <;> simp [ih]

/-- **operator lemma 2 (outgoing hop, one input row)** — on a graph without parallel copies, for a row whose
    hidden path column holds the relationships `used` so far, the rows MatchOut produces (hidden column erased)
    are, as a bag, the rows one step of the reference pattern matching produces. -/
theorem expand_out_row (g : Graph) (hnp : NoParallel g) (r : Row) (a : Nat) (rels : List String)
    (hrels : rels.Nodup) (ev : Option String) (d pa : String) (dl : List String) (used : List RelId)
    (hpa : PathRel r pa used) (hd : d ≠ pa)
    (hev : ∀ x, ev = some x → x ≠ pa ∧ x ≠ d ∧ r.get x = none) :
    ((Exec.stepOut g r a rels ev d dl (some pa)).map (eraseCol pa)).Perm
      ((Spec.matchSteps A { g } used a (eraseCol pa r) [(⟨ev, rels, .out, []⟩, ⟨some d, dl, []⟩)]).map (·.1)) := by
  unfold Exec.stepOut
  rw [filterMap_map_eq_flatMap]
  simp only [Spec.matchSteps, List.map_flatMap]
  refine List.Perm.trans ?_ (List.Perm.flatMap_right _ (traversals_out_perm g a ev rels [] hrels)).symm
  rw [List.flatMap_map]
  apply List.Perm.of_eq
  have hfun : (fun e : RelId =>
      ((if Exec.pathContains g r (some pa) e || !Exec.nodeBindingOk r d e.dst || !Exec.labelsOk g e.dst dl then none
        else some (Exec.joinPathOpt ((Exec.withOpt r ev (.rel e)).set d (.node e.dst)) (some pa) e.src e e.dst)).map
          (eraseCol pa)).toList) = fun e : RelId =>
      ((if used.contains e || !(Spec.relOk A { g } (eraseCol pa r) ⟨ev, rels, .out, []⟩ e &&
            Spec.nodeOk A { g } (eraseCol pa r) ⟨some d, dl, []⟩ e.dst) then []
        else match (Spec.bind (eraseCol pa r) ev (.rel e)).bind (Spec.bind · (some d) (.node e.dst)) with
          | none => []
          | some r' => Spec.matchSteps A { g } (e :: used) e.dst r' []).map (·.1)) := by
    funext e
    exact stepOut_edge A g hnp r rels ev d pa dl used e hpa hd hev
  simp only [Spec.matchSteps] at hfun
  rw [hfun]
  rfl

/-! ### incoming and undirected hops: the engine binds the destination before the relationship variable, the
    reference the other way round — rows agree up to column order (`Row.Equiv`) -/

/-- same bindings, possibly in another column order -/
def Row.Equiv (r r' : Row) : Prop := ∀ x, r.get x = r'.get x

theorem Row.Equiv.refl (r : Row) : Row.Equiv r r := fun _ => rfl

/-- position-wise equivalent tables -/
def RowsEquiv : Table → Table → Prop
  | [], [] => True
  | a :: as, b :: bs => Row.Equiv a b ∧ RowsEquiv as bs
  | _, _ => False

theorem RowsEquiv.refl : ∀ T : Table, RowsEquiv T T
  | [] => trivial
  | r :: rs => ⟨Row.Equiv.refl r, RowsEquiv.refl rs⟩

theorem RowsEquiv.append {a b c d : Table} (h1 : RowsEquiv a b) (h2 : RowsEquiv c d) : RowsEquiv (a ++ c) (b ++ d) := by
  induction a generalizing b with
  | nil => cases b with
    | nil => simpa using h2
    | cons _ _ => exact absurd h1 (by simp [RowsEquiv])
  | cons x xs ih => cases b with
    | nil => exact absurd h1 (by simp [RowsEquiv])
    | cons y ys => exact ⟨h1.1, ih h1.2⟩

theorem RowsEquiv.flatMap {α} (l : List α) (f g : α → Table) (h : ∀ x ∈ l, RowsEquiv (f x) (g x)) :
    RowsEquiv (l.flatMap f) (l.flatMap g) := by
  induction l with
  | nil => trivial
  | cons x xs ih =>
    simp only [List.flatMap_cons]
    exact RowsEquiv.append (h x (by simp)) (ih fun y hy => h y (List.mem_cons_of_mem _ hy))

/-- the same bag of rows up to column order -/
def TableEquiv (T T' : Table) : Prop := ∃ T'', T.Perm T'' ∧ RowsEquiv T'' T'

theorem set_comm_equiv (r : Row) (x y : String) (v w : Val) (h : x ≠ y) :
    Row.Equiv ((r.set x v).set y w) ((r.set y w).set x v) := by
  intro z
  by_cases hzx : z = x
  · subst hzx
    rw [Row.get_set_ne _ y z w h, Row.get_set_self, Row.get_set_self]
  · by_cases hzy : z = y
    · subst hzy
      rw [Row.get_set_self, Row.get_set_ne _ x z v hzx, Row.get_set_self]
    · rw [Row.get_set_ne _ y z w hzy, Row.get_set_ne _ x z v hzx, Row.get_set_ne _ x z v hzx,
        Row.get_set_ne _ y z w hzy]

/-- destination-then-relationship (engine, MatchIn / MatchUndirected) vs relationship-then-destination
    (reference) -/
theorem withOpt_set_equiv (rs : Row) (ev : Option String) (d : String) (v w : Val)
    (h : ∀ x, ev = some x → x ≠ d) :
    Row.Equiv (Exec.withOpt (rs.set d v) ev w) ((Exec.withOpt rs ev w).set d v) := by
  cases ev with
  | none => exact Row.Equiv.refl _
  | some x => exact set_comm_equiv rs d x v w (fun hh => h x rfl hh.symm)

/-- the common shape of `stepIn`, `stepInNoLoop`, `stepOutU`: candidates `cands`, `tgt e` the node reached,
    `frm e` the node left -/
def stepGen (g : Graph) (cands : List RelId) (tgt frm : RelId → Nat) (r : Row) (ev : Option String) (d : String)
    (dl : List String) (pa : String) : List Row :=
  cands.filterMap fun e =>
    if Exec.pathContains g r (some pa) e || !Exec.nodeBindingOk r d (tgt e) || !Exec.labelsOk g (tgt e) dl then none
    else some (Exec.joinPathOpt (Exec.withOpt (r.set d (.node (tgt e))) ev (.rel e)) (some pa) (frm e) e (tgt e))

/-- what the reference does with one candidate (relationship identity, node reached) -/
def specCand (A : Algebra) (g : Graph) (used : List RelId) (rs : Row) (rp : RelPat) (np : NodePat)
    (c : RelId × Nat) : List (Row × List RelId) :=
  if used.contains c.1 || !(Spec.relOk A { g } rs rp c.1 && Spec.nodeOk A { g } rs np c.2) then []
  else match (Spec.bind rs rp.var (.rel c.1)).bind (Spec.bind · np.var (.node c.2)) with
    | none => []
    | some r' => [(r', c.1 :: used)]

theorem matchSteps_single (g : Graph) (used : List RelId) (cur : Nat) (rs : Row) (rp : RelPat) (np : NodePat) :
    Spec.matchSteps A { g } used cur rs [(rp, np)] =
      (Spec.traversals g cur rp).flatMap (specCand A g used rs rp np) := by
  simp only [Spec.matchSteps]
  rfl

/-- one candidate, destination-then-relationship order -/
theorem stepGen_cand (g : Graph) (hnp : NoParallel g) (r : Row) (rels : List String) (dir : Dir)
    (ev : Option String) (d pa : String) (dl : List String) (used : List RelId) (e : RelId) (n a : Nat)
    (hpa : PathRel r pa used) (hd : d ≠ pa)
    (hev : ∀ x, ev = some x → x ≠ pa ∧ x ≠ d ∧ r.get x = none) :
    RowsEquiv
      (((if Exec.pathContains g r (some pa) e || !Exec.nodeBindingOk r d n || !Exec.labelsOk g n dl then none
        else some (Exec.joinPathOpt (Exec.withOpt (r.set d (.node n)) ev (.rel e)) (some pa) a e n)).map
          (eraseCol pa)).toList)
      ((specCand A g used (eraseCol pa r) ⟨ev, rels, dir, []⟩ ⟨some d, dl, []⟩ (e, n)).map (·.1)) := by
  have hb : Exec.nodeBindingOk (eraseCol pa r) d n = Exec.nodeBindingOk r d n := by
    simp only [Exec.nodeBindingOk, get_eraseCol_ne pa d r hd]
  have hchain := bind_chain (eraseCol pa r) ev d e n (fun x hx =>
    ⟨(hev x hx).2.1, by rw [get_eraseCol_ne pa x r (hev x hx).1]; exact (hev x hx).2.2⟩)
  unfold specCand
  simp only []
  rw [hchain, hb, pathContains_eq g hnp r pa used e hpa]
  simp only [Spec.relOk, Spec.propsOk, List.all_nil, Spec.nodeOk, Bool.and_true, Bool.true_and, Exec.labelsOk]
  by_cases hu : used.contains e = true
  · have hmem : e ∈ used := by simpa using hu
    simp [hmem, RowsEquiv]
  · have hu' : used.contains e = false := by simpa using hu
    by_cases hl : dl.all (g.hasLabel n) = true
    · by_cases hn : Exec.nodeBindingOk r d n = true
      · simp only [hu', hl, hn, Bool.not_true, Bool.or_self, Bool.false_eq_true, ↓reduceIte, Option.map_some,
          Option.toList_some, List.map_cons, List.map_nil, Exec.joinPathOpt, RowsEquiv, and_true]
        rw [eraseCol_joinPath, eraseCol_withOpt pa _ ev _ (fun x hx => (hev x hx).1), eraseCol_set_ne pa d _ _ hd]
        exact withOpt_set_equiv _ ev d _ _ (fun x hx => (hev x hx).2.1)
      · have hn' : Exec.nodeBindingOk r d n = false := by simpa using hn
        simp [hu', hl, hn', RowsEquiv]
    · have hl' : dl.all (g.hasLabel n) = false := by simpa using hl
      simp [hu', hl', RowsEquiv]

/-- a whole candidate list -/
theorem stepGen_equiv (g : Graph) (hnp : NoParallel g) (cands : List RelId) (tgt frm : RelId → Nat) (r : Row)
    (rels : List String) (dir : Dir) (ev : Option String) (d pa : String) (dl : List String) (used : List RelId)
    (hpa : PathRel r pa used) (hd : d ≠ pa)
    (hev : ∀ x, ev = some x → x ≠ pa ∧ x ≠ d ∧ r.get x = none) :
    RowsEquiv ((stepGen g cands tgt frm r ev d dl pa).map (eraseCol pa))
      (((cands.map fun e => (e, tgt e)).flatMap
        (specCand A g used (eraseCol pa r) ⟨ev, rels, dir, []⟩ ⟨some d, dl, []⟩)).map (·.1)) := by
  unfold stepGen
  rw [filterMap_map_eq_flatMap, List.map_flatMap, List.flatMap_map]
  apply RowsEquiv.flatMap
  intro e _
  exact stepGen_cand A g hnp r rels dir ev d pa dl used e (tgt e) (frm e) hpa hd hev

theorem RowsEquiv.perm_right {X Y Y' : Table} (h : RowsEquiv X Y) (hp : Y.Perm Y') :
    ∃ X', X.Perm X' ∧ RowsEquiv X' Y' := by
  induction hp generalizing X with
  | nil => exact ⟨X, List.Perm.refl _, h⟩
  | cons y _ ih =>
    cases X with
    | nil => exact absurd h (by simp [RowsEquiv])
    | cons x xs =>
      obtain ⟨xs', hp', he'⟩ := ih h.2
      exact ⟨x :: xs', List.Perm.cons x hp', h.1, he'⟩
  | swap a b l =>
    match X, h with
    | x1 :: x2 :: xs, h => exact ⟨x2 :: x1 :: xs, List.Perm.swap x2 x1 xs, h.2.1, h.1, h.2.2⟩
  | trans _ _ ih1 ih2 =>
    obtain ⟨X1, hp1, he1⟩ := ih1 h
    obtain ⟨X2, hp2, he2⟩ := ih2 he1
    exact ⟨X2, hp1.trans hp2, he2⟩

theorem TableEquiv.of {T T1 S1 S : Table} (h1 : T.Perm T1) (h2 : RowsEquiv T1 S1) (h3 : S1.Perm S) :
    TableEquiv T S := by
  obtain ⟨X, hp, he⟩ := h2.perm_right h3
  exact ⟨X, h1.trans hp, he⟩

theorem RowsEquiv.map_fst_nil : RowsEquiv [] [] := trivial

theorem flatMap_append_perm' {α β} (l : List α) (f g : α → List β) :
    (l.flatMap fun x => f x ++ g x).Perm (l.flatMap f ++ l.flatMap g) := by
  induction l with
  | nil => simp
  | cons x xs ih =>
    simp only [List.flatMap_cons]
    have h1 : (f x ++ g x ++ List.flatMap (fun x => f x ++ g x) xs).Perm
        (f x ++ g x ++ (List.flatMap f xs ++ List.flatMap g xs)) := List.Perm.append_left _ ih
    refine h1.trans ?_
    rw [List.append_assoc, List.append_assoc]
    apply List.Perm.append_left
    rw [← List.append_assoc, ← List.append_assoc]
    exact List.Perm.append_right _ List.perm_append_comm

/-- incoming candidates: reference traversal = engine enumeration, as bags -/
theorem traversals_in_perm (g : Graph) (a : Nat) (ev : Option String) (rels : List String) (ps : List (String × Expr))
    (hnd : rels.Nodup) :
    (Spec.traversals g a ⟨ev, rels, .inn, ps⟩).Perm ((Exec.inEdges g a rels).map fun e => (e, e.src)) := by
  have hflat : Spec.traversals g a ⟨ev, rels, .inn, ps⟩ =
      (g.copies.filter fun e => (rels.isEmpty || rels.contains e.typ) && e.dst == a).map fun e => (e, e.src) := by
    unfold Spec.traversals
    induction g.copies with
    | nil => rfl
    | cons e es ih =>
      simp only [List.flatMap_cons, List.filter_cons, ih]
      cases h1 : (rels.isEmpty || rels.contains e.typ) <;> cases h2 : (e.dst == a) <;> simp [h1, h2]
  rw [hflat]
  apply List.Perm.map
  unfold Exec.inEdges
  cases hrel : rels.isEmpty
  · simp only [Bool.false_or, Bool.false_eq_true, ↓reduceIte]
    exact filter_types_perm g.copies (fun e => e.dst == a) rels hnd
  · simp

theorem stepIn_eq_stepGen (g : Graph) (r : Row) (a : Nat) (rels : List String) (ev : Option String) (d : String)
    (dl : List String) (pa : String) :
    Exec.stepIn g r a rels ev d dl (some pa) = stepGen g (Exec.inEdges g a rels) (·.src) (·.dst) r ev d dl pa := rfl

/-- **operator lemma 2 (incoming hop, one input row)** — as `expand_out_row`, for MatchIn; the rows agree up to
    column order. -/
theorem expand_in_row (g : Graph) (hnp : NoParallel g) (r : Row) (a : Nat) (rels : List String)
    (hrels : rels.Nodup) (ev : Option String) (d pa : String) (dl : List String) (used : List RelId)
    (hpa : PathRel r pa used) (hd : d ≠ pa)
    (hev : ∀ x, ev = some x → x ≠ pa ∧ x ≠ d ∧ r.get x = none) :
    TableEquiv ((Exec.stepIn g r a rels ev d dl (some pa)).map (eraseCol pa))
      ((Spec.matchSteps A { g } used a (eraseCol pa r) [(⟨ev, rels, .inn, []⟩, ⟨some d, dl, []⟩)]).map (·.1)) := by
  rw [stepIn_eq_stepGen, matchSteps_single]
  refine TableEquiv.of (List.Perm.refl _)
    (stepGen_equiv A g hnp _ (·.src) (·.dst) r rels .inn ev d pa dl used hpa hd hev) ?_
  exact (List.Perm.map _ (List.Perm.flatMap_right _ (traversals_in_perm g a ev rels [] hrels))).symm

/-! ### undirected hop (outgoing half, then incoming half without self-loops) -/

def insNoLoop (g : Graph) (a : Nat) (rels : List String) : List RelId :=
  (Exec.inEdges g a rels).filter fun e => e.src != e.dst

theorem stepOutU_eq_stepGen (g : Graph) (r : Row) (a : Nat) (rels : List String) (ev : Option String) (d : String)
    (dl : List String) (pa : String) :
    Exec.stepOutU g r a rels ev d dl (some pa) = stepGen g (Exec.outEdges g a rels) (·.dst) (·.src) r ev d dl pa := rfl

theorem stepInNoLoop_eq_stepGen (g : Graph) (r : Row) (a : Nat) (rels : List String) (ev : Option String)
    (d : String) (dl : List String) (pa : String) :
    Exec.stepInNoLoop g r a rels ev d dl (some pa) = stepGen g (insNoLoop g a rels) (·.src) (·.dst) r ev d dl pa := by
  unfold Exec.stepInNoLoop stepGen insNoLoop
  rw [List.filterMap_filter]
  congr 1
  funext e
  cases h : (e.src == e.dst) <;> simp [h, bne]

theorem outEdges_single_flatMap (g : Graph) (a : Nat) (rels : List String) (h : rels.isEmpty = false) :
    (rels.flatMap fun t => Exec.outEdges g a [t]) = Exec.outEdges g a rels := by
  simp [Exec.outEdges, h]

theorem inEdges_single_flatMap (g : Graph) (a : Nat) (rels : List String) (h : rels.isEmpty = false) :
    (rels.flatMap fun t => Exec.inEdges g a [t]) = Exec.inEdges g a rels := by
  simp [Exec.inEdges, h]

theorem stepGen_flatMap {α} (g : Graph) (l : List α) (c : α → List RelId) (tgt frm : RelId → Nat) (r : Row)
    (ev : Option String) (d : String) (dl : List String) (pa : String) :
    (l.flatMap fun t => stepGen g (c t) tgt frm r ev d dl pa) = stepGen g (l.flatMap c) tgt frm r ev d dl pa := by
  unfold stepGen
  rw [List.filterMap_flatMap]

theorem stepGen_append (g : Graph) (c1 c2 : List RelId) (tgt frm : RelId → Nat) (r : Row)
    (ev : Option String) (d : String) (dl : List String) (pa : String) :
    stepGen g (c1 ++ c2) tgt frm r ev d dl pa = stepGen g c1 tgt frm r ev d dl pa ++ stepGen g c2 tgt frm r ev d dl pa := by
  unfold stepGen
  rw [List.filterMap_append]

/-- the rows of an undirected step: the outgoing candidates, then the incoming non-loop candidates -/
theorem stepBoth_perm (g : Graph) (r : Row) (a : Nat) (rels : List String) (ev : Option String) (d : String)
    (dl : List String) (pa : String) :
    (Exec.stepBoth g r a rels ev d dl (some pa)).Perm
      (stepGen g (Exec.outEdges g a rels) (·.dst) (·.src) r ev d dl pa ++
        stepGen g (insNoLoop g a rels) (·.src) (·.dst) r ev d dl pa) := by
  unfold Exec.stepBoth
  cases h : rels.isEmpty
  · simp only [Bool.false_eq_true, ↓reduceIte]
    refine (flatMap_append_perm' rels _ _).trans ?_
    have h1 : (rels.flatMap fun t => Exec.stepOutU g r a [t] ev d dl (some pa)) =
        stepGen g (Exec.outEdges g a rels) (·.dst) (·.src) r ev d dl pa := by
      simp only [stepOutU_eq_stepGen]
      rw [stepGen_flatMap, outEdges_single_flatMap g a rels h]
    have h2 : (rels.flatMap fun t => Exec.stepInNoLoop g r a [t] ev d dl (some pa)) =
        stepGen g (insNoLoop g a rels) (·.src) (·.dst) r ev d dl pa := by
      simp only [stepInNoLoop_eq_stepGen]
      rw [stepGen_flatMap]
      congr 1
      unfold insNoLoop
      rw [← inEdges_single_flatMap g a rels h, List.filter_flatMap]
    rw [h1, h2]
  · have hr : rels = [] := by simpa using h
    subst hr
    simp only [↓reduceIte, stepOutU_eq_stepGen, stepInNoLoop_eq_stepGen]
    exact List.Perm.refl _

/-- undirected candidates: reference traversal (a self-loop once) = engine enumeration, as bags -/
theorem traversals_both_perm (g : Graph) (a : Nat) (ev : Option String) (rels : List String)
    (ps : List (String × Expr)) (hnd : rels.Nodup) :
    (Spec.traversals g a ⟨ev, rels, .both, ps⟩).Perm
      (((Exec.outEdges g a rels).map fun e => (e, e.dst)) ++ ((insNoLoop g a rels).map fun e => (e, e.src))) := by
  have hsplit : Spec.traversals g a ⟨ev, rels, .both, ps⟩ =
      g.copies.flatMap fun e =>
        (if (rels.isEmpty || rels.contains e.typ) && e.src == a then [(e, e.dst)] else []) ++
        (if (rels.isEmpty || rels.contains e.typ) && (e.dst == a && e.src != e.dst) then [(e, e.src)] else []) := by
    unfold Spec.traversals
    congr 1
    funext e
    cases h1 : (rels.isEmpty || rels.contains e.typ) <;> simp [h1]
  rw [hsplit]
  refine (flatMap_append_perm' _ _ _).trans (List.Perm.append ?_ ?_)
  · have : (g.copies.flatMap fun e =>
        if (rels.isEmpty || rels.contains e.typ) && e.src == a then [(e, e.dst)] else []) =
        (g.copies.filter fun e => (rels.isEmpty || rels.contains e.typ) && e.src == a).map fun e => (e, e.dst) := by
      induction g.copies with
      | nil => rfl
      | cons e es ih =>
        simp only [List.flatMap_cons, List.filter_cons, ih]
        cases h : ((rels.isEmpty || rels.contains e.typ) && e.src == a) <;> simp [h]
    rw [this]
    apply List.Perm.map
    unfold Exec.outEdges
    cases hrel : rels.isEmpty
    · simp only [Bool.false_or, Bool.false_eq_true, ↓reduceIte]
      exact filter_types_perm g.copies (fun e => e.src == a) rels hnd
    · simp
  · have : (g.copies.flatMap fun e =>
        if (rels.isEmpty || rels.contains e.typ) && (e.dst == a && e.src != e.dst) then [(e, e.src)] else []) =
        (g.copies.filter fun e => (rels.isEmpty || rels.contains e.typ) && (e.dst == a && e.src != e.dst)).map
          fun e => (e, e.src) := by
      induction g.copies with
      | nil => rfl
      | cons e es ih =>
        simp only [List.flatMap_cons, List.filter_cons, ih]
        cases h : ((rels.isEmpty || rels.contains e.typ) && (e.dst == a && e.src != e.dst)) <;> simp [h]
    rw [this]
    apply List.Perm.map
    unfold insNoLoop Exec.inEdges
    cases hrel : rels.isEmpty
    · simp only [Bool.false_or, Bool.false_eq_true, ↓reduceIte]
      refine (filter_types_perm g.copies (fun e => e.dst == a && e.src != e.dst) rels hnd).trans ?_
      rw [List.filter_flatMap]
      apply List.Perm.of_eq
      congr 1
      funext t
      rw [List.filter_filter]
      apply List.filter_congr
      intro e _
      cases (e.dst == a) <;> cases (e.typ == t) <;> cases (e.src != e.dst) <;> rfl
    · simp only [Bool.true_or, Bool.true_and, ↓reduceIte, List.filter_filter]
      apply List.Perm.of_eq
      apply List.filter_congr
      intro e _
      cases (e.dst == a) <;> cases (e.src != e.dst) <;> rfl

/-- **operator lemma 2 (undirected hop, one input row)** — MatchUndirected against one undirected step of the
    reference matching, including the self-loop rule (a loop is walked once). -/
theorem expand_both_row (g : Graph) (hnp : NoParallel g) (r : Row) (a : Nat) (rels : List String)
    (hrels : rels.Nodup) (ev : Option String) (d pa : String) (dl : List String) (used : List RelId)
    (hpa : PathRel r pa used) (hd : d ≠ pa)
    (hev : ∀ x, ev = some x → x ≠ pa ∧ x ≠ d ∧ r.get x = none) :
    TableEquiv ((Exec.stepBoth g r a rels ev d dl (some pa)).map (eraseCol pa))
      ((Spec.matchSteps A { g } used a (eraseCol pa r) [(⟨ev, rels, .both, []⟩, ⟨some d, dl, []⟩)]).map (·.1)) := by
  rw [matchSteps_single]
  refine TableEquiv.of (S1 := ((((Exec.outEdges g a rels).map fun e => (e, e.dst)) ++
      ((insNoLoop g a rels).map fun e => (e, e.src))).flatMap
      (specCand A g used (eraseCol pa r) ⟨ev, rels, .both, []⟩ ⟨some d, dl, []⟩)).map (·.1))
    (List.Perm.map _ (stepBoth_perm g r a rels ev d dl pa)) ?_ ?_
  · rw [List.map_append, List.flatMap_append, List.map_append]
    exact RowsEquiv.append
      (stepGen_equiv A g hnp _ (·.dst) (·.src) r rels .both ev d pa dl used hpa hd hev)
      (stepGen_equiv A g hnp _ (·.src) (·.dst) r rels .both ev d pa dl used hpa hd hev)
  · exact (List.Perm.map _ (List.Perm.flatMap_right _ (traversals_both_perm g a ev rels [] hrels))).symm

end Nervus.Cy
