/-
  Operator lemma 2 for C11: a single-hop expand (MatchOut / MatchIn / MatchUndirected on one input row) against
  one step of the reference pattern matching `Spec.matchSteps`.
  The engine tracks the relationships used by the current chain in a hidden row column (the path alias); the
  reference threads the set `used`.  `PathRel` relates the two; `eraseCol` removes the hidden column.
-/
import Nervus.Proofs.CypherOps
namespace Nervus.Cy
open Nervus.Cy

variable (A : Algebra) (env : Env)

/-- no relationship identity has parallel copies (then `path_alias_contains_edge` is plain membership) -/
def NoParallel (g : Graph) : Prop := ∀ e, Exec.edgeMultiplicity g e = 1

theorem filter_eq_length_le_one {l : List RelId} (h : l.Nodup) (e : RelId) :
    (l.filter fun c => c.src == e.src && c.typ == e.typ && c.dst == e.dst).length ≤ 1 := by
  have hfe : (l.filter fun c => c.src == e.src && c.typ == e.typ && c.dst == e.dst) = l.filter (· == e) := by
    apply List.filter_congr
    intro c _
    rw [Bool.eq_iff_iff]
    simp only [Bool.and_eq_true, beq_iff_eq]
    constructor
    · rintro ⟨⟨h1, h2⟩, h3⟩; cases c; cases e; simp_all
    · rintro rfl; simp
  rw [hfe, ← List.count_eq_length_filter]
  exact List.nodup_iff_count.mp h e

theorem noParallel_of_nodup {g : Graph} (h : g.copies.Nodup) : NoParallel g := by
  intro e
  unfold Exec.edgeMultiplicity
  have := filter_eq_length_le_one h e
  omega

def eraseCol (pa : String) (r : Row) : Row := r.filter (·.1 != pa)

/-- the hidden path column of a model row holds exactly the relationships the reference has in `used` -/
def PathRel (r : Row) (pa : String) (used : List RelId) : Prop :=
  match r.get pa with
  | some (.path _ es) => ∀ e, e ∈ es ↔ e ∈ used
  | none => used = []
  | some _ => False

theorem get_eraseCol_ne (pa x : String) (r : Row) (h : x ≠ pa) : (eraseCol pa r).get x = r.get x := by
  induction r with
  | nil => rfl
  | cons p rest ih =>
    obtain ⟨y, w⟩ := p
    by_cases hy : y = pa
    · subst hy
      have h1 : (x == y) = false := by simpa using h
      simp [eraseCol, Row.get, List.lookup, h1] at ih ⊢
      exact ih
    · have h2 : (y != pa) = true := by simpa using hy
      simp only [eraseCol, List.filter, h2, Row.get, List.lookup]
      cases hxy : (x == y)
      · simpa [eraseCol, Row.get] using ih
      · rfl

theorem eraseCol_set_self (pa : String) (r : Row) (v : Val) : eraseCol pa (r.set pa v) = eraseCol pa r := by
  induction r with
  | nil => simp [Row.set, eraseCol]
  | cons p rest ih =>
    obtain ⟨y, w⟩ := p
    by_cases hy : y = pa
    · subst hy; simp [Row.set, eraseCol]
    · have h1 : (y == pa) = false := by simpa using hy
      have h2 : (y != pa) = true := by simpa using hy
      simp only [Row.set, h1, Bool.false_eq_true, ↓reduceIte, eraseCol, List.filter, h2]
      simpa [eraseCol] using ih

theorem eraseCol_set_ne (pa x : String) (r : Row) (v : Val) (h : x ≠ pa) :
    eraseCol pa (r.set x v) = (eraseCol pa r).set x v := by
  induction r with
  | nil =>
    have : (x != pa) = true := by simpa using h
    simp [Row.set, eraseCol, this]
  | cons p rest ih =>
    obtain ⟨y, w⟩ := p
    by_cases hyx : y = x
    · subst hyx
      have h2 : (y != pa) = true := by simpa using h
      simp [Row.set, eraseCol, List.filter, h2]
    · have h1 : (y == x) = false := by simpa using hyx
      by_cases hy : y = pa
      · subst hy
        simp only [Row.set, h1, Bool.false_eq_true, ↓reduceIte, eraseCol, List.filter, bne_self_eq_false]
        simpa [eraseCol] using ih
      · have h2 : (y != pa) = true := by simpa using hy
        simp only [Row.set, h1, Bool.false_eq_true, ↓reduceIte, eraseCol, List.filter, h2]
        rw [show List.filter (fun x => x.1 != pa) (Row.set rest x v) = eraseCol pa (Row.set rest x v) from rfl, ih]
        rfl

theorem Row.set_same (r : Row) (x : String) (v : Val) (h : r.get x = some v) : r.set x v = r := by
  induction r with
  | nil => simp [Row.get, List.lookup] at h
  | cons p rest ih =>
    obtain ⟨y, w⟩ := p
    by_cases hy : y = x
    · subst hy
      simp [Row.get, List.lookup] at h
      simp [Row.set, h]
    · have h1 : (y == x) = false := by simpa using hy
      have h2 : (x == y) = false := by simpa using (Ne.symm hy)
      simp only [Row.get, List.lookup, h2] at h
      simp only [Row.set, h1, Bool.false_eq_true, ↓reduceIte]
      rw [ih h]

/-! ### the candidate relationships of the engine and of the reference are the same bag -/

theorem filter_or_perm {α} (l : List α) (p q : α → Bool) (hd : ∀ x, p x = true → q x = false) :
    (l.filter fun x => p x || q x).Perm (l.filter p ++ l.filter q) := by
  induction l with
  | nil => simp
  | cons x xs ih =>
    cases hp : p x
    · cases hq : q x
      · simpa [List.filter_cons, hp, hq] using ih
      · simp only [List.filter_cons, hp, hq, Bool.or_true, ↓reduceIte, Bool.false_eq_true]
        exact (List.Perm.cons x ih).trans (List.perm_middle.symm)
    · have hq := hd x hp
      simp only [List.filter_cons, hp, hq, Bool.or_false, ↓reduceIte, Bool.false_eq_true, List.cons_append]
      exact List.Perm.cons x ih

theorem filter_types_perm (cs : List RelId) (c : RelId → Bool) (ts : List String) (hnd : ts.Nodup) :
    (cs.filter fun e => ts.contains e.typ && c e).Perm (ts.flatMap fun t => cs.filter fun e => c e && e.typ == t) := by
  induction ts with
  | nil => simp
  | cons t ts ih =>
    rw [List.nodup_cons] at hnd
    have h1 : (cs.filter fun e => (t :: ts).contains e.typ && c e) =
        cs.filter fun e => (c e && e.typ == t) || (ts.contains e.typ && c e) := by
      apply List.filter_congr
      intro e _
      simp only [List.contains_cons]
      cases c e <;> cases (e.typ == t) <;> simp
    rw [h1, List.flatMap_cons]
    refine (filter_or_perm cs _ _ ?_).trans (List.Perm.append_left _ (ih hnd.2))
    intro e he
    simp only [Bool.and_eq_true, beq_iff_eq] at he
    have hn : e.typ ∉ ts := by rw [he.2]; exact hnd.1
    simp [hn]

/-- outgoing candidates: reference traversal = engine neighbour enumeration, as bags -/
theorem traversals_out_perm (g : Graph) (a : Nat) (ev : Option String) (rels : List String) (ps : List (String × Expr))
    (hnd : rels.Nodup) :
    (Spec.traversals g a ⟨ev, rels, .out, ps⟩).Perm ((Exec.outEdges g a rels).map fun e => (e, e.dst)) := by
  have hflat : Spec.traversals g a ⟨ev, rels, .out, ps⟩ =
      (g.copies.filter fun e => (rels.isEmpty || rels.contains e.typ) && e.src == a).map fun e => (e, e.dst) := by
    unfold Spec.traversals
    induction g.copies with
    | nil => rfl
    | cons e es ih =>
      simp only [List.flatMap_cons, List.filter_cons, ih]
      cases h1 : (rels.isEmpty || rels.contains e.typ) <;> cases h2 : (e.src == a) <;> simp [h1, h2]
  rw [hflat]
  apply List.Perm.map
  unfold Exec.outEdges
  cases hrel : rels.isEmpty
  · simp only [Bool.false_or, Bool.false_eq_true, ↓reduceIte]
    exact filter_types_perm g.copies (fun e => e.src == a) rels hnd
  · simp

/-! ### one candidate relationship: engine row (hidden column erased) = reference row -/

theorem pathContains_eq (g : Graph) (hnp : NoParallel g) (r : Row) (pa : String) (used : List RelId) (e : RelId)
    (hpa : PathRel r pa used) : Exec.pathContains g r (some pa) e = used.contains e := by
  unfold PathRel at hpa
  simp only [Exec.pathContains]
  generalize r.get pa = v at hpa ⊢
  match v, hpa with
  | none, hpa => subst hpa; simp
  | some (.path ns es), hpa =>
    simp only [hnp e]
    by_cases hin : e ∈ es
    · have hc : List.count e es ≠ 0 := by
        intro h0; exact (List.count_eq_zero.mp h0) hin
      have hu : e ∈ used := (hpa e).mp hin
      have h1 : (List.count e es == 0) = false := by simpa using hc
      have h2 : List.count e es ≥ 1 := Nat.pos_of_ne_zero hc
      simp [h1, h2, hu]
    · have hc : List.count e es = 0 := List.count_eq_zero.mpr hin
      have hu : e ∉ used := fun h => hin ((hpa e).mpr h)
      simp [hc, hu]

theorem eraseCol_joinPath (pa : String) (r : Row) (a : Nat) (e : RelId) (b : Nat) :
    eraseCol pa (Exec.joinPath r pa a e b) = eraseCol pa r := by
  unfold Exec.joinPath
  split <;> exact eraseCol_set_self pa r _

theorem eraseCol_withOpt (pa : String) (r : Row) (ev : Option String) (v : Val) (h : ∀ x, ev = some x → x ≠ pa) :
    eraseCol pa (Exec.withOpt r ev v) = Exec.withOpt (eraseCol pa r) ev v := by
  cases ev with
  | none => rfl
  | some x => exact eraseCol_set_ne pa x r v (h x rfl)

theorem bind_dst (r1 : Row) (d : String) (nxt : Nat) :
    Spec.bind r1 (some d) (.node nxt) =
      if Exec.nodeBindingOk r1 d nxt then some (r1.set d (.node nxt)) else none := by
  cases hv : r1.get d with
  | none =>
    have h1 : Exec.nodeBindingOk r1 d nxt = true := by simp [Exec.nodeBindingOk, hv]
    have h2 : Spec.bind r1 (some d) (.node nxt) = some (r1.set d (.node nxt)) := by simp [Spec.bind, hv]
    rw [h1, h2]; rfl
  | some w =>
    by_cases hw : w = .node nxt
    · subst hw
      have h1 : Exec.nodeBindingOk r1 d nxt = true := by simp [Exec.nodeBindingOk, hv]
      have h2 : Spec.bind r1 (some d) (.node nxt) = some r1 := by simp [Spec.bind, hv]
      rw [h1, h2, Row.set_same _ _ _ hv]; rfl
    · have h1 : Exec.nodeBindingOk r1 d nxt = false := by
        cases w with
        | node n =>
          have : n ≠ nxt := fun h => hw (by rw [h])
          simp [Exec.nodeBindingOk, hv, this]
        | _ => simp [Exec.nodeBindingOk, hv]
      have h2 : Spec.bind r1 (some d) (.node nxt) = none := by simp [Spec.bind, hv, hw]
      rw [h1, h2]; rfl

/-- the reference binding of the relationship variable and of the destination variable, written with the
    engine's tests -/
theorem bind_chain (rs : Row) (ev : Option String) (d : String) (e : RelId) (nxt : Nat)
    (hev : ∀ x, ev = some x → x ≠ d ∧ rs.get x = none) :
    (Spec.bind rs ev (.rel e)).bind (Spec.bind · (some d) (.node nxt)) =
      if Exec.nodeBindingOk rs d nxt then some ((Exec.withOpt rs ev (.rel e)).set d (.node nxt)) else none := by
  have h1 : Spec.bind rs ev (.rel e) = some (Exec.withOpt rs ev (.rel e)) := by
    cases ev with
    | none => rfl
    | some x => simp [Spec.bind, (hev x rfl).2, Exec.withOpt]
  have hget : (Exec.withOpt rs ev (.rel e)).get d = rs.get d := by
    cases ev with
    | none => rfl
    | some x => exact Row.get_set_ne rs x d _ (fun h => (hev x rfl).1 h.symm)
  have hok : Exec.nodeBindingOk (Exec.withOpt rs ev (.rel e)) d nxt = Exec.nodeBindingOk rs d nxt := by
    simp only [Exec.nodeBindingOk, hget]
  rw [h1, Option.bind, bind_dst, hok]

/-- **operator lemma 2 (outgoing hop, one candidate)** -/
theorem stepOut_edge (g : Graph) (hnp : NoParallel g) (r : Row) (rels : List String) (ev : Option String)
    (d pa : String) (dl : List String) (used : List RelId) (e : RelId)
    (hpa : PathRel r pa used) (hd : d ≠ pa)
    (hev : ∀ x, ev = some x → x ≠ pa ∧ x ≠ d ∧ r.get x = none) :
    ((if Exec.pathContains g r (some pa) e || !Exec.nodeBindingOk r d e.dst || !Exec.labelsOk g e.dst dl then none
      else some (Exec.joinPathOpt ((Exec.withOpt r ev (.rel e)).set d (.node e.dst)) (some pa) e.src e e.dst)).map
        (eraseCol pa)).toList =
    ((if used.contains e || !(Spec.relOk A { g } (eraseCol pa r) ⟨ev, rels, .out, []⟩ e &&
          Spec.nodeOk A { g } (eraseCol pa r) ⟨some d, dl, []⟩ e.dst) then []
      else match (Spec.bind (eraseCol pa r) ev (.rel e)).bind (Spec.bind · (some d) (.node e.dst)) with
        | none => []
        | some r' => Spec.matchSteps A { g } (e :: used) e.dst r' []).map (·.1)) := by
  have hb : Exec.nodeBindingOk (eraseCol pa r) d e.dst = Exec.nodeBindingOk r d e.dst := by
    simp only [Exec.nodeBindingOk, get_eraseCol_ne pa d r hd]
  have hchain := bind_chain (eraseCol pa r) ev d e e.dst (fun x hx =>
    ⟨(hev x hx).2.1, by rw [get_eraseCol_ne pa x r (hev x hx).1]; exact (hev x hx).2.2⟩)
  rw [hchain, hb, pathContains_eq g hnp r pa used e hpa]
  simp only [Spec.relOk, Spec.propsOk, List.all_nil, Spec.nodeOk, Bool.and_true, Bool.true_and, Exec.labelsOk]
  by_cases hu : used.contains e = true
  · have hmem : e ∈ used := by simpa using hu
    simp [hmem]
  · have hu' : used.contains e = false := by simpa using hu
    by_cases hl : dl.all (g.hasLabel e.dst) = true
    · by_cases hn : Exec.nodeBindingOk r d e.dst = true
      · simp only [hu', hl, hn, Bool.not_true, Bool.or_self, Bool.false_eq_true, ↓reduceIte, Option.map_some,
          Option.toList_some, Spec.matchSteps, List.map_cons, List.map_nil, Exec.joinPathOpt]
        rw [eraseCol_joinPath, eraseCol_set_ne pa d _ _ hd,
          eraseCol_withOpt pa r ev _ (fun x hx => (hev x hx).1)]
      · have hn' : Exec.nodeBindingOk r d e.dst = false := by simpa using hn
        simp [hu', hl, hn']
    · have hl' : dl.all (g.hasLabel e.dst) = false := by simpa using hl
      simp [hu', hl']

theorem filterMap_map_eq_flatMap {α β γ} (l : List α) (f : α → Option β) (h : β → γ) :
    (l.filterMap f).map h = l.flatMap fun x => ((f x).map h).toList := by
  induction l with
  | nil => rfl
  | cons x xs ih =>
    simp only [List.filterMap_cons, List.flatMap_cons]
    cases hf : f x <;> simp [ih]

/-- **operator lemma 2 (outgoing hop, one input row)** — on a graph without parallel copies, for a row whose
    hidden path column holds the relationships `used` so far, the rows MatchOut produces (hidden column erased)
    are, as a bag, the rows one step of the reference pattern matching produces. -/
theorem expand_out_row (g : Graph) (hnp : NoParallel g) (r : Row) (a : Nat) (rels : List String)
    (hrels : rels.Nodup) (ev : Option String) (d pa : String) (dl : List String) (used : List RelId)
    (hpa : PathRel r pa used) (hd : d ≠ pa)
    (hev : ∀ x, ev = some x → x ≠ pa ∧ x ≠ d ∧ r.get x = none) :
    ((Exec.stepOut g r a rels ev d dl (some pa)).map (eraseCol pa)).Perm
      ((Spec.matchSteps A { g } used a (eraseCol pa r) [(⟨ev, rels, .out, []⟩, ⟨some d, dl, []⟩)]).map (·.1)) := by
  unfold Exec.stepOut
  rw [filterMap_map_eq_flatMap]
  simp only [Spec.matchSteps, List.map_flatMap]
  refine List.Perm.trans ?_ (List.Perm.flatMap_right _ (traversals_out_perm g a ev rels [] hrels)).symm
  rw [List.flatMap_map]
  apply List.Perm.of_eq
  have hfun : (fun e : RelId =>
      ((if Exec.pathContains g r (some pa) e || !Exec.nodeBindingOk r d e.dst || !Exec.labelsOk g e.dst dl then none
        else some (Exec.joinPathOpt ((Exec.withOpt r ev (.rel e)).set d (.node e.dst)) (some pa) e.src e e.dst)).map
          (eraseCol pa)).toList) = fun e : RelId =>
      ((if used.contains e || !(Spec.relOk A { g } (eraseCol pa r) ⟨ev, rels, .out, []⟩ e &&
            Spec.nodeOk A { g } (eraseCol pa r) ⟨some d, dl, []⟩ e.dst) then []
        else match (Spec.bind (eraseCol pa r) ev (.rel e)).bind (Spec.bind · (some d) (.node e.dst)) with
          | none => []
          | some r' => Spec.matchSteps A { g } (e :: used) e.dst r' []).map (·.1)) := by
    funext e
    exact stepOut_edge A g hnp r rels ev d pa dl used e hpa hd hev
  simp only [Spec.matchSteps] at hfun
  rw [hfun]
  rfl

end Nervus.Cy
