/-
  Little-endian fixed-width codecs, two's complement, and `slice` — helper lemmas for C25 / C17.
-/
import Nervus.Model.PropVal
namespace Nervus
open Nervus.PropVal

theorem leBytes_length (n v : Nat) : (leBytes n v).length = n := by
  induction n generalizing v with
  | zero => rfl
  | succ n ih => simp [leBytes, ih]

theorem leVal_lt (bs : Bytes) : leVal bs < 256 ^ bs.length := by
  induction bs with
  | nil => simp [leVal]
  | cons b bs ih =>
    have hb : b.toNat < 256 := UInt8.toNat_lt b
    simp only [leVal, List.length_cons, Nat.pow_succ]
    omega

theorem leVal_leBytes (n v : Nat) (h : v < 256 ^ n) : leVal (leBytes n v) = v := by
  induction n generalizing v with
  | zero => simp at h; subst h; rfl
  | succ n ih =>
    have h2 : v / 256 < 256 ^ n := by
      rw [Nat.pow_succ] at h
      exact Nat.div_lt_of_lt_mul (by omega)
    simp only [leBytes, leVal, ih _ h2]
    have : (UInt8.ofNat (v % 256)).toNat = v % 256 := by
      simp [UInt8.toNat_ofNat']
    rw [this]; omega

theorem leBytes_leVal (bs : Bytes) : leBytes bs.length (leVal bs) = bs := by
  induction bs with
  | nil => rfl
  | cons b bs ih =>
    have hb : b.toNat < 256 := UInt8.toNat_lt b
    simp only [List.length_cons, leBytes, leVal]
    have h1 : (b.toNat + 256 * leVal bs) % 256 = b.toNat := by omega
    have h2 : (b.toNat + 256 * leVal bs) / 256 = leVal bs := by omega
    rw [h1, h2, ih]
    simp

theorem toU64_lt (i : Int) : toU64 i < 256 ^ 8 := by
  unfold toU64; omega

theorem ofU64_toU64 (i : Int) (h : I64.inRange i) : ofU64 (toU64 i) = i := by
  unfold I64.inRange at h
  unfold ofU64 toU64
  split <;> omega

theorem toU64_ofU64 (u : Nat) (h : u < 18446744073709551616) : toU64 (ofU64 u) = u := by
  unfold ofU64 toU64
  split <;> omega

theorem ofU64_inRange (u : Nat) (h : u < 18446744073709551616) : I64.inRange (ofU64 u) := by
  unfold I64.inRange ofU64
  split <;> omega

/-! ### slice -/

theorem slice_eq_some {bs : Bytes} {a b : Nat} (h1 : a ≤ b) (h2 : b ≤ bs.length) :
    slice bs a b = some ((bs.drop a).take (b - a)) := by
  simp [slice, h1, h2]

theorem slice_length {bs x : Bytes} {a b : Nat} (h : slice bs a b = some x) : x.length = b - a := by
  unfold slice at h
  split at h
  · injection h with h; subst h
    simp [List.length_take, List.length_drop]; omega
  · cases h

theorem slice_isSome {bs : Bytes} {a b : Nat} (h1 : a ≤ b) (h2 : b ≤ bs.length) : slice bs a b ≠ none := by
  simp [slice, h1, h2]

/-- the slice that starts after a prefix `p` and covers exactly `x` -/
theorem slice_append (p x r : Bytes) : slice (p ++ (x ++ r)) p.length (p.length + x.length) = some x := by
  rw [slice_eq_some (by omega) (by simp)]
  simp

theorem slice_append' (p x r : Bytes) (a b : Nat) (ha : a = p.length) (hb : b = p.length + x.length) :
    slice (p ++ (x ++ r)) a b = some x := by
  subst ha hb; exact slice_append p x r

theorem readU32_append (p r : Bytes) (n : Nat) (h : n < two32) :
    readU32 (p ++ (leBytes 4 n ++ r)) p.length = some n := by
  unfold readU32
  rw [slice_append' p (leBytes 4 n) r _ _ rfl (by simp [leBytes_length])]
  simp only [Option.map_some]
  rw [leVal_leBytes 4 n (by unfold two32 at h; omega)]

theorem readU32_isSome {bs : Bytes} {a : Nat} (h : a + 4 ≤ bs.length) : ∃ n, readU32 bs a = some n ∧ n < two32 := by
  unfold readU32
  rw [slice_eq_some (by omega) h]
  refine ⟨_, rfl, ?_⟩
  have := leVal_lt ((bs.drop a).take (a + 4 - a))
  have hl : ((bs.drop a).take (a + 4 - a)).length = 4 := by
    simp [List.length_take, List.length_drop]; omega
  rw [hl] at this
  unfold two32; omega

end Nervus
