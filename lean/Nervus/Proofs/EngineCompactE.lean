/-
  Proofs/EngineCompactE.lean — compaction of runs that hold EDGE tombstones (C05): as long as no run
  tombstones a node and no tombstoned relationship sits in an older segment, the segment built from the
  runs holds exactly what the run phase of the read path yields, and the dropped tombstones hid nothing.
-/
import Nervus.Proofs.EngineCompactMap
namespace Nervus.Storage

/-- no run holds a node tombstone -/
def NoNodeTombs (runs : List Run) : Prop := ∀ r ∈ runs, r.tombNodes = []

/-- every edge tombstone of the runs, newest first -/
def allTombEdges (runs : List Run) : List Edge := runs.flatMap (·.tombEdges)

/-- the run phase of `neighbors` when no node is tombstoned: every run filtered by the edge tombstones
    of the NEWER runs -/
def walkOut (src : Nat) (rel : Option Nat) : List Run → List Edge → List Edge
  | [], _ => []
  | r :: rs, be =>
    (r.edgesForSrc src).filter (fun e => relOk rel e && !be.contains e) ++ walkOut src rel rs (be ++ r.tombEdges)

def walkIn (dst : Nat) (rel : Option Nat) : List Run → List Edge → List Edge
  | [], _ => []
  | r :: rs, be =>
    (r.edgesForDst dst).filter (fun e => relOk rel e && !be.contains e) ++ walkIn dst rel rs (be ++ r.tombEdges)

def walkAll : List Run → List Edge → List Edge
  | [], _ => []
  | r :: rs, be => r.edges.filter (fun e => !be.contains e) ++ walkAll rs (be ++ r.tombEdges)

theorem outRuns_noNodeTombs (src : Nat) (rel : Option Nat) (runs : List Run) (h : NoNodeTombs runs) :
    ∀ be, outRuns src rel runs [] be = (walkOut src rel runs be, some ([], be ++ allTombEdges runs)) := by
  induction runs with
  | nil => intro be; simp [outRuns, walkOut, allTombEdges]
  | cons r rs ih =>
    intro be
    have h1 := h r List.mem_cons_self
    have ih' := ih (fun r' hr' => h r' (List.mem_cons_of_mem _ hr')) (be ++ r.tombEdges)
    simp only [outRuns, List.contains_nil, Bool.false_eq_true, if_false, h1, List.append_nil, ih', walkOut,
      allTombEdges, List.flatMap_cons, List.append_assoc, blockedOut, Bool.false_or]

theorem inRuns_noNodeTombs (dst : Nat) (rel : Option Nat) (runs : List Run) (h : NoNodeTombs runs) :
    ∀ be, inRuns dst rel runs [] be = (walkIn dst rel runs be, some ([], be ++ allTombEdges runs)) := by
  induction runs with
  | nil => intro be; simp [inRuns, walkIn, allTombEdges]
  | cons r rs ih =>
    intro be
    have h1 := h r List.mem_cons_self
    have ih' := ih (fun r' hr' => h r' (List.mem_cons_of_mem _ hr')) (be ++ r.tombEdges)
    simp only [inRuns, List.contains_nil, Bool.false_eq_true, if_false, h1, List.append_nil, ih', walkIn,
      allTombEdges, List.flatMap_cons, List.append_assoc, blockedIn, Bool.false_or]

/-- build_segment_from_runs (a run's own tombstones applied after its own edges) collects the same walk -/
theorem collect_noNodeTombs (runs : List Run) (h : NoNodeTombs runs) :
    ∀ be, collectRunEdges false runs [] be = walkAll runs be := by
  induction runs with
  | nil => intro be; rfl
  | cons r rs ih =>
    intro be
    have h1 := h r List.mem_cons_self
    have ih' := ih (fun r' hr' => h r' (List.mem_cons_of_mem _ hr')) (be ++ r.tombEdges)
    simp only [collectRunEdges, h1, List.append_nil, ih', walkAll, Bool.false_eq_true, if_false,
      List.contains_nil, Bool.or_self, Bool.not_false, Bool.true_and]

theorem walkAll_out (src : Nat) (rel : Option Nat) (runs : List Run) :
    ∀ be, (walkAll runs be).filter (fun e => e.src == src && relOk rel e) = walkOut src rel runs be := by
  induction runs with
  | nil => intro be; rfl
  | cons r rs ih =>
    intro be
    simp only [walkAll, walkOut, List.filter_append, ih, Run.edgesForSrc, List.filter_filter]
    congr 1
    apply List.filter_congr
    intro e _
    cases (e.src == src) <;> cases relOk rel e <;> cases be.contains e <;> rfl

theorem walkAll_in (dst : Nat) (rel : Option Nat) (runs : List Run) :
    ∀ be, (walkAll runs be).filter (fun e => e.dst == dst && relOk rel e) = walkIn dst rel runs be := by
  induction runs with
  | nil => intro be; rfl
  | cons r rs ih =>
    intro be
    simp only [walkAll, walkIn, List.filter_append, ih, Run.edgesForDst, List.filter_filter]
    congr 1
    apply List.filter_congr
    intro e _
    cases (e.dst == dst) <;> cases relOk rel e <;> cases be.contains e <;> rfl

/-! ### what a segment answers under a type filter is part of what it answers without -/

theorem recOk_none (r : Nat × Nat) : recOk none r = true := rfl

theorem seg_neighbors_sub (g : Seg) (n : Nat) (rel : Option Nat) (l : List Edge)
    (h : g.neighbors n rel = some l) :
    ∃ l0, g.neighbors n none = some l0 ∧ ∀ e ∈ l, e ∈ l0 ∧ e.src = n := by
  unfold Seg.neighbors at h ⊢
  split at h
  · cases h; rename_i hc; rw [if_pos hc]; exact ⟨[], rfl, fun e he => by cases he⟩
  · rename_i hc
    rw [if_neg hc]
    simp only at h ⊢
    cases h1 : g.offsets[n - g.minSrc]? with
    | none => rw [h1] at h; cases h
    | some a =>
      cases h2 : g.offsets[n - g.minSrc + 1]? with
      | none => rw [h1, h2] at h; cases h
      | some b =>
        rw [h1, h2] at h
        simp only at h ⊢
        cases h3 : slice g.edges a b with
        | none => rw [h3] at h; cases h
        | some es =>
          rw [h3] at h
          simp only [Option.map_some, Option.some.injEq] at h ⊢
          refine ⟨_, rfl, ?_⟩
          intro e he
          rw [← h] at he
          obtain ⟨r, hr, rfl⟩ := List.mem_map.mp he
          refine ⟨List.mem_map.mpr ⟨r, ?_, rfl⟩, rfl⟩
          exact List.mem_filter.mpr ⟨(List.mem_filter.mp hr).1, recOk_none r⟩

theorem seg_incoming_sub (guard : Bool) (g : Seg) (n : Nat) (rel : Option Nat) (l : List Edge)
    (h : g.incomingG guard n rel = some l) :
    ∃ l0, g.incomingG guard n none = some l0 ∧ ∀ e ∈ l, e ∈ l0 ∧ e.dst = n := by
  unfold Seg.incomingG at h ⊢
  split at h
  · cases h; rename_i hc; rw [if_pos hc]; exact ⟨[], rfl, fun e he => by cases he⟩
  · rename_i hc
    rw [if_neg hc]
    simp only at h ⊢
    cases h1 : g.inOffsets[n - g.minDst]? with
    | none => rw [h1] at h; cases h
    | some a =>
      cases h2 : g.inOffsets[n - g.minDst + 1]? with
      | none => rw [h1, h2] at h; cases h
      | some b =>
        rw [h1, h2] at h
        simp only at h ⊢
        cases h3 : slice g.inEdges a b with
        | none => rw [h3] at h; cases h
        | some es =>
          rw [h3] at h
          simp only [Option.map_some, Option.some.injEq] at h ⊢
          refine ⟨_, rfl, ?_⟩
          intro e he
          rw [← h] at he
          obtain ⟨r, hr, rfl⟩ := List.mem_map.mp he
          refine ⟨List.mem_map.mpr ⟨r, ?_, rfl⟩, rfl⟩
          exact List.mem_filter.mpr ⟨(List.mem_filter.mp hr).1, recOk_none r⟩

/-- no tombstoned relationship of the runs is held by an older segment (decidable) -/
def segsClear (c : Cfg) (s : Engine) : Bool :=
  (allTombEdges s.runs).all (fun e => s.segs.all (fun g =>
    !((g.neighbors e.src none).getD []).contains e && !((g.incomingG c.csrGuard e.dst none).getD []).contains e))

theorem segsClear_out {c : Cfg} {s : Engine} (h : segsClear c s = true) :
    ∀ e ∈ allTombEdges s.runs, ∀ g ∈ s.segs, ∀ l, g.neighbors e.src none = some l → e ∉ l := by
  intro e he g hg l hl hm
  simp only [segsClear, List.all_eq_true, Bool.and_eq_true, Bool.not_eq_true'] at h
  have := (h e he g hg).1
  rw [hl] at this
  simp only [Option.getD_some] at this
  have hc : l.contains e = true := by simpa using hm
  rw [hc] at this; cases this

theorem segsClear_in {c : Cfg} {s : Engine} (h : segsClear c s = true) :
    ∀ e ∈ allTombEdges s.runs, ∀ g ∈ s.segs, ∀ l, g.incomingG c.csrGuard e.dst none = some l → e ∉ l := by
  intro e he g hg l hl hm
  simp only [segsClear, List.all_eq_true, Bool.and_eq_true, Bool.not_eq_true'] at h
  have := (h e he g hg).2
  rw [hl] at this
  simp only [Option.getD_some] at this
  have hc : l.contains e = true := by simpa using hm
  rw [hc] at this; cases this

theorem seg_filter_noop_out (g : Seg) (be : List Edge)
    (hclear : ∀ e ∈ be, ∀ l, g.neighbors e.src none = some l → e ∉ l) (n : Nat) (rel : Option Nat) :
    (g.neighbors n rel).map (·.filter (fun e => !blockedOut [] be e)) = g.neighbors n rel := by
  cases h : g.neighbors n rel with
  | none => rfl
  | some l =>
    simp only [Option.map_some, Option.some.injEq]
    apply List.filter_eq_self.mpr
    intro e he
    obtain ⟨l0, hl0, hsub⟩ := seg_neighbors_sub g n rel l h
    obtain ⟨hm, hsrc⟩ := hsub e he
    have : be.contains e = false := by
      rw [Bool.eq_false_iff]; intro hc
      have heb : e ∈ be := by simpa using hc
      exact hclear e heb l0 (by rw [hsrc]; exact hl0) hm
    simp only [blockedOut, List.contains_nil, Bool.false_or, this, Bool.not_false]

theorem seg_filter_noop_in (guard : Bool) (g : Seg) (be : List Edge)
    (hclear : ∀ e ∈ be, ∀ l, g.incomingG guard e.dst none = some l → e ∉ l) (n : Nat) (rel : Option Nat) :
    (g.incomingG guard n rel).map (·.filter (fun e => !blockedIn [] be e)) = g.incomingG guard n rel := by
  cases h : g.incomingG guard n rel with
  | none => rfl
  | some l =>
    simp only [Option.map_some, Option.some.injEq]
    apply List.filter_eq_self.mpr
    intro e he
    obtain ⟨l0, hl0, hsub⟩ := seg_incoming_sub guard g n rel l h
    obtain ⟨hm, hdst⟩ := hsub e he
    have : be.contains e = false := by
      rw [Bool.eq_false_iff]; intro hc
      have heb : e ∈ be := by simpa using hc
      exact hclear e heb l0 (by rw [hdst]; exact hl0) hm
    simp only [blockedIn, List.contains_nil, Bool.false_or, this, Bool.not_false]

theorem mapM_congr_mem {σ β} (f g : σ → Option β) (l : List σ) (h : ∀ x ∈ l, f x = g x) :
    l.mapM f = l.mapM g := by
  induction l with
  | nil => rfl
  | cons a as ih =>
    rw [mapM_cons_some, mapM_cons_some, h a List.mem_cons_self, ih (fun x hx => h x (List.mem_cons_of_mem _ hx))]

/-- outgoing neighbours are unchanged (as a multiset) by a compaction of runs without node tombstones
    whose edge tombstones hit no older segment -/
theorem compact_neighbors_E (c : Cfg) (s : Engine) (hn : NoNodeTombs s.runs) (hown : c.compactOwnLast = true)
    (hclear : ∀ e ∈ allTombEdges s.runs, ∀ g ∈ s.segs, ∀ l, g.neighbors e.src none = some l → e ∉ l)
    (n : Nat) (rel : Option Nat) :
    PermOpt ((s.compact c).neighbors n rel) (s.neighbors n rel) := by
  cases he : s.runs.isEmpty with
  | true =>
    have : s.compact c = s := by unfold Engine.compact; rw [he]; rfl
    rw [this]
    cases hq : s.neighbors n rel with
    | none => exact Or.inl ⟨rfl, rfl⟩
    | some l => exact Or.inr ⟨l, l, rfl, rfl, List.Perm.refl _⟩
  | false =>
    obtain ⟨h1, _, _, h4⟩ := compact_fields c s he
    rw [neighbors_eq]; unfold Engine.neighborsFlushed
    rw [h1, h4, outRuns_noNodeTombs n rel s.runs hn []]
    simp only [outRuns, List.contains_nil, Bool.false_eq_true, if_false, List.nil_append]
    have hold : s.segs.mapM (fun (g : Seg) => (g.neighbors n rel).map (·.filter (fun e => !blockedOut [] (allTombEdges s.runs) e))) =
        s.segs.mapM (fun (g : Seg) => g.neighbors n rel) :=
      mapM_congr_mem _ _ _ (fun g hg => seg_filter_noop_out g _ (fun e he l hl => hclear e he g hg l hl) n rel)
    have hnew : ∀ segs : List Seg, segs.mapM (fun (g : Seg) => (g.neighbors n rel).map (·.filter (fun e => !blockedOut [] [] e))) =
        segs.mapM (fun (g : Seg) => g.neighbors n rel) := fun segs =>
      mapM_congr_mem _ _ _ (fun g _ => seg_filter_noop_out g [] (fun e he => by cases he) n rel)
    rw [hold, hnew, mapM_cons_some, persist_neighbors, hown]
    simp only [Bool.not_true]
    rw [collect_noNodeTombs s.runs hn []]
    obtain ⟨l0, hl0, hperm⟩ := buildForward_neighbors s.nextSegId (walkAll s.runs []) n rel
    rw [hl0]
    simp only [Option.bind_some]
    cases hm : s.segs.mapM (fun (g : Seg) => g.neighbors n rel) with
    | none => exact Or.inl ⟨rfl, rfl⟩
    | some ls =>
      refine Or.inr ⟨_, _, rfl, rfl, ?_⟩
      simp only [List.nil_append, List.flatten_cons]
      apply List.Perm.append_right
      rw [← walkAll_out n rel s.runs []]
      exact hperm

theorem compact_incoming_E (c : Cfg) (s : Engine) (hn : NoNodeTombs s.runs) (hown : c.compactOwnLast = true)
    (hg : c.csrGuard = true)
    (hclear : ∀ e ∈ allTombEdges s.runs, ∀ g ∈ s.segs, ∀ l, g.incomingG c.csrGuard e.dst none = some l → e ∉ l)
    (n : Nat) (rel : Option Nat) :
    PermOpt ((s.compact c).incoming c n rel) (s.incoming c n rel) := by
  cases he : s.runs.isEmpty with
  | true =>
    have : s.compact c = s := by unfold Engine.compact; rw [he]; rfl
    rw [this]
    cases hq : s.incoming c n rel with
    | none => exact Or.inl ⟨rfl, rfl⟩
    | some l => exact Or.inr ⟨l, l, rfl, rfl, List.Perm.refl _⟩
  | false =>
    obtain ⟨h1, _, _, h4⟩ := compact_fields c s he
    rw [incoming_eq]; unfold Engine.incomingFlushed
    rw [h1, h4, inRuns_noNodeTombs n rel s.runs hn []]
    simp only [inRuns, List.contains_nil, Bool.false_eq_true, if_false, List.nil_append]
    have hold : s.segs.mapM (fun (g : Seg) => (g.incomingG c.csrGuard n rel).map (·.filter (fun e => !blockedIn [] (allTombEdges s.runs) e))) =
        s.segs.mapM (fun (g : Seg) => g.incomingG c.csrGuard n rel) :=
      mapM_congr_mem _ _ _ (fun g hg' => seg_filter_noop_in _ g _ (fun e he l hl => hclear e he g hg' l hl) n rel)
    have hnew : ∀ segs : List Seg, segs.mapM (fun (g : Seg) => (g.incomingG c.csrGuard n rel).map (·.filter (fun e => !blockedIn [] [] e))) =
        segs.mapM (fun (g : Seg) => g.incomingG c.csrGuard n rel) := fun segs =>
      mapM_congr_mem _ _ _ (fun g _ => seg_filter_noop_in _ g [] (fun e he => by cases he) n rel)
    rw [hold, hnew, mapM_cons_some, hown]
    simp only [Bool.not_true]
    rw [collect_noNodeTombs s.runs hn []]
    obtain ⟨l0, hl0, hperm⟩ := built_incoming c.csrGuard s.nextSegId (walkAll s.runs []) n rel (Or.inl hg)
    rw [hl0]
    simp only [Option.bind_some]
    cases hm : s.segs.mapM (fun (g : Seg) => g.incomingG c.csrGuard n rel) with
    | none => exact Or.inl ⟨rfl, rfl⟩
    | some ls =>
      refine Or.inr ⟨_, _, rfl, rfl, ?_⟩
      simp only [List.nil_append, List.flatten_cons]
      apply List.Perm.append_right
      rw [← walkAll_in n rel s.runs []]
      exact hperm

theorem isTombNode_noNodeTombs (runs : List Run) (h : NoNodeTombs runs) (n : Nat) : isTombNode runs n = false := by
  unfold isTombNode
  rw [List.any_eq_false]
  intro r hr; rw [h r hr]; simp

/-- the engine state a compaction may start from without losing anything: the runs hold no node
    tombstone and no property removal, and their edge tombstones hit no older segment (`segsClear`) -/
def compactSafe (c : Cfg) (s : Engine) : Bool :=
  s.runs.all (fun r => r.tombNodes.isEmpty && r.nDel.isEmpty && r.eDel.isEmpty) && segsClear c s

theorem compactSafe_unpack (c : Cfg) (s : Engine) (hs : compactSafe c s = true) :
    NoNodeTombs s.runs ∧ (∀ r ∈ s.runs, r.nDel = []) ∧ (∀ r ∈ s.runs, r.eDel = []) ∧ segsClear c s = true := by
  simp only [compactSafe, Bool.and_eq_true, List.all_eq_true, List.isEmpty_iff] at hs
  obtain ⟨hruns, hclear⟩ := hs
  exact ⟨fun r hr => (hruns r hr).1.1, fun r hr => (hruns r hr).1.2, fun r hr => (hruns r hr).2, hclear⟩

/-- node enumeration is unchanged by a compaction of runs without node tombstones -/
theorem compact_nodes_E (c : Cfg) (s : Engine) (h : NoNodeTombs s.runs) :
    (s.compact c).nodes = s.nodes ∧ (s.compact c).nodesSnap = s.nodesSnap := by
  cases he : s.runs.isEmpty with
  | true => unfold Engine.compact; rw [he]; exact ⟨rfl, rfl⟩
  | false =>
    obtain ⟨h1, h2, _, _⟩ := compact_fields c s he
    unfold Engine.nodes Engine.nodesSnap liveNodeIds
    rw [h1, h2]
    constructor <;>
    · apply List.filter_congr
      intro n _
      rw [isTombNode_noNodeTombs s.runs h n]; rfl

end Nervus.Storage
