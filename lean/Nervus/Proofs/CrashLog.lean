/-
  Proofs.CrashLog — how one transaction extends the log: any proper prefix of its records leaves
  the committed list (and everything recovery derives from it) unchanged, the complete block
  appends exactly this transaction.
-/
import Nervus.Proofs.CrashRep
namespace Nervus.Crash

/-- what commit writes between BeginTx and CommitTx -/
def body (base : Nat) (tx : Tx) : List Rec :=
  nodeRecs base tx.nodes ++ tx.edges.map .edge ++ tx.props.map .prop

theorem txRecs_eq (t base : Nat) (tx : Tx) : txRecs t base tx = .begin t :: body base tx ++ [.commit t] := by
  simp [txRecs, body]

theorem nodeRecs_isOp : ∀ (base : Nat) (xs : List Nat), ∀ r ∈ nodeRecs base xs, IsOp r
  | _, [], r, h => by simp [nodeRecs] at h
  | base, x :: xs, r, h => by
    simp [nodeRecs] at h
    rcases h with rfl | h
    · trivial
    · exact nodeRecs_isOp (base + 1) xs r h

theorem body_isOp (base : Nat) (tx : Tx) : ∀ r ∈ body base tx, IsOp r := by
  intro r h
  simp only [body, List.mem_append, List.mem_map] at h
  rcases h with (h | ⟨e, _, rfl⟩) | ⟨q, _, rfl⟩
  · exact nodeRecs_isOp _ _ r h
  · trivial
  · trivial

theorem committed_runP {rs : List Rec} {cs : List CTx} (h : committed rs = .ok cs) :
    ∃ cur pend acc, runP rs none [] [] = .ok (cur, pend, acc) ∧ acc.reverse = cs := by
  rw [committed_eq] at h
  cases hr : runP rs none [] [] with
  | error e => rw [hr] at h; simp [Except.map] at h
  | ok s =>
    rw [hr] at h
    simp only [Except.map, Except.ok.injEq] at h
    exact ⟨s.1, s.2.1, s.2.2, rfl, h⟩

/-- a prefix of the transaction's records that lacks the CommitTx does not change the committed list -/
theorem committed_partial {rs0 : List Rec} {cs : List CTx} (h : committed rs0 = .ok cs)
    (t base : Nat) (tx : Tx) (i : Nat) (hi : i ≤ (body base tx).length + 1) :
    committed (rs0 ++ (txRecs t base tx).take i) = .ok cs := by
  obtain ⟨cur, pend, acc, hr, hacc⟩ := committed_runP h
  rw [committed_eq, runP_append, hr]
  simp only
  cases i with
  | zero => simp [runP, Except.map, hacc]
  | succ i =>
    have : (txRecs t base tx).take (i + 1) = .begin t :: (body base tx).take i := by
      rw [txRecs_eq]
      simp only [List.cons_append, List.take_succ_cons, List.cons.injEq, true_and]
      rw [List.take_append_of_le_length (by omega)]
    rw [this, runP_partial _ (fun r hr => body_isOp base tx r (List.mem_of_mem_take hr))]
    simp [Except.map, hacc]

/-- the complete block appends exactly one committed transaction -/
theorem committed_full {rs0 : List Rec} {cs : List CTx} (h : committed rs0 = .ok cs) (t base : Nat) (tx : Tx) :
    committed (rs0 ++ txRecs t base tx) = .ok (cs ++ [⟨t, body base tx⟩]) := by
  obtain ⟨cur, pend, acc, hr, hacc⟩ := committed_runP h
  rw [committed_eq, runP_append, hr, txRecs_eq]
  simp only
  rw [runP_block _ (body_isOp base tx)]
  simp [Except.map, hacc]

/-! ### scan / flatOps / logRuns of the extended log -/

theorem scanOp_isData (s : RScan) (r : Rec) (h : ∀ ep sg pr pt, r ≠ .manifest ep sg pr pt)
    (h' : ∀ up ep pr pt, r ≠ .checkpoint up ep pr pt) : scanOp s r = s := by
  cases r <;> simp [scanOp]
  case manifest ep sg pr pt => exact absurd rfl (h ep sg pr pt)
  case checkpoint up ep pr pt => exact absurd rfl (h' up ep pr pt)

theorem nodeRecs_data : ∀ (base : Nat) (xs : List Nat) (s : RScan), (nodeRecs base xs).foldl scanOp s = s
  | _, [], s => rfl
  | base, x :: xs, s => by simp [nodeRecs, List.foldl, scanOp, nodeRecs_data (base + 1) xs s]

theorem foldl_scanOp_body (s : RScan) (base : Nat) (tx : Tx) : (body base tx).foldl scanOp s = s := by
  simp only [body, List.foldl_append, nodeRecs_data]
  have h1 : ∀ (es : List Nat) (s : RScan), (es.map Rec.edge).foldl scanOp s = s := by
    intro es; induction es with
    | nil => intro s; rfl
    | cons e es ih => intro s; simp [List.foldl, scanOp, ih]
  have h2 : ∀ (qs : List Nat) (s : RScan), (qs.map Rec.prop).foldl scanOp s = s := by
    intro qs; induction qs with
    | nil => intro s; rfl
    | cons q qs ih => intro s; simp [List.foldl, scanOp, ih]
  rw [h1, h2]

theorem scan_snoc_body (cs : List CTx) (t base : Nat) (tx : Tx) :
    scan (cs ++ [⟨t, body base tx⟩]) = { scan cs with maxTxid := max (scan cs).maxTxid t } := by
  simp [scan, List.foldl_append, scanTx, foldl_scanOp_body]

theorem flatOps_append (ckpt : Nat) (a b : List CTx) : flatOps ckpt (a ++ b) = flatOps ckpt a ++ flatOps ckpt b := by
  induction a with
  | nil => rfl
  | cons x a ih => by_cases h : x.txid ≤ ckpt <;> simp [flatOps, h, ih]

theorem logRuns_append (ckpt : Nat) (a b : List CTx) : logRuns ckpt (a ++ b) = logRuns ckpt a ++ logRuns ckpt b := by
  induction a with
  | nil => rfl
  | cons x a ih =>
    by_cases h : x.txid ≤ ckpt
    · simp [logRuns, h, ih]
    · by_cases h2 : ((runOf x).edges.isEmpty && (runOf x).props.isEmpty) = true <;> simp [logRuns, h, h2, ih]

theorem nodesOfOps_nodeRecs : ∀ (base : Nat) (xs : List Nat),
    nodesOfOps (nodeRecs base xs) = (List.range xs.length).map (fun j => (getSlot xs j, base + j))
  | _, [] => rfl
  | base, x :: xs => by
    rw [nodeRecs, nodesOfOps, nodesOfOps_nodeRecs (base + 1) xs]
    simp only [List.length_cons, List.range_succ_eq_map, List.map_cons, List.map_map, getSlot]
    congr 1
    apply List.map_congr_left
    intro j _
    simp [getSlot]; omega

theorem nodesOfOps_edges (es : List Nat) : nodesOfOps (es.map Rec.edge) = [] := by
  induction es with
  | nil => rfl
  | cons e es ih => simp [nodesOfOps, ih]

theorem nodesOfOps_props (qs : List Nat) : nodesOfOps (qs.map Rec.prop) = [] := by
  induction qs with
  | nil => rfl
  | cons q qs ih => simp [nodesOfOps, ih]

theorem edgesOf_body (base : Nat) (tx : Tx) : edgesOf (body base tx) = tx.edges := by
  have h1 : ∀ (b : Nat) (xs : List Nat) (r : List Rec), edgesOf (nodeRecs b xs ++ r) = edgesOf r := by
    intro b xs; induction xs generalizing b with
    | nil => intro r; rfl
    | cons x xs ih => intro r; simp [nodeRecs, edgesOf, ih]
  have h2 : ∀ (es : List Nat) (r : List Rec), edgesOf (es.map Rec.edge ++ r) = es ++ edgesOf r := by
    intro es; induction es with
    | nil => intro r; rfl
    | cons e es ih => intro r; simp [edgesOf, ih]
  have h3 : ∀ (qs : List Nat), edgesOf (qs.map Rec.prop) = [] := by
    intro qs; induction qs with
    | nil => rfl
    | cons q qs ih => simp [edgesOf, ih]
  simp [body, List.append_assoc, h1, h2, h3]

theorem propsOf_body (base : Nat) (tx : Tx) : propsOf (body base tx) = tx.props := by
  have h1 : ∀ (b : Nat) (xs : List Nat) (r : List Rec), propsOf (nodeRecs b xs ++ r) = propsOf r := by
    intro b xs; induction xs generalizing b with
    | nil => intro r; rfl
    | cons x xs ih => intro r; simp [nodeRecs, propsOf, ih]
  have h2 : ∀ (es : List Nat) (r : List Rec), propsOf (es.map Rec.edge ++ r) = propsOf r := by
    intro es; induction es with
    | nil => intro r; rfl
    | cons e es ih => intro r; simp [propsOf, ih]
  have h3 : ∀ (qs : List Nat), propsOf (qs.map Rec.prop) = qs := by
    intro qs; induction qs with
    | nil => rfl
    | cons q qs ih => simp [propsOf, ih]
  simp [body, List.append_assoc, h1, h2, h3]

/-! ### seqFrom and list extension -/

theorem getSlot_append_left : ∀ (N M : List Nat) (i : Nat), i < N.length → getSlot (N ++ M) i = getSlot N i
  | [], _, i, h => by simp at h
  | x :: N, M, 0, _ => rfl
  | x :: N, M, i + 1, h => by simpa [getSlot] using getSlot_append_left N M i (by simp at h; omega)

theorem getSlot_append_right : ∀ (N M : List Nat) (j : Nat), getSlot (N ++ M) (N.length + j) = getSlot M j
  | [], M, j => by simp
  | x :: N, M, j => by
    have := getSlot_append_right N M j
    simp only [List.cons_append, List.length_cons]
    rw [show N.length + 1 + j = (N.length + j) + 1 by omega]
    simpa [getSlot] using this

theorem seqFrom_append_left (N M : List Nat) : ∀ (k i : Nat), i + k ≤ N.length → seqFrom (N ++ M) i k = seqFrom N i k
  | 0, _, _ => rfl
  | k + 1, i, h => by
    simp [seqFrom, getSlot_append_left N M i (by omega), seqFrom_append_left N M k (i + 1) (by omega)]

theorem seqFrom_tail (N M : List Nat) : ∀ (k j : Nat), j + k ≤ M.length →
    seqFrom (N ++ M) (N.length + j) k = (List.range k).map (fun a => (getSlot M (j + a), N.length + j + a))
  | 0, _, _ => rfl
  | k + 1, j, h => by
    rw [seqFrom, getSlot_append_right, show N.length + j + 1 = N.length + (j + 1) by omega,
      seqFrom_tail N M k (j + 1) (by omega), List.range_succ_eq_map]
    simp only [List.map_cons, List.map_map, Nat.add_zero, List.cons.injEq, true_and]
    apply List.map_congr_left
    intro a _
    simp only [Function.comp, Prod.mk.injEq]
    exact ⟨by congr 1; omega, by omega⟩

end Nervus.Crash
