/-
  Proofs/CsrIncoming.lean — the CSR construction lemma for `incoming_neighbors` of a built and
  persisted segment.
-/
import Nervus.Proofs.CsrReverse
namespace Nervus.Storage

theorem persist_forward (g : Seg) :
    g.persist.minSrc = g.minSrc ∧ g.persist.maxSrc = g.maxSrc ∧ g.persist.offsets = g.offsets ∧
    g.persist.edges = g.edges ∧ g.persist.id = g.id := by
  unfold Seg.persist
  split
  · simp only
    split <;> exact ⟨rfl, rfl, rfl, rfl, rfl⟩
  · exact ⟨rfl, rfl, rfl, rfl, rfl⟩

/-- `persist` does not touch the forward index -/
theorem persist_neighbors (g : Seg) (src : Nat) (rel : Option Nat) :
    g.persist.neighbors src rel = g.neighbors src rel := by
  obtain ⟨h1, h2, h3, h4, _⟩ := persist_forward g
  unfold Seg.neighbors
  rw [h1, h2, h3, h4]

theorem expand_nil_of_edges_nil (g : Seg) (h : g.edges = []) : g.expand = [] := by
  unfold Seg.expand
  apply List.flatMap_eq_nil_iff.mpr
  intro i _
  split
  · rw [h]; simp
  · rfl

theorem dst_group_readback (ews : List Edge) (dst : Nat) (rel : Option Nat) :
    ((((ews.filter (·.dst == dst)).map (fun e => (e.rel, e.src))).filter (recOk rel)).map
      (fun r => (⟨r.2, r.1, dst⟩ : Edge))) = ews.filter (fun e => e.dst == dst && relOk rel e) := by
  rw [List.filter_map, List.map_map, List.filter_filter]
  have h2 : ∀ e ∈ ews.filter (fun e => (recOk rel ∘ fun e => (e.rel, e.src)) e && (e.dst == dst)),
      ((fun r => (⟨r.2, r.1, dst⟩ : Edge)) ∘ fun e => (e.rel, e.src)) e = e := by
    intro e he
    have := (List.mem_filter.mp he).2
    simp only [Bool.and_eq_true, beq_iff_eq] at this
    obtain ⟨_, hs⟩ := this
    cases e; simp only [Function.comp] at hs ⊢; subst hs; rfl
  rw [List.map_congr_left h2, List.map_id']
  apply List.filter_congr
  intro e _
  cases rel <;> simp [recOk, relOk, Bool.and_comm]

/-- **CSR construction lemma (reverse)** -/
theorem built_incoming (guard : Bool) (id : Nat) (es : List Edge) (dst : Nat) (rel : Option Nat)
    (hg : guard = true ∨ es ≠ []) :
    ∃ l, ((buildForward id es).persist).incomingG guard dst rel = some l ∧
      l.Perm (es.filter (fun e => e.dst == dst && relOk rel e)) := by
  have hexp := expand_buildForward id es
  by_cases hes : es = []
  · subst hes
    have hguard : guard = true := by
      rcases hg with h | h
      · exact h
      · exact absurd rfl h
    subst hguard
    refine ⟨[], ?_, by simp⟩
    simp [buildForward, isort, emptySeg, Seg.persist, Seg.incomingG]
  · generalize hg0 : buildForward id es = g0 at *
    have hinE : g0.inEdges = [] := by
      rw [← hg0]; unfold buildForward; simp only; split <;> rfl
    have hedges : g0.edges ≠ [] := by
      intro h
      have := expand_nil_of_edges_nil g0 h
      rw [this] at hexp
      exact hes (List.length_eq_zero_iff.mp hexp.length_eq.symm)
    have hews := isort_perm dstLe g0.expand
    have hsorted := isort_key_sorted dstLe (·.dst) dstLe_key1 dstLe_key2 g0.expand
    generalize hews' : isort dstLe g0.expand = ews at *
    have hne : ews ≠ [] := by
      intro h
      rw [h] at hews
      have h0 : g0.expand = [] := List.length_eq_zero_iff.mp hews.length_eq.symm
      rw [h0] at hexp
      exact hes (List.length_eq_zero_iff.mp hexp.length_eq.symm)
    obtain ⟨f, hf⟩ : ∃ f, ews.head? = some f := by
      cases ews with
      | nil => exact absurd rfl hne
      | cons a as => exact ⟨a, rfl⟩
    obtain ⟨z, hz⟩ : ∃ z, ews.getLast? = some z := by
      cases hl : ews.getLast? with
      | none => exact absurd (List.getLast?_eq_none_iff.mp hl) hne
      | some z => exact ⟨z, rfl⟩
    have hlo := sorted_head_le (·.dst) ews hsorted f hf
    have hhi := sorted_le_last (·.dst) ews hsorted z hz
    have hperm : (ews.filter (fun e => e.dst == dst && relOk rel e)).Perm
        (es.filter (fun e => e.dst == dst && relOk rel e)) := (hews.trans hexp).filter _
    have hpersist : g0.persist =
        { g0 with minDst := f.dst, maxDst := z.dst,
                  inOffsets := prefixSums (((List.range (z.dst - f.dst + 1)).map (fun j =>
                    (ews.filter (·.dst == f.dst + j)).map (fun e => (e.rel, e.src)))).map List.length) 0,
                  inEdges := ((List.range (z.dst - f.dst + 1)).map (fun j =>
                    (ews.filter (·.dst == f.dst + j)).map (fun e => (e.rel, e.src)))).flatten } := by
      unfold Seg.persist
      have h1 : (!g0.edges.isEmpty && g0.inEdges.isEmpty) = true := by
        rw [hinE]
        cases hq : g0.edges with
        | nil => exact absurd hq hedges
        | cons a as => rfl
      rw [if_pos h1, hews']
      simp only [hf, hz]
    rw [hpersist]
    unfold Seg.incomingG
    simp only
    have hnonempty : (prefixSums (((List.range (z.dst - f.dst + 1)).map (fun j =>
        (ews.filter (·.dst == f.dst + j)).map (fun e => (e.rel, e.src)))).map List.length) 0).isEmpty = false := by
      cases hq : prefixSums (((List.range (z.dst - f.dst + 1)).map (fun j =>
        (ews.filter (·.dst == f.dst + j)).map (fun e => (e.rel, e.src)))).map List.length) 0 with
      | nil => have := prefixSums_length (((List.range (z.dst - f.dst + 1)).map (fun j =>
                  (ews.filter (·.dst == f.dst + j)).map (fun e => (e.rel, e.src)))).map List.length) 0
               rw [hq] at this; simp at this
      | cons a as => rfl
    rw [hnonempty]
    simp only [Bool.and_false, Bool.false_or]
    by_cases hout : (dst < f.dst || dst > z.dst) = true
    · rw [if_pos hout]
      refine ⟨[], rfl, ?_⟩
      refine List.Perm.trans (List.Perm.of_eq ?_) hperm
      symm
      apply List.filter_eq_nil_iff.mpr
      intro e he
      have h1 := hlo e he
      have h2 := hhi e he
      simp only [Bool.or_eq_true, decide_eq_true_eq] at hout
      simp only [Bool.and_eq_true, beq_iff_eq, not_and]
      intro hs; omega
    · rw [if_neg hout]
      simp only [Bool.or_eq_true, decide_eq_true_eq, not_or, Nat.not_lt] at hout
      have hidx : dst - f.dst < z.dst - f.dst + 1 := by omega
      have hgrp : ((List.range (z.dst - f.dst + 1)).map (fun j =>
          (ews.filter (·.dst == f.dst + j)).map (fun e => (e.rel, e.src))))[dst - f.dst]? =
          some ((ews.filter (·.dst == dst)).map (fun e => (e.rel, e.src))) := by
        rw [List.getElem?_map, List.getElem?_range hidx]
        simp only [Option.map_some]
        have : f.dst + (dst - f.dst) = dst := by omega
        rw [this]
      obtain ⟨a, b, ha, hb, hs⟩ := slice_of_group _ _ _ hgrp
      rw [ha, hb]
      simp only [hs, Option.map_some]
      refine ⟨_, rfl, ?_⟩
      rw [dst_group_readback]
      exact hperm

/-- the pinned tree: an edge-free segment panics on `incoming_neighbors(0)` (csr.rs:67) -/
theorem empty_segment_panics (id : Nat) :
    ((buildForward id []).persist).incomingG false 0 none = none := by
  simp [buildForward, isort, emptySeg, Seg.persist, Seg.incomingG]

end Nervus.Storage
