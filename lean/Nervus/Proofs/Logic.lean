/-
  Proofs.Logic — three-valued connectives = Kleene on `tri` (all values), De Morgan, null propagation of
  every arithmetic / comparison / string operator, THE integer-overflow rule for `+ - * /` and unary minus,
  numbers compared by the Spec.  Core only.
-/
import Nervus.Proofs.Compare
namespace Nervus
open F64 Value Eval Spec

section
variable (E : Env)

/-! ### three-valued logic: the engine's connectives are Kleene's on `tri` -/

theorem and3_spec (a b : Value) : Eval.and3 a b = triValue (Spec.and3 (tri a) (tri b)) := by
  cases a with
  | bool x => cases x <;> cases b <;> first | rfl | (rename_i y; cases y <;> rfl)
  | _ => cases b <;> first | rfl | (rename_i y; cases y <;> rfl)

theorem or3_spec (a b : Value) : Eval.or3 a b = triValue (Spec.or3 (tri a) (tri b)) := by
  cases a with
  | bool x => cases x <;> cases b <;> first | rfl | (rename_i y; cases y <;> rfl)
  | _ => cases b <;> first | rfl | (rename_i y; cases y <;> rfl)

theorem xor3_spec (a b : Value) : Eval.xor3 a b = triValue (Spec.xor3 (tri a) (tri b)) := by
  cases a with
  | bool x => cases x <;> cases b <;> first | rfl | (rename_i y; cases y <;> rfl)
  | _ => cases b <;> first | rfl | (rename_i y; cases y <;> rfl)

theorem not3_spec (a : Value) : Eval.not3 a = triValue (Spec.not3 (tri a)) := by
  cases a <;> first | rfl | (rename_i x; cases x <;> rfl)

theorem tri_triValue (t : Tri) : tri (triValue t) = t := by
  cases t with
  | none => rfl
  | some b => rfl

theorem spec_deMorgan_and (p q : Tri) : Spec.not3 (Spec.and3 p q) = Spec.or3 (Spec.not3 p) (Spec.not3 q) := by
  cases p <;> cases q <;> first | rfl | (rename_i x; cases x <;> rfl) | (rename_i x y; cases x <;> cases y <;> rfl)

theorem spec_deMorgan_or (p q : Tri) : Spec.not3 (Spec.or3 p q) = Spec.and3 (Spec.not3 p) (Spec.not3 q) := by
  cases p <;> cases q <;> first | rfl | (rename_i x; cases x <;> rfl) | (rename_i x y; cases x <;> cases y <;> rfl)

theorem deMorgan_and (a b : Value) : Eval.not3 (Eval.and3 a b) = Eval.or3 (Eval.not3 a) (Eval.not3 b) := by
  rw [and3_spec, not3_spec, tri_triValue, or3_spec, not3_spec a, not3_spec b, tri_triValue, tri_triValue,
    spec_deMorgan_and]

theorem deMorgan_or (a b : Value) : Eval.not3 (Eval.or3 a b) = Eval.and3 (Eval.not3 a) (Eval.not3 b) := by
  rw [or3_spec, not3_spec, tri_triValue, and3_spec, not3_spec a, not3_spec b, tri_triValue, tri_triValue,
    spec_deMorgan_or]

/-! ### null propagation -/

/-- the operators that must propagate `null` from either operand -/
def nullPropagating : List BinOp :=
  [.eq, .ne, .lt, .le, .gt, .ge, .add, .sub, .mul, .div, .mod, .pow, .startsWith, .endsWith, .contains]

theorem null_left (op : BinOp) (hop : op ∈ nullPropagating) (v : Value) : evalBin E op .null v = .null := by
  simp only [nullPropagating, List.mem_cons, List.mem_nil_iff, or_false] at hop
  rcases hop with rfl | rfl | rfl | rfl | rfl | rfl | rfl | rfl | rfl | rfl | rfl | rfl | rfl | rfl | rfl <;>
    simp [evalBin, cypherEquals, notEquals, Eval.not3, compareValues, addValues, subtractValues, multiplyValues,
      divideValues, numericMod, numericPow, stringPredicate]

theorem null_right (op : BinOp) (hop : op ∈ nullPropagating) (v : Value) : evalBin E op v .null = .null := by
  simp only [nullPropagating, List.mem_cons, List.mem_nil_iff, or_false] at hop
  rcases hop with rfl | rfl | rfl | rfl | rfl | rfl | rfl | rfl | rfl | rfl | rfl | rfl | rfl | rfl | rfl <;>
    cases v <;>
    simp [evalBin, cypherEquals, notEquals, Eval.not3, compareValues, addValues, subtractValues, multiplyValues,
      divideValues, numericMod, numericPow, stringPredicate]

theorem inList_null_right (v : Value) : evalBin E .inList v .null = .null := by
  simp [evalBin, inList]

/-! ### THE integer-overflow rule -/

theorem inI64_iff (z : Int) : inI64 z = true ↔ (Spec.i64Min ≤ z ∧ z ≤ Spec.i64Max) := by
  simp only [inI64, Eval.i64Min, Eval.i64Max, Spec.i64Min, Spec.i64Max, Bool.and_eq_true]
  constructor
  · intro h; exact ⟨of_decide_eq_true h.1, of_decide_eq_true h.2⟩
  · intro h; exact ⟨decide_eq_true h.1, decide_eq_true h.2⟩

theorem intRule_eq (z : Int) (f : Nat) : (if inI64 z = true then Value.int z else .float f) = Spec.intRule z f := by
  unfold Spec.intRule
  by_cases h : inI64 z = true
  · rw [if_pos h, if_pos ((inI64_iff z).1 h)]
  · rw [if_neg h, if_neg (fun c => h ((inI64_iff z).2 c))]

theorem add_int (l r : Int) :
    evalBin E .add (.int l) (.int r) = Spec.intRule (l + r) (E.F.add (castF l) (castF r)) := by
  simp only [evalBin, addValues, addValues.addRest, addValues.addTail, isDuration, Bool.false_and,
    Bool.false_eq_true, if_false, numericBinop]
  exact intRule_eq _ _

theorem sub_int (l r : Int) :
    evalBin E .sub (.int l) (.int r) = Spec.intRule (l - r) (E.F.sub (castF l) (castF r)) := by
  simp only [evalBin, subtractValues, isDuration, Bool.false_and, Bool.false_eq_true, if_false, numericBinop]
  exact intRule_eq _ _

theorem mul_int (l r : Int) :
    evalBin E .mul (.int l) (.int r) = Spec.intRule (l * r) (E.F.mul (castF l) (castF r)) := by
  simp only [evalBin, multiplyValues, isDuration, isNumber, Bool.false_and, Bool.and_false, Bool.false_eq_true,
    if_false, numericBinop]
  exact intRule_eq _ _

theorem div_int (l r : Int) (hr : r ≠ 0) :
    evalBin E .div (.int l) (.int r) = Spec.intRule (Int.tdiv l r) (E.F.div (castF l) (castF r)) := by
  have : (r == 0) = false := by simpa using hr
  simp only [evalBin, divideValues, isDuration, Bool.false_and, Bool.false_eq_true, if_false, numericDiv, this]
  exact intRule_eq _ _

theorem neg_int (i : Int) : negate (.int i) = Spec.intRule (-i) (F64.negBits (castF i)) := by
  simp only [negate]
  exact intRule_eq _ _

/-- numbers: `<, <=, >, >=` decide by the Spec's comparison of the exact values; NaN ⇒ false -/
theorem cv_num (op : CmpOp) (a b : Value) (ha : isNum a = true) (hb : isNum b = true) (wa : a.wf = true)
    (wb : b.wf = true) :
    compareValues E op a b = match Spec.numCmp a b with
      | some o => .bool (op.test o)
      | none => .bool false := by
  rw [← numCmp_eq_spec a b ha hb wa wb]
  cases a <;> simp [isNum] at ha <;> cases b <;> simp [isNum] at hb <;>
    simp only [compareValues, compareNumbersForRange] <;> rfl
end
end Nervus
