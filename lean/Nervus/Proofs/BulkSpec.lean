/-
  Proofs/BulkSpec.lean — the Spec graph of the transactional load `txLoad ns es` (C30), in closed form:
  nodes in input order, their labels and external ids, the LAST value written per property key, the
  relationships of the input.
-/
import Nervus.Proofs.BulkOpen
import Nervus.Proofs.EngineDangling
namespace Nervus.Storage
open Nervus.GraphSpec (Graph TxOp Op Rel)

/-! ### assignments: the last one per key wins -/

theorem lookup_set {κ} [BEq κ] [LawfulBEq κ] (m : List (κ × PV)) (k k' : κ) (v : PV) :
    ((k, v) :: m.filter (fun p => p.1 != k)).lookup k' = if k' == k then some v else m.lookup k' := by
  by_cases h : k' = k
  · subst h; simp [List.lookup_cons]
  · have hne : (k' == k) = false := by simpa using h
    rw [List.lookup_cons, hne]
    simp only [Bool.false_eq_true, if_false]
    exact lookup_filter_keep _ m k' (fun v => by simpa using h)

/-- a sequence of assignments on an association list -/
def setAll {κ} [BEq κ] (m : List (κ × PV)) (ins : List (κ × PV)) : List (κ × PV) :=
  ins.foldl (fun m p => (p.1, p.2) :: m.filter (fun q => q.1 != p.1)) m

theorem lookup_setAll {κ} [BEq κ] [LawfulBEq κ] (ins : List (κ × PV)) : ∀ (m : List (κ × PV)) (key : κ),
    (setAll m ins).lookup key = (match ins.reverse.lookup key with | some v => some v | none => m.lookup key) := by
  induction ins with
  | nil => intro m key; rfl
  | cons p ps ih =>
    intro m key
    obtain ⟨a, b⟩ := p
    show (setAll ((a, b) :: m.filter (fun q => q.1 != a)) ps).lookup key = _
    rw [ih, List.reverse_cons, List.lookup_append, lookup_set]
    cases ps.reverse.lookup key with
    | some v => rfl
    | none =>
      simp only [Option.none_or, List.lookup_cons, List.lookup_nil]
      cases (key == a) <;> rfl

theorem setAll_append {κ} [BEq κ] (m : List (κ × PV)) (a b : List (κ × PV)) :
    setAll m (a ++ b) = setAll (setAll m a) b := by
  unfold setAll; rw [List.foldl_append]

/-! ### the node phase -/

def propOps (i : Nat) (props : List (Nat × PV)) : List TxOp := props.map (fun kv => TxOp.nprop i kv.1 kv.2)

def nodeOpsFrom (b : Nat) (l : List BulkNode) : List TxOp :=
  (l.zipIdx b).flatMap (fun p => TxOp.node p.1.ext (some p.1.label) :: propOps p.2 p.1.props)

def nodeIns (zl : List (BulkNode × Nat)) : List ((Nat × Nat) × PV) :=
  zl.flatMap (fun p => p.1.props.map (fun kv => ((p.2, kv.1), kv.2)))

theorem apply_propOps (i : Nat) (props : List (Nat × PV)) : ∀ g : Graph,
    g.apply (propOps i props) = { g with nprops := setAll g.nprops (props.map (fun kv => ((i, kv.1), kv.2))) } := by
  induction props with
  | nil => intro g; rfl
  | cons kv kvs ih =>
    intro g
    show (g.step (.nprop i kv.1 kv.2)).apply (propOps i kvs) = _
    rw [ih]
    rfl

/-- the Spec graph after the nodes `l` (internal ids from `b`) were created with their properties -/
structure NodePhase (g g' : Graph) (b : Nat) (l : List BulkNode) : Prop where
  next : g'.next = b + l.length
  dead : g'.dead = g.dead
  rels : g'.rels = g.rels
  eprops : g'.eprops = g.eprops
  ext : g'.ext = ((l.zipIdx b).map (fun p => (p.2, p.1.ext))).reverse ++ g.ext
  labels : g'.labels = ((l.zipIdx b).map (fun p => (p.2, p.1.label))).reverse ++ g.labels
  nprops : g'.nprops = setAll g.nprops (nodeIns (l.zipIdx b))

theorem extLookup_none (g : Graph) (x : Nat) (h : ∀ p ∈ g.ext, p.2 ≠ x) : g.extLookup x = none := by
  unfold Graph.extLookup
  rw [Option.map_eq_none_iff, List.find?_eq_none]
  intro p hp
  have := h p hp
  simp [this]

theorem nodePhase (l : List BulkNode) : ∀ (g : Graph) (b : Nat), g.next = b →
    (∀ n ∈ l, ∀ p ∈ g.ext, p.2 ≠ n.ext) → (l.map (·.ext)).Nodup →
    NodePhase g (g.apply (nodeOpsFrom b l)) b l := by
  induction l with
  | nil =>
    intro g b hb _ _
    show NodePhase g g b []
    exact ⟨by simpa using hb, rfl, rfl, rfl, by simp [List.zipIdx], by simp [List.zipIdx], rfl⟩
  | cons n ns ih =>
    intro g b hb hfresh hnd
    rw [List.map_cons, List.nodup_cons] at hnd
    have hnone : g.extLookup n.ext = none := extLookup_none g n.ext (hfresh n List.mem_cons_self)
    -- the node itself
    let g1 : Graph := { g with next := g.next + 1, ext := (g.next, n.ext) :: g.ext, labels := (g.next, n.label) :: g.labels }
    have hstep : g.step (.node n.ext (some n.label)) = g1 := by
      show (if (g.extLookup n.ext).isSome then g else _) = _
      rw [hnone]; rfl
    -- its properties
    let g2 : Graph := { g1 with nprops := setAll g1.nprops (n.props.map (fun kv => ((b, kv.1), kv.2))) }
    have hops : nodeOpsFrom b (n :: ns) =
        (TxOp.node n.ext (some n.label) :: propOps b n.props) ++ nodeOpsFrom (b + 1) ns := by
      unfold nodeOpsFrom
      rw [List.zipIdx_cons, List.flatMap_cons]
    have happ : g.apply (nodeOpsFrom b (n :: ns)) = g2.apply (nodeOpsFrom (b + 1) ns) := by
      rw [hops]
      show ((TxOp.node n.ext (some n.label) :: propOps b n.props) ++ nodeOpsFrom (b + 1) ns).foldl Graph.step g = _
      rw [List.foldl_append, List.foldl_cons, hstep]
      show (g1.apply (propOps b n.props)).apply _ = _
      rw [apply_propOps]
    have ih' := ih g2 (b + 1) (by show g.next + 1 = b + 1; rw [hb])
      (by
        intro m hm p hp
        have hp' : p ∈ (g.next, n.ext) :: g.ext := hp
        rcases List.mem_cons.mp hp' with rfl | h'
        · intro heq
          exact hnd.1 (List.mem_map.mpr ⟨m, hm, heq.symm⟩)
        · exact hfresh m (List.mem_cons_of_mem _ hm) p h')
      hnd.2
    rw [happ]
    refine ⟨?_, ih'.dead, ih'.rels, ih'.eprops, ?_, ?_, ?_⟩
    · rw [ih'.next, List.length_cons]; omega
    · rw [ih'.ext, List.zipIdx_cons, List.map_cons, List.reverse_cons, List.append_assoc]
      show _ ++ (g.next, n.ext) :: g.ext = _
      rw [hb]; rfl
    · rw [ih'.labels, List.zipIdx_cons, List.map_cons, List.reverse_cons, List.append_assoc]
      show _ ++ (g.next, n.label) :: g.labels = _
      rw [hb]; rfl
    · rw [ih'.nprops, List.zipIdx_cons]
      unfold nodeIns
      rw [List.flatMap_cons, setAll_append]

/-! ### the relationship phase -/

/-- the relationship of the Spec graph a bulk edge stands for (end nodes by position, type by NAME) -/
def relOf (ns : List BulkNode) (e : BulkEdge) : Rel := ⟨bulkIid ns e.src, e.rel, bulkIid ns e.dst⟩

def edgeOps (ns : List BulkNode) (es : List BulkEdge) : List TxOp :=
  es.flatMap (fun e => TxOp.edge (bulkIid ns e.src) e.rel (bulkIid ns e.dst) ::
    e.props.map (fun kv => TxOp.eprop (bulkIid ns e.src) e.rel (bulkIid ns e.dst) kv.1 kv.2))

def edgeInsSpec (ns : List BulkNode) (es : List BulkEdge) : List ((Rel × Nat) × PV) :=
  es.flatMap (fun e => e.props.map (fun kv => ((relOf ns e, kv.1), kv.2)))

theorem txLoad_eq (ns : List BulkNode) (es : List BulkEdge) :
    txLoad ns es = nodeOpsFrom 0 ns ++ edgeOps ns es := rfl

theorem apply_epropOps (r : Rel) (props : List (Nat × PV)) : ∀ g : Graph,
    g.apply (props.map (fun kv => TxOp.eprop r.src r.typ r.dst kv.1 kv.2)) =
      { g with eprops := setAll g.eprops (props.map (fun kv => ((r, kv.1), kv.2))) } := by
  induction props with
  | nil => intro g; rfl
  | cons kv kvs ih =>
    intro g
    show (g.step (.eprop r.src r.typ r.dst kv.1 kv.2)).apply _ = _
    rw [ih]
    rfl

structure EdgePhase (ns : List BulkNode) (g g' : Graph) (es : List BulkEdge) : Prop where
  next : g'.next = g.next
  dead : g'.dead = g.dead
  ext : g'.ext = g.ext
  labels : g'.labels = g.labels
  nprops : g'.nprops = g.nprops
  rels : g'.rels = (es.map (relOf ns)).reverse ++ g.rels
  eprops : g'.eprops = setAll g.eprops (edgeInsSpec ns es)

theorem edgePhase (ns : List BulkNode) (es : List BulkEdge) : ∀ g : Graph,
    EdgePhase ns g (g.apply (edgeOps ns es)) es := by
  induction es with
  | nil => intro g; exact ⟨rfl, rfl, rfl, rfl, rfl, rfl, rfl⟩
  | cons e es ih =>
    intro g
    let g1 : Graph := { g with rels := relOf ns e :: g.rels }
    let g2 : Graph := { g1 with eprops := setAll g1.eprops (e.props.map (fun kv => ((relOf ns e, kv.1), kv.2))) }
    have happ : g.apply (edgeOps ns (e :: es)) = g2.apply (edgeOps ns es) := by
      unfold edgeOps
      rw [List.flatMap_cons]
      show List.foldl Graph.step g (_ ++ _) = _
      rw [List.foldl_append, List.foldl_cons]
      show ((g1).apply ((e.props.map (fun kv => TxOp.eprop (relOf ns e).src (relOf ns e).typ (relOf ns e).dst kv.1 kv.2)))).apply _ = _
      rw [apply_epropOps]
    rw [happ]
    have ih' := ih g2
    refine ⟨ih'.next, ih'.dead, ih'.ext, ih'.labels, ih'.nprops, ?_, ?_⟩
    · rw [ih'.rels, List.map_cons, List.reverse_cons, List.append_assoc]; rfl
    · rw [ih'.eprops]
      unfold edgeInsSpec
      rw [List.flatMap_cons, setAll_append]

/-- **the Spec graph of the transactional load**, for input with distinct external ids -/
theorem txLoad_graph (ns : List BulkNode) (es : List BulkEdge) (hnd : (ns.map (·.ext)).Nodup) :
    let g := ({} : Graph).apply (txLoad ns es)
    g.next = ns.length ∧ g.dead = [] ∧
    g.ext = (ns.zipIdx.map (fun p => (p.2, p.1.ext))).reverse ∧
    g.labels = (ns.zipIdx.map (fun p => (p.2, p.1.label))).reverse ∧
    g.nprops = setAll [] (nodeIns ns.zipIdx) ∧
    g.rels = (es.map (relOf ns)).reverse ∧
    g.eprops = setAll [] (edgeInsSpec ns es) := by
  have hN := nodePhase ns {} 0 rfl (by intro n _ p hp; cases hp) hnd
  have hE := edgePhase ns es (({} : Graph).apply (nodeOpsFrom 0 ns))
  have happ : ({} : Graph).apply (txLoad ns es) = (({} : Graph).apply (nodeOpsFrom 0 ns)).apply (edgeOps ns es) := by
    rw [txLoad_eq]; unfold Graph.apply; rw [List.foldl_append]
  simp only
  rw [happ]
  refine ⟨by rw [hE.next, hN.next]; simp, by rw [hE.dead, hN.dead], by rw [hE.ext, hN.ext]; simp,
    by rw [hE.labels, hN.labels]; simp, by rw [hE.nprops, hN.nprops], by rw [hE.rels, hN.rels]; simp,
    by rw [hE.eprops, hN.eprops]⟩

end Nervus.Storage
