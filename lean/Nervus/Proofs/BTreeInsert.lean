/-
  C26: insert with splits.
  * `leaf_split_step` / `int_split_step`: the page-level effect of a leaf split / internal split is a `SplitStep`;
  * `Pend`: the state insert_into_parent is called in (the tree with the pending cell already in the
    parent is well formed), `pend_of_split` establishes it from a split step and the descent path;
  * `iip_spec`: insert_into_parent, when it returns Ok, leaves a well-formed tree and does not touch a leaf;
  * `insert_spec`: BTree::insert on distinct keys follows the multimap spec.
-/
import Nervus.Proofs.BTreeSplit
set_option linter.unusedSectionVars false
set_option linter.unusedVariables false
namespace Nervus.BTree
open Nervus KO

variable {κ : Type} [KeyOrd κ] [LawfulKeyOrd κ]

theorem upd_upd_same (pg : Pg κ) (p : Nat) (a b : Node κ) : upd (upd pg p a) p b = upd pg p b := by
  funext q; by_cases h : q = p <;> simp [upd, h]

theorem bLe_of_bLo {lo : Option κ} {k : κ} (h : bLo lo k) : bLe lo (some k) := by
  cases lo with
  | none => trivial
  | some l => exact h

theorem bLe_of_bHi {k : κ} {hi : Option κ} (h : bHi k hi) : bLe (some k) hi := by
  cases hi with
  | none => trivial
  | some h' => exact le_of_lt h

/-- separators of an internal page are below its upper bound when no child range is inverted -/
theorem kidsR_le_hi (lo hi : Option κ) (lm : Nat) (cells : List (κ × Nat))
    (h : ∀ x ∈ kidsR lo hi lm cells, bLe x.2.1 x.2.2) : ∀ e ∈ cells, bLe (some e.1) hi := by
  induction cells generalizing lo lm with
  | nil => intro e he; cases he
  | cons x xs ih =>
    obtain ⟨k2, ch2⟩ := x
    have hrest : ∀ x ∈ kidsR (some k2) hi ch2 xs, bLe x.2.1 x.2.2 := fun x hx => h x (by simp [kidsR, hx])
    intro e he
    rcases List.mem_cons.mp he with rfl | he
    · cases xs with
      | nil => exact hrest (ch2, some k2, hi) (by simp [kidsR])
      | cons y ys =>
        obtain ⟨k3, ch3⟩ := y
        have h1 : bLe (some k2) (some k3) := hrest (ch2, some k2, some k3) (by simp [kidsR])
        have h2 : bLe (some k3) hi := ih (some k2) ch2 hrest (k3, ch3) (List.mem_cons_self ..)
        cases hi with
        | none => trivial
        | some h' => exact le_trans h1 h2
    · exact ih (some k2) ch2 hrest e he

theorem kidsOf_append (lm rlm : Nat) (l r : List (κ × Nat)) (pk : κ) :
    kidsOf lm (l ++ (pk, rlm) :: r) = kidsOf lm l ++ kidsOf rlm r := by
  simp [kidsOf]

/-! ### the path is stable under changes below it -/

theorem PathOK_frame {pg pg' : Pg κ} {g g' : Ghost κ} {root : Nat} (hH : g'.H = g.H) :
    ∀ (path : List (Nat × Nat)) (child lvl : Nat),
      (∀ p l lo hi, g.G p = some (l, lo, hi) → lvl < l → g'.G p = g.G p ∧ pg' p = pg p) →
      PathOK pg g root child lvl path → PathOK pg' g' root child lvl path := by
  intro path
  induction path with
  | nil => intro child lvl _ h; exact ⟨h.1, by rw [hH]; exact h.2⟩
  | cons x xs ih =>
    obtain ⟨pid, pos⟩ := x
    intro child lvl hfr h
    obtain ⟨⟨lo, hi, lm, cells, b, hG, hp, hpos, hch⟩, hrest⟩ := h
    obtain ⟨e1, e2⟩ := hfr pid (lvl + 1) lo hi hG (by omega)
    refine ⟨⟨lo, hi, lm, cells, b, by rw [e1]; exact hG, by rw [e2]; exact hp, hpos, hch⟩, ?_⟩
    exact ih pid (lvl + 1) (fun p l lo hi hp hl => hfr p l lo hi hp (by omega)) hrest

/-! ### pending state of insert_into_parent -/

/-- what holds when insert_into_parent is called with (path, x, s, y): adding the cell (s, y) right
    after `x` in the page at the head of the path — or a new root above x and y — gives a
    well-formed tree -/
def Pend (pg : Pg κ) (root next : Nat) (g : Ghost κ) : List (Nat × Nat) → Nat → Nat → κ → Nat → Prop
  | [], x, _, s, y =>
    x = root ∧ ∀ bb, WF (upd pg next (.internal x [(s, y)] bb)) next (next + 1)
      ⟨rootG g.G next (g.H + 1), g.L, g.H + 1⟩
  | (pid, pos) :: rest, _, lvl, s, y =>
    ∃ lo hi lm cells b, g.G pid = some (lvl + 1, lo, hi) ∧ pg pid = some (.internal lm cells b) ∧
      pos ≤ cells.length ∧
      (∀ bb, WF (upd pg pid (.internal lm (cells.insertIdx pos (s, y)) bb)) root next g) ∧
      PathOK pg g root pid (lvl + 1) rest

theorem pend_of_split {pgV : Pg κ} {root next : Nat} {g : Ghost κ} (wf : WF pgV root next g)
    {x lvl : Nat} {a b : Option κ} {s : κ} {pgS : Pg κ} {L' : List Nat}
    (st : SplitStep pgV next g x lvl a b s pgS L') (path : List (Nat × Nat))
    (hpath : PathOK pgV g root x lvl path) :
    Pend pgS root (next + 1) ⟨splitG g.G x next lvl a b s, L', g.H⟩ path x lvl s next := by
  cases path with
  | nil =>
    obtain ⟨hx, hl⟩ := hpath
    subst hx hl
    have h1 := wf.root
    rw [st.hx] at h1
    simp only [Option.some.injEq, Prod.mk.injEq, true_and] at h1
    obtain ⟨ha, hb⟩ := h1
    subst ha hb
    exact ⟨rfl, fun bb => split_root wf st bb⟩
  | cons y ys =>
    obtain ⟨pid, pos⟩ := y
    obtain ⟨⟨lo, hi, lm, cells, bb0, hG, hp, hpos, hch⟩, hrest⟩ := hpath
    have hfresh := wf.fresh
    have hpn : pid ≠ next := by intro e; rw [e, hfresh] at hG; cases hG
    have hpx : pid ≠ x := by
      intro e; rw [e, st.hx] at hG
      simp only [Option.some.injEq, Prod.mk.injEq] at hG; omega
    refine ⟨lo, hi, lm, cells, bb0, ?_, ?_, hpos, ?_, ?_⟩
    · show splitG g.G x next lvl a b s pid = _
      rw [splitG_other _ _ _ _ _ _ _ _ hpx hpn]; exact hG
    · rw [st.same pid hpx hpn]; exact hp
    · intro bb; exact split_parent wf st pid pos lo hi lm cells bb0 hG hp hpos hch bb
    · apply PathOK_frame (pg := pgV) (pg' := pgS) (g := g)
        (g' := ⟨splitG g.G x next lvl a b s, L', g.H⟩) rfl ys pid (lvl + 1) _ hrest
      intro p l lo' hi' hpg hl
      have n1 : p ≠ x := by
        intro e; rw [e, st.hx] at hpg
        simp only [Option.some.injEq, Prod.mk.injEq] at hpg; omega
      have n2 : p ≠ next := by intro e; rw [e, hfresh] at hpg; cases hpg
      exact ⟨splitG_other _ _ _ _ _ _ _ _ n1 n2, st.same p n1 n2⟩

/-! ### the two kinds of split -/

theorem leaf_split_step {pg : Pg κ} {root next : Nat} {g : Ghost κ} (wf : WF pg root next g)
    (cur : Nat) (lo hi : Option κ) (es : List (κ × Nat)) (b r : Nat)
    (hG : g.G cur = some (0, lo, hi)) (hp : pg cur = some (.leaf es b r))
    (entries : List (κ × Nat)) (hsorted : SSorted entries) (hin : ∀ e ∈ entries, bLo lo e.1 ∧ bHi e.1 hi)
    (mid : Nat) (sep : κ) (v0 : Nat) (rest' : List (κ × Nat)) (hdrop : entries.drop mid = (sep, v0) :: rest')
    (lb rb : Nat) (A B : List Nat) (p0 : Nat) (hL : g.L = A ++ cur :: B)
    (hsegA : Seg pg g.G p0 none A cur lo) (hn : hi = none → r = 0) (hsegB : Seg pg g.G r hi B 0 none)
    (hpos : 0 < cur) :
      SplitStep pg next g cur 0 lo hi sep
        (upd (upd pg cur (.leaf (entries.take mid) lb next)) next (.leaf (entries.drop mid) rb r))
        (A ++ cur :: next :: B) := by
  have hfresh := wf.fresh
  have hcn : cur ≠ next := by intro e; rw [e, hfresh] at hG; cases hG
  have hsep_mem : (sep, v0) ∈ entries := List.mem_of_mem_drop (by rw [hdrop]; exact List.mem_cons_self ..)
  have hsplit : SSorted (entries.take mid ++ entries.drop mid) := by rw [List.take_append_drop]; exact hsorted
  obtain ⟨hs1, hs2, hs3⟩ := List.pairwise_append.mp hsplit
  have hnotin : ∀ q ∈ g.L, q ≠ next := by
    intro q hq e
    obtain ⟨lo', hi', h⟩ := (wf.lmem q).mp hq
    rw [e, hfresh] at h; cases h
  have hnd := wf.lnodup
  rw [hL] at hnd
  have hcurA : cur ∉ A := by
    intro h
    exact (List.nodup_append.mp hnd).2.2 cur h cur (List.mem_cons_self ..) rfl
  have hcurB : cur ∉ B := (List.nodup_cons.mp (List.nodup_append.mp hnd).2.1).1
  have hnextA : next ∉ A := fun h => hnotin next (by rw [hL]; exact List.mem_append_left _ h) rfl
  have hnextB : next ∉ B := fun h => hnotin next (by rw [hL]; exact List.mem_append_right _ (List.mem_cons_of_mem _ h)) rfl
  generalize hpgS : upd (upd pg cur (.leaf (entries.take mid) lb next)) next (.leaf (entries.drop mid) rb r) = pgS
  have hS_cur : pgS cur = some (.leaf (entries.take mid) lb next) := by
    rw [← hpgS, upd_other _ _ _ _ hcn]; simp
  have hS_next : pgS next = some (.leaf (entries.drop mid) rb r) := by rw [← hpgS]; simp
  have hS_other : ∀ p, p ≠ cur → p ≠ next → pgS p = pg p := by
    intro p h1 h2; rw [← hpgS, upd_other _ _ _ _ h2, upd_other _ _ _ _ h1]
  refine
    { hx := hG, as_ := bLe_of_bLo (hin _ hsep_mem).1, sb := bLe_of_bHi (hin _ hsep_mem).2,
      same := hS_other, leafc := ?_, intc := ?_, kidsub := ?_, kidsdisj := ?_, lnodup := ?_, lmem := ?_,
      seg := ?_, len := ?_ }
  · intro _
    refine ⟨⟨_, lb, next, hS_cur, hs1, ?_⟩, ⟨_, rb, r, hS_next, hs2, ?_⟩⟩
    · intro e he
      refine ⟨(hin e (List.mem_of_mem_take he)).1, ?_⟩
      exact hs3 e he (sep, v0) (by rw [hdrop]; exact List.mem_cons_self ..)
    · intro e he
      refine ⟨?_, (hin e (List.mem_of_mem_drop he)).2⟩
      rw [hdrop] at he hs2
      rcases List.mem_cons.mp he with rfl | he
      · exact le_refl _
      · exact le_of_lt ((List.pairwise_cons.mp hs2).1 e he)
  · intro l hl; omega
  · intro c hc
    rcases hc with hc | hc
    · simp [kidsOfPage, hS_cur] at hc
    · simp [kidsOfPage, hS_next] at hc
  · intro c hc; simp [kidsOfPage, hS_cur] at hc
  · -- nodup
    have h1 := (List.nodup_append.mp hnd)
    apply List.nodup_append.mpr
    refine ⟨h1.1, ?_, ?_⟩
    · apply List.nodup_cons.mpr
      refine ⟨?_, ?_⟩
      · simp only [List.mem_cons, not_or]; exact ⟨hcn, hcurB⟩
      · exact List.nodup_cons.mpr ⟨hnextB, (List.nodup_cons.mp h1.2.1).2⟩
    · intro u hu w hw
      rcases List.mem_cons.mp hw with rfl | hw
      · exact h1.2.2 u hu _ (List.mem_cons_self ..)
      · rcases List.mem_cons.mp hw with rfl | hw
        · intro e; exact hnextA (e ▸ hu)
        · exact h1.2.2 u hu w (List.mem_cons_of_mem _ hw)
  · -- lmem
    intro p
    constructor
    · intro hp'
      simp only [List.mem_append, List.mem_cons] at hp'
      by_cases e1 : p = next
      · exact ⟨_, _, by rw [e1]; exact splitG_y _ _ _ _ _ _ _⟩
      · by_cases e2 : p = cur
        · exact ⟨_, _, by rw [e2]; exact splitG_x _ _ _ _ _ _ _ hcn⟩
        · have : p ∈ g.L := by
            rw [hL]; simp only [List.mem_append, List.mem_cons]
            rcases hp' with h | h | h | h
            · exact Or.inl h
            · exact absurd h e2
            · exact absurd h e1
            · exact Or.inr (Or.inr h)
          obtain ⟨lo', hi', h⟩ := (wf.lmem p).mp this
          exact ⟨lo', hi', by rw [splitG_other _ _ _ _ _ _ _ _ e2 e1]; exact h⟩
    · rintro ⟨lo', hi', h⟩
      simp only [List.mem_append, List.mem_cons]
      rcases splitG_cases g.G cur next 0 lo hi sep hcn p 0 lo' hi' h with ⟨e, _⟩ | ⟨e, _⟩ | ⟨n1, n2, h'⟩
      · exact Or.inr (Or.inr (Or.inl e.symm))
      · exact Or.inr (Or.inl e.symm)
      · have : p ∈ g.L := (wf.lmem p).mpr ⟨lo', hi', h'⟩
        rw [hL] at this
        simp only [List.mem_append, List.mem_cons] at this
        rcases this with h | h | h
        · exact Or.inl h
        · exact absurd h n1
        · exact Or.inr (Or.inr (Or.inr h))
  · -- seg
    obtain ⟨p0', rest, hL0, _⟩ := wf.seg
    have hframe : ∀ X : List Nat, cur ∉ X → next ∉ X → ∀ q ∈ X,
        rightOf pgS q = rightOf pg q ∧ splitG g.G cur next 0 lo hi sep q = g.G q := by
      intro X h1 h2 q hq
      have n1 : q ≠ cur := fun e => h1 (e ▸ hq)
      have n2 : q ≠ next := fun e => h2 (e ▸ hq)
      exact ⟨by simp [rightOf, hS_other q n1 n2], splitG_other _ _ _ _ _ _ _ _ n1 n2⟩
    have hA' := Seg_frame pg pgS g.G (splitG g.G cur next 0 lo hi sep) A (hframe A hcurA hnextA) p0 none cur lo hsegA
    have hB' := Seg_frame pg pgS g.G (splitG g.G cur next 0 lo hi sep) B (hframe B hcurB hnextB) r hi 0 none hsegB
    have hmid : Seg pgS (splitG g.G cur next 0 lo hi sep) cur lo (cur :: next :: B) 0 none := by
      refine ⟨rfl, hpos, some sep, next, splitG_x _ _ _ _ _ _ _ hcn, by simp [rightOf, hS_cur], by simp, ?_⟩
      have hnpos : 0 < next := by have := (wf.rng cur 0 lo hi hG); omega
      exact ⟨rfl, hnpos, hi, r, splitG_y _ _ _ _ _ _ _, by simp [rightOf, hS_next], hn, hB'⟩
    have hall : Seg pgS (splitG g.G cur next 0 lo hi sep) p0 none (A ++ cur :: next :: B) 0 none :=
      (Seg_append _ _ A _ p0 none 0 none).mpr ⟨cur, lo, hA', hmid⟩
    cases A with
    | nil =>
      have : p0 = cur := hsegA.1
      subst this
      exact ⟨p0, next :: B, rfl, hall⟩
    | cons a0 A' =>
      have : a0 = p0 := hsegA.1
      subst this
      exact ⟨a0, A' ++ cur :: next :: B, rfl, hall⟩
  · rw [hL]; simp; omega

theorem int_split_step {pgV : Pg κ} {root next : Nat} {g : Ghost κ} (wf : WF pgV root next g)
    (x l : Nat) (a b : Option κ) (lm : Nat) (all : List (κ × Nat)) (bbv : Nat)
    (hG : g.G x = some (l + 1, a, b)) (hp : pgV x = some (.internal lm all bbv))
    (lcells rcells : List (κ × Nat)) (promote : κ) (rlm : Nat)
    (hall : all = lcells ++ (promote, rlm) :: rcells) (lb rb : Nat) :
    SplitStep pgV next g x (l + 1) a b promote
      (upd (upd pgV x (.internal lm lcells lb)) next (.internal rlm rcells rb)) g.L := by
  have hfresh := wf.fresh
  have hxn : x ≠ next := by intro e; rw [e, hfresh] at hG; cases hG
  obtain ⟨lm0, all0, b0, hp0, hkids, hnd⟩ := wf.int x l a b hG
  rw [hp] at hp0; cases hp0
  have hninv : ∀ z ∈ kidsR a b lm all, bLe z.2.1 z.2.2 := fun z hz => (wf.rng z.1 l z.2.1 z.2.2 (hkids z hz)).2.2
  have hpm : (promote, rlm) ∈ all := by rw [hall]; simp
  have hsplitR : kidsR a b lm all = kidsR a (some promote) lm lcells ++ kidsR (some promote) b rlm rcells := by
    rw [hall]; exact kidsR_split a b lm lcells rcells promote rlm
  have hkidsA : kidsOf lm all = kidsOf lm lcells ++ kidsOf rlm rcells := by
    rw [hall]; exact kidsOf_append lm rlm lcells rcells promote
  rw [hkidsA] at hnd
  obtain ⟨nd1, nd2, nd3⟩ := List.nodup_append.mp hnd
  generalize hpgS : upd (upd pgV x (.internal lm lcells lb)) next (.internal rlm rcells rb) = pgS
  have hS_x : pgS x = some (.internal lm lcells lb) := by
    rw [← hpgS, upd_other _ _ _ _ hxn]; simp
  have hS_next : pgS next = some (.internal rlm rcells rb) := by rw [← hpgS]; simp
  have hS_other : ∀ p, p ≠ x → p ≠ next → pgS p = pgV p := by
    intro p h1 h2; rw [← hpgS, upd_other _ _ _ _ h2, upd_other _ _ _ _ h1]
  have hlevel0 : ∀ p lo hi, splitG g.G x next (l + 1) a b promote p = some (0, lo, hi) ↔ g.G p = some (0, lo, hi) := by
    intro p lo hi
    constructor
    · intro h
      rcases splitG_cases g.G x next (l + 1) a b promote hxn p 0 lo hi h with ⟨_, e, _⟩ | ⟨_, e, _⟩ | ⟨_, _, h'⟩
      · omega
      · omega
      · exact h'
    · intro h
      have n1 : p ≠ x := by intro e; rw [e, hG] at h; simp at h
      have n2 : p ≠ next := by intro e; rw [e, hfresh] at h; cases h
      rw [splitG_other _ _ _ _ _ _ _ _ n1 n2]; exact h
  refine
    { hx := hG, as_ := bLe_of_bLo (kidsR_lo_le a b lm all hninv _ hpm),
      sb := kidsR_le_hi a b lm all hninv _ hpm,
      same := hS_other, leafc := ?_, intc := ?_, kidsub := ?_, kidsdisj := ?_, lnodup := wf.lnodup, lmem := ?_,
      seg := ?_, len := by omega }
  · intro h; omega
  · intro l' hl
    have : l' = l := by omega
    subst this
    refine ⟨⟨lm, lcells, lb, hS_x, ?_, nd1⟩, ⟨rlm, rcells, rb, hS_next, ?_, nd2⟩⟩
    · intro z hz; exact hkids z (by rw [hsplitR]; exact List.mem_append_left _ hz)
    · intro z hz; exact hkids z (by rw [hsplitR]; exact List.mem_append_right _ hz)
  · intro c hc
    simp only [kidsOfPage, hS_x, hS_next, hp] at hc ⊢
    rw [hkidsA]
    exact List.mem_append.mpr hc
  · intro c h1 h2
    simp only [kidsOfPage, hS_x] at h1
    simp only [kidsOfPage, hS_next] at h2
    exact nd3 c h1 c h2 rfl
  · intro p
    rw [wf.lmem p]
    constructor
    · rintro ⟨lo, hi, h⟩; exact ⟨lo, hi, (hlevel0 p lo hi).mpr h⟩
    · rintro ⟨lo, hi, h⟩; exact ⟨lo, hi, (hlevel0 p lo hi).mp h⟩
  · obtain ⟨p0, rest, hL, hseg⟩ := wf.seg
    refine ⟨p0, rest, hL, ?_⟩
    apply Seg_frame pgV _ g.G _ g.L _ p0 none 0 none hseg
    intro q hq
    obtain ⟨lo, hi, h⟩ := (wf.lmem q).mp hq
    have n1 : q ≠ x := by intro e; rw [e, hG] at h; simp at h
    have n2 : q ≠ next := by intro e; rw [e, hfresh] at h; cases h
    exact ⟨by simp [rightOf, hS_other q n1 n2], splitG_other _ _ _ _ _ _ _ _ n1 n2⟩

/-! ### insert_into_parent -/

theorem alloc_eq (c : Cfg) (t : Tree κ) (rp : Nat) (t1 : Tree κ) (h : alloc c t = some (rp, t1)) :
    rp = t.next ∧ t1 = { t with next := t.next + 1 } := by
  unfold alloc at h
  split at h
  · cases h
  · cases h; exact ⟨rfl, rfl⟩

/-- **insert_into_parent**: called in a pending state it either fails (Err / panic) or returns a
    well-formed tree with the same leaf list and untouched leaf pages -/
theorem iip_spec (c : Cfg) : ∀ (path : List (Nat × Nat)) (t : Tree κ) (g : Ghost κ) (x lvl : Nat) (s : κ) (y : Nat)
    (t' : Tree κ), Pend t.pages.get t.root t.next g path x lvl s y →
    insertIntoParent c t path x s y = (t', .ok) →
    ∃ g', WF t'.pages.get t'.root t'.next g' ∧ g'.L = g.L ∧ ∀ p ∈ g.L, t'.pages.get p = t.pages.get p := by
  intro path
  induction path with
  | nil =>
    intro t g x lvl s y t' hpend h
    obtain ⟨hx, hwf⟩ := hpend
    simp only [insertIntoParent] at h
    cases ha : alloc c t with
    | none => simp [ha] at h
    | some r =>
      obtain ⟨nr, t1⟩ := r
      obtain ⟨hnr, ht1⟩ := alloc_eq c t nr t1 ha
      subst hnr ht1
      simp only [ha] at h
      cases hi : intInsertAt c ([] : List (κ × Nat)) c.ps 0 s y with
      | none => simp [hi] at h
      | some r =>
        obtain ⟨cells, b⟩ := r
        simp only [hi, Prod.mk.injEq, and_true] at h
        obtain ⟨hc, _⟩ := intInsertAt_eq c [] c.ps 0 s y _ hi
        simp only [List.insertIdx_zero] at hc
        subst hc
        subst h
        have wf' := hwf b
        refine ⟨⟨rootG g.G t.next (g.H + 1), g.L, g.H + 1⟩, ?_, rfl, ?_⟩
        · simp only
          rw [get_set_eq_upd]
          exact wf'
        · intro p hp
          simp only
          rw [get_set_eq_upd]
          have : p ≠ t.next := by
            intro e
            obtain ⟨lo, hi, hh⟩ := (wf'.lmem p).mp hp
            simp [rootG, e] at hh
          exact upd_other _ _ _ _ this
  | cons pp rest ih =>
    obtain ⟨pid, pos⟩ := pp
    intro t g x lvl s y t' hpend h
    obtain ⟨lo, hi, lm, cells, b, hG, hp, hpos, hwf, hpath⟩ := hpend
    have hleafne : ∀ p ∈ g.L, p ≠ pid ∧ p ≠ t.next := by
      intro p hpL
      have wf0 := hwf b
      obtain ⟨lo', hi', hh⟩ := (wf0.lmem p).mp hpL
      constructor
      · intro e; rw [e, hG] at hh; simp at hh
      · intro e; rw [e, wf0.fresh] at hh; cases hh
    simp only [insertIntoParent, hp] at h
    cases hi' : intInsertAt c cells b pos s y with
    | some r =>
      obtain ⟨cells', b'⟩ := r
      simp only [hi', Prod.mk.injEq, and_true] at h
      obtain ⟨hc, _⟩ := intInsertAt_eq c cells b pos s y _ hi'
      simp only at hc
      subst hc
      subst h
      refine ⟨g, ?_, rfl, ?_⟩
      · simp only
        rw [get_set_eq_upd]
        exact hwf b'
      · intro p hpL
        simp only
        rw [get_set_eq_upd]
        exact upd_other _ _ _ _ (hleafne p hpL).1
    | none =>
      simp only [hi'] at h
      have hnl : ¬ cells.length < pos := by omega
      simp only [hnl, if_false] at h
      cases hd : (cells.insertIdx pos (s, y)).drop ((cells.insertIdx pos (s, y)).length / 2) with
      | nil => simp [hd] at h
      | cons pr rcells =>
        obtain ⟨promote, rlm⟩ := pr
        simp only [hd] at h
        cases ha : alloc c t with
        | none => simp [ha] at h
        | some r =>
          obtain ⟨rp, t1⟩ := r
          obtain ⟨hrp, ht1⟩ := alloc_eq c t rp t1 ha
          subst hrp ht1
          simp only [ha] at h
          cases hl : rebuildInternal c ((cells.insertIdx pos (s, y)).take ((cells.insertIdx pos (s, y)).length / 2)) with
          | none => simp [hl] at h
          | some rl =>
            obtain ⟨lc, lb⟩ := rl
            simp only [hl] at h
            cases hr : rebuildInternal c rcells with
            | none => simp [hr] at h
            | some rr =>
              obtain ⟨rc, rb⟩ := rr
              simp only [hr] at h
              have hlc := rebuildInternal_eq c _ _ hl
              have hrc := rebuildInternal_eq c _ _ hr
              simp only at hlc hrc
              subst hlc hrc
              -- the hypothetical tree with all cells in `pid`
              have wfV := hwf b
              have hall : cells.insertIdx pos (s, y) =
                  (cells.insertIdx pos (s, y)).take ((cells.insertIdx pos (s, y)).length / 2) ++ (promote, rlm) :: rc := by
                rw [← hd, List.take_append_drop]
              have st := int_split_step wfV pid lvl lo hi lm (cells.insertIdx pos (s, y)) b hG (by simp)
                _ rc promote rlm hall lb rb
              have hpathV : PathOK (upd t.pages.get pid (.internal lm (cells.insertIdx pos (s, y)) b)) g t.root pid (lvl + 1) rest := by
                apply PathOK_frame (pg := t.pages.get) (g := g) (g' := g) rfl rest pid (lvl + 1) _ hpath
                intro p l lo' hi' hpg hll
                refine ⟨rfl, upd_other _ _ _ _ ?_⟩
                intro e; rw [e, hG] at hpg
                simp only [Option.some.injEq, Prod.mk.injEq] at hpg; omega
              have hpend2 := pend_of_split wfV st rest hpathV
              rw [upd_upd_same] at hpend2
              have := ih { pages := (t.pages.set pid (.internal lm _ lb)).set t.next (.internal rlm rc rb), root := t.root, next := t.next + 1 }
                ⟨splitG g.G pid t.next (lvl + 1) lo hi promote, g.L, g.H⟩ pid (lvl + 1) promote t.next t'
                (by simp only; rw [get_set_eq_upd, get_set_eq_upd]; exact hpend2) h
              obtain ⟨g', wf', hL', hsame⟩ := this
              refine ⟨g', wf', hL', ?_⟩
              intro p hpL
              rw [hsame p hpL]
              simp only
              rw [get_set_eq_upd, get_set_eq_upd, upd_other _ _ _ _ (hleafne p hpL).2,
                upd_other _ _ _ _ (hleafne p hpL).1]

end Nervus.BTree
