/-
  Helper lemmas for C13 / C24 (statements in transactions).  Core only.
-/
import Nervus.Model.Txn
import Nervus.Spec.TxnSem
namespace Nervus.Txn

/-! ### what the regenerated table says about the source (re-checked on every build) -/

theorem code_atomic : Generated.capiTxnStmtAtomic = true := by decide
theorem code_reads_committed : Generated.capiTxnReadsStaged = false := by decide
theorem create_node_first : Generated.createStagesNodeBeforeProps = true := by decide
theorem autocommit_drops : Generated.capiAutoCommitDropsTxnOnError = true := by decide
theorem autocommit_unconditional : Generated.capiAutoCommitUnconditional = true := by decide

theorem codeStep_def : codeStep = step true false := by
  unfold codeStep; rw [code_atomic, code_reads_committed]
theorem codeRun_def : codeRun = run true false := by
  unfold codeRun; rw [code_atomic, code_reads_committed]

/-! ### C13: without a partial effect the code's step is the atomic step -/

theorem step_atomic_eq (ryw : Bool) (σ : State) (op : Op)
    (h : ∀ s, op = .tq s → ∀ ps, σ.staged = some ps →
      let view := if ryw then applyAll σ.committed ps else σ.committed
      ¬ ((exec view (σ.allocated + adds ps) s).failed = true ∧ (exec view (σ.allocated + adds ps) s).prims ≠ [])) :
    step false ryw σ op = step true ryw σ op := by
  cases op with
  | tq s =>
    simp only [step]
    cases hst : σ.staged with
    | none => rfl
    | some ps =>
      simp only
      have := h s rfl ps hst
      simp only at this
      by_cases hf : (exec (if ryw = true then applyAll σ.committed ps else σ.committed) (σ.allocated + adds ps) s).failed = true
      · have hp : (exec (if ryw = true then applyAll σ.committed ps else σ.committed) (σ.allocated + adds ps) s).prims = [] := by
          by_cases hp : (exec (if ryw = true then applyAll σ.committed ps else σ.committed) (σ.allocated + adds ps) s).prims = []
          · exact hp
          · exact absurd ⟨hf, hp⟩ this
        simp [hf, hp]
      · simp [hf]
  | auto s => rfl
  | begin => rfl
  | commit => rfl
  | rollback => rfl

theorem partialEffect_false_iff (σ : State) (s : Stmt) (ps : List Prim) (hst : σ.staged = some ps)
    (h : partialEffect σ s = false) :
    ¬ ((exec σ.committed (σ.allocated + adds ps) s).failed = true ∧
        (exec σ.committed (σ.allocated + adds ps) s).prims ≠ []) := by
  intro ⟨hf, hp⟩
  simp only [partialEffect, hst, hf, Bool.true_and] at h
  cases hpr : (exec σ.committed (σ.allocated + adds ps) s).prims with
  | nil => exact hp hpr
  | cons a as => rw [hpr] at h; simp at h

/-! ### C24: frame lemmas -/

theorem scan_applyPrim (g : Graph) (p : Prim) (l : Nat) (h : p.lbl ≠ l) : scan (applyPrim g p) l = scan g l := by
  cases p with
  | add n =>
    simp only [Prim.lbl] at h
    simp [applyPrim, scan, List.filter_append, h]
  | setQ id l' q =>
    simp only [Prim.lbl] at h
    simp only [applyPrim, scan]
    induction g with
    | nil => rfl
    | cons n ns ih =>
      simp only [List.map_cons, List.filter_cons]
      by_cases hc : n.id = id ∧ n.lbl = l'
      · have hn : n.lbl ≠ l := by rw [hc.2]; exact h
        simp [hc, h, ih]
      · simp only [if_neg hc]
        rw [ih]
  | setP id l' q =>
    simp only [Prim.lbl] at h
    simp only [applyPrim, scan]
    induction g with
    | nil => rfl
    | cons n ns ih =>
      simp only [List.map_cons, List.filter_cons]
      by_cases hc : n.id = id ∧ n.lbl = l'
      · have hn : n.lbl ≠ l := by rw [hc.2]; exact h
        simp [hc, h, ih]
      · simp only [if_neg hc]
        rw [ih]
  | del id l' =>
    simp only [Prim.lbl] at h
    simp only [applyPrim, scan, List.filter_filter]
    apply List.filter_congr
    intro n _
    by_cases hl : n.lbl = l
    · simp only [hl, decide_true, Bool.true_and, Bool.and_true]
      simp
      exact Or.inr (fun e => h e.symm)
    · simp [hl]

theorem scan_applyAll (ps : List Prim) : ∀ (g : Graph) (l : Nat), (∀ p ∈ ps, p.lbl ≠ l) →
    scan (applyAll g ps) l = scan g l := by
  induction ps with
  | nil => intro g l _; rfl
  | cons p ps ih =>
    intro g l h
    simp only [applyAll, List.foldl_cons]
    have := ih (applyPrim g p) l (fun q hq => h q (List.mem_cons_of_mem _ hq))
    simp only [applyAll] at this
    rw [this, scan_applyPrim g p l (h p (List.mem_cons_self ..))]

/-- a statement's result depends on the graph only through the scan of the label it reads -/
theorem exec_frame (g : Graph) (ps : List Prim) (n : Nat) (s : Stmt)
    (h : ∀ l, s.reads = some l → ∀ p ∈ ps, p.lbl ≠ l) : exec (applyAll g ps) n s = exec g n s := by
  cases s with
  | create l rows w => rfl
  | refused => rfl
  | setp l => simp only [exec]; rw [scan_applyAll ps g l (h l rfl)]
  | setw l v w => simp only [exec]; rw [scan_applyAll ps g l (h l rfl)]
  | del l => simp only [exec]; rw [scan_applyAll ps g l (h l rfl)]
  | merge l k => simp only [exec]; rw [scan_applyAll ps g l (h l rfl)]
  | setrep l ds => simp only [exec]; rw [scan_applyAll ps g l (h l rfl)]
  | mergeset l k w => simp only [exec]; rw [scan_applyAll ps g l (h l rfl)]

theorem execCreate_lbl (l : Nat) (w : Bool) (rows : List (Nat × Q)) : ∀ id, ∀ p ∈ (execCreate l w id rows).prims, p.lbl = l := by
  induction rows with
  | nil => intro id p hp; simp [execCreate] at hp
  | cons r rows ih =>
    intro id p hp
    obtain ⟨k, q⟩ := r
    simp only [execCreate] at hp
    split at hp
    · split at hp
      · simp only [create_node_first, if_true, List.mem_singleton] at hp; subst hp; rfl
      · simp only [List.mem_cons] at hp
        rcases hp with hp | hp
        · subst hp; rfl
        · exact ih _ p hp
      · simp only [List.mem_cons] at hp
        rcases hp with hp | hp | hp
        · subst hp; rfl
        · subst hp; rfl
        · exact ih _ p hp
    · simp only [List.mem_cons] at hp
      rcases hp with hp | hp
      · subst hp; rfl
      · exact ih _ p hp

theorem execSetp_lbl (l : Nat) (ns : List Node) : ∀ p ∈ (execSetp l ns).prims, p.lbl = l := by
  induction ns with
  | nil => intro p hp; simp [execSetp] at hp
  | cons n ns ih =>
    intro p hp
    simp only [execSetp] at hp
    split at hp
    · simp at hp
    · simp only [List.mem_cons] at hp
      rcases hp with hp | hp
      · subst hp; rfl
      · exact ih p hp

theorem execSetRepRow_lbl (l : Nat) (d : Q) (ns : List Node) : ∀ p ∈ (execSetRepRow l d ns).prims, p.lbl = l := by
  induction ns with
  | nil => intro p hp; simp [execSetRepRow] at hp
  | cons n ns ih =>
    intro p hp
    simp only [execSetRepRow] at hp
    split at hp
    · simp only [List.mem_singleton] at hp; subst hp; rfl
    · simp only [List.mem_cons] at hp
      rcases hp with hp | hp | hp
      · subst hp; rfl
      · subst hp; rfl
      · exact ih p hp

theorem execSetRep_lbl (l : Nat) (ns : List Node) (ds : List Q) : ∀ p ∈ (execSetRep l ns ds).prims, p.lbl = l := by
  induction ds with
  | nil => intro p hp; simp [execSetRep] at hp
  | cons d ds ih =>
    intro p hp
    simp only [execSetRep] at hp
    split at hp
    · exact execSetRepRow_lbl l d ns p hp
    · simp only [List.mem_append] at hp
      rcases hp with hp | hp
      · exact execSetRepRow_lbl l d ns p hp
      · exact ih p hp

/-- everything a statement stages carries the label the statement writes -/
theorem exec_writes (g : Graph) (n : Nat) (s : Stmt) : ∀ p ∈ (exec g n s).prims, s.writes = some p.lbl := by
  intro p hp
  cases s with
  | create l rows w => simp only [exec] at hp; simp [Stmt.writes, execCreate_lbl l w rows n p hp]
  | refused => simp [exec] at hp
  | setp l => simp only [exec] at hp; simp [Stmt.writes, execSetp_lbl l _ p hp]
  | setw l v w =>
    simp only [exec, List.mem_map] at hp
    obtain ⟨a, _, rfl⟩ := hp
    rfl
  | del l =>
    simp only [exec, List.mem_map] at hp
    obtain ⟨a, _, rfl⟩ := hp
    rfl
  | merge l k =>
    simp only [exec] at hp
    split at hp
    · simp at hp
    · simp only [List.mem_singleton] at hp; subst hp; rfl
  | setrep l ds => simp only [exec] at hp; simp [Stmt.writes, execSetRep_lbl l _ ds p hp]
  | mergeset l k w =>
    simp only [exec] at hp
    split at hp
    · simp only [List.mem_singleton] at hp; subst hp; rfl
    · simp only [List.mem_map] at hp
      obtain ⟨a, _, rfl⟩ := hp
      rfl

/-- without the trigger the code's step is the read-your-writes step -/
theorem step_ryw_eq (atomic : Bool) (σ : State) (op : Op)
    (h : ∀ s ps, op = .tq s → σ.staged = some ps → ∀ l, s.reads = some l → ∀ p ∈ ps, p.lbl ≠ l) :
    step atomic false σ op = step atomic true σ op := by
  cases op with
  | tq s =>
    simp only [step]
    cases hst : σ.staged with
    | none => rfl
    | some ps =>
      simp only [Bool.false_eq_true, if_false, if_true]
      rw [exec_frame σ.committed ps _ s (fun l hl => h s ps rfl hst l hl)]
  | auto s => rfl
  | begin => rfl
  | commit => rfl
  | rollback => rfl

/-- the tracker follows the transaction: open exactly when a transaction is open, and the labels of the staged
    writes are among the recorded ones -/
structure Tracks (σ : State) (w : Option (List Nat)) : Prop where
  open_iff : σ.staged = none ↔ w = none
  labels : ∀ ps ws, σ.staged = some ps → w = some ws → ∀ p ∈ ps, p.lbl ∈ ws

theorem Tracks.init : Tracks State.init none := ⟨by simp [State.init], by simp [State.init]⟩

theorem tracks_step (atomic : Bool) (σ : State) (w : Option (List Nat)) (op : Op) (h : Tracks σ w) :
    Tracks (step atomic false σ op).1 (track w op) := by
  obtain ⟨c, a, st⟩ := σ
  cases op with
  | auto s =>
    cases st with
    | some ps => simpa [step, track] using h
    | none =>
      have hw : w = none := h.open_iff.1 rfl
      subst hw
      simp only [step, track]
      split
      · exact ⟨by simp, by simp⟩
      · split <;> exact ⟨by simp, by simp⟩
  | begin =>
    cases st with
    | some ps =>
      cases w with
      | none => exact absurd (h.open_iff.2 rfl) (by simp)
      | some ws => simpa [step, track] using h
    | none =>
      have hw : w = none := h.open_iff.1 rfl
      subst hw
      exact ⟨by simp [step, track], by simp [step, track]⟩
  | commit =>
    cases st with
    | some ps => exact ⟨by simp [step, track], by simp [step, track]⟩
    | none =>
      have hw : w = none := h.open_iff.1 rfl
      subst hw
      exact ⟨by simp [step, track], by simp [step, track]⟩
  | rollback =>
    cases st with
    | some ps => exact ⟨by simp [step, track], by simp [step, track]⟩
    | none =>
      have hw : w = none := h.open_iff.1 rfl
      subst hw
      exact ⟨by simp [step, track], by simp [step, track]⟩
  | tq s =>
    cases st with
    | none =>
      have hw : w = none := h.open_iff.1 rfl
      subst hw
      exact ⟨by simp [step, track], by simp [step, track]⟩
    | some ps =>
      cases w with
      | none => exact absurd (h.open_iff.2 rfl) (by simp)
      | some ws =>
        have hl := h.labels ps ws rfl rfl
        have hw := exec_writes c (a + adds ps) s
        refine ⟨?_, ?_⟩
        · simp only [step, track, Bool.false_eq_true, if_false]; split <;> simp
        · intro ps' ws' hps' hws' p hp
          simp only [track] at hws'
          cases hws'
          simp only [step, Bool.false_eq_true, if_false] at hps'
          have hmem : p ∈ ps ∨ p ∈ (exec c (a + adds ps) s).prims := by
            split at hps'
            · cases atomic <;> simp only [Bool.false_eq_true, if_false, if_true] at hps' <;> cases hps'
              · exact List.mem_append.1 hp
              · exact Or.inl hp
            · cases hps'; exact List.mem_append.1 hp
          rcases hmem with hm | hm
          · have := hl p hm
            cases s.writes <;> simp [this]
          · have := hw p hm
            rw [this]; simp

theorem ryw_run_eq (atomic : Bool) (ops : List Op) : ∀ (σ : State) (w : Option (List Nat)), Tracks σ w →
    readsOwnWrites w ops = false → run atomic false σ ops = run atomic true σ ops := by
  induction ops with
  | nil => intro σ w _ _; rfl
  | cons op ops ih =>
    intro σ w ht hno
    simp only [readsOwnWrites, Bool.or_eq_false_iff] at hno
    have hstep : step atomic false σ op = step atomic true σ op := by
      apply step_ryw_eq
      intro s ps hop hst l hl p hp
      subst hop
      cases w with
      | none => exact absurd (ht.open_iff.2 rfl) (by simp [hst])
      | some ws =>
        have hmem := ht.labels ps ws hst rfl p hp
        have hh := hno.1
        simp only [hit, hl] at hh
        intro heq
        subst heq
        simp [hmem] at hh
    simp only [run]
    rw [← hstep]
    exact ih _ _ (tracks_step atomic σ w op ht) hno.2

theorem atomic_run_eq (ryw : Bool) (ops : List Op) : ∀ (σ : State),
    (∀ (pre : List Op) (s : Stmt) (post : List Op), ops = pre ++ .tq s :: post →
      ∀ ps, (run false ryw σ pre).staged = some ps →
        let τ := run false ryw σ pre
        let view := if ryw then applyAll τ.committed ps else τ.committed
        ¬ ((exec view (τ.allocated + adds ps) s).failed = true ∧ (exec view (τ.allocated + adds ps) s).prims ≠ [])) →
    run false ryw σ ops = run true ryw σ ops := by
  induction ops with
  | nil => intro σ _; rfl
  | cons op ops ih =>
    intro σ h
    have hstep : step false ryw σ op = step true ryw σ op := by
      apply step_atomic_eq
      intro s hop ps hst
      subst hop
      exact h [] s ops rfl ps hst
    simp only [run]
    rw [← hstep]
    apply ih
    intro pre s post hsplit ps hst
    have := h (op :: pre) s post (by rw [hsplit]; rfl) ps (by simpa [run] using hst)
    simpa [run] using this

/-- C13's history-level trigger is exactly the hypothesis of `atomic_run_eq` for the code's reads -/
theorem anyPartialEffect_false (ops : List Op) : ∀ (σ : State), anyPartialEffect σ ops = false →
    ∀ (pre : List Op) (s : Stmt) (post : List Op), ops = pre ++ .tq s :: post →
      ∀ ps, (run false false σ pre).staged = some ps →
        ¬ ((exec (run false false σ pre).committed ((run false false σ pre).allocated + adds ps) s).failed = true ∧
            (exec (run false false σ pre).committed ((run false false σ pre).allocated + adds ps) s).prims ≠ []) := by
  induction ops with
  | nil => intro σ _ pre s post h; cases pre <;> simp at h
  | cons op ops ih =>
    intro σ hno pre s post hsplit ps hst
    simp only [anyPartialEffect, Bool.or_eq_false_iff] at hno
    cases pre with
    | nil =>
      simp only [List.nil_append, List.cons.injEq] at hsplit
      obtain ⟨rfl, rfl⟩ := hsplit
      simp only [run] at hst ⊢
      exact partialEffect_false_iff σ s ps hst hno.1
    | cons o pre =>
      simp only [List.cons_append, List.cons.injEq] at hsplit
      obtain ⟨rfl, rfl⟩ := hsplit
      exact ih _ hno.2 pre s post rfl ps (by simpa [run] using hst)

end Nervus.Txn
