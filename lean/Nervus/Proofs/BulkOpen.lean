/-
  Proofs/BulkOpen.lean — `GraphEngine::open` on the files BulkLoader::commit leaves behind (C30):
  the engine it builds, explicitly, for every valid input.
-/
import Nervus.Proofs.CheckpointRec
import Nervus.Model.Bulk
namespace Nervus.Storage

theorem internName_nodup (t : Interner) (nm : Nat) (h : t.Nodup) : (internName t nm).Nodup := by
  unfold internName
  cases hg : t.getId nm with
  | some _ => exact h
  | none =>
    simp only
    rw [List.nodup_append]
    refine ⟨h, by simp, ?_⟩
    intro a ha b hb
    simp only [List.mem_singleton] at hb
    subst hb
    intro hab; subst hab
    exact (getId_none_iff t a).mp hg ha

theorem fold_internName_nodup (names : List Nat) : ∀ t : Interner, t.Nodup → (names.foldl internName t).Nodup := by
  induction names with
  | nil => intro t h; exact h
  | cons a as ih => intro t h; exact ih _ (internName_nodup t a h)

theorem bulkInterner_nodup (ns : List BulkNode) (es : List BulkEdge) : (bulkInterner ns es).Nodup :=
  fold_internName_nodup _ _ (fold_internName_nodup _ _ List.nodup_nil)

/-- the engine `open` builds from a bulk-loaded database -/
def bulkEngine (ns : List BulkNode) (es : List BulkEdge) (d : Disk) : Engine :=
  { wal := d.wal, idmap := IdMap.load d.i2e, interner := bulkInterner ns es, runs := [],
    segs := [(buildForward 0 (bulkEdges ns es)).persist], segStore := d.segStore, store := bulkStore ns es,
    storeRoot := 1, vecs := [], nextTxid := 1, nextSegId := 1, epoch := 0, ckptTxid := 0, propsRoot := 1 }

theorem bulk_open (ns : List BulkNode) (es : List BulkEdge) (hv : bulkValid ns es = true) :
    ∃ d, bulkLoad ns es = some d ∧ Engine.open d = .ok (bulkEngine ns es d) ∧
      d.i2e = ns.map (fun n => ⟨n.ext, ((bulkInterner ns es).getId n.label).getD 0⟩) := by
  let t := bulkInterner ns es
  let labels := t.zipIdx.map (fun p => WalRec.createLabel p.1 p.2)
  let body : List WalRec := labels ++ [.manifestSwitch 0 [0] 1, .checkpoint 0 0 1]
  let d : Disk :=
    { wal := [.beginTx 0] ++ t.zipIdx.map (fun p => WalRec.createLabel p.1 p.2) ++
        [.manifestSwitch 0 [0] 1, .checkpoint 0 0 1, .commitTx 0],
      i2e := ns.map (fun n => ⟨n.ext, (t.getId n.label).getD 0⟩),
      segStore := [(buildForward 0 (bulkEdges ns es)).persist],
      store := bulkStore ns es, storeRoot := 1, vecs := [] }
  have hb : bulkLoad ns es = some d := by unfold bulkLoad; rw [hv]; rfl
  refine ⟨d, hb, ?_, rfl⟩
  have hwal : d.wal = WalRec.beginTx 0 :: (body ++ [WalRec.commitTx 0]) := by
    simp only [d, body, labels, List.append_assoc, List.cons_append, List.nil_append]
  have hbody : ∀ r ∈ body, r.isBody = true := by
    intro r hr
    simp only [body, labels, List.mem_append, List.mem_map, List.mem_cons, List.mem_nil_iff, or_false] at hr
    rcases hr with ⟨_, _, rfl⟩ | rfl | rfl <;> rfl
  have hinert : ∀ r ∈ body, r.isInert = true := by
    intro r hr
    simp only [body, labels, List.mem_append, List.mem_map, List.mem_cons, List.mem_nil_iff, or_false] at hr
    rcases hr with ⟨_, _, rfl⟩ | rfl | rfl <;> rfl
  have hblocks : Blocks d.wal [(0, body)] := by
    rw [hwal]
    have := Blocks.nil.append 0 body hbody
    simpa using this
  have e1 : replayCommitted d.wal none [] = .ok [(0, body)] := hblocks.parse
  -- labels
  have hl : replayLabels [(0, body)] = .ok t := by
    rw [replayLabels_eq, List.foldlM_cons]
    have h1 := labels_roundtrip t [] (by simpa using bulkInterner_nodup ns es)
    simp only [List.length_nil, List.nil_append] at h1
    have hbodyL : body.foldlM labelOp [] = .ok t := by
      show (labels ++ _).foldlM labelOp [] = _
      rw [List.foldlM_append]
      show (labels.foldlM labelOp [] >>= _) = _
      rw [show labels.foldlM labelOp [] = .ok t from h1]
      rfl
    show (labelTx [] (0, body) >>= fun init => List.foldlM labelTx init []) = _
    unfold labelTx
    simp only
    rw [hbodyL]
    rfl
  -- scan
  have hscan : (scanRecovery [(0, body)]).epoch = 0 ∧ (scanRecovery [(0, body)]).segs = [0] ∧
      (scanRecovery [(0, body)]).ckptTxid = 0 ∧ (scanRecovery [(0, body)]).propsRoot = 1 ∧
      (scanRecovery [(0, body)]).maxTxid = 0 := by
    have hmax : (scanRecovery [(0, body)]).maxTxid = 0 := by
      have := scan_maxTxid_append [] (0, body)
      simp only [List.nil_append] at this
      rw [this]; rfl
    rw [scanRecovery_eq, List.foldl_cons, List.foldl_nil] at *
    unfold scanTx at *
    have hnm : ∀ r ∈ labels, r.isMeta = false := by
      intro r hr
      simp only [labels, List.mem_map] at hr
      obtain ⟨_, _, rfl⟩ := hr; rfl
    show (_ : Recovery).epoch = _ ∧ _
    simp only [body] at hmax ⊢
    rw [List.foldl_append] at hmax ⊢
    obtain ⟨m1, m2, m3, m4⟩ := scanOps_noMeta labels { ({} : Recovery) with maxTxid := max ({} : Recovery).maxTxid 0 } hnm
    generalize labels.foldl scanOp { ({} : Recovery) with maxTxid := max ({} : Recovery).maxTxid 0 } = st0 at m1 m2 m3 m4 hmax ⊢
    have e0 : st0.epoch = 0 := m1
    have e3 : st0.ckptTxid = 0 := m3
    refine ⟨?_, ?_, ?_, ?_, hmax⟩ <;>
      simp only [List.foldl_cons, List.foldl_nil, scanOp, e0, e3, ge_iff_le, Nat.zero_le, if_true, beq_self_eq_true,
        Nat.zero_max, Nat.max_self]
  obtain ⟨s1, s2, s3, s4, s5⟩ := hscan
  have hid : ((buildForward 0 (bulkEdges ns es)).persist).id = 0 := by rw [persist_id, buildForward_id]
  have hfind : [0].mapM (findSeg d.segStore) = .ok [(buildForward 0 (bulkEdges ns es)).persist] := by
    show [0].mapM (findSeg [(buildForward 0 (bulkEdges ns es)).persist]) = _
    rw [List.mapM_cons]
    unfold findSeg
    simp only [List.find?_cons, hid, beq_self_eq_true, List.mapM_nil, bind, Except.bind, pure, Except.pure]
  have hg : replayGraph [(0, body)] 0 (IdMap.load (IdMap.readNodeTable d.i2e)) = .ok (IdMap.load d.i2e, []) := by
    rw [IdMap.readNodeTable_eq, replayGraph_eq, List.foldlM_cons]
    have : replayStep 0 (IdMap.load d.i2e, []) (0, body) = .ok (IdMap.load d.i2e, []) := by
      unfold replayStep; rw [if_pos (Nat.le_refl _)]
    rw [this]
    rfl
  unfold Engine.open
  simp only [e1, hl, s1, s2, s3, s4, s5, hfind, hg, bind, Except.bind, pure, Except.pure]
  unfold bulkEngine
  simp only [List.foldl_cons, List.foldl_nil, hid]
  rfl

end Nervus.Storage
