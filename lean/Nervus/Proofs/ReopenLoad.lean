/-
  Proofs/ReopenLoad.lean — IdMap::load: the external-id index rebuilt from the node table.
-/
import Nervus.Proofs.ReopenRec3
namespace Nervus.Storage

def loadE2i (l : List I2e) (k : Nat) : List (Nat × Nat) :=
  ((l.zipIdx k).filter (fun p => p.1.ext != 0)).map (fun p => (p.1.ext, p.2))

theorem load_e2i (l : List I2e) : (IdMap.load l).e2i = loadE2i l 0 := rfl

theorem loadE2i_some (x : Nat) (hx : x ≠ 0) (l : List I2e) :
    ∀ (k j : Nat) (r : I2e), l[j]? = some r → r.ext = x →
      (∀ j' r', l[j']? = some r' → r'.ext = x → j' = j) → (loadE2i l k).lookup x = some (k + j) := by
  induction l with
  | nil => intro k j r h; simp at h
  | cons a as ih =>
    intro k j r h1 h2 hu
    unfold loadE2i
    rw [List.zipIdx_cons, List.filter_cons]
    cases j with
    | zero =>
      simp only [List.getElem?_cons_zero, Option.some.injEq] at h1
      subst h1
      have : (x != 0) = true := by simpa using hx
      simp only [h2, this, if_true, List.map_cons, List.lookup_cons, beq_self_eq_true, Nat.add_zero]
    | succ j' =>
      simp only [List.getElem?_cons_succ] at h1
      have hne : a.ext ≠ x := by
        intro he
        have := hu 0 a (by simp) he
        omega
      have ih' := ih (k + 1) j' r h1 h2 (by
        intro j'' r' h3 h4
        have := hu (j'' + 1) r' (by simpa using h3) h4
        omega)
      unfold loadE2i at ih'
      have hb : (x == a.ext) = false := by simpa using (Ne.symm hne)
      split
      · simp only [List.map_cons, List.lookup_cons, hb]
        rw [ih']; congr 1; omega
      · rw [ih']; congr 1; omega

theorem loadE2i_none (x : Nat) (l : List I2e) (k : Nat) (h : ∀ (j : Nat) (r : I2e), l[j]? = some r → r.ext ≠ x) :
    (loadE2i l k).lookup x = none := by
  apply lookup_eq_none_of_not_mem_keys
  intro p hp heq
  unfold loadE2i at hp
  obtain ⟨q, hq, rfl⟩ := List.mem_map.mp hp
  have hq' := (List.mem_filter.mp hq).1
  obtain ⟨h1, h2, h3⟩ := List.mem_zipIdx (x := q.1) (i := q.2) hq'
  have : l[q.2 - k]? = some q.1 := by
    rw [List.getElem?_eq_getElem (by omega), ← h3]
  exact h _ _ this heq

/-- for a node table whose external ids are non-zero and distinct, `load` indexes exactly the table -/
theorem load_lookup (l : List I2e) (x : Nat)
    (hnz : ∀ (j : Nat) (r : I2e), l[j]? = some r → r.ext ≠ 0)
    (hinj : ∀ (j j' : Nat) (r r' : I2e), l[j]? = some r → l[j']? = some r' → r.ext = r'.ext → j = j') :
    (IdMap.load l).lookup x = (match (l.zipIdx.find? (fun p => p.1.ext == x)) with | some p => some p.2 | none => none) := by
  unfold IdMap.lookup
  rw [load_e2i]
  cases hf : l.zipIdx.find? (fun p => p.1.ext == x) with
  | none =>
    apply loadE2i_none
    intro j r hj he
    have := List.find?_eq_none.mp hf (r, j) (List.mem_zipIdx_iff_getElem?.mpr hj)
    simp [he] at this
  | some p =>
    have hm := List.mem_of_find?_eq_some hf
    have hp := List.find?_some hf
    simp only [beq_iff_eq] at hp
    have hget : l[p.2]? = some p.1 := List.mem_zipIdx_iff_getElem?.mp hm
    have hx : x ≠ 0 := by rw [← hp]; exact hnz _ _ hget
    have := loadE2i_some x hx l 0 p.2 p.1 hget hp (by
      intro j' r' h3 h4
      exact hinj _ _ _ _ h3 hget (by rw [h4, hp]))
    simpa using this

end Nervus.Storage
