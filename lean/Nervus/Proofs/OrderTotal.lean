/-
  Proofs.OrderTotal — `order_compare` on the domain of C20: antisymmetric on all values
  (`orderCompare_swap`), total (never the `None ⇒ Equal` fallback) on values without NaN inside maps
  (`orderCompare_eq_ocnn`), transitive there when the strings are compared transitively
  (`orderCompare_trans`).  Core only.
-/
import Nervus.Proofs.OrderCompare
namespace Nervus
open F64 Value Eval Spec

theorem thenP_isSome {o r : Option Ordering} (h1 : o.isSome) (h2 : r.isSome) : (thenP o r).isSome := by
  cases o with
  | none => simp at h1
  | some v => cases v <;> simp [thenP, h2]

theorem f64cmp_isSome {a b : F64} (ha : a.isNaN = false) (hb : b.isNaN = false) : (F64.cmp a b).isSome := by
  simp [F64.cmp, ha, hb]

mutual
theorem dcmp_some : ∀ (a b : Value), mapsNaNFree.noNaN a = true → mapsNaNFree.noNaN b = true → (dcmp a b).isSome
  | .list xs, b, ha, hb => by
    cases b <;> first | (simp only [dcmp]; exact dcmpList_some xs _ ha hb) | simp [dcmp]
  | .map xs, b, ha, hb => by
    cases b <;> first | (simp only [dcmp]; exact dcmpMap_some xs _ ha hb) | simp [dcmp]
  | .float x, b, ha, hb => by
    cases b <;> first
      | (simp only [dcmp]; exact f64cmp_isSome (by simpa [mapsNaNFree.noNaN] using ha) (by simpa [mapsNaNFree.noNaN] using hb))
      | simp [dcmp]
  | .null, b, _, _ => by cases b <;> simp [dcmp]
  | .bool _, b, _, _ => by cases b <;> simp [dcmp]
  | .int _, b, _, _ => by cases b <;> simp [dcmp]
  | .str _, b, _, _ => by cases b <;> simp [dcmp]
  | .nodeId _, b, _, _ => by cases b <;> simp [dcmp]
  | .externalId _, b, _, _ => by cases b <;> simp [dcmp]
  | .edgeKey _, b, _, _ => by cases b <;> simp [dcmp]
  | .dateTime _, b, _, _ => by cases b <;> simp [dcmp]
  | .blob _, b, _, _ => by cases b <;> simp [dcmp]
  | .path _ _, b, _, _ => by cases b <;> simp [dcmp]
theorem dcmpList_some : ∀ (a b : List Value), mapsNaNFree.noNaNList a = true → mapsNaNFree.noNaNList b = true →
    (dcmpList a b).isSome
  | [], b, _, _ => by cases b <;> simp [dcmpList]
  | x :: xs, b, ha, hb => by
    cases b with
    | nil => simp [dcmpList]
    | cons y ys =>
      simp only [mapsNaNFree.noNaNList, Bool.and_eq_true] at ha hb
      simp only [dcmpList]
      exact thenP_isSome (dcmp_some x y ha.1 hb.1) (dcmpList_some xs ys ha.2 hb.2)
theorem dcmpMap_some : ∀ (a b : List (Str × Value)), mapsNaNFree.mnfMap a = true → mapsNaNFree.mnfMap b = true →
    (dcmpMap a b).isSome
  | [], b, _, _ => by cases b <;> simp [dcmpMap]
  | (k, x) :: xs, b, ha, hb => by
    cases b with
    | nil => simp [dcmpMap]
    | cons y ys =>
      obtain ⟨k', y⟩ := y
      simp only [mapsNaNFree.mnfMap, Bool.and_eq_true] at ha hb
      simp only [dcmpMap]
      exact thenP_isSome (thenP_isSome (by simp) (dcmp_some x y ha.1 hb.1)) (dcmpMap_some xs ys ha.2 hb.2)
end

section
variable (E : Env)

theorem ocElem_isSome (x y : Value) (h : x ≠ .null → y ≠ .null → (orderCompareNonNull E x y).isSome) :
    (ocElem E x y).isSome := by
  unfold ocElem
  cases x <;> cases y <;> first | (simp [listElemOrdering]; done) | (simp only [listElemOrdering]; exact h (by simp) (by simp))

mutual
theorem ocnn_some : ∀ (a b : Value), mapsNaNFree a = true → mapsNaNFree b = true →
    (orderCompareNonNull E a b).isSome
  | .list xs, b, ha, hb => by
    cases b <;> first | (simp only [orderCompareNonNull]; exact clo_some xs _ ha hb) | (rank_simp; done)
  | .map xs, b, ha, hb => by
    cases b <;> first | (simp only [orderCompareNonNull]; exact dcmpMap_some xs _ ha hb) | (rank_simp; done)
  | .null, b, _, _ => by cases b <;> rank_simp
  | .bool _, b, _, _ => by cases b <;> first | (simp [orderCompareNonNull]; done) | (rank_simp; done)
  | .int _, b, _, _ => by cases b <;> first | (simp [orderCompareNonNull]; done) | (rank_simp; done)
  | .float _, b, _, _ => by cases b <;> first | (simp [orderCompareNonNull]; done) | (rank_simp; done)
  | .str _, b, _, _ => by cases b <;> first | (simp [orderCompareNonNull]; done) | (rank_simp; done)
  | .nodeId _, b, _, _ => by
    cases b <;> first | (simp [orderCompareNonNull]; done) | (rank_simp; done) | (simp [orderCompareNonNull, rank_ne_node, rank_ne_node']; done)
  | .externalId _, b, _, _ => by
    cases b <;> first | (simp [orderCompareNonNull]; done) | (rank_simp; done) | (simp [orderCompareNonNull, rank_ne_node, rank_ne_node']; done)
  | .edgeKey _, b, _, _ => by cases b <;> first | (simp [orderCompareNonNull]; done) | (rank_simp; done)
  | .dateTime _, b, _, _ => by cases b <;> first | (simp [orderCompareNonNull]; done) | (rank_simp; done)
  | .blob _, b, _, _ => by cases b <;> first | (simp [orderCompareNonNull]; done) | (rank_simp; done)
  | .path _ _, b, _, _ => by
    cases b <;> first | (rank_simp; done) | (rw [ocnn_path]; simp)
theorem clo_some : ∀ (a b : List Value), mapsNaNFree.mnfList a = true → mapsNaNFree.mnfList b = true →
    (compareListsOrdering E a b).isSome
  | [], b, _, _ => by cases b <;> simp [compareListsOrdering]
  | x :: xs, b, ha, hb => by
    cases b with
    | nil => simp [compareListsOrdering]
    | cons y ys =>
      simp only [mapsNaNFree.mnfList, Bool.and_eq_true] at ha hb
      rw [clo_cons]
      exact thenP_isSome (ocElem_isSome E x y (fun _ _ => ocnn_some x y ha.1 hb.1)) (clo_some xs ys ha.2 hb.2)
end

/-- `order_compare` is antisymmetric on ALL values -/
theorem orderCompare_swap (a b : Value) : orderCompare E a b = (orderCompare E b a).swap := by
  have h := ocnn_swap E a b
  cases a <;> cases b <;> simp only [orderCompare] <;> first | rfl | (rw [h]; cases orderCompareNonNull E _ _ <;> rfl)

/-- on values without NaN inside maps `order_compare` never falls back to `Equal` -/
theorem orderCompare_eq_ocnn (a b : Value) (ha : a ≠ .null) (hb : b ≠ .null) (ma : mapsNaNFree a = true)
    (mb : mapsNaNFree b = true) : orderCompareNonNull E a b = some (orderCompare E a b) := by
  have h := ocnn_some E a b ma mb
  cases a <;> cases b <;> first | exact absurd rfl ha | exact absurd rfl hb | skip
  all_goals (simp only [orderCompare]; cases h' : orderCompareNonNull E _ _ <;> simp_all)

theorem orderCompare_null_left (b : Value) (hb : b ≠ .null) : orderCompare E .null b = .gt := by
  cases b <;> first | exact absurd rfl hb | rfl

theorem orderCompare_null_right (a : Value) (ha : a ≠ .null) : orderCompare E a .null = .lt := by
  cases a <;> first | exact absurd rfl ha | rfl

/-- `order_compare` is transitive on well-formed values with NaN-free maps whose strings are compared
    transitively -/
theorem orderCompare_trans (a b d : Value) (wa : a.wf = true) (wb : b.wf = true) (wd : d.wf = true)
    (ma : mapsNaNFree a = true) (mb : mapsNaNFree b = true) (md : mapsNaNFree d = true)
    (hS : StrHyp E (stringsOf a) (stringsOf b) (stringsOf d))
    (n1 : orderCompare E a b ≠ .gt) (n2 : orderCompare E b d ≠ .gt) :
    orderCompare E a d = (orderCompare E a b).then (orderCompare E b d) := by
  by_cases ha : a = .null
  · subst ha
    by_cases hb : b = .null
    · subst hb
      by_cases hd : d = .null
      · subst hd; rfl
      · exact absurd (orderCompare_null_left E d hd) n2
    · exact absurd (orderCompare_null_left E b hb) n1
  · by_cases hb : b = .null
    · subst hb
      by_cases hd : d = .null
      · subst hd; rw [orderCompare_null_right E a ha]; rfl
      · exact absurd (orderCompare_null_left E d hd) n2
    · by_cases hd : d = .null
      · subst hd
        rw [orderCompare_null_right E a ha, orderCompare_null_right E b hb]
        cases h : orderCompare E a b <;> first | rfl | exact absurd h n1
      · have e1 := orderCompare_eq_ocnn E a b ha hb ma mb
        have e2 := orderCompare_eq_ocnn E b d hb hd mb md
        have e3 := orderCompare_eq_ocnn E a d ha hd ma md
        have := ocnn_trans E a b d wa wb wd hS _ _ e1 e2 n1 n2
        rw [e3] at this
        exact Option.some.inj this
end
end Nervus
