/-
  Helper lemmas for C34 (`value_to_json` loses nothing on faithful values): a decoder that is a left inverse.
  Core only.
-/
import Nervus.Model.CApiJson
namespace Nervus.CApiJson

def hasType : JKVs → Bool
  | .nil => false
  | .cons k _ rest => k == "type" || hasType rest

def unstrs : Jsons → Option (List String)
  | .nil => some []
  | .cons (.str s) rest => (unstrs rest).map (s :: ·)
  | .cons _ _ => none

theorem unstrs_strs (ls : List String) : unstrs (strs ls) = some ls := by
  induction ls with
  | nil => rfl
  | cons s ss ih => simp [strs, unstrs, ih]

mutual
/-- a reader of the JSON: tagged objects are recognised by the key `"type"` -/
def decode : Json → Option Value
  | .null => some .null
  | .bool b => some (.bool b)
  | .int i => some (.int i)
  | .float f => some (.float f)
  | .str s => some (.str s)
  | .arr xs => (decodes xs).map .list
  | .obj kvs => if hasType kvs then decodeTagged kvs else (decodeKVs kvs).map .map
def decodeTagged : JKVs → Option Value
  | .cons "type" (.str "datetime") (.cons "value" (.int ts) .nil) => some (.datetime ts)
  | .cons "type" (.str "node_id") (.cons "value" (.int id) .nil) => some (.nodeId id.toNat)
  | .cons "type" (.str "external_id") (.cons "value" (.int id) .nil) => some (.externalId id.toNat)
  | .cons "id" (.int id) (.cons "labels" (.arr ls) (.cons "properties" (.obj props) (.cons "type" (.str "node") .nil))) =>
    match unstrs ls, decodeKVs props with
    | some labels, some ps => some (.node id.toNat labels ps)
    | _, _ => none
  | .cons "dst" (.int dst) (.cons "properties" (.obj props) (.cons "rel_type" (.str ty) (.cons "src" (.int src)
      (.cons "type" (.str "relationship") .nil)))) =>
    match decodeKVs props with
    | some ps => some (.rel src.toNat dst.toNat ty ps)
    | none => none
  | _ => none
def decodes : Jsons → Option Values
  | .nil => some .nil
  | .cons x xs =>
    match decode x, decodes xs with
    | some v, some vs => some (.cons v vs)
    | _, _ => none
def decodeKVs : JKVs → Option VKVs
  | .nil => some .nil
  | .cons k x rest =>
    match decode x, decodeKVs rest with
    | some v, some vs => some (.cons k v vs)
    | _, _ => none
end

theorem hasType_toJsonKVs : ∀ kvs : VKVs, hasType (toJsonKVs kvs) = !noTypeKey kvs
  | .nil => rfl
  | .cons k v rest => by
    have ih := hasType_toJsonKVs rest
    simp [toJsonKVs, hasType, noTypeKey, ih, Bool.not_and, bne]

mutual
theorem decode_toJson (v : Value) : Faithful v = true → decode (toJson v) = some v := by
  cases v with
  | null => intro _; simp [toJson, decode]
  | bool b => intro _; simp [toJson, decode]
  | int i => intro _; simp [toJson, decode]
  | float f =>
    intro h
    simp only [Faithful] at h
    simp [toJson, decode, h]
  | str s => intro _; simp [toJson, decode]
  | datetime ts => intro _; simp [toJson, decode, decodeTagged, hasType]
  | blob bs => intro h; simp [Faithful] at h
  | list vs =>
    intro h
    simp only [Faithful] at h
    have h2 := decodes_toJsons vs h
    simp only [toJson, decode, h2, Option.map_some]
  | map kvs =>
    intro h
    simp only [Faithful, Bool.and_eq_true] at h
    have h1 : hasType (toJsonKVs kvs) = false := by rw [hasType_toJsonKVs, h.1]; rfl
    have h2 := decodeKVs_toJsonKVs kvs h.2
    simp only [toJson, decode, h1, h2, Bool.false_eq_true, if_false, Option.map_some]
  | node id labels props =>
    intro h
    simp only [Faithful] at h
    have h2 := decodeKVs_toJsonKVs props h
    simp [toJson, decode, decodeTagged, hasType, unstrs_strs, h2]
  | rel src dst ty props =>
    intro h
    simp only [Faithful] at h
    have h2 := decodeKVs_toJsonKVs props h
    simp [toJson, decode, decodeTagged, hasType, h2]
  | nodeId id => intro _; simp [toJson, decode, decodeTagged, hasType]
  | externalId id => intro _; simp [toJson, decode, decodeTagged, hasType]
termination_by sizeOf v
theorem decodes_toJsons (vs : Values) : FaithfulList vs = true → decodes (toJsons vs) = some vs := by
  cases vs with
  | nil => intro _; simp [toJsons, decodes]
  | cons v vs =>
    intro h
    simp only [FaithfulList, Bool.and_eq_true] at h
    have h1 := decode_toJson v h.1
    have h2 := decodes_toJsons vs h.2
    simp only [toJsons, decodes, h1, h2]
termination_by sizeOf vs
theorem decodeKVs_toJsonKVs (kvs : VKVs) : FaithfulKVs kvs = true → decodeKVs (toJsonKVs kvs) = some kvs := by
  cases kvs with
  | nil => intro _; simp [toJsonKVs, decodeKVs]
  | cons k v rest =>
    intro h
    simp only [FaithfulKVs, Bool.and_eq_true] at h
    have h1 := decode_toJson v h.1
    have h2 := decodeKVs_toJsonKVs rest h.2
    simp only [toJsonKVs, decodeKVs, h1, h2]
termination_by sizeOf kvs
end

end Nervus.CApiJson
