/-
  Proofs.Equality — `cypher_equals` on all well-formed values: three-valued (`cypherEquals_tri`), symmetric
  (`ce_symm`), transitive (`ce_trans`), reflexive on null/NaN-free values (`ce_refl`); on numbers it is
  equality of the exact values (`cypherEquals_num`, `numCmp_eq_spec`); on key-sorted maps it is the
  element-wise comparison of aligned entries (`cypherEquals_map`).  Also: the derived `==` is symmetric.
  Core only.
-/
import Nervus.Proofs.OrderTotal
import Nervus.Spec.CypherValue
namespace Nervus
open F64 Value Eval Spec

/-! ### `eqStep` algebra -/

def isTri : Value → Bool
  | .bool _ | .null => true
  | _ => false

theorem eqStep_tri (e r : Value) (hr : isTri r = true) : isTri (eqStep e r) = true := by
  cases e with
  | bool b => cases b <;> simp only [eqStep] <;> first | exact hr | rfl
  | null => cases r <;> first | rfl | (rename_i b; cases b <;> rfl)
  | _ => rfl

theorem eqStep_true {e r : Value} : eqStep e r = .bool true ↔ e = .bool true ∧ r = .bool true := by
  cases e with
  | bool b => cases b <;> simp [eqStep]
  | null => cases r <;> simp [eqStep] <;> rename_i b <;> cases b <;> simp
  | _ => simp [eqStep]

theorem eqStep_false_right (e : Value) (he : isTri e = true) : eqStep e (.bool false) = .bool false := by
  cases e with
  | bool b => cases b <;> rfl
  | null => rfl
  | _ => simp [isTri] at he

mutual
theorem cypherEquals_tri : ∀ (a b : Value), isTri (cypherEquals a b)
  | .list xs, b => by
    cases b <;> simp only [cypherEquals, isTri]
    rename_i ys
    by_cases h : (xs.length != ys.length) = true
    · simp [h]
    · simp only [h, Bool.false_eq_true, if_false]; exact seq_tri xs ys
  | .map xs, b => by
    cases b <;> simp only [cypherEquals, isTri]
    rename_i ys
    by_cases h : (xs.length != ys.length) = true
    · simp [h]
    · simp only [h, Bool.false_eq_true, if_false]; exact map_tri xs ys
  | .null, b => by cases b <;> simp [cypherEquals, isTri]
  | .bool _, b => by cases b <;> simp [cypherEquals, isTri]
  | .int _, b => by cases b <;> simp [cypherEquals, isTri]
  | .float _, b => by
    cases b <;> simp only [cypherEquals, isTri]
    rename_i x y
    by_cases h : (fNaN x || fNaN y) = true <;> simp [h]
  | .str _, b => by cases b <;> simp [cypherEquals, isTri]
  | .nodeId _, b => by cases b <;> simp [cypherEquals, isTri]
  | .externalId _, b => by cases b <;> simp [cypherEquals, isTri]
  | .edgeKey _, b => by cases b <;> simp [cypherEquals, isTri]
  | .dateTime _, b => by cases b <;> simp [cypherEquals, isTri]
  | .blob _, b => by cases b <;> simp [cypherEquals, isTri]
  | .path _ _, b => by cases b <;> simp [cypherEquals, isTri]
theorem seq_tri : ∀ (a b : List Value), isTri (cypherEqualsSeq a b)
  | [], b => by cases b <;> simp [cypherEqualsSeq, isTri]
  | x :: xs, b => by
    cases b with
    | nil => simp [cypherEqualsSeq, isTri]
    | cons y ys => simp only [cypherEqualsSeq]; exact eqStep_tri _ _ (seq_tri xs ys)
theorem map_tri : ∀ (a b : List (Str × Value)), isTri (cypherEqualsMap a b)
  | [], b => by simp [cypherEqualsMap, isTri]
  | (k, x) :: xs, b => by
    simp only [cypherEqualsMap]
    cases lookup k b with
    | none => rfl
    | some y => exact eqStep_tri _ _ (map_tri xs b)
end

/-! ### key-sorted association lists (`BTreeMap`) -/

def KLt (a b : Str × Value) : Prop := bytesLt a.1 b.1 = true

theorem keysSorted_iff : ∀ (l : List (Str × Value)), keysSorted l = true ↔ l.Pairwise KLt
  | [] => by simp [keysSorted]
  | [_] => by simp [keysSorted]
  | (k, v) :: (k', v') :: rest => by
    simp only [keysSorted, Bool.and_eq_true, keysSorted_iff ((k', v') :: rest), List.pairwise_cons]
    constructor
    · rintro ⟨h1, h2, h3⟩
      refine ⟨?_, h2, h3⟩
      intro a ha
      rcases List.mem_cons.1 ha with rfl | ha
      · exact h1
      · exact bytesLt_trans _ _ _ h1 (h2 a ha)
    · rintro ⟨h1, h2, h3⟩
      exact ⟨h1 (k', v') (by simp), h2, h3⟩

def keysOf (l : List (Str × Value)) : List Str := l.map Prod.fst

theorem lookup_eq_none_iff (k : Str) : ∀ (l : List (Str × Value)), lookup k l = none ↔ k ∉ keysOf l
  | [] => by simp [lookup, keysOf]
  | (k', v) :: rest => by
    simp only [lookup, keysOf, List.map_cons, List.mem_cons, not_or]
    by_cases h : k = k'
    · subst h; simp
    · have : (k == k') = false := by simpa using h
      simp only [this, Bool.false_eq_true, if_false]
      rw [lookup_eq_none_iff k rest]; simp [keysOf, h]

/-- in a key-sorted list the entry found for a key that heads a suffix is that suffix's head -/
theorem lookup_mid (k : Str) (y : Value) : ∀ (pre rest : List (Str × Value)),
    (pre ++ (k, y) :: rest).Pairwise KLt → lookup k (pre ++ (k, y) :: rest) = some y
  | [], rest, _ => by simp [lookup]
  | (p, v) :: pre, rest, h => by
    simp only [List.cons_append, List.pairwise_cons] at h
    have hp : bytesLt p k = true := h.1 (k, y) (by simp)
    have hne : (k == p) = false := by
      have : k ≠ p := by
        intro e; subst e; rw [bytesLt_irrefl] at hp; cases hp
      simpa using this
    simp only [List.cons_append, lookup, hne, Bool.false_eq_true, if_false]
    exact lookup_mid k y pre rest h.2

/-- strictly sorted lists of byte strings: a subset is not longer -/
theorem sorted_subset_length : ∀ (r l : List Str), l.Pairwise (fun a b => bytesLt a b = true) →
    r.Pairwise (fun a b => bytesLt a b = true) → (∀ k ∈ l, k ∈ r) → l.length ≤ r.length
  | [], l, _, _, hs => by
    cases l with
    | nil => simp
    | cons k _ => exact absurd (hs k (by simp)) (by simp)
  | k' :: r', l, hl, hr, hs => by
    cases l with
    | nil => simp
    | cons k l' =>
      simp only [List.pairwise_cons] at hl hr
      by_cases e : k = k'
      · subst e
        have : ∀ x ∈ l', x ∈ r' := by
          intro x hx
          rcases List.mem_cons.1 (hs x (by simp [hx])) with rfl | h
          · have := hl.1 x hx; rw [bytesLt_irrefl] at this; cases this
          · exact h
        have := sorted_subset_length r' l' hl.2 hr.2 this
        simp; omega
      · have hk : k ∈ r' := by
          rcases List.mem_cons.1 (hs k (by simp)) with h | h
          · exact absurd h e
          · exact h
        have hlt : bytesLt k' k = true := hr.1 k hk
        have : ∀ x ∈ k :: l', x ∈ r' := by
          intro x hx
          have hx' : bytesLt k' x = true := by
            rcases List.mem_cons.1 hx with rfl | hx
            · exact hlt
            · exact bytesLt_trans _ _ _ hlt (hl.1 x hx)
          rcases List.mem_cons.1 (hs x hx) with rfl | h
          · rw [bytesLt_irrefl] at hx'; cases hx'
          · exact h
        have := sorted_subset_length r' (k :: l') (List.pairwise_cons.2 hl) hr.2 this
        simp at this ⊢; omega

theorem sorted_subset_eq : ∀ (l r : List Str), l.Pairwise (fun a b => bytesLt a b = true) →
    r.Pairwise (fun a b => bytesLt a b = true) → (∀ k ∈ l, k ∈ r) → l.length = r.length → l = r
  | [], r, _, _, _, hlen => by cases r <;> simp_all
  | k :: l', r, hl, hr, hs, hlen => by
    cases r with
    | nil => simp at hlen
    | cons k' r' =>
      have hl' := List.pairwise_cons.1 hl
      have hr' := List.pairwise_cons.1 hr
      by_cases e : k = k'
      · subst e
        have : ∀ x ∈ l', x ∈ r' := by
          intro x hx
          rcases List.mem_cons.1 (hs x (by simp [hx])) with rfl | h
          · have := hl'.1 x hx; rw [bytesLt_irrefl] at this; cases this
          · exact h
        rw [sorted_subset_eq l' r' hl'.2 hr'.2 this (by simpa using hlen)]
      · exfalso
        have hk : k ∈ r' := by
          rcases List.mem_cons.1 (hs k (by simp)) with h | h
          · exact absurd h e
          · exact h
        have hlt : bytesLt k' k = true := hr'.1 k hk
        have : ∀ x ∈ k :: l', x ∈ r' := by
          intro x hx
          have hx' : bytesLt k' x = true := by
            rcases List.mem_cons.1 hx with rfl | hx
            · exact hlt
            · exact bytesLt_trans _ _ _ hlt (hl'.1 x hx)
          rcases List.mem_cons.1 (hs x hx) with rfl | h
          · rw [bytesLt_irrefl] at hx'; cases hx'
          · exact h
        have := sorted_subset_length r' (k :: l') hl hr'.2 this
        simp at this hlen; omega

theorem keysOf_pairwise {l : List (Str × Value)} (h : l.Pairwise KLt) :
    (keysOf l).Pairwise (fun a b => bytesLt a b = true) := by
  unfold keysOf; rw [List.pairwise_map]; exact h


/-! ### numbers: the model agrees with the Spec's exact comparison -/

theorem cmpTK_exact_exact (x y : Int) : cmpTK (exact x) (exact y) = cmpInt x y := by
  have := numCmpNanLast_exact (.int x) (.int y) rfl rfl
  -- the int/int case of `numCmpNanLast_exact` does not use well-formedness
  rw [cmpTK_eq, tier_exact, tier_exact, skey_exact, skey_exact]
  simp only [cmpNat, Nat.lt_irrefl, if_false, if_true, Ordering.then]
  have hP := Pn_pos 1074
  unfold cmpInt
  by_cases h1 : x < y
  · have : x * Pn 1074 < y * Pn 1074 := Int.mul_lt_mul_of_pos_right h1 hP
    simp [h1, this]
  · by_cases h2 : x = y
    · subst h2; simp
    · have h3 : y < x := by omega
      have : y * Pn 1074 < x * Pn 1074 := Int.mul_lt_mul_of_pos_right h3 hP
      have n1 : ¬ x * Pn 1074 < y * Pn 1074 := by omega
      have n2 : ¬ x * Pn 1074 = y * Pn 1074 := by omega
      simp [h1, h2, n1, n2]

theorem isNaN_exact (i : Int) : (exact i).isNaN = false := rfl

theorem fNaN_iff (b : Nat) : fNaN b = (ofBits b).isNaN := rfl

/-- **the model's `partial_cmp` on numbers is the Spec's comparison of exact values** -/
theorem numCmp_eq_spec (a b : Value) (ha : isNum a = true) (hb : isNum b = true) (wa : a.wf = true) (wb : b.wf = true) :
    Eval.numCmp a b = Spec.numCmp a b := by
  cases a <;> simp [isNum] at ha <;> cases b <;> simp [isNum] at hb <;>
    simp only [wf, i64Ok, Bool.and_eq_true, decide_eq_true_eq] at wa wb <;>
    simp only [Eval.numCmp, Spec.numCmp, Spec.numVal]
  case int.int x y => simp [F64.cmp, isNaN_exact, cmpTK_exact_exact]
  case int.float x y =>
    by_cases h : fNaN y = true
    · have h' : (ofBits y).isNaN = true := h
      simp [h, F64.cmp, h']
    · have h' : (ofBits y).isNaN = false := by simpa [fNaN] using h
      simp [h, F64.cmp, h', isNaN_exact, cmpIntFloat_exact x wa.1 wa.2 _ h']
  case float.int x y =>
    by_cases h : fNaN x = true
    · have h' : (ofBits x).isNaN = true := h
      simp [h, F64.cmp, h']
    · have h' : (ofBits x).isNaN = false := by simpa [fNaN] using h
      simp [h, F64.cmp, h', isNaN_exact, cmpIntFloat_exact y wb.1 wb.2 _ h', ← cmpTK_laws.swap]

/-- **`=` on numbers is equality of the exact values** (false when a NaN is involved) -/
theorem cypherEquals_num (a b : Value) (ha : isNum a = true) (hb : isNum b = true) (wa : a.wf = true) (wb : b.wf = true) :
    cypherEquals a b = .bool (Spec.numCmp a b == some .eq) := by
  rw [← numCmp_eq_spec a b ha hb wa wb]
  cases a <;> simp [isNum] at ha <;> cases b <;> simp [isNum] at hb <;>
    simp only [cypherEquals, Eval.numCmp, floatEqualsInt]
  case int.int x y =>
    congr 1
    by_cases h : x = y
    · subst h; simp [cmpInt]
    · have : cmpInt x y ≠ .eq := by rw [Ne, cmpInt_eq]; exact h
      have e1 : (x == y) = false := by simpa using h
      rw [e1]; simp [this]
  case int.float x y =>
    cases hx : ofBits y with
    | nan => simp [fNaN, hx, isNaN]
    | inf s =>
      have : cmpIntFloat x (.inf s) ≠ .eq := by
        cases s <;> simp [cmpIntFloat, ofBits_two63, ofBits_negTwo63, F64.le, F64.lt, F64.cmp, isNaN, cmpTK, tier]
      simp [fNaN, hx, isNaN, isFinite, this]
    | fin s m e => simp [fNaN, hx, isNaN, isFinite]
  case float.int x y =>
    cases hx : ofBits x with
    | nan => simp [fNaN, hx, isNaN]
    | inf s =>
      have : (cmpIntFloat y (.inf s)).swap ≠ .eq := by
        cases s <;> simp [cmpIntFloat, ofBits_two63, ofBits_negTwo63, F64.le, F64.lt, F64.cmp, isNaN, cmpTK, tier, Ordering.swap]
      simp [fNaN, hx, isNaN, isFinite, this]
    | fin s m e =>
      simp only [fNaN, hx, isNaN, isFinite, Bool.not_true, Bool.or_self, Bool.false_eq_true, if_false]
      cases cmpIntFloat y (.fin s m e) <;> simp [Ordering.swap]
  case float.float x y =>
    by_cases h : (fNaN x || fNaN y) = true
    · have : ((ofBits x).isNaN || (ofBits y).isNaN) = true := h
      simp [h, F64.cmp, this]
    · simp only [h, Bool.false_eq_true, if_false, F64.eqv]


/-! ### maps: `cypher_equals_map` on key-sorted maps is the element-wise comparison of aligned entries -/

def valsOf (l : List (Str × Value)) : List Value := l.map Prod.snd

theorem map_missing : ∀ (l r : List (Str × Value)), (∃ kv ∈ l, kv.1 ∉ keysOf r) → cypherEqualsMap l r = .bool false
  | [], _, h => by obtain ⟨kv, hk, _⟩ := h; simp at hk
  | (k, x) :: l', r, h => by
    simp only [cypherEqualsMap]
    cases hl : lookup k r with
    | none => rfl
    | some y =>
      have : ∃ kv ∈ l', kv.1 ∉ keysOf r := by
        obtain ⟨kv, hk, hn⟩ := h
        rcases List.mem_cons.1 hk with e | hk
        · subst e
          have := (lookup_eq_none_iff k r).2 hn; rw [hl] at this; cases this
        · exact ⟨kv, hk, hn⟩
      rw [map_missing l' r this]
      exact eqStep_false_right _ (cypherEquals_tri x y)

theorem map_aligned : ∀ (l r pre : List (Str × Value)), keysOf l = keysOf r → (pre ++ r).Pairwise KLt →
    cypherEqualsMap l (pre ++ r) = cypherEqualsSeq (valsOf l) (valsOf r)
  | [], r, pre, hk, _ => by
    cases r with
    | nil => rfl
    | cons _ _ => simp [keysOf] at hk
  | (k, x) :: l', r, pre, hk, hs => by
    cases r with
    | nil => simp [keysOf] at hk
    | cons e r' =>
      obtain ⟨k', y⟩ := e
      simp only [keysOf, List.map_cons, List.cons.injEq] at hk
      obtain ⟨rfl, hk'⟩ := hk
      simp only [cypherEqualsMap, lookup_mid k y pre r' hs, valsOf, List.map_cons, cypherEqualsSeq]
      have hs' : ((pre ++ [(k, y)]) ++ r').Pairwise KLt := by simpa using hs
      have := map_aligned l' r' (pre ++ [(k, y)]) hk' hs'
      simp only [List.append_assoc, List.singleton_append] at this
      rw [this]; rfl

theorem map_char (l r : List (Str × Value)) (hl : l.Pairwise KLt) (hr : r.Pairwise KLt)
    (hlen : l.length = r.length) :
    cypherEqualsMap l r = if keysOf l = keysOf r then cypherEqualsSeq (valsOf l) (valsOf r) else .bool false := by
  by_cases hk : keysOf l = keysOf r
  · simp only [hk, if_true]
    simpa using map_aligned l r [] hk (by simpa using hr)
  · simp only [hk, if_false]
    apply map_missing
    apply Classical.byContradiction
    intro hne
    apply hk
    apply sorted_subset_eq _ _ (keysOf_pairwise hl) (keysOf_pairwise hr)
    · intro k hkl
      apply Classical.byContradiction
      intro hkr
      obtain ⟨kv, hkv, rfl⟩ := List.mem_map.1 hkl
      exact hne ⟨kv, hkv, hkr⟩
    · simpa [keysOf] using hlen

/-- `cypher_equals` on two well-formed maps -/
theorem cypherEquals_map (l r : List (Str × Value)) (hl : keysSorted l = true) (hr : keysSorted r = true) :
    cypherEquals (.map l) (.map r) =
      if l.length = r.length ∧ keysOf l = keysOf r then cypherEqualsSeq (valsOf l) (valsOf r) else .bool false := by
  simp only [cypherEquals]
  by_cases hlen : l.length = r.length
  · have : (l.length != r.length) = false := by simpa using hlen
    rw [this]
    simp only [Bool.false_eq_true, if_false, hlen, true_and]
    exact map_char l r ((keysSorted_iff l).1 hl) ((keysSorted_iff r).1 hr) hlen
  · have : (l.length != r.length) = true := by simpa using hlen
    simp [this, hlen]

/-! ### element-wise lemmas on `cypher_equals_sequence` -/

theorem seq_symm_of : ∀ (xs ys : List Value), (∀ x ∈ xs, ∀ y ∈ ys, cypherEquals x y = cypherEquals y x) →
    cypherEqualsSeq xs ys = cypherEqualsSeq ys xs
  | [], ys, _ => by cases ys <;> rfl
  | x :: xs, ys, h => by
    cases ys with
    | nil => rfl
    | cons y ys =>
      simp only [cypherEqualsSeq]
      rw [h x (by simp) y (by simp), seq_symm_of xs ys (fun a ha b hb => h a (by simp [ha]) b (by simp [hb]))]

theorem seq_refl_of : ∀ (xs : List Value), (∀ x ∈ xs, cypherEquals x x = .bool true) →
    cypherEqualsSeq xs xs = .bool true
  | [], _ => rfl
  | x :: xs, h => by
    simp only [cypherEqualsSeq]
    rw [h x (by simp), seq_refl_of xs (fun a ha => h a (by simp [ha]))]; rfl

theorem seq_trans_of : ∀ (xs ys zs : List Value), xs.length = ys.length → ys.length = zs.length →
    (∀ x ∈ xs, ∀ y ∈ ys, ∀ z ∈ zs, cypherEquals x y = .bool true → cypherEquals y z = .bool true →
      cypherEquals x z = .bool true) →
    cypherEqualsSeq xs ys = .bool true → cypherEqualsSeq ys zs = .bool true → cypherEqualsSeq xs zs = .bool true
  | [], ys, zs, _, _, _, _, _ => by cases zs <;> rfl
  | x :: xs, ys, zs, l1, l2, h, h1, h2 => by
    cases ys with
    | nil => simp at l1
    | cons y ys =>
      cases zs with
      | nil => simp at l2
      | cons z zs =>
        simp only [cypherEqualsSeq, eqStep_true] at h1 h2 ⊢
        exact ⟨h x (by simp) y (by simp) z (by simp) h1.1 h2.1,
          seq_trans_of xs ys zs (by simpa using l1) (by simpa using l2)
            (fun a ha b hb c hc => h a (by simp [ha]) b (by simp [hb]) c (by simp [hc])) h1.2 h2.2⟩


/-! ### the derived `==` is symmetric -/

theorem eqv_symm (x y : F64) : F64.eqv x y = F64.eqv y x := by
  unfold F64.eqv
  rw [f64cmp_plaws.swap x y]
  cases F64.cmp y x with
  | none => rfl
  | some o => cases o <;> rfl

theorem beq_symm' {α : Type} [BEq α] [LawfulBEq α] (x y : α) : (x == y) = (y == x) := by
  by_cases h : x = y
  · subst h; rfl
  · have h' : ¬ y = x := fun e => h e.symm
    rw [beq_eq_false_iff_ne.2 h, beq_eq_false_iff_ne.2 h']

mutual
theorem deq_symm : ∀ (a b : Value), deq a b = deq b a
  | .list xs, b => by cases b <;> first | exact deqList_symm xs _ | rfl
  | .map xs, b => by cases b <;> first | exact deqMap_symm xs _ | rfl
  | .null, b => by cases b <;> rfl
  | .bool x, b => by cases b <;> first | exact beq_symm' _ _ | rfl
  | .int x, b => by cases b <;> first | exact beq_symm' _ _ | rfl
  | .float x, b => by cases b <;> first | exact eqv_symm _ _ | rfl
  | .str x, b => by cases b <;> first | exact beq_symm' _ _ | rfl
  | .nodeId x, b => by cases b <;> first | exact beq_symm' _ _ | rfl
  | .externalId x, b => by cases b <;> first | exact beq_symm' _ _ | rfl
  | .edgeKey x, b => by cases b <;> first | exact beq_symm' _ _ | rfl
  | .dateTime x, b => by cases b <;> first | exact beq_symm' _ _ | rfl
  | .blob x, b => by cases b <;> first | exact beq_symm' _ _ | rfl
  | .path n e, b => by
    cases b <;> first | rfl | skip
    rename_i n' e'
    simp only [deq]; rw [beq_symm' n n', beq_symm' e e']
theorem deqList_symm : ∀ (a b : List Value), deqList a b = deqList b a
  | [], b => by cases b <;> rfl
  | x :: xs, b => by
    cases b with
    | nil => rfl
    | cons y ys => simp only [deqList]; rw [deq_symm x y, deqList_symm xs ys]
theorem deqMap_symm : ∀ (a b : List (Str × Value)), deqMap a b = deqMap b a
  | [], b => by cases b <;> rfl
  | (k, x) :: xs, b => by
    cases b with
    | nil => rfl
    | cons y ys =>
      obtain ⟨k', y⟩ := y
      simp only [deqMap]; rw [deq_symm x y, deqMap_symm xs ys, beq_symm' k k']
end

theorem wfList_mem {xs : List Value} (h : wfList xs = true) : ∀ x ∈ xs, x.wf = true := by
  induction xs with
  | nil => intro x hx; simp at hx
  | cons y ys ih =>
    simp only [wfList, Bool.and_eq_true] at h
    intro x hx
    rcases List.mem_cons.1 hx with rfl | hx
    · exact h.1
    · exact ih h.2 x hx

theorem wfMap_mem {l : List (Str × Value)} (h : wfMap l = true) : ∀ x ∈ valsOf l, x.wf = true := by
  induction l with
  | nil => intro x hx; simp [valsOf] at hx
  | cons e l ih =>
    obtain ⟨k, y⟩ := e
    simp only [wfMap, Bool.and_eq_true] at h
    intro x hx
    simp only [valsOf, List.map_cons, List.mem_cons] at hx
    rcases hx with rfl | hx
    · exact h.1
    · exact ih h.2 x hx

theorem numCmp_spec_swap (a b : Value) : (Spec.numCmp a b == some .eq) = (Spec.numCmp b a == some .eq) := by
  unfold Spec.numCmp
  cases Spec.numVal a <;> cases Spec.numVal b <;> try rfl
  rename_i x y
  show (F64.cmp x y == some .eq) = (F64.cmp y x == some .eq)
  rw [f64cmp_plaws.swap x y]
  cases F64.cmp y x with
  | none => rfl
  | some o => cases o <;> rfl

/-! ### `=` is symmetric on all well-formed values -/

mutual
theorem ce_symm : ∀ (a b : Value), a.wf = true → b.wf = true → cypherEquals a b = cypherEquals b a
  | .list xs, b, wa, wb => by
    cases b <;> first | rfl | skip
    rename_i ys
    simp only [cypherEquals]
    by_cases hl : xs.length = ys.length
    · have e1 : (xs.length != ys.length) = false := by simpa using hl
      have e2 : (ys.length != xs.length) = false := by simpa using hl.symm
      rw [e1, e2]
      simp only [Bool.false_eq_true, if_false]
      exact seq_symm_of xs ys (fun x hx y hy => listAll_symm xs wa x hx y (wfList_mem wb y hy))
    · have e1 : (xs.length != ys.length) = true := by simpa using hl
      have e2 : (ys.length != xs.length) = true := by simpa using (fun e => hl e.symm : ¬ ys.length = xs.length)
      rw [e1, e2]; rfl
  | .map l, b, wa, wb => by
    cases b <;> first | rfl | skip
    rename_i r
    simp only [wf, Bool.and_eq_true] at wa wb
    rw [cypherEquals_map l r wa.1 wb.1, cypherEquals_map r l wb.1 wa.1]
    by_cases h : l.length = r.length ∧ keysOf l = keysOf r
    · have h' : r.length = l.length ∧ keysOf r = keysOf l := ⟨h.1.symm, h.2.symm⟩
      rw [if_pos h, if_pos h']
      exact seq_symm_of _ _ (fun x hx y hy => mapAll_symm l wa.2 x hx y (wfMap_mem wb.2 y hy))
    · have h' : ¬ (r.length = l.length ∧ keysOf r = keysOf l) := fun e => h ⟨e.1.symm, e.2.symm⟩
      rw [if_neg h, if_neg h']
  | .null, b, _, _ => by cases b <;> rfl
  | .bool x, b, _, _ => by cases b <;> first | rfl | (simp only [cypherEquals]; rw [deq_symm])
  | .int x, b, wa, wb => by
    cases b <;> first | rfl | (rw [cypherEquals_num _ _ rfl rfl wa wb, cypherEquals_num _ _ rfl rfl wb wa, numCmp_spec_swap])
  | .float x, b, wa, wb => by
    cases b <;> first | rfl | (rw [cypherEquals_num _ _ rfl rfl wa wb, cypherEquals_num _ _ rfl rfl wb wa, numCmp_spec_swap])
  | .str x, b, _, _ => by cases b <;> first | rfl | (simp only [cypherEquals]; rw [deq_symm])
  | .nodeId x, b, _, _ => by cases b <;> first | rfl | (simp only [cypherEquals]; rw [deq_symm])
  | .externalId x, b, _, _ => by cases b <;> first | rfl | (simp only [cypherEquals]; rw [deq_symm])
  | .edgeKey x, b, _, _ => by cases b <;> first | rfl | (simp only [cypherEquals]; rw [deq_symm])
  | .dateTime x, b, _, _ => by cases b <;> first | rfl | (simp only [cypherEquals]; rw [deq_symm])
  | .blob x, b, _, _ => by cases b <;> first | rfl | (simp only [cypherEquals]; rw [deq_symm])
  | .path n e, b, _, _ => by cases b <;> first | rfl | (simp only [cypherEquals]; rw [deq_symm])
theorem listAll_symm : ∀ (xs : List Value), wfList xs = true → ∀ x ∈ xs, ∀ y, y.wf = true →
    cypherEquals x y = cypherEquals y x
  | [], _, x, hx, _, _ => by simp at hx
  | z :: zs, h, x, hx, y, wy => by
    simp only [wfList, Bool.and_eq_true] at h
    rcases List.mem_cons.1 hx with e | hx
    · rw [e]; exact ce_symm z y h.1 wy
    · exact listAll_symm zs h.2 x hx y wy
theorem mapAll_symm : ∀ (l : List (Str × Value)), wfMap l = true → ∀ x ∈ valsOf l, ∀ y, y.wf = true →
    cypherEquals x y = cypherEquals y x
  | [], _, x, hx, _, _ => by simp [valsOf] at hx
  | (k, z) :: zs, h, x, hx, y, wy => by
    simp only [wfMap, Bool.and_eq_true] at h
    simp only [valsOf, List.map_cons, List.mem_cons] at hx
    rcases hx with e | hx
    · rw [e]; exact ce_symm z y h.1 wy
    · exact mapAll_symm zs h.2 x hx y wy
end


/-! ### `=` is transitive on all well-formed values -/

theorem numCmp_spec_trans (a b c : Value) (h1 : (Spec.numCmp a b == some .eq) = true)
    (h2 : (Spec.numCmp b c == some .eq) = true) : (Spec.numCmp a c == some .eq) = true := by
  unfold Spec.numCmp at *
  cases ha : Spec.numVal a <;> cases hb : Spec.numVal b <;> cases hc : Spec.numVal c <;> simp_all
  exact f64cmp_plaws.trans _ _ _ .eq .eq h1 h2 (by simp) (by simp)

theorem ce_list_true {xs ys : List Value} (h : cypherEquals (.list xs) (.list ys) = .bool true) :
    xs.length = ys.length ∧ cypherEqualsSeq xs ys = .bool true := by
  simp only [cypherEquals] at h
  by_cases hl : xs.length = ys.length
  · have e1 : (xs.length != ys.length) = false := by simpa using hl
    rw [e1] at h
    exact ⟨hl, by simpa using h⟩
  · have e1 : (xs.length != ys.length) = true := by simpa using hl
    rw [e1] at h; simp at h

theorem ce_list_of {xs ys : List Value} (hl : xs.length = ys.length) (h : cypherEqualsSeq xs ys = .bool true) :
    cypherEquals (.list xs) (.list ys) = .bool true := by
  simp only [cypherEquals]
  have e1 : (xs.length != ys.length) = false := by simpa using hl
  rw [e1]; simpa using h

mutual
theorem ce_trans : ∀ (a b c : Value), a.wf = true → b.wf = true → c.wf = true →
    cypherEquals a b = .bool true → cypherEquals b c = .bool true → cypherEquals a c = .bool true
  | .list xs, b, c, wa, wb, wc, h1, h2 => by
    cases b <;> try (simp [cypherEquals, deq] at h1; done)
    cases c <;> try (simp [cypherEquals, deq] at h2; done)
    rename_i ys zs
    obtain ⟨l1, s1⟩ := ce_list_true h1
    obtain ⟨l2, s2⟩ := ce_list_true h2
    refine ce_list_of (l1.trans l2) (seq_trans_of xs ys zs l1 l2 ?_ s1 s2)
    intro x hx y hy z hz
    exact listAll_trans xs wa x hx y z (wfList_mem wb y hy) (wfList_mem wc z hz)
  | .map l, b, c, wa, wb, wc, h1, h2 => by
    cases b <;> try (simp [cypherEquals, deq] at h1; done)
    cases c <;> try (simp [cypherEquals, deq] at h2; done)
    rename_i m r
    simp only [wf, Bool.and_eq_true] at wa wb wc
    rw [cypherEquals_map l m wa.1 wb.1] at h1
    rw [cypherEquals_map m r wb.1 wc.1] at h2
    rw [cypherEquals_map l r wa.1 wc.1]
    by_cases c1 : l.length = m.length ∧ keysOf l = keysOf m
    · by_cases c2 : m.length = r.length ∧ keysOf m = keysOf r
      · rw [if_pos c1] at h1; rw [if_pos c2] at h2
        rw [if_pos ⟨c1.1.trans c2.1, c1.2.trans c2.2⟩]
        refine seq_trans_of _ _ _ (by simpa [valsOf] using c1.1) (by simpa [valsOf] using c2.1) ?_ h1 h2
        intro x hx y hy z hz
        exact mapAll_trans l wa.2 x hx y z (wfMap_mem wb.2 y hy) (wfMap_mem wc.2 z hz)
      · rw [if_neg c2] at h2; simp at h2
    · rw [if_neg c1] at h1; simp at h1
  | .null, b, c, _, _, _, h1, _ => by cases b <;> simp [cypherEquals] at h1
  | .int x, b, c, wa, wb, wc, h1, h2 => by
    cases b <;> try (simp [cypherEquals, deq] at h1; done)
    all_goals (cases c <;> try (simp [cypherEquals, deq] at h2; done))
    all_goals
      rw [cypherEquals_num _ _ rfl rfl wa wb] at h1
      rw [cypherEquals_num _ _ rfl rfl wb wc] at h2
      rw [cypherEquals_num _ _ rfl rfl wa wc]
      simp only [Value.bool.injEq] at h1 h2 ⊢
      exact numCmp_spec_trans _ _ _ h1 h2
  | .float x, b, c, wa, wb, wc, h1, h2 => by
    cases b <;> try (simp [cypherEquals, deq] at h1; done)
    all_goals (cases c <;> try (simp [cypherEquals, deq] at h2; done))
    all_goals
      rw [cypherEquals_num _ _ rfl rfl wa wb] at h1
      rw [cypherEquals_num _ _ rfl rfl wb wc] at h2
      rw [cypherEquals_num _ _ rfl rfl wa wc]
      simp only [Value.bool.injEq] at h1 h2 ⊢
      exact numCmp_spec_trans _ _ _ h1 h2
  | .bool x, b, c, _, _, _, h1, h2 => by
    cases b <;> simp [cypherEquals, deq] at h1; subst h1; exact h2
  | .str x, b, c, _, _, _, h1, h2 => by
    cases b <;> simp [cypherEquals, deq] at h1; subst h1; exact h2
  | .nodeId x, b, c, _, _, _, h1, h2 => by
    cases b <;> simp [cypherEquals, deq] at h1; subst h1; exact h2
  | .externalId x, b, c, _, _, _, h1, h2 => by
    cases b <;> simp [cypherEquals, deq] at h1; subst h1; exact h2
  | .edgeKey x, b, c, _, _, _, h1, h2 => by
    cases b <;> simp [cypherEquals, deq] at h1; subst h1; exact h2
  | .dateTime x, b, c, _, _, _, h1, h2 => by
    cases b <;> simp [cypherEquals, deq] at h1; subst h1; exact h2
  | .blob x, b, c, _, _, _, h1, h2 => by
    cases b <;> simp [cypherEquals, deq] at h1; subst h1; exact h2
  | .path n e, b, c, _, _, _, h1, h2 => by
    cases b <;> simp [cypherEquals, deq] at h1
    obtain ⟨rfl, rfl⟩ := h1; exact h2
theorem listAll_trans : ∀ (xs : List Value), wfList xs = true → ∀ x ∈ xs, ∀ y z, y.wf = true → z.wf = true →
    cypherEquals x y = .bool true → cypherEquals y z = .bool true → cypherEquals x z = .bool true
  | [], _, x, hx, _, _, _, _ => by simp at hx
  | v :: vs, h, x, hx, y, z, wy, wz => by
    simp only [wfList, Bool.and_eq_true] at h
    rcases List.mem_cons.1 hx with e | hx
    · rw [e]; exact ce_trans v y z h.1 wy wz
    · exact listAll_trans vs h.2 x hx y z wy wz
theorem mapAll_trans : ∀ (l : List (Str × Value)), wfMap l = true → ∀ x ∈ valsOf l, ∀ y z, y.wf = true →
    z.wf = true → cypherEquals x y = .bool true → cypherEquals y z = .bool true → cypherEquals x z = .bool true
  | [], _, x, hx, _, _, _, _ => by simp [valsOf] at hx
  | (k, v) :: vs, h, x, hx, y, z, wy, wz => by
    simp only [wfMap, Bool.and_eq_true] at h
    simp only [valsOf, List.map_cons, List.mem_cons] at hx
    rcases hx with e | hx
    · rw [e]; exact ce_trans v y z h.1 wy wz
    · exact mapAll_trans vs h.2 x hx y z wy wz
end


/-! ### `=` is reflexive on well-formed values without null and NaN -/

theorem eqv_refl (x : F64) (h : x.isNaN = false) : F64.eqv x x = true := by
  simp [F64.eqv, F64.cmp, h, cmpTK_laws.refl]

mutual
theorem ce_refl : ∀ (a : Value), a.wf = true → Spec.clean a = true → cypherEquals a a = .bool true
  | .list xs, wa, ca => by
    refine ce_list_of rfl (seq_refl_of xs ?_)
    exact listAll_refl xs wa ca
  | .map l, wa, ca => by
    simp only [wf, Bool.and_eq_true] at wa
    rw [cypherEquals_map l l wa.1 wa.1, if_pos ⟨rfl, rfl⟩]
    exact seq_refl_of _ (mapAll_refl l wa.2 ca)
  | .null, _, ca => by simp [Spec.clean] at ca
  | .bool x, _, _ => by simp [cypherEquals, deq]
  | .int x, _, _ => by simp [cypherEquals]
  | .float x, _, ca => by
    have h : (ofBits x).isNaN = false := by simpa [Spec.clean] using ca
    have h' : fNaN x = false := h
    simp [cypherEquals, h', eqv_refl _ h]
  | .str x, _, _ => by simp [cypherEquals, deq]
  | .nodeId x, _, _ => by simp [cypherEquals, deq]
  | .externalId x, _, _ => by simp [cypherEquals, deq]
  | .edgeKey x, _, _ => by simp [cypherEquals, deq]
  | .dateTime x, _, _ => by simp [cypherEquals, deq]
  | .blob x, _, _ => by simp [cypherEquals, deq]
  | .path n e, _, _ => by simp [cypherEquals, deq]
theorem listAll_refl : ∀ (xs : List Value), wfList xs = true → Spec.clean.cleanList xs = true →
    ∀ x ∈ xs, cypherEquals x x = .bool true
  | [], _, _, x, hx => by simp at hx
  | v :: vs, h, c, x, hx => by
    simp only [wfList, Spec.clean.cleanList, Bool.and_eq_true] at h c
    rcases List.mem_cons.1 hx with e | hx
    · rw [e]; exact ce_refl v h.1 c.1
    · exact listAll_refl vs h.2 c.2 x hx
theorem mapAll_refl : ∀ (l : List (Str × Value)), wfMap l = true → Spec.clean.cleanMap l = true →
    ∀ x ∈ valsOf l, cypherEquals x x = .bool true
  | [], _, _, x, hx => by simp [valsOf] at hx
  | (k, v) :: vs, h, c, x, hx => by
    simp only [wfMap, Spec.clean.cleanMap, Bool.and_eq_true] at h c
    simp only [valsOf, List.map_cons, List.mem_cons] at hx
    rcases hx with e | hx
    · rw [e]; exact ce_refl v h.1 c.1
    · exact mapAll_refl vs h.2 c.2 x hx
end

end Nervus
