/-
  C33, bounded extra work in pulls, as ONE theorem over the plan tree: if the consumer of a node
  never calls again after an `Err` (`Calls`), then so does every operator below towards its inputs
  (no hand-over is `late`), and the pulls that return an `Err` number at most `Plan.depth`.
  core-only.
-/
import Nervus.Proofs.PlanOps
namespace Nervus.PlanOps

section generic
variable {σ ε ρ : Type}

theorem Calls.zero (s : Stream ε ρ) : Calls s 0 := by simp [Calls]

theorem Calls.one (s : Stream ε ρ) : Calls s 1 := by simp [Calls]

theorem Calls.of_allOk (s : Stream ε ρ) (d : Nat) (h : allOk (s.take d) = true) : Calls s d := by
  unfold Calls
  rw [allOk_iff] at h ⊢
  intro x hx
  exact h x (List.take_subset_take_left s (Nat.sub_le d 1) hx)

/-- the driver's `collect` stops at the first `Err` -/
theorem Calls.driver (s : Stream ε ρ) : Calls s (driverDemand s) := by
  unfold Calls driverDemand
  split
  · rename_i h; exact allOk_take _ _ h
  · induction s with
    | nil => rfl
    | cons x xs ih =>
      cases x with
      | error e => simp [collectDemand]
      | ok r =>
        rename_i hno
        have hxs : ¬ allOk xs = true := by simpa [allOk] using hno
        have := ih hxs
        simp only [collectDemand, Nat.add_sub_cancel]
        cases hc : collectDemand xs with
        | zero => simp
        | succ n =>
          rw [hc] at this
          simpa [List.take_succ_cons, allOk] using this

theorem Calls.append_left (a b : Stream ε ρ) (d : Nat) (h : Calls (a ++ b) d) : Calls a d := by
  unfold Calls at h ⊢
  rw [List.take_append] at h
  simp only [allOk_append, Bool.and_eq_true] at h
  exact h.1

theorem Calls.append_right (a b : Stream ε ρ) (d : Nat) (h : Calls (a ++ b) d) : Calls b (d - a.length) := by
  unfold Calls at h ⊢
  rw [List.take_append] at h
  simp only [allOk_append, Bool.and_eq_true] at h
  have : d - a.length - 1 = d - 1 - a.length := by omega
  rw [this]; exact h.2

/-- a consumer that stops at the first `Err` and still asks for more than `a` holds: `a` was error-free -/
theorem Calls.allOk_of_lt (a b : Stream ε ρ) (d : Nat) (h : Calls (a ++ b) d) (hd : a.length < d) :
    allOk a = true := by
  unfold Calls at h
  rw [List.take_append] at h
  simp only [allOk_append, Bool.and_eq_true] at h
  have : a.take (d - 1) = a := List.take_of_length_le (by omega)
  rw [this] at h; exact h.1

/-- an operator that answers an `Err` item with an `Err` first, asked by a consumer that stops at
    the first `Err`, stops at the first `Err` of its input -/
theorem Trans.calls (t : Trans σ ε ρ) (hf : ErrFwd t) (st : σ) (s : Stream ε ρ) (d : Nat)
    (h : Calls (t.run st s) d) : Calls s (t.need st s d) := by
  induction s generalizing st d with
  | nil => simp [Calls]
  | cons x xs ih =>
    simp only [Trans.need]
    split
    · exact Calls.zero _
    · rename_i hnd
      have hdone : t.done st = false := by
        cases hdn : t.done st with
        | false => rfl
        | true => exact absurd (Or.inr hdn) hnd
      split
      · exact Calls.one _
      · rename_i hlen
        rw [Trans.run_cons, hdone] at h
        simp only [Bool.false_eq_true, if_false] at h
        have hout := Calls.allOk_of_lt _ _ _ h (by omega)
        have hrest := ih _ _ (Calls.append_right _ _ _ h)
        have hx : Item.isOk x = true := by
          cases x with
          | ok r => rfl
          | error e =>
            obtain ⟨e', rest, he⟩ := hf st e hdone
            rw [he] at hout
            simp [allOk, Item.isOk] at hout
        unfold Calls at hrest ⊢
        simp only [Nat.add_sub_cancel_left]
        generalize t.need (t.step st x).1 xs (d - (t.step st x).2.length) = n at hrest
        cases n with
        | zero => rfl
        | succ n' =>
          simp only [Nat.add_sub_cancel] at hrest
          simp [List.take_succ_cons, allOk, hx]
          simpa [allOk] using hrest

end generic

section
variable {χ ρ ν ε κ α : Type} [DecidableEq κ]

theorem guard_calls (L : LimEnv ε) (site : Site) (s : Stream ε ρ) (d : Nat)
    (h : Calls (guard L site s) d) : Calls s (guardNeed L site s d) := by
  unfold guard at h
  unfold guardNeed
  cases ht : L.time site 0 with
  | some e => exact Calls.zero _
  | none =>
    rw [ht] at h
    exact (guardT L site).calls (guardT_errFwd L site) _ s d h

/-! ### hand-overs of a consumer that stops at the first `Err` -/

theorem handedFrom_not_late (g : Bool) (s : Stream ε ρ) : ∀ (n : Nat), allOk (s.take (n - 1)) = true →
    ∀ h ∈ handedFrom g false (s.take n), h.late = false := by
  induction s with
  | nil => intro n _ h hh; simp [handedFrom] at hh
  | cons x xs ih =>
    intro n hn h hh
    cases n with
    | zero => simp [handedFrom] at hh
    | succ n' =>
      simp only [List.take_succ_cons, handedFrom, List.mem_cons] at hh
      rcases hh with rfl | hh
      · rfl
      · cases n' with
        | zero => simp [handedFrom] at hh
        | succ n'' =>
          simp only [Nat.add_sub_cancel, List.take_succ_cons] at hn
          have hx : Item.isOk x = true := by
            simp only [allOk, List.all_cons, Bool.and_eq_true] at hn; exact hn.1
          have hxs : allOk (xs.take n'') = true := by
            simp only [allOk, List.all_cons, Bool.and_eq_true] at hn; exact hn.2
          rw [hx] at hh
          exact ih (n'' + 1) (by simpa using hxs) h (by simpa using hh)

theorem handed_not_late (g : Bool) (s : Stream ε ρ) (n : Nat) (hc : Calls s n) :
    ∀ h ∈ handed g (s.take n), h.late = false :=
  handedFrom_not_late g s n hc

theorem errPulls_append (a b : List (Handed ε ρ)) : errPulls (a ++ b) = errPulls a + errPulls b := by
  simp [errPulls, List.countP_append]

theorem errPulls_of_ok (tr : List (Handed ε ρ)) (h : ∀ x ∈ tr, Item.isOk x.item = true) : errPulls tr = 0 := by
  unfold errPulls
  rw [List.countP_eq_zero]
  intro x hx
  simp [h x hx]

theorem errPulls_of_toGuard (tr : List (Handed ε ρ)) (h : ∀ x ∈ tr, x.toGuard = true) : errPulls tr = 0 := by
  unfold errPulls
  rw [List.countP_eq_zero]
  intro x hx
  simp [h x hx]

theorem handedFrom_toGuard (g : Bool) (s : Stream ε ρ) : ∀ seen, ∀ h ∈ handedFrom g seen s, h.toGuard = g := by
  induction s with
  | nil => intro seen h hh; simp [handedFrom] at hh
  | cons x xs ih =>
    intro seen h hh
    simp only [handedFrom, List.mem_cons] at hh
    rcases hh with rfl | hh
    · rfl
    · exact ih _ h hh

theorem errPulls_handed_true (s : Stream ε ρ) : errPulls (handed true s) = 0 :=
  errPulls_of_toGuard _ (handedFrom_toGuard true s false)

theorem errPulls_handedFrom_le (s : Stream ε ρ) : ∀ (n : Nat) (seen : Bool), allOk (s.take (n - 1)) = true →
    errPulls (handedFrom false seen (s.take n)) ≤ 1 := by
  induction s with
  | nil => intro n seen _; simp [handedFrom, errPulls]
  | cons x xs ih =>
    intro n seen hn
    cases n with
    | zero => simp [handedFrom, errPulls]
    | succ n' =>
      cases n' with
      | zero =>
        simp only [List.take_succ_cons, List.take_zero, handedFrom, errPulls]
        exact List.countP_le_length
      | succ n'' =>
        simp only [Nat.add_sub_cancel, List.take_succ_cons] at hn
        have hx : Item.isOk x = true := by
          simp only [allOk, List.all_cons, Bool.and_eq_true] at hn; exact hn.1
        have hxs : allOk (xs.take n'') = true := by
          simp only [allOk, List.all_cons, Bool.and_eq_true] at hn; exact hn.2
        have := ih (n'' + 1) (seen || !Item.isOk x) (by simpa using hxs)
        simp only [List.take_succ_cons, handedFrom, errPulls, List.countP_cons, hx] at this ⊢
        simpa using this

theorem errPulls_handed_false_le (s : Stream ε ρ) (n : Nat) (hc : Calls s n) :
    errPulls (handed false (s.take n)) ≤ 1 :=
  errPulls_handedFrom_le s n false hc

/-- what the theorem says of a piece of the trace: nothing `late`, at most `n` pulls returned `Err` -/
def Good (n : Nat) (tr : List (Handed ε ρ)) : Prop :=
  (∀ h ∈ tr, h.late = false) ∧ errPulls tr ≤ n

theorem Good.nil (n : Nat) : Good n ([] : List (Handed ε ρ)) := ⟨by simp, by simp [errPulls]⟩

theorem Good.append {a b : Nat} {x y : List (Handed ε ρ)} (hx : Good a x) (hy : Good b y) : Good (a + b) (x ++ y) := by
  refine ⟨?_, ?_⟩
  · intro h hh
    rcases List.mem_append.1 hh with hh | hh
    · exact hx.1 h hh
    · exact hy.1 h hh
  · rw [errPulls_append]; have := hx.2; have := hy.2; omega

theorem Good.mono {a b : Nat} {x : List (Handed ε ρ)} (hx : Good a x) (hab : a ≤ b) : Good b x :=
  ⟨hx.1, Nat.le_trans hx.2 hab⟩

theorem Good.zero_of_ok {a : Nat} {x : List (Handed ε ρ)} (hx : Good a x)
    (hok : ∀ h ∈ x, Item.isOk h.item = true) : Good 0 x :=
  ⟨hx.1, by rw [errPulls_of_ok x hok]; exact Nat.le_refl 0⟩

theorem good_handed_true (s : Stream ε ρ) (n : Nat) (hc : Calls s n) : Good 0 (handed true (s.take n)) :=
  ⟨handed_not_late true s n hc, by rw [errPulls_handed_true]; exact Nat.le_refl 0⟩

theorem good_handed_false (s : Stream ε ρ) (n : Nat) (hc : Calls s n) : Good 1 (handed false (s.take n)) :=
  ⟨handed_not_late false s n hc, errPulls_handed_false_le s n hc⟩

theorem good_parks (es : List ε) : Good 0 (es.map (fun e => (⟨true, .error e, false⟩ : Handed ε ρ))) := by
  refine ⟨?_, ?_⟩
  · intro h hh
    obtain ⟨e, _, rfl⟩ := List.mem_map.1 hh
    rfl
  · rw [errPulls_of_toGuard]
    · exact Nat.le_refl 0
    · intro h hh
      obtain ⟨e, _, rfl⟩ := List.mem_map.1 hh
      rfl

/-! ### nodes -/

theorem leafTrace_good (L : LimEnv ε) (site : Site) (body : Stream ε ρ) (d : Nat)
    (h : Calls (guard L site body) d) : Good 0 (leafTrace L site body d) :=
  good_handed_true _ _ (guard_calls L site body d h)

theorem unaryTrace_good {σ : Type} (L : LimEnv ε) (site : Site) (t : Trans σ ε ρ) (hf : ErrFwd t)
    (st : σ) (c : Stream ε ρ) (childTrace : Nat → List (Handed ε ρ)) (d n : Nat)
    (ih : ∀ d', Calls c d' → Good n (childTrace d'))
    (ihok : ∀ d', allOk (c.take d') = true → ∀ x ∈ childTrace d', Item.isOk x.item = true)
    (h : Calls (guard L site (t.run st c)) d) :
    Good (n + 1) (unaryTrace L site t st c childTrace 0 d) ∧
    (allOk (c.take (t.need st c (guardNeed L site (t.run st c) d))) = true →
      Good 0 (unaryTrace L site t st c childTrace 0 d)) := by
  have h1 := guard_calls L site _ d h
  have h2 := t.calls hf st c _ h1
  simp only [unaryTrace, Nat.max_zero]
  have G1 := good_handed_true _ _ h1
  have G2 := good_handed_false _ _ h2
  have G3 := ih _ h2
  refine ⟨((G1.append G2).append G3).mono (by omega), fun hok => ?_⟩
  have G2' := G2.zero_of_ok ((handed_ok_iff false _).2 hok)
  have G3' := G3.zero_of_ok (ihok _ hok)
  exact (G1.append G2').append G3'

theorem parkTrace_good {σ : Type} (L : LimEnv ε) (site : Site) (t : Trans σ ε ρ) (hf : ErrFwd t)
    (parks : σ → Except ε ρ → Option ε) (fp : σ → Option ε)
    (st : σ) (c : Stream ε ρ) (childTrace : Nat → List (Handed ε ρ)) (d n : Nat)
    (ih : ∀ d', Calls c d' → Good n (childTrace d'))
    (h : Calls (guard L site ((parkT t parks fp false).run (st, none) c)) d) :
    Good (n + 1) (parkTrace L site t parks fp false st c childTrace 0 d) := by
  have h1 := guard_calls L site _ d h
  have h2 := (parkT t parks fp false).calls (parkT_errFwd t hf parks fp false) (st, none) c _ h1
  simp only [parkTrace, unaryTrace, Nat.max_zero]
  have G1 := good_handed_true _ _ h1
  have G2 := good_handed_false _ _ h2
  have G3 := ih _ h2
  exact ((((G1.append G2).append G3).append (good_parks _)).mono (by omega))

theorem batches_zero (g : Nat → ρ → Stream ε ρ) (k : Nat) (c : Stream ε ρ) : batches g k c 0 = [] := by
  cases c <;> simp [batches]

theorem flatMapT_run_ok (g : Nat → ρ → Stream ε ρ) (k : Nat) (r : ρ) (xs : Stream ε ρ) :
    (flatMapT g).run k (.ok r :: xs) = g k r ++ (flatMapT g).run (k + 1) xs := rfl

theorem flatMapT_run_err (g : Nat → ρ → Stream ε ρ) (k : Nat) (e : ε) (xs : Stream ε ρ) :
    (flatMapT g).run k (.error e :: xs) = .error e :: (flatMapT g).run (k + 1) xs := rfl

theorem flatMapT_need_ok (g : Nat → ρ → Stream ε ρ) (k : Nat) (r : ρ) (xs : Stream ε ρ) (d : Nat) (hd : d ≠ 0) :
    (flatMapT g).need k (.ok r :: xs) d =
      if d ≤ (g k r).length then 1 else 1 + (flatMapT g).need (k + 1) xs (d - (g k r).length) := by
  simp only [Trans.need]
  rw [if_neg]
  · rfl
  · intro h
    rcases h with h | h
    · exact hd h
    · simp [flatMapT] at h

/-- the nested executions of a per-row expansion: only the last one touched can have met an error,
    and none has if the operator's own input failed -/
theorem batches_good (g : Nat → ρ → Stream ε ρ) (F : Nat × ρ × Nat → List (Handed ε ρ)) (n : Nat)
    (hF : ∀ b, Calls (g b.1 b.2.1) b.2.2 → Good n (F b))
    (hZ : ∀ b, b.2.2 ≠ 0 → allOk ((g b.1 b.2.1).take b.2.2) = true → ∀ h ∈ F b, Item.isOk h.item = true) :
    ∀ (c : Stream ε ρ) (k d : Nat), Calls ((flatMapT g).run k c) d →
      Good n (((batches g k c d).map F).flatten) ∧
      (allOk (c.take ((flatMapT g).need k c d)) = false →
        ∀ h ∈ ((batches g k c d).map F).flatten, Item.isOk h.item = true) := by
  intro c
  induction c with
  | nil => intro k d _; simp [batches, Good.nil]
  | cons x xs ih =>
    intro k d h
    by_cases hd0 : d = 0
    · subst hd0; simp [batches_zero, Good.nil]
    · cases x with
      | error e =>
        rw [flatMapT_run_err] at h
        -- the consumer stops at this `Err`: nothing further is demanded
        have hd1 : d - 1 = 0 := by
          cases hd : d - 1 with
          | zero => rfl
          | succ m =>
            unfold Calls at h
            rw [hd] at h
            simp [List.take_succ_cons, allOk, Item.isOk] at h
        simp only [batches, hd0, if_false, hd1, batches_zero]
        simp [Good.nil]
      | ok r =>
        rw [flatMapT_run_ok] at h
        simp only [batches, hd0, if_false, List.map_cons, List.flatten_cons]
        by_cases hlen : d ≤ (g k r).length
        · have h0 : d - (g k r).length = 0 := by omega
          rw [h0, batches_zero]
          simp only [List.map_nil, List.flatten_nil, List.append_nil]
          refine ⟨hF (k, r, d) (Calls.append_left _ _ _ h), fun hno => ?_⟩
          rw [flatMapT_need_ok g k r xs d hd0, if_pos hlen] at hno
          simp [allOk, Item.isOk] at hno
        · have hout := Calls.allOk_of_lt _ _ _ h (by omega)
          have Gb := (hF (k, r, d) (Calls.append_left _ _ _ h)).zero_of_ok
            (hZ (k, r, d) hd0 (allOk_take _ _ hout))
          obtain ⟨Gr, Zr⟩ := ih (k + 1) (d - (g k r).length) (Calls.append_right _ _ _ h)
          refine ⟨(Gb.append Gr).mono (by omega), fun hno => ?_⟩
          intro x hx
          rcases List.mem_append.1 hx with hx | hx
          · exact hZ (k, r, d) hd0 (allOk_take _ _ hout) x hx
          · refine Zr ?_ x hx
            rw [flatMapT_need_ok g k r xs d hd0, if_neg hlen, Nat.add_comm, List.take_succ_cons] at hno
            simpa [allOk, Item.isOk] using hno

/-- a node that expands every input row by a nested execution (EXISTS filter, CartesianProduct, Apply) -/
theorem flatNode_good (L : LimEnv ε) (site : Site) (g : Nat → ρ → Stream ε ρ) (c : Stream ε ρ)
    (childTrace : Nat → List (Handed ε ρ)) (F : Nat × ρ × Nat → List (Handed ε ρ)) (d n m : Nat)
    (ih : ∀ d', Calls c d' → Good n (childTrace d'))
    (ihok : ∀ d', allOk (c.take d') = true → ∀ x ∈ childTrace d', Item.isOk x.item = true)
    (hF : ∀ b, Calls (g b.1 b.2.1) b.2.2 → Good m (F b))
    (hZ : ∀ b, b.2.2 ≠ 0 → allOk ((g b.1 b.2.1).take b.2.2) = true → ∀ h ∈ F b, Item.isOk h.item = true)
    (h : Calls (guard L site ((flatMapT g).run 0 c)) d) :
    Good (max n m + 1) (unaryTrace L site (flatMapT g) 0 c childTrace 0 d ++
      ((batches g 0 c (guardNeed L site ((flatMapT g).run 0 c) d)).map F).flatten) := by
  have h1 := guard_calls L site _ d h
  obtain ⟨U1, U0⟩ := unaryTrace_good L site (flatMapT g) (flatMapT_errFwd g) 0 c childTrace d n ih ihok h
  obtain ⟨B1, B0⟩ := batches_good g F m hF hZ c 0 _ h1
  cases hok : allOk (c.take ((flatMapT g).need 0 c (guardNeed L site ((flatMapT g).run 0 c) d))) with
  | true => exact ((U0 hok).append B1).mono (by omega)
  | false => exact (U1.append (B1.zero_of_ok (B0 hok))).mono (by omega)

/-! ### the tree -/

theorem Calls.of_map {β : Type} (f : Except ε ρ → Except ε β) (hf : ∀ x, Item.isOk (f x) = Item.isOk x)
    (s : Stream ε ρ) (d : Nat) (h : Calls (s.map f) d) : Calls s d := by
  unfold Calls at h ⊢
  rw [← List.map_take, allOk_map_iff _ hf] at h
  exact h

omit [DecidableEq κ] in
theorem existsRow_head_ok (Q : Quirks) (hq : Q.existsSwallowsErr = false) (r : ρ) (ss : Stream ε ρ) (n : Nat)
    (hn : n ≠ 0) (h : allOk ((existsRow Q r ss).take n) = true) : allOk (ss.take 1) = true := by
  obtain ⟨n', rfl⟩ := Nat.exists_eq_succ_of_ne_zero hn
  cases ss with
  | nil => rfl
  | cons y ys =>
    cases y with
    | ok r' => simp [allOk, Item.isOk]
    | error e => simp [existsRow, hq, List.take_succ_cons, allOk, Item.isOk] at h

omit [DecidableEq κ] in
theorem applyRow_ok (S : Sem χ ρ ν ε κ α) (L : LimEnv ε) (site : Site) (k : Nat) (r : ρ) (ss : Stream ε ρ) (n : Nat)
    (hn : n ≠ 0) (h : allOk ((applyRow S L site k r ss).take n) = true) : allOk ss = true := by
  obtain ⟨n', rfl⟩ := Nat.exists_eq_succ_of_ne_zero hn
  cases hs : allOk ss with
  | true => rfl
  | false =>
    obtain ⟨e, he⟩ := collect_error_of_not_allOk ss hs
    simp [applyRow, he, List.take_succ_cons, allOk, Item.isOk] at h

/-- **C33, bounded extra work, tree level**: for every plan, every limit environment, every node and
    every demand of a consumer that stops at the first `Err`: nothing below is pulled from an iterator
    that has already returned an `Err`, and at most `depth` pulls return an `Err`. -/
theorem trace_good (S : Sem χ ρ ν ε κ α) (Q : Quirks) (hq : Q.forwardsErr) (L : LimEnv ε)
    (p : Plan χ ρ ε α) : ∀ (site : Site) (env : ρ) (d : Nat),
    Calls (runL S Q L site env p) d → Good p.depth (trace false S Q L site env p d) := by
  have hok := trace_ok S Q hq L
  obtain ⟨hq1, hq2, hq3, hq4, hq5, hq6, hq7⟩ := hq
  have hd := Quirks.dropsErr_of_nil Q hq7
  induction p with
  | scan rows => intro site env d h; exact leafTrace_good L site _ d h
  | fail e => intro site env d h; exact leafTrace_good L site _ d h
  | arg => intro site env d h; exact leafTrace_good L site _ d h
  | indexSeek key value fb ih =>
    intro site env d h
    simp only [runL, trace, hq6, Plan.depth] at h ⊢
    have h1 := guard_calls L site _ d h
    have G0 := good_handed_true _ _ h1
    have Gp : Good 0 (if guardNeed L site (parkHead (S.park L.coll value env S.empty) false
        (seekBody S L env key value (runL S Q L (.left site) env fb))) d = 0 then []
        else (S.park L.coll value env S.empty).toList.map (fun e => (⟨true, .error e, false⟩ : Handed ε ρ))) := by
      split
      · exact Good.nil _
      · exact good_parks _
    refine ((G0.append Gp).append (b := fb.depth + 1) ?_).mono (by omega)
    cases hev : S.eval L.coll value env S.empty with
    | error e => exact Good.nil _
    | ok v =>
      simp only
      cases hl : S.lookup key v with
      | some rows => exact Good.nil _
      | none =>
        simp only
        have hc : Calls (runL S Q L (.left site) env fb)
            (guardNeed L site (parkHead (S.park L.coll value env S.empty) false
              (seekBody S L env key value (runL S Q L (.left site) env fb))) d) := by
          cases hp : S.park L.coll value env S.empty with
          | none =>
            rw [hp] at h1
            simpa [parkHead, seekBody, hev, hl] using h1
          | some e =>
            rw [hp] at h1
            unfold Calls at h1 ⊢
            generalize guardNeed L site _ d = d1 at h1 ⊢
            cases hd1 : d1 - 1 with
            | zero => rfl
            | succ m =>
              rw [hd1] at h1
              cases hb : seekBody S L env key value (runL S Q L (.left site) env fb) <;>
                simp [parkHead, hb, List.take_succ_cons, allOk, Item.isOk] at h1
        exact ((good_handed_false _ _ hc).append (ih _ _ _ hc)).mono (by omega)
  | filter pred inp ih =>
    intro site env d h
    simp only [runL, trace, hd, dropErrT_false, Plan.depth] at h ⊢
    exact (unaryTrace_good L site _ (mapT_errFwd _) _ _ _ d _ (ih _ _) (hok inp _ _) h).1
  | procedureCall name args inp ih =>
    intro site env d h
    simp only [runL, trace, hq6, hd, dropErrT_false, Plan.depth] at h ⊢
    exact parkTrace_good L site _ (flatMapT_errFwd _) _ _ _ _ _ d _ (ih _ _) h
  | fixup nulls outer filtered iho ihf =>
    intro site env d h
    simp only [runL, trace, hd, dropErrT_false, eagerPre, Bool.false_eq_true, if_false, Nat.max_zero, Plan.depth] at h ⊢
    have h1 := guard_calls L site _ d h
    split
    · exact Good.nil _
    · have hc1 := (loopT (ρ := ρ) L (.inner site) "OptionalWhereFixup.outer").calls (loopT_errFwd _ _ _) ⟨0, 0, false⟩
        (runL S Q L (.left site) env outer) _ (Calls.driver _)
      have G0 := good_handed_true _ _ h1
      have G1 := good_handed_false _ _ hc1
      have Go := iho _ _ _ hc1
      cases hlo : allOk ((loopT (ρ := ρ) L (.inner site) "OptionalWhereFixup.outer").run ⟨0, 0, false⟩
          (runL S Q L (.left site) env outer)) with
      | false =>
        simp only [Bool.false_eq_true, if_false, List.append_nil]
        exact ((G0.append G1).append Go).mono (by omega)
      | true =>
        simp only [if_true]
        have hc1ok := (loopT (ρ := ρ) L (.inner site) "OptionalWhereFixup.outer").pulled_ok (loopT_errFwd _ _ _)
          ⟨0, 0, false⟩ (runL S Q L (.left site) env outer)
          (driverDemand ((loopT (ρ := ρ) L (.inner site) "OptionalWhereFixup.outer").run ⟨0, 0, false⟩
            (runL S Q L (.left site) env outer))) (allOk_take _ _ hlo)
        have G1' := G1.zero_of_ok ((handed_ok_iff false _).2 hc1ok)
        have Go' := Go.zero_of_ok (hok outer _ _ _ hc1ok)
        have hc2 := (loopT (ρ := ρ) L (.inner (.inner site)) "OptionalWhereFixup.filtered").calls (loopT_errFwd _ _ _)
          ⟨0, 0, false⟩ (runL S Q L (.right site) env filtered) _ (Calls.driver _)
        have G2 := good_handed_false _ _ hc2
        have Gf := ihf _ _ _ hc2
        exact (((G0.append G1').append Go').append (G2.append Gf)).mono (by omega)
  | project projs inp ih =>
    intro site env d h
    simp only [runL, trace, hq6, hd, dropErrT_false, Plan.depth] at h ⊢
    exact parkTrace_good L site _ (mapT_errFwd _) _ _ _ _ _ d _ (ih _ _) h
  | distinct inp ih =>
    intro site env d h
    simp only [runL, trace, hq1, Plan.depth] at h ⊢
    exact (unaryTrace_good L site _ (distinctT_errFwd S) _ _ _ d _ (ih _ _) (hok inp _ _) h).1
  | unwind e alias inp ih =>
    intro site env d h
    simp only [runL, trace, hq6, hd, dropErrT_false, Plan.depth] at h ⊢
    exact parkTrace_good L site _ (flatMapT_errFwd _) _ _ _ _ _ d _ (ih _ _) h
  | expand kind g inp ih =>
    intro site env d h
    simp only [runL, trace, hd, dropErrT_false, Plan.depth] at h ⊢
    exact (unaryTrace_good L site _ (flatMapT_errFwd _) _ _ _ d _ (ih _ _) (hok inp _ _) h).1
  | skip n inp ih =>
    intro site env d h
    simp only [runL, trace, hq3, Plan.depth] at h ⊢
    cases hw : S.window n env with
    | error e => rw [hw] at h; exact (leafTrace_good L site _ d h).mono (by omega)
    | ok k => rw [hw] at h; exact (unaryTrace_good L site _ skipT_errFwd _ _ _ d _ (ih _ _) (hok inp _ _) h).1
  | limit n inp ih =>
    intro site env d h
    simp only [runL, trace, Plan.depth] at h ⊢
    cases hw : S.window n env with
    | error e => rw [hw] at h; exact (leafTrace_good L site _ d h).mono (by omega)
    | ok k => rw [hw] at h; exact (unaryTrace_good L site _ limitT_errFwd _ _ _ d _ (ih _ _) (hok inp _ _) h).1
  | orderBy keys inp ih =>
    intro site env d h
    simp only [runL, trace, hq6, Plan.depth] at h ⊢
    exact parkTrace_good L site _ (orderByT_errFwd S Q hq4 L site env keys) _ _ _ _ _ d _ (ih _ _) h
  | aggregate groupBy aggs inp ih =>
    intro site env d h
    simp only [runL, trace, hq6, hd, dropErrT_false, Plan.depth] at h ⊢
    exact parkTrace_good L site _ (aggregateT_errFwd S L site env groupBy aggs) _ _ _ _ _ d _ (ih _ _) h
  | union all l r ihl ihr =>
    intro site env d h
    simp only [runL, trace, hq2, Plan.depth] at h ⊢
    cases all with
    | true =>
      simp only [if_true] at h ⊢
      have h1 := guard_calls L site _ d h
      have G0 := good_handed_true _ _ h1
      have Gl := ihl _ _ _ (Calls.append_left _ _ _ h1)
      have Gr := ihr _ _ _ (Calls.append_right _ _ _ h1)
      generalize guardNeed L site (runL S Q L (.left site) env l ++ runL S Q L (.right site) env r) d = d1
        at h1 G0 Gl Gr ⊢
      cases hcl : allOk ((runL S Q L (.left site) env l).take d1) with
      | true => exact ((G0.append (Gl.zero_of_ok (hok l _ _ _ hcl))).append Gr).mono (by omega)
      | false =>
        have hle : d1 ≤ (runL S Q L (.left site) env l).length := by
          apply Nat.le_of_not_lt
          intro hgt
          have := allOk_take _ d1 (Calls.allOk_of_lt _ _ _ h1 hgt)
          rw [this] at hcl; cases hcl
        have Gr0 := Gr.zero_of_ok (hok r _ _ _ (by rw [Nat.sub_eq_zero_of_le hle]; rfl))
        exact ((G0.append Gl).append Gr0).mono (by omega)
    | false =>
      simp only [Bool.false_eq_true, if_false] at h ⊢
      have h1 := guard_calls L site _ d h
      have h2 := (distinctT (ρ := ρ) S false).calls (distinctT_errFwd S) [] _ _ h1
      have G0 := good_handed_true _ _ h1
      have G1 := good_handed_false _ _ h2
      have Gl := ihl _ _ _ (Calls.append_left _ _ _ h2)
      have Gr := ihr _ _ _ (Calls.append_right _ _ _ h2)
      generalize (distinctT (ρ := ρ) S false).need [] (runL S Q L (.left site) env l ++ runL S Q L (.right site) env r)
        (guardNeed L site ((distinctT S false).run [] (runL S Q L (.left site) env l ++ runL S Q L (.right site) env r)) d) = d2
        at h2 G1 Gl Gr ⊢
      cases hcl : allOk ((runL S Q L (.left site) env l).take d2) with
      | true => exact (((G0.append G1).append (Gl.zero_of_ok (hok l _ _ _ hcl))).append Gr).mono (by omega)
      | false =>
        have hle : d2 ≤ (runL S Q L (.left site) env l).length := by
          apply Nat.le_of_not_lt
          intro hgt
          have := allOk_take _ d2 (Calls.allOk_of_lt _ _ _ h2 hgt)
          rw [this] at hcl; cases hcl
        have Gr0 := Gr.zero_of_ok (hok r _ _ _ (by rw [Nat.sub_eq_zero_of_le hle]; rfl))
        exact (((G0.append G1).append Gl).append Gr0).mono (by omega)
  | filterExists sub inp ihs ihi =>
    intro site env d h
    simp only [runL, trace, hd, dropErrT_false, Plan.depth] at h ⊢
    exact flatNode_good L site _ _ _
      (fun b => trace false S Q L (.exec b.1 site) (S.bind env b.2.1) sub 1) d _ _ (ihi _ _) (hok inp _ _)
      (fun b _ => ihs _ _ 1 (Calls.one _))
      (fun b hb0 hbok => hok sub _ _ 1 (existsRow_head_ok Q hq5 _ _ _ hb0 hbok)) h
  | cartesian l r ihl ihr =>
    intro site env d h
    simp only [runL, trace, hd, dropErrT_false, dropErrs_false, Plan.depth] at h ⊢
    exact flatNode_good L site _ _ _
      (fun b => trace false S Q L (.exec b.1 site) env r b.2.2) d _ _ (ihl _ _) (hok l _ _)
      (fun b hb => ihr _ _ _ (Calls.of_map _ (joinItem_isOk S _) _ _ hb))
      (fun b _ hbok => hok r _ _ _ (by
        rw [← List.map_take, allOk_map_iff _ (joinItem_isOk S _)] at hbok; exact hbok)) h
  | apply inp sub ihi ihs =>
    intro site env d h
    simp only [runL, trace, hd, dropErrT_false, dropErrs_false, Plan.depth] at h ⊢
    cases ht : L.time (.inner site) 0 with
    | some e => rw [ht] at h; exact (leafTrace_good L site _ d h).mono (by omega)
    | none =>
      rw [ht] at h
      simp only at h ⊢
      exact flatNode_good L site _ _ _
        (fun b => trace false S Q L (.exec b.1 site) (S.bind env b.2.1) sub
          (driverDemand (runL S Q L (.exec b.1 site) (S.bind env b.2.1) sub))) d _ _ (ihi _ _) (hok inp _ _)
        (fun b _ => ihs _ _ _ (Calls.driver _))
        (fun b hb0 hbok => hok sub _ _ _ (allOk_take _ _ (applyRow_ok S L site _ _ _ _ hb0 hbok))) h

/-- **C33, bounded extra work** at the driver -/
theorem boundedExtraWork (S : Sem χ ρ ν ε κ α) (Q : Quirks) (hq : Q.forwardsErr) (L : LimEnv ε)
    (params : ρ) (p : Plan χ ρ ε α) : BoundedExtraWork S Q L params p :=
  trace_good S Q hq L p .root params _ (Calls.driver _)

end

end Nervus.PlanOps
