/-
  Proofs.CrashMain — induction over incarnations (open, commits, death at any I/O step, in any
  crash mode): the files always represent the initial content plus every acknowledged commit plus,
  entirely or not at all, the commit in flight; the next open succeeds and shows exactly that.
-/
import Nervus.Proofs.CrashOpen
namespace Nervus.Crash

/-- files as a crash (or a dropped handle) leaves them -/
structure Flat (fs : FS) : Prop where
  pj : fs.pj = []
  quiet : WalQuiet fs

theorem crash_flat (fs : FS) (mode : CrashMode) : Flat (fs.crash mode) :=
  ⟨rfl, ⟨rfl, rfl⟩⟩

/-- no handle: the files represent `T` -/
structure Closed (T : List Tx) (fs : FS) : Prop where
  flat : Flat fs
  rep : Rep T fs.pd fs.wf

theorem closed_of_safe {Ts : List (List Tx)} {fs : FS} (h : SafeFS Ts fs) (mode : CrashMode) :
    ∃ T ∈ Ts, Closed T (fs.crash mode) := by
  obtain ⟨T, hT, hr⟩ := h mode
  exact ⟨T, hT, crash_flat fs mode, hr⟩

/-- the files at the moment of death at I/O step `k` (all steps performed if `k` is past the end) -/
theorem run_crash_fs (acts : List Action) (k : Nat) (fs : FS) (m : Mem) :
    (run acts (.crashAt k) fs m).fs = fs.steps ((ioSteps acts).take k) := by
  unfold run
  by_cases h : k < (ioSteps acts).length
  · have := (runActs_crash acts k 0 fs m [] (Nat.zero_le _) (by simpa using h)).2
    simpa using this
  · have := (runActs_crash_late acts k 0 fs m [] (Nat.zero_le _) (by simpa using Nat.le_of_not_lt h)).2.1
    rw [this, List.take_of_length_le (Nat.le_of_not_lt h)]

theorem run_none (acts : List Action) (fs : FS) (m : Mem) :
    (run acts .none fs m).fs = fs.steps (ioSteps acts) ∧
    (run acts .none fs m).mem = (memUpds acts).foldl applyUpd m ∧
    (run acts .none fs m).err = failOf acts := by
  unfold run
  rw [runActs_none]
  exact ⟨rfl, rfl, rfl⟩

/-! ### freshness of external ids along a history -/

/-- each transaction's nodes are new with respect to everything seen so far, and non-zero -/
def FreshAll : List Nat → List Tx → Prop
  | _, [] => True
  | seen, tx :: rest =>
    tx.nodes.Nodup ∧ (∀ x ∈ tx.nodes, x ∉ seen) ∧ 0 ∉ tx.nodes ∧ FreshAll (seen ++ tx.nodes) rest

instance decFreshAll : ∀ (seen : List Nat) (txs : List Tx), Decidable (FreshAll seen txs)
  | _, [] => inferInstanceAs (Decidable True)
  | seen, tx :: rest =>
    have := decFreshAll (seen ++ tx.nodes) rest
    inferInstanceAs (Decidable (tx.nodes.Nodup ∧ (∀ x ∈ tx.nodes, x ∉ seen) ∧ 0 ∉ tx.nodes ∧ FreshAll (seen ++ tx.nodes) rest))

theorem freshTx_of {T : List Tx} {seen : List Nat} {tx : Tx} (hnd : (allNodes T).Nodup)
    (hsub : ∀ x ∈ allNodes T, x ∈ seen) (h1 : tx.nodes.Nodup) (h2 : ∀ x ∈ tx.nodes, x ∉ seen) (h3 : 0 ∉ tx.nodes) :
    FreshTx T tx where
  nodup := by
    rw [List.nodup_append]
    refine ⟨hnd, h1, ?_⟩
    intro a ha b hb hab
    subst hab
    exact h2 a hb (hsub a ha)
  nozero := h3

/-! ### commits through one handle -/

theorem runCommits_inv {cfg : Cfg} (hsync : cfg.syncSlot = true) :
    ∀ (txs : List Tx) (T : List Tx) (fs : FS) (m : Mem) (cs : List CTx) (c : Nat) (seen : List Nat),
      InvOpen T fs m cs c → (txs ≠ [] → TailPre cfg fs m) → (∀ x ∈ allNodes T, x ∈ seen) → FreshAll seen txs →
      ∃ cs' c', InvOpen (T ++ txs) (runCommits cfg fs m txs).1 (runCommits cfg fs m txs).2 cs' c' ∧
        (txs ≠ [] → validLen (runCommits cfg fs m txs).1.wf = (runCommits cfg fs m txs).1.wf.length) ∧
        (∀ x ∈ allNodes (T ++ txs), x ∈ seen ++ txs.flatMap (·.nodes)) := by
  intro txs
  induction txs with
  | nil =>
    intro T fs m cs c seen h _ hsub _
    exact ⟨cs, c, by simpa [runCommits] using h, by simp, by simpa using hsub⟩
  | cons tx rest ih =>
    intro T fs m cs c seen h ht hsub hfr
    obtain ⟨f1, f2, f3, f4⟩ := hfr
    have hf : FreshTx T tx := freshTx_of h.log.nodup hsub f1 f2 f3
    obtain ⟨cs1, c1, h1, hclean1⟩ := commit_post hsync h (ht (by simp)) tx hf
    obtain ⟨r1, r2, _⟩ := run_none (commitA cfg m fs.pv fs.wf tx) fs m
    have hsub1 : ∀ x ∈ allNodes (T ++ [tx]), x ∈ seen ++ tx.nodes := by
      intro x hx
      rw [allNodes_snoc] at hx
      rcases List.mem_append.mp hx with h' | h'
      · exact List.mem_append_left _ (hsub x h')
      · exact List.mem_append_right _ h'
    obtain ⟨cs', c', h', hcl', hsub'⟩ := ih (T ++ [tx]) _ _ cs1 c1 (seen ++ tx.nodes) h1 (fun _ => Or.inl hclean1) hsub1 f4
    refine ⟨cs', c', ?_, ?_, ?_⟩
    · simp only [runCommits, r1, r2]
      simpa using h'
    · intro _
      simp only [runCommits, r1, r2]
      by_cases hr : rest = []
      · subst hr
        simpa [runCommits] using hclean1
      · exact hcl' hr
    · intro x hx
      have := hsub' x (by simpa using hx)
      simpa using this

/-! ### one incarnation -/

/-- the transactions whose commit is started in the incarnation -/
def Round.txs (r : Round) : List Tx :=
  match r.death with
  | .inOpen _ => []
  | .idle => r.commits
  | .inCommit tx _ => r.commits ++ [tx]

/-- the log has no torn tail when the first commit of the incarnation appends to it (or appends
    cut it off: C17's repair) -/
def TailCond (cfg : Cfg) (fs : FS) (r : Round) : Prop :=
  cfg.tailTolerant = true ∨ validLen fs.wf = fs.wf.length ∨ r.txs = []

instance (cfg : Cfg) (fs : FS) (r : Round) : Decidable (TailCond cfg fs r) :=
  inferInstanceAs (Decidable (cfg.tailTolerant = true ∨ validLen fs.wf = fs.wf.length ∨ r.txs = []))

/-- what an incarnation may do to the content -/
def StepT (T : List Tx) (o : Spec.RoundObs) (T' : List Tx) : Prop :=
  T' = T ++ o.acked ∨ ∃ tx, o.inflight = some tx ∧ T' = T ++ o.acked ++ [tx]

theorem freshAll_append : ∀ (a b : List Tx) (seen : List Nat), FreshAll seen (a ++ b) →
    FreshAll seen a ∧ FreshAll (seen ++ a.flatMap (·.nodes)) b
  | [], b, seen, h => by simpa [FreshAll] using h
  | x :: a, b, seen, h => by
    obtain ⟨h1, h2, h3, h4⟩ := h
    obtain ⟨i1, i2⟩ := freshAll_append a b _ h4
    exact ⟨⟨h1, h2, h3, i1⟩, by simpa [List.append_assoc] using i2⟩

theorem tailPre_after_open {cfg : Cfg} {fs fsO : FS} {mO : Mem} (hw : fsO.wf = fs.wf) (htc : mO.tailChecked = false)
    (h : cfg.tailTolerant = true ∨ validLen fs.wf = fs.wf.length) : TailPre cfg fsO mO := by
  rcases h with h | h
  · right; simp [h, htc]
  · left; rw [hw]; exact h

theorem round_safe {cfg : Cfg} (hsync : cfg.syncSlot = true) (T : List Tx) (fs : FS) (seen : List Nat) (r : Round)
    (hc : Closed T fs) (hsub : ∀ x ∈ allNodes T, x ∈ seen) (htail : TailCond cfg fs r) (hfr : FreshAll seen r.txs) :
    ∃ T', StepT T r.obs T' ∧ Closed T' (r.after cfg fs) ∧
      (∀ x ∈ allNodes T', x ∈ seen ++ r.txs.flatMap (·.nodes)) := by
  obtain ⟨hfail, saO, hwO, csO, cO, hInvO, htcO⟩ := open_safe (cfg := cfg) hsync hc.flat.pj hc.flat.quiet hc.rep
  obtain ⟨o1, o2, o3⟩ := run_none (openA cfg fs.pv fs.wf) fs {}
  have htpO : r.txs ≠ [] → TailPre cfg (fs.steps (ioSteps (openA cfg fs.pv fs.wf)))
      ((memUpds (openA cfg fs.pv fs.wf)).foldl applyUpd {}) := by
    intro hne
    rcases htail with h | h | h
    · exact tailPre_after_open hwO htcO (Or.inl h)
    · exact tailPre_after_open hwO htcO (Or.inr h)
    · exact absurd h hne
  cases hd : r.death with
  | inOpen k =>
    have hafter : r.after cfg fs = (fs.steps ((ioSteps (openA cfg fs.pv fs.wf)).take k)).crash r.mode := by
      simp [Round.after, hd, run_crash_fs]
    obtain ⟨T', hT', hcl⟩ := closed_of_safe (saO k) r.mode
    simp only [List.mem_singleton] at hT'
    subst hT'
    refine ⟨T', Or.inl (by simp [Round.obs, hd]), by rw [hafter]; exact hcl, ?_⟩
    intro x hx
    exact List.mem_append_left _ (hsub x hx)
  | idle =>
    have htxs : r.txs = r.commits := by simp [Round.txs, hd]
    rw [htxs] at hfr htpO
    obtain ⟨cs', c', hInv', _, hsub'⟩ := runCommits_inv hsync r.commits T _ _ csO cO seen hInvO htpO hsub hfr
    have hafter : r.after cfg fs = (runCommits cfg (fs.steps (ioSteps (openA cfg fs.pv fs.wf)))
        ((memUpds (openA cfg fs.pv fs.wf)).foldl applyUpd {}) r.commits).1.crash r.mode := by
      simp [Round.after, hd, o1, o2]
    have hsafe := safeFS_of_rep hInv'.pj hInv'.quiet ⟨cs', c', hInv'.com, hInv'.log, hInv'.pager⟩
    obtain ⟨T', hT', hcl⟩ := closed_of_safe hsafe r.mode
    simp only [List.mem_singleton] at hT'
    subst hT'
    exact ⟨T ++ r.commits, Or.inl (by simp [Round.obs, hd]), by rw [hafter]; exact hcl, by rw [htxs]; exact hsub'⟩
  | inCommit tx k =>
    have htxs : r.txs = r.commits ++ [tx] := by simp [Round.txs, hd]
    rw [htxs] at hfr
    obtain ⟨hfr1, hfr2⟩ := freshAll_append r.commits [tx] seen hfr
    have htp1 : r.commits ≠ [] → TailPre cfg (fs.steps (ioSteps (openA cfg fs.pv fs.wf)))
        ((memUpds (openA cfg fs.pv fs.wf)).foldl applyUpd {}) := fun _ => htpO (by rw [htxs]; simp)
    obtain ⟨cs', c', hInv', hcl', hsub'⟩ := runCommits_inv hsync r.commits T _ _ csO cO seen hInvO htp1 hsub hfr1
    generalize hS : runCommits cfg (fs.steps (ioSteps (openA cfg fs.pv fs.wf)))
      ((memUpds (openA cfg fs.pv fs.wf)).foldl applyUpd {}) r.commits = s at hInv' hcl' hsub'
    have htp2 : TailPre cfg s.1 s.2 := by
      by_cases hr : r.commits = []
      · have hs : s = (fs.steps (ioSteps (openA cfg fs.pv fs.wf)), (memUpds (openA cfg fs.pv fs.wf)).foldl applyUpd {}) := by
          rw [← hS, hr]; rfl
        rw [hs]
        exact htpO (by rw [htxs]; simp)
      · exact Or.inl (hcl' hr)
    obtain ⟨g1, g2, g3, _⟩ := hfr2
    have hf : FreshTx (T ++ r.commits) tx := freshTx_of hInv'.log.nodup hsub' g1 g2 g3
    obtain ⟨sa, _⟩ := commit_safe hsync hInv' htp2 tx hf
    have hafter : r.after cfg fs = (s.1.steps ((ioSteps (commitA cfg s.2 s.1.pv s.1.wf tx)).take k)).crash r.mode := by
      simp [Round.after, hd, o1, o2, hS, run_crash_fs]
    obtain ⟨T', hT', hcl⟩ := closed_of_safe (sa k) r.mode
    refine ⟨T', ?_, by rw [hafter]; exact hcl, ?_⟩
    · simp only [List.mem_cons, List.mem_nil_iff, or_false] at hT'
      rcases hT' with rfl | rfl
      · exact Or.inl (by simp [Round.obs, hd])
      · exact Or.inr ⟨tx, by simp [Round.obs, hd], by simp [Round.obs, hd]⟩
    · intro x hx
      simp only [List.mem_cons, List.mem_nil_iff, or_false] at hT'
      rw [htxs]
      rcases hT' with rfl | rfl
      · have := hsub' x hx
        simp only [List.flatMap_append, List.mem_append] at this ⊢
        rcases this with h | h
        · exact Or.inl h
        · exact Or.inr (Or.inl h)
      · rw [allNodes_snoc] at hx
        simp only [List.flatMap_append, List.mem_append] at hx ⊢
        rcases hx with h | h
        · have := hsub' x h
          simp only [List.mem_append] at this
          rcases this with h' | h'
          · exact Or.inl h'
          · exact Or.inr (Or.inl h')
        · exact Or.inr (Or.inr (by simpa using h))

/-! ### all incarnations -/

/-- the preconditions of a history, decided round by round on the files the model computes:
    fresh non-zero external ids, and no append behind a torn log tail -/
def HistOK (cfg : Cfg) : FS → List Nat → List Round → Prop
  | _, _, [] => True
  | fs, seen, r :: rest =>
    TailCond cfg fs r ∧ FreshAll seen r.txs ∧ HistOK cfg (r.after cfg fs) (seen ++ r.txs.flatMap (·.nodes)) rest

/-- only the freshness half of `HistOK` (what every caller of the API guarantees) -/
def FreshHist : List Nat → List Round → Prop
  | _, [] => True
  | seen, r :: rest => FreshAll seen r.txs ∧ FreshHist (seen ++ r.txs.flatMap (·.nodes)) rest

instance decHistOK (cfg : Cfg) : ∀ (fs : FS) (seen : List Nat) (rounds : List Round), Decidable (HistOK cfg fs seen rounds)
  | _, _, [] => inferInstanceAs (Decidable True)
  | fs, seen, r :: rest =>
    have := decHistOK cfg (r.after cfg fs) (seen ++ r.txs.flatMap (·.nodes)) rest
    inferInstanceAs (Decidable (TailCond cfg fs r ∧ FreshAll seen r.txs ∧
      HistOK cfg (r.after cfg fs) (seen ++ r.txs.flatMap (·.nodes)) rest))

theorem rounds_safe {cfg : Cfg} (hsync : cfg.syncSlot = true) :
    ∀ (rounds : List Round) (T : List Tx) (fs : FS) (seen : List Nat),
      Closed T fs → (∀ x ∈ allNodes T, x ∈ seen) → HistOK cfg fs seen rounds →
      ∃ T', Spec.Admissible T (rounds.map Round.obs) T' ∧ Closed T' (afterRounds cfg fs rounds) := by
  intro rounds
  induction rounds with
  | nil => intro T fs seen hc _ _; exact ⟨T, Spec.Admissible.done T, hc⟩
  | cons r rest ih =>
    intro T fs seen hc hsub hok
    obtain ⟨h1, h2, h3⟩ := hok
    obtain ⟨T1, hstep, hc1, hsub1⟩ := round_safe hsync T fs seen r hc hsub h1 h2
    obtain ⟨T', hadm, hc'⟩ := ih T1 (r.after cfg fs) _ hc1 hsub1 h3
    refine ⟨T', ?_, hc'⟩
    simp only [List.map_cons]
    rcases hstep with rfl | ⟨tx, hi, rfl⟩
    · cases ho : r.obs with
      | mk a i => rw [ho] at hadm; exact Spec.Admissible.lost hadm
    · cases ho : r.obs with
      | mk a i =>
        rw [ho] at hadm hi
        simp only at hi
        subst hi
        exact Spec.Admissible.survived hadm

/-! ### acknowledged commits are inside every admissible list -/

theorem admissible_prefix {T0 T : List Tx} {os : List Spec.RoundObs} (h : Spec.Admissible T0 os T) : T0 <+: T := by
  induction h with
  | done T => exact List.prefix_refl T
  | lost _ ih => exact List.IsPrefix.trans (List.prefix_append _ _) ih
  | survived _ ih => exact List.IsPrefix.trans (by rw [List.append_assoc]; exact List.prefix_append _ _) ih

theorem admissible_acked {T0 T : List Tx} {os : List Spec.RoundObs} (h : Spec.Admissible T0 os T) :
    ∀ o ∈ os, ∀ tx ∈ o.acked, tx ∈ T := by
  induction h with
  | done T => intro o ho; simp at ho
  | @lost T T' a i rest h' ih =>
    intro o ho tx htx
    rcases List.mem_cons.mp ho with rfl | ho
    · exact (admissible_prefix h').subset (List.mem_append_right _ htx)
    · exact ih o ho tx htx
  | @survived T T' a tx' rest h' ih =>
    intro o ho tx htx
    rcases List.mem_cons.mp ho with rfl | ho
    · exact (admissible_prefix h').subset (List.mem_append_left _ (List.mem_append_right _ htx))
    · exact ih o ho tx htx

theorem mem_allNodes {T : List Tx} {tx : Tx} (h : tx ∈ T) : ∀ x ∈ tx.nodes, x ∈ allNodes T := by
  intro x hx; simp only [allNodes, List.mem_flatMap]; exact ⟨tx, h, hx⟩
theorem mem_allEdges {T : List Tx} {tx : Tx} (h : tx ∈ T) : ∀ x ∈ tx.edges, x ∈ allEdges T := by
  intro x hx; simp only [allEdges, List.mem_flatMap]; exact ⟨tx, h, hx⟩
theorem mem_allProps {T : List Tx} {tx : Tx} (h : tx ∈ T) : ∀ x ∈ tx.props, x ∈ allProps T := by
  intro x hx; simp only [allProps, List.mem_flatMap]; exact ⟨tx, h, hx⟩

/-! ### what the next open shows -/

theorem spec_run_eq (T : List Tx) : Spec.run T = ⟨allNodes T, allEdges T, allProps T⟩ := by
  induction T with
  | nil => rfl
  | cons tx T ih => simp [Spec.run, ih, allNodes, allEdges, allProps]

theorem content_of_inv {T : List Tx} {fs : FS} {m : Mem} {cs : List CTx} {c : Nat} (h : InvOpen T fs m cs c) :
    Spec.Content.same (content m fs.pv) (Spec.run T) := by
  rw [spec_run_eq]
  refine ⟨h.mexts, ?_, ?_⟩
  · intro e
    simp only [content, h.msegs, List.flatMap_nil, List.nil_append, h.mruns]
    exact h.log.edges e
  · intro q
    simp only [content, h.mroot, if_true, List.append_nil, h.mruns]
    exact h.log.props q

/-- **C01 + C02 over all histories of this shape**: whatever the incarnations did and wherever
    they died, the next open succeeds and shows the content of an admissible transaction list:
    the initial one, every acknowledged commit, and — entirely or not at all — each commit that
    was in flight at a death. -/
theorem crash_recover {cfg : Cfg} (hsync : cfg.syncSlot = true) (rounds : List Round) (T0 : List Tx) (fs0 : FS)
    (seen : List Nat) (hc : Closed T0 fs0) (hsub : ∀ x ∈ allNodes T0, x ∈ seen) (hok : HistOK cfg fs0 seen rounds) :
    ∃ T m fs', Spec.Admissible T0 (rounds.map Round.obs) T ∧
      recover cfg (afterRounds cfg fs0 rounds) = .ok (m, fs') ∧
      Spec.Content.same (content m fs'.pv) (Spec.run T) := by
  obtain ⟨T, hadm, hcl⟩ := rounds_safe hsync rounds T0 fs0 seen hc hsub hok
  obtain ⟨hfail, _, _, cs, c, hinv, _⟩ := open_safe (cfg := cfg) hsync hcl.flat.pj hcl.flat.quiet hcl.rep
  obtain ⟨o1, o2, o3⟩ := run_none (openA cfg (afterRounds cfg fs0 rounds).pv (afterRounds cfg fs0 rounds).wf)
    (afterRounds cfg fs0 rounds) {}
  refine ⟨T, _, _, hadm, ?_, content_of_inv hinv⟩
  simp only [recover, o3, hfail, o1, o2]

end Nervus.Crash
