/-
  Proofs.CrashMain — induction over incarnations (open, commits, death at any I/O step, in any
  crash mode): the files always represent the initial content plus every acknowledged commit plus,
  entirely or not at all, the commit in flight; the next open succeeds and shows exactly that.
-/
import Nervus.Proofs.CrashClose
import Nervus.Proofs.CrashCreate
namespace Nervus.Crash

/-- files as a crash (or a dropped handle) leaves them -/
structure Flat (fs : FS) : Prop where
  pj : fs.pj = []
  quiet : WalQuiet fs

theorem crash_flat (fs : FS) (mode : CrashMode) : Flat (fs.crash mode) :=
  ⟨rfl, ⟨rfl, rfl⟩⟩

/-- no handle: the files represent `T` -/
structure Closed (T : List Tx) (fs : FS) : Prop where
  flat : Flat fs
  rep : Rep T fs.pd fs.wf

theorem closed_of_safe {Ts : List (List Tx)} {fs : FS} (h : SafeFS Ts fs) (mode : CrashMode) :
    ∃ T ∈ Ts, Closed T (fs.crash mode) := by
  obtain ⟨T, hT, hr⟩ := h mode
  exact ⟨T, hT, crash_flat fs mode, hr⟩

/-- a database whose creation may have been cut short (at any step, any number of times), or that
    was never created: flat files, an empty log, a nascent page file -/
structure Nascent (fs : FS) : Prop where
  flat : Flat fs
  log : fs.wf = []
  page : NascentP fs.pd

/-- what an incarnation starts from: files that represent `T`, or (for the empty list) a nascent database -/
def Start (T : List Tx) (fs : FS) : Prop := Closed T fs ∨ (T = [] ∧ Nascent fs)

theorem nascent_empty : Nascent ({} : FS) :=
  ⟨⟨rfl, ⟨rfl, rfl⟩⟩, rfl, ⟨⟨rfl, rfl, rfl, rfl, rfl, Nat.le_refl _, Nat.le_refl _⟩, Or.inl rfl⟩⟩

/-- the files at the moment of death at I/O step `k` (all steps performed if `k` is past the end) -/
theorem run_crash_fs (acts : List Action) (k : Nat) (fs : FS) (m : Mem) :
    (run acts (.crashAt k) fs m).fs = fs.steps ((ioSteps acts).take k) := by
  unfold run
  by_cases h : k < (ioSteps acts).length
  · have := (runActs_crash acts k 0 fs m [] (Nat.zero_le _) (by simpa using h)).2
    simpa using this
  · have := (runActs_crash_late acts k 0 fs m [] (Nat.zero_le _) (by simpa using Nat.le_of_not_lt h)).2.1
    rw [this, List.take_of_length_le (Nat.le_of_not_lt h)]

theorem run_none (acts : List Action) (fs : FS) (m : Mem) :
    (run acts .none fs m).fs = fs.steps (ioSteps acts) ∧
    (run acts .none fs m).mem = (memUpds acts).foldl applyUpd m ∧
    (run acts .none fs m).err = failOf acts := by
  unfold run
  rw [runActs_none]
  exact ⟨rfl, rfl, rfl⟩

/-- **open from any start**: it succeeds, every crash image at every step is again a start for the
    same list, and the handle satisfies the invariant -/
theorem open_start {cfg : Cfg} (hsync : cfg.syncSlot = true) (hfz : cfg.freshZero = true) (hsc : cfg.syncCreate = true)
    {T : List Tx} {fs : FS} (hs : Start T fs) :
    failOf (openA cfg fs.pv fs.wf) = none ∧
    (∀ n mode, Start T ((fs.steps ((ioSteps (openA cfg fs.pv fs.wf)).take n)).crash mode)) ∧
    (fs.steps (ioSteps (openA cfg fs.pv fs.wf))).wf = fs.wf ∧
    ∃ cs c, InvOpen T (fs.steps (ioSteps (openA cfg fs.pv fs.wf)))
      ((memUpds (openA cfg fs.pv fs.wf)).foldl applyUpd {}) cs c ∧
      ((memUpds (openA cfg fs.pv fs.wf)).foldl applyUpd {}).tailChecked = false := by
  rcases hs with hc | ⟨rfl, hn⟩
  · obtain ⟨hfail, sa, hw, cs, c, hinv, htc⟩ := open_safe (cfg := cfg) hsync hc.flat.pj hc.flat.quiet hc.rep
    refine ⟨hfail, ?_, hw, cs, c, hinv, htc⟩
    intro n mode
    obtain ⟨T', hT', hcl⟩ := closed_of_safe (sa n) mode
    simp only [List.mem_singleton] at hT'
    subst hT'
    exact Or.inl hcl
  · obtain ⟨hfail, sa, hw, hinv, htc⟩ := create_safe (cfg := cfg) hfz hsc fs hn.flat.pj hn.flat.quiet hn.log hn.page
    refine ⟨hfail, ?_, hw, [], 0, hinv, htc⟩
    intro n mode
    exact Or.inr ⟨rfl, crash_flat _ mode, (sa n mode).2, (sa n mode).1⟩

/-! ### freshness of external ids along a history -/

/-- each transaction's nodes are new with respect to everything seen so far, and non-zero -/
def FreshAll : List Nat → List Tx → Prop
  | _, [] => True
  | seen, tx :: rest =>
    tx.nodes.Nodup ∧ (∀ x ∈ tx.nodes, x ∉ seen) ∧ 0 ∉ tx.nodes ∧ FreshAll (seen ++ tx.nodes) rest

instance decFreshAll : ∀ (seen : List Nat) (txs : List Tx), Decidable (FreshAll seen txs)
  | _, [] => inferInstanceAs (Decidable True)
  | seen, tx :: rest =>
    have := decFreshAll (seen ++ tx.nodes) rest
    inferInstanceAs (Decidable (tx.nodes.Nodup ∧ (∀ x ∈ tx.nodes, x ∉ seen) ∧ 0 ∉ tx.nodes ∧ FreshAll (seen ++ tx.nodes) rest))

theorem freshTx_of {T : List Tx} {seen : List Nat} {tx : Tx} (hnd : (allNodes T).Nodup)
    (hsub : ∀ x ∈ allNodes T, x ∈ seen) (h1 : tx.nodes.Nodup) (h2 : ∀ x ∈ tx.nodes, x ∉ seen) (h3 : 0 ∉ tx.nodes) :
    FreshTx T tx where
  nodup := by
    rw [List.nodup_append]
    refine ⟨hnd, h1, ?_⟩
    intro a ha b hb hab
    subst hab
    exact h2 a hb (hsub a ha)
  nozero := h3

/-! ### operations through one handle -/

/-- no compaction of the list has to split a leaf of the LIVE property tree in place (leaf splits
    in a new tree are covered) -/
def OpsCond (cfg : Cfg) : FS → Mem → List HOp → Prop
  | _, _, [] => True
  | fs, m, .commit tx :: rest =>
    OpsCond cfg (run (commitA cfg m fs.pv fs.wf tx) .none fs m).fs (run (commitA cfg m fs.pv fs.wf tx) .none fs m).mem rest
  | fs, m, .compact :: rest =>
    NoLiveSplit cfg m fs.pv ∧
    OpsCond cfg (run (compactA cfg m fs.pv fs.wf) .none fs m).fs (run (compactA cfg m fs.pv fs.wf) .none fs m).mem rest

instance decOpsCond (cfg : Cfg) : ∀ (fs : FS) (m : Mem) (ops : List HOp), Decidable (OpsCond cfg fs m ops)
  | _, _, [] => inferInstanceAs (Decidable True)
  | fs, m, .commit tx :: rest =>
    decOpsCond cfg (run (commitA cfg m fs.pv fs.wf tx) .none fs m).fs (run (commitA cfg m fs.pv fs.wf tx) .none fs m).mem rest
  | fs, m, .compact :: rest =>
    have := decOpsCond cfg (run (compactA cfg m fs.pv fs.wf) .none fs m).fs (run (compactA cfg m fs.pv fs.wf) .none fs m).mem rest
    inferInstanceAs (Decidable (NoLiveSplit cfg m fs.pv ∧ _))

theorem commitsOf_compact (rest : List HOp) : commitsOf (.compact :: rest) = commitsOf rest := rfl
theorem commitsOf_commit (tx : Tx) (rest : List HOp) : commitsOf (.commit tx :: rest) = tx :: commitsOf rest := rfl

theorem runOps_inv {cfg : Cfg} (hsync : cfg.syncSlot = true) (hcap1 : 1 ≤ cfg.leafCap) :
    ∀ (ops : List HOp) (T : List Tx) (fs : FS) (m : Mem) (cs : List CTx) (c : Nat) (seen : List Nat),
      InvOpen T fs m cs c → TailPre cfg fs m → (∀ x ∈ allNodes T, x ∈ seen) → FreshAll seen (commitsOf ops) →
      OpsCond cfg fs m ops →
      ∃ cs' c', InvOpen (T ++ commitsOf ops) (runOps cfg fs m ops).1 (runOps cfg fs m ops).2 cs' c' ∧
        TailPre cfg (runOps cfg fs m ops).1 (runOps cfg fs m ops).2 ∧
        (∀ x ∈ allNodes (T ++ commitsOf ops), x ∈ seen ++ (commitsOf ops).flatMap (·.nodes)) := by
  intro ops
  induction ops with
  | nil =>
    intro T fs m cs c seen h ht hsub _ _
    exact ⟨cs, c, by simpa [runOps, commitsOf] using h, by simpa [runOps] using ht, by simpa [commitsOf] using hsub⟩
  | cons op rest ih =>
    intro T fs m cs c seen h ht hsub hfr hcond
    cases op with
    | commit tx =>
      rw [commitsOf_commit] at hfr ⊢
      obtain ⟨f1, f2, f3, f4⟩ := hfr
      have hf : FreshTx T tx := freshTx_of h.log.nodup hsub f1 f2 f3
      obtain ⟨cs1, c1, h1, hclean1⟩ := commit_post hsync h ht tx hf
      obtain ⟨r1, r2, _⟩ := run_none (commitA cfg m fs.pv fs.wf tx) fs m
      have hsub1 : ∀ x ∈ allNodes (T ++ [tx]), x ∈ seen ++ tx.nodes := by
        intro x hx
        rw [allNodes_snoc] at hx
        rcases List.mem_append.mp hx with h' | h'
        · exact List.mem_append_left _ (hsub x h')
        · exact List.mem_append_right _ h'
      have hcond' : OpsCond cfg (fs.steps (ioSteps (commitA cfg m fs.pv fs.wf tx)))
          ((memUpds (commitA cfg m fs.pv fs.wf tx)).foldl applyUpd m) rest := by
        have : OpsCond cfg (run (commitA cfg m fs.pv fs.wf tx) .none fs m).fs (run (commitA cfg m fs.pv fs.wf tx) .none fs m).mem rest := hcond
        rwa [r1, r2] at this
      obtain ⟨cs', c', h', ht', hsub'⟩ := ih (T ++ [tx]) _ _ cs1 c1 (seen ++ tx.nodes) h1 (Or.inl hclean1) hsub1 f4 hcond'
      refine ⟨cs', c', ?_, ?_, ?_⟩
      · simp only [runOps, r1, r2]
        simpa using h'
      · simp only [runOps, r1, r2]
        exact ht'
      · intro x hx
        have := hsub' x (by simpa using hx)
        simpa using this
    | compact =>
      rw [commitsOf_compact] at hfr ⊢
      obtain ⟨hns, hcond0⟩ := hcond
      obtain ⟨cs1, c1, h1, ht1⟩ := compact_post hcap1 h ht hns
      obtain ⟨r1, r2, _⟩ := run_none (compactA cfg m fs.pv fs.wf) fs m
      have hcond' : OpsCond cfg (fs.steps (ioSteps (compactA cfg m fs.pv fs.wf)))
          ((memUpds (compactA cfg m fs.pv fs.wf)).foldl applyUpd m) rest := by
        rwa [r1, r2] at hcond0
      obtain ⟨cs', c', h', ht', hsub'⟩ := ih T _ _ cs1 c1 seen h1 ht1 hsub hfr hcond'
      refine ⟨cs', c', ?_, ?_, hsub'⟩
      · simp only [runOps, r1, r2]
        exact h'
      · simp only [runOps, r1, r2]
        exact ht'

/-! ### one incarnation -/

/-- the transactions whose commit is started in the incarnation -/
def Round.txs (r : Round) : List Tx :=
  match r.death with
  | .inOpen _ => []
  | .inCommit tx _ => commitsOf r.ops ++ [tx]
  | _ => commitsOf r.ops

/-- the log has no torn tail when the incarnation starts, or appends cut it off (C17's repair) -/
def TailCond (cfg : Cfg) (fs : FS) : Prop :=
  cfg.tailTolerant = true ∨ validLen fs.wf = fs.wf.length

instance (cfg : Cfg) (fs : FS) : Decidable (TailCond cfg fs) :=
  inferInstanceAs (Decidable (cfg.tailTolerant = true ∨ validLen fs.wf = fs.wf.length))

/-- the condition on a death inside a compaction: no in-place leaf split of the live tree, and the crash image tears no
    leaf write of the live property tree (that is the known finding `C01-live-tree-in-place`) -/
def deathCond (cfg : Cfg) (s : FS × Mem) (mode : CrashMode) : Death → Prop
  | .inCompact k =>
    NoLiveSplit cfg s.2 s.1.pv ∧
    mode.tearsLive s.2.proot (run (compactA cfg s.2 s.1.pv s.1.wf) (.crashAt k) s.1 s.2).fs.pj = false
  | _ => True

instance (cfg : Cfg) (s : FS × Mem) (mode : CrashMode) : ∀ d : Death, Decidable (deathCond cfg s mode d)
  | .inCompact _ => inferInstanceAs (Decidable (_ ∧ _))
  | .inOpen _ => inferInstanceAs (Decidable True)
  | .inCommit _ _ => inferInstanceAs (Decidable True)
  | .inClose _ => inferInstanceAs (Decidable True)
  | .idle => inferInstanceAs (Decidable True)

/-- the compaction conditions of one incarnation that starts on the files `fs` -/
def Round.cond (cfg : Cfg) (fs : FS) (r : Round) : Prop :=
  match r.death with
  | .inOpen _ => True
  | d =>
    OpsCond cfg (run (openA cfg fs.pv fs.wf) .none fs {}).fs (run (openA cfg fs.pv fs.wf) .none fs {}).mem r.ops ∧
    deathCond cfg (runOps cfg (run (openA cfg fs.pv fs.wf) .none fs {}).fs (run (openA cfg fs.pv fs.wf) .none fs {}).mem r.ops) r.mode d

instance (cfg : Cfg) (fs : FS) (r : Round) : Decidable (r.cond cfg fs) := by
  unfold Round.cond
  cases r.death <;> simp only <;> infer_instance

/-- what an incarnation may do to the content -/
def StepT (T : List Tx) (o : Spec.RoundObs) (T' : List Tx) : Prop :=
  T' = T ++ o.acked ∨ ∃ tx, o.inflight = some tx ∧ T' = T ++ o.acked ++ [tx]

theorem freshAll_append : ∀ (a b : List Tx) (seen : List Nat), FreshAll seen (a ++ b) →
    FreshAll seen a ∧ FreshAll (seen ++ a.flatMap (·.nodes)) b
  | [], b, seen, h => by simpa [FreshAll] using h
  | x :: a, b, seen, h => by
    obtain ⟨h1, h2, h3, h4⟩ := h
    obtain ⟨i1, i2⟩ := freshAll_append a b _ h4
    exact ⟨⟨h1, h2, h3, i1⟩, by simpa [List.append_assoc] using i2⟩

theorem tailPre_after_open {cfg : Cfg} {fs fsO : FS} {mO : Mem} (hw : fsO.wf = fs.wf) (htc : mO.tailChecked = false)
    (h : TailCond cfg fs) : TailPre cfg fsO mO := by
  rcases h with h | h
  · right; simp [h, htc]
  · left; rw [hw]; exact h

theorem round_safe {cfg : Cfg} (hsync : cfg.syncSlot = true) (hfz : cfg.freshZero = true) (hsc : cfg.syncCreate = true) (hcap1 : 1 ≤ cfg.leafCap)
    (T : List Tx) (fs : FS) (seen : List Nat) (r : Round)
    (hc : Start T fs) (hsub : ∀ x ∈ allNodes T, x ∈ seen) (htail : TailCond cfg fs) (hfr : FreshAll seen r.txs)
    (hcond : r.cond cfg fs) :
    ∃ T', StepT T r.obs T' ∧ Start T' (r.after cfg fs) ∧
      (∀ x ∈ allNodes T', x ∈ seen ++ r.txs.flatMap (·.nodes)) := by
  obtain ⟨hfail, saO, hwO, csO, cO, hInvO, htcO⟩ := open_start (cfg := cfg) hsync hfz hsc hc
  obtain ⟨o1, o2, o3⟩ := run_none (openA cfg fs.pv fs.wf) fs {}
  have htpO : TailPre cfg (fs.steps (ioSteps (openA cfg fs.pv fs.wf)))
      ((memUpds (openA cfg fs.pv fs.wf)).foldl applyUpd {}) := tailPre_after_open hwO htcO htail
  cases hd : r.death with
  | inOpen k =>
    have hafter : r.after cfg fs = (fs.steps ((ioSteps (openA cfg fs.pv fs.wf)).take k)).crash r.mode := by
      simp [Round.after, hd, run_crash_fs]
    refine ⟨T, Or.inl (by simp [Round.obs, hd]), by rw [hafter]; exact saO k r.mode, ?_⟩
    intro x hx
    exact List.mem_append_left _ (hsub x hx)
  | idle =>
    have htxs : r.txs = commitsOf r.ops := by simp [Round.txs, hd]
    rw [htxs] at hfr
    have hcond' : OpsCond cfg (fs.steps (ioSteps (openA cfg fs.pv fs.wf)))
        ((memUpds (openA cfg fs.pv fs.wf)).foldl applyUpd {}) r.ops := by
      have := hcond
      simp only [Round.cond, hd, o1, o2] at this
      exact this.1
    obtain ⟨cs', c', hInv', _, hsub'⟩ := runOps_inv hsync hcap1 r.ops T _ _ csO cO seen hInvO htpO hsub hfr hcond'
    have hafter : r.after cfg fs = (runOps cfg (fs.steps (ioSteps (openA cfg fs.pv fs.wf)))
        ((memUpds (openA cfg fs.pv fs.wf)).foldl applyUpd {}) r.ops).1.crash r.mode := by
      simp [Round.after, hd, o1, o2]
    have hsafe := safeFS_of_stable hInv'.pj hInv'.wal hInv'.log hInv'.pager hInv'.store
    obtain ⟨T', hT', hcl⟩ := closed_of_safe hsafe r.mode
    simp only [List.mem_singleton] at hT'
    subst hT'
    exact ⟨T ++ commitsOf r.ops, Or.inl (by simp [Round.obs, hd]), by rw [hafter]; exact Or.inl hcl, by rw [htxs]; exact hsub'⟩
  | inCommit tx k =>
    have htxs : r.txs = commitsOf r.ops ++ [tx] := by simp [Round.txs, hd]
    rw [htxs] at hfr
    obtain ⟨hfr1, hfr2⟩ := freshAll_append (commitsOf r.ops) [tx] seen hfr
    have hcond' : OpsCond cfg (fs.steps (ioSteps (openA cfg fs.pv fs.wf)))
        ((memUpds (openA cfg fs.pv fs.wf)).foldl applyUpd {}) r.ops := by
      have := hcond
      simp only [Round.cond, hd, o1, o2] at this
      exact this.1
    obtain ⟨cs', c', hInv', htp2, hsub'⟩ := runOps_inv hsync hcap1 r.ops T _ _ csO cO seen hInvO htpO hsub hfr1 hcond'
    generalize hS : runOps cfg (fs.steps (ioSteps (openA cfg fs.pv fs.wf)))
      ((memUpds (openA cfg fs.pv fs.wf)).foldl applyUpd {}) r.ops = s at hInv' htp2 hsub'
    obtain ⟨g1, g2, g3, _⟩ := hfr2
    have hf : FreshTx (T ++ commitsOf r.ops) tx := freshTx_of hInv'.log.nodup hsub' g1 g2 g3
    obtain ⟨sa, _⟩ := commit_safe hsync hInv' htp2 tx hf
    have hafter : r.after cfg fs = (s.1.steps ((ioSteps (commitA cfg s.2 s.1.pv s.1.wf tx)).take k)).crash r.mode := by
      simp [Round.after, hd, o1, o2, hS, run_crash_fs]
    obtain ⟨T', hT', hcl⟩ := closed_of_safe (sa k) r.mode
    refine ⟨T', ?_, by rw [hafter]; exact Or.inl hcl, ?_⟩
    · simp only [List.mem_cons, List.mem_nil_iff, or_false] at hT'
      rcases hT' with rfl | rfl
      · exact Or.inl (by simp [Round.obs, hd])
      · exact Or.inr ⟨tx, by simp [Round.obs, hd], by simp [Round.obs, hd]⟩
    · intro x hx
      simp only [List.mem_cons, List.mem_nil_iff, or_false] at hT'
      rw [htxs]
      rcases hT' with rfl | rfl
      · have := hsub' x hx
        simp only [List.flatMap_append, List.mem_append] at this ⊢
        rcases this with h | h
        · exact Or.inl h
        · exact Or.inr (Or.inl h)
      · rw [allNodes_snoc] at hx
        simp only [List.flatMap_append, List.mem_append] at hx ⊢
        rcases hx with h | h
        · have := hsub' x h
          simp only [List.mem_append] at this
          rcases this with h' | h'
          · exact Or.inl h'
          · exact Or.inr (Or.inl h')
        · exact Or.inr (Or.inr (by simpa using h))
  | inCompact k =>
    have htxs : r.txs = commitsOf r.ops := by simp [Round.txs, hd]
    rw [htxs] at hfr
    have hcond2 := hcond
    simp only [Round.cond, hd, o1, o2] at hcond2
    obtain ⟨hcond', hdc⟩ := hcond2
    obtain ⟨cs', c', hInv', htp2, hsub'⟩ := runOps_inv hsync hcap1 r.ops T _ _ csO cO seen hInvO htpO hsub hfr hcond'
    generalize hS : runOps cfg (fs.steps (ioSteps (openA cfg fs.pv fs.wf)))
      ((memUpds (openA cfg fs.pv fs.wf)).foldl applyUpd {}) r.ops = s at hInv' htp2 hsub' hdc
    obtain ⟨hns, htear⟩ := hdc
    have sa := compact_safe hcap1 hInv' htp2 hns
    have hafter : r.after cfg fs = (s.1.steps ((ioSteps (compactA cfg s.2 s.1.pv s.1.wf)).take k)).crash r.mode := by
      simp [Round.after, hd, o1, o2, hS, run_crash_fs]
    rw [run_crash_fs] at htear
    obtain ⟨T', hT', hr⟩ := sa k r.mode htear
    simp only [List.mem_singleton] at hT'
    subst hT'
    exact ⟨T ++ commitsOf r.ops, Or.inl (by simp [Round.obs, hd]),
      by rw [hafter]; exact Or.inl ⟨crash_flat _ _, hr⟩, by rw [htxs]; exact hsub'⟩
  | inClose k =>
    have htxs : r.txs = commitsOf r.ops := by simp [Round.txs, hd]
    rw [htxs] at hfr
    have hcond' : OpsCond cfg (fs.steps (ioSteps (openA cfg fs.pv fs.wf)))
        ((memUpds (openA cfg fs.pv fs.wf)).foldl applyUpd {}) r.ops := by
      have := hcond
      simp only [Round.cond, hd, o1, o2] at this
      exact this.1
    obtain ⟨cs', c', hInv', _, hsub'⟩ := runOps_inv hsync hcap1 r.ops T _ _ csO cO seen hInvO htpO hsub hfr hcond'
    generalize hS : runOps cfg (fs.steps (ioSteps (openA cfg fs.pv fs.wf)))
      ((memUpds (openA cfg fs.pv fs.wf)).foldl applyUpd {}) r.ops = s at hInv' hsub'
    have sa := close_safe (cfg := cfg) hInv'
    have hafter : r.after cfg fs = (s.1.steps ((ioSteps (closeA cfg s.2 s.1.pv s.1.wf)).take k)).crash r.mode := by
      simp [Round.after, hd, o1, o2, hS, run_crash_fs]
    obtain ⟨T', hT', hcl⟩ := closed_of_safe (sa k) r.mode
    simp only [List.mem_singleton] at hT'
    subst hT'
    exact ⟨T ++ commitsOf r.ops, Or.inl (by simp [Round.obs, hd]), by rw [hafter]; exact Or.inl hcl, by rw [htxs]; exact hsub'⟩

/-! ### all incarnations -/

/-- the preconditions of a history, decided round by round on the files the model computes:
    fresh non-zero external ids, no append behind a torn log tail, and — for compactions — no in-place leaf
    split of the live tree and no torn write of a live leaf in the crash image -/
def HistOK (cfg : Cfg) : FS → List Nat → List Round → Prop
  | _, _, [] => True
  | fs, seen, r :: rest =>
    TailCond cfg fs ∧ FreshAll seen r.txs ∧ r.cond cfg fs ∧
      HistOK cfg (r.after cfg fs) (seen ++ r.txs.flatMap (·.nodes)) rest

/-- the freshness part of `HistOK` (what every caller of the API guarantees) -/
def FreshHist : List Nat → List Round → Prop
  | _, [] => True
  | seen, r :: rest => FreshAll seen r.txs ∧ FreshHist (seen ++ r.txs.flatMap (·.nodes)) rest

/-- the compaction part of `HistOK` -/
def CondHist (cfg : Cfg) : FS → List Round → Prop
  | _, [] => True
  | fs, r :: rest => r.cond cfg fs ∧ CondHist cfg (r.after cfg fs) rest

instance decHistOK (cfg : Cfg) : ∀ (fs : FS) (seen : List Nat) (rounds : List Round), Decidable (HistOK cfg fs seen rounds)
  | _, _, [] => inferInstanceAs (Decidable True)
  | fs, seen, r :: rest =>
    have := decHistOK cfg (r.after cfg fs) (seen ++ r.txs.flatMap (·.nodes)) rest
    inferInstanceAs (Decidable (TailCond cfg fs ∧ FreshAll seen r.txs ∧ r.cond cfg fs ∧
      HistOK cfg (r.after cfg fs) (seen ++ r.txs.flatMap (·.nodes)) rest))

theorem rounds_safe {cfg : Cfg} (hsync : cfg.syncSlot = true) (hfz : cfg.freshZero = true) (hsc : cfg.syncCreate = true) (hcap1 : 1 ≤ cfg.leafCap) :
    ∀ (rounds : List Round) (T : List Tx) (fs : FS) (seen : List Nat),
      Start T fs → (∀ x ∈ allNodes T, x ∈ seen) → HistOK cfg fs seen rounds →
      ∃ T', Spec.Admissible T (rounds.map Round.obs) T' ∧ Start T' (afterRounds cfg fs rounds) := by
  intro rounds
  induction rounds with
  | nil => intro T fs seen hc _ _; exact ⟨T, Spec.Admissible.done T, hc⟩
  | cons r rest ih =>
    intro T fs seen hc hsub hok
    obtain ⟨h1, h2, h3, h4⟩ := hok
    obtain ⟨T1, hstep, hc1, hsub1⟩ := round_safe hsync hfz hsc hcap1 T fs seen r hc hsub h1 h2 h3
    obtain ⟨T', hadm, hc'⟩ := ih T1 (r.after cfg fs) _ hc1 hsub1 h4
    refine ⟨T', ?_, hc'⟩
    simp only [List.map_cons]
    rcases hstep with rfl | ⟨tx, hi, rfl⟩
    · cases ho : r.obs with
      | mk a i => rw [ho] at hadm; exact Spec.Admissible.lost hadm
    · cases ho : r.obs with
      | mk a i =>
        rw [ho] at hadm hi
        simp only at hi
        subst hi
        exact Spec.Admissible.survived hadm

/-- once appends cut a torn tail off (C17's repair in the tree), freshness and the compaction
    conditions are all a history needs -/
theorem histOK_of_fresh {cfg : Cfg} (htol : cfg.tailTolerant = true) :
    ∀ (rounds : List Round) (fs : FS) (seen : List Nat), FreshHist seen rounds → CondHist cfg fs rounds →
      HistOK cfg fs seen rounds
  | [], _, _, _, _ => trivial
  | r :: rest, fs, seen, h, hc => ⟨Or.inl htol, h.1, hc.1, histOK_of_fresh htol rest _ _ h.2 hc.2⟩

instance decFreshHist : ∀ (seen : List Nat) (rounds : List Round), Decidable (FreshHist seen rounds)
  | _, [] => inferInstanceAs (Decidable True)
  | seen, r :: rest =>
    have := decFreshHist (seen ++ r.txs.flatMap (·.nodes)) rest
    inferInstanceAs (Decidable (FreshAll seen r.txs ∧ FreshHist (seen ++ r.txs.flatMap (·.nodes)) rest))

instance decCondHist (cfg : Cfg) : ∀ (fs : FS) (rounds : List Round), Decidable (CondHist cfg fs rounds)
  | _, [] => inferInstanceAs (Decidable True)
  | fs, r :: rest =>
    have := decCondHist cfg (r.after cfg fs) rest
    inferInstanceAs (Decidable (r.cond cfg fs ∧ CondHist cfg (r.after cfg fs) rest))

/-! ### acknowledged commits are inside every admissible list -/

theorem admissible_prefix {T0 T : List Tx} {os : List Spec.RoundObs} (h : Spec.Admissible T0 os T) : T0 <+: T := by
  induction h with
  | done T => exact List.prefix_refl T
  | lost _ ih => exact List.IsPrefix.trans (List.prefix_append _ _) ih
  | survived _ ih => exact List.IsPrefix.trans (by rw [List.append_assoc]; exact List.prefix_append _ _) ih

theorem admissible_acked {T0 T : List Tx} {os : List Spec.RoundObs} (h : Spec.Admissible T0 os T) :
    ∀ o ∈ os, ∀ tx ∈ o.acked, tx ∈ T := by
  induction h with
  | done T => intro o ho; simp at ho
  | @lost T T' a i rest h' ih =>
    intro o ho tx htx
    rcases List.mem_cons.mp ho with rfl | ho
    · exact (admissible_prefix h').subset (List.mem_append_right _ htx)
    · exact ih o ho tx htx
  | @survived T T' a tx' rest h' ih =>
    intro o ho tx htx
    rcases List.mem_cons.mp ho with rfl | ho
    · exact (admissible_prefix h').subset (List.mem_append_left _ (List.mem_append_right _ htx))
    · exact ih o ho tx htx

theorem mem_allNodes {T : List Tx} {tx : Tx} (h : tx ∈ T) : ∀ x ∈ tx.nodes, x ∈ allNodes T := by
  intro x hx; simp only [allNodes, List.mem_flatMap]; exact ⟨tx, h, hx⟩
theorem mem_allEdges {T : List Tx} {tx : Tx} (h : tx ∈ T) : ∀ x ∈ tx.edges, x ∈ allEdges T := by
  intro x hx; simp only [allEdges, List.mem_flatMap]; exact ⟨tx, h, hx⟩
theorem mem_allProps {T : List Tx} {tx : Tx} (h : tx ∈ T) : ∀ x ∈ tx.props, x ∈ allProps T := by
  intro x hx; simp only [allProps, List.mem_flatMap]; exact ⟨tx, h, hx⟩

/-! ### what the next open shows -/

theorem spec_run_eq (T : List Tx) : Spec.run T = ⟨allNodes T, allEdges T, allProps T⟩ := by
  induction T with
  | nil => rfl
  | cons tx T ih => simp [Spec.run, ih, allNodes, allEdges, allProps]

/-- what a handle shows on any page-file image whose segments / tree / runs make up `T` -/
theorem content_of_store {T : List Tx} {m : Mem} {cs : List CTx} {p : PImg} (hst : StoreOK T cs p)
    (mexts : m.exts = allNodes T) (mruns : m.runs = logRuns (scan cs).ckpt cs)
    (msegs : m.segs = (scan cs).segs.map (fun k => (k, segEdges p k))) (mroot : m.proot = (scan cs).proot)
    (mptop : m.ptop = (scan cs).ptop) :
    Spec.Content.same (content m p) (Spec.run T) := by
  rw [spec_run_eq]
  refine ⟨mexts, ?_, ?_⟩
  · intro e
    have : m.segs.flatMap (·.2) = (scan cs).segs.flatMap (segEdges p) := by
      rw [msegs, List.flatMap_map]
    simp only [content, this, mruns]
    exact hst.edges e
  · intro q
    obtain ⟨cov, hc1, hc2, hc3⟩ := hst.props
    by_cases hr : (scan cs).proot = 0
    · simp only [content, mroot, hr, if_true, List.append_nil, mruns]
      constructor
      · exact hst.runProps q
      · intro hq
        rcases hc1 q hq with h' | h'
        · exact h'
        · rw [hc2 hr] at h'; simp at h'
    · obtain ⟨tr, hf, hto⟩ := hc3 hr
      obtain ⟨X, hsh, hall, hcov⟩ := hto.shape
      obtain ⟨pids, hl⟩ := hsh.leaves
      have hfind : p.trees.find? (fun t => t.key == (scan cs).proot) = some tr := hf
      have hent : treeEntries tr = X.flatten := by simp [treeEntries, hl, entries_mkLeaves]
      have hhas : ∀ q, treeHas p (scan cs).proot (scan cs).ptop q = true ↔ q ∈ X.flatten ∧ q ∈ tr.blobs := by
        intro q
        rw [treeHas_eq _ _ _ _ _ hfind]
        exact treeHasT_iff hsh q
      simp only [content, mroot, hr, if_false, mptop, hfind, hent, mruns, List.mem_append, List.mem_filter, hhas]
      constructor
      · rintro (h' | ⟨h1, _⟩)
        · exact hst.runProps q h'
        · exact hall q h1
      · intro hq
        rcases hc1 q hq with h' | h'
        · exact Or.inl h'
        · right
          obtain ⟨h1, h2⟩ := hcov q h'
          exact ⟨h1, h1, h2⟩

theorem content_of_inv {T : List Tx} {fs : FS} {m : Mem} {cs : List CTx} {c : Nat} (h : InvOpen T fs m cs c) :
    Spec.Content.same (content m fs.pv) (Spec.run T) := by
  rw [h.pv]
  exact content_of_store h.store h.mexts h.mruns h.msegs h.mroot h.mptop

/-- what the theorems need from the configuration: the node-table slot is synced before it is counted,
    creation syncs, fresh pages are zero, appends cut a torn tail off, a leaf holds at least one entry -/
def CfgOK (cfg : Cfg) : Prop :=
  cfg.syncSlot = true ∧ cfg.syncCreate = true ∧ cfg.freshZero = true ∧ cfg.tailTolerant = true ∧ 1 ≤ cfg.leafCap

instance (cfg : Cfg) : Decidable (CfgOK cfg) := inferInstanceAs (Decidable (_ ∧ _ ∧ _ ∧ _ ∧ _))

/-- **C01 + C02 over all histories of this shape**: whatever the incarnations did and wherever
    they died, the next open succeeds and shows the content of an admissible transaction list:
    the initial one, every acknowledged commit, and — entirely or not at all — each commit that
    was in flight at a death. -/
theorem crash_recover {cfg : Cfg} (hsync : cfg.syncSlot = true) (hfz : cfg.freshZero = true) (hsc : cfg.syncCreate = true) (hcap1 : 1 ≤ cfg.leafCap)
    (rounds : List Round) (T0 : List Tx) (fs0 : FS)
    (seen : List Nat) (hc : Start T0 fs0) (hsub : ∀ x ∈ allNodes T0, x ∈ seen) (hok : HistOK cfg fs0 seen rounds) :
    ∃ T m fs', Spec.Admissible T0 (rounds.map Round.obs) T ∧
      recover cfg (afterRounds cfg fs0 rounds) = .ok (m, fs') ∧
      Spec.Content.same (content m fs'.pv) (Spec.run T) := by
  obtain ⟨T, hadm, hcl⟩ := rounds_safe hsync hfz hsc hcap1 rounds T0 fs0 seen hc hsub hok
  obtain ⟨hfail, _, _, cs, c, hinv, _⟩ := open_start (cfg := cfg) hsync hfz hsc hcl
  obtain ⟨o1, o2, o3⟩ := run_none (openA cfg (afterRounds cfg fs0 rounds).pv (afterRounds cfg fs0 rounds).wf)
    (afterRounds cfg fs0 rounds) {}
  refine ⟨T, _, _, hadm, ?_, content_of_inv hinv⟩
  simp only [recover, o3, hfail, o1, o2]

end Nervus.Crash
