/-
  Per-operator lemmas for C22: every operator of the repaired tree answers an `Err` input item
  with an `Err` first (`ErrFwd`), the guard does too, and the tree-level induction: if the items
  the root hands out are all `Ok`, everything handed over below (`trace`) is `Ok`.   core-only.
-/
import Nervus.Proofs.Trans
namespace Nervus.PlanOps

section
variable {χ ρ ν ε κ α : Type} [DecidableEq κ]

/-! ### `ErrFwd` for every operator -/

theorem guardT_errFwd (L : LimEnv ε) (site : Site) : ErrFwd (guardT (ρ := ρ) L site) := by
  intro st e _
  simp only [guardT]
  cases L.time site (st.calls + 1) <;> simp

theorem mapT_errFwd (f : ρ → Stream ε ρ) : ErrFwd (mapT f) := by
  intro st e _; exact ⟨e, [], rfl⟩

theorem distinctT_errFwd (S : Sem χ ρ ν ε κ α) : ErrFwd (distinctT S false) := by
  intro st e _; exact ⟨e, [], rfl⟩

theorem skipT_errFwd : ErrFwd (skipT (ε := ε) (ρ := ρ) false) := by
  intro st e _; exact ⟨e, [], rfl⟩

theorem limitT_errFwd : ErrFwd (limitT (ε := ε) (ρ := ρ)) := by
  intro st e _; exact ⟨e, [], rfl⟩

theorem flatMapT_errFwd (g : Nat → ρ → Stream ε ρ) : ErrFwd (flatMapT g) := by
  intro st e _; exact ⟨e, [], rfl⟩

omit [DecidableEq κ] in
theorem orderByT_errFwd (S : Sem χ ρ ν ε κ α) (Q : Quirks) (hq : Q.orderByKeepsErr = false) (L : LimEnv ε)
    (site : Site) (env : ρ) (keys : List (χ × Bool)) : ErrFwd (orderByT S Q L site env keys) := by
  intro st e _
  simp only [orderByT, hq]
  cases L.time (.inner site) st.n <;> simp

theorem aggregateT_errFwd (S : Sem χ ρ ν ε κ α) (L : LimEnv ε) (site : Site) (env : ρ)
    (groupBy : List String) (aggs : List (α × String)) : ErrFwd (aggregateT S L site env groupBy aggs) := by
  intro st e _
  simp only [aggregateT]
  cases L.time (.inner site) st.n <;> simp

/-! ### the guard -/

theorem guard_pulled_ok (L : LimEnv ε) (site : Site) (s : Stream ε ρ) (d : Nat)
    (h : allOk ((guard L site s).take d) = true) : allOk (s.take (guardNeed L site s d)) = true := by
  unfold guard at h
  unfold guardNeed
  cases ht : L.time site 0 with
  | some e => simp
  | none =>
    rw [ht] at h
    exact (guardT L site).pulled_ok (guardT_errFwd L site) _ s d h

/-- a node with one input: the guard's output `Ok` ⇒ the operator's output and input pulled for it `Ok` -/
theorem unary_pulled_ok {σ : Type} (L : LimEnv ε) (site : Site) (t : Trans σ ε ρ) (hf : ErrFwd t)
    (st : σ) (c : Stream ε ρ) (d : Nat) (h : allOk ((guard L site (t.run st c)).take d) = true) :
    allOk ((t.run st c).take (guardNeed L site (t.run st c) d)) = true ∧
    allOk (c.take (t.need st c (guardNeed L site (t.run st c) d))) = true := by
  have h1 := guard_pulled_ok L site _ d h
  exact ⟨h1, t.pulled_ok hf st c _ h1⟩

/-! ### batches of a per-row expansion -/

theorem batches_ok (g : Nat → ρ → Stream ε ρ) (k : Nat) (c : Stream ε ρ) (d : Nat)
    (h : allOk (((flatMapT g).run k c).take d) = true) :
    ∀ b ∈ batches g k c d, b.2.2 ≠ 0 ∧ allOk ((g b.1 b.2.1).take b.2.2) = true := by
  induction c generalizing k d with
  | nil => simp [batches]
  | cons x xs ih =>
    intro b hb
    simp only [batches] at hb
    split at hb
    · simp at hb
    · rename_i hd
      rw [Trans.run_cons] at h
      simp only [flatMapT, Bool.false_eq_true, if_false] at h
      cases x with
      | error e =>
        simp only at hb h
        obtain ⟨d', rfl⟩ := Nat.exists_eq_succ_of_ne_zero hd
        simp [List.take_succ_cons] at h
      | ok r =>
        simp only at hb h
        rw [List.take_append] at h
        simp only [allOk_append, Bool.and_eq_true] at h
        rcases List.mem_cons.1 hb with rfl | hb'
        · exact ⟨hd, h.1⟩
        · exact ih (k + 1) _ h.2 b hb'

theorem handed_ok_iff (g : Bool) (s : Stream ε ρ) :
    (∀ h ∈ handed g s, Item.isOk h.item = true) ↔ allOk s = true := by
  simp [handed, allOk_iff]

end

/-! ### the tree: everything handed over is `Ok` when the root hands out only `Ok` items -/

section
variable {χ ρ ν ε κ α : Type} [DecidableEq κ]

/-- the operators of `Q` are the repaired ones as far as `Err` items are concerned -/
def Quirks.forwardsErr (Q : Quirks) : Prop :=
  Q.distinctDropsErr = false ∧ Q.unionDropsErr = false ∧ Q.skipDropsErr = false ∧
  Q.orderByKeepsErr = false ∧ Q.existsSwallowsErr = false

instance (Q : Quirks) : Decidable Q.forwardsErr := by unfold Quirks.forwardsErr; infer_instance

theorem leafTrace_ok (L : LimEnv ε) (site : Site) (body : Stream ε ρ) (d : Nat)
    (h : allOk ((guard L site body).take d) = true) :
    ∀ x ∈ leafTrace L site body d, Item.isOk x.item = true := by
  rw [leafTrace, handed_ok_iff]
  exact guard_pulled_ok L site body d h

theorem unaryTrace_ok {σ : Type} (L : LimEnv ε) (site : Site) (t : Trans σ ε ρ) (hf : ErrFwd t)
    (st : σ) (c : Stream ε ρ) (childTrace : Nat → List (Handed ε ρ)) (d : Nat)
    (ih : ∀ d', allOk (c.take d') = true → ∀ x ∈ childTrace d', Item.isOk x.item = true)
    (h : allOk ((guard L site (t.run st c)).take d) = true) :
    ∀ x ∈ unaryTrace L site t st c childTrace 0 d, Item.isOk x.item = true := by
  obtain ⟨h1, h2⟩ := unary_pulled_ok L site t hf st c d h
  intro x hx
  simp only [unaryTrace, List.mem_append, Nat.max_zero] at hx
  rcases hx with (hx | hx) | hx
  · exact (handed_ok_iff true _).2 h1 x hx
  · exact (handed_ok_iff false _).2 h2 x hx
  · exact ih _ h2 x hx

omit [DecidableEq κ] in
theorem joinItem_isOk (S : Sem χ ρ ν ε κ α) (l : ρ) (x : Except ε ρ) :
    Item.isOk (joinItem S l x) = Item.isOk x := by
  cases x <;> rfl

/-- **C22, tree level**: for every plan, every limit environment and every demand `d`: if the `d`
    items the node hands out are `Ok`, then every item handed over anywhere below is `Ok`. -/
theorem trace_ok (S : Sem χ ρ ν ε κ α) (Q : Quirks) (hq : Q.forwardsErr) (L : LimEnv ε)
    (p : Plan χ ρ ε α) : ∀ (site : Site) (env : ρ) (d : Nat),
    allOk ((runL S Q L site env p).take d) = true →
    ∀ x ∈ trace false S Q L site env p d, Item.isOk x.item = true := by
  obtain ⟨hq1, hq2, hq3, hq4, hq5⟩ := hq
  induction p with
  | source items => intro site env d h; exact leafTrace_ok L site items d h
  | arg => intro site env d h; exact leafTrace_ok L site _ d h
  | filter pred inp ih =>
    intro site env d h
    exact unaryTrace_ok L site _ (mapT_errFwd _) _ _ _ d (ih _ _) h
  | project projs inp ih =>
    intro site env d h
    exact unaryTrace_ok L site _ (mapT_errFwd _) _ _ _ d (ih _ _) h
  | distinct inp ih =>
    intro site env d h
    simp only [runL, trace, hq1] at h ⊢
    exact unaryTrace_ok L site _ (distinctT_errFwd S) _ _ _ d (ih _ _) h
  | unwind e alias inp ih =>
    intro site env d h
    exact unaryTrace_ok L site _ (flatMapT_errFwd _) _ _ _ d (ih _ _) h
  | expand f inp ih =>
    intro site env d h
    exact unaryTrace_ok L site _ (flatMapT_errFwd _) _ _ _ d (ih _ _) h
  | skip n inp ih =>
    intro site env d h
    simp only [runL, trace, hq3] at h ⊢
    cases hw : S.window n env with
    | error e => rw [hw] at h; exact leafTrace_ok L site _ d h
    | ok k => rw [hw] at h; exact unaryTrace_ok L site _ skipT_errFwd _ _ _ d (ih _ _) h
  | limit n inp ih =>
    intro site env d h
    simp only [runL, trace] at h ⊢
    cases hw : S.window n env with
    | error e => rw [hw] at h; exact leafTrace_ok L site _ d h
    | ok k => rw [hw] at h; exact unaryTrace_ok L site _ limitT_errFwd _ _ _ d (ih _ _) h
  | orderBy keys inp ih =>
    intro site env d h
    exact unaryTrace_ok L site _ (orderByT_errFwd S Q hq4 L site env keys) _ _ _ d (ih _ _) h
  | aggregate groupBy aggs inp ih =>
    intro site env d h
    exact unaryTrace_ok L site _ (aggregateT_errFwd S L site env groupBy aggs) _ _ _ d (ih _ _) h
  | union all l r ihl ihr =>
    intro site env d h
    simp only [runL, trace, hq2] at h ⊢
    cases all with
    | true =>
      simp only [if_true] at h ⊢
      have h1 := guard_pulled_ok L site _ d h
      rw [List.take_append] at h1
      simp only [allOk_append, Bool.and_eq_true] at h1
      intro x hx
      simp only [List.mem_append] at hx
      rcases hx with (hx | hx) | hx
      · refine (handed_ok_iff true _).2 ?_ x hx
        rw [List.take_append]; simp [h1.1, h1.2]
      · exact ihl _ _ _ h1.1 x hx
      · exact ihr _ _ _ h1.2 x hx
    | false =>
      simp only [Bool.false_eq_true, if_false] at h ⊢
      obtain ⟨h1, h2⟩ := unary_pulled_ok L site _ (distinctT_errFwd S) [] _ d h
      have h2' := h2
      rw [List.take_append] at h2'
      simp only [allOk_append, Bool.and_eq_true] at h2'
      intro x hx
      simp only [List.mem_append] at hx
      rcases hx with ((hx | hx) | hx) | hx
      · exact (handed_ok_iff true _).2 h1 x hx
      · exact (handed_ok_iff false _).2 h2 x hx
      · exact ihl _ _ _ h2'.1 x hx
      · exact ihr _ _ _ h2'.2 x hx
  | filterExists sub inp ihs ihi =>
    intro site env d h
    simp only [runL, trace] at h ⊢
    intro x hx
    rcases List.mem_append.1 hx with hx | hx
    · exact unaryTrace_ok L site _ (flatMapT_errFwd _) _ _ _ d (ihi _ _) h x hx
    · obtain ⟨h1, _⟩ := unary_pulled_ok L site _ (flatMapT_errFwd _) 0 _ d h
      obtain ⟨tr, htr, hxt⟩ := List.mem_flatten.1 hx
      obtain ⟨b, hb, rfl⟩ := List.mem_map.1 htr
      obtain ⟨hb0, hbok⟩ := batches_ok _ 0 _ _ h1 b hb
      refine ihs _ _ 1 ?_ x hxt
      -- the first item of the subquery is `Ok` (or there is none): otherwise the batch starts with an `Err`
      generalize runL S Q L (Site.exec b.1 site) (S.bind env b.2.1) sub = ss at hbok ⊢
      obtain ⟨d', hd'⟩ := Nat.exists_eq_succ_of_ne_zero hb0
      rw [hd'] at hbok
      cases ss with
      | nil => rfl
      | cons y ys =>
        cases y with
        | ok r => simp
        | error e => simp [existsRow, hq5, List.take_succ_cons] at hbok
  | cartesian l r ihl ihr =>
    intro site env d h
    simp only [runL, trace] at h ⊢
    intro x hx
    rcases List.mem_append.1 hx with hx | hx
    · exact unaryTrace_ok L site _ (flatMapT_errFwd _) _ _ _ d (ihl _ _) h x hx
    · obtain ⟨h1, _⟩ := unary_pulled_ok L site _ (flatMapT_errFwd _) 0 _ d h
      obtain ⟨tr, htr, hxt⟩ := List.mem_flatten.1 hx
      obtain ⟨b, hb, rfl⟩ := List.mem_map.1 htr
      obtain ⟨_, hbok⟩ := batches_ok _ 0 _ _ h1 b hb
      refine ihr _ _ _ ?_ x hxt
      rw [← List.map_take, allOk_map_iff _ (joinItem_isOk S _)] at hbok
      exact hbok
  | apply inp sub ihi ihs =>
    intro site env d h
    simp only [runL, trace] at h ⊢
    cases ht : L.time (.inner site) 0 with
    | some e => rw [ht] at h; exact leafTrace_ok L site _ d h
    | none =>
      rw [ht] at h
      simp only at h ⊢
      intro x hx
      rcases List.mem_append.1 hx with hx | hx
      · exact unaryTrace_ok L site _ (flatMapT_errFwd _) _ _ _ d (ihi _ _) h x hx
      · obtain ⟨h1, _⟩ := unary_pulled_ok L site _ (flatMapT_errFwd _) 0 _ d h
        obtain ⟨tr, htr, hxt⟩ := List.mem_flatten.1 hx
        obtain ⟨b, hb, rfl⟩ := List.mem_map.1 htr
        obtain ⟨hb0, hbok⟩ := batches_ok _ 0 _ _ h1 b hb
        refine ihs _ _ _ ?_ x hxt
        -- the subquery was collected: an `Err` in it would be the batch's first item
        generalize runL S Q L (Site.exec b.1 site) (S.bind env b.2.1) sub = ss at hbok ⊢
        obtain ⟨d', hd'⟩ := Nat.exists_eq_succ_of_ne_zero hb0
        rw [hd'] at hbok
        cases hs : allOk ss with
        | true => exact allOk_take _ _ hs
        | false =>
          obtain ⟨e, he⟩ := collect_error_of_not_allOk ss hs
          simp [applyRow, he, List.take_succ_cons] at hbok

end

end Nervus.PlanOps
