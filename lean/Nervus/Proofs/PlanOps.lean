/-
  Per-operator lemmas for C22: every operator of the repaired tree answers an `Err` input item
  with an `Err` first (`ErrFwd`), the guard does too, and the tree-level induction: if the items
  the root hands out are all `Ok`, everything handed over below (`trace`) is `Ok`.   core-only.
-/
import Nervus.Proofs.Trans
namespace Nervus.PlanOps

section
variable {χ ρ ν ε κ α : Type} [DecidableEq κ]

/-! ### `ErrFwd` for every operator -/

theorem guardT_errFwd (L : LimEnv ε) (site : Site) : ErrFwd (guardT (ρ := ρ) L site) := by
  intro st e _
  simp only [guardT]
  cases L.time site (st.calls + 1) <;> simp

theorem mapT_errFwd (f : ρ → Stream ε ρ) : ErrFwd (mapT f) := by
  intro st e _; exact ⟨e, [], rfl⟩

theorem distinctT_errFwd (S : Sem χ ρ ν ε κ α) : ErrFwd (distinctT S false) := by
  intro st e _; exact ⟨e, [], rfl⟩

theorem skipT_errFwd : ErrFwd (skipT (ε := ε) (ρ := ρ) false) := by
  intro st e _; exact ⟨e, [], rfl⟩

theorem limitT_errFwd : ErrFwd (limitT (ε := ε) (ρ := ρ)) := by
  intro st e _; exact ⟨e, [], rfl⟩

theorem flatMapT_errFwd (g : Nat → ρ → Stream ε ρ) : ErrFwd (flatMapT g) := by
  intro st e _; exact ⟨e, [], rfl⟩

omit [DecidableEq κ] in
theorem orderByT_errFwd (S : Sem χ ρ ν ε κ α) (Q : Quirks) (hq : Q.orderByKeepsErr = false) (L : LimEnv ε)
    (site : Site) (env : ρ) (keys : List (χ × Bool)) : ErrFwd (orderByT S Q L site env keys) := by
  intro st e _
  simp only [orderByT, hq]
  cases L.time (.inner site) st.n <;> simp

theorem aggregateT_errFwd (S : Sem χ ρ ν ε κ α) (L : LimEnv ε) (site : Site) (env : ρ)
    (groupBy : List String) (aggs : List (α × String)) : ErrFwd (aggregateT S L site env groupBy aggs) := by
  intro st e _
  simp only [aggregateT]
  cases L.time (.inner site) st.n <;> simp

theorem loopT_errFwd (L : LimEnv ε) (timeSite : Site) (stage : String) :
    ErrFwd (loopT (ρ := ρ) L timeSite stage) := by
  intro st e _
  simp only [loopT]
  cases L.time timeSite st.n <;> simp

omit [DecidableEq κ] in
theorem dropErrT_false {σ : Type} (t : Trans σ ε ρ) : dropErrT false t = t := by
  cases t with
  | mk step done flush =>
    simp only [dropErrT, Trans.mk.injEq, and_true]
    funext st x
    cases x <;> rfl

omit [DecidableEq κ] in
/-- over an error-free input the missing arm makes no difference -/
theorem dropErrT_run_ok {σ : Type} (b : Bool) (t : Trans σ ε ρ) (rows : List ρ) :
    ∀ st, (dropErrT b t).run st (rows.map .ok) = t.run st (rows.map .ok) := by
  induction rows with
  | nil => intro st; rfl
  | cons r rs ih =>
    intro st
    simp only [List.map_cons, Trans.run_cons]
    show (if t.done st then [] else (t.step st (.ok r)).2 ++ (dropErrT b t).run (t.step st (.ok r)).1 (rs.map .ok)) = _
    rw [ih]

omit [DecidableEq κ] in
theorem dropErrs_false (s : Stream ε ρ) : dropErrs false s = s := rfl

theorem Quirks.dropsErr_of_nil (Q : Quirks) (h : Q.drops = []) (k : OpKind) : Q.dropsErr k = false := by
  simp [Quirks.dropsErr, h]

/-! ### the guard -/

theorem guard_pulled_ok (L : LimEnv ε) (site : Site) (s : Stream ε ρ) (d : Nat)
    (h : allOk ((guard L site s).take d) = true) : allOk (s.take (guardNeed L site s d)) = true := by
  unfold guard at h
  unfold guardNeed
  cases ht : L.time site 0 with
  | some e => simp
  | none =>
    rw [ht] at h
    exact (guardT L site).pulled_ok (guardT_errFwd L site) _ s d h

/-- a node with one input: the guard's output `Ok` ⇒ the operator's output and input pulled for it `Ok` -/
theorem unary_pulled_ok {σ : Type} (L : LimEnv ε) (site : Site) (t : Trans σ ε ρ) (hf : ErrFwd t)
    (st : σ) (c : Stream ε ρ) (d : Nat) (h : allOk ((guard L site (t.run st c)).take d) = true) :
    allOk ((t.run st c).take (guardNeed L site (t.run st c) d)) = true ∧
    allOk (c.take (t.need st c (guardNeed L site (t.run st c) d))) = true := by
  have h1 := guard_pulled_ok L site _ d h
  exact ⟨h1, t.pulled_ok hf st c _ h1⟩

/-! ### batches of a per-row expansion -/

theorem batches_ok (g : Nat → ρ → Stream ε ρ) (k : Nat) (c : Stream ε ρ) (d : Nat)
    (h : allOk (((flatMapT g).run k c).take d) = true) :
    ∀ b ∈ batches g k c d, b.2.2 ≠ 0 ∧ allOk ((g b.1 b.2.1).take b.2.2) = true := by
  induction c generalizing k d with
  | nil => simp [batches]
  | cons x xs ih =>
    intro b hb
    simp only [batches] at hb
    split at hb
    · simp at hb
    · rename_i hd
      rw [Trans.run_cons] at h
      simp only [flatMapT, Bool.false_eq_true, if_false] at h
      cases x with
      | error e =>
        simp only at hb h
        obtain ⟨d', rfl⟩ := Nat.exists_eq_succ_of_ne_zero hd
        simp [List.take_succ_cons] at h
      | ok r =>
        simp only at hb h
        rw [List.take_append] at h
        simp only [allOk_append, Bool.and_eq_true] at h
        rcases List.mem_cons.1 hb with rfl | hb'
        · exact ⟨hd, h.1⟩
        · exact ih (k + 1) _ h.2 b hb'

theorem handedFrom_items (g : Bool) (s : Stream ε ρ) : ∀ seen, (handedFrom g seen s).map (·.item) = s := by
  induction s with
  | nil => intro seen; rfl
  | cons x xs ih => intro seen; simp [handedFrom, ih]

theorem handed_ok_iff (g : Bool) (s : Stream ε ρ) :
    (∀ h ∈ handed g s, Item.isOk h.item = true) ↔ allOk s = true := by
  rw [allOk_iff]
  constructor
  · intro h x hx
    rw [← handedFrom_items g s false] at hx
    obtain ⟨y, hy, rfl⟩ := List.mem_map.1 hx
    exact h y hy
  · intro h y hy
    apply h
    rw [← handedFrom_items g s false]
    exact List.mem_map.2 ⟨y, hy, rfl⟩

end

/-! ### ORDER BY: the sort keys of EVERY collected row are checked, whatever the number of rows -/

section orderkeys
variable {χ ρ ν ε κ α : Type}

theorem orderByT_run_ok (S : Sem χ ρ ν ε κ α) (Q : Quirks) (site : Site) (env : ρ) (keys : List (χ × Bool))
    (rows : List ρ) (acc : Stream ε ρ) (n : Nat) :
    (orderByT S Q LimEnv.unlimited site env keys).run ⟨acc, n, false⟩ (rows.map .ok) =
      orderByFinish S Q LimEnv.unlimited env keys (acc.reverse ++ rows.map .ok) := by
  induction rows generalizing acc n with
  | nil => simp [Trans.run, orderByT]
  | cons r rs ih =>
    simp only [List.map_cons, Trans.run_cons]
    have hstep : (orderByT S Q LimEnv.unlimited site env keys).step ⟨acc, n, false⟩ (.ok r) =
        (⟨.ok r :: acc, n + 1, false⟩, []) := by
      cases h : Q.orderByKeepsErr <;> simp [orderByT, LimEnv.unlimited, h]
    have hdone : (orderByT S Q LimEnv.unlimited site env keys).done ⟨acc, n, false⟩ = false := rfl
    rw [hdone, hstep]
    simp only [Bool.false_eq_true, if_false, List.nil_append]
    rw [ih]
    simp

theorem mapM_first_error {β γ : Type} (f : β → Except ε γ) (pre : List β) (x : β) (post : List β) (e : ε)
    (hpre : ∀ y ∈ pre, ∃ z, f y = .ok z) (hx : f x = .error e) :
    (pre ++ x :: post).mapM f = .error e := by
  induction pre with
  | nil => simp [List.mapM_cons, hx, bind, Except.bind]
  | cons y ys ih =>
    obtain ⟨z, hz⟩ := hpre y List.mem_cons_self
    simp only [List.cons_append, List.mapM_cons, hz, bind, Except.bind]
    rw [ih (fun w hw => hpre w (List.mem_cons_of_mem _ hw))]

/-- a sort key that fails on some collected row makes ORDER BY answer exactly that error — for an
    input of ANY length ≥ 1 (one row included), wherever the failing row stands -/
theorem orderBy_key_error (S : Sem χ ρ ν ε κ α) (Q : Quirks) (hq : Q.orderByKeepsErr = false) (site : Site)
    (env : ρ) (keys : List (χ × Bool)) (pre : List ρ) (r : ρ) (post : List ρ) (e : ε)
    (hpre : ∀ x ∈ pre, ∃ ks, orderKeys S LimEnv.unlimited env keys x = .ok ks)
    (hr : orderKeys S LimEnv.unlimited env keys r = .error e) :
    (orderByT S Q LimEnv.unlimited site env keys).run ⟨[], 0, false⟩ ((pre ++ r :: post).map .ok) = [.error e] := by
  rw [orderByT_run_ok]
  simp only [List.reverse_nil, List.nil_append, orderByFinish, hq, Bool.false_eq_true, if_false]
  have : ((pre ++ r :: post).map (Except.ok (ε := ε))).mapM (keyedRow S LimEnv.unlimited env keys) = .error e := by
    rw [List.map_append, List.map_cons]
    apply mapM_first_error
    · intro y hy
      obtain ⟨x, hx, rfl⟩ := List.mem_map.1 hy
      obtain ⟨ks, hks⟩ := hpre x hx
      exact ⟨(x, ks), by simp [keyedRow, hks, Except.map]⟩
    · simp [keyedRow, hr, Except.map]
  rw [this]

end orderkeys

/-! ### parked failures (`parkT`) -/

section park
variable {σ ε ρ : Type}

theorem parkT_errFwd (t : Trans σ ε ρ) (hf : ErrFwd t) (parks : σ → Except ε ρ → Option ε)
    (fp : σ → Option ε) (drop : Bool) : ErrFwd (parkT t parks fp drop) := by
  intro st e hd
  simp only [parkT]
  cases st.2 with
  | some e2 => exact hf st.1 e2 hd
  | none =>
    obtain ⟨e', rest, he⟩ := hf st.1 e hd
    simp only
    cases parks st.1 (.error e) with
    | none => exact ⟨e', rest, he⟩
    | some e2 => rw [he]; exact ⟨e2, rest, rfl⟩

theorem parkT_run_cons (t : Trans σ ε ρ) (parks : σ → Except ε ρ → Option ε) (fp : σ → Option ε) (drop : Bool)
    (st : σ) (pend : Option ε) (x : Except ε ρ) (xs : Stream ε ρ) (hd : t.done st = false) :
    (parkT t parks fp drop).run (st, pend) (x :: xs) =
      ((parkT t parks fp drop).step (st, pend) x).2 ++
        (parkT t parks fp drop).run ((parkT t parks fp drop).step (st, pend) x).1 xs := by
  rw [Trans.run_cons]
  have : (parkT t parks fp drop).done (st, pend) = false := hd
  rw [this]; simp

theorem parkT_step_pending (t : Trans σ ε ρ) (parks : σ → Except ε ρ → Option ε) (fp : σ → Option ε) (drop : Bool)
    (a : σ) (e : ε) (x : Except ε ρ) :
    (parkT t parks fp drop).step (a, some e) x = (((t.step a (.error e)).1, none), (t.step a (.error e)).2) := rfl

theorem parkT_step_none (t : Trans σ ε ρ) (parks : σ → Except ε ρ → Option ε) (fp : σ → Option ε) (drop : Bool)
    (a : σ) (x : Except ε ρ) (h : parks a x = none) :
    (parkT t parks fp drop).step (a, none) x = (((t.step a x).1, none), (t.step a x).2) := by
  simp only [parkT, h]

theorem parkT_step_some_nil (t : Trans σ ε ρ) (parks : σ → Except ε ρ → Option ε) (fp : σ → Option ε) (drop : Bool)
    (a : σ) (x : Except ε ρ) (e : ε) (h : parks a x = some e) (ho : (t.step a x).2 = []) :
    (parkT t parks fp drop).step (a, none) x = (((t.step a x).1, some e), []) := by
  simp only [parkT, h, ho]

theorem parkT_step_some_cons (t : Trans σ ε ρ) (parks : σ → Except ε ρ → Option ε) (fp : σ → Option ε) (drop : Bool)
    (a : σ) (x : Except ε ρ) (e : ε) (y : Except ε ρ) (ys : Stream ε ρ)
    (h : parks a x = some e) (ho : (t.step a x).2 = y :: ys) :
    (parkT t parks fp drop).step (a, none) x = (((t.step a x).1, none), .error e :: ys) := by
  simp only [parkT, h, ho]

/-- operators that never say `done` (Project, Unwind, ProcedureCall): if the `d` items handed out are
    all `Ok`, nothing was pending and no pulled row parked a failure — wherever the stream ends -/
theorem park_ok_of_never_done (t : Trans σ ε ρ) (hf : ErrFwd t) (hnd : ∀ st, t.done st = false)
    (parks : σ → Except ε ρ → Option ε) (fp : σ → Option ε) :
    ∀ (s : Stream ε ρ) (st : σ) (pend : Option ε) (d : Nat), d ≠ 0 →
      allOk (((parkT t parks fp false).run (st, pend) s).take d) = true →
      pend = none ∧ parkEvents t parks fp st s d = [] := by
  intro s
  induction s with
  | nil =>
    intro st pend d hd h
    rw [Trans.run_nil] at h
    obtain ⟨d', rfl⟩ := Nat.exists_eq_succ_of_ne_zero hd
    simp only [parkEvents, hnd st, Bool.false_eq_true, or_false, Nat.succ_ne_zero, if_false]
    cases pend with
    | some e =>
      obtain ⟨e', rest, he⟩ := hf st e (hnd st)
      simp [parkT, hnd st, he, List.take_succ_cons] at h
    | none =>
      cases hfp : fp st with
      | none => exact ⟨rfl, rfl⟩
      | some e => cases hfl : t.flush st <;> simp [parkT, hnd st, hfp, hfl, List.take_succ_cons] at h
  | cons x xs ih =>
    intro st pend d hd h
    rw [parkT_run_cons _ _ _ _ _ _ _ _ (hnd st)] at h
    obtain ⟨d', rfl⟩ := Nat.exists_eq_succ_of_ne_zero hd
    simp only [parkEvents, hnd st, Bool.false_eq_true, or_false, Nat.succ_ne_zero, if_false]
    cases pend with
    | some e =>
      obtain ⟨e', rest, he⟩ := hf st e (hnd st)
      rw [parkT_step_pending] at h
      simp [he, List.take_succ_cons] at h
    | none =>
      refine ⟨rfl, ?_⟩
      cases hp : parks st x with
      | some e =>
        cases hout : (t.step st x).2 with
        | nil =>
          rw [parkT_step_some_nil _ _ _ _ _ _ e hp hout] at h
          simp only [List.nil_append] at h
          exact absurd (ih _ (some e) (d' + 1) (by omega) h).1 (by simp)
        | cons y ys =>
          rw [parkT_step_some_cons _ _ _ _ _ _ e y ys hp hout] at h
          simp [List.take_succ_cons] at h
      | none =>
        rw [parkT_step_none _ _ _ _ _ _ hp] at h
        simp only at h ⊢
        split
        · rfl
        · rename_i hlen
          rw [List.take_append] at h
          simp only [allOk_append, Bool.and_eq_true] at h
          exact (ih _ none _ (by omega) h.2).2

/-- blocking operators (OrderBy, Aggregate: failures are parked only by the work done once the
    input is exhausted): the same -/
theorem park_ok_of_flush_only (t : Trans σ ε ρ) (fp : σ → Option ε) :
    ∀ (s : Stream ε ρ) (st : σ) (d : Nat),
      allOk (((parkT t (fun _ _ => none) fp false).run (st, none) s).take d) = true →
      parkEvents t (fun _ _ => none) fp st s d = [] := by
  intro s
  induction s with
  | nil =>
    intro st d h
    simp only [parkEvents]
    split
    · rfl
    · rename_i hnd
      have hd0 : d ≠ 0 := fun h0 => hnd (Or.inl h0)
      have hdone : t.done st = false := by
        cases hdn : t.done st with
        | false => rfl
        | true => exact absurd (Or.inr hdn) hnd
      rw [Trans.run_nil] at h
      obtain ⟨d', rfl⟩ := Nat.exists_eq_succ_of_ne_zero hd0
      cases hfp : fp st with
      | none => rfl
      | some e => cases hfl : t.flush st <;> simp [parkT, hdone, hfp, hfl, List.take_succ_cons] at h
  | cons x xs ih =>
    intro st d h
    simp only [parkEvents]
    split
    · rfl
    · rename_i hnd
      have hdone : t.done st = false := by
        cases hdn : t.done st with
        | false => rfl
        | true => exact absurd (Or.inr hdn) hnd
      rw [parkT_run_cons _ _ _ _ _ _ _ _ hdone, parkT_step_none _ _ _ _ _ _ rfl] at h
      split
      · rfl
      · rw [List.take_append] at h
        simp only [allOk_append, Bool.and_eq_true] at h
        exact ih _ _ h.2

end park

/-! ### the tree: everything handed over is `Ok` when the root hands out only `Ok` items -/

section
variable {χ ρ ν ε κ α : Type} [DecidableEq κ]

/-- the operators of `Q` are the repaired ones as far as `Err` items are concerned -/
def Quirks.forwardsErr (Q : Quirks) : Prop :=
  Q.distinctDropsErr = false ∧ Q.unionDropsErr = false ∧ Q.skipDropsErr = false ∧
  Q.orderByKeepsErr = false ∧ Q.existsSwallowsErr = false ∧ Q.guardDropsFailureAtEnd = false ∧
  Q.drops = []

instance (Q : Quirks) : Decidable Q.forwardsErr := by unfold Quirks.forwardsErr; infer_instance

theorem leafTrace_ok (L : LimEnv ε) (site : Site) (body : Stream ε ρ) (d : Nat)
    (h : allOk ((guard L site body).take d) = true) :
    ∀ x ∈ leafTrace L site body d, Item.isOk x.item = true := by
  rw [leafTrace, handed_ok_iff]
  exact guard_pulled_ok L site body d h

theorem unaryTrace_ok {σ : Type} (L : LimEnv ε) (site : Site) (t : Trans σ ε ρ) (hf : ErrFwd t)
    (st : σ) (c : Stream ε ρ) (childTrace : Nat → List (Handed ε ρ)) (d : Nat)
    (ih : ∀ d', allOk (c.take d') = true → ∀ x ∈ childTrace d', Item.isOk x.item = true)
    (h : allOk ((guard L site (t.run st c)).take d) = true) :
    ∀ x ∈ unaryTrace L site t st c childTrace 0 d, Item.isOk x.item = true := by
  obtain ⟨h1, h2⟩ := unary_pulled_ok L site t hf st c d h
  intro x hx
  simp only [unaryTrace, List.mem_append, Nat.max_zero] at hx
  rcases hx with (hx | hx) | hx
  · exact (handed_ok_iff true _).2 h1 x hx
  · exact (handed_ok_iff false _).2 h2 x hx
  · exact ih _ h2 x hx

theorem parkEvents_zero {σ : Type} (t : Trans σ ε ρ) (parks : σ → Except ε ρ → Option ε) (fp : σ → Option ε)
    (st : σ) (s : Stream ε ρ) : parkEvents t parks fp st s 0 = [] := by
  cases s <;> simp [parkEvents]

theorem parkTrace_ok {σ : Type} (L : LimEnv ε) (site : Site) (t : Trans σ ε ρ) (hf : ErrFwd t)
    (parks : σ → Except ε ρ → Option ε) (fp : σ → Option ε)
    (hpark : ∀ (s : Stream ε ρ) (st : σ) (d : Nat), d ≠ 0 →
      allOk (((parkT t parks fp false).run (st, none) s).take d) = true → parkEvents t parks fp st s d = [])
    (st : σ) (c : Stream ε ρ) (childTrace : Nat → List (Handed ε ρ)) (d : Nat)
    (ih : ∀ d', allOk (c.take d') = true → ∀ x ∈ childTrace d', Item.isOk x.item = true)
    (h : allOk ((guard L site ((parkT t parks fp false).run (st, none) c)).take d) = true) :
    ∀ x ∈ parkTrace L site t parks fp false st c childTrace 0 d, Item.isOk x.item = true := by
  intro x hx
  simp only [parkTrace, List.mem_append] at hx
  rcases hx with hx | hx
  · exact unaryTrace_ok L site _ (parkT_errFwd t hf parks fp false) _ _ _ d ih h x hx
  · obtain ⟨h1, _⟩ := unary_pulled_ok L site _ (parkT_errFwd t hf parks fp false) (st, none) c d h
    by_cases hd : guardNeed L site ((parkT t parks fp false).run (st, none) c) d = 0
    · rw [hd, parkEvents_zero] at hx; simp at hx
    · rw [hpark c st _ hd h1] at hx; simp at hx

omit [DecidableEq κ] in
theorem joinItem_isOk (S : Sem χ ρ ν ε κ α) (l : ρ) (x : Except ε ρ) :
    Item.isOk (joinItem S l x) = Item.isOk x := by
  cases x <;> rfl

/-- **C22, tree level**: for every plan, every limit environment and every demand `d`: if the `d`
    items the node hands out are `Ok`, then every item handed over anywhere below is `Ok`. -/
theorem trace_ok (S : Sem χ ρ ν ε κ α) (Q : Quirks) (hq : Q.forwardsErr) (L : LimEnv ε)
    (p : Plan χ ρ ε α) : ∀ (site : Site) (env : ρ) (d : Nat),
    allOk ((runL S Q L site env p).take d) = true →
    ∀ x ∈ trace false S Q L site env p d, Item.isOk x.item = true := by
  obtain ⟨hq1, hq2, hq3, hq4, hq5, hq6, hq7⟩ := hq
  have hd := Quirks.dropsErr_of_nil Q hq7
  induction p with
  | scan rows => intro site env d h; exact leafTrace_ok L site _ d h
  | fail e => intro site env d h; exact leafTrace_ok L site _ d h
  | arg => intro site env d h; exact leafTrace_ok L site _ d h
  | indexSeek key value fb ih =>
    intro site env d h
    simp only [runL, trace, hq6] at h ⊢
    have h1 := guard_pulled_ok L site _ d h
    -- a failure parked by the seek value is the first item of the node
    have hpark : ∀ e, S.park L.coll value env S.empty = some e →
        guardNeed L site (parkHead (S.park L.coll value env S.empty) false
          (seekBody S L env key value (runL S Q L (.left site) env fb))) d = 0 := by
      intro e hp
      rw [hp] at h1 ⊢
      generalize guardNeed L site _ d = d1 at h1
      cases d1 with
      | zero => rfl
      | succ d' =>
        cases hb : seekBody S L env key value (runL S Q L (.left site) env fb) <;>
          simp [parkHead, hb, List.take_succ_cons] at h1
    intro x hx
    rcases List.mem_append.1 hx with hx | hx
    · rcases List.mem_append.1 hx with hx | hx
      · exact (handed_ok_iff true _).2 h1 x hx
      · split at hx
        · simp at hx
        · rename_i hne
          cases hp : S.park L.coll value env S.empty with
          | none => rw [hp] at hx; simp at hx
          | some e => exact absurd (hpark e hp) hne
    · cases hev : S.eval L.coll value env S.empty with
      | error e => rw [hev] at hx; simp at hx
      | ok v =>
        rw [hev] at hx
        simp only at hx
        cases hl : S.lookup key v with
        | some rows => rw [hl] at hx; simp at hx
        | none =>
          rw [hl] at hx
          simp only at hx
          have hc : allOk ((runL S Q L (.left site) env fb).take
              (guardNeed L site (parkHead (S.park L.coll value env S.empty) false
                (seekBody S L env key value (runL S Q L (.left site) env fb))) d)) = true := by
            cases hp : S.park L.coll value env S.empty with
            | some e => have h0 := hpark e hp; rw [hp] at h0; rw [h0]; rfl
            | none =>
              rw [hp] at h1
              simpa [parkHead, seekBody, hev, hl, hp] using h1
          rcases List.mem_append.1 hx with hx | hx
          · exact (handed_ok_iff false _).2 hc x hx
          · exact ih _ _ _ hc x hx
  | filter pred inp ih =>
    intro site env d h
    simp only [runL, trace, hd, dropErrT_false] at h ⊢
    exact unaryTrace_ok L site _ (mapT_errFwd _) _ _ _ d (ih _ _) h
  | procedureCall name args inp ih =>
    intro site env d h
    simp only [runL, trace, hq6, hd, dropErrT_false] at h ⊢
    exact parkTrace_ok L site _ (flatMapT_errFwd _) _ _
      (fun s st d' hd' h' => (park_ok_of_never_done _ (flatMapT_errFwd _) (fun _ => rfl) _ _ s st none d' hd' h').2) _ _ _ d (ih _ _) h
  | fixup nulls outer filtered iho ihf =>
    intro site env d h
    simp only [runL, trace, hd, dropErrT_false, eagerPre, Bool.false_eq_true, if_false, Nat.max_zero] at h ⊢
    have h1 := guard_pulled_ok L site _ d h
    split
    · simp
    · rename_i hne
      obtain ⟨d', hd'⟩ := Nat.exists_eq_succ_of_ne_zero hne
      -- the node's first item is `Ok`: none of the three loops failed
      have ho : allOk ((loopT (ρ := ρ) L (.inner site) "OptionalWhereFixup.outer").run ⟨0, 0, false⟩
          (runL S Q L (.left site) env outer)) = true := by
        cases hc : collect ((loopT (ρ := ρ) L (.inner site) "OptionalWhereFixup.outer").run ⟨0, 0, false⟩
            (runL S Q L (.left site) env outer)) with
        | ok rows => exact (collect_ok_iff _).1 ⟨rows, hc⟩
        | error e =>
          rw [hd'] at h1
          simp [fixupBody, hd, dropErrT_false, hc, List.take_succ_cons] at h1
      obtain ⟨orows, hco⟩ := (collect_ok_iff _).2 ho
      have hf : allOk ((loopT (ρ := ρ) L (.inner (.inner site)) "OptionalWhereFixup.filtered").run ⟨0, 0, false⟩
          (runL S Q L (.right site) env filtered)) = true := by
        cases hc : collect ((loopT (ρ := ρ) L (.inner (.inner site)) "OptionalWhereFixup.filtered").run ⟨0, 0, false⟩
            (runL S Q L (.right site) env filtered)) with
        | ok rows => exact (collect_ok_iff _).1 ⟨rows, hc⟩
        | error e =>
          rw [hd'] at h1
          simp [fixupBody, hd, dropErrT_false, hco, hc, List.take_succ_cons] at h1
      have hpo := (loopT (ρ := ρ) L (.inner site) "OptionalWhereFixup.outer").pulled_ok (loopT_errFwd _ _ _) ⟨0, 0, false⟩
        (runL S Q L (.left site) env outer) (driverDemand ((loopT (ρ := ρ) L (.inner site) "OptionalWhereFixup.outer").run ⟨0, 0, false⟩
          (runL S Q L (.left site) env outer))) (allOk_take _ _ ho)
      have hpf := (loopT (ρ := ρ) L (.inner (.inner site)) "OptionalWhereFixup.filtered").pulled_ok (loopT_errFwd _ _ _) ⟨0, 0, false⟩
        (runL S Q L (.right site) env filtered) (driverDemand ((loopT (ρ := ρ) L (.inner (.inner site)) "OptionalWhereFixup.filtered").run ⟨0, 0, false⟩
          (runL S Q L (.right site) env filtered))) (allOk_take _ _ hf)
      rw [ho]
      simp only [if_true]
      intro x hx
      simp only [List.mem_append] at hx
      rcases hx with ((hx | hx) | hx) | hx | hx
      · exact (handed_ok_iff true _).2 h1 x hx
      · exact (handed_ok_iff false _).2 hpo x hx
      · exact iho _ _ _ hpo x hx
      · exact (handed_ok_iff false _).2 hpf x hx
      · exact ihf _ _ _ hpf x hx
  | project projs inp ih =>
    intro site env d h
    simp only [runL, trace, hq6, hd, dropErrT_false] at h ⊢
    exact parkTrace_ok L site _ (mapT_errFwd _) _ _
      (fun s st d' hd' h' => (park_ok_of_never_done _ (mapT_errFwd _) (fun _ => rfl) _ _ s st none d' hd' h').2) _ _ _ d (ih _ _) h
  | distinct inp ih =>
    intro site env d h
    simp only [runL, trace, hq1] at h ⊢
    exact unaryTrace_ok L site _ (distinctT_errFwd S) _ _ _ d (ih _ _) h
  | unwind e alias inp ih =>
    intro site env d h
    simp only [runL, trace, hq6, hd, dropErrT_false] at h ⊢
    exact parkTrace_ok L site _ (flatMapT_errFwd _) _ _
      (fun s st d' hd' h' => (park_ok_of_never_done _ (flatMapT_errFwd _) (fun _ => rfl) _ _ s st none d' hd' h').2) _ _ _ d (ih _ _) h
  | expand kind g inp ih =>
    intro site env d h
    simp only [runL, trace, hd, dropErrT_false] at h ⊢
    exact unaryTrace_ok L site _ (flatMapT_errFwd _) _ _ _ d (ih _ _) h
  | skip n inp ih =>
    intro site env d h
    simp only [runL, trace, hq3] at h ⊢
    cases hw : S.window n env with
    | error e => rw [hw] at h; exact leafTrace_ok L site _ d h
    | ok k => rw [hw] at h; exact unaryTrace_ok L site _ skipT_errFwd _ _ _ d (ih _ _) h
  | limit n inp ih =>
    intro site env d h
    simp only [runL, trace] at h ⊢
    cases hw : S.window n env with
    | error e => rw [hw] at h; exact leafTrace_ok L site _ d h
    | ok k => rw [hw] at h; exact unaryTrace_ok L site _ limitT_errFwd _ _ _ d (ih _ _) h
  | orderBy keys inp ih =>
    intro site env d h
    simp only [runL, trace, hq6] at h ⊢
    exact parkTrace_ok L site _ (orderByT_errFwd S Q hq4 L site env keys) _ _
      (fun s st d' _ h' => park_ok_of_flush_only _ _ s st d' h') _ _ _ d (ih _ _) h
  | aggregate groupBy aggs inp ih =>
    intro site env d h
    simp only [runL, trace, hq6, hd, dropErrT_false] at h ⊢
    exact parkTrace_ok L site _ (aggregateT_errFwd S L site env groupBy aggs) _ _
      (fun s st d' _ h' => park_ok_of_flush_only _ _ s st d' h') _ _ _ d (ih _ _) h
  | union all l r ihl ihr =>
    intro site env d h
    simp only [runL, trace, hq2] at h ⊢
    cases all with
    | true =>
      simp only [if_true] at h ⊢
      have h1 := guard_pulled_ok L site _ d h
      rw [List.take_append] at h1
      simp only [allOk_append, Bool.and_eq_true] at h1
      intro x hx
      simp only [List.mem_append] at hx
      rcases hx with (hx | hx) | hx
      · refine (handed_ok_iff true _).2 ?_ x hx
        rw [List.take_append]; simp [h1.1, h1.2]
      · exact ihl _ _ _ h1.1 x hx
      · exact ihr _ _ _ h1.2 x hx
    | false =>
      simp only [Bool.false_eq_true, if_false] at h ⊢
      obtain ⟨h1, h2⟩ := unary_pulled_ok L site _ (distinctT_errFwd S) [] _ d h
      have h2' := h2
      rw [List.take_append] at h2'
      simp only [allOk_append, Bool.and_eq_true] at h2'
      intro x hx
      simp only [List.mem_append] at hx
      rcases hx with ((hx | hx) | hx) | hx
      · exact (handed_ok_iff true _).2 h1 x hx
      · exact (handed_ok_iff false _).2 h2 x hx
      · exact ihl _ _ _ h2'.1 x hx
      · exact ihr _ _ _ h2'.2 x hx
  | filterExists sub inp ihs ihi =>
    intro site env d h
    simp only [runL, trace, hd, dropErrT_false] at h ⊢
    intro x hx
    rcases List.mem_append.1 hx with hx | hx
    · exact unaryTrace_ok L site _ (flatMapT_errFwd _) _ _ _ d (ihi _ _) h x hx
    · obtain ⟨h1, _⟩ := unary_pulled_ok L site _ (flatMapT_errFwd _) 0 _ d h
      obtain ⟨tr, htr, hxt⟩ := List.mem_flatten.1 hx
      obtain ⟨b, hb, rfl⟩ := List.mem_map.1 htr
      obtain ⟨hb0, hbok⟩ := batches_ok _ 0 _ _ h1 b hb
      refine ihs _ _ 1 ?_ x hxt
      -- the first item of the subquery is `Ok` (or there is none): otherwise the batch starts with an `Err`
      generalize runL S Q L (Site.exec b.1 site) (S.bind env b.2.1) sub = ss at hbok ⊢
      obtain ⟨d', hd'⟩ := Nat.exists_eq_succ_of_ne_zero hb0
      rw [hd'] at hbok
      cases ss with
      | nil => rfl
      | cons y ys =>
        cases y with
        | ok r => simp
        | error e => simp [existsRow, hq5, List.take_succ_cons] at hbok
  | cartesian l r ihl ihr =>
    intro site env d h
    simp only [runL, trace, hd, dropErrT_false, dropErrs_false] at h ⊢
    intro x hx
    rcases List.mem_append.1 hx with hx | hx
    · exact unaryTrace_ok L site _ (flatMapT_errFwd _) _ _ _ d (ihl _ _) h x hx
    · obtain ⟨h1, _⟩ := unary_pulled_ok L site _ (flatMapT_errFwd _) 0 _ d h
      obtain ⟨tr, htr, hxt⟩ := List.mem_flatten.1 hx
      obtain ⟨b, hb, rfl⟩ := List.mem_map.1 htr
      obtain ⟨_, hbok⟩ := batches_ok _ 0 _ _ h1 b hb
      refine ihr _ _ _ ?_ x hxt
      rw [← List.map_take, allOk_map_iff _ (joinItem_isOk S _)] at hbok
      exact hbok
  | apply inp sub ihi ihs =>
    intro site env d h
    simp only [runL, trace, hd, dropErrT_false, dropErrs_false] at h ⊢
    cases ht : L.time (.inner site) 0 with
    | some e => rw [ht] at h; exact leafTrace_ok L site _ d h
    | none =>
      rw [ht] at h
      simp only at h ⊢
      intro x hx
      rcases List.mem_append.1 hx with hx | hx
      · exact unaryTrace_ok L site _ (flatMapT_errFwd _) _ _ _ d (ihi _ _) h x hx
      · obtain ⟨h1, _⟩ := unary_pulled_ok L site _ (flatMapT_errFwd _) 0 _ d h
        obtain ⟨tr, htr, hxt⟩ := List.mem_flatten.1 hx
        obtain ⟨b, hb, rfl⟩ := List.mem_map.1 htr
        obtain ⟨hb0, hbok⟩ := batches_ok _ 0 _ _ h1 b hb
        refine ihs _ _ _ ?_ x hxt
        -- the subquery was collected: an `Err` in it would be the batch's first item
        generalize runL S Q L (Site.exec b.1 site) (S.bind env b.2.1) sub = ss at hbok ⊢
        obtain ⟨d', hd'⟩ := Nat.exists_eq_succ_of_ne_zero hb0
        rw [hd'] at hbok
        cases hs : allOk ss with
        | true => exact allOk_take _ _ hs
        | false =>
          obtain ⟨e, he⟩ := collect_error_of_not_allOk ss hs
          simp [applyRow, he, List.take_succ_cons] at hbok

end

end Nervus.PlanOps
