/-
  Helper lemmas for C32 (node identity allocation).  Core only.
-/
import Nervus.Model.ExtId
namespace Nervus.ExtId

/-! ### what the regenerated table says about the source (re-checked on every build) -/

theorem sites_call_fresh : Generated.extIdSitesCallFresh = true := by decide
theorem fresh_min_one : Generated.extIdFreshMin = 1 := by decide
theorem load_skips_zero : Generated.idmapLoadSkipsZero = true := by decide

theorem allocExt_eq (e : Engine) (t : Txn) (h : Nat) : allocExt e t h = freshExternalId e t h := by
  simp [allocExt, sites_call_fresh]

theorem reopen_eq (e : Engine) : reopen e = { i2e := e.i2e, e2i := e.i2e.filter (· ≠ 0), floor := 1 } := by
  simp [reopen, load_skips_zero]

/-! ### the probe loop -/

theorem next_eq {id : Nat} (h : id + 1 < two64) : next id = id + 1 := by
  unfold next; split <;> omega

theorem probeAux_spec (K : Nat) (hK : K + 1 < two64) : ∀ (f : Nat) (taken : List Nat) (id : Nat),
    taken.length ≤ f → (∀ x ∈ taken, x ≤ K) → id ≤ K + 1 →
    id ≤ probeAux f taken id ∧ probeAux f taken id ≤ K + 1 ∧ probeAux f taken id ∉ taken := by
  intro f
  induction f with
  | zero =>
    intro taken id hl _ hid
    have : taken = [] := List.eq_nil_of_length_eq_zero (by omega)
    subst this
    exact ⟨Nat.le_refl _, hid, by simp⟩
  | succ f ih =>
    intro taken id hl hle hid
    simp only [probeAux]
    by_cases hmem : id ∈ taken
    · rw [if_pos hmem]
      have hidK : id ≤ K := hle id hmem
      have hn : next id = id + 1 := next_eq (by omega)
      have hle' : ∀ x ∈ taken.erase id, x ≤ K := fun x hx => hle x (List.mem_of_mem_erase hx)
      have hlen : (taken.erase id).length ≤ f := by
        have := List.length_erase_of_mem hmem
        omega
      obtain ⟨h1, h2, h3⟩ := ih (taken.erase id) (next id) hlen hle' (by omega)
      refine ⟨by omega, h2, ?_⟩
      intro hin
      apply h3
      exact (List.mem_erase_of_ne (by omega)).2 hin
    · rw [if_neg hmem]
      exact ⟨Nat.le_refl _, hid, hmem⟩

/-- If every id in use is `≤ K` and we start at or below `K+1`, the loop stops at a free id `≤ K+1`
    without ever wrapping round. -/
theorem probe_spec (K : Nat) (hK : K + 1 < two64) (taken : List Nat) (id : Nat)
    (hle : ∀ x ∈ taken, x ≤ K) (hid : id ≤ K + 1) :
    id ≤ probe taken id ∧ probe taken id ≤ K + 1 ∧ probe taken id ∉ taken :=
  probeAux_spec K hK taken.length taken id (Nat.le_refl _) hle hid

/-! ### create_node -/

theorem createNode_ok {e : Engine} {t t' : Txn} {ext iid : Nat} (h : createNode e t ext = .ok (t', iid)) :
    ext ∉ e.e2i ∧ ext ∉ t.exts ∧ iid = e.i2e.length + t.created.length ∧ iid < two32 ∧
      t'.created = t.created ++ [(ext, iid)] := by
  unfold createNode at h
  split at h
  · cases h
  · split at h
    · cases h
    · simp only at h
      split at h
      · cases h
      · injection h with h
        injection h with h1 h2
        subst h1 h2
        exact ⟨by assumption, by assumption, rfl, by omega, rfl⟩

theorem createNode_fresh {e : Engine} {t : Txn} {ext : Nat} (h1 : ext ∉ e.e2i) (h2 : ext ∉ t.exts)
    (h3 : e.i2e.length + t.created.length < two32) :
    createNode e t ext = .ok (⟨t.created ++ [(ext, e.i2e.length + t.created.length)]⟩,
      e.i2e.length + t.created.length) := by
  unfold createNode
  rw [if_neg h1, if_neg h2]
  simp only
  rw [if_neg (by omega)]

/-- what is true of a transaction relative to the engine it runs on -/
structure TxnOk (e : Engine) (t : Txn) : Prop where
  dense : t.iids = List.range' e.i2e.length t.created.length
  nodup : t.exts.Nodup
  disj : ∀ x ∈ t.exts, x ∉ e.e2i

theorem TxnOk.empty (e : Engine) : TxnOk e Txn.empty :=
  ⟨by simp [Txn.iids, Txn.empty], by simp [Txn.exts, Txn.empty], by simp [Txn.exts, Txn.empty]⟩

theorem TxnOk.push {e : Engine} {t : Txn} (h : TxnOk e t) {ext : Nat} (h1 : ext ∉ e.e2i) (h2 : ext ∉ t.exts) :
    TxnOk e ⟨t.created ++ [(ext, e.i2e.length + t.created.length)]⟩ := by
  refine ⟨?_, ?_, ?_⟩
  · have := h.dense
    simp only [Txn.iids] at this ⊢
    rw [List.map_append, this, List.length_append, List.length_singleton, List.range'_concat]
    simp
  · simp only [Txn.exts, List.map_append, List.map_cons, List.map_nil]
    rw [List.nodup_append]
    refine ⟨h.nodup, by simp, ?_⟩
    intro a ha b hb
    simp at hb; subst hb
    intro hab; subst hab
    exact h2 ha
  · intro x hx
    simp only [Txn.exts, List.map_append, List.map_cons, List.map_nil, List.mem_append,
      List.mem_singleton] at hx
    rcases hx with hx | hx
    · exact h.disj x hx
    · subst hx; exact h1

theorem TxnOk.floor {e : Engine} {t : Txn} (h : TxnOk e t) (f : Nat) : TxnOk { e with floor := f } t :=
  ⟨h.dense, h.nodup, h.disj⟩

/-! ### bounds -/

theorem bumpHint_gt (K h : Nat) : K < bumpHint K h := by unfold bumpHint; omega

theorem foldl_bumpHint_ge (hs : List Nat) : ∀ K, K ≤ hs.foldl bumpHint K := by
  induction hs with
  | nil => intro K; exact Nat.le_refl _
  | cons h hs ih => intro K; exact Nat.le_trans (Nat.le_of_lt (bumpHint_gt K h)) (ih _)

theorem bump_ge (K : Nat) (op : Op) : K ≤ bump K op := by
  cases op <;> simp only [bump] <;> first | exact foldl_bumpHint_ge _ _ | omega | exact Nat.le_refl _

theorem peak_ge (ops : List Op) : ∀ K, K ≤ peak K ops := by
  induction ops with
  | nil => intro K; exact Nat.le_refl _
  | cons op ops ih => intro K; exact Nat.le_trans (bump_ge K op) (ih _)

/-- everything the allocator looks at is `≤ K` -/
structure BndET (e : Engine) (t : Txn) (K : Nat) : Prop where
  i2e_le : ∀ x ∈ e.i2e, x ≤ K
  e2i_le : ∀ x ∈ e.e2i, x ≤ K
  txn_le : ∀ x ∈ t.exts, x ≤ K
  floor_le : e.floor ≤ K + 1

theorem BndET.mono {e : Engine} {t : Txn} {K K' : Nat} (h : BndET e t K) (hk : K ≤ K') : BndET e t K' :=
  ⟨fun x hx => Nat.le_trans (h.i2e_le x hx) hk, fun x hx => Nat.le_trans (h.e2i_le x hx) hk,
   fun x hx => Nat.le_trans (h.txn_le x hx) hk, by have := h.floor_le; omega⟩

/-- one allocation: fresh, and the bound moves to `bumpHint K h` -/
theorem fresh_spec {e : Engine} {t : Txn} {K : Nat} (hb : BndET e t K) (h : Nat) (hK : bumpHint K h < two64) :
    let r := freshExternalId e t h
    r.1 ∉ e.e2i ∧ r.1 ∉ t.exts ∧ r.1 ≠ 0 ∧ r.1 ≤ bumpHint K h ∧ r.2.i2e = e.i2e ∧ r.2.e2i = e.e2i ∧
      r.2.floor ≤ bumpHint K h + 1 := by
  simp only [freshExternalId, fresh_min_one]
  have hle : ∀ x ∈ e.e2i ++ t.exts, x ≤ max h K := by
    intro x hx
    rcases List.mem_append.1 hx with hx | hx
    · have := hb.e2i_le x hx; omega
    · have := hb.txn_le x hx; omega
  have hfl := hb.floor_le
  unfold bumpHint at hK ⊢
  have hstart : max (max h e.floor) 1 ≤ max h K + 1 := by omega
  obtain ⟨p1, p2, p3⟩ := probe_spec (max h K) hK _ _ hle hstart
  refine ⟨fun hx => p3 (List.mem_append.2 (Or.inl hx)), fun hx => p3 (List.mem_append.2 (Or.inr hx)),
    by omega, p2, trivial, trivial, ?_⟩
  have : (probe (e.e2i ++ t.exts) (max (max h e.floor) 1) + 1) % two64 ≤
      probe (e.e2i ++ t.exts) (max (max h e.floor) 1) + 1 := Nat.mod_le _ _
  omega

/-- a whole executor call: never fails, keeps the transaction well-formed, and the bound follows `bumpHint` -/
theorem createAll_ok (hs : List Nat) : ∀ (e : Engine) (t : Txn) (K : Nat), TxnOk e t → BndET e t K →
    hs.foldl bumpHint K < two64 → e.i2e.length + t.created.length + hs.length ≤ two32 →
    ∃ e' t', createAll e t hs = (e', t', none) ∧ e'.i2e = e.i2e ∧ e'.e2i = e.e2i ∧ TxnOk e' t' ∧
      BndET e' t' (hs.foldl bumpHint K) ∧ t'.created.length = t.created.length + hs.length ∧
      (∀ x ∈ t'.exts, x ∈ t.exts ∨ x ≠ 0) := by
  induction hs with
  | nil =>
    intro e t K hok hb _ _
    exact ⟨e, t, rfl, rfl, rfl, hok, hb, rfl, fun x hx => Or.inl hx⟩
  | cons h hs ih =>
    intro e t K hok hb hK hv
    simp only [List.foldl_cons] at hK ⊢
    have hK1 : bumpHint K h < two64 := Nat.lt_of_le_of_lt (foldl_bumpHint_ge hs _) hK
    obtain ⟨f1, f2, f3, f4, f5, f6, f7⟩ := fresh_spec hb h hK1
    simp only [List.length_cons] at hv
    have hcn := createNode_fresh (e := (freshExternalId e t h).2) (t := t) (ext := (freshExternalId e t h).1)
      (by rw [f6]; exact f1) f2 (by rw [f5]; omega)
    have hok' : TxnOk (freshExternalId e t h).2
        ⟨t.created ++ [((freshExternalId e t h).1, (freshExternalId e t h).2.i2e.length + t.created.length)]⟩ := by
      apply TxnOk.push
      · exact ⟨by rw [f5]; exact hok.dense, hok.nodup, by rw [f6]; exact hok.disj⟩
      · rw [f6]; exact f1
      · exact f2
    have hb' : BndET (freshExternalId e t h).2
        ⟨t.created ++ [((freshExternalId e t h).1, (freshExternalId e t h).2.i2e.length + t.created.length)]⟩
        (bumpHint K h) := by
      have hlt := Nat.le_of_lt (bumpHint_gt K h)
      refine ⟨fun x hx => ?_, fun x hx => ?_, fun x hx => ?_, f7⟩
      · rw [f5] at hx; exact Nat.le_trans (hb.i2e_le x hx) hlt
      · rw [f6] at hx; exact Nat.le_trans (hb.e2i_le x hx) hlt
      · simp only [Txn.exts, List.map_append, List.map_cons, List.map_nil, List.mem_append,
          List.mem_singleton] at hx
        rcases hx with hx | hx
        · exact Nat.le_trans (hb.txn_le x hx) hlt
        · subst hx; exact f4
    obtain ⟨e', t', h1, h2, h3, h4, h5, h6, h7⟩ := ih _ _ _ hok' hb' hK (by
      simp only [List.length_append, List.length_singleton]; rw [f5]; omega)
    refine ⟨e', t', ?_, by rw [h2, f5], by rw [h3, f6], h4, h5, ?_, ?_⟩
    · simp only [createAll, allocExt_eq]
      rw [hcn]
      exact h1
    · have h6' : t'.created.length = (t.created ++ [((freshExternalId e t h).1,
          (freshExternalId e t h).2.i2e.length + t.created.length)]).length + hs.length := h6
      simp only [List.length_append, List.length_singleton] at h6'
      simp only [List.length_cons]; omega
    · intro x hx
      rcases h7 x hx with hx | hx
      · simp only [Txn.exts, List.map_append, List.map_cons, List.map_nil, List.mem_append,
          List.mem_singleton] at hx
        rcases hx with hx | hx
        · exact Or.inl hx
        · subst hx; exact Or.inr f3
      · exact Or.inr hx

/-! ### commit -/

theorem commitNodes_ok : ∀ (created : List (Nat × Nat)) (e : Engine),
    created.map Prod.snd = List.range' e.i2e.length created.length →
    (created.map Prod.fst).Nodup → (∀ x ∈ created.map Prod.fst, x ∉ e.e2i) →
    commitNodes e created =
      ({ e with i2e := e.i2e ++ created.map Prod.fst, e2i := (created.map Prod.fst).reverse ++ e.e2i }, none) := by
  intro created
  induction created with
  | nil => intro e _ _ _; simp [commitNodes]
  | cons p rest ih =>
    intro e hd hn hdis
    obtain ⟨ext, iid⟩ := p
    simp only [List.map_cons, List.length_cons, List.range'_succ, List.cons.injEq] at hd
    obtain ⟨hiid, hrest⟩ := hd
    simp only [List.map_cons, List.nodup_cons] at hn
    have hext : ext ∉ e.e2i := hdis ext (by simp)
    simp only [commitNodes, applyCreate]
    rw [if_neg (by omega), if_neg hext]
    simp only
    rw [ih]
    · simp [List.append_assoc]
    · simp only [List.length_append, List.length_singleton]; exact hrest
    · exact hn.2
    · intro x hx
      simp only [List.mem_cons, not_or]
      refine ⟨?_, hdis x (by simp [hx])⟩
      intro hxe; subst hxe
      exact hn.1 hx

/-! ### the invariant over histories -/

structure Inv (s : State) : Prop where
  e2i_sub : ∀ x ∈ s.eng.e2i, x ∈ s.eng.i2e
  i2e_sub : ∀ x ∈ s.eng.i2e, x ≠ 0 → x ∈ s.eng.e2i
  nodup : (s.eng.i2e.filter (· ≠ 0)).Nodup
  txn_ok : ∀ t, s.txn = some t → TxnOk s.eng t

theorem Inv.init : Inv State.init :=
  ⟨by simp [State.init, Engine.init], by simp [State.init, Engine.init], by simp [State.init, Engine.init],
   by simp [State.init]⟩

/-- committing a well-formed transaction on an invariant state: the invariant, the new I2E table -/
theorem inv_commit {e : Engine} {t : Txn} (hi : Inv ⟨e, none⟩) (hok : TxnOk e t) :
    Inv ⟨{ e with i2e := e.i2e ++ t.exts, e2i := t.exts.reverse ++ e.e2i }, none⟩ := by
  refine ⟨?_, ?_, ?_, by simp⟩
  · intro x hx
    simp only [List.mem_append, List.mem_reverse] at hx ⊢
    rcases hx with hx | hx
    · exact Or.inr hx
    · exact Or.inl (hi.e2i_sub x hx)
  · intro x hx hne
    simp only [List.mem_append, List.mem_reverse] at hx ⊢
    rcases hx with hx | hx
    · exact Or.inr (hi.i2e_sub x hx hne)
    · exact Or.inl hx
  · simp only [List.filter_append]
    rw [List.nodup_append]
    refine ⟨hi.nodup, hok.nodup.sublist List.filter_sublist, ?_⟩
    intro a ha b hb hab
    subst hab
    simp only [List.mem_filter, decide_eq_true_eq] at ha hb
    exact hok.disj a hb.1 (hi.i2e_sub a ha.1 ha.2)

theorem inv_floor {e : Engine} {tx : Option Txn} (hi : Inv ⟨e, tx⟩) (f : Nat) : Inv ⟨{ e with floor := f }, tx⟩ :=
  ⟨hi.e2i_sub, hi.i2e_sub, hi.nodup, fun t ht => (hi.txn_ok t ht).floor f⟩

theorem inv_reopen {e : Engine} (hi : Inv ⟨e, none⟩) : Inv ⟨reopen e, none⟩ := by
  refine ⟨?_, ?_, hi.nodup, by simp⟩
  · intro x hx
    simp only [reopen_eq, List.mem_filter] at hx
    exact hx.1
  · intro x hx hne
    simp only [reopen_eq, List.mem_filter, decide_eq_true_eq]
    exact ⟨hx, hne⟩

/-- state-level bound -/
structure Bnd (s : State) (K : Nat) : Prop where
  i2e_le : ∀ x ∈ s.eng.i2e, x ≤ K
  e2i_le : ∀ x ∈ s.eng.e2i, x ≤ K
  txn_le : ∀ t, s.txn = some t → ∀ x ∈ t.exts, x ≤ K
  floor_le : s.eng.floor ≤ K + 1

theorem Bnd.init : Bnd State.init 0 :=
  ⟨by simp [State.init, Engine.init], by simp [State.init, Engine.init], by simp [State.init],
   by simp [State.init, Engine.init]⟩

theorem Bnd.mono {s : State} {K K' : Nat} (h : Bnd s K) (hk : K ≤ K') : Bnd s K' :=
  ⟨fun x hx => Nat.le_trans (h.i2e_le x hx) hk, fun x hx => Nat.le_trans (h.e2i_le x hx) hk,
   fun t ht x hx => Nat.le_trans (h.txn_le t ht x hx) hk, by have := h.floor_le; omega⟩

/-- nodes that exist or are staged -/
def nodesOf (s : State) : Nat :=
  s.eng.i2e.length + (match s.txn with | some t => t.created.length | none => 0)

/-- no node has the "none" marker 0 as its external id -/
structure NZ (s : State) : Prop where
  i2e : 0 ∉ s.eng.i2e
  txn : ∀ t, s.txn = some t → 0 ∉ t.exts

theorem NZ.init : NZ State.init := ⟨by simp [State.init, Engine.init], by simp [State.init]⟩

/-- what one step preserves, and where errors can come from -/
structure StepOk (s : State) (K : Nat) (op : Op) : Prop where
  nz : op ≠ .raw 0 → NZ s → NZ (step s op).1
  inv : Inv (step s op).1
  bnd : Bnd (step s op).1 (bump K op)
  pre : s.eng.i2e <+: (step s op).1.eng.i2e
  nodes : nodesOf (step s op).1 ≤ nodesOf s + volume [op]
  out : ∀ e, (step s op).2 = .err e → ∃ x, op = .raw x
  named : ∀ hs, op = .stmt hs ∨ op = .tstmt hs → (step s op).2 = .ok ∨ (step s op).2 = .bad

theorem bndET_of {s : State} {K : Nat} (hb : Bnd s K) (t : Txn) (ht : ∀ x ∈ t.exts, x ≤ K) : BndET s.eng t K :=
  ⟨hb.i2e_le, hb.e2i_le, ht, hb.floor_le⟩

theorem step_stmt (s : State) (K : Nat) (hs : List Nat) (hi : Inv s) (hb : Bnd s K)
    (hK : bump K (.stmt hs) < two64) (hv : nodesOf s + volume [.stmt hs] ≤ two32) : StepOk s K (.stmt hs) := by
  obtain ⟨e, tx⟩ := s
  cases tx with
  | some t =>
    exact ⟨fun _ h => h, hi, hb.mono (bump_ge _ _), List.prefix_refl _, by simp [step, nodesOf, volume], by simp [step],
      by simp [step]⟩
  | none =>
    simp only [bump] at hK
    simp only [nodesOf, volume, Nat.add_zero] at hv
    obtain ⟨e', t', h1, h2, h3, h4, h5, h6, h7⟩ := createAll_ok hs e Txn.empty K (TxnOk.empty e)
      (bndET_of hb Txn.empty (by simp [Txn.exts, Txn.empty])) hK (by simp [Txn.empty]; omega)
    have hcm := commitNodes_ok t'.created e' (by have := h4.dense; simpa [Txn.iids] using this)
      (by have := h4.nodup; simpa [Txn.exts] using this) (by have := h4.disj; simpa [Txn.exts] using this)
    have hstep : step ⟨e, none⟩ (.stmt hs) =
        (⟨{ e' with i2e := e'.i2e ++ t'.exts, e2i := t'.exts.reverse ++ e'.e2i }, none⟩, .ok) := by
      simp only [step, h1, hcm, finish, Txn.exts]
    have hi' : Inv ⟨e', none⟩ := ⟨by rw [h3, h2]; exact hi.e2i_sub, by rw [h3, h2]; exact hi.i2e_sub,
      by rw [h2]; exact hi.nodup, by simp⟩
    refine ⟨?_, ?_, ?_, ?_, ?_, ?_, ?_⟩
    · intro _ hz
      rw [hstep]
      refine ⟨?_, by simp⟩
      intro h0
      rcases List.mem_append.1 h0 with h0 | h0
      · rw [h2] at h0; exact hz.i2e h0
      · rcases h7 0 h0 with h0 | h0
        · simp [Txn.exts, Txn.empty] at h0
        · exact h0 rfl
    · rw [hstep]; exact inv_commit hi' h4
    · rw [hstep]; simp only [bump]
      refine ⟨?_, ?_, by simp, h5.floor_le⟩
      · intro x hx
        rcases List.mem_append.1 hx with hx | hx
        · exact h5.i2e_le x hx
        · exact h5.txn_le x hx
      · intro x hx
        rcases List.mem_append.1 hx with hx | hx
        · exact h5.txn_le x (List.mem_reverse.1 hx)
        · exact h5.e2i_le x hx
    · rw [hstep]; simp only; rw [h2]; exact List.prefix_append _ _
    · rw [hstep]; simp only [nodesOf, volume, List.length_append, Txn.exts, List.length_map, h2, h6, Txn.empty,
        List.length_nil]; omega
    · rw [hstep]; intro e0 h0; cases h0
    · rw [hstep]; intro _ _; exact Or.inl rfl

theorem step_tstmt (s : State) (K : Nat) (hs : List Nat) (hi : Inv s) (hb : Bnd s K)
    (hK : bump K (.tstmt hs) < two64) (hv : nodesOf s + volume [.tstmt hs] ≤ two32) : StepOk s K (.tstmt hs) := by
  obtain ⟨e, tx⟩ := s
  cases tx with
  | none =>
    exact ⟨fun _ h => h, hi, hb.mono (bump_ge _ _), List.prefix_refl _, by simp [step, nodesOf, volume], by simp [step],
      by simp [step]⟩
  | some t =>
    simp only [bump] at hK
    simp only [nodesOf, volume, Nat.add_zero] at hv
    obtain ⟨e', t', h1, h2, h3, h4, h5, h6, h7⟩ := createAll_ok hs e t K (hi.txn_ok t rfl)
      (bndET_of hb t (hb.txn_le t rfl)) hK (by omega)
    have hstep : step ⟨e, some t⟩ (.tstmt hs) = (⟨e', some t'⟩, .ok) := by
      simp only [step, h1]
    refine ⟨?_, ?_, ?_, ?_, ?_, ?_, ?_⟩
    · intro _ hz
      rw [hstep]
      refine ⟨by rw [h2]; exact hz.i2e, ?_⟩
      intro t0 ht0 h0
      cases ht0
      rcases h7 0 h0 with h0 | h0
      · exact hz.txn t rfl h0
      · exact h0 rfl
    · rw [hstep]
      exact ⟨by rw [h3, h2]; exact hi.e2i_sub, by rw [h3, h2]; exact hi.i2e_sub, by rw [h2]; exact hi.nodup,
        by intro t0 ht0; cases ht0; exact h4⟩
    · rw [hstep]; simp only [bump]
      exact ⟨h5.i2e_le, h5.e2i_le, by intro t0 ht0; cases ht0; exact h5.txn_le, h5.floor_le⟩
    · rw [hstep]; simp only; rw [h2]; exact List.prefix_refl _
    · rw [hstep]; simp only [nodesOf, volume, h2, h6]; omega
    · rw [hstep]; intro e0 h0; cases h0
    · rw [hstep]; intro _ _; exact Or.inl rfl

theorem step_commit (s : State) (K : Nat) (hi : Inv s) (hb : Bnd s K) : StepOk s K .commit := by
  obtain ⟨e, tx⟩ := s
  cases tx with
  | none =>
    exact ⟨fun _ h => h, hi, hb, List.prefix_refl _, by simp [step, nodesOf, volume], by simp [step], by simp⟩
  | some t =>
    have hok := hi.txn_ok t rfl
    have hcm := commitNodes_ok t.created e (by have := hok.dense; simpa [Txn.iids] using this)
      (by have := hok.nodup; simpa [Txn.exts] using this) (by have := hok.disj; simpa [Txn.exts] using this)
    have hstep : step ⟨e, some t⟩ .commit =
        (⟨{ e with i2e := e.i2e ++ t.exts, e2i := t.exts.reverse ++ e.e2i }, none⟩, .ok) := by
      simp only [step, hcm, finish, Txn.exts]
    have hi' : Inv ⟨e, none⟩ := ⟨hi.e2i_sub, hi.i2e_sub, hi.nodup, by simp⟩
    refine ⟨?_, ?_, ?_, ?_, ?_, ?_, by simp⟩
    · intro _ hz
      rw [hstep]
      refine ⟨?_, by simp⟩
      intro h0
      rcases List.mem_append.1 h0 with h0 | h0
      · exact hz.i2e h0
      · exact hz.txn t rfl h0
    · rw [hstep]; exact inv_commit hi' hok
    · rw [hstep]; simp only [bump]
      refine ⟨?_, ?_, by simp, hb.floor_le⟩
      · intro x hx
        rcases List.mem_append.1 hx with hx | hx
        · exact hb.i2e_le x hx
        · exact hb.txn_le t rfl x hx
      · intro x hx
        rcases List.mem_append.1 hx with hx | hx
        · exact hb.txn_le t rfl x (List.mem_reverse.1 hx)
        · exact hb.e2i_le x hx
    · rw [hstep]; exact List.prefix_append _ _
    · rw [hstep]; simp [nodesOf, volume, Txn.exts]
    · rw [hstep]; intro e0 h0; cases h0

theorem step_raw (s : State) (K : Nat) (x : Nat) (hi : Inv s) (hb : Bnd s K) : StepOk s K (.raw x) := by
  obtain ⟨e, tx⟩ := s
  cases tx with
  | some t =>
    exact ⟨fun _ h => h, hi, hb.mono (bump_ge _ _), List.prefix_refl _, by simp [step, nodesOf, volume], fun _ _ => ⟨x, rfl⟩,
      by simp⟩
  | none =>
    cases hc : createNode e Txn.empty x with
    | error err =>
      have hstep : step ⟨e, none⟩ (.raw x) = (⟨e, none⟩, .err err) := by simp only [step, hc]
      exact ⟨by rw [hstep]; exact fun _ h => h, by rw [hstep]; exact hi, by rw [hstep]; exact hb.mono (bump_ge _ _), by rw [hstep]; exact List.prefix_refl _,
        by rw [hstep]; simp [nodesOf, volume], fun _ _ => ⟨x, rfl⟩, by simp⟩
    | ok r =>
      obtain ⟨t, iid⟩ := r
      obtain ⟨c1, c2, c3, c4, c5⟩ := createNode_ok hc
      simp only [Txn.empty, List.length_nil, Nat.add_zero, List.nil_append] at c3 c5
      have hok : TxnOk e t := by
        have := TxnOk.push (TxnOk.empty e) c1 c2
        simp only [Txn.empty, List.length_nil, Nat.add_zero, List.nil_append] at this
        rw [← c3] at this
        have ht : t = ⟨[(x, iid)]⟩ := by cases t; simp only at c5; rw [c5]
        rw [ht]; exact this
      have hcm := commitNodes_ok t.created e (by have := hok.dense; simpa [Txn.iids] using this)
        (by have := hok.nodup; simpa [Txn.exts] using this) (by have := hok.disj; simpa [Txn.exts] using this)
      have hstep : step ⟨e, none⟩ (.raw x) =
          (⟨{ e with i2e := e.i2e ++ t.exts, e2i := t.exts.reverse ++ e.e2i }, none⟩, .ok) := by
        simp only [step, hc, hcm, finish, Txn.exts]
      have hx : t.exts = [x] := by simp [Txn.exts, c5]
      refine ⟨?_, ?_, ?_, ?_, ?_, fun _ _ => ⟨x, rfl⟩, by simp⟩
      · intro hne hz
        rw [hstep, hx]
        refine ⟨?_, by simp⟩
        intro h0
        rcases List.mem_append.1 h0 with h0 | h0
        · exact hz.i2e h0
        · simp only [List.mem_singleton] at h0
          exact hne (by rw [← h0])
      · rw [hstep]; exact inv_commit hi hok
      · rw [hstep, hx]; simp only [bump]
        have hfl : e.floor ≤ K + 1 := hb.floor_le
        refine ⟨?_, ?_, by simp, by show e.floor ≤ max x K + 1; omega⟩
        · intro y hy
          rcases List.mem_append.1 hy with hy | hy
          · have := hb.i2e_le y hy; omega
          · simp at hy; omega
        · intro y hy
          simp only [List.reverse_cons, List.reverse_nil, List.nil_append, List.singleton_append,
            List.mem_cons] at hy
          rcases hy with hy | hy
          · omega
          · have := hb.e2i_le y hy; omega
      · rw [hstep]; exact List.prefix_append _ _
      · rw [hstep, hx]; simp [nodesOf, volume]

theorem step_other (s : State) (K : Nat) (op : Op) (hi : Inv s) (hb : Bnd s K)
    (hop : op = .begin ∨ op = .rollback ∨ op = .compact ∨ op = .del ∨ op = .reopen) : StepOk s K op := by
  obtain ⟨e, tx⟩ := s
  have hi0 : Inv ⟨e, none⟩ := ⟨hi.e2i_sub, hi.i2e_sub, hi.nodup, by simp⟩
  rcases hop with h | h | h | h | h <;> subst h <;> cases tx <;>
    first
    | exact ⟨fun _ h => h, hi, hb, List.prefix_refl _, by simp [step, nodesOf, volume], by simp [step], by simp⟩
    | exact ⟨fun _ hz => ⟨hz.i2e, by intro t ht; simp only [step] at ht; cases ht; simp [Txn.exts, Txn.empty]⟩,
        by simp only [step]; exact ⟨hi.e2i_sub, hi.i2e_sub, hi.nodup, by intro t ht; cases ht; exact TxnOk.empty e⟩,
        ⟨hb.i2e_le, hb.e2i_le, by intro t ht; cases ht; simp [Txn.exts, Txn.empty], hb.floor_le⟩,
        List.prefix_refl _, by simp [step, nodesOf, volume, Txn.empty], by simp [step], by simp⟩
    | exact ⟨fun _ hz => ⟨hz.i2e, by simp [step]⟩, by simp only [step]; exact hi0, ⟨hb.i2e_le, hb.e2i_le, by simp [step], hb.floor_le⟩,
        List.prefix_refl _, by simp [step, nodesOf, volume], by simp [step], by simp⟩
    | exact ⟨fun _ hz => ⟨by simp only [step, reopen_eq]; exact hz.i2e, by simp [step]⟩, by simp only [step]; exact inv_reopen hi0,
        ⟨hb.i2e_le, by intro x hx; simp only [step, reopen_eq, List.mem_filter] at hx; exact hb.i2e_le x hx.1,
          by simp [step], by simp [step, reopen_eq]⟩,
        List.prefix_refl _, by simp [step, nodesOf, volume, reopen_eq], by simp [step], by simp⟩

theorem step_ok (s : State) (K : Nat) (op : Op) (hi : Inv s) (hb : Bnd s K)
    (hK : bump K op < two64) (hv : nodesOf s + volume [op] ≤ two32) : StepOk s K op := by
  cases op with
  | stmt hs => exact step_stmt s K hs hi hb hK hv
  | tstmt hs => exact step_tstmt s K hs hi hb hK hv
  | commit => exact step_commit s K hi hb
  | raw x => exact step_raw s K x hi hb
  | begin => exact step_other s K _ hi hb (by simp)
  | rollback => exact step_other s K _ hi hb (by simp)
  | compact => exact step_other s K _ hi hb (by simp)
  | del => exact step_other s K _ hi hb (by simp)
  | reopen => exact step_other s K _ hi hb (by simp)

theorem volume_cons (op : Op) (ops : List Op) : volume (op :: ops) = volume [op] + volume ops := by
  cases op <;> simp [volume]

/-- the run-level statement: by induction over the history -/
theorem run_ok (ops : List Op) : ∀ (s : State) (K : Nat), Inv s → Bnd s K → peak K ops < two64 →
    nodesOf s + volume ops ≤ two32 →
    Inv (run s ops) ∧ Bnd (run s ops) (peak K ops) ∧ nodesOf (run s ops) ≤ nodesOf s + volume ops ∧
      s.eng.i2e <+: (run s ops).eng.i2e ∧
      ((∀ op ∈ ops, op ≠ .raw 0) → NZ s → NZ (run s ops)) ∧
      (∀ p ∈ trace s ops, (∀ e, p.2 = .err e → ∃ x, p.1 = .raw x) ∧
        (∀ hs, p.1 = .stmt hs ∨ p.1 = .tstmt hs → p.2 = .ok ∨ p.2 = .bad)) := by
  induction ops with
  | nil => intro s K hi hb _ _; exact ⟨hi, hb, by simp [run, volume], List.prefix_refl _, fun _ h => h, by simp [trace]⟩
  | cons op ops ih =>
    intro s K hi hb hK hv
    simp only [peak, List.foldl_cons] at hK
    have hK1 : bump K op < two64 := Nat.lt_of_le_of_lt (peak_ge ops _) hK
    rw [volume_cons] at hv
    have st := step_ok s K op hi hb hK1 (by omega)
    obtain ⟨i1, i2, i3, i4, i5, i6⟩ := ih (step s op).1 (bump K op) st.inv st.bnd hK (by have := st.nodes; omega)
    refine ⟨i1, i2, ?_, List.IsPrefix.trans st.pre i4, ?_, ?_⟩
    · rw [volume_cons]; have := st.nodes; simp only [run]; omega
    · intro hno hz
      exact i5 (fun o ho => hno o (List.mem_cons_of_mem _ ho)) (st.nz (hno op (List.mem_cons_self ..)) hz)
    · intro p hp
      simp only [trace, List.mem_cons] at hp
      rcases hp with hp | hp
      · subst hp; exact ⟨st.out, st.named⟩
      · exact i6 p hp

theorem run_append (pre post : List Op) : ∀ s, run s (pre ++ post) = run (run s pre) post := by
  induction pre with
  | nil => intro s; rfl
  | cons op pre ih => intro s; simp only [List.cons_append, run]; exact ih _

theorem volume_append (pre post : List Op) : volume (pre ++ post) = volume pre + volume post := by
  induction pre with
  | nil => simp [volume]
  | cons op pre ih => rw [List.cons_append, volume_cons, volume_cons op pre, ih]; omega

theorem peak_append (K : Nat) (pre post : List Op) : peak K (pre ++ post) = peak (peak K pre) post := by
  simp [peak, List.foldl_append]

/-! ### prefix facts used by the property statements -/

theorem getElem?_of_prefix {l₁ l₂ : List Nat} (h : l₁ <+: l₂) {k : Nat} (hk : k < l₁.length) :
    l₂[k]? = l₁[k]? := by
  obtain ⟨t, rfl⟩ := h
  rw [List.getElem?_append_left hk]

end Nervus.ExtId
