/-
  Proofs/BulkInterner.lean — the label table of the transactional load is the label table the bulk loader
  builds (same names, same ids): node labels in node order, then relationship types in edge order (C30).
-/
import Nervus.Proofs.BulkTx
namespace Nervus.Storage
open Nervus.GraphSpec (TxOp Op)

/-- the names a staged write interns -/
def opNames : TxOp → List Nat
  | .node _ (some l) => [l]
  | .node _ none => []
  | .labelAdd _ l => [l]
  | .labelDel _ l => [l]
  | .edge _ t _ => [t]
  | .tombEdge _ t _ => [t]
  | .eprop _ t _ _ _ => [t]
  | .epropDel _ t _ _ => [t]
  | _ => []

theorem gocl_interner (s : Engine) (l : Nat) : (s.getOrCreateLabel l).1.interner = internName s.interner l := by
  unfold Engine.getOrCreateLabel internName
  cases s.interner.getId l <;> rfl

theorem stepTx_interner (c : Cfg) (st : Engine × Txn) (op : TxOp) :
    (stepTx c st op).1.interner = (opNames op).foldl internName st.1.interner := by
  cases op with
  | node x lab =>
    have hi : (internLabel st.1 lab).1.interner = (opNames (.node x lab)).foldl internName st.1.interner := by
      cases lab with
      | none => rfl
      | some l => exact gocl_interner st.1 l
    simp only [stepTx]
    split <;> exact hi
  | labelAdd n l => exact gocl_interner st.1 l
  | labelDel n l => exact gocl_interner st.1 l
  | edge a l b => exact gocl_interner st.1 l
  | tombNode n => rfl
  | tombEdge a l b => exact gocl_interner st.1 l
  | nprop n k v => rfl
  | npropDel n k => rfl
  | eprop a l b k v => exact gocl_interner st.1 l
  | epropDel a l b k => exact gocl_interner st.1 l
  | vec n v =>
    show (st.2.setVector c st.1 n v).1.interner = _
    unfold Txn.setVector; split <;> rfl

theorem fold_interner (c : Cfg) (ops : List TxOp) : ∀ st : Engine × Txn,
    (ops.foldl (stepTx c) st).1.interner = (ops.flatMap opNames).foldl internName st.1.interner := by
  induction ops with
  | nil => intro st; rfl
  | cons op ops ih =>
    intro st
    rw [List.foldl_cons, ih, stepTx_interner, List.flatMap_cons, List.foldl_append]

theorem runTx_interner (c : Cfg) (s : Engine) (ops : List TxOp) (b : Bool) :
    (runTx c s ops b).interner = (ops.flatMap opNames).foldl internName s.interner := by
  unfold runTx
  have h := fold_interner c ops s.beginWrite
  cases b with
  | true =>
    simp only [if_true]
    have : ∀ (x : Engine) (t : Txn), (x.commit c t).1.interner = x.interner := by
      intro x t; unfold Engine.commit; split <;> rfl
    rw [this]; exact h
  | false => exact h

/-- interning a name that is in the table changes nothing -/
theorem internName_of_mem (t : Interner) (nm : Nat) (h : nm ∈ t) : internName t nm = t := by
  unfold internName
  cases hg : t.getId nm with
  | some _ => rfl
  | none => exact absurd h ((getId_none_iff t nm).mp hg)

theorem fold_replicate_same (t : Interner) (nm : Nat) (k : Nat) :
    (List.replicate k nm).foldl internName (internName t nm) = internName t nm := by
  induction k with
  | zero => rfl
  | succ k ih =>
    rw [List.replicate_succ, List.foldl_cons, internName_of_mem _ _ (internName_mem t nm)]
    exact ih

theorem txLoad_names (ns : List BulkNode) (es : List BulkEdge) : ∀ t : Interner,
    ((txLoad ns es).flatMap opNames).foldl internName t =
      (es.map (·.rel)).foldl internName ((ns.map (·.label)).foldl internName t) := by
  intro t
  rw [txLoad_eq, List.flatMap_append, List.foldl_append]
  have hnodes : ∀ (b : Nat) (l : List BulkNode) (t : Interner),
      ((nodeOpsFrom b l).flatMap opNames).foldl internName t = (l.map (·.label)).foldl internName t := by
    intro b l
    induction l generalizing b with
    | nil => intro t; rfl
    | cons n l ih =>
      intro t
      have hops : nodeOpsFrom b (n :: l) =
          (TxOp.node n.ext (some n.label) :: propOps b n.props) ++ nodeOpsFrom (b + 1) l := by
        unfold nodeOpsFrom; rw [List.zipIdx_cons, List.flatMap_cons]
      have hp : (propOps b n.props).flatMap opNames = [] := by
        unfold propOps
        induction n.props with
        | nil => rfl
        | cons kv kvs ihp => simp only [List.map_cons, List.flatMap_cons, ihp]; rfl
      rw [hops, List.flatMap_append, List.foldl_append, List.flatMap_cons, hp, List.append_nil]
      show ((nodeOpsFrom (b + 1) l).flatMap opNames).foldl internName (internName t n.label) = _
      rw [ih]; rfl
  have hedges : ∀ (l : List BulkEdge) (t : Interner),
      ((edgeOps ns l).flatMap opNames).foldl internName t = (l.map (·.rel)).foldl internName t := by
    intro l
    induction l with
    | nil => intro t; rfl
    | cons e l ih =>
      intro t
      unfold edgeOps
      rw [List.flatMap_cons, List.flatMap_append, List.foldl_append, List.flatMap_cons]
      have hp : (e.props.map (fun kv => TxOp.eprop (bulkIid ns e.src) e.rel (bulkIid ns e.dst) kv.1 kv.2)).flatMap opNames =
          List.replicate e.props.length e.rel := by
        induction e.props with
        | nil => rfl
        | cons kv kvs ihp => simp only [List.map_cons, List.flatMap_cons, ihp, List.length_cons, List.replicate_succ]; rfl
      rw [hp]
      show (_ : List Nat).foldl internName ((List.replicate e.props.length e.rel).foldl internName (internName t e.rel)) = _
      rw [fold_replicate_same]
      exact ih _
  rw [hnodes, hedges]

/-- **same label table**: the database that committed the transactional load and the bulk loader number
    labels and relationship types alike -/
theorem txLoad_interner (c : Cfg) (ns : List BulkNode) (es : List BulkEdge) :
    (runTx c {} (txLoad ns es) true).interner = bulkInterner ns es := by
  rw [runTx_interner, txLoad_names]; rfl

end Nervus.Storage
