/-
  Proofs.CrashNodes — applying created nodes to the node table (`IdMap::apply_create_node`, used by
  commit and by recovery): after every prefix of its I/O steps, every power-loss image of the page
  file holds a prefix of the node list that recovery completes from the log.
-/
import Nervus.Proofs.CrashRep
namespace Nervus.Crash

/-- `b` differs from `a` only in counters that recovery does not look at (and `nextPage` grows) -/
structure SameKey (a b : Meta) : Prop where
  init : b.init = a.init
  catRoot : b.catRoot = a.catRoot
  start : b.i2eStart = a.i2eStart
  len : b.i2eLen = a.i2eLen
  np : a.nextPage ≤ b.nextPage

theorem SameKey.refl (a : Meta) : SameKey a a := ⟨rfl, rfl, rfl, rfl, Nat.le_refl _⟩

theorem SameKey.trans {a b c : Meta} (h1 : SameKey a b) (h2 : SameKey b c) : SameKey a c :=
  ⟨h2.init.trans h1.init, h2.catRoot.trans h1.catRoot, h2.start.trans h1.start, h2.len.trans h1.len,
    Nat.le_trans h1.np h2.np⟩

theorem OKhdr.sameKey {c k : Nat} {p0 : PImg} {a b : Meta} (h : OKhdr c p0 k a) (s : SameKey a b) :
    OKhdr c p0 k b :=
  ⟨s.init.trans h.init, s.catRoot.trans h.catRoot, by rw [s.start, s.len]; exact h.start,
    by rw [s.len]; exact h.lo, by rw [s.len]; exact h.hi, Nat.le_trans h.nextPage s.np⟩

/-- a block of actions that does not fail and whose I/O steps are all harmless for class `k` -/
structure HBlock (c : Nat) (p0 : PImg) (k : Nat) (acts : List Action) : Prop where
  nofail : failOf acts = none
  steps : ∀ s ∈ ioSteps acts, HStep c p0 k s

theorem HBlock.append {c k : Nat} {p0 : PImg} {a b : List Action} (ha : HBlock c p0 k a) (hb : HBlock c p0 k b) :
    HBlock c p0 k (a ++ b) where
  nofail := by rw [failOf_append, ha.nofail]; simpa using hb.nofail
  steps := by
    rw [ioSteps_append_noFail _ _ ha.nofail]
    intro s hs
    rcases List.mem_append.mp hs with h | h
    · exact ha.steps s h
    · exact hb.steps s h

theorem HBlock.mem {c k : Nat} {p0 : PImg} (u : MemUpd) : HBlock c p0 k [memA u] :=
  ⟨rfl, by simp [ioSteps]⟩

theorem HBlock.nil {c k : Nat} {p0 : PImg} : HBlock c p0 k [] := ⟨rfl, by simp [ioSteps]⟩

def flushSteps (pm : Meta) (bm : Nat) : List Step := [.pg (.hdr pm) 0, .pg (.bitmap bm) 1, .ps]

theorem ioSteps_flushA (pm : Meta) (bm : Nat) : ioSteps (flushA pm bm) = flushSteps pm bm := rfl

theorem hblock_flush {c k : Nat} {p0 : PImg} {pm : Meta} {bm : Nat} (h : OKhdr c p0 k pm) (hb : p0.bm ≤ bm) :
    HBlock c p0 k (flushA pm bm) where
  nofail := rfl
  steps := by
    intro s hs
    simp [ioSteps_flushA, flushSteps] at hs
    rcases hs with rfl | rfl | rfl <;> simp [HStep, h, hb]

/-- the actions end with a flush of the meta page `pm` and the bitmap `bm` -/
def EndsFlushed (acts : List Action) (pm : Meta) (bm : Nat) : Prop := ∃ pre, ioSteps acts = pre ++ flushSteps pm bm

theorem endsFlushed_flush (pm : Meta) (bm : Nat) : EndsFlushed (flushA pm bm) pm bm := ⟨[], rfl⟩

theorem endsFlushed_append {a b : List Action} {pm : Meta} {bm : Nat} (ha : failOf a = none) (hb : EndsFlushed b pm bm) :
    EndsFlushed (a ++ b) pm bm := by
  obtain ⟨pre, h⟩ := hb
  exact ⟨ioSteps a ++ pre, by rw [ioSteps_append_noFail _ _ ha, h, List.append_assoc]⟩

theorem endsFlushed_append_mem {a : List Action} {pm : Meta} {bm : Nat} (u : MemUpd) (ha : EndsFlushed a pm bm)
    (hf : failOf a = none) : EndsFlushed (a ++ [memA u]) pm bm := by
  obtain ⟨pre, h⟩ := ha
  exact ⟨pre, by rw [ioSteps_append_noFail _ _ hf, h]; simp [ioSteps]⟩

theorem applyEffs_append (a b : List PEff) (p : PImg) : applyEffs (a ++ b) p = applyEffs b (applyEffs a p) := by
  simp [applyEffs, List.foldl_append]

/-- after a flush nothing is unsynced and the durable meta page is the one just written -/
theorem steps_flushed (fs : FS) (S : List Step) (pm : Meta) (bm : Nat) (h : ∃ pre, S = pre ++ flushSteps pm bm) :
    (fs.steps S).pj = [] ∧ (fs.steps S).pd.hdr = pm ∧ (fs.steps S).pd.bm = bm := by
  obtain ⟨pre, rfl⟩ := h
  rw [steps_append]
  generalize fs.steps pre = g
  simp [flushSteps, FS.steps, FS.step, FS.pv, applyEffs_append, applyEffs, applyEff]

/-! ### ensure / alloc / start -/

theorem hblock_setLen {c k : Nat} {p0 : PImg} (n pid : Nat) : HBlock c p0 k [ioA (.pg (.setLen n) pid)] :=
  ⟨rfl, by simp [ioSteps, HStep]⟩

theorem ensureA_bm (ps : PS) (pid : Nat) : ps.bm ≤ (ensureA ps pid).2.bm := by
  unfold ensureA
  show ps.bm ≤ (if pid < ps.bm then ps.bm else pid + 1)
  split <;> omega

theorem ensureA_spec {c k : Nat} {p0 : PImg} (ps : PS) (pid : Nat) (h : OKhdr c p0 k ps.pm) (hb : p0.bm ≤ ps.bm) :
    HBlock c p0 k (ensureA ps pid).1 ∧ SameKey ps.pm (ensureA ps pid).2.pm ∧
      EndsFlushed (ensureA ps pid).1 (ensureA ps pid).2.pm (ensureA ps pid).2.bm := by
  have hb' : p0.bm ≤ (if pid < ps.bm then ps.bm else pid + 1) := Nat.le_trans hb (by split <;> omega)
  unfold ensureA
  by_cases hg : ps.pm.nextPage ≤ pid
  · have hs : SameKey ps.pm { ps.pm with nextPage := pid + 1 } := ⟨rfl, rfl, rfl, rfl, by simp; omega⟩
    by_cases he : ps.len < pid + 1
    · simp only [hg, he, if_true]
      exact ⟨(((HBlock.mem _).append (HBlock.mem _)).append (hblock_setLen _ _)).append (hblock_flush (h.sameKey hs) hb'), hs,
        ⟨[.pg (.setLen (pid + 1)) (pid + 1)], rfl⟩⟩
    · simp only [hg, he, if_true, if_false]
      exact ⟨(((HBlock.mem _).append (HBlock.mem _)).append HBlock.nil).append (hblock_flush (h.sameKey hs) hb'), hs, ⟨[], rfl⟩⟩
  · by_cases he : ps.len < pid + 1
    · simp only [hg, he, if_true, if_false]
      exact ⟨((HBlock.nil.append (HBlock.mem _)).append (hblock_setLen _ _)).append (hblock_flush h hb'), SameKey.refl _,
        ⟨[.pg (.setLen (pid + 1)) (pid + 1)], rfl⟩⟩
    · simp only [hg, he, if_false]
      exact ⟨((HBlock.nil.append (HBlock.mem _)).append HBlock.nil).append (hblock_flush h hb'), SameKey.refl _, ⟨[], rfl⟩⟩

theorem allocA_pid (ps : PS) : (allocA ps).2.2 = min ps.bm ps.pm.nextPage := by
  unfold allocA
  show (if ps.bm < ps.pm.nextPage then ps.bm else ps.pm.nextPage) = _
  split <;> omega

theorem allocA_bm (ps : PS) : ps.bm ≤ (allocA ps).2.1.bm := by
  unfold allocA
  exact ensureA_bm _ _

theorem allocA_spec {c k : Nat} {p0 : PImg} (ps : PS) (h : OKhdr c p0 k ps.pm) (hb : p0.bm ≤ ps.bm) :
    HBlock c p0 k (allocA ps).1 ∧ SameKey ps.pm (allocA ps).2.1.pm ∧
      EndsFlushed (allocA ps).1 (allocA ps).2.1.pm (allocA ps).2.1.bm := by
  unfold allocA
  by_cases hh : ps.bm < ps.pm.nextPage
  · simp only [hh, if_true]
    obtain ⟨hbk, hk, he⟩ := ensureA_spec (c := c) (k := k) (p0 := p0) { ps with pm := ps.pm } ps.bm h hb
    refine ⟨(HBlock.mem _).append hbk, hk, ?_⟩
    have := endsFlushed_append (a := [memA (.setPm ps.pm)]) rfl he
    simpa using this
  · simp only [hh, if_false]
    have hs : SameKey ps.pm { ps.pm with nextPage := ps.pm.nextPage + 1 } := ⟨rfl, rfl, rfl, rfl, by simp⟩
    obtain ⟨hbk, hk, he⟩ := ensureA_spec (c := c) (k := k) (p0 := p0)
      { ps with pm := { ps.pm with nextPage := ps.pm.nextPage + 1 } } ps.pm.nextPage (h.sameKey hs) hb
    refine ⟨(HBlock.mem _).append hbk, hs.trans hk, ?_⟩
    have := endsFlushed_append (a := [memA (.setPm { ps.pm with nextPage := ps.pm.nextPage + 1 })]) rfl he
    simpa using this

/-- nothing is unsynced; the durable meta page and bitmap equal the in-memory ones -/
def Synced (fs : FS) (ps : PS) : Prop := fs.pj = [] ∧ fs.pd.hdr = ps.pm ∧ fs.pd.bm = ps.bm

/-- nothing that matters is unsynced; the in-memory meta page and bitmap are those of the file or
    ahead of them in the allocation frontier only (after a failed allocation) -/
def SyncedI (fs : FS) (ps : PS) : Prop := Inert fs.pj ∧ SameKey fs.pd.hdr ps.pm ∧ fs.pd.bm ≤ ps.bm

theorem Synced.toI {fs : FS} {ps : PS} (h : Synced fs ps) : SyncedI fs ps :=
  ⟨by rw [h.1]; exact inert_nil, by rw [h.2.1]; exact SameKey.refl _, by rw [h.2.2]; exact Nat.le_refl _⟩

theorem synced_of_endsFlushed {fs : FS} {acts : List Action} {ps : PS} (h : EndsFlushed acts ps.pm ps.bm) :
    Synced (fs.steps (ioSteps acts)) ps := steps_flushed fs _ ps.pm ps.bm h

theorem safeAlong_mono {P Q : FS → Prop} {fs : FS} {S : List Step} (h : SafeAlong P fs S)
    (hpq : ∀ fs, P fs → Q fs) : SafeAlong Q fs S := fun n => hpq _ (h n)

theorem startA_spec {c k : Nat} {p0 : PImg} (ps : PS) (id : IdSt) (h : OKhdr c p0 k ps.pm)
    (hz : id.start = 0 → ps.pm.i2eLen = 0) (hid : id.start = ps.pm.i2eStart) (hnp : 1 ≤ ps.pm.nextPage)
    (hbm : p0.bm ≤ ps.bm) (h1 : 1 ≤ p0.bm) :
    HBlock c p0 k (startA ps id).1 ∧ OKhdr c p0 k (startA ps id).2.1.pm ∧
      (startA ps id).2.1.pm.i2eLen = ps.pm.i2eLen ∧ (startA ps id).2.1.pm.i2eStart = (startA ps id).2.2 ∧
      (startA ps id).2.2 ≠ 0 ∧ 1 ≤ (startA ps id).2.1.pm.nextPage ∧
      (∀ fs, Synced fs ps → Synced (fs.steps (ioSteps (startA ps id).1)) (startA ps id).2.1) := by
  unfold startA
  by_cases hs : id.start = 0
  · simp only [hs, if_true]
    obtain ⟨hb, hk, he⟩ := allocA_spec (c := c) (k := k) (p0 := p0) ps h hbm
    have hbm' : p0.bm ≤ (allocA ps).2.1.bm := Nat.le_trans hbm (allocA_bm ps)
    have hlen0 : (allocA ps).2.1.pm.i2eLen = 0 := by rw [hk.len]; exact hz hs
    have hok : OKhdr c p0 k { (allocA ps).2.1.pm with i2eStart := (allocA ps).2.2 } := by
      have h1 := h.sameKey hk
      exact ⟨h1.init, h1.catRoot, fun _ => hlen0, h1.lo, h1.hi, h1.nextPage⟩
    refine ⟨?_, hok, ?_, ?_, ?_, ?_, ?_⟩
    · exact ((hb.append (HBlock.mem _)).append (hblock_flush hok hbm')).append (HBlock.mem _)
    · show (allocA ps).2.1.pm.i2eLen = _
      exact hk.len
    · first | rfl | trivial
    · rw [allocA_pid]; omega
    · show 1 ≤ (allocA ps).2.1.pm.nextPage
      exact Nat.le_trans hnp hk.np
    · intro fs _
      apply synced_of_endsFlushed
      apply endsFlushed_append_mem
      · exact endsFlushed_append ((hb.append (HBlock.mem _)).nofail) (endsFlushed_flush _ _)
      · exact ((hb.append (HBlock.mem _)).append (hblock_flush hok hbm')).nofail
  · simp only [hs, if_false]
    refine ⟨HBlock.nil, h, ?_, hid.symm, hs, hnp, ?_⟩
    · first | rfl | trivial
    · intro fs hsy
      simpa [ioSteps, FS.steps] using hsy

theorem startA_bm (ps : PS) (id : IdSt) : ps.bm ≤ (startA ps id).2.1.bm := by
  unfold startA
  by_cases hs : id.start = 0
  · simp only [hs, if_true]; exact allocA_bm ps
  · simp only [hs, if_false]; exact Nat.le_refl _

theorem nodeA_bm (cfg : Cfg) (ps : PS) (id : IdSt) (x : Nat) : ps.bm ≤ (nodeA cfg ps id x).2.1.bm := by
  show ps.bm ≤ (ensureA (startA ps id).2.1 (startA ps id).2.2).2.bm
  exact Nat.le_trans (startA_bm ps id) (ensureA_bm _ _)

theorem nodesA_bm (cfg : Cfg) : ∀ (xs : List Nat) (ps : PS) (id : IdSt), ps.bm ≤ (nodesA cfg ps id xs).2.1.bm
  | [], _, _ => Nat.le_refl _
  | x :: xs, ps, id => Nat.le_trans (nodeA_bm cfg ps id x) (nodesA_bm cfg xs _ _)

theorem ng_slot_succ {N : List Nat} {c k : Nat} {p0 p : PImg} (h : NG N c p0 k p) (x : Nat)
    (hx : x = getSlot N k) : NG N c p0 (k + 1) (applyEff (.slot k x) p) := by
  have hf := h.frame
  refine ⟨⟨hf.segs, hf.trees, hf.cat, hf.idx, hf.init, hf.catRoot, hf.len, hf.nextPage, hf.bm⟩,
    h.start, h.lo, Nat.le_succ_of_le h.hi, ?_⟩
  intro i hi
  show getSlot (setSlot p.i2e k x) i = _
  by_cases hik : i = k
  · subst hik; rw [getSlot_setSlot_eq, hx]
  · rw [getSlot_setSlot_ne _ _ _ _ hik]; exact h.slots i (by omega)

/-- **one node applied**: every prefix of the I/O steps of `apply_create_node` leaves every
    power-loss image with a node table that recovery can complete; at the end the node is counted. -/
theorem nodeA_safe {cfg : Cfg} {N : List Nat} {c k : Nat} {p0 : PImg} (b0 : Booted p0)
    (hsync : cfg.syncSlot = true) (fs : FS) (ps : PS) (id : IdSt) (x : Nat)
    (hB : AllImgs fs (NG N c p0 k)) (hS : SyncedI fs ps) (hpm : OKhdr c p0 k ps.pm)
    (hlen : ps.pm.i2eLen = k) (hidl : id.len = k) (hids : id.start = ps.pm.i2eStart)
    (hnp : 1 ≤ ps.pm.nextPage) (hk : k < N.length) (hx : x = getSlot N k) (hck : c ≤ k) (hbm : p0.bm ≤ ps.bm) :
    failOf (nodeA cfg ps id x).1 = none ∧
    SafeAlong (fun fs => AllImgs fs (fun p => PagerOK N c p ∧ Frame p0 p)) fs (ioSteps (nodeA cfg ps id x).1) ∧
    AllImgs (fs.steps (ioSteps (nodeA cfg ps id x).1)) (NG N c p0 (k + 1)) ∧
    Synced (fs.steps (ioSteps (nodeA cfg ps id x).1)) (nodeA cfg ps id x).2.1 ∧
    OKhdr c p0 (k + 1) (nodeA cfg ps id x).2.1.pm ∧
    (nodeA cfg ps id x).2.1.pm.i2eLen = k + 1 ∧ (nodeA cfg ps id x).2.2.len = k + 1 ∧
    (nodeA cfg ps id x).2.2.start = (nodeA cfg ps id x).2.1.pm.i2eStart ∧
    1 ≤ (nodeA cfg ps id x).2.1.pm.nextPage := by
  have hz : id.start = 0 → ps.pm.i2eLen = 0 := fun h0 => hpm.start (hids ▸ h0)
  obtain ⟨hb0, ok0, len0, st0, ne0, np0, sy0⟩ := startA_spec (c := c) (k := k) (p0 := p0) ps id hpm hz hids hnp hbm (by have := b0.bm; omega)
  obtain ⟨hb1, sk1, ef1⟩ := ensureA_spec (c := c) (k := k) (p0 := p0) (startA ps id).2.1 (startA ps id).2.2 ok0 (Nat.le_trans hbm (startA_bm ps id))
  -- names
  let r0 := startA ps id
  let r1 := ensureA r0.2.1 r0.2.2
  let pm1 : Meta := { r1.2.pm with i2eLen := k + 1 }
  let pm2 : Meta := { pm1 with nextInt := k + 1 }
  have hok1 : OKhdr c p0 (k + 1) pm1 := by
    have h1 := ok0.sameKey sk1
    refine ⟨h1.init, h1.catRoot, ?_, ?_, ?_, h1.nextPage⟩
    · intro h0
      exfalso
      apply ne0
      have : r1.2.pm.i2eStart = 0 := h0
      rw [sk1.start] at this
      rw [← st0]; exact this
    · show c ≤ k + 1
      omega
    · show k + 1 ≤ k + 1
      omega
  have hbm1 : p0.bm ≤ r1.2.bm := Nat.le_trans hbm (Nat.le_trans (startA_bm ps id) (ensureA_bm _ _))
  have hok2 : OKhdr c p0 (k + 1) pm2 := hok1.sameKey ⟨rfl, rfl, rfl, rfl, Nat.le_refl _⟩
  have hA : HBlock c p0 k (r0.1 ++ r1.1) := hb0.append hb1
  -- the action list
  have hacts : (nodeA cfg ps id x).1 =
      (r0.1 ++ r1.1) ++ ([ioA (.pg (.slot k x) r0.2.2), ioA .ps] ++
        (([memA .incIdLen, memA (.setPm pm1)] ++ flushA pm1 r1.2.bm) ++ (([memA (.setPm pm2)] ++ flushA pm2 r1.2.bm) ++ [memA (.pushExt x)]))) := by
    simp [nodeA, hsync, hidl, r0, r1, pm1, pm2]
  have hF1 : HBlock c p0 (k + 1) ([memA .incIdLen, memA (.setPm pm1)] ++ flushA pm1 r1.2.bm) :=
    (⟨rfl, by simp [ioSteps]⟩ : HBlock c p0 (k + 1) [memA .incIdLen, memA (.setPm pm1)]).append (hblock_flush hok1 hbm1)
  have hF2 : HBlock c p0 (k + 1) (([memA (.setPm pm2)] ++ flushA pm2 r1.2.bm) ++ [memA (.pushExt x)]) :=
    ((HBlock.mem _).append (hblock_flush hok2 hbm1)).append (HBlock.mem _)
  have hsteps : ioSteps (nodeA cfg ps id x).1 =
      ioSteps (r0.1 ++ r1.1) ++ ([.pg (.slot k x) r0.2.2, .ps] ++ (flushSteps pm1 r1.2.bm ++ flushSteps pm2 r1.2.bm)) := by
    rw [hacts, ioSteps_append_noFail _ _ hA.nofail]
    simp [ioSteps, flushA, flushSteps]
  -- stage A: harmless steps for class k
  have sA := harmless_block (N := N) (ioSteps (r0.1 ++ r1.1)) fs hB hA.steps
  have hBA : AllImgs (fs.steps (ioSteps (r0.1 ++ r1.1))) (NG N c p0 k) := safeAlong_last sA
  generalize hfsA : fs.steps (ioSteps (r0.1 ++ r1.1)) = fsA at hBA
  -- slot write, sync
  have hBB : AllImgs (fsA.step (.pg (.slot k x) r0.2.2)) (NG N c p0 k) :=
    allImgs_hstep fsA _ hBA (by simp [HStep])
  have hBC : AllImgs ((fsA.step (.pg (.slot k x) r0.2.2)).step .ps) (NG N c p0 (k + 1)) := by
    apply allImgs_ps
    rw [pv_step_pg]
    exact ng_slot_succ (allImgs_pv fsA _ hBA) x hx
  generalize hfsC : (fsA.step (.pg (.slot k x) r0.2.2)).step .ps = fsC at hBC
  -- two flushes for class k+1
  have sD := harmless_block (N := N) (flushSteps pm1 r1.2.bm ++ flushSteps pm2 r1.2.bm) fsC hBC (by
    intro s hs
    rcases List.mem_append.mp hs with h | h
    · exact (hblock_flush hok1 hbm1).steps s (by simpa [ioSteps_flushA] using h)
    · exact (hblock_flush hok2 hbm1).steps s (by simpa [ioSteps_flushA] using h))
  have toOK : ∀ kk, kk ≤ N.length → ∀ g : FS, AllImgs g (NG N c p0 kk) → AllImgs g (fun p => PagerOK N c p ∧ Frame p0 p) :=
    fun kk hkk g hg => allImgs_mono g _ _ hg (fun p hp => ⟨hp.pagerOK b0 hkk, hp.frame⟩)
  have hfinal : fs.steps (ioSteps (nodeA cfg ps id x).1) = fsC.steps (flushSteps pm1 r1.2.bm ++ flushSteps pm2 r1.2.bm) := by
    rw [hsteps, steps_append, hfsA]
    show (fsA.steps ([Step.pg (.slot k x) r0.2.2, Step.ps] ++ (flushSteps pm1 r1.2.bm ++ flushSteps pm2 r1.2.bm))) = _
    rw [steps_append]
    simp only [FS.steps, List.foldl]
    rw [← hfsC]
  have hres : (nodeA cfg ps id x).2.1.pm = pm2 := by simp [nodeA, hidl, pm2, pm1, r1, r0]
  rw [hres]
  refine ⟨?_, ?_, ?_, ?_, hok2, rfl, ?_, ?_, ?_⟩
  · rw [hacts, failOf_append, hA.nofail]
    simp [failOf, flushA]
  · rw [hsteps]
    apply safeAlong_append (safeAlong_mono sA (toOK k (by omega)))
    rw [hfsA]
    show SafeAlong (fun fs => AllImgs fs (fun p => PagerOK N c p ∧ Frame p0 p)) fsA
      (Step.pg (.slot k x) r0.2.2 :: Step.ps :: (flushSteps pm1 r1.2.bm ++ flushSteps pm2 r1.2.bm))
    refine safeAlong_cons (P := fun fs => AllImgs fs (fun p => PagerOK N c p ∧ Frame p0 p)) (toOK k (by omega) _ hBA) ?_
    refine safeAlong_cons (P := fun fs => AllImgs fs (fun p => PagerOK N c p ∧ Frame p0 p)) (toOK k (by omega) _ hBB) ?_
    rw [hfsC]
    exact safeAlong_mono sD (toOK (k + 1) (by omega))
  · rw [hfinal]; exact safeAlong_last sD
  · rw [hfinal]
    have hf := steps_flushed fsC _ pm2 r1.2.bm ⟨flushSteps pm1 r1.2.bm, rfl⟩
    have hresb : (nodeA cfg ps id x).2.1.bm = r1.2.bm := rfl
    exact ⟨hf.1, by rw [hres]; exact hf.2.1, by rw [hresb]; exact hf.2.2⟩
  · simp [nodeA, hidl]
  · show r0.2.2 = pm2.i2eStart
    show r0.2.2 = r1.2.pm.i2eStart
    rw [sk1.start, st0]
  · show 1 ≤ r1.2.pm.nextPage
    exact Nat.le_trans np0 sk1.np

theorem getSlot_of_drop : ∀ (N : List Nat) (k x : Nat) (t : List Nat), N.drop k = x :: t →
    getSlot N k = x ∧ k < N.length ∧ N.drop (k + 1) = t
  | [], k, x, t, h => by simp at h
  | y :: ys, 0, x, t, h => by
    simp at h
    exact ⟨h.1, by simp, by simp [h.2]⟩
  | y :: ys, k + 1, x, t, h => by
    have := getSlot_of_drop ys k x t (by simpa using h)
    exact ⟨by simpa [getSlot] using this.1, by simp; omega, by simpa using this.2.2⟩

/-- **all created nodes applied**, for the list `xs` = positions `k …` of the node list -/
theorem nodesA_safe {cfg : Cfg} {N : List Nat} {c : Nat} {p0 : PImg} (b0 : Booted p0)
    (hsync : cfg.syncSlot = true) :
    ∀ (xs : List Nat) (k : Nat) (fs : FS) (ps : PS) (id : IdSt) (rest : List Nat),
      N.drop k = xs ++ rest →
      AllImgs fs (NG N c p0 k) → SyncedI fs ps → OKhdr c p0 k ps.pm →
      ps.pm.i2eLen = k → id.len = k → id.start = ps.pm.i2eStart → 1 ≤ ps.pm.nextPage → c ≤ k → k ≤ N.length → p0.bm ≤ ps.bm →
      failOf (nodesA cfg ps id xs).1 = none ∧
      SafeAlong (fun fs => AllImgs fs (fun p => PagerOK N c p ∧ Frame p0 p)) fs (ioSteps (nodesA cfg ps id xs).1) ∧
      AllImgs (fs.steps (ioSteps (nodesA cfg ps id xs).1)) (NG N c p0 (k + xs.length)) ∧
      SyncedI (fs.steps (ioSteps (nodesA cfg ps id xs).1)) (nodesA cfg ps id xs).2.1 ∧
      OKhdr c p0 (k + xs.length) (nodesA cfg ps id xs).2.1.pm ∧
      (nodesA cfg ps id xs).2.1.pm.i2eLen = k + xs.length ∧ (nodesA cfg ps id xs).2.2.len = k + xs.length ∧
      (nodesA cfg ps id xs).2.2.start = (nodesA cfg ps id xs).2.1.pm.i2eStart ∧
      1 ≤ (nodesA cfg ps id xs).2.1.pm.nextPage := by
  intro xs
  induction xs with
  | nil =>
    intro k fs ps id rest _ hB hS hpm hlen hidl hids hnp _ hkN _
    refine ⟨rfl, ?_, by simpa [nodesA, ioSteps, FS.steps] using hB, by simpa [nodesA, ioSteps, FS.steps] using hS,
      by simpa [nodesA] using hpm, by simpa [nodesA] using hlen, by simpa [nodesA] using hidl,
      by simpa [nodesA] using hids, by simpa [nodesA] using hnp⟩
    apply safeAlong_nil
    exact allImgs_mono fs _ _ hB (fun p hp => ⟨hp.pagerOK b0 hkN, hp.frame⟩)
  | cons x xs ih =>
    intro k fs ps id rest hdrop hB hS hpm hlen hidl hids hnp hck hkN hbm
    obtain ⟨hx, hk, hdrop'⟩ := getSlot_of_drop N k x (xs ++ rest) (by simpa using hdrop)
    obtain ⟨nf, sa, hB1, hS1, ok1, len1, idl1, ids1, np1⟩ :=
      nodeA_safe b0 hsync fs ps id x hB hS hpm hlen hidl hids hnp hk hx.symm hck hbm
    obtain ⟨nf2, sa2, hB2, hS2, ok2, len2, idl2, ids2, np2⟩ :=
      ih (k + 1) (fs.steps (ioSteps (nodeA cfg ps id x).1)) (nodeA cfg ps id x).2.1 (nodeA cfg ps id x).2.2 rest
        hdrop' hB1 hS1.toI ok1 len1 idl1 ids1 np1 (by omega) (by omega) (Nat.le_trans hbm (nodeA_bm cfg ps id x))
    have hacts : (nodesA cfg ps id (x :: xs)).1 =
        (nodeA cfg ps id x).1 ++ (nodesA cfg (nodeA cfg ps id x).2.1 (nodeA cfg ps id x).2.2 xs).1 := rfl
    have hres : (nodesA cfg ps id (x :: xs)).2 = (nodesA cfg (nodeA cfg ps id x).2.1 (nodeA cfg ps id x).2.2 xs).2 := rfl
    have hk' : k + (x :: xs).length = k + 1 + xs.length := by simp; omega
    rw [hacts, hres, hk', ioSteps_append_noFail _ _ nf, steps_append]
    refine ⟨by rw [failOf_append, nf]; simpa using nf2, safeAlong_append sa sa2, hB2, hS2, ok2, len2, idl2, ids2, np2⟩

/-! ### memory side of node application -/

/-- the updates node application performs: meta, node-table start, node count, node list -/
def IdUpd : MemUpd → Prop
  | .setPm _ => True
  | .setIdStart _ => True
  | .incIdLen => True
  | .pushExt _ => True
  | .setBm _ => True
  | _ => False

def lastBm : List MemUpd → Nat → Nat
  | [], d => d
  | .setBm b :: l, _ => lastBm l b
  | _ :: l, d => lastBm l d

def lastPm : List MemUpd → Meta → Meta
  | [], d => d
  | .setPm p :: l, _ => lastPm l p
  | _ :: l, d => lastPm l d

def lastStart : List MemUpd → Nat → Nat
  | [], d => d
  | .setIdStart p :: l, _ => lastStart l p
  | _ :: l, d => lastStart l d

def countInc : List MemUpd → Nat
  | [] => 0
  | .incIdLen :: l => countInc l + 1
  | _ :: l => countInc l

def pushed : List MemUpd → List Nat
  | [] => []
  | .pushExt x :: l => x :: pushed l
  | _ :: l => pushed l

theorem foldl_idUpd (l : List MemUpd) (h : ∀ u ∈ l, IdUpd u) (m : Mem) :
    l.foldl applyUpd m =
      { m with pm := lastPm l m.pm, bm := lastBm l m.bm, idStart := lastStart l m.idStart,
               idLen := m.idLen + countInc l, exts := m.exts ++ pushed l } := by
  induction l generalizing m with
  | nil => simp [lastPm, lastBm, lastStart, countInc, pushed]
  | cons u l ih =>
    have hu := h u (by simp)
    have hl : ∀ u ∈ l, IdUpd u := fun u hu => h u (by simp [hu])
    cases u <;> simp only [IdUpd] at hu <;>
      simp [List.foldl, ih hl, applyUpd, lastPm, lastBm, lastStart, countInc, pushed] <;> omega

theorem lastBm_append (a b : List MemUpd) (d : Nat) : lastBm (a ++ b) d = lastBm b (lastBm a d) := by
  induction a generalizing d with
  | nil => rfl
  | cons u a ih => cases u <;> simp [lastBm, ih]

theorem lastPm_append (a b : List MemUpd) (d : Meta) : lastPm (a ++ b) d = lastPm b (lastPm a d) := by
  induction a generalizing d with
  | nil => rfl
  | cons u a ih => cases u <;> simp [lastPm, ih]

theorem lastStart_append (a b : List MemUpd) (d : Nat) : lastStart (a ++ b) d = lastStart b (lastStart a d) := by
  induction a generalizing d with
  | nil => rfl
  | cons u a ih => cases u <;> simp [lastStart, ih]

theorem countInc_append (a b : List MemUpd) : countInc (a ++ b) = countInc a + countInc b := by
  induction a with
  | nil => simp [countInc]
  | cons u a ih => cases u <;> simp [countInc, ih] <;> omega

theorem pushed_append (a b : List MemUpd) : pushed (a ++ b) = pushed a ++ pushed b := by
  induction a with
  | nil => rfl
  | cons u a ih => cases u <;> simp [pushed, ih]

/-- lists of pager-memory updates only (meta page, bitmap) -/
def OnlySetPm (l : List MemUpd) : Prop := ∀ u ∈ l, (∃ pm, u = MemUpd.setPm pm) ∨ (∃ b, u = MemUpd.setBm b)

theorem OnlySetPm.facts {l : List MemUpd} (h : OnlySetPm l) :
    (∀ u ∈ l, IdUpd u) ∧ (∀ d, lastStart l d = d) ∧ countInc l = 0 ∧ pushed l = [] := by
  induction l with
  | nil => simp [lastStart, countInc, pushed]
  | cons u l ih =>
    obtain ⟨h1, h2, h3, h4⟩ := ih (fun u hu => h u (by simp [hu]))
    rcases h u (by simp) with ⟨pm, rfl⟩ | ⟨b, rfl⟩
    all_goals
      refine ⟨?_, ?_, ?_, ?_⟩
      · intro u hu
        rcases List.mem_cons.mp hu with rfl | hu
        · trivial
        · exact h1 u hu
      · intro d; simp [lastStart, h2]
      · simp [countInc, h3]
      · simp [pushed, h4]

theorem onlySetPm_ensure (ps : PS) (pid : Nat) : OnlySetPm (memUpds (ensureA ps pid).1) := by
  unfold ensureA
  by_cases hg : ps.pm.nextPage ≤ pid <;> by_cases he : ps.len < pid + 1 <;>
    simp [hg, he, memUpds, flushA, OnlySetPm]

theorem onlySetPm_alloc (ps : PS) : OnlySetPm (memUpds (allocA ps).1) := by
  unfold allocA
  intro u hu
  simp only [memUpds, List.mem_cons] at hu
  rcases hu with rfl | hu
  · exact Or.inl ⟨_, rfl⟩
  · exact onlySetPm_ensure _ _ u hu

/-- the in-memory meta / bitmap after `ensure` / `alloc` are the ones they return -/
theorem lastPm_ensure (ps : PS) (pid : Nat) : lastPm (memUpds (ensureA ps pid).1) ps.pm = (ensureA ps pid).2.pm := by
  unfold ensureA
  by_cases hg : ps.pm.nextPage ≤ pid <;> by_cases he : ps.len < pid + 1 <;>
    simp [hg, he, memUpds, flushA, lastPm]

theorem lastBm_ensure (ps : PS) (pid : Nat) (d : Nat) : lastBm (memUpds (ensureA ps pid).1) d = (ensureA ps pid).2.bm := by
  unfold ensureA
  by_cases hg : ps.pm.nextPage ≤ pid <;> by_cases he : ps.len < pid + 1 <;>
    simp [hg, he, memUpds, flushA, lastBm]

theorem lastPm_alloc (ps : PS) (d : Meta) : lastPm (memUpds (allocA ps).1) d = (allocA ps).2.1.pm := by
  unfold allocA
  simp only [memUpds, lastPm]
  exact lastPm_ensure _ _

theorem lastBm_alloc (ps : PS) (d : Nat) : lastBm (memUpds (allocA ps).1) d = (allocA ps).2.1.bm := by
  unfold allocA
  simp only [memUpds, lastBm]
  exact lastBm_ensure _ _ _

structure MemFacts (l : List MemUpd) (pm0 pm' : Meta) (st0 st' : Nat) (n : Nat) (xs : List Nat) (b0 b' : Nat) : Prop where
  idupd : ∀ u ∈ l, IdUpd u
  pm : lastPm l pm0 = pm'
  start : lastStart l st0 = st'
  inc : countInc l = n
  push : pushed l = xs
  bm : lastBm l b0 = b'

theorem MemFacts.append {a b : List MemUpd} {pm0 pm1 pm2 : Meta} {s0 s1 s2 n1 n2 : Nat} {x1 x2 : List Nat} {b0 b1 b2 : Nat}
    (ha : MemFacts a pm0 pm1 s0 s1 n1 x1 b0 b1) (hb : MemFacts b pm1 pm2 s1 s2 n2 x2 b1 b2) :
    MemFacts (a ++ b) pm0 pm2 s0 s2 (n1 + n2) (x1 ++ x2) b0 b2 where
  bm := by rw [lastBm_append, ha.bm, hb.bm]
  idupd := by
    intro u hu
    rcases List.mem_append.mp hu with h | h
    · exact ha.idupd u h
    · exact hb.idupd u h
  pm := by rw [lastPm_append, ha.pm, hb.pm]
  start := by rw [lastStart_append, ha.start, hb.start]
  inc := by rw [countInc_append, ha.inc, hb.inc]
  push := by rw [pushed_append, ha.push, hb.push]

theorem memFacts_startA {c k : Nat} {p0 : PImg} (ps : PS) (id : IdSt) (hpm : OKhdr c p0 k ps.pm) (hbm : p0.bm ≤ ps.bm) :
    MemFacts (memUpds (startA ps id).1) ps.pm (startA ps id).2.1.pm id.start (startA ps id).2.2 0 [] ps.bm (startA ps id).2.1.bm := by
  unfold startA
  by_cases hs : id.start = 0
  · simp only [hs, if_true]
    obtain ⟨hba, _, _⟩ := allocA_spec (c := c) (k := k) (p0 := p0) ps hpm hbm
    obtain ⟨f1, f2, f3, f4⟩ := (onlySetPm_alloc ps).facts
    have hmu : memUpds ((allocA ps).1 ++ [memA (.setPm { (allocA ps).2.1.pm with i2eStart := (allocA ps).2.2 })]
        ++ flushA { (allocA ps).2.1.pm with i2eStart := (allocA ps).2.2 } (allocA ps).2.1.bm ++ [memA (.setIdStart (allocA ps).2.2)]) =
        memUpds (allocA ps).1 ++ [.setPm { (allocA ps).2.1.pm with i2eStart := (allocA ps).2.2 }, .setIdStart (allocA ps).2.2] := by
      rw [memUpds_append_noFail, memUpds_append_noFail, memUpds_append_noFail]
      · simp [memUpds, flushA]
      · exact hba.nofail
      · exact (hba.append (HBlock.mem _)).nofail
      · rw [failOf_append, (hba.append (HBlock.mem _)).nofail]; rfl
    rw [hmu]
    refine ⟨?_, ?_, ?_, ?_, ?_, ?_⟩
    · intro u hu
      rcases List.mem_append.mp hu with h | h
      · exact f1 u h
      · simp at h; rcases h with rfl | rfl <;> trivial
    · rw [lastPm_append]; simp [lastPm]
    · rw [lastStart_append, f2]; simp [lastStart]
    · rw [countInc_append, f3]; simp [countInc]
    · rw [pushed_append, f4]; simp [pushed]
    · rw [lastBm_append, lastBm_alloc]; simp [lastBm]
  · simp only [hs, if_false]
    exact ⟨by simp [memUpds], rfl, rfl, rfl, rfl, rfl⟩

theorem memFacts_nodeA {cfg : Cfg} {c k : Nat} {p0 : PImg} (ps : PS) (id : IdSt) (x : Nat)
    (hpm : OKhdr c p0 k ps.pm) (hids : id.start = ps.pm.i2eStart) (hnp : 1 ≤ ps.pm.nextPage) (hbm : p0.bm ≤ ps.bm)
    (h1 : 1 ≤ p0.bm) :
    MemFacts (memUpds (nodeA cfg ps id x).1) ps.pm (nodeA cfg ps id x).2.1.pm id.start
      (nodeA cfg ps id x).2.2.start 1 [x] ps.bm (nodeA cfg ps id x).2.1.bm := by
  have hz : id.start = 0 → ps.pm.i2eLen = 0 := fun h0 => hpm.start (hids ▸ h0)
  obtain ⟨hb0, ok0, _, _, _, _, _⟩ := startA_spec (c := c) (k := k) (p0 := p0) ps id hpm hz hids hnp hbm h1
  obtain ⟨hb1, _, _⟩ := ensureA_spec (c := c) (k := k) (p0 := p0) (startA ps id).2.1 (startA ps id).2.2 ok0 (Nat.le_trans hbm (startA_bm ps id))
  have h0 := memFacts_startA (c := c) (k := k) (p0 := p0) ps id hpm hbm
  obtain ⟨f1, f2, f3, f4⟩ := (onlySetPm_ensure (startA ps id).2.1 (startA ps id).2.2).facts
  have h1 : MemFacts (memUpds (ensureA (startA ps id).2.1 (startA ps id).2.2).1) (startA ps id).2.1.pm
      (ensureA (startA ps id).2.1 (startA ps id).2.2).2.pm (startA ps id).2.2 (startA ps id).2.2 0 []
      (startA ps id).2.1.bm (ensureA (startA ps id).2.1 (startA ps id).2.2).2.bm :=
    ⟨f1, lastPm_ensure _ _, f2 _, f3, f4, lastBm_ensure _ _ _⟩
  let pm1 : Meta := { (ensureA (startA ps id).2.1 (startA ps id).2.2).2.pm with i2eLen := id.len + 1 }
  let pm2 : Meta := { pm1 with nextInt := id.len + 1 }
  have h2 : MemFacts [MemUpd.incIdLen, .setPm pm1, .setPm pm2, .pushExt x]
      (ensureA (startA ps id).2.1 (startA ps id).2.2).2.pm pm2 (startA ps id).2.2 (startA ps id).2.2 1 [x]
      (ensureA (startA ps id).2.1 (startA ps id).2.2).2.bm (ensureA (startA ps id).2.1 (startA ps id).2.2).2.bm :=
    ⟨by intro u hu; simp at hu; rcases hu with rfl | rfl | rfl | rfl <;> trivial, rfl, rfl, rfl, rfl, rfl⟩
  have hmu : memUpds (nodeA cfg ps id x).1 =
      (memUpds (startA ps id).1 ++ memUpds (ensureA (startA ps id).2.1 (startA ps id).2.2).1) ++
        [MemUpd.incIdLen, .setPm pm1, .setPm pm2, .pushExt x] := by
    have hA : HBlock c p0 k ((startA ps id).1 ++ (ensureA (startA ps id).2.1 (startA ps id).2.2).1) := hb0.append hb1
    have : (nodeA cfg ps id x).1 = ((startA ps id).1 ++ (ensureA (startA ps id).2.1 (startA ps id).2.2).1) ++
        ([ioA (.pg (.slot id.len x) (startA ps id).2.2)] ++ (if cfg.syncSlot then [ioA .ps] else []) ++
          [memA .incIdLen, memA (.setPm pm1)] ++ flushA pm1 (ensureA (startA ps id).2.1 (startA ps id).2.2).2.bm ++ [memA (.setPm pm2)] ++ flushA pm2 (ensureA (startA ps id).2.1 (startA ps id).2.2).2.bm ++ [memA (.pushExt x)]) := by
      simp [nodeA, pm1, pm2]
    rw [this, memUpds_append_noFail _ _ hA.nofail, memUpds_append_noFail _ _ hb0.nofail]
    congr 1
    by_cases hsy : cfg.syncSlot = true <;> simp [hsy, memUpds, flushA]
  rw [hmu]
  have := (h0.append h1).append h2
  simpa [nodeA, pm1, pm2] using this

theorem memFacts_nodesA {cfg : Cfg} {N : List Nat} {c : Nat} {p0 : PImg} (b0 : Booted p0)
    (hsync : cfg.syncSlot = true) :
    ∀ (xs : List Nat) (k : Nat) (fs : FS) (ps : PS) (id : IdSt) (rest : List Nat),
      N.drop k = xs ++ rest →
      AllImgs fs (NG N c p0 k) → SyncedI fs ps → OKhdr c p0 k ps.pm →
      ps.pm.i2eLen = k → id.len = k → id.start = ps.pm.i2eStart → 1 ≤ ps.pm.nextPage → c ≤ k → k ≤ N.length → p0.bm ≤ ps.bm →
      MemFacts (memUpds (nodesA cfg ps id xs).1) ps.pm (nodesA cfg ps id xs).2.1.pm id.start
        (nodesA cfg ps id xs).2.2.start xs.length xs ps.bm (nodesA cfg ps id xs).2.1.bm := by
  intro xs
  induction xs with
  | nil => intro k fs ps id rest _ _ _ _ _ _ _ _ _ _ _; exact ⟨by simp [nodesA, memUpds], rfl, rfl, rfl, rfl, rfl⟩
  | cons x xs ih =>
    intro k fs ps id rest hdrop hB hS hpm hlen hidl hids hnp hck hkN hbm
    obtain ⟨hx, hk, hdrop'⟩ := getSlot_of_drop N k x (xs ++ rest) (by simpa using hdrop)
    obtain ⟨nf, _, hB1, hS1, ok1, len1, idl1, ids1, np1⟩ :=
      nodeA_safe b0 hsync fs ps id x hB hS hpm hlen hidl hids hnp hk hx.symm hck hbm
    have h1 := memFacts_nodeA (cfg := cfg) (c := c) (k := k) (p0 := p0) ps id x hpm hids hnp hbm (by have := b0.bm; omega)
    have h2 := ih (k + 1) _ (nodeA cfg ps id x).2.1 (nodeA cfg ps id x).2.2 rest hdrop' hB1 hS1.toI ok1 len1 idl1 ids1 np1
      (by omega) (by omega) (Nat.le_trans hbm (nodeA_bm cfg ps id x))
    have hacts : (nodesA cfg ps id (x :: xs)).1 =
        (nodeA cfg ps id x).1 ++ (nodesA cfg (nodeA cfg ps id x).2.1 (nodeA cfg ps id x).2.2 xs).1 := rfl
    have hres : (nodesA cfg ps id (x :: xs)).2 = (nodesA cfg (nodeA cfg ps id x).2.1 (nodeA cfg ps id x).2.2 xs).2 := rfl
    rw [hacts, hres, memUpds_append_noFail _ _ nf]
    have := h1.append h2
    simpa [Nat.add_comm] using this

end Nervus.Crash
