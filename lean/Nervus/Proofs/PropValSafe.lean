/-
  Safety of the PropertyValue decoder (C25): no panic, fuel never exhausted, the unconsumed suffix never grows,
  every allocation request is bounded by the remaining input (when the cap is present), recursion depth is
  bounded by the nesting limit (when present).  One invariant `Good`, proved for every arm, by induction on fuel.
-/
import Nervus.Proofs.LeBytes
namespace Nervus.PropVal
open Nervus

/-! ### `Res` projections -/
section
variable {α β : Type}
@[simp] theorem Res.ret_val (a : α) : (Res.ret a).val = .ok a := rfl
@[simp] theorem Res.ret_allocs (a : α) : (Res.ret a).allocs = [] := rfl
@[simp] theorem Res.ret_depth (a : α) : (Res.ret a).depth = 0 := rfl
@[simp] theorem Res.fail_val (e : DErr) : (Res.fail e : Res α).val = .error e := rfl
@[simp] theorem Res.fail_allocs (e : DErr) : (Res.fail e : Res α).allocs = [] := rfl
@[simp] theorem Res.fail_depth (e : DErr) : (Res.fail e : Res α).depth = 0 := rfl
@[simp] theorem Res.alloc_val (n m : Nat) (r : Res α) : (Res.alloc n m r).val = r.val := rfl
@[simp] theorem Res.alloc_allocs (n m : Nat) (r : Res α) : (Res.alloc n m r).allocs = (n, m) :: r.allocs := rfl
@[simp] theorem Res.alloc_depth (n m : Nat) (r : Res α) : (Res.alloc n m r).depth = r.depth := rfl
@[simp] theorem Res.enter_val (d : Nat) (r : Res α) : (Res.enter d r).val = r.val := rfl
@[simp] theorem Res.enter_allocs (d : Nat) (r : Res α) : (Res.enter d r).allocs = r.allocs := rfl
@[simp] theorem Res.enter_depth (d : Nat) (r : Res α) : (Res.enter d r).depth = max d r.depth := rfl

theorem Res.bind_ok {r : Res α} {a : α} (h : r.val = .ok a) (k : α → Res β) :
    (r.bind k).val = (k a).val ∧ (r.bind k).allocs = r.allocs ++ (k a).allocs ∧
    (r.bind k).depth = max r.depth (k a).depth := by
  unfold Res.bind; rw [h]; exact ⟨rfl, rfl, rfl⟩

theorem Res.bind_error {r : Res α} {e : DErr} (h : r.val = .error e) (k : α → Res β) :
    (r.bind k).val = .error e ∧ (r.bind k).allocs = r.allocs ∧ (r.bind k).depth = r.depth := by
  unfold Res.bind; rw [h]; exact ⟨rfl, rfl, rfl⟩

theorem Res.bind_val (r : Res α) (k : α → Res β) :
    (r.bind k).val = match r.val with
      | .ok a => (k a).val
      | .error e => .error e := by
  unfold Res.bind; cases r.val <;> rfl
end

/-! ### the invariant -/

/-- what a decoding step on an input of `n` bytes guarantees -/
structure Good {α : Type} (cfg : Cfg) (n : Nat) (r : Res (α × Bytes)) : Prop where
  noPanic : r.val ≠ .error .panic
  noFuel : r.val ≠ .error .fuel
  rest_le : ∀ a rest, r.val = .ok (a, rest) → rest.length ≤ n
  rem_le : ∀ p ∈ r.allocs, p.2 ≤ n
  capped : cfg.capAlloc = true → ∀ p ∈ r.allocs, p.1 ≤ p.2
  depth_le : ∀ m, cfg.maxDepth = some m → r.depth ≤ m

variable {α β : Type} {cfg : Cfg}

theorem Good.mono {n n' : Nat} {r : Res (α × Bytes)} (g : Good cfg n r) (h : n ≤ n') : Good cfg n' r :=
  ⟨g.noPanic, g.noFuel, fun a rest hv => Nat.le_trans (g.rest_le a rest hv) h,
   fun p hp => Nat.le_trans (g.rem_le p hp) h, g.capped, g.depth_le⟩

theorem good_ret {n : Nat} (a : α) (rest : Bytes) (h : rest.length ≤ n) : Good cfg n (Res.ret (a, rest)) :=
  ⟨by simp, by simp, by intro a' r' hv; simp at hv; obtain ⟨-, rfl⟩ := hv; exact h,
   by simp, by simp, by simp⟩

theorem good_fail {n : Nat} (e : DErr) (h1 : e ≠ .panic) (h2 : e ≠ .fuel) : Good cfg n (Res.fail e : Res (α × Bytes)) :=
  ⟨by simpa using h1, by simpa using h2, by simp, by simp, by simp, by simp⟩

theorem good_alloc {n req rem : Nat} {r : Res (α × Bytes)} (g : Good cfg n r) (h1 : rem ≤ n)
    (h2 : cfg.capAlloc = true → req ≤ rem) : Good cfg n (Res.alloc req rem r) :=
  ⟨g.noPanic, g.noFuel, g.rest_le,
   by intro p hp; simp at hp; rcases hp with rfl | hp; exact h1; exact g.rem_le p hp,
   by intro hc p hp; simp at hp; rcases hp with rfl | hp; exact h2 hc; exact g.capped hc p hp,
   g.depth_le⟩

theorem good_enter {n d : Nat} {r : Res (α × Bytes)} (g : Good cfg n r)
    (hd : ∀ m, cfg.maxDepth = some m → d ≤ m) : Good cfg n (Res.enter d r) :=
  ⟨g.noPanic, g.noFuel, g.rest_le, g.rem_le, g.capped,
   by intro m hm; simp only [Res.enter_depth]; exact Nat.max_le.mpr ⟨hd m hm, g.depth_le m hm⟩⟩

theorem good_bind {n : Nat} {r : Res (α × Bytes)} {k : α × Bytes → Res (β × Bytes)} (g : Good cfg n r)
    (hk : ∀ a rest, r.val = .ok (a, rest) → Good cfg rest.length (k (a, rest))) : Good cfg n (r.bind k) := by
  cases hv : r.val with
  | error e =>
    obtain ⟨h1, h2, h3⟩ := Res.bind_error hv k
    refine ⟨?_, ?_, ?_, ?_, ?_, ?_⟩
    · rw [h1]; intro hc; apply g.noPanic; rw [hv]; cases hc; rfl
    · rw [h1]; intro hc; apply g.noFuel; rw [hv]; cases hc; rfl
    · intro a rest h; rw [h1] at h; cases h
    · rw [h2]; exact g.rem_le
    · rw [h2]; exact g.capped
    · rw [h3]; exact g.depth_le
  | ok p =>
    obtain ⟨a, rest⟩ := p
    obtain ⟨h1, h2, h3⟩ := Res.bind_ok hv k
    have gk := (hk a rest hv).mono (g.rest_le a rest hv)
    refine ⟨?_, ?_, ?_, ?_, ?_, ?_⟩
    · rw [h1]; exact gk.noPanic
    · rw [h1]; exact gk.noFuel
    · rw [h1]; exact gk.rest_le
    · rw [h2]; intro p hp; rcases List.mem_append.mp hp with hp | hp
      · exact g.rem_le p hp
      · exact gk.rem_le p hp
    · rw [h2]; intro hc p hp; rcases List.mem_append.mp hp with hp | hp
      · exact g.capped hc p hp
      · exact gk.capped hc p hp
    · rw [h3]; intro m hm; exact Nat.max_le.mpr ⟨g.depth_le m hm, gk.depth_le m hm⟩

/-! ### arms -/

theorem decFixed8_good (bs : Bytes) (mk : Nat → PV) : Good cfg bs.length (decFixed8 bs mk) := by
  unfold decFixed8
  split
  · exact good_fail _ (by decide) (by decide)
  · rename_i h
    rw [slice_eq_some (by omega) (by omega)]
    exact good_ret _ _ (by simp)

theorem decLenPrefixed_good (bs : Bytes) (check : Bytes → Bool) (mk : Bytes → PV) :
    Good cfg bs.length (decLenPrefixed bs check mk) := by
  unfold decLenPrefixed
  split
  · exact good_fail _ (by decide) (by decide)
  · rename_i h
    obtain ⟨len, hl, -⟩ := readU32_isSome (bs := bs) (a := 1) (by omega)
    rw [hl]; simp only
    split
    · exact good_fail _ (by decide) (by decide)
    · rename_i h2
      rw [slice_eq_some (by omega) (by omega)]; simp only
      refine good_alloc ?_ (by omega) (by intro _; omega)
      split
      · exact good_ret _ _ (by simp)
      · exact good_fail _ (by decide) (by decide)

theorem readKey_good (bs : Bytes) : Good cfg bs.length (readKey bs) := by
  unfold readKey
  split
  · exact good_fail _ (by decide) (by decide)
  · rename_i h
    obtain ⟨len, hl, -⟩ := readU32_isSome (bs := bs) (a := 0) (by omega)
    rw [hl]; simp only
    split
    · exact good_fail _ (by decide) (by decide)
    · rename_i h2
      rw [slice_eq_some (by omega) (by omega)]; simp only
      refine good_alloc ?_ (by omega) (by intro _; omega)
      split
      · exact good_ret _ _ (by simp)
      · exact good_fail _ (by decide) (by decide)

theorem loopList_good {f : Bytes → Res (PV × Bytes)} {k : Nat}
    (hf : ∀ b, b.length ≤ k → Good cfg b.length (f b)) :
    ∀ (cnt : Nat) (bs : Bytes), bs.length ≤ k → Good cfg bs.length (loopList f cnt bs)
  | 0, bs, _ => by unfold loopList; exact good_ret _ _ (Nat.le_refl _)
  | cnt + 1, bs, hb => by
    unfold loopList
    refine good_bind (hf bs hb) ?_
    intro v rest hv
    have hr : rest.length ≤ k := Nat.le_trans ((hf bs hb).rest_le v rest hv) hb
    refine good_bind (loopList_good hf cnt rest hr) ?_
    intro t rest' _
    exact good_ret _ _ (Nat.le_refl _)

theorem loopMap_good {f : Bytes → Res (PV × Bytes)} {k : Nat}
    (hf : ∀ b, b.length ≤ k → Good cfg b.length (f b)) :
    ∀ (cnt : Nat) (bs : Bytes) (acc : PVMap), bs.length ≤ k → Good cfg bs.length (loopMap f cnt bs acc)
  | 0, bs, acc, _ => by unfold loopMap; exact good_ret _ _ (Nat.le_refl _)
  | cnt + 1, bs, acc, hb => by
    unfold loopMap
    refine good_bind (readKey_good bs) ?_
    intro key r1 hv1
    have h1 : r1.length ≤ k := Nat.le_trans ((readKey_good (cfg := cfg) bs).rest_le key r1 hv1) hb
    refine good_bind (hf r1 h1) ?_
    intro v r2 hv2
    have h2 : r2.length ≤ k := Nat.le_trans ((hf r1 h1).rest_le v r2 hv2) h1
    exact loopMap_good hf cnt r2 _ h2

theorem tooDeep_false {d : Nat} (h : tooDeep cfg d = false) : ∀ m, cfg.maxDepth = some m → d + 1 ≤ m := by
  intro m hm
  unfold tooDeep at h; rw [hm] at h; simp at h; omega

theorem decList_good {f : Bytes → Res (PV × Bytes)} (d : Nat) (bs : Bytes)
    (hf : ∀ b, b.length + 5 ≤ bs.length → Good cfg b.length (f b)) : Good cfg bs.length (decList cfg f d bs) := by
  unfold decList
  split
  · exact good_fail _ (by decide) (by decide)
  · split
    · exact good_fail _ (by decide) (by decide)
    · rename_i h
      obtain ⟨count, hc, -⟩ := readU32_isSome (bs := bs) (a := 1) (by omega)
      rw [hc]; simp only
      refine good_alloc ?_ (by omega) ?_
      · have hl : (bs.drop 5).length ≤ bs.length - 5 := by simp
        have := loopList_good (cfg := cfg) (f := f) (k := bs.length - 5) (fun b hb => hf b (by omega)) count (bs.drop 5) hl
        refine (good_bind this ?_).mono (by simp)
        intro l rest _
        exact good_ret _ _ (Nat.le_refl _)
      · intro hcap; rw [hcap]; simp only [if_true]; exact Nat.min_le_right _ _

theorem decMap_good {f : Bytes → Res (PV × Bytes)} (d : Nat) (bs : Bytes)
    (hf : ∀ b, b.length + 5 ≤ bs.length → Good cfg b.length (f b)) : Good cfg bs.length (decMap cfg f d bs) := by
  unfold decMap
  split
  · exact good_fail _ (by decide) (by decide)
  · split
    · exact good_fail _ (by decide) (by decide)
    · rename_i h
      obtain ⟨count, hc, -⟩ := readU32_isSome (bs := bs) (a := 1) (by omega)
      rw [hc]; simp only
      have hl : (bs.drop 5).length ≤ bs.length - 5 := by simp
      have := loopMap_good (cfg := cfg) (f := f) (k := bs.length - 5) (fun b hb => hf b (by omega)) count (bs.drop 5) .nil hl
      refine (good_bind this ?_).mono (by simp)
      intro l rest _
      exact good_ret _ _ (Nat.le_refl _)

/-- the decoder keeps the invariant at every depth the nesting limit allows -/
theorem decodeRec_good (cfg : Cfg) : ∀ (fuel d : Nat) (bs : Bytes), bs.length < fuel →
    (∀ m, cfg.maxDepth = some m → d ≤ m) → Good cfg bs.length (decodeRec cfg fuel d bs)
  | 0, _, _, h, _ => absurd h (Nat.not_lt_zero _)
  | fuel + 1, d, bs, h, hd => by
    unfold decodeRec
    refine good_enter ?_ hd
    cases bs with
    | nil => exact good_fail _ (by decide) (by decide)
    | cons ty tl =>
      simp only
      have hrec : tooDeep cfg d = false → ∀ b : Bytes, b.length + 5 ≤ (ty :: tl).length →
          Good cfg b.length (decodeRec cfg fuel (d + 1) b) := by
        intro htd b hb
        exact decodeRec_good cfg fuel (d + 1) b (by omega) (tooDeep_false htd)
      split
      · exact good_ret _ _ (by simp)
      split
      · by_cases h2 : (ty :: tl).length < 2
        · rw [if_pos h2]; exact good_fail _ (by decide) (by decide)
        · rw [if_neg h2]
          cases tl with
          | nil => exact absurd (by simp) h2
          | cons b tl' =>
            have : slice (ty :: b :: tl') 1 2 = some [b] := by simp [slice]
            rw [this]; exact good_ret _ _ (by simp; omega)
      split
      · exact decFixed8_good _ _
      split
      · exact decFixed8_good _ _
      split
      · exact decLenPrefixed_good _ _ _
      split
      · exact decFixed8_good _ _
      split
      · exact decLenPrefixed_good _ _ _
      split
      · by_cases htd : tooDeep cfg d = true
        · unfold decList; rw [if_pos htd]; exact good_fail _ (by decide) (by decide)
        · exact decList_good d _ (hrec (by simpa using htd))
      split
      · by_cases htd : tooDeep cfg d = true
        · unfold decMap; rw [if_pos htd]; exact good_fail _ (by decide) (by decide)
        · exact decMap_good d _ (hrec (by simpa using htd))
      · exact good_fail _ (by simp) (by simp)

theorem decodeRes_good (cfg : Cfg) (bs : Bytes) : Good cfg bs.length (decodeRes cfg bs) :=
  decodeRec_good cfg (bs.length + 1) 0 bs (Nat.lt_succ_self _) (fun _ _ => Nat.zero_le _)

end Nervus.PropVal
