/-
  The clause-list induction of C11 on the relational core (UNWIND / WHERE / WITH / RETURN without aggregates and
  ORDER BY): compile never fails on a well-scoped query except for an invalid SKIP / LIMIT, and the compiled plan
  evaluates to exactly the list of rows the reference denotes.
-/
import Nervus.Proofs.CypherOps
import Nervus.Model.QRun
namespace Nervus.Cy
open Nervus.Cy Nervus.Cy.Compile

variable (A : Algebra) (env : Env)

/-! ### the compile-time scope (`extract_output_var_kinds`) against the reference scope -/

theorem lookup_insertSorted {β} (m : List (String × β)) (k : String) (v : β) (x : String) :
    (insertSorted m k v).lookup x = if x == k then some v else m.lookup x := by
  induction m with
  | nil => simp only [insertSorted, List.lookup]; split <;> simp_all
  | cons p rest ih =>
    obtain ⟨k', v'⟩ := p
    simp only [insertSorted]
    by_cases h1 : k < k'
    · simp only [h1, ↓reduceIte, List.lookup]; split <;> simp_all
    · simp only [h1, ↓reduceIte]
      by_cases h2 : (k == k') = true
      · have hk : k = k' := by simpa using h2
        subst hk
        simp only [BEq.rfl, ↓reduceIte, List.lookup]
        cases hx : x == k <;> simp
      · simp only [h2, Bool.false_eq_true, ↓reduceIte, List.lookup, ih]
        have hk : k ≠ k' := by simpa using h2
        cases hx' : x == k' <;> cases hx : x == k <;> simp_all

theorem lookup_filter_key {β} (m : List (String × β)) (P : String → Bool) (x : String) :
    (m.filter fun p => P p.1).lookup x = if P x then m.lookup x else none := by
  induction m with
  | nil => simp [List.lookup]
  | cons p rest ih =>
    obtain ⟨k, v⟩ := p
    by_cases hp : P k = true
    · simp only [List.filter_cons, hp, ↓reduceIte, List.lookup, ih]
      cases hx : x == k
      · simp
      · have : x = k := by simpa using hx
        subst this; simp [hp]
    · simp only [List.filter_cons, hp, Bool.false_eq_true, ↓reduceIte, List.lookup, ih]
      cases hx : x == k
      · simp
      · have : x = k := by simpa using hx
        subst this; simp [hp]

/-- the compile-time kinds describe the reference scope: the same variables, none of them a path or a
    relationship list (the kinds on which property access is a compile error) -/
def KOk (K : Kinds) (s : List String) : Prop :=
  ∀ v, (v ∈ s ↔ (K.lookup v).isSome = true) ∧ K.lookup v ≠ some .path ∧ K.lookup v ≠ some .relList

theorem KOk_nil : KOk [] [] := by intro v; simp [List.lookup]

theorem all_contains_iff (s : List String) (vs : List String) :
    vs.all s.contains = true ↔ ∀ v ∈ vs, v ∈ s := by
  simp [List.all_eq_true]

theorem validateProjExpr_ok (K : Kinds) (s : List String) (hK : KOk K s) (e : Expr)
    (he : Spec.exprOk s e = true) : validateProjExpr K e = .ok () := by
  unfold Spec.exprOk at he
  rw [all_contains_iff] at he
  induction e with
  | lit l => rfl
  | var x =>
    have := ((hK x).1.mp (he x (by simp [Expr.vars])))
    simp [validateProjExpr, this]
  | prop x k =>
    have h1 := ((hK x).1.mp (he x (by simp [Expr.vars])))
    have h2 := (hK x).2
    unfold validateProjExpr
    cases hl : K.lookup x with
    | none => simp [hl] at h1
    | some kd => cases kd <;> simp_all
  | param p => rfl
  | cmp op a b iha ihb =>
    simp only [Expr.vars, List.mem_append] at he
    simp [validateProjExpr, iha (fun v hv => he v (Or.inl hv)), ihb (fun v hv => he v (Or.inr hv)), bind, Except.bind]
  | bool op a b iha ihb =>
    simp only [Expr.vars, List.mem_append] at he
    simp [validateProjExpr, iha (fun v hv => he v (Or.inl hv)), ihb (fun v hv => he v (Or.inr hv)), bind, Except.bind]
  | not a ih => simp only [Expr.vars] at he; simp [validateProjExpr, ih he]
  | isNull a ih => simp only [Expr.vars] at he; simp [validateProjExpr, ih he]
  | isNotNull a ih => simp only [Expr.vars] at he; simp [validateProjExpr, ih he]
  | hasLabel a l ih => simp only [Expr.vars] at he; simp [validateProjExpr, ih he]
  | listLit xs => rfl

theorem exprVarsOk_ok (K : Kinds) (s : List String) (hK : KOk K s) (e : Expr)
    (he : Spec.exprOk s e = true) : exprVarsOk K e = .ok () := by
  unfold Spec.exprOk at he
  rw [all_contains_iff] at he
  unfold exprVarsOk
  have : (e.vars.all fun v => (K.lookup v).isSome) = true := by
    rw [List.all_eq_true]
    intro v hv
    exact (hK v).1.mp (he v hv)
  simp [this]

theorem forIn_yield_ok {α ε} (l : List α) (f : α → PUnit → Except ε (ForInStep PUnit))
    (h : ∀ x ∈ l, f x PUnit.unit = .ok (.yield PUnit.unit)) : forIn l PUnit.unit f = .ok PUnit.unit := by
  induction l with
  | nil => rfl
  | cons x xs ih =>
    rw [List.forIn_cons, h x (by simp)]
    simp only [bind, Except.bind]
    exact ih (fun y hy => h y (List.mem_cons_of_mem _ hy))

theorem isAggItem_eq (it : Item) : isAggItem it = Spec.isAgg it := by
  obtain ⟨e, a⟩ := it
  cases e <;> rfl

/-- compiling the items of a core projection: they validate, and the plan is one Project -/
theorem compileProjection_plain (input : Plan) (s : List String) (hK : KOk (outKinds input) s) (items : List Item)
    (hplain : items.any Spec.isAgg = false)
    (hnd : ((items.map (·.alias)).eraseDups.length == (items.map (·.alias)).length) = true)
    (hok : items.all (fun it => match it.expr with | .plain e => Spec.exprOk s e | .agg _ a => Spec.exprOk s a) = true) :
    compileProjection input items =
      .ok (.project input (items.map fun it => (it.alias, itemExprOf it.expr)), items.map (·.alias)) := by
  unfold compileProjection
  have hagg : items.any isAggItem = false := by
    rw [← hplain]; congr 1; funext it; exact isAggItem_eq it
  have hloop : ∀ it ∈ items, (match it.expr with
        | ItemExpr.plain e => (do validateProjExpr (outKinds input) e; pure (ForInStep.yield PUnit.unit) : Except Err _)
        | ItemExpr.agg AggKind.countStar _ => pure (ForInStep.yield PUnit.unit)
        | ItemExpr.agg _ a => do validateProjExpr (outKinds input) a; pure (ForInStep.yield PUnit.unit)) =
        .ok (ForInStep.yield PUnit.unit) := by
    intro it hit
    have h1 := List.all_eq_true.mp hok it hit
    have h2 : Spec.isAgg it = false := by simpa using List.any_eq_false.mp hplain it hit
    obtain ⟨ex, al⟩ := it
    cases ex with
    | plain e =>
      simp only at h1
      simp [validateProjExpr_ok _ s hK e h1, bind, Except.bind, pure, Except.pure]
    | agg k a => simp [Spec.isAgg] at h2
  have hne : ((items.map (·.alias)).eraseDups.length != (items.map (·.alias)).length) = false := by
    simp only [bne, hnd, Bool.not_true]
  simp only [bind, Except.bind, pure, Except.pure] at hloop ⊢
  rw [forIn_yield_ok items _ (fun it hit => hloop it hit)]
  simp [hagg]
  simpa using hnd

/-! ### the kinds after a projection -/

def NoBad (K : Kinds) : Prop := ∀ v, K.lookup v ≠ some .path ∧ K.lookup v ≠ some .relList

theorem inferKind_nobad (K : Kinds) (h : NoBad K) (e : Expr) : inferKind K e ≠ .path ∧ inferKind K e ≠ .relList := by
  cases e with
  | var x =>
    simp only [inferKind]
    have := h x
    cases hl : K.lookup x with
    | none => simp
    | some k => simp_all
  | lit l => cases l <;> simp [inferKind]
  | _ => simp [inferKind]

theorem foldl_insert_kinds (ps : List (String × Expr)) (K : Kinds) (hK : NoBad K) :
    NoBad (ps.foldl (fun vars (p : String × Expr) => insertSorted vars p.1 (inferKind vars p.2)) K) ∧
    ∀ v, ((ps.foldl (fun vars (p : String × Expr) => insertSorted vars p.1 (inferKind vars p.2)) K).lookup v).isSome =
      (ps.any (·.1 == v) || (K.lookup v).isSome) := by
  induction ps generalizing K with
  | nil => exact ⟨hK, fun v => by simp⟩
  | cons p rest ih =>
    have hK' : NoBad (insertSorted K p.1 (inferKind K p.2)) := by
      intro v
      rw [lookup_insertSorted]
      have := inferKind_nobad K hK p.2
      split
      · simp [this.1, this.2]
      · exact hK v
    obtain ⟨h1, h2⟩ := ih _ hK'
    refine ⟨h1, fun v => ?_⟩
    simp only [List.foldl_cons, List.any_cons]
    rw [h2 v, lookup_insertSorted]
    by_cases hv : (v == p.1) = true
    · have : (p.1 == v) = true := by rw [beq_iff_eq] at hv ⊢; exact hv.symm
      simp [hv, this]
    · have : (p.1 == v) = false := by
        cases h : p.1 == v
        · rfl
        · rw [beq_iff_eq] at h; exact absurd (by rw [beq_iff_eq]; exact h.symm) hv
      simp [hv, this, Bool.or_comm]

theorem KOk_project (i : Plan) (s : List String) (hK : KOk (outKinds i) s) (ps : List (String × Expr)) :
    KOk (outKinds (.project i ps)) (ps.map (·.1)) := by
  have hnb : NoBad (outKinds i) := fun v => (hK v).2
  obtain ⟨h1, h2⟩ := foldl_insert_kinds ps (outKinds i) hnb
  have hout : outKinds (.project i ps) =
      ((ps.foldl (fun vars (p : String × Expr) => insertSorted vars p.1 (inferKind vars p.2)) (outKinds i)).filter
        fun p => ps.any (·.1 == p.1)) := rfl
  intro v
  rw [hout, lookup_filter_key _ (fun k => ps.any (·.1 == k))]
  refine ⟨?_, ?_⟩
  · by_cases hv : ps.any (·.1 == v) = true
    · simp only [hv, ↓reduceIte, h2 v, Bool.true_or, iff_true]
      obtain ⟨p, hp, hpv⟩ := List.any_eq_true.mp hv
      rw [beq_iff_eq] at hpv
      exact hpv ▸ List.mem_map_of_mem hp
    · simp only [hv, Bool.false_eq_true, ↓reduceIte, Option.isSome_none, iff_false]
      intro hmem
      obtain ⟨p, hp, hpv⟩ := List.mem_map.mp hmem
      exact hv (List.any_eq_true.mpr ⟨p, hp, by rw [beq_iff_eq]; exact hpv⟩)
  · split
    · exact h1 v
    · simp

theorem KOk_unwind (i : Plan) (s : List String) (hK : KOk (outKinds i) s) (e : Expr) (x : String) :
    KOk (outKinds (.unwind i e x)) (s ++ [x]) := by
  have hout : outKinds (.unwind i e x) = insertSorted (outKinds i) x .unknown := rfl
  intro v
  rw [hout, lookup_insertSorted]
  by_cases hv : (v == x) = true
  · have : v = x := by simpa using hv
    simp [hv, this]
  · have hne : v ≠ x := by simpa using hv
    simp only [hv, Bool.false_eq_true, ↓reduceIte, List.mem_append, List.mem_singleton, hne, or_false]
    exact hK v

/-! ### WITH / RETURN of the core -/

theorem dedupBy_map_fst (X : List (Row × Row)) :
    (Spec.dedupBy (·.1) X).map (·.1) = Spec.dedupBy id (X.map (·.1)) := by
  induction X with
  | nil => rfl
  | cons x xs ih =>
    simp only [Spec.dedupBy, List.map_cons, id, ← ih, List.filter_map]
    rfl

theorem projectRows_fst (p : Proj) (T : Table) (hplain : p.items.any Spec.isAgg = false) :
    (Spec.projectRows A env p T).map (·.1) =
      (Spec.projectRows A env ⟨false, p.items, [], none, none⟩ T).map (·.1) := by
  simp [Spec.projectRows, hplain, List.map_map, Function.comp_def]

theorem projectRows_cols (p : Proj) (T : Table) (hplain : p.items.any Spec.isAgg = false) :
    ∀ x ∈ Spec.projectRows A env p T, ∀ y ∈ Spec.projectRows A env p T, x.1.cols = y.1.cols := by
  intro x hx y hy
  simp only [Spec.projectRows, hplain, Bool.false_eq_true, ↓reduceIte, List.mem_map] at hx hy
  obtain ⟨r, _, rfl⟩ := hx
  obtain ⟨r', _, rfl⟩ := hy
  simp [Row.cols, List.map_map, Function.comp_def]

theorem length_eraseDups_le (n : Nat) : ∀ (l : List String), l.length ≤ n → l.eraseDups.length ≤ l.length := by
  induction n with
  | zero => intro l h; cases l <;> simp_all
  | succ n ih =>
    intro l h
    cases l with
    | nil => simp
    | cons a as =>
      rw [List.eraseDups_cons]
      simp only [List.length_cons] at h ⊢
      have h1 := List.length_filter_le (fun b => !b == a) as
      have h2 := ih (as.filter fun b => !b == a) (by omega)
      omega

theorem eraseDups_nodup_aux (n : Nat) :
    ∀ (l : List String), l.length ≤ n → l.eraseDups.length = l.length → l.Nodup := by
  induction n with
  | zero => intro l h _; cases l <;> simp_all
  | succ n ih =>
    intro l h he
    cases l with
    | nil => simp
    | cons a as =>
      rw [List.eraseDups_cons] at he
      simp only [List.length_cons] at h he
      have h1 := List.length_filter_le (fun b => !b == a) as
      have h2 := length_eraseDups_le _ (as.filter fun b => !b == a) (Nat.le_refl _)
      have h3 : (as.filter fun b => !b == a).length = as.length := by omega
      have h4 : as.filter (fun b => !b == a) = as := by
        rw [List.filter_eq_self]
        exact List.length_filter_eq_length_iff.mp h3
      rw [h4] at he
      have := ih as (by omega) (by omega)
      rw [List.nodup_cons]
      refine ⟨?_, this⟩
      intro hmem
      have := List.filter_eq_self.mp h4 a hmem
      simp at this

/-- the engine's ColumnNameConflict test (`eraseDups` keeps the length) is distinctness of the output names -/
theorem eraseDups_nodup_of_length (l : List String) (h : (l.eraseDups.length == l.length) = true) : l.Nodup :=
  eraseDups_nodup_aux l.length l (Nat.le_refl _) (by simpa using h)

/-- **WITH / RETURN of the core**: compile fails only on an invalid SKIP / LIMIT (as the reference does), and the
    plan (Project, Distinct, Skip, Limit) evaluates to the reference rows; the compile-time scope afterwards is
    the list of output names. -/
theorem compileProj_core (input : Plan) (p : Proj) (T : Table) (s : List String)
    (hexec : Exec.exec A env input = .ok T) (hK : KOk (outKinds input) s)
    (hcore : coreProj p = true) (hok : Spec.projOk s p none = true) :
    (∃ e, compileProj input p none = .error e ∧ Spec.denoteProj A env p none T = .error e) ∨
    (∃ pl T', compileProj input p none = .ok pl ∧ Exec.exec A env pl = .ok T' ∧
      Spec.denoteProj A env p none T = .ok T' ∧ KOk (outKinds pl) (p.items.map (·.alias))) := by
  unfold coreProj at hcore
  simp only [Bool.and_eq_true, Bool.not_eq_true', List.isEmpty_iff] at hcore
  obtain ⟨hplain, hord⟩ := hcore
  unfold Spec.projOk at hok
  simp only [Bool.and_eq_true] at hok
  obtain ⟨⟨⟨⟨_, hnd⟩, hitems⟩, _⟩, _⟩ := hok
  have hc := compileProjection_plain input s hK p.items hplain hnd hitems
  have hnodup := eraseDups_nodup_of_length _ hnd
  have hproj := project_correct A env input p.items T hexec hplain hnodup
  have hKp := KOk_project input s hK (p.items.map fun it => (it.alias, itemExprOf it.expr))
  have hmap : (p.items.map fun it => (it.alias, itemExprOf it.expr)).map (·.1) = p.items.map (·.alias) := by
    simp [List.map_map, Function.comp_def]
  rw [hmap] at hKp
  have hdist : Exec.distinct ((Spec.projectRows A env ⟨false, p.items, [], none, none⟩ T).map (·.1)) =
      (Spec.dedupBy (·.1) (Spec.projectRows A env p T)).map (·.1) := by
    rw [← projectRows_fst A env p T hplain, distinct_correct _ (projectRows_cols A env p T hplain)]
  unfold compileProj
  simp only [hc, hord, bind, Except.bind, pure, Except.pure, List.isEmpty_nil, Bool.not_true,
    Bool.false_eq_true, ↓reduceIte]
  unfold Spec.denoteProj
  simp only [hord, List.isEmpty_nil, ↓reduceIte, bind, Except.bind, pure, Except.pure]
  have hfst := projectRows_fst A env p T hplain
  have hwin : ∀ (o : Option Lit), o = none ∨
      (∃ n k, o = some n ∧ validateWindow n = .ok () ∧ Exec.windowArg n = .ok k ∧ Spec.window (some n) = .ok (some k)) ∨
      (∃ n, o = some n ∧ validateWindow n = .error .syntax ∧ Spec.window (some n) = .error .syntax) := by
    intro o
    cases o with
    | none => left; rfl
    | some n =>
      right
      cases n with
      | int i =>
        by_cases hi : i < 0
        · right; exact ⟨_, rfl, by simp [validateWindow, Spec.window, hi]⟩
        · left; exact ⟨_, i.toNat, rfl, by simp [validateWindow, Exec.windowArg, Spec.window, hi]⟩
      | null => right; exact ⟨_, rfl, by simp [validateWindow, Spec.window]⟩
      | bool b => right; exact ⟨_, rfl, by simp [validateWindow, Spec.window]⟩
      | str b => right; exact ⟨_, rfl, by simp [validateWindow, Spec.window]⟩
  have hnone : Spec.window none = .ok none := rfl
  have hproj' : T.map (fun x => Exec.projectRow A env x (p.items.map fun it => (it.alias, itemExprOf it.expr))) =
      (Spec.projectRows A env ⟨false, p.items, [], none, none⟩ T).map (·.1) := by
    simpa [Exec.exec, hexec, bind, Except.bind, pure, Except.pure] using hproj
  rcases hd : p.distinct with _ | _ <;>
    rcases hwin p.skip with hs | ⟨n, k, hs, a1, a2, a3⟩ | ⟨n, hs, a1, a3⟩ <;>
    rcases hwin p.limit with hl | ⟨m, k', hl, b1, b2, b3⟩ | ⟨m, hl, b1, b3⟩ <;>
    simp only [*, Bool.false_eq_true, ↓reduceIte]
  all_goals first
    | (left; exact ⟨_, rfl, rfl⟩)
    | (right
       refine ⟨_, _, rfl, ?_, rfl, ?_⟩
       · simp only [*, Exec.exec, bind, Except.bind, pure, Except.pure, List.map_take, List.map_drop]
       · first | exact hKp | exact hKd)

/-! ### the clause-list induction -/

def runLoop (q : Query) (l : Loop) : Except Err Table :=
  match compileClauses q l with
  | .ok p => Exec.exec A env p
  | .error e => .error e

/-- **the induction**: from any loop state whose plan evaluates to `T` and whose compile-time scope is the
    reference scope, compiling and running the remaining core clauses gives exactly the rows the reference
    denotes from `T` (or the same error). -/
theorem core_induction (q : Query) : ∀ (b : Bool) (l : Loop) (T : Table) (s s' : List String),
    coreClauses b q = true → Spec.scopeAfter s q = some s' →
    l.pending = none → (b = true → l.plan.isSome = true) →
    Exec.exec A env (l.plan.getD .returnOne) = .ok T → KOk (outKinds (l.plan.getD .returnOne)) s →
    runLoop A env q l = (Spec.denoteClauses A env q T).map Spec.Result.rows := by
  induction q with
  | nil => intro b l T s s' hc; cases b <;> simp [coreClauses] at hc
  | cons c rest ih =>
    intro b l T s s' hc hs hpend hplan hexec hK
    obtain ⟨lplan, lst, lpend⟩ := l
    simp only at hpend hplan hexec hK
    subst hpend
    cases c with
    | match_ o ps => cases b <;> simp [coreClauses] at hc
    | where_ e =>
      cases b with
      | false => simp [coreClauses] at hc
      | true =>
        have hc' : coreClauses true rest = true := by simpa [coreClauses] using hc
        obtain ⟨pl, rfl⟩ := Option.isSome_iff_exists.mp (hplan rfl)
        simp only [Spec.scopeAfter] at hs
        split at hs
        · rename_i hok
          simp only [Option.getD_some] at hexec hK
          have hv := exprVarsOk_ok (outKinds pl) s hK e hok
          have hstep : runLoop A env (.where_ e :: rest) ⟨some pl, lst, none⟩ =
              runLoop A env rest ⟨some (.filter pl e), lst, none⟩ := by
            simp only [runLoop, compileClauses, List.map_nil, List.append_nil, hv, bind, Except.bind]
          rw [hstep, Spec.denoteClauses]
          exact ih true _ _ s s' hc' hs rfl (fun _ => rfl) (where_correct A env pl e T hexec) hK
        · cases hs
    | unwind e x =>
      have hc' : coreClauses true rest = true := by cases b <;> simpa [coreClauses] using hc
      simp only [Spec.scopeAfter] at hs
      split at hs
      · have hstep : runLoop A env (.unwind e x :: rest) ⟨lplan, lst, none⟩ =
            runLoop A env rest ⟨some (.unwind (lplan.getD .returnOne) e x), lst, none⟩ := by
          simp only [runLoop, compileClauses]
        rw [hstep, Spec.denoteClauses]
        exact ih true _ _ _ s' hc' hs rfl (fun _ => rfl) (unwind_correct A env _ e x T hexec)
          (KOk_unwind _ s hK e x)
      · cases hs
    | with_ p w =>
      cases w with
      | some w => cases b <;> simp [coreClauses] at hc
      | none =>
        have hc' : coreProj p = true ∧ coreClauses true rest = true := by
          cases b <;> simpa [coreClauses] using hc
        simp only [Spec.scopeAfter] at hs
        split at hs
        · rename_i hok
          rcases compileProj_core A env (lplan.getD .returnOne) p T s hexec hK hc'.1 hok with
            ⟨e, h1, h2⟩ | ⟨pl, T', h1, h2, h3, h4⟩
          · simp [runLoop, compileClauses, h1, Spec.denoteClauses, h2, bind, Except.bind, Except.map]
          · have hstep : runLoop A env (.with_ p none :: rest) ⟨lplan, lst, none⟩ =
                runLoop A env rest ⟨some pl, lst, none⟩ := by
              simp only [runLoop, compileClauses, h1, bind, Except.bind]
            rw [hstep]
            simp only [Spec.denoteClauses, h3, bind, Except.bind]
            exact ih true _ _ _ s' hc'.2 hs rfl (fun _ => rfl) h2 h4
        · cases hs
    | return_ p =>
      have hc' : coreProj p = true ∧ rest = [] := by
        cases rest with
        | nil => cases b <;> simpa [coreClauses] using hc
        | cons c' r' => cases b <;> simp [coreClauses] at hc
      obtain ⟨hcp, rfl⟩ := hc'
      simp only [Spec.scopeAfter, List.isEmpty_nil, Bool.and_true] at hs
      split at hs
      · rename_i hok
        rcases compileProj_core A env (lplan.getD .returnOne) p T s hexec hK hcp hok with
          ⟨e, h1, h2⟩ | ⟨pl, T', h1, h2, h3, h4⟩
        · simp [runLoop, compileClauses, h1, Spec.denoteClauses, h2, bind, Except.bind, Except.map]
        · simp [runLoop, compileClauses, h1, Spec.denoteClauses, h2, h3, bind, Except.bind, Except.map, pure,
            Except.pure]
          split <;> rfl
      · cases hs

/-- **C11 on the relational core** — for every value algebra, graph, parameter map and well-scoped core query the
    modelled engine returns exactly the reference's list of rows, or the same error. -/
theorem core_refines (q : Query) (hc : InCore q = true) (hs : Spec.WellScoped q) :
    Exec.run A env q = (Spec.denote A env q).map Spec.Result.rows := by
  unfold Spec.WellScoped at hs
  obtain ⟨s', hs'⟩ := Option.isSome_iff_exists.mp hs
  have h := core_induction A env q false {} [[]] [] s' hc hs' rfl (fun h => by cases h) rfl KOk_nil
  unfold Spec.denote
  rw [if_pos hs, ← h]
  rfl

theorem agrees_of_eq (m : Except Err Table) (d : Except Err Spec.Result) (h : m = d.map Spec.Result.rows) :
    Agrees m d := by
  subst h
  unfold Agrees agreesB
  cases d with
  | error e => simp [Except.map]
  | ok res => simp only [Except.map]; exact List.isPerm_iff.mpr (List.Perm.refl _)

end Nervus.Cy
