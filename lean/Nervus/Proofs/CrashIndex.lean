/-
  Proofs.CrashIndex — the index writes of a commit do not touch the files the crash theorems are
  about: the files (without the index) after a death at step n of an indexed commit are those of
  the plain commit after a death at the corresponding step.
-/
import Nervus.Model.IndexSteps
import Nervus.Proofs.CrashMain
namespace Nervus.Crash

theorem isteps_fs : ∀ (S : List IStep) (g : IFS), (g.steps S).fs = g.fs.steps (baseSteps S)
  | [], _ => rfl
  | s :: S, g => by
    have h1 : g.steps (s :: S) = (g.step s).steps S := rfl
    rw [h1, isteps_fs S]
    cases s with
    | base b => cases b <;> rfl
    | ixLeaf es => rfl
    | ixCat => rfl

theorem icrash_fs (g : IFS) (c : ICrash) : (g.crash c).fs = g.fs.crash c.mode := rfl

theorem baseSteps_append (a b : List IStep) : baseSteps (a ++ b) = baseSteps a ++ baseSteps b := by
  induction a with
  | nil => rfl
  | cons s a ih => cases s <;> simp [baseSteps, ih]

theorem baseSteps_map (l : List Step) : baseSteps (l.map IStep.base) = l := by
  induction l with
  | nil => rfl
  | cons s l ih => simp [baseSteps, ih]

theorem baseSteps_none (X : List IStep) (h : ∀ s ∈ X, ∀ b, s ≠ .base b) : baseSteps X = [] := by
  induction X with
  | nil => rfl
  | cons s X ih =>
    cases s with
    | base b => exact absurd rfl (h _ (by simp) b)
    | ixLeaf es => exact ih (fun s hs => h s (by simp [hs]))
    | ixCat => exact ih (fun s hs => h s (by simp [hs]))

/-- a prefix of the spliced list is, on the files, a prefix of the plain list -/
theorem baseSteps_take (A B : List Step) (X : List IStep) (hX : ∀ s ∈ X, ∀ b, s ≠ .base b) (n : Nat) :
    baseSteps ((A.map IStep.base ++ X ++ B.map IStep.base).take n) = (A ++ B).take (plainStep A.length X.length n) := by
  unfold plainStep
  by_cases h1 : n ≤ A.length
  · simp only [h1, if_true]
    rw [List.append_assoc, List.take_append_of_le_length (by simpa using h1), ← List.map_take, baseSteps_map,
      List.take_append_of_le_length h1]
  · simp only [h1, if_false]
    by_cases h2 : n ≤ A.length + X.length
    · simp only [h2, if_true]
      rw [List.take_append_of_le_length (by simp; omega)]
      have : (A.map IStep.base ++ X).take n = A.map IStep.base ++ X.take (n - A.length) := by
        rw [List.take_append, List.take_of_length_le (by simp; omega)]; simp
      rw [this, baseSteps_append, baseSteps_map, baseSteps_none _ (fun s hs => hX s (List.mem_of_mem_take hs)), List.append_nil]
      simp
    · simp only [h2, if_false]
      have : (A.map IStep.base ++ X ++ B.map IStep.base).take n = A.map IStep.base ++ X ++ (B.take (n - A.length - X.length)).map IStep.base := by
        rw [List.take_append]
        have hl : (A.map IStep.base ++ X).length ≤ n := by simp; omega
        rw [List.take_of_length_le hl, List.map_take]
        simp [Nat.sub_sub]
      rw [this, baseSteps_append, baseSteps_append, baseSteps_map, baseSteps_map, baseSteps_none X hX, List.append_nil]
      rw [List.take_append]
      have hA : A.take (n - X.length) = A := List.take_of_length_le (by omega)
      rw [hA]
      congr 2
      omega

/-- **the files after a death inside an indexed commit are those after a death inside the plain
    commit** (at the corresponding step, in the same crash mode) -/
theorem indexedDeath_fs (cfg : Cfg) (fs : FS) (ixd : List (Nat × Nat)) (ops : List HOp) (tx : Tx) (ixs : List (Nat × Nat))
    (n : Nat) (c : ICrash) :
    ∃ n', (indexedDeath cfg fs ixd ops tx ixs n c).fs = (⟨ops, .inCommit tx n', c.mode⟩ : Round).after cfg fs := by
  generalize hs : runOps cfg (run (openA cfg fs.pv fs.wf) .none fs {}).fs (run (openA cfg fs.pv fs.wf) .none fs {}).mem ops = s
  have hX : ∀ s' ∈ (if ixs.isEmpty then [] else [IStep.ixLeaf ixs, IStep.ixCat]), ∀ b, s' ≠ IStep.base b := by
    intro s' hs' b
    by_cases he : ixs.isEmpty = true <;> simp [he] at hs'
    rcases hs' with rfl | rfl <;> simp
  have htake := baseSteps_take ((ioSteps (commitA cfg s.2 s.1.pv s.1.wf tx)).take (commitPos cfg s.2 s.1.wf tx))
    ((ioSteps (commitA cfg s.2 s.1.pv s.1.wf tx)).drop (commitPos cfg s.2 s.1.wf tx)) _ hX n
  rw [List.take_append_drop] at htake
  refine ⟨plainStep ((ioSteps (commitA cfg s.2 s.1.pv s.1.wf tx)).take (commitPos cfg s.2 s.1.wf tx)).length
    (if ixs.isEmpty then [] else [IStep.ixLeaf ixs, IStep.ixCat]).length n, ?_⟩
  simp only [indexedDeath, Round.after, hs, icrash_fs, isteps_fs, run_crash_fs]
  unfold commitIxSteps
  simp only []
  rw [htake]

theorem afterRounds_snoc (cfg : Cfg) : ∀ (rounds : List Round) (fs : FS) (r : Round),
    afterRounds cfg fs (rounds ++ [r]) = r.after cfg (afterRounds cfg fs rounds)
  | [], _, _ => rfl
  | x :: rounds, fs, r => by
    show afterRounds cfg (x.after cfg fs) (rounds ++ [r]) = _
    rw [afterRounds_snoc cfg rounds]
    rfl

end Nervus.Crash
