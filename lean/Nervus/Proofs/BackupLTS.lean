/-
  Helper lemmas for C29: invariants of the backup LTS (Nervus.Model.BackupLTS).
-/
import Nervus.Model.BackupLTS
namespace Nervus.BackupLTS

/-- file-level invariant of the source database, by writer program point -/
def SrcInv (s : State) : Prop :=
  s.wal.ckpt ≤ s.wal.txs ∧ s.pf.store ≤ s.wal.txs ∧ s.wal.ckpt ≤ s.pf.store ∧
  (s.wal.msegs = 0 → s.wal.ckpt = 0) ∧ s.wal.ckpt ≤ s.pf.nodes ∧ s.wal.first ≤ s.wal.ckpt ∧
  s.pf.index = (if s.hasIndex then s.wal.txs else 0) ∧
  (match s.mode with
   | .idle => s.pf.nodes = s.wal.txs ∧ s.pf.segs = s.wal.msegs ∧ s.pf.store = s.wal.ckpt
   | .midCommit => s.pf.nodes + 1 = s.wal.txs ∧ s.pf.segs = s.wal.msegs ∧ s.pf.store = s.wal.ckpt
   | .compact1 => s.pf.nodes = s.wal.txs ∧ s.pf.segs = s.wal.msegs + 1 ∧ s.pf.store = s.wal.ckpt ∧ s.wal.ckpt < s.wal.txs
   | .compact2 => s.pf.nodes = s.wal.txs ∧ s.pf.segs = s.wal.msegs + 1 ∧ s.pf.store = s.wal.txs ∧ s.wal.ckpt < s.wal.txs)

/-- what is known about a restored pair -/
def Good (hasIndex : Bool) (pf0 : PF) (w1 : Wal) (c : Nat) : Prop :=
  ∃ v, recover pf0 w1 = some v ∧ Shows hasIndex v c

def BkInv (s : State) : Prop :=
  match s.bk with
  | .none => True
  | .started c0 => c0 ≤ s.wal.txs ∧ (s.sawAny = false → c0 = s.wal.txs) ∧ s.sawCommit = false ∧ s.sawCompact = false
  | .copiedPf c0 pf0 =>
    c0 ≤ s.wal.txs ∧ (s.sawAny = false → c0 = s.wal.txs) ∧ pf0.nodes ≤ s.wal.txs ∧ pf0.store ≤ s.wal.txs ∧
    (s.sawCompact = false → s.wal.msegs ≤ pf0.segs ∧ s.wal.ckpt ≤ pf0.nodes ∧ (s.wal.msegs = 0 ∨ s.wal.ckpt ≤ pf0.store)) ∧
    (s.hasIndex = true → s.sawCommit = false → pf0.index = s.wal.txs) ∧ (s.hasIndex = false → pf0.index = 0)
  | .done c0 c1 pf0 w1 =>
    c0 ≤ c1 ∧ (s.sawAny = false → c0 = c1) ∧
    (s.sawCompact = false → (s.hasIndex = true → s.sawCommit = false) → Good s.hasIndex pf0 w1 c1)

structure Inv (h0 : Bool) (s : State) : Prop where
  hasIdx : s.hasIndex = h0
  src : SrcInv s
  bk : BkInv s

theorem inv_init (h0 : Bool) : Inv h0 (init h0) :=
  ⟨rfl, by cases h0 <;> simp [SrcInv, init], by simp [BkInv, init]⟩

theorem good_of (hasIndex : Bool) (pf0 : PF) (w : Wal)
    (h1 : w.msegs ≤ pf0.segs) (h2 : w.ckpt ≤ pf0.nodes) (h3 : w.msegs = 0 ∨ w.ckpt ≤ pf0.store)
    (h4 : w.msegs = 0 → w.ckpt = 0) (h5 : pf0.nodes ≤ w.txs) (h6 : pf0.store ≤ w.txs) (_h7 : w.ckpt ≤ w.txs) (h9 : w.first ≤ w.ckpt)
    (h8 : pf0.index = if hasIndex then w.txs else 0) : Good hasIndex pf0 w w.txs := by
  refine ⟨_, by simp only [recover]; rw [if_neg (by omega), if_neg (by omega), if_neg (by omega)], ?_⟩
  refine ⟨by simp; omega, rfl, ?_, h8⟩
  intro k
  simp only [Content.hasProp]
  by_cases hm : w.msegs = 0
  · have := h4 hm; simp only [hm, if_true]; omega
  · simp only [hm, if_false]
    rcases h3 with h3 | h3
    · exact absurd h3 hm
    · omega

theorem inv_step {h0 : Bool} {s s' : State} {l : Label} (hi : Inv h0 s) (hs : step s l = some s') : Inv h0 s' := by
  obtain ⟨hh, hsrc, hbk⟩ := hi
  obtain ⟨pf, wal, mode, hasIndex, closed, bk, sC, sK, sA⟩ := s
  obtain ⟨nodes, segs, store, index⟩ := pf
  obtain ⟨txs, ckpt, msegs, first⟩ := wal
  simp only at hh
  cases l <;> simp only [step] at hs
  case cW =>
    split at hs
    · rename_i hm; obtain ⟨hm, hcl⟩ := hm; subst hm
      cases hs
      refine ⟨hh, ?_, ?_⟩
      · simp only [SrcInv, noteCommit] at hsrc ⊢
        cases hasIndex <;> simp_all <;> omega
      · cases bk <;> simp_all [BkInv, noteCommit, between, inBackup] <;> omega
    · cases hs
  case cI =>
    split at hs
    · rename_i hm; subst hm
      cases hs
      refine ⟨hh, ?_, ?_⟩
      · simp only [SrcInv, noteCommit] at hsrc ⊢
        simp_all <;> omega
      · cases bk <;> simp_all [BkInv, noteCommit, between, inBackup]
    · cases hs
  case kP =>
    split at hs
    · rename_i hm; obtain ⟨hm, hcl, hlt⟩ := hm; subst hm
      cases hs
      refine ⟨hh, ?_, ?_⟩
      · simp only [SrcInv, noteCompact] at hsrc ⊢
        simp_all
      · cases bk <;> simp_all [BkInv, noteCompact, between, inBackup]
    · cases hs
  case kS =>
    split at hs
    · rename_i hm; subst hm
      cases hs
      refine ⟨hh, ?_, ?_⟩
      · simp only [SrcInv, noteCompact] at hsrc ⊢
        simp_all <;> omega
      · cases bk <;> simp_all [BkInv, noteCompact, between, inBackup]
    · cases hs
  case kM =>
    split at hs
    · rename_i hm; subst hm
      cases hs
      refine ⟨hh, ?_, ?_⟩
      · simp only [SrcInv, noteCompact] at hsrc ⊢
        simp_all <;> omega
      · cases bk <;> simp_all [BkInv, noteCompact, between, inBackup]
    · cases hs
  case close =>
    split at hs
    · rename_i hm; obtain ⟨hm, hcl⟩ := hm; subst hm
      cases hs
      refine ⟨hh, ?_, ?_⟩
      · simp only [SrcInv, noteClose, closeWal] at hsrc ⊢
        split <;> simp_all <;> omega
      · cases bk <;> simp_all [BkInv, noteClose, closeWal, inBackup]
    · cases hs
  case reopen =>
    split at hs
    · cases hs
      exact ⟨hh, by simpa [SrcInv] using hsrc, by cases bk <;> simp_all [BkInv]⟩
    · cases hs
  case bStart =>
    split at hs
    · cases hs
      exact ⟨hh, by simpa [SrcInv] using hsrc, by simp_all [BkInv, SrcInv]⟩
    · cases hs
  case bPf =>
    split at hs
    · rename_i _ c0
      cases hs
      refine ⟨hh, by simpa [SrcInv] using hsrc, ?_⟩
      simp only [BkInv] at hbk ⊢
      simp only [SrcInv] at hsrc
      cases mode <;> cases hasIndex <;> simp_all <;> omega
    · cases hs
  case bWal =>
    split at hs
    · rename_i _ c0 pf0
      cases hs
      refine ⟨hh, by simpa [SrcInv] using hsrc, ?_⟩
      simp only [BkInv] at hbk ⊢
      simp only [SrcInv] at hsrc
      obtain ⟨b1, b2, b3, b4, b5, b6, b7⟩ := hbk
      refine ⟨b1, b2, ?_⟩
      intro hk hc
      obtain ⟨k1, k2, k3⟩ := b5 hk
      apply good_of hasIndex pf0 ⟨txs, ckpt, msegs, first⟩ k1 k2 k3 hsrc.2.2.2.1 b3 b4 hsrc.1 hsrc.2.2.2.2.2.1
      cases hasIndex
      · simpa using b7 rfl
      · simpa using b6 rfl (hc rfl)
    · cases hs
  case bForget =>
    split at hs
    · cases hs
      exact ⟨hh, by simpa [SrcInv] using hsrc, by simp [BkInv]⟩
    · cases hs

theorem reach_inv {h0 : Bool} {s : State} (h : Reach (init h0) s) : Inv h0 s := by
  induction h with
  | refl => exact inv_init h0
  | step l _ hs ih => exact inv_step ih hs

theorem reach_of_runTrace {s0 s s' : State} (tr : List Label)
    (h0 : Reach s0 s) (h : runTrace s tr = some s') : Reach s0 s' := by
  induction tr generalizing s with
  | nil => simp [runTrace] at h; subst h; exact h0
  | cons l ls ih =>
    simp only [runTrace] at h
    split at h
    · rename_i s1 hs1; exact ih (Reach.step l h0 hs1) h
    · cases h

end Nervus.BackupLTS
