/-
  Proofs/CsrForward.lean — the CSR construction lemma, forward index: for EVERY edge list the segment
  built by `buildForward` (engine.rs build_segment_from_runs / bulkload.rs build_segments) answers
  `neighbors(src, rel)` with exactly the edges of that source (as a multiset), and never panics.
  Shared by C05 and C30.
-/
import Nervus.Proofs.EngineReads
namespace Nervus.Storage

theorem prefixSums_head (ls : List Nat) (c : Nat) : (prefixSums ls c)[0]? = some c := by
  cases ls <;> rfl

/-- offsets computed as running counts delimit exactly the groups of the flattened list -/
theorem prefixSums_slices {α} (gs : List (List α)) :
    ∀ (pre : List α) (i : Nat) (g : List α), gs[i]? = some g →
      ∃ a, (prefixSums (gs.map List.length) pre.length)[i]? = some a ∧
        (prefixSums (gs.map List.length) pre.length)[i + 1]? = some (a + g.length) ∧
        ((pre ++ gs.flatten).drop a).take g.length = g ∧ a + g.length ≤ (pre ++ gs.flatten).length := by
  induction gs with
  | nil => intro pre i g h; simp at h
  | cons h t ih =>
    intro pre i g hg
    cases i with
    | zero =>
      simp only [List.getElem?_cons_zero, Option.some.injEq] at hg
      subst hg
      refine ⟨pre.length, ?_, ?_, ?_, ?_⟩
      · simp [prefixSums]
      · simp only [List.map_cons, prefixSums, Nat.zero_add, List.getElem?_cons_succ]
        exact prefixSums_head _ _
      · simp [List.flatten_cons]
      · simp [List.flatten_cons]
    | succ j =>
      simp only [List.getElem?_cons_succ] at hg
      obtain ⟨a, h1, h2, h3, h4⟩ := ih (pre ++ h) j g hg
      refine ⟨a, ?_, ?_, ?_, ?_⟩
      · simpa [prefixSums, List.length_append] using h1
      · simpa [prefixSums, List.length_append] using h2
      · simpa [List.flatten_cons, List.append_assoc] using h3
      · simpa [List.flatten_cons, List.append_assoc] using h4

theorem slice_of_group {α} (gs : List (List α)) (i : Nat) (g : List α) (hg : gs[i]? = some g) :
    ∃ a b, (prefixSums (gs.map List.length) 0)[i]? = some a ∧
      (prefixSums (gs.map List.length) 0)[i + 1]? = some b ∧ slice gs.flatten a b = some g := by
  obtain ⟨a, h1, h2, h3, h4⟩ := prefixSums_slices gs [] i g hg
  simp only [List.length_nil, List.nil_append] at h1 h2 h3 h4
  refine ⟨a, a + g.length, h1, h2, ?_⟩
  unfold slice
  rw [if_pos ⟨Nat.le_add_right _ _, h4⟩]
  simp [h3]

/-! ### min / max of the sources -/

theorem foldl_min_le (es : List Edge) (m : Nat) :
    es.foldl (fun m e => min m e.src) m ≤ m ∧ ∀ e ∈ es, es.foldl (fun m e => min m e.src) m ≤ e.src := by
  induction es generalizing m with
  | nil => simp
  | cons a as ih =>
    simp only [List.foldl_cons, List.mem_cons, forall_eq_or_imp]
    obtain ⟨h1, h2⟩ := ih (min m a.src)
    refine ⟨by omega, by omega, h2⟩

theorem foldl_max_ge (es : List Edge) (m : Nat) :
    m ≤ es.foldl (fun m e => max m e.src) m ∧ ∀ e ∈ es, e.src ≤ es.foldl (fun m e => max m e.src) m := by
  induction es generalizing m with
  | nil => simp
  | cons a as ih =>
    simp only [List.foldl_cons, List.mem_cons, forall_eq_or_imp]
    obtain ⟨h1, h2⟩ := ih (max m a.src)
    refine ⟨by omega, by omega, h2⟩

/-! ### one group, read back -/

theorem group_readback (es : List Edge) (src : Nat) (rel : Option Nat) :
    (((srcGroup es src).filter (recOk rel)).map (fun r => (⟨src, r.1, r.2⟩ : Edge))).Perm
      (es.filter (fun e => e.src == src && relOk rel e)) := by
  unfold srcGroup
  have h1 : ((isort rdLe ((es.filter (·.src == src)).map (fun e => (e.rel, e.dst)))).filter (recOk rel)).Perm
      (((es.filter (·.src == src)).map (fun e => (e.rel, e.dst))).filter (recOk rel)) :=
    (isort_perm _ _).filter _
  refine (h1.map _).trans ?_
  rw [List.filter_map, List.map_map, List.filter_filter]
  have h2 : ∀ e ∈ es.filter (fun e => (recOk rel ∘ fun e => (e.rel, e.dst)) e && (e.src == src)),
      ((fun r => (⟨src, r.1, r.2⟩ : Edge)) ∘ fun e => (e.rel, e.dst)) e = e := by
    intro e he
    have := (List.mem_filter.mp he).2
    simp only [Bool.and_eq_true, beq_iff_eq] at this
    obtain ⟨_, hs⟩ := this
    cases e; simp only [Function.comp] at hs ⊢; subst hs; rfl
  rw [List.map_congr_left h2, List.map_id']
  apply List.Perm.of_eq
  apply List.filter_congr
  intro e _
  cases rel <;> simp [recOk, relOk, Bool.and_comm]

/-- **CSR construction lemma (forward)** -/
theorem buildForward_neighbors (id : Nat) (es : List Edge) (src : Nat) (rel : Option Nat) :
    ∃ l, (buildForward id es).neighbors src rel = some l ∧
      l.Perm (es.filter (fun e => e.src == src && relOk rel e)) := by
  have hperm := isort_perm Edge.le es
  have hfilter : ((isort Edge.le es).filter (fun e => e.src == src && relOk rel e)).Perm
      (es.filter (fun e => e.src == src && relOk rel e)) := hperm.filter _
  unfold buildForward
  simp only
  by_cases hemp : (isort Edge.le es).isEmpty = true
  · rw [if_pos hemp]
    have hnil : isort Edge.le es = [] := List.isEmpty_iff.mp hemp
    have hes : es = [] := by
      have := hperm.length_eq; rw [hnil] at this; exact List.length_eq_zero_iff.mp this.symm
    subst hes
    refine ⟨[], ?_, by simp⟩
    unfold Seg.neighbors emptySeg
    by_cases h0 : src = 0
    · subst h0; simp [slice]
    · have hpos : 0 < src := Nat.pos_of_ne_zero h0
      simp [hpos, h0]
  · rw [if_neg hemp]
    generalize hes' : isort Edge.le es = es' at *
    obtain ⟨_, hmin⟩ := foldl_min_le es' 4294967295
    obtain ⟨_, hmax⟩ := foldl_max_ge es' 0
    generalize hmn : es'.foldl (fun m e => min m e.src) 4294967295 = mn at *
    generalize hmx : es'.foldl (fun m e => max m e.src) 0 = mx at *
    unfold Seg.neighbors
    simp only
    by_cases hout : (src < mn || src > mx) = true
    · rw [if_pos hout]
      refine ⟨[], rfl, ?_⟩
      refine List.Perm.trans ?_ hfilter
      apply List.Perm.of_eq
      symm
      apply List.filter_eq_nil_iff.mpr
      intro e he
      have h1 := hmin e he
      have h2 := hmax e he
      simp only [Bool.or_eq_true, decide_eq_true_eq] at hout
      simp only [Bool.and_eq_true, beq_iff_eq, not_and]
      intro hs; omega
    · rw [if_neg hout]
      simp only [Bool.or_eq_true, decide_eq_true_eq, not_or, Nat.not_lt] at hout
      have hidx : src - mn < mx - mn + 1 := by omega
      have hg : ((List.range (mx - mn + 1)).map (fun i => srcGroup es' (mn + i)))[src - mn]? =
          some (srcGroup es' src) := by
        rw [List.getElem?_map, List.getElem?_range hidx]
        simp only [Option.map_some]
        congr 2; omega
      obtain ⟨a, b, ha, hb, hs⟩ := slice_of_group _ _ _ hg
      rw [ha, hb]
      simp only [hs, Option.map_some]
      exact ⟨_, rfl, (group_readback es' src rel).trans hfilter⟩

end Nervus.Storage
