/-
  Proofs.Derived — the derived `PartialOrd` of `Value` (`Value.dcmp`) is a lawful *partial* three-way
  comparison: antisymmetric (`dcmp_swap`) and transitive on its `some` results (`dcmp_trans`), for all values.
  Also the framework for partial comparisons (`PLaws`, `thenP_trans`).  Core only.
-/
import Nervus.Proofs.F64
namespace Nervus
open F64 Value

/-- laws of a *partial* three-way comparison (`Option Ordering`, `none` = incomparable) -/
structure PLaws {α : Type} (c : α → α → Option Ordering) : Prop where
  swap : ∀ a b, c a b = (c b a).map Ordering.swap
  trans : ∀ a b d o1 o2, c a b = some o1 → c b d = some o2 → o1 ≠ .gt → o2 ≠ .gt → c a d = some (o1.then o2)

theorem thenP_some_iff {o r : Option Ordering} {x : Ordering} :
    thenP o r = some x ↔ (o = some .eq ∧ r = some x) ∨ (o = some x ∧ x ≠ .eq) := by
  unfold thenP
  cases o with
  | none => simp
  | some v => cases v <;> cases x <;> simp

theorem thenP_swap (o r : Option Ordering) :
    (thenP o r).map Ordering.swap = thenP (o.map Ordering.swap) (r.map Ordering.swap) := by
  cases o with
  | none => rfl
  | some v => cases v <;> simp [thenP, Ordering.swap]

/-- lifting total laws -/
theorem PLaws.ofTotal {α : Type} {c : α → α → Ordering} (h : CmpLaws c) : PLaws (fun a b => some (c a b)) where
  swap a b := by simp [h.swap a b]
  trans a b d o1 o2 h1 h2 n1 n2 := by
    simp only [Option.some.injEq] at h1 h2 ⊢
    subst h1 h2
    exact h.trans a b d n1 n2

theorem f64cmp_plaws : PLaws F64.cmp where
  swap a b := by
    unfold F64.cmp
    by_cases h1 : a.isNaN <;> by_cases h2 : b.isNaN <;> simp [h1, h2, cmpTK_laws.swap a b]
  trans a b d o1 o2 h1 h2 n1 n2 := by
    unfold F64.cmp at *
    by_cases ha : a.isNaN <;> by_cases hb : b.isNaN <;> by_cases hd : d.isNaN <;> simp_all
    subst h1 h2
    exact cmpTK_laws.trans a b d n1 n2

/-- trans law of a lexicographic step: (head comparison, tail comparison) -/
theorem thenP_trans {h1 h2 h3 t1 t2 t3 : Option Ordering}
    (hh : ∀ o1 o2, h1 = some o1 → h2 = some o2 → o1 ≠ .gt → o2 ≠ .gt → h3 = some (o1.then o2))
    (ht : ∀ o1 o2, t1 = some o1 → t2 = some o2 → o1 ≠ .gt → o2 ≠ .gt → t3 = some (o1.then o2))
    (o1 o2 : Ordering) (e1 : thenP h1 t1 = some o1) (e2 : thenP h2 t2 = some o2) (n1 : o1 ≠ .gt) (n2 : o2 ≠ .gt) :
    thenP h3 t3 = some (o1.then o2) := by
  rw [thenP_some_iff] at e1 e2
  rcases e1 with ⟨a1, b1⟩ | ⟨a1, b1⟩ <;> rcases e2 with ⟨a2, b2⟩ | ⟨a2, b2⟩
  · rw [hh _ _ a1 a2 (by simp) (by simp)]; simp only [Ordering.then]
    rw [thenP]; exact ht _ _ b1 b2 n1 n2
  · rw [hh _ _ a1 a2 (by simp) n2]
    cases o1 <;> cases o2 <;> simp_all [thenP, Ordering.then]
  · rw [hh _ _ a1 a2 n1 (by simp)]
    cases o1 <;> cases o2 <;> simp_all [thenP, Ordering.then]
  · rw [hh _ _ a1 a2 n1 n2]
    cases o1 <;> cases o2 <;> simp_all [thenP, Ordering.then]


theorem dcmp_of_vidx_ne (a b : Value) (h : vidx a ≠ vidx b) : dcmp a b = some (cmpNat (vidx a) (vidx b)) := by
  cases a <;> cases b <;> first | rfl | exact absurd rfl h

mutual
theorem dcmp_swap : ∀ (a b : Value), dcmp a b = (dcmp b a).map Ordering.swap
  | .list xs, b => by
    cases b <;> first | exact dcmpList_swap xs _ | (simp only [dcmp, Option.map]; rw [cmpNat_laws.swap])
  | .map xs, b => by
    cases b <;> first | exact dcmpMap_swap xs _ | (simp only [dcmp, Option.map]; rw [cmpNat_laws.swap])
  | .null, b => by cases b <;> first | rfl | (simp only [dcmp, Option.map]; rw [cmpNat_laws.swap])
  | .bool x, b => by
    cases b <;> first | (simp only [dcmp, Option.map]; rw [cmpBool_laws.swap]) | (simp only [dcmp, Option.map]; rw [cmpNat_laws.swap])
  | .int x, b => by
    cases b <;> first | (simp only [dcmp, Option.map]; rw [cmpInt_laws.swap]) | (simp only [dcmp, Option.map]; rw [cmpNat_laws.swap])
  | .float x, b => by
    cases b <;> first | (simp only [dcmp]; exact f64cmp_plaws.swap _ _) | (simp only [dcmp, Option.map]; rw [cmpNat_laws.swap])
  | .str x, b => by
    cases b <;> first | (simp only [dcmp, Option.map]; rw [cmpBytes_laws.swap]) | (simp only [dcmp, Option.map]; rw [cmpNat_laws.swap])
  | .nodeId x, b => by
    cases b <;> (simp only [dcmp, Option.map]; rw [cmpNat_laws.swap])
  | .externalId x, b => by
    cases b <;> (simp only [dcmp, Option.map]; rw [cmpNat_laws.swap])
  | .edgeKey x, b => by
    cases b <;> first | (simp only [dcmp, Option.map]; rw [cmpEKey_laws.swap]) | (simp only [dcmp, Option.map]; rw [cmpNat_laws.swap])
  | .dateTime x, b => by
    cases b <;> first | (simp only [dcmp, Option.map]; rw [cmpInt_laws.swap]) | (simp only [dcmp, Option.map]; rw [cmpNat_laws.swap])
  | .blob x, b => by
    cases b <;> first | (simp only [dcmp, Option.map]; rw [cmpBytes_laws.swap]) | (simp only [dcmp, Option.map]; rw [cmpNat_laws.swap])
  | .path n e, b => by
    cases b <;> first
      | (simp only [dcmp, Option.map]; rw [Ordering.swap_then, ← cmpNatList_laws.swap, ← cmpEKeyList_laws.swap])
      | (simp only [dcmp, Option.map]; rw [cmpNat_laws.swap])
theorem dcmpList_swap : ∀ (a b : List Value), dcmpList a b = (dcmpList b a).map Ordering.swap
  | [], b => by cases b <;> rfl
  | x :: xs, b => by
    cases b with
    | nil => rfl
    | cons y ys => simp only [dcmpList]; rw [thenP_swap, ← dcmp_swap x y, ← dcmpList_swap xs ys]
theorem dcmpMap_swap : ∀ (a b : List (Str × Value)), dcmpMap a b = (dcmpMap b a).map Ordering.swap
  | [], b => by cases b <;> rfl
  | (k, x) :: xs, b => by
    cases b with
    | nil => rfl
    | cons y ys =>
      obtain ⟨k', y⟩ := y
      simp only [dcmpMap]
      rw [thenP_swap, thenP_swap, ← dcmp_swap x y, ← dcmpMap_swap xs ys]
      simp only [Option.map]; rw [← cmpBytes_laws.swap]
end

theorem dcmp_trans_mixed (a b d : Value) (h : vidx a ≠ vidx b ∨ vidx b ≠ vidx d) (o1 o2 : Ordering)
    (h1 : dcmp a b = some o1) (h2 : dcmp b d = some o2) (n1 : o1 ≠ .gt) (n2 : o2 ≠ .gt) :
    dcmp a d = some (o1.then o2) := by
  by_cases hab : vidx a = vidx b
  · have hbd : vidx b ≠ vidx d := by omega
    rw [dcmp_of_vidx_ne b d hbd] at h2
    simp only [Option.some.injEq] at h2
    subst h2
    rw [cmpNat_ne_gt] at n2
    have : vidx a < vidx d := by omega
    rw [dcmp_of_vidx_ne a d (by omega), cmpNat_lt.2 this, cmpNat_lt.2 (by omega : vidx b < vidx d)]
    cases o1 <;> simp_all [Ordering.then]
  · rw [dcmp_of_vidx_ne a b hab] at h1
    simp only [Option.some.injEq] at h1
    subst h1
    rw [cmpNat_ne_gt] at n1
    have hlt : vidx a < vidx b := by omega
    rw [cmpNat_lt.2 hlt]
    by_cases hbd : vidx b = vidx d
    · rw [dcmp_of_vidx_ne a d (by omega), cmpNat_lt.2 (by omega)]; rfl
    · rw [dcmp_of_vidx_ne b d hbd] at h2
      simp only [Option.some.injEq] at h2
      subst h2
      rw [cmpNat_ne_gt] at n2
      rw [dcmp_of_vidx_ne a d (by omega), cmpNat_lt.2 (by omega)]; rfl

/-- the declaration indices are pairwise distinct: refute `vidx x = vidx y` for different constructors -/
macro "vidx_absurd" h:ident : tactic => `(tactic|
  (simp [vidx, Generated.vidxNull, Generated.vidxBool, Generated.vidxInt, Generated.vidxFloat,
    Generated.vidxString, Generated.vidxList, Generated.vidxMap, Generated.vidxNodeId, Generated.vidxExternalId,
    Generated.vidxEdgeKey, Generated.vidxDateTime, Generated.vidxBlob, Generated.vidxPath] at $h:ident))

/-- transitivity of a leaf class given the laws of its total comparison -/
theorem some_trans {α : Type} {c : α → α → Ordering} (hc : CmpLaws c) (x y z : α) (o1 o2 : Ordering)
    (h1 : some (c x y) = some o1) (h2 : some (c y z) = some o2) (n1 : o1 ≠ .gt) (n2 : o2 ≠ .gt) :
    some (c x z) = some (o1.then o2) := by
  simp only [Option.some.injEq] at h1 h2 ⊢
  subst h1 h2
  exact hc.trans x y z n1 n2

theorem path_cmp_laws : CmpLaws (fun (p q : List Nat × List EKey) => (cmpNatList p.1 q.1).then (cmpEKeyList p.2 q.2)) :=
  CmpLaws.lex cmpNatList_laws cmpEKeyList_laws Prod.fst Prod.snd

set_option maxHeartbeats 400000 in
mutual
theorem dcmp_trans : ∀ (a b d : Value) (o1 o2 : Ordering), dcmp a b = some o1 → dcmp b d = some o2 →
    o1 ≠ .gt → o2 ≠ .gt → dcmp a d = some (o1.then o2)
  | .list xs, b, d, o1, o2, h1, h2, n1, n2 => by
    by_cases hm : vidx (.list xs) ≠ vidx b ∨ vidx b ≠ vidx d
    · exact dcmp_trans_mixed _ _ _ hm _ _ h1 h2 n1 n2
    · have e1 : vidx (.list xs) = vidx b := by omega
      have e2 : vidx b = vidx d := by omega
      cases b <;> try (vidx_absurd e1; done)
      cases d <;> try (vidx_absurd e2; done)
      exact dcmpList_trans xs _ _ o1 o2 h1 h2 n1 n2
  | .map xs, b, d, o1, o2, h1, h2, n1, n2 => by
    by_cases hm : vidx (.map xs) ≠ vidx b ∨ vidx b ≠ vidx d
    · exact dcmp_trans_mixed _ _ _ hm _ _ h1 h2 n1 n2
    · have e1 : vidx (.map xs) = vidx b := by omega
      have e2 : vidx b = vidx d := by omega
      cases b <;> try (vidx_absurd e1; done)
      cases d <;> try (vidx_absurd e2; done)
      exact dcmpMap_trans xs _ _ o1 o2 h1 h2 n1 n2
  | .null, b, d, o1, o2, h1, h2, n1, n2 => by
    by_cases hm : vidx .null ≠ vidx b ∨ vidx b ≠ vidx d
    · exact dcmp_trans_mixed _ _ _ hm _ _ h1 h2 n1 n2
    · have e1 : vidx .null = vidx b := by omega
      have e2 : vidx b = vidx d := by omega
      cases b <;> try (vidx_absurd e1; done)
      cases d <;> try (vidx_absurd e2; done)
      simp only [dcmp, Option.some.injEq] at h1 h2 ⊢; subst h1 h2; rfl
  | .bool x, b, d, o1, o2, h1, h2, n1, n2 => by
    by_cases hm : vidx (.bool x) ≠ vidx b ∨ vidx b ≠ vidx d
    · exact dcmp_trans_mixed _ _ _ hm _ _ h1 h2 n1 n2
    · have e1 : vidx (.bool x) = vidx b := by omega
      have e2 : vidx b = vidx d := by omega
      cases b <;> try (vidx_absurd e1; done)
      cases d <;> try (vidx_absurd e2; done)
      exact some_trans cmpBool_laws _ _ _ o1 o2 h1 h2 n1 n2
  | .int x, b, d, o1, o2, h1, h2, n1, n2 => by
    by_cases hm : vidx (.int x) ≠ vidx b ∨ vidx b ≠ vidx d
    · exact dcmp_trans_mixed _ _ _ hm _ _ h1 h2 n1 n2
    · have e1 : vidx (.int x) = vidx b := by omega
      have e2 : vidx b = vidx d := by omega
      cases b <;> try (vidx_absurd e1; done)
      cases d <;> try (vidx_absurd e2; done)
      exact some_trans cmpInt_laws _ _ _ o1 o2 h1 h2 n1 n2
  | .float x, b, d, o1, o2, h1, h2, n1, n2 => by
    by_cases hm : vidx (.float x) ≠ vidx b ∨ vidx b ≠ vidx d
    · exact dcmp_trans_mixed _ _ _ hm _ _ h1 h2 n1 n2
    · have e1 : vidx (.float x) = vidx b := by omega
      have e2 : vidx b = vidx d := by omega
      cases b <;> try (vidx_absurd e1; done)
      cases d <;> try (vidx_absurd e2; done)
      exact f64cmp_plaws.trans _ _ _ o1 o2 h1 h2 n1 n2
  | .str x, b, d, o1, o2, h1, h2, n1, n2 => by
    by_cases hm : vidx (.str x) ≠ vidx b ∨ vidx b ≠ vidx d
    · exact dcmp_trans_mixed _ _ _ hm _ _ h1 h2 n1 n2
    · have e1 : vidx (.str x) = vidx b := by omega
      have e2 : vidx b = vidx d := by omega
      cases b <;> try (vidx_absurd e1; done)
      cases d <;> try (vidx_absurd e2; done)
      exact some_trans cmpBytes_laws _ _ _ o1 o2 h1 h2 n1 n2
  | .nodeId x, b, d, o1, o2, h1, h2, n1, n2 => by
    by_cases hm : vidx (.nodeId x) ≠ vidx b ∨ vidx b ≠ vidx d
    · exact dcmp_trans_mixed _ _ _ hm _ _ h1 h2 n1 n2
    · have e1 : vidx (.nodeId x) = vidx b := by omega
      have e2 : vidx b = vidx d := by omega
      cases b <;> try (vidx_absurd e1; done)
      cases d <;> try (vidx_absurd e2; done)
      exact some_trans cmpNat_laws _ _ _ o1 o2 h1 h2 n1 n2
  | .externalId x, b, d, o1, o2, h1, h2, n1, n2 => by
    by_cases hm : vidx (.externalId x) ≠ vidx b ∨ vidx b ≠ vidx d
    · exact dcmp_trans_mixed _ _ _ hm _ _ h1 h2 n1 n2
    · have e1 : vidx (.externalId x) = vidx b := by omega
      have e2 : vidx b = vidx d := by omega
      cases b <;> try (vidx_absurd e1; done)
      cases d <;> try (vidx_absurd e2; done)
      exact some_trans cmpNat_laws _ _ _ o1 o2 h1 h2 n1 n2
  | .edgeKey x, b, d, o1, o2, h1, h2, n1, n2 => by
    by_cases hm : vidx (.edgeKey x) ≠ vidx b ∨ vidx b ≠ vidx d
    · exact dcmp_trans_mixed _ _ _ hm _ _ h1 h2 n1 n2
    · have e1 : vidx (.edgeKey x) = vidx b := by omega
      have e2 : vidx b = vidx d := by omega
      cases b <;> try (vidx_absurd e1; done)
      cases d <;> try (vidx_absurd e2; done)
      exact some_trans cmpEKey_laws _ _ _ o1 o2 h1 h2 n1 n2
  | .dateTime x, b, d, o1, o2, h1, h2, n1, n2 => by
    by_cases hm : vidx (.dateTime x) ≠ vidx b ∨ vidx b ≠ vidx d
    · exact dcmp_trans_mixed _ _ _ hm _ _ h1 h2 n1 n2
    · have e1 : vidx (.dateTime x) = vidx b := by omega
      have e2 : vidx b = vidx d := by omega
      cases b <;> try (vidx_absurd e1; done)
      cases d <;> try (vidx_absurd e2; done)
      exact some_trans cmpInt_laws _ _ _ o1 o2 h1 h2 n1 n2
  | .blob x, b, d, o1, o2, h1, h2, n1, n2 => by
    by_cases hm : vidx (.blob x) ≠ vidx b ∨ vidx b ≠ vidx d
    · exact dcmp_trans_mixed _ _ _ hm _ _ h1 h2 n1 n2
    · have e1 : vidx (.blob x) = vidx b := by omega
      have e2 : vidx b = vidx d := by omega
      cases b <;> try (vidx_absurd e1; done)
      cases d <;> try (vidx_absurd e2; done)
      exact some_trans cmpBytes_laws _ _ _ o1 o2 h1 h2 n1 n2
  | .path n e, b, d, o1, o2, h1, h2, n1, n2 => by
    by_cases hm : vidx (.path n e) ≠ vidx b ∨ vidx b ≠ vidx d
    · exact dcmp_trans_mixed _ _ _ hm _ _ h1 h2 n1 n2
    · have e1 : vidx (.path n e) = vidx b := by omega
      have e2 : vidx b = vidx d := by omega
      cases b <;> try (vidx_absurd e1; done)
      cases d <;> try (vidx_absurd e2; done)
      rename_i n2' e2' n3 e3
      exact some_trans path_cmp_laws (n, e) (n2', e2') (n3, e3) o1 o2 h1 h2 n1 n2
theorem dcmpList_trans : ∀ (a b d : List Value) (o1 o2 : Ordering), dcmpList a b = some o1 → dcmpList b d = some o2 →
    o1 ≠ .gt → o2 ≠ .gt → dcmpList a d = some (o1.then o2)
  | [], b, d, o1, o2, h1, h2, n1, n2 => by
    cases b <;> cases d <;> simp only [dcmpList, Option.some.injEq] at h1 h2 ⊢ <;> subst h1 <;>
      first | rfl | (subst h2; first | rfl | exact absurd rfl n2)
  | x :: xs, b, d, o1, o2, h1, h2, n1, n2 => by
    cases b with
    | nil => simp_all [dcmpList]
    | cons y ys =>
      cases d with
      | nil => simp_all [dcmpList]
      | cons z zs =>
        simp only [dcmpList] at h1 h2 ⊢
        exact thenP_trans (dcmp_trans x y z) (dcmpList_trans xs ys zs) o1 o2 h1 h2 n1 n2
theorem dcmpMap_trans : ∀ (a b d : List (Str × Value)) (o1 o2 : Ordering), dcmpMap a b = some o1 →
    dcmpMap b d = some o2 → o1 ≠ .gt → o2 ≠ .gt → dcmpMap a d = some (o1.then o2)
  | [], b, d, o1, o2, h1, h2, n1, n2 => by
    cases b <;> cases d <;> simp only [dcmpMap, Option.some.injEq] at h1 h2 ⊢ <;> subst h1 <;>
      first | rfl | (subst h2; first | rfl | exact absurd rfl n2)
  | (k, x) :: xs, b, d, o1, o2, h1, h2, n1, n2 => by
    cases b with
    | nil => simp_all [dcmpMap]
    | cons y ys =>
      cases d with
      | nil => simp_all [dcmpMap]
      | cons z zs =>
        obtain ⟨k2, y⟩ := y
        obtain ⟨k3, z⟩ := z
        simp only [dcmpMap] at h1 h2 ⊢
        refine thenP_trans ?_ (dcmpMap_trans xs ys zs) o1 o2 h1 h2 n1 n2
        intro p1 p2 q1 q2 m1 m2
        exact thenP_trans (fun a b ha hb na nb => some_trans cmpBytes_laws k k2 k3 a b ha hb na nb)
          (dcmp_trans x y z) p1 p2 q1 q2 m1 m2
end

end Nervus
