/-
  Helper lemmas for C11/C12: three-valued connectives under `evalBool`, rows, and-chains, well-formed graphs.
-/
import Nervus.Spec.Denote
import Nervus.Model.QCompile
import Nervus.Model.QExec
namespace Nervus.Cy
open Nervus.Cy

/-! ### three-valued logic seen through `== .bool true` -/

theorem boolOp_and_true (x y : Val) : boolOp .and x y = .bool true ↔ x = .bool true ∧ y = .bool true := by
  cases x with
  | bool a =>
    cases a <;> cases y with
    | bool b => cases b <;> simp [boolOp]
    | _ => simp [boolOp]
  | _ =>
    cases y with
    | bool b => cases b <;> simp [boolOp]
    | _ => simp [boolOp]

theorem boolOp_or_bool (a b : Bool) : boolOp .or (.bool a) (.bool b) = .bool (a || b) := by
  cases a <;> cases b <;> rfl

theorem evalBool_and (A : Algebra) (env : Env) (r : Row) (a b : Expr) :
    evalBool A env r (.bool .and a b) = (evalBool A env r a && evalBool A env r b) := by
  simp only [evalBool, eval]
  rw [Bool.eq_iff_iff]
  simp only [Bool.and_eq_true, beq_iff_eq]
  exact boolOp_and_true _ _

/-- an and-chain passes exactly when every conjunct passes -/
theorem evalBool_foldl_and (A : Algebra) (env : Env) (r : Row) (es : List Expr) (e : Expr) :
    evalBool A env r (es.foldl (fun acc x => .bool .and acc x) e) =
      (evalBool A env r e && es.all (evalBool A env r)) := by
  induction es generalizing e with
  | nil => simp
  | cons x xs ih => simp only [List.foldl_cons, ih, evalBool_and, List.all_cons, Bool.and_assoc]

theorem evalBool_andChain (A : Algebra) (env : Env) (r : Row) (es : List Expr) (e : Expr)
    (h : Compile.andChain es = some e) : evalBool A env r e = es.all (evalBool A env r) := by
  cases es with
  | nil => simp [Compile.andChain] at h
  | cons x xs =>
    simp only [Compile.andChain, Option.some.injEq] at h
    subst h
    simp [evalBool_foldl_and]

theorem andChain_nil_iff (es : List Expr) : Compile.andChain es = none ↔ es = [] := by
  cases es <;> simp [Compile.andChain]

/-! ### rows -/

namespace Row

theorem get_set_self (r : Row) (x : String) (v : Val) : (r.set x v).get x = some v := by
  induction r with
  | nil => simp [Row.set, Row.get, List.lookup]
  | cons p rest ih =>
    obtain ⟨y, w⟩ := p
    by_cases h : y = x
    · subst h; simp [Row.set, Row.get, List.lookup]
    · have h1 : (y == x) = false := by simpa using h
      have h2 : (x == y) = false := by simpa using (Ne.symm h)
      simp only [Row.set, h1, Bool.false_eq_true, ↓reduceIte, Row.get, List.lookup, h2]
      exact ih

theorem get_set_ne (r : Row) (x y : String) (v : Val) (hne : y ≠ x) : (r.set x v).get y = r.get y := by
  induction r with
  | nil =>
    have : (y == x) = false := by simpa using hne
    simp [Row.set, Row.get, List.lookup, this]
  | cons p rest ih =>
    obtain ⟨z, w⟩ := p
    by_cases h : z = x
    · subst h
      have : (y == z) = false := by simpa using hne
      simp [Row.set, Row.get, List.lookup, this]
    · have h1 : (z == x) = false := by simpa using h
      simp only [Row.set, h1, Bool.false_eq_true, ↓reduceIte, Row.get, List.lookup]
      cases hyz : (y == z)
      · simpa [Row.get] using ih
      · rfl

theorem get_nil (x : String) : Row.get [] x = none := rfl

theorem get_singleton (a : String) (v : Val) : Row.get [(a, v)] a = some v := by
  simp [Row.get, List.lookup]

end Row

/-! ### well-formed graphs -/

/-- node ids are pairwise distinct -/
def Graph.NodesDistinct (g : Graph) : Prop := g.nodes.Pairwise fun a b => a.id ≠ b.id

instance (g : Graph) : Decidable g.NodesDistinct := by unfold Graph.NodesDistinct; infer_instance

theorem find?_of_mem_distinct (l : List NodeRec) (h : l.Pairwise fun a b => a.id ≠ b.id) {n : NodeRec}
    (hn : n ∈ l) : l.find? (·.id == n.id) = some n := by
  induction l with
  | nil => cases hn
  | cons m ms ih =>
    rw [List.pairwise_cons] at h
    rcases List.mem_cons.mp hn with rfl | hmem
    · simp [List.find?]
    · have hne : m.id ≠ n.id := h.1 n hmem
      have : (m.id == n.id) = false := by simpa using hne
      simp only [List.find?, this]
      exact ih h.2 hmem

theorem Graph.node?_of_mem {g : Graph} (h : g.NodesDistinct) {n : NodeRec} (hn : n ∈ g.nodes) :
    g.node? n.id = some n := find?_of_mem_distinct g.nodes h hn

theorem Graph.hasLabel_of_mem {g : Graph} (h : g.NodesDistinct) {n : NodeRec} (hn : n ∈ g.nodes) (l : String) :
    g.hasLabel n.id l = n.labels.contains l := by
  simp [Graph.hasLabel, Graph.node?_of_mem h hn]

end Nervus.Cy
