/-
  Proofs/StoreRoot.lean — the root of the property tree (C05, seed C05-seed1): the page the engine takes
  for the root (`propsRoot`: reads, manifest, checkpoint) must be the page that IS the root of the tree
  (`storeRoot`); `BTree::insert` may move the root on any insert of the property sinking.
-/
import Nervus.Model.Engine
namespace Nervus.Storage

/-- the engine's root is the root of the property tree, and there is no entry without a root -/
structure RootOK (s : Engine) : Prop where
  eq : s.propsRoot = s.storeRoot
  empty : s.propsRoot = 0 → s.store = []

/-- decidable form -/
def rootOK (s : Engine) : Bool := s.propsRoot == s.storeRoot && (s.propsRoot != 0 || s.store.isEmpty)

theorem rootOK_iff (s : Engine) : rootOK s = true ↔ RootOK s := by
  simp only [rootOK, Bool.and_eq_true, beq_iff_eq, Bool.or_eq_true, bne_iff_ne, ne_eq, List.isEmpty_iff]
  constructor
  · rintro ⟨h1, h2⟩
    refine ⟨h1, fun h0 => ?_⟩
    rcases h2 with h | h
    · exact absurd h0 h
    · exact h
  · rintro ⟨h1, h2⟩
    refine ⟨h1, ?_⟩
    by_cases h0 : s.propsRoot = 0
    · exact Or.inr (h2 h0)
    · exact Or.inl h0

theorem RootOK.empty' : RootOK {} := ⟨rfl, fun _ => rfl⟩

/-- every read goes through the whole tree -/
theorem visibleStore_ok {s : Engine} (h : RootOK s) : s.visibleStore = s.store := by
  unfold Engine.visibleStore
  by_cases h0 : s.propsRoot = 0
  · rw [h.empty h0]; simp
  · have hb : (s.propsRoot == 0) = false := by simpa using h0
    have he : (s.propsRoot == s.storeRoot) = true := by simpa using h.eq
    rw [hb, he]; rfl

theorem visibleStore_noRoot {s : Engine} (h : s.propsRoot = 0) : s.visibleStore = [] := by
  unfold Engine.visibleStore; rw [h]; rfl

theorem visibleStore_congr {s s' : Engine} (h1 : s'.store = s.store) (h2 : s'.propsRoot = s.propsRoot)
    (h3 : s'.storeRoot = s.storeRoot) : s'.visibleStore = s.visibleStore := by
  unfold Engine.visibleStore; rw [h1, h2, h3]

/-- what the sinking loops append to the tree -/
def sunkOf (s : Engine) : Store :=
  (Engine.sinkProps (·.nprops) s.runs).map (fun p => (SKey.node p.1.1 p.1.2, p.2)) ++
  (Engine.sinkProps (·.eprops) s.runs).map (fun p => (SKey.edge p.1.1 p.1.2, p.2))

/-- the old entries that survive the sinking: all of them, or (replace_property_entry) those whose key
    is not sunk again -/
def keptOf (c : Cfg) (s : Engine) : Store :=
  if c.sinkReplaces then s.store.filter (fun p => !(sunkOf s).any (·.1 == p.1)) else s.store

theorem compact_store (c : Cfg) (s : Engine) (h : s.runs.isEmpty = false) :
    (s.compact c).store = sunkOf s ++ keptOf c s := by
  unfold Engine.compact sunkOf keptOf sunkOf
  rw [h]
  rfl

theorem lookup_filter_keep_key {κ ν} [BEq κ] [LawfulBEq κ] (l : List (κ × ν)) (p : κ × ν → Bool) (k : κ)
    (h : ∀ q ∈ l, q.1 = k → p q = true) : (l.filter p).lookup k = l.lookup k := by
  induction l with
  | nil => rfl
  | cons a as ih =>
    have ih' := ih (fun q hq => h q (List.mem_cons_of_mem _ hq))
    by_cases hk : a.1 = k
    · have hp := h a List.mem_cons_self hk
      rw [List.filter_cons_of_pos hp]
      obtain ⟨a1, a2⟩ := a
      simp only at hk
      subst hk
      simp [List.lookup_cons]
    · obtain ⟨a1, a2⟩ := a
      have hne : (k == a1) = false := by
        simp only [beq_eq_false_iff_ne, ne_eq]; intro h'; exact hk h'.symm
      by_cases hp : p (a1, a2) = true
      · rw [List.filter_cons_of_pos hp]; simp only [List.lookup_cons, hne, ih']
      · rw [List.filter_cons_of_neg hp]; simp only [List.lookup_cons, hne, ih']

theorem lookup_some_of_mem' {κ ν} [BEq κ] [LawfulBEq κ] (l : List (κ × ν)) (r : κ × ν) (h : r ∈ l) :
    ∃ v, l.lookup r.1 = some v := by
  induction l with
  | nil => cases h
  | cons a as ih =>
    obtain ⟨a1, a2⟩ := a
    by_cases hk : r.1 == a1
    · exact ⟨a2, by simp [List.lookup_cons, hk]⟩
    · have hk' : (r.1 == a1) = false := by simpa using hk
      rcases List.mem_cons.mp h with rfl | h'
      · simp at hk
      · obtain ⟨v, hv⟩ := ih h'
        exact ⟨v, by simp only [List.lookup_cons, hk']; exact hv⟩

/-- every lookup in the tree after `compact`: the sunk value of the key, else what the tree held -/
theorem compact_store_lookup (c : Cfg) (s : Engine) (h : s.runs.isEmpty = false) (key : SKey) :
    (s.compact c).store.lookup key = (sunkOf s ++ s.store).lookup key := by
  rw [compact_store c s h, List.lookup_append, List.lookup_append]
  cases hs : (sunkOf s).lookup key with
  | some v => rfl
  | none =>
    simp only [Option.none_or]
    unfold keptOf
    split
    · apply lookup_filter_keep_key
      intro q _ hq
      rw [Bool.not_eq_true', List.any_eq_false]
      intro r hr hrq
      have hrk : r.1 = key := by rw [← hq]; simpa using hrq
      have := lookup_some_of_mem' (sunkOf s) r hr
      rw [hrk] at this
      obtain ⟨v, hv⟩ := this
      rw [hs] at hv; cases hv
    · rfl

theorem keptOf_noSunk (c : Cfg) (s : Engine) (h : sunkOf s = []) : keptOf c s = s.store := by
  unfold keptOf
  rw [h]
  split
  · apply List.filter_eq_self.mpr; intro a _; rfl
  · rfl

/-- **the root after `compact`**: when the source reads `tree.root()` after the insert loops
    (`c.rootAfterInserts`), then — whatever root splits happened during the loops (`c.rootMoves`
    arbitrary) — the root the engine keeps, logs in ManifestSwitch / Checkpoint and reads through is the
    root of the tree that holds every old and every sunk entry -/
theorem RootOK.compact (c : Cfg) (hflag : c.rootAfterInserts = true) {s : Engine} (h : RootOK s) :
    RootOK (s.compact c) := by
  cases he : s.runs.isEmpty with
  | true =>
    have : s.compact c = s := by unfold Engine.compact; rw [he]; rfl
    rw [this]; exact h
  | false =>
    have hst := compact_store c s he
    have hroots : (s.compact c).propsRoot =
        (if (sunkOf s).isEmpty then s.propsRoot
         else if c.rootAfterInserts then
           (if c.rootMoves s.store.length (sunkOf s).length then
              max (if s.propsRoot == 0 then s.storeRoot + 1 else s.propsRoot) s.storeRoot + 1
            else (if s.propsRoot == 0 then s.storeRoot + 1 else s.propsRoot))
         else (if s.propsRoot == 0 then s.storeRoot + 1 else s.propsRoot)) ∧
        (s.compact c).storeRoot =
        (if (sunkOf s).isEmpty then s.storeRoot
         else (if c.rootMoves s.store.length (sunkOf s).length then
              max (if s.propsRoot == 0 then s.storeRoot + 1 else s.propsRoot) s.storeRoot + 1
            else (if s.propsRoot == 0 then s.storeRoot + 1 else s.propsRoot))) := by
      unfold Engine.compact sunkOf
      rw [he]
      exact ⟨rfl, rfl⟩
    obtain ⟨hp, hs⟩ := hroots
    rw [hflag] at hp
    simp only [if_true] at hp
    by_cases hemp : (sunkOf s).isEmpty = true
    · rw [hemp] at hp hs
      simp only [if_true] at hp hs
      refine ⟨by rw [hp, hs]; exact h.eq, fun h0 => ?_⟩
      rw [hp] at h0
      have : sunkOf s = [] := by simpa using hemp
      rw [hst, keptOf_noSunk c s this, h.empty h0, this]; rfl
    · have hemp' : (sunkOf s).isEmpty = false := by
        cases hq : (sunkOf s).isEmpty with
        | true => exact absurd hq hemp
        | false => rfl
      rw [hemp'] at hp hs
      simp only [Bool.false_eq_true, if_false] at hp hs
      refine ⟨by rw [hp, hs], fun h0 => ?_⟩
      exfalso
      rw [hp] at h0
      by_cases h00 : s.propsRoot = 0
      · have hb : (s.propsRoot == 0) = true := by simpa using h00
        rw [hb] at h0
        simp only [if_true] at h0
        split at h0 <;> omega
      · have hb : (s.propsRoot == 0) = false := by simpa using h00
        rw [hb] at h0
        simp only [Bool.false_eq_true, if_false] at h0
        split at h0 <;> omega

/-- the state after a compaction that had something to compact, as a function of the new segment, the
    sunk properties, the checkpoint txid, the root the engine keeps and the root the tree has -/
def compactedWith (s : Engine) (seg : Seg) (st : Store) (upTo root sr : Nat) : Engine :=
  { s with segStore := seg :: s.segStore, store := st, storeRoot := sr,
           wal := s.wal ++ [.beginTx s.nextTxid,
                            .manifestSwitch (s.epoch + 1) ((seg :: s.segs).map (·.id)) root,
                            .checkpoint upTo (s.epoch + 1) root, .commitTx s.nextTxid],
           nextTxid := s.nextTxid + 1, nextSegId := s.nextSegId + 1,
           ckptTxid := upTo, propsRoot := root, runs := [],
           segs := seg :: s.segs, epoch := s.epoch + 1 }

theorem compact_eq (c : Cfg) (s : Engine) (h : s.runs.isEmpty = false) :
    ∃ st root sr, s.compact c = compactedWith s
      (buildForward s.nextSegId (collectRunEdges (!c.compactOwnLast) s.runs [] [])).persist st
      (s.runs.foldl (fun m r => max m r.txid) 0) root sr := by
  unfold Engine.compact compactedWith
  rw [h]
  exact ⟨_, _, _, rfl⟩

theorem compact_noop (c : Cfg) (s : Engine) (h : s.runs.isEmpty = true) : s.compact c = s := by
  unfold Engine.compact; rw [h]; rfl

end Nervus.Storage
