/-
  C26 helper lemmas: the binary searches of the B-tree model.
  * `bsLoop` (leaf_lower_bound / internal_child_for_key) finds the boundary of a monotone predicate;
  * `rustBinarySearch` (core::slice::binary_search_by) is correct on `lt* eq? gt*` sequences;
  * list facts about `insertIdx`.
-/
import Nervus.Model.BTree
import Nervus.Proofs.KeyOrd
set_option linter.unusedSectionVars false
set_option linter.unusedVariables false
namespace Nervus.BTree
open Nervus

theorem insertIdx_eq_take_drop {α : Type} (a : α) : ∀ (l : List α) (i : Nat), i ≤ l.length →
    l.insertIdx i a = l.take i ++ a :: l.drop i
  | l, 0, _ => by simp
  | [], i+1, h => by simp at h
  | x :: xs, i+1, h => by
    simp only [List.insertIdx_succ_cons, List.take_succ_cons, List.drop_succ_cons, List.cons_append]
    rw [insertIdx_eq_take_drop a xs i (by simpa using h)]

/-- the hand-written loop: with a predicate that is `true` on a prefix and `false` afterwards
    it returns the length of the `true` prefix -/
theorem bsLoop_spec (g : Nat → Option Bool) (n : Nat) (P : Nat → Bool)
    (hg : ∀ i, i < n → g i = some (P i))
    (mono : ∀ i j, i ≤ j → j < n → P j = true → P i = true) :
    ∀ (fuel lo hi : Nat), lo ≤ hi → hi ≤ n → hi - lo ≤ fuel →
      (∀ i, i < lo → P i = true) → (∀ i, hi ≤ i → i < n → P i = false) →
      ∃ r, bsLoop g fuel lo hi = some r ∧ r ≤ n ∧ (∀ i, i < r → P i = true) ∧
        (∀ i, r ≤ i → i < n → P i = false) := by
  intro fuel
  induction fuel with
  | zero =>
    intro lo hi h1 h2 h3 hl hh
    have : lo = hi := by omega
    subst this
    exact ⟨lo, rfl, h2, hl, hh⟩
  | succ f ih =>
    intro lo hi h1 h2 h3 hl hh
    unfold bsLoop
    by_cases hlt : lo < hi
    · simp only [hlt, if_true]
      have hmid : (lo + hi) / 2 < n := by omega
      rw [hg _ hmid]
      cases hp : P ((lo + hi) / 2) with
      | true =>
        simp only
        apply ih ((lo + hi) / 2 + 1) hi (by omega) h2 (by omega)
        · intro i hi'
          exact mono i ((lo + hi) / 2) (by omega) hmid hp
        · exact hh
      | false =>
        simp only
        apply ih lo ((lo + hi) / 2) (by omega) (by omega) (by omega) hl
        intro i hi1 hi2
        cases hpi : P i with
        | false => rfl
        | true => rw [mono _ _ hi1 hi2 hpi] at hp; cases hp
    · simp only [hlt, if_false]
      have : lo = hi := by omega
      subst this
      exact ⟨lo, rfl, h2, hl, hh⟩

/-- the boundary is unique -/
theorem boundary_unique (n : Nat) (P : Nat → Bool) (r s : Nat) (hr : r ≤ n) (hs : s ≤ n)
    (h1 : ∀ i, i < r → P i = true) (h2 : ∀ i, r ≤ i → i < n → P i = false)
    (h3 : ∀ i, i < s → P i = true) (h4 : ∀ i, s ≤ i → i < n → P i = false) : r = s := by
  rcases Nat.lt_trichotomy r s with h | h | h
  · have a := h3 r h; have b := h2 r (Nat.le_refl _) (by omega); rw [a] at b; cases b
  · exact h
  · have a := h1 s h; have b := h4 s (Nat.le_refl _) (by omega); rw [a] at b; cases b

/-! ### core::slice::binary_search_by -/

/-- `lt* eq? gt*`: whenever a later element is not `gt`, every earlier one is `lt` -/
def Pat {α : Type} (f : α → Ordering) (xs : List α) : Prop :=
  ∀ (i j : Nat) (x y : α), i < j → xs[i]? = some x → xs[j]? = some y → f y ≠ .gt → f x = .lt

theorem rustBSLoop_spec {α : Type} (f : α → Ordering) (xs : List α) (hp : Pat f xs) :
    ∀ (fuel size base : Nat), 1 ≤ size → base + size ≤ xs.length → size ≤ fuel + 1 →
      (base = 0 ∨ ∃ x, xs[base]? = some x ∧ f x ≠ .gt) →
      (∀ j y, base + size ≤ j → xs[j]? = some y → f y = .gt) →
      ∃ b, rustBSLoop f xs fuel size base = some b ∧ b < xs.length ∧
        (b = 0 ∨ ∃ x, xs[b]? = some x ∧ f x ≠ .gt) ∧
        (∀ j y, b + 1 ≤ j → xs[j]? = some y → f y = .gt) := by
  intro fuel
  induction fuel with
  | zero =>
    intro size base h1 h2 h3 hb hg
    have : size = 1 := by omega
    subst this
    exact ⟨base, rfl, by omega, hb, hg⟩
  | succ fu ih =>
    intro size base h1 h2 h3 hb hg
    unfold rustBSLoop
    by_cases hs : 1 < size
    · simp only [hs, if_true]
      have hmid : base + size / 2 < xs.length := by omega
      rw [List.getElem?_eq_getElem hmid]
      simp only
      by_cases hgt : f xs[base + size / 2] = .gt
      · simp only [hgt, if_true]
        apply ih (size - size / 2) base (by omega) (by omega) (by omega) hb
        intro j y hj hy
        by_cases hjm : j = base + size / 2
        · subst hjm
          rw [List.getElem?_eq_getElem hmid] at hy
          cases hy; exact hgt
        · -- j > mid: if f y ≠ gt then the earlier mid would be lt
          cases hfy : f y with
          | gt => rfl
          | lt =>
            have := hp (base + size / 2) j _ y (by omega) (List.getElem?_eq_getElem hmid) hy (by simp [hfy])
            rw [hgt] at this; cases this
          | eq =>
            have := hp (base + size / 2) j _ y (by omega) (List.getElem?_eq_getElem hmid) hy (by simp [hfy])
            rw [hgt] at this; cases this
      · simp only [hgt, if_false]
        apply ih (size - size / 2) (base + size / 2) (by omega) (by omega) (by omega)
        · exact Or.inr ⟨_, List.getElem?_eq_getElem hmid, hgt⟩
        · intro j y hj hy
          exact hg j y (by omega) hy
    · simp only [hs, if_false]
      have : size = 1 := by omega
      subst this
      exact ⟨base, rfl, by omega, hb, hg⟩

/-- `binary_search_by` on a `lt* eq? gt*` sequence: `found i` points at the `eq` element,
    `missing i` is the insertion point -/
theorem rustBinarySearch_spec {α : Type} (f : α → Ordering) (xs : List α) (hp : Pat f xs) :
    ∃ r, rustBinarySearch f xs = some r ∧
      match r with
      | .found i => ∃ x, xs[i]? = some x ∧ f x = .eq
      | .missing i => i ≤ xs.length ∧ (∀ j x, j < i → xs[j]? = some x → f x = .lt) ∧
                      (∀ j x, i ≤ j → xs[j]? = some x → f x = .gt) := by
  unfold rustBinarySearch
  by_cases h0 : xs.length = 0
  · simp only [h0, if_true]
    refine ⟨_, rfl, Nat.le_refl _, ?_, ?_⟩
    · intro j x hj; omega
    · intro j x _ hx
      have : xs = [] := List.eq_nil_of_length_eq_zero h0
      subst this; simp at hx
  · simp only [h0, if_false]
    obtain ⟨b, hb, hlt, hbase, hgt⟩ := rustBSLoop_spec f xs hp xs.length xs.length 0 (by omega) (by omega)
      (by omega) (Or.inl rfl) (by
        intro j y hj hy
        rw [List.getElem?_eq_none (by omega)] at hy; cases hy)
    rw [hb]
    simp only
    rw [List.getElem?_eq_getElem hlt]
    simp only
    cases hfb : f xs[b] with
    | eq => exact ⟨_, rfl, _, List.getElem?_eq_getElem hlt, hfb⟩
    | lt =>
      refine ⟨_, rfl, by omega, ?_, ?_⟩
      · intro j x hj hx
        by_cases hjb : j = b
        · subst hjb
          rw [List.getElem?_eq_getElem hlt] at hx; cases hx; exact hfb
        · exact hp j b x _ (by omega) hx (List.getElem?_eq_getElem hlt) (by simp [hfb])
      · intro j x hj hx
        exact hgt j x hj hx
    | gt =>
      refine ⟨_, rfl, by omega, ?_, ?_⟩
      · intro j x hj hx
        rcases hbase with hb0 | ⟨x', hx', hne⟩
        · omega
        · rw [List.getElem?_eq_getElem hlt] at hx'; cases hx'; exact absurd hfb hne
      · intro j x hj hx
        by_cases hjb : j = b
        · subst hjb
          rw [List.getElem?_eq_getElem hlt] at hx; cases hx; exact hfb
        · exact hgt j x (by omega) hx

end Nervus.BTree
