/-
  Proofs/EngineStagedL.lean — per-operation simulation lemmas, part 3: node creation, external ids,
  labels (the idmap columns).
-/
import Nervus.Proofs.EngineStaged2
namespace Nervus.Storage
open Nervus.GraphSpec (Graph TxOp Op Rel)

/-- idmap / label columns of the invariant between the published engine state and the Spec graph -/
structure SimL (s : Engine) (g : Graph) : Prop where
  lenE : s.idmap.i2e.length = g.next
  lenL : s.idmap.i2l.length = g.next
  e2i : ∀ x, s.idmap.lookup x = (g.ext.map (fun p => (p.2, p.1))).lookup x
  extPt : ∀ n, g.extOf n = (s.idmap.i2e[n]?).map (·.ext)
  extLt : ∀ p ∈ g.ext, p.1 < g.next
  extNZ : ∀ p ∈ g.ext, p.2 ≠ 0
  extND : (g.ext.map (·.2)).Nodup
  extIdND : (g.ext.map (·.1)).Nodup
  labels : ∀ n lid nm, s.interner[lid]? = some nm → n < g.next → n ∉ g.dead →
    (lid ∈ (s.idmap.i2l[n]?).getD [] ↔ (n, nm) ∈ g.labels)
  labelsInt : ∀ p ∈ g.labels, p.2 ∈ s.interner
  labelsLt : ∀ p ∈ g.labels, p.1 < g.next
  deadLt : ∀ n ∈ g.dead, n < g.next
  small : s.interner.length ≤ labelMax
  i2lOK : ∀ (n l : Nat), l ∈ (s.idmap.i2l[n]?).getD [] → l = labelMax ∨ l < s.interner.length

/-- idmap / label columns of the staged relation -/
structure StagedL (s0 : Engine) (g0 : Graph) (s : Engine) (t : Txn) (g : Graph) : Prop where
  next : g.next = g0.next + t.created.length
  extEq : g.ext = (t.created.map (fun c => (c.2.2, c.1))).reverse ++ g0.ext
  ids : ∀ i c, t.created[i]? = some c → c.2.2 = g0.next + i
  extPt : ∀ n, g.extOf n = if n < g0.next then g0.extOf n else (t.created[n - g0.next]?).map (·.1)
  extLt : ∀ p ∈ g.ext, p.1 < g.next
  extNZ : ∀ p ∈ g.ext, p.2 ≠ 0
  extND : (g.ext.map (·.2)).Nodup
  extIdND : (g.ext.map (·.1)).Nodup
  labels : ∀ n lid nm, s.interner[lid]? = some nm → n < g.next → n ∉ g.dead →
    ((n, nm) ∈ g.labels ↔
      (((n, nm) ∈ g0.labels ∨ (∃ x, (x, lid, n) ∈ t.created) ∨ (n, lid) ∈ t.addL) ∧ (n, lid) ∉ t.delL))
  labelsInt : ∀ p ∈ g.labels, p.2 ∈ s.interner
  labelsLt : ∀ p ∈ g.labels, p.1 < g.next
  addOK : ∀ p ∈ t.addL, p.1 < g.next ∧ p.2 < s.interner.length
  delOK : ∀ p ∈ t.delL, p.1 < g.next ∧ p.2 < s.interner.length
  createdLid : ∀ c ∈ t.created, c.2.1 = labelMax ∨ c.2.1 < s.interner.length
  deadLt : ∀ n ∈ g.dead, n < g.next
  small : s.interner.length ≤ labelMax

/-- interning a name (while there is room below `LabelId::MAX`) preserves the label columns -/
theorem StagedL.intern {s0 g0 s t g} (hst : StagedL s0 g0 s t g) (hn : s.interner.Nodup)
    (hl0 : ∀ p ∈ g0.labels, p.2 ∈ s.interner) (nm : Nat) (hroom : s.interner.length < labelMax) :
    StagedL s0 g0 (s.getOrCreateLabel nm).1 t g := by
  have hsp := getOrCreateLabel_spec s nm hn
  simp only at hsp
  obtain ⟨_, hpre, hnd, hmem, _, _, _, _, _, _⟩ := hsp
  have hlen : s.interner.length ≤ (s.getOrCreateLabel nm).1.interner.length := hpre.length_le
  have hlen2 : (s.getOrCreateLabel nm).1.interner.length ≤ s.interner.length + 1 := by
    simp only [Engine.getOrCreateLabel]
    split <;> simp
  have key : ∀ r x, (s.getOrCreateLabel nm).1.interner[r]? = some x →
      s.interner[r]? = some x ∨ (x ∉ s.interner ∧ s.interner.length ≤ r) := by
    intro r x hx
    by_cases hr : r < s.interner.length
    · left
      obtain ⟨y, hy⟩ := hpre
      rw [← hy, List.getElem?_append_left hr] at hx; exact hx
    · right
      refine ⟨?_, Nat.le_of_not_lt hr⟩
      intro hxs
      obtain ⟨i, hi, hget⟩ := List.mem_iff_getElem.mp hxs
      have h1 : (s.getOrCreateLabel nm).1.interner[i]? = some x := by
        apply prefix_getElem? hpre; rw [List.getElem?_eq_getElem hi, hget]
      have := name_inj _ hnd _ _ _ hx h1
      omega
  refine { next := hst.next, extEq := hst.extEq, ids := hst.ids, extPt := hst.extPt, extLt := hst.extLt,
           extNZ := hst.extNZ, extND := hst.extND, extIdND := hst.extIdND, labels := ?_,
           labelsInt := fun p hp => hpre.subset (hst.labelsInt p hp), labelsLt := hst.labelsLt,
           addOK := fun p hp => ⟨(hst.addOK p hp).1, Nat.lt_of_lt_of_le (hst.addOK p hp).2 hlen⟩,
           delOK := fun p hp => ⟨(hst.delOK p hp).1, Nat.lt_of_lt_of_le (hst.delOK p hp).2 hlen⟩,
           createdLid := fun c hc => (hst.createdLid c hc).imp id (fun h => Nat.lt_of_lt_of_le h hlen),
           deadLt := hst.deadLt, small := by omega }
  intro n lid x hx hn' hd
  rcases key lid x hx with hold | ⟨hnew, hge⟩
  · exact hst.labels n lid x hold hn' hd
  · constructor
    · intro h; exact absurd (hst.labelsInt _ h) hnew
    · rintro ⟨h | ⟨x', hx'⟩ | h, _⟩
      · exact absurd (hl0 _ h) hnew
      · rcases hst.createdLid _ hx' with h | h
        · simp only at h; have := lt_of_getElem?_eq_some hx; omega
        · simp only at h; omega
      · have := (hst.addOK _ h).2; simp only at this; omega

/-- operations that touch neither nodes nor labels nor tombstones keep the label columns -/
theorem StagedL.frame {s0 g0 s t g} (hst : StagedL s0 g0 s t g) (t' : Txn) (g' : Graph)
    (h1 : t'.created = t.created) (h2 : t'.addL = t.addL) (h3 : t'.delL = t.delL)
    (h4 : g'.next = g.next) (h5 : g'.ext = g.ext) (h6 : g'.labels = g.labels) (h7 : g'.dead = g.dead) :
    StagedL s0 g0 s t' g' := by
  have hext : ∀ n, g'.extOf n = g.extOf n := by intro n; simp only [Graph.extOf, h5]
  refine { next := by rw [h4, h1]; exact hst.next, extEq := by rw [h5, h1]; exact hst.extEq,
           ids := by rw [h1]; exact hst.ids, extPt := by intro n; rw [hext, h1]; exact hst.extPt n,
           extLt := by rw [h5, h4]; exact hst.extLt, extNZ := by rw [h5]; exact hst.extNZ,
           extND := by rw [h5]; exact hst.extND,
           extIdND := by rw [h5]; exact hst.extIdND,
           labels := by rw [h4, h6, h7, h1, h2, h3]; exact hst.labels,
           labelsInt := by rw [h6]; exact hst.labelsInt, labelsLt := by rw [h6, h4]; exact hst.labelsLt,
           addOK := by rw [h2, h4]; exact hst.addOK, delOK := by rw [h3, h4]; exact hst.delOK,
           createdLid := by rw [h1]; exact hst.createdLid, deadLt := by rw [h7, h4]; exact hst.deadLt,
           small := hst.small }

/-- `tombstone_node` against `tombNode` (label columns) -/
theorem StagedL.tombNode {s0 g0 s t g} (hst : StagedL s0 g0 s t g) {n : Nat} (hlive : n < g.next) :
    StagedL s0 g0 s (t.tombstoneNode n) (g.step (.tombNode n)) := by
  refine { next := hst.next, extEq := hst.extEq, ids := hst.ids, extPt := hst.extPt, extLt := hst.extLt,
           extNZ := hst.extNZ, extND := hst.extND, extIdND := hst.extIdND, labels := ?_, labelsInt := ?_, labelsLt := ?_,
           addOK := hst.addOK,
           delOK := hst.delOK, createdLid := hst.createdLid, deadLt := ?_, small := hst.small }
  · intro n' lid nm h hn' hd
    have hd' : n' ∉ n :: g.dead := hd
    simp only [List.mem_cons, not_or] at hd'
    show (n', nm) ∈ g.labels.filter (fun p => p.1 != n) ↔ _
    rw [List.mem_filter]
    have : ((n', nm).1 != n) = true := by simpa using hd'.1
    rw [this]
    simp only [and_true]
    exact hst.labels n' lid nm h hn' hd'.2
  · intro p hp; exact hst.labelsInt p (List.mem_filter.mp hp).1
  · intro p hp; exact hst.labelsLt p (List.mem_filter.mp hp).1
  · intro n' hn'
    have : n' ∈ n :: g.dead := hn'
    rw [List.mem_cons] at this
    rcases this with h | h
    · subst h; exact hlive
    · exact hst.deadLt n' h

/-- `add_node_label` against `labelAdd` -/
theorem StagedL.labelAdd {s0 g0 s t g} (hst : StagedL s0 g0 s t g) (hn : s.interner.Nodup) {n lid nm : Nat}
    (hr : s.interner[lid]? = some nm) (hlive : n < g.next) (hnd : (n, lid) ∉ t.delL) :
    StagedL s0 g0 s (t.addNodeLabel n lid) (g.step (.labelAdd n nm)) := by
  have hlab : ∀ p, p ∈ (g.step (.labelAdd n nm)).labels ↔ (p = (n, nm) ∨ p ∈ g.labels) := by
    intro p
    show p ∈ (if g.labels.contains (n, nm) then g else { g with labels := (n, nm) :: g.labels }).labels ↔ _
    by_cases hc : g.labels.contains (n, nm) = true
    · rw [if_pos hc]
      have : (n, nm) ∈ g.labels := by simpa using hc
      constructor
      · exact Or.inr
      · rintro (h | h)
        · rw [h]; exact this
        · exact h
    · rw [if_neg hc]; exact List.mem_cons
  have hsame : ∀ {α : Type} (f : Graph → α), (∀ g' : Graph, f { g with labels := g'.labels } = f g) →
      f (g.step (.labelAdd n nm)) = f g := by
    intro α f hf
    show f (if g.labels.contains (n, nm) then g else { g with labels := (n, nm) :: g.labels }) = f g
    split
    · rfl
    · exact hf { g with labels := (n, nm) :: g.labels }
  have hnext : (g.step (.labelAdd n nm)).next = g.next := hsame (·.next) (fun _ => rfl)
  have hext : (g.step (.labelAdd n nm)).ext = g.ext := hsame (·.ext) (fun _ => rfl)
  have hdead : (g.step (.labelAdd n nm)).dead = g.dead := hsame (·.dead) (fun _ => rfl)
  have hextOf : ∀ n', (g.step (.labelAdd n nm)).extOf n' = g.extOf n' := by
    intro n'; simp only [Graph.extOf, hext]
  refine { next := by rw [hnext]; exact hst.next, extEq := by rw [hext]; exact hst.extEq, ids := hst.ids,
           extPt := by intro n'; rw [hextOf]; exact hst.extPt n',
           extLt := by rw [hext, hnext]; exact hst.extLt, extNZ := by rw [hext]; exact hst.extNZ,
           extND := by rw [hext]; exact hst.extND,
           extIdND := by rw [hext]; exact hst.extIdND,
           labels := ?_, labelsInt := ?_, labelsLt := ?_, addOK := ?_,
           delOK := by rw [hnext]; exact hst.delOK, createdLid := hst.createdLid,
           deadLt := by rw [hdead, hnext]; exact hst.deadLt, small := hst.small }
  · intro n' lid' nm' h' hn' hd'
    rw [hnext] at hn'; rw [hdead] at hd'
    rw [hlab]
    have hold := hst.labels n' lid' nm' h' hn' hd'
    show _ ↔ (((n', nm') ∈ g0.labels ∨ (∃ x, (x, lid', n') ∈ t.created) ∨ (n', lid') ∈ t.addL ++ [(n, lid)]) ∧
      (n', lid') ∉ t.delL)
    by_cases hk : (n', lid') = (n, lid)
    · injection hk with h1 h2
      subst h1 h2
      have hnm : nm' = nm := by rw [hr] at h'; exact (Option.some.inj h').symm
      subst hnm
      constructor
      · intro _; exact ⟨Or.inr (Or.inr (List.mem_append_right _ (List.mem_singleton.mpr rfl))), hnd⟩
      · intro _; exact Or.inl rfl
    · have hk' : (n', nm') ≠ (n, nm) := by
        intro he; injection he with h1 h2
        subst h1 h2
        exact hk (by rw [name_inj _ hn _ _ _ h' hr])
      rw [List.mem_append, List.mem_singleton]
      constructor
      · rintro (h | h)
        · exact absurd h hk'
        · obtain ⟨h1, h2⟩ := hold.mp h
          exact ⟨h1.imp id (fun h => h.imp id Or.inl), h2⟩
      · rintro ⟨h1, h2⟩
        right
        apply hold.mpr
        refine ⟨?_, h2⟩
        rcases h1 with h | h | h | h
        · exact Or.inl h
        · exact Or.inr (Or.inl h)
        · exact Or.inr (Or.inr h)
        · exact absurd h hk
  · intro p hp
    rcases (hlab p).mp hp with h | h
    · rw [h]; exact mem_of_getElem?_eq_some hr
    · exact hst.labelsInt p h
  · intro p hp
    rw [hnext]
    rcases (hlab p).mp hp with h | h
    · rw [h]; exact hlive
    · exact hst.labelsLt p h
  · intro p hp
    rw [hnext]
    have hp' : p ∈ t.addL ++ [(n, lid)] := hp
    rw [List.mem_append, List.mem_singleton] at hp'
    rcases hp' with h | h
    · exact hst.addOK p h
    · rw [h]; exact ⟨hlive, lt_of_getElem?_eq_some hr⟩

/-- `remove_node_label` against `labelDel` -/
theorem StagedL.labelDel {s0 g0 s t g} (hst : StagedL s0 g0 s t g) (hn : s.interner.Nodup) {n lid nm : Nat}
    (hr : s.interner[lid]? = some nm) (hlive : n < g.next) :
    StagedL s0 g0 s (t.removeNodeLabel n lid) (g.step (.labelDel n nm)) := by
  refine { next := hst.next, extEq := hst.extEq, ids := hst.ids, extPt := hst.extPt, extLt := hst.extLt,
           extNZ := hst.extNZ, extND := hst.extND, extIdND := hst.extIdND, labels := ?_, labelsInt := ?_, labelsLt := ?_,
           addOK := hst.addOK,
           delOK := ?_, createdLid := hst.createdLid, deadLt := hst.deadLt, small := hst.small }
  · intro n' lid' nm' h' hn' hd'
    have hold := hst.labels n' lid' nm' h' hn' hd'
    show (n', nm') ∈ g.labels.filter (· != (n, nm)) ↔
      (((n', nm') ∈ g0.labels ∨ (∃ x, (x, lid', n') ∈ t.created) ∨ (n', lid') ∈ t.addL) ∧
      (n', lid') ∉ t.delL ++ [(n, lid)])
    rw [mem_filter_ne, List.mem_append, List.mem_singleton]
    by_cases hk : (n', lid') = (n, lid)
    · injection hk with h1 h2
      subst h1 h2
      have hnm : nm' = nm := by rw [hr] at h'; exact (Option.some.inj h').symm
      subst hnm
      simp
    · have hk' : (n', nm') ≠ (n, nm) := by
        intro he; injection he with h1 h2
        subst h1 h2
        exact hk (by rw [name_inj _ hn _ _ _ h' hr])
      simp only [ne_eq, hk', not_false_eq_true, and_true, hk, or_false]
      exact hold
  · intro p hp; exact hst.labelsInt p (List.mem_filter.mp hp).1
  · intro p hp; exact hst.labelsLt p (List.mem_filter.mp hp).1
  · intro p hp
    have hp' : p ∈ t.delL ++ [(n, lid)] := hp
    rw [List.mem_append, List.mem_singleton] at hp'
    rcases hp' with h | h
    · exact hst.delOK p h
    · rw [h]; exact ⟨hlive, lt_of_getElem?_eq_some hr⟩

end Nervus.Storage
