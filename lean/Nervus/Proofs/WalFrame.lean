/-
  The log reader over frames (C17): a frame written by `append` is read back whatever follows it; reading
  decomposes every file into complete valid frames and a tail; fuel is never exhausted.
-/
import Nervus.Spec.TxLog
import Nervus.Proofs.WalRec
namespace Nervus.WalFrame
open Nervus Nervus.PropVal Nervus.WalRec

/-! ### the checksum fits in a `u32` -/

theorem crcBit_lt {c : Nat} (h : c < 2 ^ 32) : crcBit c < 2 ^ 32 := by
  unfold crcBit
  have h1 : c >>> 1 < 2 ^ 32 := Nat.lt_of_le_of_lt (Nat.shiftRight_le c 1) h
  split
  · exact Nat.xor_lt_two_pow h1 (by decide)
  · exact h1

theorem crcByte_lt {c : Nat} (b : UInt8) (h : c < 2 ^ 32) : crcByte c b < 2 ^ 32 := by
  unfold crcByte
  have hb : b.toNat < 2 ^ 32 := Nat.lt_trans (UInt8.toNat_lt b) (by decide)
  have h0 : c ^^^ b.toNat < 2 ^ 32 := Nat.xor_lt_two_pow h hb
  exact crcBit_lt (crcBit_lt (crcBit_lt (crcBit_lt (crcBit_lt (crcBit_lt (crcBit_lt (crcBit_lt h0)))))))

theorem crcFold_lt (bs : Bytes) : ∀ c, c < 2 ^ 32 → bs.foldl crcByte c < 2 ^ 32 := by
  induction bs with
  | nil => intro c h; exact h
  | cons b bs ih => intro c h; exact ih _ (crcByte_lt b h)

theorem crc32_lt (bs : Bytes) : crc32 bs < two32 := by
  unfold crc32 two32
  exact Nat.xor_lt_two_pow (crcFold_lt bs _ (by decide)) (by decide)

/-! ### one frame -/

theorem frame_length (body : Bytes) : (frame body).length = 8 + body.length := by
  simp [frame]; omega

/-- a frame as written by `append` is accepted by `next_record`, whatever follows it -/
theorem nextRecord_frame (cfg : Cfg) (body rest : Bytes) (r : Rec) (hlen : body.length ≤ cfg.maxLen)
    (hmax : cfg.maxLen < two32) (hdec : decodeBody cfg.codec body = .ok r) :
    nextRecord cfg (frame body ++ rest) = .record r rest := by
  have hb : body.length < two32 := Nat.lt_of_le_of_lt hlen hmax
  have e : frame body ++ rest = le4 body.length ++ (le4 (crc32 body) ++ (body ++ rest)) := by simp [frame]
  have t4 : (frame body ++ rest).take 4 = le4 body.length := by
    rw [e]; have := le4_length body.length
    rw [List.take_append_of_le_length (by omega), List.take_of_length_le (by omega)]
  have d4 : (frame body ++ rest).drop 4 = le4 (crc32 body) ++ (body ++ rest) := by
    rw [e]; exact drop_prefix _ _ 4 (by simp)
  have t4' : ((frame body ++ rest).drop 4).take 4 = le4 (crc32 body) := by
    rw [d4]; have := le4_length (crc32 body)
    rw [List.take_append_of_le_length (by omega), List.take_of_length_le (by omega)]
  have d8 : (frame body ++ rest).drop 8 = body ++ rest := by
    have : frame body ++ rest = (le4 body.length ++ le4 (crc32 body)) ++ (body ++ rest) := by simp [frame]
    rw [this]; exact drop_prefix _ _ 8 (by simp)
  have tb : ((frame body ++ rest).drop 8).take body.length = body := by
    rw [d8, List.take_append_of_le_length (Nat.le_refl _), List.take_of_length_le (Nat.le_refl _)]
  have dr : (frame body ++ rest).drop (8 + body.length) = rest := by
    have : frame body ++ rest = (le4 body.length ++ (le4 (crc32 body) ++ body)) ++ rest := by simp [frame]
    rw [this]; exact drop_prefix _ _ _ (by simp; omega)
  have hl : (frame body ++ rest).length = 8 + body.length + rest.length := by simp [frame_length]
  unfold nextRecord
  simp only [t4, t4', leVal_le4 hb, leVal_le4 (crc32_lt body)]
  rw [if_neg (by omega), if_neg (by omega), if_neg (by omega), if_neg (by omega)]
  simp only [tb, ne_eq, not_true_eq_false, if_false, hdec, dr]

/-- conversely, whatever `next_record` accepts is a complete valid frame at the head of the input -/
theorem nextRecord_record_inv (cfg : Cfg) (bs rest : Bytes) (r : Rec) (h : nextRecord cfg bs = .record r rest) :
    ∃ body, bs = frame body ++ rest ∧ body.length ≤ cfg.maxLen ∧ decodeBody cfg.codec body = .ok r := by
  unfold nextRecord at h
  split at h; · cases h
  rename_i h4
  simp only at h
  split at h
  · split at h <;> cases h
  rename_i hmax
  split at h; · cases h
  rename_i h8
  split at h; · cases h
  rename_i hlen
  split at h; · cases h
  rename_i hcrc
  split at h
  · rename_i r' hdec
    injection h with hr hrest
    subst hr
    refine ⟨(bs.drop 8).take (leVal (bs.take 4)), ?_, ?_, hdec⟩
    · have hbl : ((bs.drop 8).take (leVal (bs.take 4))).length = leVal (bs.take 4) := by
        simp [List.length_take, List.length_drop]; omega
      have h1 : le4 (leVal (bs.take 4)) = bs.take 4 := by
        have := leBytes_leVal (bs.take 4)
        have hl : (bs.take 4).length = 4 := by simp [List.length_take]; omega
        rw [hl] at this; exact this
      have h2 : le4 (crc32 ((bs.drop 8).take (leVal (bs.take 4)))) = (bs.drop 4).take 4 := by
        have hc : crc32 ((bs.drop 8).take (leVal (bs.take 4))) = leVal ((bs.drop 4).take 4) := by
          simpa using hcrc
        rw [hc]
        have := leBytes_leVal ((bs.drop 4).take 4)
        have hl : ((bs.drop 4).take 4).length = 4 := by simp [List.length_take, List.length_drop]; omega
        rw [hl] at this; exact this
      unfold frame
      rw [hbl, h1, h2, ← hrest]
      have e1 : bs = bs.take 4 ++ bs.drop 4 := (List.take_append_drop 4 bs).symm
      have e2 : bs.drop 4 = (bs.drop 4).take 4 ++ (bs.drop 4).drop 4 := (List.take_append_drop 4 _).symm
      have e3 : (bs.drop 4).drop 4 = bs.drop 8 := by simp [List.drop_drop]
      have e4 : bs.drop 8 = (bs.drop 8).take (leVal (bs.take 4)) ++ (bs.drop 8).drop (leVal (bs.take 4)) :=
        (List.take_append_drop _ _).symm
      have e5 : (bs.drop 8).drop (leVal (bs.take 4)) = bs.drop (8 + leVal (bs.take 4)) := by
        simp [List.drop_drop]
      conv => lhs; rw [e1, e2, e3, e4, e5]
      simp
    · simp [List.length_take, List.length_drop]; omega
  · split at h <;> cases h

theorem nextRecord_rest_lt (cfg : Cfg) (bs rest : Bytes) (r : Rec) (h : nextRecord cfg bs = .record r rest) :
    rest.length + 8 ≤ bs.length := by
  obtain ⟨body, rfl, -, -⟩ := nextRecord_record_inv cfg bs rest r h
  simp [frame_length]; omega

/-- the only errors of `next_record`: the length cap and `decode_body`, each only in the strict configuration -/
theorem nextRecord_err_inv (cfg : Cfg) (bs : Bytes) (e : RErr) (h : nextRecord cfg bs = .err e) :
    (cfg.oversizeIsEof = false ∧ ∃ n, e = .tooLarge n) ∨ (cfg.undecodableIsEof = false ∧ ∃ w, e = .decode w) := by
  unfold nextRecord at h
  split at h; · cases h
  simp only at h
  split at h
  · split at h
    · cases h
    · rename_i hf
      injection h with h
      exact Or.inl ⟨by simpa using hf, _, h.symm⟩
  split at h; · cases h
  split at h; · cases h
  split at h; · cases h
  split at h
  · cases h
  · split at h
    · cases h
    · rename_i hf
      injection h with h
      exact Or.inr ⟨by simpa using hf, _, h.symm⟩

/-! ### the read loop -/

theorem readGo_fuel (cfg : Cfg) : ∀ (f1 f2 : Nat) (bs : Bytes), bs.length < f1 → bs.length < f2 →
    readGo cfg f1 bs = readGo cfg f2 bs
  | 0, _, _, h, _ => absurd h (Nat.not_lt_zero _)
  | _, 0, _, _, h => absurd h (Nat.not_lt_zero _)
  | f1 + 1, f2 + 1, bs, h1, h2 => by
    unfold readGo
    cases hn : nextRecord cfg bs with
    | eof => rfl
    | err e => rfl
    | record r rest =>
      have := nextRecord_rest_lt cfg bs rest r hn
      simp only
      rw [readGo_fuel cfg f1 f2 rest (by omega) (by omega)]

/-- the loop, one iteration at a time -/
theorem readAll_unfold (cfg : Cfg) (bs : Bytes) :
    readAll cfg bs = match nextRecord cfg bs with
      | .eof => ([], .eof bs)
      | .err e => ([], .err e)
      | .record r rest => (r :: (readAll cfg rest).1, (readAll cfg rest).2) := by
  unfold readAll
  rw [readGo]
  cases hn : nextRecord cfg bs with
  | eof => rfl
  | err e => rfl
  | record r rest =>
    have := nextRecord_rest_lt cfg bs rest r hn
    simp only
    rw [readGo_fuel cfg bs.length (rest.length + 1) rest (by omega) (by omega)]

/-- the model's loop budget is never exhausted -/
theorem readAll_no_fuel (cfg : Cfg) : ∀ (n : Nat) (bs : Bytes), bs.length ≤ n → (readAll cfg bs).2 ≠ .err .fuel := by
  intro n
  induction n with
  | zero =>
    intro bs h
    rw [readAll_unfold]
    have : nextRecord cfg bs = .eof := by unfold nextRecord; simp; omega
    rw [this]; simp
  | succ n ih =>
    intro bs h
    rw [readAll_unfold]
    cases hn : nextRecord cfg bs with
    | eof => simp
    | err e =>
      simp only
      intro hc; injection hc with hc; subst hc
      rcases nextRecord_err_inv cfg bs _ hn with ⟨-, n, h⟩ | ⟨-, w, h⟩ <;> cases h
    | record r rest =>
      have := nextRecord_rest_lt cfg bs rest r hn
      simp only
      exact ih rest (by omega)

/-! ### sequences of complete valid frames -/

/-- `pre` is exactly a sequence of complete valid frames carrying the records `rs` -/
inductive IsFrames (cfg : Cfg) : Bytes → List Rec → Prop
  | nil : IsFrames cfg [] []
  | cons {body rest : Bytes} {r : Rec} {rs : List Rec} : body.length ≤ cfg.maxLen →
      decodeBody cfg.codec body = .ok r → IsFrames cfg rest rs → IsFrames cfg (frame body ++ rest) (r :: rs)

theorem IsFrames.append {cfg : Cfg} {a b : Bytes} {ra rb : List Rec} (ha : IsFrames cfg a ra) (hb : IsFrames cfg b rb) :
    IsFrames cfg (a ++ b) (ra ++ rb) := by
  induction ha with
  | nil => simpa using hb
  | cons h1 h2 _ ih => rw [List.append_assoc, List.cons_append]; exact IsFrames.cons h1 h2 ih

theorem IsFrames.single {cfg : Cfg} {body : Bytes} {r : Rec} (h1 : body.length ≤ cfg.maxLen)
    (h2 : decodeBody cfg.codec body = .ok r) : IsFrames cfg (frame body) [r] := by
  have := IsFrames.cons h1 h2 (IsFrames.nil (cfg := cfg))
  simpa using this

/-- **main lemma**: complete valid frames are read back in order, whatever follows them -/
theorem readAll_frames_append {cfg : Cfg} (hmax : cfg.maxLen < two32) {pre : Bytes} {rs : List Rec}
    (h : IsFrames cfg pre rs) (t : Bytes) :
    readAll cfg (pre ++ t) = (rs ++ (readAll cfg t).1, (readAll cfg t).2) := by
  induction h with
  | nil => simp
  | cons h1 h2 _ ih =>
    rw [List.append_assoc, readAll_unfold, nextRecord_frame cfg _ _ _ h1 hmax h2]
    simp only [ih, List.cons_append]

/-- every file is a sequence of complete valid frames followed by the tail at which the reader stopped -/
theorem readAll_decompose (cfg : Cfg) : ∀ (n : Nat) (bs : Bytes), bs.length ≤ n →
    ∃ pre, IsFrames cfg pre (readAll cfg bs).1 ∧
      ∀ tail, (readAll cfg bs).2 = .eof tail → bs = pre ++ tail ∧ nextRecord cfg tail = .eof := by
  intro n
  induction n with
  | zero =>
    intro bs h
    have hn : nextRecord cfg bs = .eof := by unfold nextRecord; simp; omega
    rw [readAll_unfold, hn]
    exact ⟨[], IsFrames.nil, by intro tail ht; injection ht with ht; subst ht; exact ⟨rfl, hn⟩⟩
  | succ n ih =>
    intro bs h
    rw [readAll_unfold]
    cases hn : nextRecord cfg bs with
    | eof => exact ⟨[], IsFrames.nil, by intro tail ht; injection ht with ht; subst ht; exact ⟨rfl, hn⟩⟩
    | err e => exact ⟨[], IsFrames.nil, by intro tail ht; cases ht⟩
    | record r rest =>
      obtain ⟨body, rfl, hl, hd⟩ := nextRecord_record_inv cfg bs rest r hn
      have hlen : rest.length ≤ n := by simp [frame_length] at h; omega
      obtain ⟨pre, hp, ht⟩ := ih rest hlen
      refine ⟨frame body ++ pre, IsFrames.cons hl hd hp, ?_⟩
      intro tail hta
      obtain ⟨e, hn'⟩ := ht tail hta
      exact ⟨by rw [e, List.append_assoc], hn'⟩

/-- with the tolerant reader no tail condition is an error -/
theorem nextRecord_tolerant {cfg : Cfg} (h1 : cfg.oversizeIsEof = true) (h2 : cfg.undecodableIsEof = true)
    (bs : Bytes) (e : RErr) : nextRecord cfg bs ≠ .err e := by
  intro h
  rcases nextRecord_err_inv cfg bs e h with ⟨hf, -⟩ | ⟨hf, -⟩
  · rw [h1] at hf; cases hf
  · rw [h2] at hf; cases hf

theorem readAll_tolerant {cfg : Cfg} (h1 : cfg.oversizeIsEof = true) (h2 : cfg.undecodableIsEof = true) :
    ∀ (n : Nat) (bs : Bytes), bs.length ≤ n → ∃ tail, (readAll cfg bs).2 = .eof tail := by
  intro n
  induction n with
  | zero =>
    intro bs h
    have hn : nextRecord cfg bs = .eof := by unfold nextRecord; simp; omega
    rw [readAll_unfold, hn]; exact ⟨bs, rfl⟩
  | succ n ih =>
    intro bs h
    rw [readAll_unfold]
    cases hn : nextRecord cfg bs with
    | eof => exact ⟨bs, rfl⟩
    | err e => exact absurd hn (nextRecord_tolerant h1 h2 bs e)
    | record r rest =>
      have := nextRecord_rest_lt cfg bs rest r hn
      exact ih rest (by omega)

end Nervus.WalFrame
