/-
  Proofs.CrashSplit — property sinking WITH leaf splits (`BTree::insert` Err arm): the chain of
  leaves a sequence of ascending insertions builds, and the block judgement for a tree that is not
  the live one (a new tree is not reachable before the manifest is durable).
-/
import Nervus.Proofs.CrashSink
namespace Nervus.Crash

/-! ### leaf lists -/

theorem mkLeaves_snoc_len (Xi : List (List Nat)) (last : List Nat) (pids : List Nat) :
    (mkLeaves (Xi ++ [last]) pids).length = Xi.length + 1 := by
  rw [mkLeaves_length]; simp

theorem mkLeaves_snoc_get : ∀ (Xi : List (List Nat)) (last : List Nat) (pids : List Nat) (d : LeafImg),
    ∃ p, (mkLeaves (Xi ++ [last]) pids).getD Xi.length d = ⟨last.map some, false, p⟩
  | [], last, pids, d => ⟨pids.headD 0, by simp [mkLeaves]⟩
  | x :: Xi, last, pids, d => by
    obtain ⟨p, hp⟩ := mkLeaves_snoc_get Xi last pids.tail d
    exact ⟨p, by simpa [mkLeaves] using hp⟩

theorem setLeaf_snoc : ∀ (Xi : List (List Nat)) (last ys : List Nat) (pids : List Nat) (pid : Nat),
    ∃ pids', setLeaf (mkLeaves (Xi ++ [last]) pids) Xi.length ⟨ys.map some, false, pid⟩ = mkLeaves (Xi ++ [ys]) pids'
  | [], last, ys, pids, pid => ⟨[pid], by simp [mkLeaves, setLeaf]⟩
  | x :: Xi, last, ys, pids, pid => by
    obtain ⟨pids', h⟩ := setLeaf_snoc Xi last ys pids.tail pid
    refine ⟨pids.headD 0 :: pids', ?_⟩
    have e : (Xi ++ [last]).isEmpty = (Xi ++ [ys]).isEmpty := by cases Xi <;> rfl
    simp [mkLeaves, setLeaf, h, e]

theorem setLeaf_split : ∀ (Xi : List (List Nat)) (last L R : List Nat) (pids : List Nat) (p1 p2 : Nat),
    ∃ pids', setLeaf (setLeaf (mkLeaves (Xi ++ [last]) pids) Xi.length ⟨L.map some, true, p1⟩) (Xi.length + 1) ⟨R.map some, false, p2⟩ =
      mkLeaves (Xi ++ [L, R]) pids'
  | [], last, L, R, pids, p1, p2 => ⟨[p1, p2], by simp [mkLeaves, setLeaf]⟩
  | x :: Xi, last, L, R, pids, p1, p2 => by
    obtain ⟨pids', h⟩ := setLeaf_split Xi last L R pids.tail p1 p2
    refine ⟨pids.headD 0 :: pids', ?_⟩
    have e : (Xi ++ [last]).isEmpty = (Xi ++ [L, R]).isEmpty := by cases Xi <;> rfl
    simp [mkLeaves, setLeaf, h, e]

theorem insNat_ge (q : Nat) : ∀ (xs : List Nat), xs.Pairwise (· ≤ ·) → (∀ x ∈ xs, x ≤ q) → insNat q xs = xs ++ [q]
  | [], _, _ => rfl
  | e :: es, hs, hq => by
    have he : e ≤ q := hq e (by simp)
    have hs' := List.pairwise_cons.mp hs
    simp only [insNat]
    by_cases hlt : e < q
    · simp [hlt, insNat_ge q es hs'.2 (fun x hx => hq x (by simp [hx]))]
    · have heq : e = q := by omega
      subst heq
      simp only [hlt, if_false, List.cons_append, List.cons.injEq, true_and]
      -- every later element lies between e and q = e
      have hall : ∀ x ∈ es, x = e := fun x hx => by
        have h1 := hs'.1 x hx
        have h2 := hq x (by simp [hx])
        omega
      have : es = List.replicate es.length e := List.eq_replicate_iff.mpr ⟨rfl, hall⟩
      rw [this]
      simp [← List.replicate_succ, List.replicate_succ']

theorem heads_snoc (Xi : List (List Nat)) (ys : List Nat) : heads (Xi ++ [ys]) = heads Xi ++ [ys.headD 0] := by
  simp [heads]

/-- the head of the last leaf is what the internal root knows about it -/
theorem heads_tail_snoc (Xi : List (List Nat)) (a b : List Nat) (h : Xi ≠ [] → a.headD 0 = b.headD 0) :
    heads (Xi ++ [a]).tail = heads (Xi ++ [b]).tail := by
  cases Xi with
  | nil => rfl
  | cons x Xi =>
    simp only [List.cons_append, List.tail_cons, heads_snoc]
    rw [h (by simp)]

end Nervus.Crash

namespace Nervus.Crash

theorem treeShape_top {t : TreeImg} {X : List (List Nat)} {top : Bool} (h : TreeShape t X top) : t.inode.isSome = top := by
  have := h.inode
  cases top with
  | true => simp only [if_true] at this; rw [this]; rfl
  | false => simp only [Bool.false_eq_true, if_false] at this; rw [this.1]; rfl

/-- the scratch tree after an insertion without split -/
def treeApp (t : TreeImg) (q i : Nat) (es : List Nat) (p : Nat) : TreeImg :=
  { t with blobs := q :: t.blobs, leaves := setLeaf t.leaves i ⟨es.map some, false, p⟩ }

/-- the scratch tree after an insertion with a split of the last leaf -/
def treeSplit (t : TreeImg) (q i : Nat) (L R : List Nat) (p rp np : Nat) : TreeImg :=
  { t with blobs := q :: t.blobs
           leaves := setLeaf (setLeaf t.leaves i ⟨L.map some, true, p⟩) (i + 1) ⟨R.map some, false, rp⟩
           inode := some ((t.inode.getD []) ++ [R.headD 0])
           inodePid := if t.inode.isSome then t.inodePid else np }

/-- the scratch tree after one insertion at the end of the chain (with or without a split) -/
theorem sinkOne_tree (cfg : Cfg) (ps : PS) (t : TreeImg) (q : Nat) (Xi : List (List Nat)) (last : List Nat) (pids : List Nat)
    (hl : t.leaves = mkLeaves (Xi ++ [last]) pids) (hs : last.Pairwise (· ≤ ·)) (hq : ∀ x ∈ last, x ≤ q) :
    ∃ p : Nat,
    (last.length < cfg.leafCap → (sinkOneA cfg ps t q).2.2 = treeApp t q Xi.length (last ++ [q]) p) ∧
    (¬ last.length < cfg.leafCap →
      ∃ rp np, (sinkOneA cfg ps t q).2.2 =
        treeSplit t q Xi.length ((last ++ [q]).take ((last.length + 1) / 2)) ((last ++ [q]).drop ((last.length + 1) / 2)) p rp np) := by
  obtain ⟨p, hp⟩ := mkLeaves_snoc_get Xi last pids ⟨[], false, t.key⟩
  have hlen : t.leaves.length - 1 = Xi.length := by rw [hl, mkLeaves_snoc_len]; omega
  have hleaf : t.leaves[Xi.length]?.getD ⟨[], false, t.key⟩ = ⟨last.map some, false, p⟩ := by
    rw [← List.getD_eq_getElem?_getD, hl]; exact hp
  have hes : insertSorted q (last.map some) = (last ++ [q]).map some := by
    rw [insertSorted_map, insNat_ge q last hs hq]
  refine ⟨p, ?_, ?_⟩
  · intro hc
    simp [sinkOneA, hlen, hleaf, hes, hc, treeApp]
  · intro hc
    cases hin : t.inode with
    | none =>
      refine ⟨(allocA (allocA ps).2.1).2.2, (allocA (allocA (allocA ps).2.1).2.1).2.2, ?_⟩
      simp only [sinkOneA, hlen, List.getD_eq_getElem?_getD, hleaf, hes, hc, hin, List.length_map, if_false, List.length_append, List.length_singleton, treeSplit]
      simp only [← List.map_take, ← List.map_drop, Option.getD_none, List.nil_append, Option.isSome_none, Bool.false_eq_true, if_false]
      congr 2
      cases (last ++ [q]).drop ((last.length + 1) / 2) <;> simp
    | some seps =>
      refine ⟨(allocA (allocA ps).2.1).2.2, 0, ?_⟩
      simp only [sinkOneA, hlen, List.getD_eq_getElem?_getD, hleaf, hes, hc, hin, List.length_map, if_false, List.length_append, List.length_singleton, treeSplit]
      simp only [← List.map_take, ← List.map_drop, Option.getD_some, Option.isSome_some, if_true]
      congr 3
      cases (last ++ [q]).drop ((last.length + 1) / 2) <;> simp

end Nervus.Crash

namespace Nervus.Crash

theorem headD_append_ne (a b : List Nat) (h : a ≠ []) : (a ++ b).headD 0 = a.headD 0 := by
  cases a with
  | nil => exact absurd rfl h
  | cons x xs => rfl

theorem headD_take (a : List Nat) (n : Nat) (hn : 1 ≤ n) : (a.take n).headD 0 = a.headD 0 := by
  cases a with
  | nil => simp
  | cons x xs =>
    cases n with
    | zero => omega
    | succ n => rfl

/-- **one insertion at the end of a chain keeps the chain shape** (the key is not below any key
    already there) -/
theorem sinkOne_shape (cfg : Cfg) (hcap : 1 ≤ cfg.leafCap) (ps : PS) (t : TreeImg) (q : Nat) (Xi : List (List Nat))
    (last : List Nat) (top : Bool) (h : TreeShape t (Xi ++ [last]) top) (hq : ∀ x ∈ (Xi ++ [last]).flatten, x ≤ q) :
    ∃ Xi' last' top', TreeShape (sinkOneA cfg ps t q).2.2 (Xi' ++ [last']) top' ∧
      (Xi' ++ [last']).flatten = (Xi ++ [last]).flatten ++ [q] ∧
      (sinkOneA cfg ps t q).2.2.blobs = q :: t.blobs ∧ (sinkOneA cfg ps t q).2.2.key = t.key := by
  obtain ⟨pids, hl⟩ := h.leaves
  have hsp := (sortedNat_iff _).mp h.sorted
  have hflat : (Xi ++ [last]).flatten = Xi.flatten ++ last := by simp
  have hslast : last.Pairwise (· ≤ ·) := by
    rw [hflat] at hsp; exact (List.pairwise_append.mp hsp).2.1
  have hqlast : ∀ x ∈ last, x ≤ q := fun x hx => hq x (by rw [hflat]; exact List.mem_append_right _ hx)
  have hsnew : SortedNat ((Xi ++ [last]).flatten ++ [q]) := by
    rw [sortedNat_iff, List.pairwise_append]
    exact ⟨hsp, by simp, fun a ha b hb => by simp only [List.mem_singleton] at hb; subst hb; exact hq a ha⟩
  have hlastne : Xi ≠ [] → last ≠ [] := by
    intro hx
    apply h.tail last
    cases Xi with
    | nil => exact absurd rfl hx
    | cons x Xs => simp
  obtain ⟨p, h1, h2⟩ := sinkOne_tree cfg ps t q Xi last pids hl hslast hqlast
  by_cases hc : last.length < cfg.leafCap
  · rw [h1 hc]
    refine ⟨Xi, last ++ [q], top, ?_, by simp, rfl, rfl⟩
    obtain ⟨pids', hs'⟩ := setLeaf_snoc Xi last (last ++ [q]) pids p
    refine ⟨by simp, ⟨pids', by show setLeaf t.leaves _ _ = _; rw [hl]; exact hs'⟩, by
      have : (Xi ++ [last ++ [q]]).flatten = (Xi ++ [last]).flatten ++ [q] := by simp
      rw [this]; exact hsnew, ?_, ?_⟩
    · intro ys hys
      cases Xi with
      | nil => simp at hys
      | cons x Xs =>
        simp only [List.cons_append, List.tail_cons, List.mem_append, List.mem_singleton] at hys
        rcases hys with hys | rfl
        · exact h.tail ys (by simp [hys])
        · simp
    · have hin := h.inode
      show if top = true then t.inode = _ else _
      cases top with
      | true =>
        simp only [if_true] at hin ⊢
        rw [hin]
        congr 1
        exact heads_tail_snoc Xi last (last ++ [q]) (fun hx => (headD_append_ne last [q] (hlastne hx)).symm)
      | false =>
        simp only [Bool.false_eq_true, if_false] at hin ⊢
        refine ⟨hin.1, ?_⟩
        have : Xi = [] := by
          cases Xi with
          | nil => rfl
          | cons x Xs => simp at hin
        subst this; rfl
  · obtain ⟨rp, np, h2'⟩ := h2 hc
    rw [h2']
    have hlenl : 1 ≤ last.length := by omega
    have hmid1 : 1 ≤ (last.length + 1) / 2 := by omega
    have hmid2 : (last.length + 1) / 2 < (last ++ [q]).length := by simp; omega
    have hLne : (last ++ [q]).take ((last.length + 1) / 2) ≠ [] := by
      intro h0
      have := congrArg List.length h0
      simp at this; omega
    have hRne : (last ++ [q]).drop ((last.length + 1) / 2) ≠ [] := by
      intro h0
      have := congrArg List.length h0
      simp at this; omega
    have hlast0 : last ≠ [] := by intro h0; rw [h0] at hlenl; simp at hlenl
    refine ⟨Xi ++ [(last ++ [q]).take ((last.length + 1) / 2)], (last ++ [q]).drop ((last.length + 1) / 2), true, ?_, ?_, rfl, rfl⟩
    · obtain ⟨pids', hs'⟩ := setLeaf_split Xi last ((last ++ [q]).take ((last.length + 1) / 2))
        ((last ++ [q]).drop ((last.length + 1) / 2)) pids p rp
      refine ⟨by simp, ⟨pids', by
          show setLeaf (setLeaf t.leaves _ _) _ _ = _
          rw [hl, List.append_assoc]; exact hs'⟩, by
        have : ((Xi ++ [(last ++ [q]).take ((last.length + 1) / 2)]) ++ [(last ++ [q]).drop ((last.length + 1) / 2)]).flatten =
            (Xi ++ [last]).flatten ++ [q] := by
          simp [List.append_assoc]
        rw [this]; exact hsnew, ?_, ?_⟩
      · intro ys hys
        cases Xi with
        | nil =>
          simp only [List.nil_append, List.cons_append, List.tail_cons, List.mem_singleton] at hys
          subst hys; exact hRne
        | cons x Xs =>
          simp only [List.cons_append, List.append_assoc, List.tail_cons, List.mem_append, List.mem_cons,
            List.mem_nil_iff, or_false] at hys
          rcases hys with hys | hys | hys
          · exact h.tail ys (by simp [hys])
          · rw [hys]; exact hLne
          · rcases hys with hf | hys
            · exact absurd hf id
            · rw [hys]; exact hRne
      · simp only [if_true]
        show some (t.inode.getD [] ++ [((last ++ [q]).drop ((last.length + 1) / 2)).headD 0]) = _
        congr 1
        have hin := h.inode
        cases Xi with
        | nil =>
          have hi0 : t.inode.getD [] = [] := by
            cases top with
            | true => simp only [if_true] at hin; rw [hin]; rfl
            | false => simp only [Bool.false_eq_true, if_false] at hin; rw [hin.1]; rfl
          rw [hi0]; rfl
        | cons x Xs =>
          have htop : top = true := by
            cases top with
            | true => rfl
            | false => simp at hin
          subst htop
          simp only [if_true] at hin
          rw [hin]
          simp only [List.cons_append, List.tail_cons, Option.getD_some, List.append_assoc, heads, List.map_append, List.map_cons,
            List.map_nil]
          congr 2
          rw [headD_take _ _ hmid1, headD_append_ne last [q] hlast0]
    · simp [List.append_assoc]

end Nervus.Crash
