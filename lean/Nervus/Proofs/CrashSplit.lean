/-
  Proofs.CrashSplit — property sinking WITH leaf splits (`BTree::insert` Err arm): the chain of
  leaves a sequence of ascending insertions builds, and the block judgement for a tree that is not
  the live one (a new tree is not reachable before the manifest is durable).
-/
import Nervus.Proofs.CrashSink
namespace Nervus.Crash

/-! ### leaf lists -/

theorem insNat_ge (q : Nat) : ∀ (xs : List Nat), xs.Pairwise (· ≤ ·) → (∀ x ∈ xs, x ≤ q) → insNat q xs = xs ++ [q]
  | [], _, _ => rfl
  | e :: es, hs, hq => by
    have he : e ≤ q := hq e (by simp)
    have hs' := List.pairwise_cons.mp hs
    simp only [insNat]
    by_cases hlt : e < q
    · simp [hlt, insNat_ge q es hs'.2 (fun x hx => hq x (by simp [hx]))]
    · have heq : e = q := by omega
      subst heq
      simp only [hlt, if_false, List.cons_append, List.cons.injEq, true_and]
      -- every later element lies between e and q = e
      have hall : ∀ x ∈ es, x = e := fun x hx => by
        have h1 := hs'.1 x hx
        have h2 := hq x (by simp [hx])
        omega
      have : es = List.replicate es.length e := List.eq_replicate_iff.mpr ⟨rfl, hall⟩
      rw [this]
      simp [← List.replicate_succ, List.replicate_succ']

end Nervus.Crash

namespace Nervus.Crash

/-- the scratch tree after an insertion without split -/
def treeApp (t : TreeImg) (q i : Nat) (es : List Nat) (p : Nat) : TreeImg :=
  { t with blobs := q :: t.blobs, leaves := setLeaf t.leaves i ⟨es.map some, false, p⟩ }

/-- the scratch tree after an insertion with a split of the last leaf -/
def treeSplit (t : TreeImg) (q i : Nat) (L R : List Nat) (p rp np : Nat) : TreeImg :=
  { t with blobs := q :: t.blobs
           leaves := setLeaf (setLeaf t.leaves i ⟨L.map some, true, p⟩) (i + 1) ⟨R.map some, false, rp⟩
           inode := some ((t.inode.getD []) ++ [R.headD 0])
           inodePid := if t.inode.isSome then t.inodePid else np }

/-- the scratch tree after one insertion at the end of the chain (with or without a split) -/
theorem sinkOne_tree (cfg : Cfg) (ps : PS) (t : TreeImg) (q : Nat) (Xi : List (List Nat)) (last : List Nat) (pids : List Nat)
    (hl : t.leaves = mkLeaves (Xi ++ [last]) pids) (hs : last.Pairwise (· ≤ ·)) (hq : ∀ x ∈ last, x ≤ q) (hnq : q ∉ last) :
    ∃ p : Nat,
    (last.length < cfg.leafCap → (sinkOneA cfg ps t q).2.2 = treeApp t q Xi.length (last ++ [q]) p) ∧
    (¬ last.length < cfg.leafCap →
      ∃ rp np, (sinkOneA cfg ps t q).2.2 =
        treeSplit t q Xi.length ((last ++ [q]).take ((last.length + 1) / 2)) ((last ++ [q]).drop ((last.length + 1) / 2)) p rp np) := by
  obtain ⟨p, hp⟩ := mkLeaves_snoc_get Xi last pids ⟨[], false, t.key⟩
  have hlen : t.leaves.length - 1 = Xi.length := by rw [hl, mkLeaves_snoc_len]; omega
  have hleaf : t.leaves[Xi.length]?.getD ⟨[], false, t.key⟩ = ⟨last.map some, false, p⟩ := by
    rw [← List.getD_eq_getElem?_getD, hl]; exact hp
  have hes : insertSorted q (last.map some) = (last ++ [q]).map some := by
    rw [insertSorted_map, insNat_ge q last hs hq]
  have hkeep := filter_ne_some q last hnq
  have hclean := all_isSome_map last
  refine ⟨p, ?_, ?_⟩
  · intro hc
    simp [sinkOneA, hlen, hleaf, hclean, hkeep, hes, hc, treeApp]
  · intro hc
    cases hin : t.inode with
    | none =>
      refine ⟨(allocA (allocA ps).2.1).2.2, (allocA (allocA (allocA ps).2.1).2.1).2.2, ?_⟩
      simp only [sinkOneA, hlen, List.getD_eq_getElem?_getD, hleaf, hclean, if_true, hkeep, Nat.lt_irrefl, List.append_nil, hes, hc, hin, List.length_map, if_false, List.length_append, List.length_singleton, treeSplit]
      simp only [← List.map_take, ← List.map_drop, Option.getD_none, List.nil_append, Option.isSome_none, Bool.false_eq_true, if_false]
      congr 2
      cases (last ++ [q]).drop ((last.length + 1) / 2) <;> simp
    | some seps =>
      refine ⟨(allocA (allocA ps).2.1).2.2, 0, ?_⟩
      simp only [sinkOneA, hlen, List.getD_eq_getElem?_getD, hleaf, hclean, if_true, hkeep, Nat.lt_irrefl, List.append_nil, hes, hc, hin, List.length_map, if_false, List.length_append, List.length_singleton, treeSplit]
      simp only [← List.map_take, ← List.map_drop, Option.getD_some, Option.isSome_some, if_true]
      congr 3
      cases (last ++ [q]).drop ((last.length + 1) / 2) <;> simp

end Nervus.Crash

namespace Nervus.Crash

/-- **one insertion at the end of a chain keeps the chain shape** (the key is not below any key
    already there) -/
theorem sinkOne_shape (cfg : Cfg) (hcap : 1 ≤ cfg.leafCap) (ps : PS) (t : TreeImg) (q : Nat) (Xi : List (List Nat))
    (last : List Nat) (top : Bool) (h : TreeShape t (Xi ++ [last]) top) (hq : ∀ x ∈ (Xi ++ [last]).flatten, x ≤ q) (hnq : q ∉ last) :
    ∃ Xi' last' top', TreeShape (sinkOneA cfg ps t q).2.2 (Xi' ++ [last']) top' ∧
      (Xi' ++ [last']).flatten = (Xi ++ [last]).flatten ++ [q] ∧
      (sinkOneA cfg ps t q).2.2.blobs = q :: t.blobs ∧ (sinkOneA cfg ps t q).2.2.key = t.key := by
  obtain ⟨pids, hl⟩ := h.leaves
  have hsp := (sortedNat_iff _).mp h.sorted
  have hflat : (Xi ++ [last]).flatten = Xi.flatten ++ last := by simp
  have hslast : last.Pairwise (· ≤ ·) := by
    rw [hflat] at hsp; exact (List.pairwise_append.mp hsp).2.1
  have hqlast : ∀ x ∈ last, x ≤ q := fun x hx => hq x (by rw [hflat]; exact List.mem_append_right _ hx)
  have hsnew : SortedNat ((Xi ++ [last]).flatten ++ [q]) := by
    rw [sortedNat_iff, List.pairwise_append]
    exact ⟨hsp, by simp, fun a ha b hb => by simp only [List.mem_singleton] at hb; subst hb; exact hq a ha⟩
  have hlastne : Xi ≠ [] → last ≠ [] := by
    intro hx
    apply h.tail last
    cases Xi with
    | nil => exact absurd rfl hx
    | cons x Xs => simp
  obtain ⟨p, h1, h2⟩ := sinkOne_tree cfg ps t q Xi last pids hl hslast hqlast hnq
  by_cases hc : last.length < cfg.leafCap
  · rw [h1 hc]
    refine ⟨Xi, last ++ [q], top, ?_, by simp, rfl, rfl⟩
    obtain ⟨pids', hs'⟩ := setLeaf_snoc Xi last (last ++ [q]) pids p
    refine ⟨by simp, ⟨pids', by show setLeaf t.leaves _ _ = _; rw [hl]; exact hs'⟩, by
      have : (Xi ++ [last ++ [q]]).flatten = (Xi ++ [last]).flatten ++ [q] := by simp
      rw [this]; exact hsnew, ?_, ?_⟩
    · intro ys hys
      cases Xi with
      | nil => simp at hys
      | cons x Xs =>
        simp only [List.cons_append, List.tail_cons, List.mem_append, List.mem_singleton] at hys
        rcases hys with hys | rfl
        · exact h.tail ys (by simp [hys])
        · simp
    · have hin := h.inode
      show if top = true then t.inode = _ else _
      cases top with
      | true =>
        simp only [if_true] at hin ⊢
        rw [hin]
        congr 1
        exact heads_tail_snoc Xi last (last ++ [q]) (fun hx => (headD_append_ne last [q] (hlastne hx)).symm)
      | false =>
        simp only [Bool.false_eq_true, if_false] at hin ⊢
        refine ⟨hin.1, ?_⟩
        have : Xi = [] := by
          cases Xi with
          | nil => rfl
          | cons x Xs => simp at hin
        subst this; rfl
  · obtain ⟨rp, np, h2'⟩ := h2 hc
    rw [h2']
    have hlenl : 1 ≤ last.length := by omega
    have hmid1 : 1 ≤ (last.length + 1) / 2 := by omega
    have hmid2 : (last.length + 1) / 2 < (last ++ [q]).length := by simp; omega
    have hLne : (last ++ [q]).take ((last.length + 1) / 2) ≠ [] := by
      intro h0
      have := congrArg List.length h0
      simp at this; omega
    have hRne : (last ++ [q]).drop ((last.length + 1) / 2) ≠ [] := by
      intro h0
      have := congrArg List.length h0
      simp at this; omega
    have hlast0 : last ≠ [] := by intro h0; rw [h0] at hlenl; simp at hlenl
    refine ⟨Xi ++ [(last ++ [q]).take ((last.length + 1) / 2)], (last ++ [q]).drop ((last.length + 1) / 2), true, ?_, ?_, rfl, rfl⟩
    · obtain ⟨pids', hs'⟩ := setLeaf_split Xi last ((last ++ [q]).take ((last.length + 1) / 2))
        ((last ++ [q]).drop ((last.length + 1) / 2)) pids p rp
      refine ⟨by simp, ⟨pids', by
          show setLeaf (setLeaf t.leaves _ _) _ _ = _
          rw [hl, List.append_assoc]; exact hs'⟩, by
        have : ((Xi ++ [(last ++ [q]).take ((last.length + 1) / 2)]) ++ [(last ++ [q]).drop ((last.length + 1) / 2)]).flatten =
            (Xi ++ [last]).flatten ++ [q] := by
          simp [List.append_assoc]
        rw [this]; exact hsnew, ?_, ?_⟩
      · intro ys hys
        cases Xi with
        | nil =>
          simp only [List.nil_append, List.cons_append, List.tail_cons, List.mem_singleton] at hys
          subst hys; exact hRne
        | cons x Xs =>
          simp only [List.cons_append, List.append_assoc, List.tail_cons, List.mem_append, List.mem_cons,
            List.mem_nil_iff, or_false] at hys
          rcases hys with hys | hys | hys
          · exact h.tail ys (by simp [hys])
          · rw [hys]; exact hLne
          · rcases hys with hf | hys
            · exact absurd hf id
            · rw [hys]; exact hRne
      · simp only [if_true]
        show some (t.inode.getD [] ++ [((last ++ [q]).drop ((last.length + 1) / 2)).headD 0]) = _
        congr 1
        have hin := h.inode
        cases Xi with
        | nil =>
          have hi0 : t.inode.getD [] = [] := by
            cases top with
            | true => simp only [if_true] at hin; rw [hin]; rfl
            | false => simp only [Bool.false_eq_true, if_false] at hin; rw [hin.1]; rfl
          rw [hi0]; rfl
        | cons x Xs =>
          have htop : top = true := by
            cases top with
            | true => rfl
            | false => simp at hin
          subst htop
          simp only [if_true] at hin
          rw [hin]
          simp only [List.cons_append, List.tail_cons, Option.getD_some, List.append_assoc, heads, List.map_append, List.map_cons,
            List.map_nil]
          congr 2
          rw [headD_take _ _ hmid1, headD_append_ne last [q] hlast0]
    · simp [List.append_assoc]

end Nervus.Crash

namespace Nervus.Crash

/-- the actions of one insertion, in the three cases of `BTree::insert` -/
theorem sinkOne_eq (cfg : Cfg) (ps : PS) (t : TreeImg) (q : Nat) (Xi : List (List Nat)) (last : List Nat) (pids : List Nat)
    (hl : t.leaves = mkLeaves (Xi ++ [last]) pids) (hs : last.Pairwise (· ≤ ·)) (hq : ∀ x ∈ last, x ≤ q) (hnq : q ∉ last) :
    ∃ p : Nat,
    (last.length < cfg.leafCap →
      sinkOneA cfg ps t q =
        ((allocA ps).1 ++ [ioA (.pg (.blob t.key q) (allocA ps).2.2)] ++
          [ioA (.pg (.leaf t.key Xi.length ((last ++ [q]).map some) false p) p)],
         (allocA ps).2.1, treeApp t q Xi.length (last ++ [q]) p)) ∧
    (¬ last.length < cfg.leafCap → t.inode = none →
      sinkOneA cfg ps t q =
        ((allocA ps).1 ++ [ioA (.pg (.blob t.key q) (allocA ps).2.2)] ++ (allocA (allocA ps).2.1).1 ++
          [ioA (.pg (.leaf t.key Xi.length (((last ++ [q]).take ((last.length + 1) / 2)).map some) true p) p),
           ioA (.pg (.leaf t.key (Xi.length + 1) (((last ++ [q]).drop ((last.length + 1) / 2)).map some) false (allocA (allocA ps).2.1).2.2)
             (allocA (allocA ps).2.1).2.2)] ++ (allocA (allocA (allocA ps).2.1).2.1).1 ++
          [ioA (.pg (.inode t.key [((last ++ [q]).drop ((last.length + 1) / 2)).headD 0] (allocA (allocA (allocA ps).2.1).2.1).2.2)
            (allocA (allocA (allocA ps).2.1).2.1).2.2)],
         (allocA (allocA (allocA ps).2.1).2.1).2.1,
         treeSplit t q Xi.length ((last ++ [q]).take ((last.length + 1) / 2)) ((last ++ [q]).drop ((last.length + 1) / 2)) p
           (allocA (allocA ps).2.1).2.2 (allocA (allocA (allocA ps).2.1).2.1).2.2)) ∧
    (¬ last.length < cfg.leafCap → ∀ seps, t.inode = some seps →
      sinkOneA cfg ps t q =
        ((allocA ps).1 ++ [ioA (.pg (.blob t.key q) (allocA ps).2.2)] ++ (allocA (allocA ps).2.1).1 ++
          [ioA (.pg (.leaf t.key Xi.length (((last ++ [q]).take ((last.length + 1) / 2)).map some) true p) p),
           ioA (.pg (.leaf t.key (Xi.length + 1) (((last ++ [q]).drop ((last.length + 1) / 2)).map some) false (allocA (allocA ps).2.1).2.2)
             (allocA (allocA ps).2.1).2.2)] ++
          [ioA (.pg (.inode t.key (seps ++ [((last ++ [q]).drop ((last.length + 1) / 2)).headD 0]) t.inodePid) t.inodePid)],
         (allocA (allocA ps).2.1).2.1,
         treeSplit t q Xi.length ((last ++ [q]).take ((last.length + 1) / 2)) ((last ++ [q]).drop ((last.length + 1) / 2)) p
           (allocA (allocA ps).2.1).2.2 0)) := by
  obtain ⟨p, hp⟩ := mkLeaves_snoc_get Xi last pids ⟨[], false, t.key⟩
  have hlen : t.leaves.length - 1 = Xi.length := by rw [hl, mkLeaves_snoc_len]; omega
  have hleaf : t.leaves[Xi.length]?.getD ⟨[], false, t.key⟩ = ⟨last.map some, false, p⟩ := by
    rw [← List.getD_eq_getElem?_getD, hl]; exact hp
  have hes : insertSorted q (last.map some) = (last ++ [q]).map some := by
    rw [insertSorted_map, insNat_ge q last hs hq]
  have hkeep := filter_ne_some q last hnq
  have hclean := all_isSome_map last
  have hsep : ∀ l : List Nat, ((l.map some).headD none).getD 0 = l.headD 0 := by
    intro l; cases l <;> simp
  refine ⟨p, ?_, ?_, ?_⟩
  · intro hc
    simp [sinkOneA, hlen, hleaf, hclean, hkeep, hes, hc, treeApp]
  · intro hc hin
    simp only [sinkOneA, hlen, List.getD_eq_getElem?_getD, hleaf, hclean, if_true, hkeep, Nat.lt_irrefl, List.append_nil, hes, hc, hin, List.length_map, if_false, List.length_append,
      List.length_singleton, treeSplit]
    simp only [← List.map_take, ← List.map_drop, hsep, Option.getD_none, List.nil_append, Option.isSome_none, Bool.false_eq_true, if_false]
  · intro hc seps hin
    simp only [sinkOneA, hlen, List.getD_eq_getElem?_getD, hleaf, hclean, if_true, hkeep, Nat.lt_irrefl, List.append_nil, hes, hc, hin, List.length_map, if_false, List.length_append,
      List.length_singleton, treeSplit]
    simp only [← List.map_take, ← List.map_drop, hsep, Option.getD_some, Option.isSome_some, if_true]

end Nervus.Crash

namespace Nervus.Crash

def TreeE : PEff → Prop
  | .treeNew _ => True
  | .blob _ _ => True
  | .leaf _ _ _ _ _ => True
  | .inode _ _ _ => True
  | .stats => True
  | _ => False

theorem treeFind_upd (p : PImg) (k : Nat) (f : TreeImg → TreeImg) (hf : ∀ t, (f t).key = t.key) (t : TreeImg)
    (h : treeFind p k = some t) : treeFind { p with trees := updTree p.trees k f } k = some (f t) := by
  have hk : t.key = k := (treeFind_key h).2
  have := find_updTree p.trees k f hf k
  simp only [treeFind] at h ⊢
  rw [h] at this
  simpa [hk] using this

theorem sortNat_pairwise : ∀ xs : List Nat, (sortNat xs).Pairwise (· ≤ ·)
  | [] => by simp [sortNat]
  | x :: xs => by
    have ih := sortNat_pairwise xs
    unfold sortNat at ih ⊢
    simp only [List.foldr_cons]
    generalize List.foldr (fun x acc => List.filter (fun x_1 => decide (x_1 < x)) acc ++ [x] ++ List.filter (fun y => decide ¬y < x) acc) [] xs = acc at ih ⊢
    rw [List.append_assoc, List.pairwise_append]
    refine ⟨ih.sublist List.filter_sublist, ?_, ?_⟩
    · rw [List.pairwise_append]
      refine ⟨by simp, ih.sublist List.filter_sublist, ?_⟩
      intro a ha b hb
      simp at ha hb
      omega
    · intro a ha b hb
      simp only [List.mem_filter, decide_eq_true_eq] at ha
      simp only [List.mem_append, List.mem_singleton, List.mem_filter, decide_eq_true_eq] at hb
      rcases hb with rfl | ⟨_, hb⟩ <;> omega

variable {p0 : PImg} {live lo : Nat} {allowed covered : List Nat} {lv : LiveP}

/-- **one insertion into a tree that is not the live one** (with or without a leaf split): block
    judgement and the volatile tree -/
theorem pblk_sinkOneNew (cfg : Cfg) (nd : Nat) (ps : PS) (t : TreeImg) (q : Nat) (Xi : List (List Nat)) (last : List Nat) (pids : List Nat)
    (hsk : SameKey p0.hdr ps.pm) (hnp : min ps.bm ps.pm.nextPage = nd) (hk : t.key ≠ live)
    (hl : t.leaves = mkLeaves (Xi ++ [last]) pids) (hs : last.Pairwise (· ≤ ·)) (hq : ∀ x ∈ last, x ≤ q) (hnq : q ∉ last) :
    ∃ nd' effs, PBlk p0 live allowed covered lv lo nd ps (sinkOneA cfg ps t q).1 effs nd' (sinkOneA cfg ps t q).2.1 ∧
      (∀ e ∈ effs, TreeE e) ∧
      ∀ p : PImg, treeFind p t.key = some t → treeFind (applyEffs effs p) t.key = some (sinkOneA cfg ps t q).2.2 := by
  obtain ⟨pl, hA, hB, hC⟩ := sinkOne_eq cfg ps t q Xi last pids hl hs hq hnq
  obtain ⟨ba, _, _⟩ := pblk_alloc_eq (p0 := p0) (live := live) (lo := lo) (allowed := allowed) (covered := covered) (lv := lv) ps hsk hnp
  have bb := pblk_write (p0 := p0) (live := live) (lo := lo) (allowed := allowed) (covered := covered) (lv := lv) ba.sk ba.np
    (.blob t.key q) (allocA ps).2.2 trivial
  have hblob : ∀ p : PImg, treeFind p t.key = some t →
      treeFind (applyEff (.blob t.key q) p) t.key = some { t with blobs := q :: t.blobs } :=
    fun p h => treeFind_upd p t.key (fun t => { t with blobs := q :: t.blobs }) (fun _ => rfl) t h
  have hleafE : ∀ (p : PImg) (t' : TreeImg) (i : Nat) (es : List (Option Nat)) (sib : Bool) (pid : Nat), treeFind p t.key = some t' →
      treeFind (applyEff (.leaf t.key i es sib pid) p) t.key = some { t' with leaves := setLeaf t'.leaves i ⟨es, sib, pid⟩ } :=
    fun p t' i es sib pid h => treeFind_upd p t.key (fun t => { t with leaves := setLeaf t.leaves i ⟨es, sib, pid⟩ }) (fun _ => rfl) t' h
  have hinoE : ∀ (p : PImg) (t' : TreeImg) (seps : List Nat) (pid : Nat), treeFind p t.key = some t' →
      treeFind (applyEff (.inode t.key seps pid) p) t.key = some { t' with inode := some seps, inodePid := pid } :=
    fun p t' seps pid h => treeFind_upd p t.key (fun t => { t with inode := some seps, inodePid := pid }) (fun _ => rfl) t' h
  by_cases hc : last.length < cfg.leafCap
  · rw [hA hc]
    have bl := pblk_write (p0 := p0) (live := live) (lo := lo) (allowed := allowed) (covered := covered) (lv := lv) ba.sk ba.np
      (.leaf t.key Xi.length ((last ++ [q]).map some) false pl) pl (Or.inl hk)
    refine ⟨_, _, (ba.append bb).append bl, ?_, ?_⟩
    · intro e he
      simp at he
      rcases he with rfl | rfl <;> trivial
    · intro p hp
      have h1 := hblob p hp
      have h2 := hleafE _ _ Xi.length ((last ++ [q]).map some) false pl h1
      simpa [applyEffs, treeApp] using h2
  · obtain ⟨ba2, _, _⟩ := pblk_alloc_eq (p0 := p0) (live := live) (lo := lo) (allowed := allowed) (covered := covered) (lv := lv)
      (allocA ps).2.1 ba.sk ba.np
    have bL := pblk_write (p0 := p0) (live := live) (lo := lo) (allowed := allowed) (covered := covered) (lv := lv) ba2.sk ba2.np
      (.leaf t.key Xi.length (((last ++ [q]).take ((last.length + 1) / 2)).map some) true pl) pl (Or.inl hk)
    have bR := pblk_write (p0 := p0) (live := live) (lo := lo) (allowed := allowed) (covered := covered) (lv := lv) ba2.sk ba2.np
      (.leaf t.key (Xi.length + 1) (((last ++ [q]).drop ((last.length + 1) / 2)).map some) false (allocA (allocA ps).2.1).2.2)
      (allocA (allocA ps).2.1).2.2 (Or.inl hk)
    cases hin : t.inode with
    | none =>
      rw [hB hc hin]
      obtain ⟨ba3, _, _⟩ := pblk_alloc_eq (p0 := p0) (live := live) (lo := lo) (allowed := allowed) (covered := covered) (lv := lv)
        (allocA (allocA ps).2.1).2.1 ba2.sk ba2.np
      have bI := pblk_write (p0 := p0) (live := live) (lo := lo) (allowed := allowed) (covered := covered) (lv := lv) ba3.sk ba3.np
        (.inode t.key [((last ++ [q]).drop ((last.length + 1) / 2)).headD 0] (allocA (allocA (allocA ps).2.1).2.1).2.2)
        (allocA (allocA (allocA ps).2.1).2.1).2.2 hk
      have hall := ((((ba.append bb).append ba2).append (bL.append bR)).append ba3).append bI
      refine ⟨_, _, by simpa using hall, ?_, ?_⟩
      · intro e he
        simp at he
        rcases he with rfl | rfl | rfl | rfl <;> trivial
      · intro p hp
        have h1 := hblob p hp
        have h2 := hleafE _ _ Xi.length (((last ++ [q]).take ((last.length + 1) / 2)).map some) true pl h1
        have h3 := hleafE _ _ (Xi.length + 1) (((last ++ [q]).drop ((last.length + 1) / 2)).map some) false (allocA (allocA ps).2.1).2.2 h2
        have h4 := hinoE _ _ [((last ++ [q]).drop ((last.length + 1) / 2)).headD 0] (allocA (allocA (allocA ps).2.1).2.1).2.2 h3
        simpa [applyEffs, treeSplit, hin] using h4
    | some seps =>
      rw [hC hc seps hin]
      have bI := pblk_write (p0 := p0) (live := live) (lo := lo) (allowed := allowed) (covered := covered) (lv := lv) ba2.sk ba2.np
        (.inode t.key (seps ++ [((last ++ [q]).drop ((last.length + 1) / 2)).headD 0]) t.inodePid) t.inodePid hk
      have hall := (((ba.append bb).append ba2).append (bL.append bR)).append bI
      refine ⟨_, _, by simpa using hall, ?_, ?_⟩
      · intro e he
        simp at he
        rcases he with rfl | rfl | rfl | rfl <;> trivial
      · intro p hp
        have h1 := hblob p hp
        have h2 := hleafE _ _ Xi.length (((last ++ [q]).take ((last.length + 1) / 2)).map some) true pl h1
        have h3 := hleafE _ _ (Xi.length + 1) (((last ++ [q]).drop ((last.length + 1) / 2)).map some) false (allocA (allocA ps).2.1).2.2 h2
        have h4 := hinoE _ _ (seps ++ [((last ++ [q]).drop ((last.length + 1) / 2)).headD 0]) t.inodePid h3
        simpa [applyEffs, treeSplit, hin] using h4

end Nervus.Crash

namespace Nervus.Crash

variable {p0 : PImg} {live lo : Nat} {allowed covered : List Nat} {lv : LiveP}

theorem sinkA_cons (cfg : Cfg) (ps : PS) (t : TreeImg) (q : Nat) (qs : List Nat) :
    sinkA cfg ps t (q :: qs) =
      ((sinkOneA cfg ps t q).1 ++ (sinkA cfg (sinkOneA cfg ps t q).2.1 (sinkOneA cfg ps t q).2.2 qs).1,
       (sinkA cfg (sinkOneA cfg ps t q).2.1 (sinkOneA cfg ps t q).2.2 qs).2.1,
       (sinkA cfg (sinkOneA cfg ps t q).2.1 (sinkOneA cfg ps t q).2.2 qs).2.2) := rfl

/-- **sinking ascending keys into a tree that is not the live one, leaf splits included**: block
    judgement, the volatile tree, and the chain shape of the result -/
theorem pblk_sinkNew (cfg : Cfg) (hcap : 1 ≤ cfg.leafCap) :
    ∀ (qs : List Nat) (nd : Nat) (ps : PS) (t : TreeImg) (Xi : List (List Nat)) (last : List Nat) (tp : Bool),
      SameKey p0.hdr ps.pm → min ps.bm ps.pm.nextPage = nd → t.key ≠ live → TreeShape t (Xi ++ [last]) tp →
      qs.Pairwise (· < ·) → (∀ x ∈ (Xi ++ [last]).flatten, ∀ q ∈ qs, x < q) →
      ∃ nd' effs, PBlk p0 live allowed covered lv lo nd ps (sinkA cfg ps t qs).1 effs nd' (sinkA cfg ps t qs).2.1 ∧
        (∀ e ∈ effs, TreeE e) ∧
        (∀ p : PImg, treeFind p t.key = some t → treeFind (applyEffs effs p) t.key = some (sinkA cfg ps t qs).2.2) ∧
        ∃ Xi' last' tp', TreeShape (sinkA cfg ps t qs).2.2 (Xi' ++ [last']) tp' ∧
          (Xi' ++ [last']).flatten = (Xi ++ [last]).flatten ++ qs ∧
          (∀ y, y ∈ (sinkA cfg ps t qs).2.2.blobs ↔ y ∈ qs ∨ y ∈ t.blobs) ∧ (sinkA cfg ps t qs).2.2.key = t.key
  | [], nd, ps, t, Xi, last, tp, hsk, hnp, _, hsh, _, _ => by
    refine ⟨nd, [], by simpa [sinkA] using PBlk.nil (live := live) (lo := lo) (allowed := allowed) (covered := covered) (lv := lv) hsk hnp,
      by simp, fun p hp => by simpa [sinkA, applyEffs] using hp, Xi, last, tp, by simpa [sinkA] using hsh, by simp, by simp [sinkA], rfl⟩
  | q :: qs, nd, ps, t, Xi, last, tp, hsk, hnp, hk, hsh, hpw, hq => by
    obtain ⟨pids, hl⟩ := hsh.leaves
    have hsp := (sortedNat_iff _).mp hsh.sorted
    have hflat : (Xi ++ [last]).flatten = Xi.flatten ++ last := by simp
    have hslast : last.Pairwise (· ≤ ·) := by
      rw [hflat] at hsp; exact (List.pairwise_append.mp hsp).2.1
    have hq1 : ∀ x ∈ (Xi ++ [last]).flatten, x ≤ q := fun x hx => Nat.le_of_lt (hq x hx q (by simp))
    have hqlast : ∀ x ∈ last, x ≤ q := fun x hx => hq1 x (by rw [hflat]; exact List.mem_append_right _ hx)
    have hnq : q ∉ last := fun hin => Nat.lt_irrefl q (hq q (by rw [hflat]; exact List.mem_append_right _ hin) q (by simp))
    obtain ⟨nd1, e1, b1, hTE1, hf1⟩ := pblk_sinkOneNew (p0 := p0) (live := live) (lo := lo) (allowed := allowed) (covered := covered) (lv := lv)
      cfg nd ps t q Xi last pids hsk hnp hk hl hslast hqlast hnq
    obtain ⟨Xi1, last1, tp1, hsh1, hflat1, hbl1, hkey1⟩ := sinkOne_shape cfg hcap ps t q Xi last tp hsh hq1 hnq
    have hpw' := List.pairwise_cons.mp hpw
    obtain ⟨nd2, e2, b2, hTE2, hf2, Xi2, last2, tp2, hsh2, hflat2, hbl2, hkey2⟩ :=
      pblk_sinkNew cfg hcap qs nd1 (sinkOneA cfg ps t q).2.1 (sinkOneA cfg ps t q).2.2 Xi1 last1 tp1 b1.sk b1.np (by rw [hkey1]; exact hk) hsh1 hpw'.2
        (by
          intro x hx q' hq'
          rw [hflat1] at hx
          rcases List.mem_append.mp hx with hx | hx
          · exact hq x hx q' (by simp [hq'])
          · simp at hx; subst hx; exact hpw'.1 q' hq')
    rw [sinkA_cons]
    refine ⟨nd2, e1 ++ e2, b1.append b2, ?_, ?_, Xi2, last2, tp2, hsh2, ?_, ?_, ?_⟩
    · intro e he
      rcases List.mem_append.mp he with h | h
      · exact hTE1 e h
      · exact hTE2 e h
    · intro p hp
      rw [applyEffs_append]
      have := hf2 (applyEffs e1 p) (by rw [hkey1]; exact hf1 p hp)
      rw [hkey1] at this
      exact this
    · rw [hflat2, hflat1]; simp
    · intro y
      rw [hbl2 y, hbl1]
      simp only [List.mem_cons]
      constructor
      · rintro (h | h | h)
        · exact Or.inl (Or.inr h)
        · exact Or.inl (Or.inl h)
        · exact Or.inr h
      · rintro ((h | h) | h)
        · exact Or.inr (Or.inl h)
        · exact Or.inl h
        · exact Or.inr (Or.inr h)
    · show (sinkA cfg (sinkOneA cfg ps t q).2.1 (sinkOneA cfg ps t q).2.2 qs).2.2.key = t.key
      rw [hkey2, hkey1]

end Nervus.Crash

namespace Nervus.Crash

variable {p0 : PImg} {live lo : Nat} {allowed covered : List Nat} {lv : LiveP}

/-- **sinking ascending keys into the last leaf of the LIVE tree, without split** (the tree may
    have any number of leaves under an internal root): each leaf write appends to the last leaf
    and keeps its first key, so every image of the class still holds the covered properties -/
theorem pblk_sinkLive (cfg : Cfg) :
    ∀ (qs : List Nat) (nd : Nat) (ps : PS) (t : TreeImg) (last : List Nat),
      SameKey p0.hdr ps.pm → min ps.bm ps.pm.nextPage = nd → TreeShape t (lv.Xi ++ [last]) lv.top →
      (lv.Xi ≠ [] → last.headD 0 = lv.hd) → (∀ q ∈ (lv.Xi ++ [last]).flatten, q ∈ allowed) →
      (∀ q ∈ covered, q ∈ (lv.Xi ++ [last]).flatten) → (∀ q ∈ qs, q ∈ allowed) →
      last.length + qs.length ≤ cfg.leafCap → qs.Pairwise (· < ·) → (∀ x ∈ (lv.Xi ++ [last]).flatten, ∀ q ∈ qs, x < q) →
      ∃ effs, PBlk p0 live allowed covered lv lo nd ps (sinkA cfg ps t qs).1 effs (nd + qs.length) (sinkA cfg ps t qs).2.1 ∧
        (∀ e ∈ effs, TreeE e) ∧
        (∀ p : PImg, treeFind p t.key = some t → treeFind (applyEffs effs p) t.key = some (sinkA cfg ps t qs).2.2) ∧
        TreeShape (sinkA cfg ps t qs).2.2 (lv.Xi ++ [last ++ qs]) lv.top ∧
        (∀ y, y ∈ (sinkA cfg ps t qs).2.2.blobs ↔ y ∈ qs ∨ y ∈ t.blobs) ∧ (sinkA cfg ps t qs).2.2.key = t.key
  | [], nd, ps, t, last, hsk, hnp, hsh, _, _, _, _, _, _, _ => by
    refine ⟨[], by simpa [sinkA] using PBlk.nil (live := live) (lo := lo) (allowed := allowed) (covered := covered) (lv := lv) hsk hnp,
      by simp, fun p hp => by simpa [sinkA, applyEffs] using hp, by simpa [sinkA] using hsh, by simp [sinkA], rfl⟩
  | q :: qs, nd, ps, t, last, hsk, hnp, hsh, hhd, hal, hcov, hqal, hcap, hpw, hq => by
    obtain ⟨pids, hl⟩ := hsh.leaves
    have hsp := (sortedNat_iff _).mp hsh.sorted
    have hflat : (lv.Xi ++ [last]).flatten = lv.Xi.flatten ++ last := by simp
    have hslast : last.Pairwise (· ≤ ·) := by
      rw [hflat] at hsp; exact (List.pairwise_append.mp hsp).2.1
    have hq1 : ∀ x ∈ (lv.Xi ++ [last]).flatten, x ≤ q := fun x hx => Nat.le_of_lt (hq x hx q (by simp))
    have hqlast : ∀ x ∈ last, x ≤ q := fun x hx => hq1 x (by rw [hflat]; exact List.mem_append_right _ hx)
    have hnq : q ∉ last := fun hin => Nat.lt_irrefl q (hq q (by rw [hflat]; exact List.mem_append_right _ hin) q (by simp))
    have hc : last.length < cfg.leafCap := by simp at hcap; omega
    have hflat1 : (lv.Xi ++ [last ++ [q]]).flatten = (lv.Xi ++ [last]).flatten ++ [q] := by simp
    have hsnew : SortedNat (lv.Xi ++ [last ++ [q]]).flatten := by
      rw [hflat1, sortedNat_iff, List.pairwise_append]
      exact ⟨hsp, by simp, fun a ha b hb => by simp only [List.mem_singleton] at hb; subst hb; exact hq1 a ha⟩
    have hlastne : lv.Xi ≠ [] → last ≠ [] := by
      intro hx
      apply hsh.tail last
      cases hX : lv.Xi with
      | nil => exact absurd hX hx
      | cons x Xs => simp
    have hhd1 : lv.Xi ≠ [] → last ++ [q] ≠ [] ∧ (last ++ [q]).headD 0 = last.headD 0 :=
      fun hx => ⟨by simp, headD_append_ne last [q] (hlastne hx)⟩
    obtain ⟨pl, hA, _, _⟩ := sinkOne_eq cfg ps t q lv.Xi last pids hl hslast hqlast hnq
    have hone := hA hc
    obtain ⟨ba, _, _⟩ := pblk_alloc_eq (p0 := p0) (live := live) (lo := lo) (allowed := allowed) (covered := covered) (lv := lv) ps hsk hnp
    have bb := pblk_write (p0 := p0) (live := live) (lo := lo) (allowed := allowed) (covered := covered) (lv := lv) ba.sk ba.np
      (.blob t.key q) (allocA ps).2.2 trivial
    have hleaf : CEff p0 live allowed covered lv lo (nd + 1) (.leaf t.key lv.Xi.length ((last ++ [q]).map some) false pl) := by
      refine Or.inr ⟨rfl, rfl, last ++ [q], rfl, hsnew, fun hx => ⟨(hhd1 hx).1, by rw [(hhd1 hx).2, hhd hx]⟩, ?_, ?_⟩
      · intro y hy
        rcases List.mem_append.mp hy with hy | hy
        · exact hal y (by rw [hflat]; exact List.mem_append_right _ hy)
        · simp only [List.mem_singleton] at hy; subst hy; exact hqal _ (by simp)
      · intro y hy
        rw [hflat1]; exact List.mem_append_left _ (hcov y hy)
    have bl := pblk_write (p0 := p0) (live := live) (lo := lo) (allowed := allowed) (covered := covered) (lv := lv) ba.sk ba.np
      (.leaf t.key lv.Xi.length ((last ++ [q]).map some) false pl) pl hleaf
    have hsh1 : TreeShape (treeApp t q lv.Xi.length (last ++ [q]) pl) (lv.Xi ++ [last ++ [q]]) lv.top :=
      treeShape_setLast hsh pl rfl rfl hsnew hhd1
    have hpw' := List.pairwise_cons.mp hpw
    obtain ⟨e2, b2, hTE2, hf2, hsh2, hbl2, hkey2⟩ :=
      pblk_sinkLive cfg qs (nd + 1) (allocA ps).2.1 (treeApp t q lv.Xi.length (last ++ [q]) pl) (last ++ [q]) ba.sk ba.np hsh1
        (fun hx => by rw [(hhd1 hx).2, hhd hx])
        (by
          intro y hy
          rw [hflat1] at hy
          rcases List.mem_append.mp hy with hy | hy
          · exact hal y hy
          · simp only [List.mem_singleton] at hy; subst hy; exact hqal _ (by simp))
        (fun y hy => by rw [hflat1]; exact List.mem_append_left _ (hcov y hy))
        (fun y hy => hqal y (by simp [hy]))
        (by simp at hcap ⊢; omega) hpw'.2
        (by
          intro x hx q' hq'
          rw [hflat1] at hx
          rcases List.mem_append.mp hx with hx | hx
          · exact hq x hx q' (by simp [hq'])
          · simp only [List.mem_singleton] at hx; subst hx; exact hpw'.1 q' hq')
    rw [sinkA_cons, hone]
    have hall := ((ba.append bb).append bl).append b2
    have hlen : nd + (q :: qs).length = nd + 1 + qs.length := by simp; omega
    rw [hlen]
    refine ⟨_, hall, ?_, ?_, ?_, ?_, ?_⟩
    · intro e he
      simp only [List.nil_append, List.cons_append, List.mem_cons] at he
      rcases he with rfl | rfl | he
      · trivial
      · trivial
      · exact hTE2 e he
    · intro p hp
      have h1 : treeFind (applyEff (.blob t.key q) p) t.key = some { t with blobs := q :: t.blobs } :=
        treeFind_upd p t.key (fun t => { t with blobs := q :: t.blobs }) (fun _ => rfl) t hp
      have h2 : treeFind (applyEff (.leaf t.key lv.Xi.length ((last ++ [q]).map some) false pl) (applyEff (.blob t.key q) p)) t.key =
          some (treeApp t q lv.Xi.length (last ++ [q]) pl) :=
        treeFind_upd _ t.key (fun t => { t with leaves := setLeaf t.leaves lv.Xi.length ⟨(last ++ [q]).map some, false, pl⟩ }) (fun _ => rfl) _ h1
      have h3 := hf2 _ h2
      simpa [applyEffs, treeApp] using h3
    · have : last ++ q :: qs = (last ++ [q]) ++ qs := by simp
      rw [this]; exact hsh2
    · intro y
      rw [hbl2 y]
      simp only [treeApp, List.mem_cons]
      constructor
      · rintro (h | h | h)
        · exact Or.inl (Or.inr h)
        · exact Or.inl (Or.inl h)
        · exact Or.inr h
      · rintro ((h | h) | h)
        · exact Or.inr (Or.inl h)
        · exact Or.inl h
        · exact Or.inr (Or.inr h)
    · rw [hkey2]; rfl

end Nervus.Crash
