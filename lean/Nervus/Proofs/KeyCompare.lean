/-
  Proofs.KeyCompare — `order_compare` is a total preorder on every set of values outside the C20 triggers
  (`orderCompare_lawsOn`), and so is the composed ORDER BY comparator over several ASC/DESC keys
  (`keyCompare_lawsOn`).  Core only.
-/
import Nervus.Proofs.Sort
import Nervus.Proofs.OrderTotal
namespace Nervus
open F64 Value Eval Spec Order

section
variable (E : Env)

/-- the domain of C20: the sort keys are well-formed, have no NaN inside maps, and the engine's string
    comparison is transitive on their strings (no known-finding trigger of C20 holds) -/
def ordOK (vs : List Value) : Bool :=
  vs.all (fun v => v.wf && mapsNaNFree v) && strTransOn E (vs.flatMap stringsOf)

theorem strHyp_of_strTransOn (ss : List Str) (h : strTransOn E ss = true) : StrHyp E ss ss ss := by
  intro x hx y hy z hz
  simp only [strTransOn, List.all_eq_true] at h
  exact h x hx y hy z hz

/-- **`order_compare` is a total preorder on every set of values outside the triggers** -/
theorem orderCompare_lawsOn (vs : List Value) (h : ordOK E vs = true) :
    CmpLawsOn (orderCompare E) (fun v => v ∈ vs) where
  swap a b _ _ := orderCompare_swap E a b
  trans a b d ha hb hd n1 n2 := by
    simp only [ordOK, Bool.and_eq_true, List.all_eq_true] at h
    have sub : ∀ v ∈ vs, ∀ x ∈ stringsOf v, x ∈ vs.flatMap stringsOf :=
      fun v hv x hx => List.mem_flatMap.2 ⟨v, hv, hx⟩
    exact orderCompare_trans E a b d (h.1 a ha).1 (h.1 b hb).1 (h.1 d hd).1 (h.1 a ha).2 (h.1 b hb).2 (h.1 d hd).2
      ((strHyp_of_strTransOn E _ h.2).mono E (sub a ha) (sub b hb) (sub d hd)) n1 n2

/-- direction of one ORDER BY item applied to a comparison result -/
def dirAdj (d : Dir) (o : Ordering) : Ordering := if d == .asc then o else o.swap

theorem keyCompare_cons (va : Value) (da : Dir) (as : List (Value × Dir)) (vb : Value) (db : Dir)
    (bs : List (Value × Dir)) :
    keyCompare E ((va, da) :: as) ((vb, db) :: bs) =
      (dirAdj da (orderCompare E va vb)).then (keyCompare E as bs) := by
  simp only [keyCompare, dirAdj]
  cases orderCompare E va vb <;> cases da <;> simp [Ordering.then, Ordering.swap]

theorem then_comm_of_le {a b : Ordering} (ha : a ≠ .gt) (hb : b ≠ .gt) : a.then b = b.then a := by
  cases a <;> cases b <;> simp_all [Ordering.then]

theorem dirAdj_lawsOn {P : Value → Prop} (h : CmpLawsOn (orderCompare E) P) (d : Dir) :
    CmpLawsOn (fun a b => dirAdj d (orderCompare E a b)) P where
  swap a b ha hb := by
    simp only [dirAdj]
    cases d <;> simp [h.swap a b ha hb]
  trans a b c ha hb hc n1 n2 := by
    cases d
    · simp only [dirAdj] at *; exact h.trans a b c ha hb hc (by simpa using n1) (by simpa using n2)
    · simp only [dirAdj] at *
      have e1 : (orderCompare E a b).swap = orderCompare E b a := by rw [h.swap b a hb ha]
      have e2 : (orderCompare E b c).swap = orderCompare E c b := by rw [h.swap c b hc hb]
      have e3 : (orderCompare E a c).swap = orderCompare E c a := by rw [h.swap c a hc ha]
      simp only [show (Dir.desc == Dir.asc) = false from rfl, Bool.false_eq_true, if_false] at n1 n2 ⊢
      rw [e1] at n1 ⊢; rw [e2] at n2 ⊢; rw [e3]
      rw [h.trans c b a hc hb ha n2 n1]
      exact then_comm_of_le n2 n1

/-- the key lists of the rows of one ORDER BY: the same directions in every row, key values from `vs` -/
def KeyOK (vs : List Value) (dirs : List Dir) (ks : List (Value × Dir)) : Prop :=
  ks.map Prod.snd = dirs ∧ ∀ kv ∈ ks, kv.1 ∈ vs

theorem keyCompare_lawsOn_aux {P : Value → Prop} (h : CmpLawsOn (orderCompare E) P) :
    ∀ (dirs : List Dir),
      CmpLawsOn (keyCompare E) (fun ks => ks.map Prod.snd = dirs ∧ ∀ kv ∈ ks, P kv.1)
  | [] => by
    refine ⟨?_, ?_⟩
    · intro a b ha hb
      have : a = [] := by simpa using ha.1
      subst this
      cases b <;> rfl
    · intro a b c ha hb hc _ _
      have ea : a = [] := by simpa using ha.1
      have eb : b = [] := by simpa using hb.1
      subst ea eb
      cases c <;> rfl
  | d :: ds => by
    have ih := keyCompare_lawsOn_aux h ds
    have hd := dirAdj_lawsOn E h d
    -- every admissible key list is `(v, d) :: rest`
    have shape : ∀ ks : List (Value × Dir), (ks.map Prod.snd = d :: ds ∧ ∀ kv ∈ ks, P kv.1) →
        ∃ v rest, ks = (v, d) :: rest ∧ P v ∧ (rest.map Prod.snd = ds ∧ ∀ kv ∈ rest, P kv.1) := by
      intro ks hk
      cases ks with
      | nil => simp at hk
      | cons k rest =>
        obtain ⟨v, d'⟩ := k
        simp only [List.map_cons, List.cons.injEq] at hk
        obtain ⟨⟨rfl, hr⟩, hp⟩ := hk
        exact ⟨v, rest, rfl, hp (v, d') (by simp), hr, fun kv hkv => hp kv (by simp [hkv])⟩
    refine ⟨?_, ?_⟩
    · intro a b ha hb
      obtain ⟨va, ra, rfl, pa, hra⟩ := shape a ha
      obtain ⟨vb, rb, rfl, pb, hrb⟩ := shape b hb
      rw [keyCompare_cons, keyCompare_cons, Ordering.swap_then, ← hd.swap va vb pa pb, ← ih.swap ra rb hra hrb]
    · intro a b c ha hb hc
      obtain ⟨va, ra, rfl, pa, hra⟩ := shape a ha
      obtain ⟨vb, rb, rfl, pb, hrb⟩ := shape b hb
      obtain ⟨vc, rc, rfl, pc, hrc⟩ := shape c hc
      rw [keyCompare_cons, keyCompare_cons, keyCompare_cons]
      intro p q
      have s1 := hd.trans va vb vc pa pb pc
      have s2 := ih.trans ra rb rc hra hrb hrc
      revert p q
      cases e1 : dirAdj d (orderCompare E va vb) <;> cases e2 : dirAdj d (orderCompare E vb vc) <;>
        simp_all [Ordering.then] <;>
        cases e3 : keyCompare E ra rb <;> cases e4 : keyCompare E rb rc <;> simp_all

/-- **the composed ORDER BY comparator (several keys, ASC/DESC) is a total preorder** on rows whose keys
    come from a set of values outside the triggers -/
theorem keyCompare_lawsOn (vs : List Value) (h : ordOK E vs = true) (dirs : List Dir) :
    CmpLawsOn (keyCompare E) (KeyOK vs dirs) :=
  keyCompare_lawsOn_aux E (orderCompare_lawsOn E vs h) dirs
end
end Nervus
