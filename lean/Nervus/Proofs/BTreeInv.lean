/-
  C26: the B-tree invariant `WF` over the page map, with ghost state
    G : page ↦ (level, lo, hi)   level 0 = leaf; the page is responsible for keys in [lo, hi)
    L : the leaves from left to right
    H : level of the root
  Clauses: root covers everything; ranges are not inverted; an internal page's children carry
  exactly the ranges cut out by its separator keys (so separators bound subtrees and all leaves are
  at level 0 = one depth); leaves are strictly sorted and inside their range; no page is the child
  of two pages; the leaf chain (right-sibling pointers) visits `L` in order and the ranges of
  consecutive leaves are adjacent (leaf chain = in-order traversal).
-/
import Nervus.Proofs.BTreeLeaf
set_option linter.unusedSectionVars false
set_option linter.unusedVariables false
namespace Nervus.BTree
open Nervus KO

variable {κ : Type} [KeyOrd κ] [LawfulKeyOrd κ]

/-! ### page map as a function -/

abbrev Pg (κ : Type) := Nat → Option (Node κ)

def upd (pg : Pg κ) (p : Nat) (n : Node κ) : Pg κ := fun q => if q = p then some n else pg q

theorem PageMap.get_set {α : Type} (m : PageMap α) (p : Nat) (a : α) (q : Nat) :
    (m.set p a).get q = if q = p then some a else m.get q := by
  induction m with
  | nil =>
    simp only [PageMap.set, PageMap.get]
    by_cases h : p = q
    · subst h; simp
    · have : ¬ q = p := fun e => h e.symm
      simp [h, this]
  | cons x xs ih =>
    obtain ⟨r, b⟩ := x
    simp only [PageMap.set]
    by_cases hr : r = p
    · subst hr
      simp only [if_true, PageMap.get]
      by_cases h : r = q
      · subst h; simp
      · have : ¬ q = r := fun e => h e.symm
        simp [h, this]
    · simp only [hr, if_false, PageMap.get]
      by_cases h : r = q
      · subst h
        have : ¬ r = p := hr
        simp [this]
      · simp only [h, if_false]; exact ih

theorem get_set_eq_upd (m : PageMap (Node κ)) (p : Nat) (n : Node κ) :
    (m.set p n).get = upd m.get p n := by
  funext q; simp [PageMap.get_set, upd]

@[simp] theorem upd_same (pg : Pg κ) (p : Nat) (n : Node κ) : upd pg p n p = some n := by simp [upd]
theorem upd_other (pg : Pg κ) (p q : Nat) (n : Node κ) (h : q ≠ p) : upd pg p n q = pg q := by simp [upd, h]

/-! ### ghost state -/

structure Ghost (κ : Type) where
  G : Nat → Option (Nat × Option κ × Option κ)
  L : List Nat
  H : Nat

def rightOf (pg : Pg κ) (p : Nat) : Option Nat :=
  match pg p with
  | some (.leaf _ _ r) => some r
  | _ => none

def entriesOf (pg : Pg κ) (p : Nat) : List (κ × Nat) :=
  match pg p with
  | some (.leaf es _ _) => es
  | _ => []

def kidsOfPage (pg : Pg κ) (p : Nat) : List Nat :=
  match pg p with
  | some (.internal lm cells _) => kidsOf lm cells
  | _ => []

/-- leaf-chain segment: the leaves `ps` start at page `a` (lower bound `alo`), follow the right-sibling
    pointers, have adjacent ranges, and end by pointing at `z` with upper bound `zhi` -/
def Seg (pg : Pg κ) (G : Nat → Option (Nat × Option κ × Option κ)) :
    Nat → Option κ → List Nat → Nat → Option κ → Prop
  | a, alo, [], z, zhi => a = z ∧ alo = zhi
  | a, alo, p :: rest, z, zhi =>
    p = a ∧ 0 < p ∧ ∃ hi r, G p = some (0, alo, hi) ∧ rightOf pg p = some r ∧ (hi = none → r = 0) ∧
      Seg pg G r hi rest z zhi

/-- all stored pairs, leaf by leaf -/
def contents (pg : Pg κ) (L : List Nat) : List (κ × Nat) := L.flatMap (entriesOf pg)

structure WF (pg : Pg κ) (root next : Nat) (g : Ghost κ) : Prop where
  root : g.G root = some (g.H, none, none)
  rng : ∀ p l lo hi, g.G p = some (l, lo, hi) → 0 < p ∧ p < next ∧ bLe lo hi
  lvl : ∀ p l lo hi, g.G p = some (l, lo, hi) → l ≤ g.H
  int : ∀ p l lo hi, g.G p = some (l + 1, lo, hi) →
    ∃ lm cells b, pg p = some (.internal lm cells b) ∧
      (∀ x ∈ kidsR lo hi lm cells, g.G x.1 = some (l, x.2.1, x.2.2)) ∧ (kidsOf lm cells).Nodup
  leaf : ∀ p lo hi, g.G p = some (0, lo, hi) →
    ∃ es b r, pg p = some (.leaf es b r) ∧ SSorted es ∧ ∀ e ∈ es, bLo lo e.1 ∧ bHi e.1 hi
  share : ∀ p1 p2 c l1 lo1 hi1 l2 lo2 hi2, g.G p1 = some (l1 + 1, lo1, hi1) →
    g.G p2 = some (l2 + 1, lo2, hi2) → c ∈ kidsOfPage pg p1 → c ∈ kidsOfPage pg p2 → p1 = p2
  lnodup : g.L.Nodup
  lmem : ∀ p, p ∈ g.L ↔ ∃ lo hi, g.G p = some (0, lo, hi)
  seg : ∃ p0 rest, g.L = p0 :: rest ∧ Seg pg g.G p0 none g.L 0 none
  fuel : g.L.length + g.H ≤ next

/-! ### segments -/

theorem Seg_append (pg : Pg κ) (G : Nat → Option (Nat × Option κ × Option κ)) (A B : List Nat)
    (a : Nat) (alo : Option κ) (z : Nat) (zhi : Option κ) :
    Seg pg G a alo (A ++ B) z zhi ↔ ∃ m mlo, Seg pg G a alo A m mlo ∧ Seg pg G m mlo B z zhi := by
  induction A generalizing a alo with
  | nil =>
    constructor
    · intro h; exact ⟨a, alo, ⟨rfl, rfl⟩, h⟩
    · rintro ⟨m, mlo, ⟨rfl, rfl⟩, h⟩; exact h
  | cons p ps ih =>
    constructor
    · intro h
      obtain ⟨hp, hpos, hi, r, hG, hr, hn, hrest⟩ := h
      obtain ⟨m, mlo, h1, h2⟩ := (ih r hi).mp hrest
      exact ⟨m, mlo, ⟨hp, hpos, hi, r, hG, hr, hn, h1⟩, h2⟩
    · rintro ⟨m, mlo, ⟨hp, hpos, hi, r, hG, hr, hn, h1⟩, h2⟩
      exact ⟨hp, hpos, hi, r, hG, hr, hn, (ih r hi).mpr ⟨m, mlo, h1, h2⟩⟩

/-- a segment only looks at its own pages -/
theorem Seg_frame (pg pg' : Pg κ) (G G' : Nat → Option (Nat × Option κ × Option κ)) (ps : List Nat)
    (h : ∀ p ∈ ps, rightOf pg' p = rightOf pg p ∧ G' p = G p) :
    ∀ (a : Nat) (alo : Option κ) (z : Nat) (zhi : Option κ),
      Seg pg G a alo ps z zhi → Seg pg' G' a alo ps z zhi := by
  induction ps with
  | nil => intro a alo z zhi hs; exact hs
  | cons p ps ih =>
    intro a alo z zhi hs
    obtain ⟨hp, hpos, hi, r, hG, hr, hn, hrest⟩ := hs
    have hp' := h p (List.mem_cons_self ..)
    refine ⟨hp, hpos, hi, r, by rw [hp'.2]; exact hG, by rw [hp'.1]; exact hr, hn, ?_⟩
    exact ih (fun q hq => h q (List.mem_cons_of_mem _ hq)) r hi z zhi hrest

/-- every page of a segment is a ghost leaf -/
theorem Seg_mem (pg : Pg κ) (G : Nat → Option (Nat × Option κ × Option κ)) (ps : List Nat) :
    ∀ (a : Nat) (alo : Option κ) (z : Nat) (zhi : Option κ), Seg pg G a alo ps z zhi →
      ∀ p ∈ ps, ∃ lo hi, G p = some (0, lo, hi) := by
  induction ps with
  | nil => intro a alo z zhi _ p hp; cases hp
  | cons q qs ih =>
    intro a alo z zhi hs p hp
    obtain ⟨hq, hpos, hi, r, hG, hr, hn, hrest⟩ := hs
    rcases List.mem_cons.mp hp with e | e
    · subst e; exact ⟨alo, hi, hG⟩
    · exact ih r hi z zhi hrest p e

end Nervus.BTree
