/-
  C19, planner side: pushing the equality conjuncts of a WHERE down (one value per key, inline
  pattern maps overlaid) and keeping the FULL predicate in the final filter selects exactly the rows
  that satisfy the inline pattern map and the WHERE.   core-only.
-/
import Nervus.Model.WherePush
namespace Nervus.WherePush
open Nervus.PlanOps

section
variable {χ κ ρ : Type}

/-- `k = c` is one of the top-level conjuncts of `w` -/
def IsConj : W χ κ → Key → κ → Prop
  | .and a b, k, c => IsConj a k c ∨ IsConj b k c
  | .eqProp k' c', k, c => k' = k ∧ c' = c
  | .other _, _, _ => False

theorem andT_tt (a b : Truth) (h : andT a b = .tt) : a = .tt ∧ b = .tt := by
  cases a <;> cases b <;> simp [andT] at h <;> exact ⟨rfl, rfl⟩

/-- a row on which the WHERE is true satisfies each of its top-level equality conjuncts -/
theorem conj_true (S : WSem χ κ ρ) (w : W χ κ) (r : ρ) (h : tv S w r = .tt) (k : Key) (c : κ)
    (hc : IsConj w k c) : S.eqT k c r = .tt := by
  induction w with
  | and a b iha ihb =>
    obtain ⟨ha, hb⟩ := andT_tt _ _ h
    rcases hc with hc | hc
    · exact iha ha hc
    · exact ihb hb hc
  | eqProp k' c' => obtain ⟨rfl, rfl⟩ := hc; exact h
  | other e => exact hc.elim

/-- every entry `extract_predicates` adds is a conjunct of the WHERE -/
theorem extract_entries (w : W χ κ) (m : PMap κ) (k : Key) (c : κ) (h : extract w m k = some c) :
    m k = some c ∨ IsConj w k c := by
  induction w generalizing m with
  | and a b iha ihb =>
    rcases ihb (extract a m) h with h' | h'
    · rcases iha m h' with h'' | h''
      · exact Or.inl h''
      · exact Or.inr (Or.inl h'')
    · exact Or.inr (Or.inr h')
  | eqProp k' c' =>
    simp only [extract, PMap.insert] at h
    split at h
    · rename_i hk
      injection h with h
      exact Or.inr ⟨hk.symm, h⟩
    · exact Or.inl h
  | other e => exact Or.inl h

end

end Nervus.WherePush
