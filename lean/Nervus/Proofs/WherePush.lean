/-
  C19, planner side: pushing the equality conjuncts of a WHERE down (one value per key, inline
  pattern maps overlaid) and keeping the FULL predicate in the final filter selects exactly the rows
  that satisfy the inline pattern map and the WHERE.   core-only.
-/
import Nervus.Model.WherePush
namespace Nervus.WherePush
open Nervus.PlanOps

section
variable {χ κ ρ : Type}

/-- `k = c` is one of the top-level conjuncts of `w` -/
def IsConj : W χ κ → Key → κ → Prop
  | .and a b, k, c => IsConj a k c ∨ IsConj b k c
  | .eqProp k' c', k, c => k' = k ∧ c' = c
  | .other _, _, _ => False

theorem andT_tt (a b : Truth) (h : andT a b = .tt) : a = .tt ∧ b = .tt := by
  cases a <;> cases b <;> simp [andT] at h <;> exact ⟨rfl, rfl⟩

/-- a row on which the WHERE is true satisfies each of its top-level equality conjuncts -/
theorem conj_true (S : WSem χ κ ρ) (w : W χ κ) (r : ρ) (h : tv S w r = .tt) (k : Key) (c : κ)
    (hc : IsConj w k c) : S.eqT k c r = .tt := by
  induction w with
  | and a b iha ihb =>
    obtain ⟨ha, hb⟩ := andT_tt _ _ h
    rcases hc with hc | hc
    · exact iha ha hc
    · exact ihb hb hc
  | eqProp k' c' => obtain ⟨rfl, rfl⟩ := hc; exact h
  | other e => exact hc.elim

/-- every entry `extract_predicates` adds is a conjunct of the WHERE -/
theorem extract_entries (w : W χ κ) (m : PMap κ) (k : Key) (c : κ) (h : extract w m k = some c) :
    m k = some c ∨ IsConj w k c := by
  induction w generalizing m with
  | and a b iha ihb =>
    rcases ihb (extract a m) h with h' | h'
    · rcases iha m h' with h'' | h''
      · exact Or.inl h''
      · exact Or.inr (Or.inl h'')
    · exact Or.inr (Or.inr h')
  | eqProp k' c' =>
    simp only [extract, PMap.insert] at h
    split at h
    · rename_i hk
      injection h with h
      exact Or.inr ⟨hk.symm, h⟩
    · exact Or.inl h
  | other e => exact Or.inl h

end

/-! ### free variables vs the planner's walker -/

theorem mem_filter_not_contains (xs binds : List String) (x : String) :
    x ∈ xs.filter (fun y => !binds.contains y) ↔ x ∈ xs ∧ x ∉ binds := by
  simp [List.mem_filter]

/-- a walker that descends into every variant finds every free variable -/
theorem walker_complete (descends : EKind → Bool) (hall : ∀ k, descends k = true) (e : VE) :
    ∀ x ∈ e.free, x ∈ e.walker descends := by
  induction e with
  | leaf reads => intro x hx; exact hx
  | pair a b iha ihb =>
    intro x hx
    simp only [VE.free, VE.walker, List.mem_append] at hx ⊢
    exact hx.elim (fun h => Or.inl (iha x h)) (fun h => Or.inr (ihb x h))
  | node k binds outer inner iho ihs =>
    intro x hx
    simp only [VE.free, VE.walker, hall k, if_true, List.mem_append, mem_filter_not_contains] at hx ⊢
    exact hx.elim (fun h => Or.inl (iho x h)) (fun h => Or.inr ⟨ihs x h.1, h.2⟩)

/-- **pushdown_sound (scope)**: where the planner allows the filter, every free variable of the
    value is bound — PROVIDED the walker's result contains the true free variables -/
theorem placement_sound (descends : EKind → Bool) (bound : List String) (value : VE)
    (hsup : ∀ x ∈ value.free, x ∈ value.walker descends)
    (hallowed : placementAllowed descends bound value) : ScopeSound bound value :=
  fun x hx => hallowed x (hsup x hx)

/-- what scope-soundness buys: an evaluation that reads only the free variables gives, on the row
    as it is at the placement point, the value it gives on the completed row -/
theorem early_evaluation_agrees {ν β : Type} (eval : (String → Option ν) → β) (value : VE)
    (hreads : ∀ r1 r2 : String → Option ν, (∀ x ∈ value.free, r1 x = r2 x) → eval r1 = eval r2)
    (bound : List String) (hscope : ScopeSound bound value)
    (early full : String → Option ν) (hext : ∀ x ∈ bound, early x = full x) :
    eval early = eval full :=
  hreads early full (fun x hx => hext x (hscope x hx))

end Nervus.WherePush
