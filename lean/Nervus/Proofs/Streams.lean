/-
  Helper lemmas on result streams: `allOk`, `collect`, `cut` (prefix through the first `Err`),
  and the relation `LimRel` between a limited and an unlimited stream.  core-only.
-/
import Nervus.Spec.Streams
namespace Nervus.PlanOps

section
variable {ε ρ : Type}

@[simp] theorem allOk_nil : allOk ([] : Stream ε ρ) = true := rfl

@[simp] theorem allOk_cons (x : Except ε ρ) (s : Stream ε ρ) :
    allOk (x :: s) = (Item.isOk x && allOk s) := by
  simp [allOk]

@[simp] theorem allOk_append (a b : Stream ε ρ) : allOk (a ++ b) = (allOk a && allOk b) := by
  simp [allOk]

@[simp] theorem isOk_ok (r : ρ) : Item.isOk (Except.ok r : Except ε ρ) = true := rfl
@[simp] theorem isOk_error (e : ε) : Item.isOk (Except.error e : Except ε ρ) = false := rfl

theorem allOk_iff (s : Stream ε ρ) : allOk s = true ↔ ∀ x ∈ s, Item.isOk x = true := by
  simp [allOk]

theorem allOk_take (s : Stream ε ρ) (n : Nat) (h : allOk s = true) : allOk (s.take n) = true := by
  rw [allOk_iff] at *
  intro x hx
  exact h x (List.mem_of_mem_take hx)

theorem not_allOk_iff (s : Stream ε ρ) : allOk s = false ↔ ∃ e, Except.error e ∈ s := by
  induction s with
  | nil => simp
  | cons x xs ih =>
    cases x with
    | ok r => simp [ih]
    | error e => simp

theorem allOk_of_no_error (s : Stream ε ρ) (h : ¬ ∃ e, Except.error e ∈ s) : allOk s = true := by
  cases hs : allOk s with
  | true => rfl
  | false => exact absurd ((not_allOk_iff s).1 hs) h

theorem allOk_map_iff {β : Type} (f : Except ε ρ → Except ε β) (hf : ∀ x, Item.isOk (f x) = Item.isOk x)
    (s : Stream ε ρ) : allOk (s.map f) = allOk s := by
  induction s with
  | nil => rfl
  | cons x xs ih => simp [hf, ih]

/-! ### collect -/

theorem collect_ok_iff (s : Stream ε ρ) : (∃ rows, collect s = .ok rows) ↔ allOk s = true := by
  induction s with
  | nil => simp [collect]
  | cons x xs ih =>
    cases x with
    | error e => simp [collect]
    | ok r =>
      simp only [collect, allOk_cons, isOk_ok, Bool.true_and]
      rw [← ih]
      constructor
      · rintro ⟨rows, h⟩
        cases hc : collect xs with
        | ok rs => exact ⟨rs, rfl⟩
        | error e => rw [hc] at h; cases h
      · rintro ⟨rs, h⟩
        exact ⟨r :: rs, by rw [h]⟩

theorem collect_error_of_not_allOk (s : Stream ε ρ) (h : allOk s = false) : ∃ e, collect s = .error e := by
  cases hc : collect s with
  | error e => exact ⟨e, rfl⟩
  | ok rows =>
    have := (collect_ok_iff s).1 ⟨rows, hc⟩
    rw [this] at h; cases h

theorem collect_append_error (pre : Stream ε ρ) (e : ε) (hp : allOk pre = true) :
    collect (pre ++ [.error e]) = .error e := by
  induction pre with
  | nil => rfl
  | cons x xs ih =>
    cases x with
    | error e0 => simp at hp
    | ok r => simp at hp; simp [collect, ih hp]

/-! ### driver demand -/

theorem driverDemand_of_allOk (s : Stream ε ρ) (h : allOk s = true) : driverDemand s = s.length + 1 := by
  simp [driverDemand, h]

theorem collectDemand_le (s : Stream ε ρ) : collectDemand s ≤ s.length := by
  induction s with
  | nil => simp [collectDemand]
  | cons x xs ih => cases x <;> simp [collectDemand] <;> omega

theorem collectDemand_append_of_allOk (o r : Stream ε ρ) (h : allOk o = true) :
    collectDemand (o ++ r) = o.length + collectDemand r := by
  induction o with
  | nil => simp
  | cons x xs ih =>
    cases x with
    | error e => simp at h
    | ok a =>
      simp at h
      simp [collectDemand, ih h]; omega

theorem collectDemand_of_not_allOk_le (o r : Stream ε ρ) (h : allOk o = false) :
    collectDemand (o ++ r) ≤ o.length := by
  induction o with
  | nil => simp at h
  | cons x xs ih =>
    cases x with
    | error e => simp [collectDemand]
    | ok a =>
      simp at h
      simp [collectDemand]
      exact ih h

theorem driverDemand_append_of_allOk (o r : Stream ε ρ) (h : allOk o = true) :
    driverDemand (o ++ r) = o.length + driverDemand r := by
  unfold driverDemand
  simp only [allOk_append, h, Bool.true_and]
  cases hr : allOk r with
  | true => simp; omega
  | false => simp [collectDemand_append_of_allOk o r h]

theorem driverDemand_of_not_allOk_le (o r : Stream ε ρ) (h : allOk o = false) :
    driverDemand (o ++ r) ≤ o.length := by
  unfold driverDemand
  simp only [allOk_append, h, Bool.false_and]
  exact collectDemand_of_not_allOk_le o r h

theorem take_driverDemand_allOk_iff (s : Stream ε ρ) :
    allOk (s.take (driverDemand s)) = allOk s := by
  cases h : allOk s with
  | true => rw [driverDemand_of_allOk s h, List.take_of_length_le (by omega)]; exact h
  | false =>
    simp only [driverDemand, h]
    induction s with
    | nil => simp at h
    | cons x xs ih =>
      cases x with
      | error e => simp [collectDemand]
      | ok a =>
        simp at h
        simp [collectDemand, List.take_succ_cons]
        simpa [h] using ih h

/-! ### cut: the prefix through the first `Err` -/

/-- what a consumer that stops at the first `Err` sees -/
def cut : Stream ε ρ → Stream ε ρ
  | [] => []
  | .error e :: _ => [.error e]
  | .ok r :: s => .ok r :: cut s

theorem cut_of_allOk (s : Stream ε ρ) (h : allOk s = true) : cut s = s := by
  induction s with
  | nil => rfl
  | cons x xs ih =>
    cases x with
    | error e => simp at h
    | ok a => simp at h; simp [cut, ih h]

theorem cut_append_of_allOk (a b : Stream ε ρ) (h : allOk a = true) : cut (a ++ b) = a ++ cut b := by
  induction a with
  | nil => rfl
  | cons x xs ih =>
    cases x with
    | error e => simp at h
    | ok r => simp at h; simp [cut, ih h]

theorem cut_append_of_not_allOk (a b : Stream ε ρ) (h : allOk a = false) : cut (a ++ b) = cut a := by
  induction a with
  | nil => simp at h
  | cons x xs ih =>
    cases x with
    | error e => simp [cut]
    | ok r => simp at h; simp [cut, ih h]

theorem allOk_cut (s : Stream ε ρ) : allOk (cut s) = allOk s := by
  induction s with
  | nil => rfl
  | cons x xs ih => cases x <;> simp [cut, ih]

theorem collect_cut (s : Stream ε ρ) : collect (cut s) = collect s := by
  induction s with
  | nil => rfl
  | cons x xs ih => cases x <;> simp [cut, collect, ih]

/-- shape of a stream with an error: an error-free prefix, the first error, a tail -/
theorem split_first_error (s : Stream ε ρ) (h : allOk s = false) :
    ∃ pre e rest, s = pre ++ .error e :: rest ∧ allOk pre = true := by
  induction s with
  | nil => simp at h
  | cons x xs ih =>
    cases x with
    | error e => exact ⟨[], e, xs, rfl, rfl⟩
    | ok r =>
      simp at h
      obtain ⟨pre, e, rest, hs, hp⟩ := ih h
      exact ⟨.ok r :: pre, e, rest, by simp [hs], by simp [hp]⟩

theorem cut_split (pre : Stream ε ρ) (e : ε) (rest : Stream ε ρ) (h : allOk pre = true) :
    cut (pre ++ .error e :: rest) = pre ++ [.error e] := by
  rw [cut_append_of_allOk _ _ h]; rfl

/-- if the cut of `a` is `pre ++ [error e]` then `a` itself starts with `pre ++ [error e]` -/
theorem of_cut_eq_append_error (a pre : Stream ε ρ) (e : ε) (h : cut a = pre ++ [.error e]) :
    allOk pre = true ∧ ∃ ta, a = pre ++ .error e :: ta := by
  induction a generalizing pre with
  | nil => cases pre <;> simp [cut] at h
  | cons x xs ih =>
    cases x with
    | error e0 =>
      cases pre with
      | nil => simp [cut] at h; subst h; exact ⟨rfl, xs, rfl⟩
      | cons p ps => simp [cut] at h
    | ok r =>
      cases pre with
      | nil => simp [cut] at h
      | cons p ps =>
        simp only [cut, List.cons_append, List.cons.injEq] at h
        obtain ⟨hp, ht⟩ := h
        obtain ⟨h1, ta, h2⟩ := ih ps ht
        subst hp
        exact ⟨by simp [h1], ta, by simp [h2]⟩

/-- two streams with the same cut: either both are the same error-free stream, or they share the
    prefix through their common first error -/
theorem of_cut_eq (a b : Stream ε ρ) (h : cut a = cut b) :
    (a = b ∧ allOk a = true) ∨
      ∃ pre e ta tb, allOk pre = true ∧ a = pre ++ .error e :: ta ∧ b = pre ++ .error e :: tb := by
  cases ha : allOk a with
  | true =>
    have hb : allOk b = true := by rw [← allOk_cut, ← h, allOk_cut]; exact ha
    left
    rw [cut_of_allOk a ha, cut_of_allOk b hb] at h
    exact ⟨h, rfl⟩
  | false =>
    right
    obtain ⟨pre, e, ta, hs, hp⟩ := split_first_error a ha
    have hc : cut b = pre ++ [.error e] := by rw [← h, hs, cut_split _ _ _ hp]
    obtain ⟨_, tb, hb⟩ := of_cut_eq_append_error b pre e hc
    exact ⟨pre, e, ta, tb, hp, hs, hb⟩

/-! ### LimRel -/

/-- `a` (a limited run) relates to `b` (the unlimited run): a consumer that stops at the first
    `Err` sees the same, or sees an error-free prefix of `b` followed by a limit error -/
def LimRel (isLimit : ε → Bool) (a b : Stream ε ρ) : Prop :=
  cut a = cut b ∨ ∃ pre e, cut a = pre ++ [.error e] ∧ isLimit e = true ∧ pre <+: b

theorem LimRel.refl (isLimit : ε → Bool) (a : Stream ε ρ) : LimRel isLimit a a := Or.inl rfl

theorem LimRel.of_eq (isLimit : ε → Bool) {a b : Stream ε ρ} (h : a = b) : LimRel isLimit a b := h ▸ .refl _ _

/-- a limit error after a prefix of the unlimited stream -/
theorem LimRel.of_stop (isLimit : ε → Bool) (pre : Stream ε ρ) (e : ε) (rest b : Stream ε ρ)
    (hl : isLimit e = true) (hp : pre <+: b) : LimRel isLimit (pre ++ .error e :: rest) b := by
  cases h : allOk pre with
  | true => exact Or.inr ⟨pre, e, cut_split _ _ _ h, hl, hp⟩
  | false =>
    left
    obtain ⟨z, rfl⟩ := hp
    rw [cut_append_of_not_allOk _ _ h, cut_append_of_not_allOk _ _ h]

theorem LimRel.append_left (isLimit : ε → Bool) (o a b : Stream ε ρ) (h : LimRel isLimit a b) :
    LimRel isLimit (o ++ a) (o ++ b) := by
  cases ho : allOk o with
  | false => left; rw [cut_append_of_not_allOk _ _ ho, cut_append_of_not_allOk _ _ ho]
  | true =>
    rcases h with h | ⟨pre, e, hc, hl, hp⟩
    · left; rw [cut_append_of_allOk _ _ ho, cut_append_of_allOk _ _ ho, h]
    · right
      refine ⟨o ++ pre, e, ?_, hl, ?_⟩
      · rw [cut_append_of_allOk _ _ ho, hc, List.append_assoc]
      · obtain ⟨z, rfl⟩ := hp
        exact ⟨z, by simp⟩

/-- once the limited emission contains an error, what follows on either side is irrelevant -/
theorem LimRel.append_of_err (isLimit : ε → Bool) (a b x y : Stream ε ρ) (h : LimRel isLimit a b)
    (ha : allOk a = false) : LimRel isLimit (a ++ x) (b ++ y) := by
  rcases h with h | ⟨pre, e, hc, hl, hp⟩
  · left
    have hb : allOk b = false := by rw [← allOk_cut, ← h, allOk_cut]; exact ha
    rw [cut_append_of_not_allOk _ _ ha, cut_append_of_not_allOk _ _ hb, h]
  · right
    refine ⟨pre, e, ?_, hl, ?_⟩
    · rw [cut_append_of_not_allOk _ _ ha, hc]
    · obtain ⟨z, rfl⟩ := hp
      exact ⟨z ++ y, by simp⟩

theorem LimRel.collect (isLimit : ε → Bool) (a b : Stream ε ρ) (h : LimRel isLimit a b) :
    collect a = collect b ∨ ∃ e, collect a = .error e ∧ isLimit e = true := by
  rcases h with h | ⟨pre, e, hc, hl, _⟩
  · left; rw [← collect_cut a, h, collect_cut]
  · right
    refine ⟨e, ?_, hl⟩
    rw [← collect_cut a, hc]
    obtain ⟨hp, _⟩ := of_cut_eq_append_error a pre e hc
    exact collect_append_error pre e hp

theorem LimRel.map (isLimit : ε → Bool) {β : Type} (f : Except ε ρ → Except ε β)
    (hok : ∀ r, ∃ r', f (.ok r) = .ok r') (herr : ∀ e, f (.error e) = .error e)
    (a b : Stream ε ρ) (h : LimRel isLimit a b) : LimRel isLimit (a.map f) (b.map f) := by
  have hcut : ∀ s : Stream ε ρ, cut (s.map f) = (cut s).map f := by
    intro s
    induction s with
    | nil => rfl
    | cons x xs ih =>
      cases x with
      | error e => simp [cut, herr]
      | ok r => obtain ⟨r', hr⟩ := hok r; simp [cut, hr, ih]
  rcases h with h | ⟨pre, e, hc, hl, hp⟩
  · left; rw [hcut, hcut, h]
  · right
    refine ⟨pre.map f, e, ?_, hl, ?_⟩
    · rw [hcut, hc]; simp [herr]
    · obtain ⟨z, rfl⟩ := hp
      exact ⟨z.map f, by simp⟩

end

end Nervus.PlanOps
