/-
  Laws of the key order used by the B-tree proofs (C26): a strict total order with a least key.
  Instances: byte strings (the real keys) and ℕ (small examples).
-/
import Nervus.Spec.Multimap
import Nervus.Proofs.BytesOrder
namespace Nervus

class LawfulKeyOrd (κ : Type) [KeyOrd κ] : Prop where
  irrefl : ∀ a : κ, KeyOrd.lt a a = false
  trans : ∀ a b c : κ, KeyOrd.lt a b = true → KeyOrd.lt b c = true → KeyOrd.lt a c = true
  tri : ∀ a b : κ, KeyOrd.lt a b = false → KeyOrd.lt b a = false → a = b
  min_le : ∀ a : κ, KeyOrd.lt a (KeyOrd.min : κ) = false

instance : LawfulKeyOrd Bytes where
  irrefl := bytesLt_irrefl
  trans := bytesLt_trans
  tri a b h1 h2 := by
    rcases bytesLt_total a b with h | h | h
    · simp [KeyOrd.lt, h] at h1
    · exact h
    · simp [KeyOrd.lt, h] at h2
  min_le a := by cases a <;> rfl

instance : LawfulKeyOrd Nat where
  irrefl a := by simp [KeyOrd.lt]
  trans a b c h1 h2 := by simp [KeyOrd.lt] at *; omega
  tri a b h1 h2 := by simp [KeyOrd.lt] at *; omega
  min_le a := by simp [KeyOrd.lt, KeyOrd.min]

namespace KO
variable {κ : Type} [KeyOrd κ]

/-- `a ≺ b` -/
abbrev Lt (a b : κ) : Prop := KeyOrd.lt a b = true
/-- `a ≼ b` (not `b ≺ a`) -/
abbrev Le (a b : κ) : Prop := KeyOrd.lt b a = false

theorem not_lt_of_le {a b : κ} (h : Le a b) : ¬ Lt b a := by simp [Lt, Le] at *; simp [h]
theorem le_of_not_lt {a b : κ} (h : ¬ Lt b a) : Le a b := by simpa [Lt, Le] using h

variable [LawfulKeyOrd κ]

theorem lt_irrefl (a : κ) : ¬ Lt a a := by simp [Lt, LawfulKeyOrd.irrefl]
theorem le_refl (a : κ) : Le a a := LawfulKeyOrd.irrefl a
theorem lt_trans {a b c : κ} (h1 : Lt a b) (h2 : Lt b c) : Lt a c := LawfulKeyOrd.trans a b c h1 h2
theorem lt_asymm {a b : κ} (h : Lt a b) : Le a b := by
  cases hba : KeyOrd.lt b a with
  | false => exact hba
  | true => exact absurd (lt_trans h hba) (lt_irrefl a)
theorem le_of_lt {a b : κ} (h : Lt a b) : Le a b := lt_asymm h
theorem lt_or_le (a b : κ) : Lt a b ∨ Le b a := by
  cases h : KeyOrd.lt a b with
  | true => exact Or.inl h
  | false => exact Or.inr h
theorem eq_of_le_of_le {a b : κ} (h1 : Le a b) (h2 : Le b a) : a = b := LawfulKeyOrd.tri a b h2 h1
theorem lt_of_le_of_ne {a b : κ} (h : Le a b) (hne : a ≠ b) : Lt a b := by
  rcases lt_or_le a b with h' | h'
  · exact h'
  · exact absurd (eq_of_le_of_le h h') hne
theorem lt_of_lt_of_le {a b c : κ} (h1 : Lt a b) (h2 : Le b c) : Lt a c := by
  rcases lt_or_le a c with h | h
  · exact h
  · -- c ≼ a ≺ b ≼ c
    rcases lt_or_le c a with h' | h'
    · exact absurd (lt_trans h' h1) (not_lt_of_le h2)
    · have := eq_of_le_of_le h h'; subst this; exact absurd h1 (not_lt_of_le h2)
theorem lt_of_le_of_lt {a b c : κ} (h1 : Le a b) (h2 : Lt b c) : Lt a c := by
  rcases lt_or_le a c with h | h
  · exact h
  · rcases lt_or_le c a with h' | h'
    · exact absurd (lt_trans h2 h') (not_lt_of_le h1)
    · have := eq_of_le_of_le h h'; subst this; exact absurd h2 (not_lt_of_le h1)
theorem le_trans {a b c : κ} (h1 : Le a b) (h2 : Le b c) : Le a c := by
  apply le_of_not_lt; intro h
  exact absurd (lt_of_lt_of_le h h1) (not_lt_of_le h2)
theorem min_le (a : κ) : Le (KeyOrd.min : κ) a := LawfulKeyOrd.min_le a
theorem ne_of_lt {a b : κ} (h : Lt a b) : a ≠ b := by
  intro e; subst e; exact lt_irrefl a h

/-- `Multimap.keq` is equality for a lawful order -/
theorem keq_iff (a b : κ) : Multimap.keq a b = true ↔ a = b := by
  unfold Multimap.keq
  constructor
  · intro h
    simp only [Bool.and_eq_true, Bool.not_eq_true'] at h
    exact LawfulKeyOrd.tri a b h.1 h.2
  · intro e; subst e; simp [LawfulKeyOrd.irrefl]

end KO
end Nervus
