/-
  C26: BTree::insert follows the spec on distinct keys (with and without splits), and the induction
  over histories.
-/
import Nervus.Proofs.BTreeInsert
set_option linter.unusedSectionVars false
set_option linter.unusedVariables false
namespace Nervus.BTree
open Nervus KO

variable {κ : Type} [KeyOrd κ] [LawfulKeyOrd κ]

theorem kcmp_lt {a b : κ} (h : kcmp a b = .lt) : Lt a b := by
  unfold kcmp at h
  by_cases h1 : KeyOrd.lt a b = true
  · exact h1
  · by_cases h2 : KeyOrd.lt b a = true <;> simp [h1, h2] at h

theorem kcmp_gt {a b : κ} (h : kcmp a b = .gt) : Lt b a := by
  unfold kcmp at h
  by_cases h1 : KeyOrd.lt a b = true
  · simp [h1] at h
  · by_cases h2 : KeyOrd.lt b a = true
    · exact h2
    · simp [h1, h2] at h

theorem kcmp_eq {a b : κ} (h : kcmp a b = .eq) : a = b := by
  unfold kcmp at h
  by_cases h1 : KeyOrd.lt a b = true
  · simp [h1] at h
  · by_cases h2 : KeyOrd.lt b a = true
    · simp [h1, h2] at h
    · exact eq_of_le_of_le (by simpa using h2) (by simpa using h1)

/-- the spec's insert, seen around the leaf that receives the pair -/
theorem mm_insert_around (k : κ) (v : Nat) (CA es CB : List (κ × Nat)) (i : Nat) (hi : i ≤ es.length)
    (hA : ∀ e ∈ CA, Lt e.1 k) (hB : ∀ e ∈ CB, Lt k e.1)
    (hb : ∀ e ∈ es.take i, Lt e.1 k) (ha : ∀ e ∈ es.drop i, Le k e.1) :
    Multimap.insert k v (CA ++ es ++ CB) = CA ++ es.insertIdx i (k, v) ++ CB := by
  rw [insertIdx_eq_take_drop _ _ _ hi]
  have : CA ++ es ++ CB = (CA ++ es.take i) ++ (es.drop i ++ CB) := by
    simp only [List.append_assoc]
    rw [← List.append_assoc (es.take i), List.take_append_drop]
  rw [this, mm_insert_append]
  · simp [List.append_assoc]
  · intro e he
    rcases List.mem_append.mp he with he | he
    · exact hA e he
    · exact hb e he
  · intro e he
    by_cases hd : es.drop i = []
    · rw [hd, List.nil_append] at he
      exact le_of_lt (hB e (List.mem_of_mem_head? he))
    · rw [head?_append_ne _ _ hd] at he
      exact ha e (List.mem_of_mem_head? he)

theorem contents_congr (pg pg' : Pg κ) (X : List Nat) (h : ∀ p ∈ X, pg' p = pg p) :
    contents pg' X = contents pg X := by
  induction X with
  | nil => rfl
  | cons x xs ih =>
    rw [contents_cons, contents_cons, ih (fun p hp => h p (List.mem_cons_of_mem _ hp))]
    simp [entriesOf, h x (List.mem_cons_self ..)]

/-- **BTree::insert** of a key that is not stored: if it returns Ok, the tree is well formed again
    and holds exactly the spec's contents -/
theorem insert_spec (c : Cfg) (hc : c.Std) (t : Tree κ) (g : Ghost κ)
    (wf : WF t.pages.get t.root t.next g) (k : κ) (v : Nat)
    (hfresh : Multimap.hasKey k (contents t.pages.get g.L) = false)
    (t' : Tree κ) (h : insert c t k v = (t', .ok)) :
    ∃ g', WF t'.pages.get t'.root t'.next g' ∧
      contents t'.pages.get g'.L = Multimap.insert k v (contents t.pages.get g.L) := by
  obtain ⟨p, es, b, r, lo, hi, path, hd, hf⟩ := descend_root c hc t g wf k
  obtain ⟨es0, b0, r0, hp0, hsorted, hin⟩ := wf.leaf p lo hi hf.ghost
  rw [hf.page] at hp0; cases hp0
  obtain ⟨idx, hidx, hle, hbefore, hafter⟩ := leafLowerBound_spec c hc es hsorted.weak k
  simp only [insert, hd, hidx] at h
  cases hins : leafInsertAt c es b idx k v with
  | some r' =>
    obtain ⟨es', b'⟩ := r'
    simp only [hins, Prod.mk.injEq, and_true] at h
    subst h
    obtain ⟨h1, h2⟩ := insert_nosplit_spec c hc t g wf k v hfresh p es b r lo hi path hf idx hidx es' b' hins
    exact ⟨g, h1, h2⟩
  | none =>
    simp only [hins] at h
    -- the chain around the leaf, and the contents
    obtain ⟨A, B, p0, r', hL, hsegA, hr, hn, hsegB, hpos⟩ := chain_split wf p lo hi hf.ghost
    have hr' : r = r' := by simp [rightOf, hf.page] at hr; exact hr
    subst hr'
    have hcont : contents t.pages.get g.L = contents t.pages.get A ++ es ++ contents t.pages.get B := by
      rw [hL, contents_append, contents_cons]; simp [entriesOf, hf.page]
    have hA : ∀ e ∈ contents t.pages.get A, Lt e.1 k :=
      fun e he => Seg_before wf.leafOK A p0 none p lo hsegA hpos e he k hf.lo
    have hB : ∀ e ∈ contents t.pages.get B, Lt k e.1 :=
      fun e he => Seg_after_hi wf.leafOK B r hi hn hsegB e he k hf.hi
    have hnokey := mm_hasKey_false k _ hfresh
    have hnokey_es : ∀ e ∈ es, e.1 ≠ k := by
      intro e he
      apply hnokey e
      rw [hcont]
      exact List.mem_append_left _ (List.mem_append_right _ he)
    -- the split position
    obtain ⟨bs, hbs, hspec⟩ := rustBinarySearch_spec (fun e : κ × Nat => kcmp e.1 k) es (kcmp_pat es k hsorted)
    simp only [hbs] at h
    cases bs with
    | found i =>
      obtain ⟨x, hx, hxe⟩ := hspec
      exact absurd (kcmp_eq hxe) (hnokey_es x (List.mem_of_getElem? hx))
    | missing i =>
      obtain ⟨hile, hlt, hgt⟩ := hspec
      simp only [BS.pos] at h
      have hb' : ∀ e ∈ es.take i, Lt e.1 k := by
        intro e he
        obtain ⟨j, hj, rfl⟩ := List.mem_take_iff_getElem.mp he
        have hjl : j < es.length := by omega
        exact kcmp_lt (hlt j _ (by omega) (List.getElem?_eq_getElem hjl))
      have ha' : ∀ e ∈ es.drop i, Lt k e.1 := by
        intro e he
        obtain ⟨j, hj⟩ := List.mem_iff_getElem?.mp he
        rw [List.getElem?_drop] at hj
        exact kcmp_gt (hgt (i + j) e (by omega) hj)
      have hsorted' : SSorted (es.insertIdx i (k, v)) := SSorted_insert es i k v hsorted hile hb' ha'
      have hin' : ∀ e ∈ es.insertIdx i (k, v), bLo lo e.1 ∧ bHi e.1 hi := by
        intro e he
        rw [insertIdx_eq_take_drop _ _ _ hile] at he
        rcases List.mem_append.mp he with he | he
        · exact hin e (List.mem_of_mem_take he)
        · rcases List.mem_cons.mp he with rfl | he
          · exact ⟨hf.lo, hf.hi⟩
          · exact hin e (List.mem_of_mem_drop he)
      cases hdrop : (es.insertIdx i (k, v)).drop ((es.insertIdx i (k, v)).length / 2) with
      | nil => simp [hdrop] at h
      | cons sv rest' =>
        obtain ⟨sep, v0⟩ := sv
        simp only [hdrop] at h
        cases ha : alloc c t with
        | none => simp [ha] at h
        | some ra =>
          obtain ⟨rid, t1⟩ := ra
          obtain ⟨hrid, ht1⟩ := alloc_eq c t rid t1 ha
          subst hrid ht1
          simp only [ha] at h
          cases hrr : rebuildLeaf c ((sep, v0) :: rest') with
          | none => simp [hrr] at h
          | some rr =>
            obtain ⟨re, rb⟩ := rr
            simp only [hrr] at h
            cases hrl : rebuildLeaf c ((es.insertIdx i (k, v)).take ((es.insertIdx i (k, v)).length / 2)) with
            | none => simp [hrl] at h
            | some rl =>
              obtain ⟨le, lb⟩ := rl
              simp only [hrl] at h
              have hre := rebuildLeaf_eq c _ _ hrr
              have hle' := rebuildLeaf_eq c _ _ hrl
              simp only at hre hle'
              subst hre hle'
              have st := leaf_split_step wf p lo hi es b r hf.ghost hf.page (es.insertIdx i (k, v)) hsorted' hin'
                ((es.insertIdx i (k, v)).length / 2) sep v0 rest' hdrop lb rb A B p0 hL hsegA hn hsegB hpos
              rw [hdrop] at st
              have hpend := pend_of_split wf st path hf.path
              obtain ⟨g', wf', hL', hsame⟩ := iip_spec c path
                { pages := (t.pages.set p (.leaf _ lb t.next)).set t.next (.leaf ((sep, v0) :: rest') rb r),
                  root := t.root, next := t.next + 1 }
                ⟨splitG g.G p t.next 0 lo hi sep, A ++ p :: t.next :: B, g.H⟩ p 0 sep t.next t'
                (by simp only; rw [get_set_eq_upd, get_set_eq_upd]; exact hpend) h
              refine ⟨g', wf', ?_⟩
              rw [hL', contents_congr _ _ _ hsame]
              simp only
              rw [get_set_eq_upd, get_set_eq_upd]
              -- contents of the two halves
              have hfreshG := wf.fresh
              have hnd := wf.lnodup
              rw [hL] at hnd
              have hpA : p ∉ A := by
                intro hh
                exact (List.nodup_append.mp hnd).2.2 p hh p (List.mem_cons_self ..) rfl
              have hpB : p ∉ B := (List.nodup_cons.mp (List.nodup_append.mp hnd).2.1).1
              have hnotin : ∀ q ∈ g.L, q ≠ t.next := by
                intro q hq e
                obtain ⟨lo', hi', hh⟩ := (wf.lmem q).mp hq
                rw [e, hfreshG] at hh; cases hh
              have hnA : t.next ∉ A := fun hh => hnotin _ (by rw [hL]; exact List.mem_append_left _ hh) rfl
              have hnB : t.next ∉ B := fun hh =>
                hnotin _ (by rw [hL]; exact List.mem_append_right _ (List.mem_cons_of_mem _ hh)) rfl
              have hpn : p ≠ t.next := by
                intro e; have := hf.ghost; rw [e, hfreshG] at this; cases this
              rw [contents_append, contents_cons, contents_cons,
                contents_upd_notin _ _ _ _ hnA, contents_upd_notin _ _ _ _ hpA,
                contents_upd_notin _ _ _ _ hnB, contents_upd_notin _ _ _ _ hpB]
              simp only [entriesOf, upd_same, upd_other _ _ _ _ hpn]
              rw [hcont, mm_insert_around k v _ es _ i hile hA hB hb' (fun e he => le_of_lt (ha' e he))]
              rw [← hdrop]
              simp only [List.append_assoc]
              rw [← List.append_assoc (List.take _ _), List.take_append_drop]

/-! ### histories -/

theorem iip_not_found (c : Cfg) : ∀ (path : List (Nat × Nat)) (t : Tree κ) (x : Nat) (s : κ) (y : Nat)
    (t' : Tree κ) (b : Bool), insertIntoParent c t path x s y ≠ (t', .found b) := by
  intro path
  induction path with
  | nil =>
    intro t x s y t' b h
    simp only [insertIntoParent] at h
    split at h
    · cases h
    · split at h <;> cases h
  | cons pp rest ih =>
    obtain ⟨pid, pos⟩ := pp
    intro t x s y t' b h
    simp only [insertIntoParent] at h
    split at h
    · split at h
      · cases h
      · split at h
        · cases h
        · split at h
          · cases h
          · split at h
            · cases h
            · split at h
              · cases h
              · split at h
                · cases h
                · exact ih _ _ _ _ _ _ h
    · cases h

theorem insert_not_found (c : Cfg) (t : Tree κ) (k : κ) (v : Nat) (t' : Tree κ) (b : Bool) :
    insert c t k v ≠ (t', .found b) := by
  intro h
  simp only [insert] at h
  split at h
  · cases h
  · cases h
  · split at h
    · cases h
    · split at h
      · cases h
      · split at h
        · cases h
        · split at h
          · cases h
          · split at h
            · cases h
            · split at h
              · cases h
              · split at h
                · cases h
                · exact iip_not_found c _ _ _ _ _ _ _ h

/-- no op of the history ended in err / panic / loop -/
def allOk : List Out → Bool
  | [] => true
  | .ok :: os => allOk os
  | .found _ :: os => allOk os
  | _ :: _ => false

/-- the outcome the spec prescribes for one op -/
def specOut (m : Multimap.MM κ) : Multimap.Op κ → Out
  | .insert _ _ => .ok
  | .delete k p => .found (Multimap.delete k p m).1

def specOuts : Multimap.MM κ → List (Multimap.Op κ) → List Out
  | _, [] => []
  | m, op :: ops => specOut m op :: specOuts (Multimap.step m op) ops

/-- the empty tree is well formed and empty -/
theorem create_wf (c : Cfg) (hfp : 0 < c.firstPage) :
    ∃ g, WF (create c : Tree κ).pages.get (create c : Tree κ).root (create c : Tree κ).next g ∧
      contents (create c : Tree κ).pages.get g.L = [] := by
  refine ⟨⟨fun p => if p = c.firstPage then some (0, none, none) else none, [c.firstPage], 0⟩, ?_, ?_⟩
  · refine
      { root := by simp [create], rng := ?_, lvl := ?_, int := ?_, leaf := ?_, share := ?_, lnodup := by simp,
        lmem := ?_, seg := ?_, fuel := by simp [create] }
    · intro p l lo hi h
      by_cases e : p = c.firstPage
      · simp only [e, if_true, Option.some.injEq, Prod.mk.injEq] at h
        obtain ⟨_, rfl, rfl⟩ := h
        simp only [create, e]
        exact ⟨hfp, by omega, trivial⟩
      · simp [e] at h
    · intro p l lo hi h
      by_cases e : p = c.firstPage
      · simp only [e, if_true, Option.some.injEq, Prod.mk.injEq] at h
        omega
      · simp [e] at h
    · intro p l lo hi h
      by_cases e : p = c.firstPage
      · simp [e] at h
      · simp [e] at h
    · intro p lo hi h
      by_cases e : p = c.firstPage
      · simp only [e, if_true, Option.some.injEq, Prod.mk.injEq, true_and] at h
        obtain ⟨rfl, rfl⟩ := h
        refine ⟨[], c.ps, 0, by simp [create, PageMap.get, e], List.Pairwise.nil, ?_⟩
        intro e he; cases he
      · simp [e] at h
    · intro p1 p2 c' l1 lo1 hi1 l2 lo2 hi2 h1
      by_cases e : p1 = c.firstPage
      · simp [e] at h1
      · simp [e] at h1
    · intro p
      constructor
      · intro hp
        simp only [List.mem_singleton] at hp
        exact ⟨none, none, by simp [hp]⟩
      · rintro ⟨lo, hi, h⟩
        by_cases e : p = c.firstPage
        · simp [e]
        · simp [e] at h
    · refine ⟨c.firstPage, [], rfl, rfl, hfp, none, 0, by simp, ?_, fun _ => rfl, rfl, rfl⟩
      simp [rightOf, create, PageMap.get]
  · simp [contents, entriesOf, create, PageMap.get]

/-- **induction over histories**: from a well-formed tree, a history that never stores two pairs
    with one key and in which no op fails keeps the tree well formed, answers every op as the spec
    does and ends with the spec's contents -/
theorem runFrom_spec (c : Cfg) (hc : c.Std) : ∀ (ops : List (Multimap.Op κ)) (t : Tree κ) (g : Ghost κ),
    WF t.pages.get t.root t.next g →
    Multimap.distinctKeys (contents t.pages.get g.L) ops = true →
    allOk (runFrom c t ops).2 = true →
    ∃ g', WF (runFrom c t ops).1.pages.get (runFrom c t ops).1.root (runFrom c t ops).1.next g' ∧
      contents (runFrom c t ops).1.pages.get g'.L = ops.foldl Multimap.step (contents t.pages.get g.L) ∧
      (runFrom c t ops).2 = specOuts (contents t.pages.get g.L) ops := by
  intro ops
  induction ops with
  | nil => intro t g wf _ _; exact ⟨g, wf, rfl, rfl⟩
  | cons op ops ih =>
    intro t g wf hdist hok
    cases op with
    | insert k v =>
      simp only [Multimap.distinctKeys, Bool.and_eq_true, Bool.not_eq_true'] at hdist
      obtain ⟨hfresh, hdist'⟩ := hdist
      simp only [runFrom, step] at hok ⊢
      cases hins : insert c t k v with
      | mk t1 o =>
        simp only [hins] at hok ⊢
        cases o with
        | ok =>
          obtain ⟨g1, wf1, hc1⟩ := insert_spec c hc t g wf k v hfresh t1 hins
          simp only [allOk] at hok
          rw [← hc1] at hdist'
          obtain ⟨g', wf', hcont, houts⟩ := ih t1 g1 wf1 hdist' hok
          refine ⟨g', wf', ?_, ?_⟩
          · rw [hcont, hc1]; rfl
          · rw [houts, hc1]; rfl
        | found b => exact absurd hins (insert_not_found c t k v t1 b)
        | err => simp [allOk] at hok
        | panic => simp [allOk] at hok
        | loop => simp [allOk] at hok
    | delete k v =>
      simp only [Multimap.distinctKeys] at hdist
      simp only [runFrom, step] at hok ⊢
      obtain ⟨t1, b, hdel, wf1, hspec⟩ := delete_spec c hc t g wf k v
      simp only [hdel] at hok ⊢
      simp only [allOk] at hok
      have hb : b = (Multimap.delete k v (contents t.pages.get g.L)).1 := by rw [← hspec]
      have hc1 : contents t1.pages.get g.L = (Multimap.delete k v (contents t.pages.get g.L)).2 := by rw [← hspec]
      rw [← hc1] at hdist
      obtain ⟨g', wf', hcont, houts⟩ := ih t1 g wf1 hdist hok
      refine ⟨g', wf', ?_, ?_⟩
      · rw [hcont, hc1]; rfl
      · rw [houts, hc1, hb]; rfl

end Nervus.BTree
