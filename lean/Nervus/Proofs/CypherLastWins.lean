/-
  C12, "the last assignment wins": the staged write log of a transaction is the ordered list of the
  `set_*_property` calls actually issued; after commit every (entity, key) holds the value of the LAST call that
  names it.  Consequences: `update_refines_set_prop_rows` needs no "distinct target" / "value differs" proviso, and
  a write may be elided only when its value equals the value visible in `committed ⊕ staged so far` — comparing
  with the pre-statement snapshot is unsound.
-/
import Nervus.Proofs.CypherUpdateRows
namespace Nervus.Cy
open Nervus.Cy

/-! ### property maps -/

theorem lookup_setKey_self (ps : Props) (k : String) (v : Scalar) : (Spec.setKey ps k v).lookup k = some v := by
  unfold Spec.setKey
  by_cases h : ps.any (·.1 == k) = true
  · rw [if_pos h]
    induction ps with
    | nil => simp at h
    | cons p rest ih =>
      obtain ⟨k', v'⟩ := p
      by_cases hk : (k' == k) = true
      · have : k' = k := by simpa using hk
        subst this
        simp [List.lookup]
      · have hk2 : (k == k') = false := by
          cases h2 : k == k'
          · rfl
          · exact absurd (by rw [beq_iff_eq] at h2 ⊢; exact h2.symm) hk
        have hrest : rest.any (·.1 == k) = true := by simpa [hk] using h
        simp only [List.map_cons, hk, Bool.false_eq_true, ↓reduceIte, List.lookup, hk2]
        exact ih hrest
  · rw [if_neg h, List.lookup_append]
    have hnone : ps.lookup k = none := by
      induction ps with
      | nil => rfl
      | cons p rest ih =>
        obtain ⟨k', v'⟩ := p
        have hk : (k' == k) = false := by
          cases h2 : k' == k
          · rfl
          · exact absurd (by simp [h2]) h
        have hk2 : (k == k') = false := by
          cases h2 : k == k'
          · rfl
          · rw [beq_iff_eq] at h2; subst h2; simp at hk
        simp only [List.lookup, hk2]
        exact ih (by intro hh; exact h (by simp [hh]))
    simp [hnone, List.lookup, Option.or]

theorem lookup_map_replace_ne (ps : Props) (k k' : String) (v : Scalar) (hne : k' ≠ k) :
    (ps.map fun (p : String × Scalar) => if p.1 == k then (p.1, v) else (p.1, p.2)).lookup k' = ps.lookup k' := by
  induction ps with
  | nil => rfl
  | cons p rest ih =>
    obtain ⟨k0, v0⟩ := p
    by_cases hk : (k0 == k) = true
    · have : k0 = k := by simpa using hk
      subst this
      have h2 : (k' == k0) = false := by simpa using hne
      simp only [List.map_cons, beq_self_eq_true, ↓reduceIte, List.lookup, h2]
      exact ih
    · simp only [List.map_cons, hk, Bool.false_eq_true, ↓reduceIte, List.lookup]
      cases k' == k0
      · exact ih
      · rfl

theorem lookup_setKey_ne (ps : Props) (k k' : String) (v : Scalar) (hne : k' ≠ k) :
    (Spec.setKey ps k v).lookup k' = ps.lookup k' := by
  unfold Spec.setKey
  split
  · exact lookup_map_replace_ne ps k k' v hne
  · rw [List.lookup_append]
    have h2 : (k' == k) = false := by simpa using hne
    cases hl : ps.lookup k' <;> simp [List.lookup, h2, Option.or]

/-! ### the value visible for (entity, key) -/

def nodeVal (g : Graph) (n : Nat) (k : String) : Option Scalar := (Spec.propsOf g (.node n)).lookup k
def relVal (g : Graph) (r : RelId) (k : String) : Option Scalar := (Spec.propsOf g (.rel r)).lookup k

theorem node?_updNode_eq (g : Graph) (n : Nat) (f : NodeRec → NodeRec) (hf : ∀ nd, (f nd).id = nd.id) :
    (Spec.updNode g n f).node? n = (g.node? n).map f := by
  simp only [Graph.node?, Spec.updNode]
  induction g.nodes with
  | nil => rfl
  | cons nd rest ih =>
    simp only [List.map_cons, List.find?_cons]
    by_cases h : (nd.id == n) = true
    · have h1 : ((f nd).id == n) = true := by rw [hf]; exact h
      simp [h, h1]
    · have hf' : (nd.id == n) = false := by simpa using h
      simp only [hf', Bool.false_eq_true, ↓reduceIte]
      exact ih

def updRelId (f : RelRec → RelRec) : Prop := ∀ e, (f e).id = e.id

theorem rel?_updRel_eq (g : Graph) (r : RelId) (f : RelRec → RelRec) (hf : updRelId f) :
    (Spec.updRel g r f).rel? r = (g.rel? r).map f := by
  simp only [Graph.rel?, Spec.updRel]
  induction g.rels with
  | nil => rfl
  | cons e rest ih =>
    simp only [List.map_cons, List.find?_cons]
    by_cases h : (e.id == r) = true
    · have h1 : ((f e).id == r) = true := by rw [hf]; exact h
      simp [h, h1]
    · have hf' : (e.id == r) = false := by simpa using h
      simp only [hf', Bool.false_eq_true, ↓reduceIte]
      exact ih

theorem rel?_updRel_ne (g : Graph) (r r' : RelId) (f : RelRec → RelRec) (hf : updRelId f) (hne : r' ≠ r) :
    (Spec.updRel g r f).rel? r' = g.rel? r' := by
  simp only [Graph.rel?, Spec.updRel]
  induction g.rels with
  | nil => rfl
  | cons e rest ih =>
    simp only [List.map_cons, List.find?_cons]
    by_cases h : (e.id == r) = true
    · have hid : e.id = r := by simpa using h
      have h1 : ((f e).id == r') = false := by rw [hf]; simpa [hid] using hne.symm
      have h2 : (e.id == r') = false := by simpa [hid] using hne.symm
      simp only [h, ↓reduceIte, h1, h2]
      exact ih
    · simp only [h, Bool.false_eq_true, ↓reduceIte]
      cases hq : e.id == r'
      · exact ih
      · rfl

/-! ### the staged write log: plain assignments -/

open Update in
/-- `set_node_property` / `set_edge_property` calls -/
def isSet : Update.TxOp → Bool
  | .setNodeProp .. => true | .setEdgeProp .. => true | _ => false

def stepNode (n : Nat) (k : String) (acc : Option Scalar) : Update.TxOp → Option Scalar
  | .setNodeProp n' k' v => if n' == n && k' == k then some v else acc
  | _ => acc

def stepRel (r : RelId) (k : String) (acc : Option Scalar) : Update.TxOp → Option Scalar
  | .setEdgeProp r' k' v => if r' == r && k' == k then some v else acc
  | _ => acc

/-- the value the log assigns LAST to (n, k), if it assigns one at all -/
def lastNodeSet (ops : List Update.TxOp) (n : Nat) (k : String) : Option Scalar := ops.foldl (stepNode n k) none
def lastRelSet (ops : List Update.TxOp) (r : RelId) (k : String) : Option Scalar := ops.foldl (stepRel r k) none

theorem stepNode_or (n : Nat) (k : String) (acc : Option Scalar) (op : Update.TxOp) :
    stepNode n k acc op = (stepNode n k none op).or acc := by
  cases op <;> simp [stepNode]
  split <;> simp

theorem stepRel_or (r : RelId) (k : String) (acc : Option Scalar) (op : Update.TxOp) :
    stepRel r k acc op = (stepRel r k none op).or acc := by
  cases op <;> simp [stepRel]
  split <;> simp

theorem foldl_stepNode (n : Nat) (k : String) (ops : List Update.TxOp) (acc : Option Scalar) :
    ops.foldl (stepNode n k) acc = (ops.foldl (stepNode n k) none).or acc := by
  induction ops generalizing acc with
  | nil => simp
  | cons op rest ih =>
    simp only [List.foldl_cons]
    rw [ih (stepNode n k acc op), ih (stepNode n k none op), stepNode_or n k acc op, Option.or_assoc]

theorem foldl_stepRel (r : RelId) (k : String) (ops : List Update.TxOp) (acc : Option Scalar) :
    ops.foldl (stepRel r k) acc = (ops.foldl (stepRel r k) none).or acc := by
  induction ops generalizing acc with
  | nil => simp
  | cons op rest ih =>
    simp only [List.foldl_cons]
    rw [ih (stepRel r k acc op), ih (stepRel r k none op), stepRel_or r k acc op, Option.or_assoc]

/-- one call: the value visible afterwards -/
theorem nodeVal_applyOp (g : Graph) (op : Update.TxOp) (hop : isSet op = true) (n : Nat) (k : String)
    (hn : (g.node? n).isSome = true) :
    nodeVal (Update.applyOp g op) n k = (stepNode n k none op).or (nodeVal g n k) ∧
    ((Update.applyOp g op).node? n).isSome = true := by
  cases op with
  | setNodeProp n' k' v =>
    simp only [Update.applyOp, stepNode, nodeVal, Spec.propsOf]
    by_cases hnn : n' = n
    · subst hnn
      rw [node?_updNode_eq g n' (fun nd => { nd with props := Spec.setKey nd.props k' v }) (fun _ => rfl)]
      obtain ⟨nd, hnd⟩ := Option.isSome_iff_exists.mp hn
      simp only [hnd, Option.map_some, beq_self_eq_true, Bool.true_and, Option.isSome_some, and_true]
      by_cases hkk : k' = k
      · subst hkk
        simp [lookup_setKey_self]
      · have : (k' == k) = false := by simpa using hkk
        simp [this, lookup_setKey_ne nd.props k' k v (fun h => hkk h.symm)]
    · have hb : (n' == n) = false := by simpa using hnn
      rw [node?_updNode_ne g n' n (fun nd => { nd with props := Spec.setKey nd.props k' v }) (fun _ => rfl) (fun h => hnn h.symm)]
      simp [hb, hn]
  | setEdgeProp r k' v =>
    have h1 : (Update.applyOp g (.setEdgeProp r k' v)).node? n = g.node? n := rfl
    simp only [nodeVal, Spec.propsOf, h1, stepNode, hn, and_true]
    simp
  | _ => simp [isSet] at hop

theorem relVal_applyOp (g : Graph) (op : Update.TxOp) (hop : isSet op = true) (r : RelId) (k : String)
    (hr : (g.rel? r).isSome = true) :
    relVal (Update.applyOp g op) r k = (stepRel r k none op).or (relVal g r k) ∧
    ((Update.applyOp g op).rel? r).isSome = true := by
  cases op with
  | setEdgeProp r' k' v =>
    simp only [Update.applyOp, stepRel, relVal, Spec.propsOf]
    by_cases hrr : r' = r
    · subst hrr
      rw [rel?_updRel_eq g r' (fun e => { e with props := Spec.setKey e.props k' v }) (fun _ => rfl)]
      obtain ⟨e, he⟩ := Option.isSome_iff_exists.mp hr
      simp only [he, Option.map_some, beq_self_eq_true, Bool.true_and, Option.isSome_some, and_true]
      by_cases hkk : k' = k
      · subst hkk
        simp [lookup_setKey_self]
      · have : (k' == k) = false := by simpa using hkk
        simp [this, lookup_setKey_ne e.props k' k v (fun h => hkk h.symm)]
    · have hb : (r' == r) = false := by simpa using hrr
      rw [rel?_updRel_ne g r' r (fun e => { e with props := Spec.setKey e.props k' v }) (fun _ => rfl) (fun h => hrr h.symm)]
      simp [hb, hr]
  | setNodeProp n k' v =>
    have h1 : (Update.applyOp g (.setNodeProp n k' v)).rel? r = g.rel? r := rfl
    simp only [relVal, Spec.propsOf, h1, stepRel, hr, and_true]
    simp
  | _ => simp [isSet] at hop

/-- **the last assignment wins** (nodes): after committing a log of plain assignments, (n, k) holds the value of
    the last call that names (n, k); if none does, the value it had before.  No condition on how often, in which
    order, or with which values the pair is assigned. -/
theorem last_assignment_wins_node (ops : List Update.TxOp) (hops : ∀ op ∈ ops, isSet op = true) :
    ∀ (g : Graph) (n : Nat) (k : String), (g.node? n).isSome = true →
      nodeVal (Update.applyOps g ops) n k = (lastNodeSet ops n k).or (nodeVal g n k) ∧
      ((Update.applyOps g ops).node? n).isSome = true := by
  induction ops with
  | nil => intro g n k hn; simp [Update.applyOps, lastNodeSet, hn]
  | cons op rest ih =>
    intro g n k hn
    obtain ⟨h1, h2⟩ := nodeVal_applyOp g op (hops op (by simp)) n k hn
    obtain ⟨h3, h4⟩ := ih (fun o ho => hops o (List.mem_cons_of_mem _ ho)) (Update.applyOp g op) n k h2
    have happ : Update.applyOps g (op :: rest) = Update.applyOps (Update.applyOp g op) rest := rfl
    refine ⟨?_, by rw [happ]; exact h4⟩
    rw [happ, h3, h1]
    simp only [lastNodeSet, List.foldl_cons]
    rw [foldl_stepNode n k rest (stepNode n k none op), Option.or_assoc]

/-- **the last assignment wins** (relationship identities) -/
theorem last_assignment_wins_rel (ops : List Update.TxOp) (hops : ∀ op ∈ ops, isSet op = true) :
    ∀ (g : Graph) (r : RelId) (k : String), (g.rel? r).isSome = true →
      relVal (Update.applyOps g ops) r k = (lastRelSet ops r k).or (relVal g r k) ∧
      ((Update.applyOps g ops).rel? r).isSome = true := by
  induction ops with
  | nil => intro g r k hr; simp [Update.applyOps, lastRelSet, hr]
  | cons op rest ih =>
    intro g r k hr
    obtain ⟨h1, h2⟩ := relVal_applyOp g op (hops op (by simp)) r k hr
    obtain ⟨h3, h4⟩ := ih (fun o ho => hops o (List.mem_cons_of_mem _ ho)) (Update.applyOp g op) r k h2
    have happ : Update.applyOps g (op :: rest) = Update.applyOps (Update.applyOp g op) rest := rfl
    refine ⟨?_, by rw [happ]; exact h4⟩
    rw [happ, h3, h1]
    simp only [lastRelSet, List.foldl_cons]
    rw [foldl_stepRel r k rest (stepRel r k none op), Option.or_assoc]

/-! ### eliding a write -/

theorem applyOps_append (g : Graph) (a b : List Update.TxOp) :
    Update.applyOps g (a ++ b) = Update.applyOps (Update.applyOps g a) b := by
  simp [Update.applyOps, List.foldl_append]

/-- **write elision, sound direction**: leaving out `set_node_property(n, k, v)` is unobservable in the committed
    graph when `v` is the value visible for (n, k) in `committed ⊕ staged so far` (the snapshot with the calls
    issued before it applied) -/
theorem elide_sound_node (g : Graph) (pre post : List Update.TxOp) (hpre : ∀ op ∈ pre, isSet op = true)
    (hpost : ∀ op ∈ post, isSet op = true) (n : Nat) (k : String) (v : Scalar)
    (hvis : nodeVal (Update.applyOps g pre) n k = some v) (n' : Nat) (k' : String)
    (hn' : (g.node? n').isSome = true) :
    nodeVal (Update.applyOps g (pre ++ [.setNodeProp n k v] ++ post)) n' k' =
      nodeVal (Update.applyOps g (pre ++ post)) n' k' := by
  obtain ⟨_, hG⟩ := last_assignment_wins_node pre hpre g n' k' hn'
  rw [applyOps_append, applyOps_append, applyOps_append]
  have hone : Update.applyOps (Update.applyOps g pre) [.setNodeProp n k v] =
      Update.applyOp (Update.applyOps g pre) (.setNodeProp n k v) := rfl
  rw [hone]
  obtain ⟨h1, h2⟩ := nodeVal_applyOp (Update.applyOps g pre) (.setNodeProp n k v) rfl n' k' hG
  rw [(last_assignment_wins_node post hpost _ n' k' h2).1, (last_assignment_wins_node post hpost _ n' k' hG).1, h1]
  congr 1
  simp only [stepNode]
  by_cases hh : (n == n' && k == k') = true
  · have : n = n' ∧ k = k' := by simpa using hh
    obtain ⟨rfl, rfl⟩ := this
    simp [hvis]
  · simp [hh]

/-- **write elision, the other direction**: when the visible value differs from `v` and no later call of the log
    assigns (n, k) again, leaving the call out changes the committed value of (n, k).  In particular comparing `v`
    with the pre-statement SNAPSHOT is unsound as soon as an earlier call of the log has changed (n, k). -/
theorem elide_unsound_node (g : Graph) (pre post : List Update.TxOp) (hpre : ∀ op ∈ pre, isSet op = true)
    (hpost : ∀ op ∈ post, isSet op = true) (n : Nat) (k : String) (v : Scalar)
    (hn : (g.node? n).isSome = true)
    (hvis : nodeVal (Update.applyOps g pre) n k ≠ some v) (hlast : lastNodeSet post n k = none) :
    nodeVal (Update.applyOps g (pre ++ [.setNodeProp n k v] ++ post)) n k = some v ∧
    nodeVal (Update.applyOps g (pre ++ post)) n k ≠ some v := by
  obtain ⟨_, hG⟩ := last_assignment_wins_node pre hpre g n k hn
  rw [applyOps_append, applyOps_append, applyOps_append]
  have hone : Update.applyOps (Update.applyOps g pre) [.setNodeProp n k v] =
      Update.applyOp (Update.applyOps g pre) (.setNodeProp n k v) := rfl
  rw [hone]
  obtain ⟨h1, h2⟩ := nodeVal_applyOp (Update.applyOps g pre) (.setNodeProp n k v) rfl n k hG
  rw [(last_assignment_wins_node post hpost _ n k h2).1, (last_assignment_wins_node post hpost _ n k hG).1, h1, hlast]
  simp [stepNode, hvis]

/-! ### SET x.k = e over every table, node and relationship targets, with the issued log made explicit -/

variable (A : Algebra) (params : List (String × Val))

theorem find?_rel_of_mem_distinct (l : List RelRec) (h : l.Pairwise fun a b => a.id ≠ b.id) {e : RelRec}
    (he : e ∈ l) : l.find? (·.id == e.id) = some e := by
  induction l with
  | nil => cases he
  | cons m ms ih =>
    rw [List.pairwise_cons] at h
    rcases List.mem_cons.mp he with rfl | hmem
    · simp [List.find?]
    · have hne : m.id ≠ e.id := h.1 e hmem
      have : (m.id == e.id) = false := by simpa using hne
      simp only [List.find?, this]
      exact ih h.2 hmem

theorem updRel_congr (g : Graph) (r : RelId) (f1 f2 : RelRec → RelRec)
    (h : ∀ e ∈ g.rels, e.id = r → f1 e = f2 e) : Spec.updRel g r f1 = Spec.updRel g r f2 := by
  unfold Spec.updRel
  congr 1
  apply List.map_congr_left
  intro e he
  by_cases hid : e.id = r
  · simp [hid, h e he hid]
  · have : (e.id == r) = false := by simpa using hid
    simp [this]

theorem set_edge_prop_graph_eq (g : Graph) (hg : g.rels.Pairwise fun a b => a.id ≠ b.id) (r : RelId) (k : String)
    (pv : Scalar) :
    Update.applyOp g (.setEdgeProp r k pv) =
      Spec.setProps g (.rel r) (Spec.setKey (Spec.propsOf g (.rel r)) k pv) := by
  simp only [Update.applyOp, Spec.setProps]
  apply updRel_congr
  intro e he hid
  subst hid
  have : g.rel? e.id = some e := find?_rel_of_mem_distinct g.rels hg he
  simp [Spec.propsOf, this]

theorem updRel_distinct (g : Graph) (r : RelId) (f : RelRec → RelRec) (hf : ∀ e, (f e).id = e.id)
    (hg : g.rels.Pairwise fun a b => a.id ≠ b.id) : (Spec.updRel g r f).rels.Pairwise fun a b => a.id ≠ b.id := by
  simp only [Spec.updRel, List.pairwise_map]
  refine hg.imp ?_
  intro a b hab
  have ha : (if (a.id == r) = true then f a else a).id = a.id := by split <;> simp [hf]
  have hb : (if (b.id == r) = true then f b else b).id = b.id := by split <;> simp [hf]
  rw [ha, hb]; exact hab

/-- `USim` plus distinct relationship identities -/
def USimR (g : Graph) (next : Nat) (m : Update.St) (sp : Spec.St) : Prop :=
  USim g next m sp ∧ sp.g.rels.Pairwise fun a b => a.id ≠ b.id

/-- the `set_*_property` call one row of `SET x.k = e` issues -/
def assignOf (g : Graph) (x k : String) (e : Expr) (r : Row) : Option Update.TxOp :=
  match Update.toProp (eval A { g, params } r e), r.get x with
  | .ok pv, some (.node n) => some (.setNodeProp n k pv)
  | .ok pv, some (.rel ed) => some (.setEdgeProp ed k pv)
  | _, _ => none

theorem writeProp_storable (ps : Props) (k : String) (v : Val) (pv : Scalar) (hv : Update.toProp v = .ok pv)
    (hnn : pv ≠ .null) : Spec.writeProp ps k v = .ok (Spec.setKey ps k pv, 1) := by
  have hs : v.toScalar? = some pv ∧ (∀ q, pv ≠ .node q) ∧ (∀ q, pv ≠ .rel q) := by
    cases v <;> simp [Update.toProp] at hv <;> subst hv <;> simp [Val.toScalar?]
  obtain ⟨h1, h2, h3⟩ := hs
  unfold Spec.writeProp
  rw [h1]
  cases pv with
  | null => exact absurd rfl hnn
  | node q => exact absurd rfl (h2 q)
  | rel q => exact absurd rfl (h3 q)
  | bool b => rfl
  | int i => rfl
  | str s => rfl

/-- one row, relationship target -/
theorem set_prop_row_rel (g : Graph) (next : Nat) (m : Update.St) (sp : Spec.St) (hR : USimR g next m sp)
    (r : Row) (x k : String) (e : Expr) (ed : RelId) (pv : Scalar)
    (hx : r.get x = some (.rel ed)) (hv : Update.toProp (eval A { g, params } r e) = .ok pv) (hnn : pv ≠ .null) :
    ∃ m' u' sp', Update.setPropertyRow A params g [(x, k, e)] m ⟨r, []⟩ = .ok (m', u') ∧
      Spec.applySetItems A params g r sp [.prop x k e] = .ok sp' ∧ USimR g next m' sp' ∧
      m'.ops = m.ops ++ [.setEdgeProp ed k pv] := by
  have hb : (pv == Scalar.null) = false := by simpa using hnn
  have hw := writeProp_storable (Spec.propsOf sp.g (.rel ed)) k _ pv hv hnn
  have hmodel : ∃ u', Update.setPropertyRow A params g [(x, k, e)] m ⟨r, []⟩ =
      .ok ({ m with ops := m.ops ++ [.setEdgeProp ed k pv], count := m.count + 1 }, u') := by
    simp only [Update.setPropertyRow, List.forIn_cons, List.forIn_nil, ev_noOverlay, hv, bind, Except.bind, pure,
      Except.pure, Update.rowNode, Update.rowRel, hx, hb, Bool.false_eq_true, ↓reduceIte, Update.URow.ent,
      List.lookup]
    exact ⟨_, rfl⟩
  obtain ⟨u', hu'⟩ := hmodel
  refine ⟨_, u',
    { sp with g := Update.applyOp sp.g (.setEdgeProp ed k pv), c := { sp.c with propsSet := sp.c.propsSet + 1 } },
    hu', ?_, ⟨⟨?_, hR.1.next, ?_, ?_⟩, ?_⟩, rfl⟩
  · simp only [Spec.applySetItems, List.foldlM_cons, List.foldlM_nil, Spec.setItem, hx, Spec.target?, Spec.evalIn,
      hw, bind, Except.bind, pure, Except.pure, set_edge_prop_graph_eq sp.g hR.2 ed k pv]
  · simp only [applyOps_snoc, hR.1.graph]
  · have := hR.1.count
    simp only [Counts.total] at this ⊢
    omega
  · exact hR.1.distinct
  · exact updRel_distinct sp.g ed _ (fun _ => rfl) hR.2

/-- **update_refines (SET x.k = e, every table, node and relationship targets)** — for every driving table whose
    rows bind `x` to a node or a relationship and give `e` a storable non-null value — the same entity as often as
    the table likes, with whatever values — the SetProperty stage issues exactly one `set_*_property` call per row,
    in row order (`m.ops = T.filterMap assignOf`: nothing is elided), and committing that log to the snapshot
    yields exactly the graph of the reference SET clause, with the same count. -/
theorem update_refines_set_prop_rows_log (g : Graph) (hg : g.nodes.Pairwise fun a b => a.id ≠ b.id)
    (hgr : g.rels.Pairwise fun a b => a.id ≠ b.id) (next : Nat)
    (names : List String) (w : Update.WPlan) (x k : String) (e : Expr) (T : Table)
    (hT : ∀ r ∈ T, ∃ pv, Update.toProp (eval A { g, params } r e) = .ok pv ∧ pv ≠ .null ∧
      ((∃ n, r.get x = some (.node n)) ∨ (∃ ed, r.get x = some (.rel ed)))) :
    ∃ m T' sp, Update.runStage A params g next names w {} (T.map fun r => { row := r }) (.setProperty [(x, k, e)]) =
        .ok (m, T') ∧
      Spec.applyClause A params { g, next } T (.set [.prop x k e]) = .ok (sp, T) ∧
      USimR g next m sp ∧ m.ops = T.filterMap (assignOf A params g x k e) := by
  have hmapRow : (T.map fun r => ({ row := r } : Update.URow)).map (·.row) = T := by
    simp [List.map_map, Function.comp_def]
  obtain ⟨m, T', sp, h1, h2, hR⟩ := rows_simulation_prefix
    (fun m u => Update.setPropertyRow A params g [(x, k, e)] m u)
    (fun sp r => Spec.applySetItems A params g r sp [.prop x k e])
    (fun pre m sp => USimR g next m sp ∧ m.ops = (pre.map (·.row)).filterMap (assignOf A params g x k e))
    (T.map fun r => { row := r })
    (by
      intro pre u post hsplit m sp hR
      have hu : u ∈ T.map fun r => ({ row := r } : Update.URow) := by rw [hsplit]; simp
      obtain ⟨r, hr, rfl⟩ := List.mem_map.mp hu
      obtain ⟨pv, hv, hnn, htgt⟩ := hT r hr
      rcases htgt with ⟨n, hx⟩ | ⟨ed, hx⟩
      · obtain ⟨m', u', sp', a1, a2, a3, a4, _⟩ := set_prop_row A params g next m sp hR.1.1 r x k e n pv hx hv hnn
        refine ⟨m', u', sp', a1, a2, ⟨⟨a3, ?_⟩, ?_⟩⟩
        · -- relationships untouched by a node write
          have hsp : Spec.applySetItems A params g r sp [.prop x k e] = .ok
              { sp with g := Update.applyOp sp.g (.setNodeProp n k pv),
                        c := { sp.c with propsSet := sp.c.propsSet + 1 } } := by
            have hw := writeProp_storable (Spec.propsOf sp.g (.node n)) k _ pv hv hnn
            simp only [Spec.applySetItems, List.foldlM_cons, List.foldlM_nil, Spec.setItem, hx, Spec.target?,
              Spec.evalIn, hw, bind, Except.bind, pure, Except.pure, set_prop_graph_eq sp.g hR.1.1.distinct n k pv]
          rw [hsp] at a2
          cases a2
          exact hR.1.2
        · rw [a4, hR.2]
          simp [List.filterMap_append, assignOf, hv, hx]
      · obtain ⟨m', u', sp', a1, a2, a3, a4⟩ := set_prop_row_rel A params g next m sp hR.1 r x k e ed pv hx hv hnn
        refine ⟨m', u', sp', a1, a2, ⟨a3, ?_⟩⟩
        rw [a4, hR.2]
        simp [List.filterMap_append, assignOf, hv, hx])
    (T.map fun r => { row := r }) [] (by simp) {} { g, next } [] []
    ⟨⟨USim.init g hg next, hgr⟩, rfl⟩
  refine ⟨m, T', sp, ?_, ?_, hR.1, ?_⟩
  · simp only [Update.runStage]
    rw [forIn_stage_eq_foldlM (fun m u => Update.setPropertyRow A params g [(x, k, e)] m u), h1]
    rfl
  · rw [hmapRow] at h2
    simp only [Spec.applyClause, Spec.forRows]
    simpa using h2
  · rw [hR.2, hmapRow]

theorem assignOf_isSet (g : Graph) (x k : String) (e : Expr) (T : Table) :
    ∀ op ∈ T.filterMap (assignOf A params g x k e), isSet op = true := by
  intro op hop
  obtain ⟨r, _, hr⟩ := List.mem_filterMap.mp hop
  unfold assignOf at hr
  split at hr <;> simp at hr <;> subst hr <;> rfl

/-- **the last assignment wins, end to end**: after `SET x.k = e` over any table (hypotheses as above) the
    reference graph — equivalently the committed model graph — holds for every node (n, key) the value of the LAST
    row that assigns it, and its old value when no row does; likewise for relationship identities. -/
theorem set_prop_rows_last_wins (g : Graph) (hg : g.nodes.Pairwise fun a b => a.id ≠ b.id)
    (hgr : g.rels.Pairwise fun a b => a.id ≠ b.id) (next : Nat)
    (x k : String) (e : Expr) (T : Table)
    (hT : ∀ r ∈ T, ∃ pv, Update.toProp (eval A { g, params } r e) = .ok pv ∧ pv ≠ .null ∧
      ((∃ n, r.get x = some (.node n)) ∨ (∃ ed, r.get x = some (.rel ed)))) :
    ∃ sp, Spec.applyClause A params { g, next } T (.set [.prop x k e]) = .ok (sp, T) ∧
      (∀ n k', (g.node? n).isSome = true →
        nodeVal sp.g n k' = (lastNodeSet (T.filterMap (assignOf A params g x k e)) n k').or (nodeVal g n k')) ∧
      (∀ r k', (g.rel? r).isSome = true →
        relVal sp.g r k' = (lastRelSet (T.filterMap (assignOf A params g x k e)) r k').or (relVal g r k')) := by
  obtain ⟨m, _, sp, _, h2, hR, hops⟩ :=
    update_refines_set_prop_rows_log A params g hg hgr next [] { input := .returnOne, stages := [] } x k e T hT
  refine ⟨sp, h2, ?_, ?_⟩
  · intro n k' hn
    rw [hR.1.graph, hops]
    exact (last_assignment_wins_node _ (assignOf_isSet A params g x k e T) g n k' hn).1
  · intro r k' hr
    rw [hR.1.graph, hops]
    exact (last_assignment_wins_rel _ (assignOf_isSet A params g x k e T) g r k' hr).1

end Nervus.Cy
