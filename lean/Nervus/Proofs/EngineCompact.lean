/-
  Proofs/EngineCompact.lean — compaction against the read path (C05): when the runs hold no
  tombstone, compaction is invisible to node enumeration and to neighbour reads in both directions
  (any engine state, any older segments).
-/
import Nervus.Proofs.CsrIncoming
import Nervus.Model.Triggers
import Nervus.Proofs.IterFlush
namespace Nervus.Storage

/-- no run holds a node or edge tombstone -/
def NoTombs (runs : List Run) : Prop := ∀ r ∈ runs, r.tombNodes = [] ∧ r.tombEdges = []

/-- two optional edge lists agree as multisets (or both reads panic) -/
def PermOpt (a b : Option (List Edge)) : Prop :=
  (a = none ∧ b = none) ∨ ∃ l l', a = some l ∧ b = some l' ∧ l.Perm l'

theorem blockedOut_nil (e : Edge) : blockedOut [] [] e = false := by simp [blockedOut]
theorem blockedIn_nil (e : Edge) : blockedIn [] [] e = false := by simp [blockedIn]

theorem outRuns_noTombs (src : Nat) (rel : Option Nat) (runs : List Run) (h : NoTombs runs) :
    outRuns src rel runs [] [] =
      (runs.flatMap (fun r => (r.edgesForSrc src).filter (relOk rel)), some ([], [])) := by
  induction runs with
  | nil => simp [outRuns]
  | cons r rs ih =>
    obtain ⟨h1, h2⟩ := h r List.mem_cons_self
    have ih' := ih (fun r' hr' => h r' (List.mem_cons_of_mem _ hr'))
    simp only [outRuns, List.contains_nil, Bool.false_eq_true, if_false, h1, h2, List.append_nil, ih',
      List.flatMap_cons, blockedOut_nil, Bool.not_false, Bool.and_true]

theorem inRuns_noTombs (dst : Nat) (rel : Option Nat) (runs : List Run) (h : NoTombs runs) :
    inRuns dst rel runs [] [] =
      (runs.flatMap (fun r => (r.edgesForDst dst).filter (relOk rel)), some ([], [])) := by
  induction runs with
  | nil => simp [inRuns]
  | cons r rs ih =>
    obtain ⟨h1, h2⟩ := h r List.mem_cons_self
    have ih' := ih (fun r' hr' => h r' (List.mem_cons_of_mem _ hr'))
    simp only [inRuns, List.contains_nil, Bool.false_eq_true, if_false, h1, h2, List.append_nil, ih',
      List.flatMap_cons, blockedIn_nil, Bool.not_false, Bool.and_true]

theorem collect_noTombs (b : Bool) (runs : List Run) (h : NoTombs runs) :
    collectRunEdges b runs [] [] = runs.flatMap (·.edges) := by
  induction runs with
  | nil => rfl
  | cons r rs ih =>
    obtain ⟨h1, h2⟩ := h r List.mem_cons_self
    have ih' := ih (fun r' hr' => h r' (List.mem_cons_of_mem _ hr'))
    simp only [collectRunEdges, h1, h2, List.append_nil, ih', List.flatMap_cons]
    congr 1
    apply List.filter_eq_self.mpr
    intro e _; cases b <;> simp

theorem isTombNode_noTombs (runs : List Run) (h : NoTombs runs) (n : Nat) : isTombNode runs n = false := by
  unfold isTombNode
  rw [List.any_eq_false]
  intro r hr; rw [(h r hr).1]; simp

theorem filter_flatMap' {α β} (l : List α) (f : α → List β) (p : β → Bool) :
    (l.flatMap f).filter p = l.flatMap (fun a => (f a).filter p) := by
  induction l with
  | nil => rfl
  | cons a as ih => simp [List.flatMap_cons, List.filter_append, ih]

/-- the state after a compaction that had something to compact -/
theorem compact_fields (c : Cfg) (s : Engine) (h : s.runs.isEmpty = false) :
    (s.compact c).runs = [] ∧ (s.compact c).idmap = s.idmap ∧ (s.compact c).interner = s.interner ∧
    (s.compact c).segs =
      (buildForward s.nextSegId (collectRunEdges (!c.compactOwnLast) s.runs [] [])).persist :: s.segs := by
  unfold Engine.compact
  rw [h]
  exact ⟨rfl, rfl, rfl, rfl⟩

/-- node enumeration is unchanged by a compaction of tombstone-free runs -/
theorem compact_nodes (c : Cfg) (s : Engine) (h : NoTombs s.runs) :
    (s.compact c).nodes = s.nodes ∧ (s.compact c).nodesSnap = s.nodesSnap := by
  cases he : s.runs.isEmpty with
  | true => unfold Engine.compact; rw [he]; exact ⟨rfl, rfl⟩
  | false =>
    obtain ⟨h1, h2, _, _⟩ := compact_fields c s he
    unfold Engine.nodes Engine.nodesSnap liveNodeIds
    rw [h1, h2]
    constructor <;>
    · apply List.filter_congr
      intro n _
      rw [isTombNode_noTombs s.runs h n]; rfl

theorem mapM_cons_some {α β} (f : α → Option β) (a : α) (as : List α) :
    (a :: as).mapM f = (f a).bind (fun b => (as.mapM f).map (fun bs => b :: bs)) := by
  simp only [List.mapM_cons]
  cases f a <;> cases as.mapM f <;> rfl

/-- outgoing neighbours are unchanged (as a multiset) by a compaction of tombstone-free runs -/
theorem compact_neighbors (c : Cfg) (s : Engine) (h : NoTombs s.runs) (n : Nat) (rel : Option Nat) :
    PermOpt ((s.compact c).neighbors n rel) (s.neighbors n rel) := by
  cases he : s.runs.isEmpty with
  | true =>
    have : s.compact c = s := by unfold Engine.compact; rw [he]; rfl
    rw [this]
    cases hq : s.neighbors n rel with
    | none => exact Or.inl ⟨rfl, rfl⟩
    | some l => exact Or.inr ⟨l, l, rfl, rfl, List.Perm.refl _⟩
  | false =>
    obtain ⟨h1, _, _, h4⟩ := compact_fields c s he
    rw [neighbors_eq]; unfold Engine.neighborsFlushed
    rw [h1, h4, outRuns_noTombs n rel s.runs h]
    simp only [outRuns, List.contains_nil, Bool.false_eq_true, if_false]
    rw [mapM_cons_some, persist_neighbors, collect_noTombs _ _ h]
    obtain ⟨l0, hl0, hperm⟩ := buildForward_neighbors s.nextSegId (s.runs.flatMap (·.edges)) n rel
    rw [hl0]
    simp only [Option.map_some, Option.bind_some]
    cases hm : s.segs.mapM (fun (g : Seg) => (g.neighbors n rel).map (·.filter (fun e => !blockedOut [] [] e))) with
    | none => exact Or.inl ⟨rfl, rfl⟩
    | some ls =>
      refine Or.inr ⟨_, _, rfl, rfl, ?_⟩
      simp only [Option.map_some, List.nil_append, List.flatten_cons]
      apply List.Perm.append_right
      have e1 : l0.filter (fun e => !blockedOut [] [] e) = l0 := by
        apply List.filter_eq_self.mpr; intro e _; simp [blockedOut_nil]
      rw [e1]
      refine hperm.trans (List.Perm.of_eq ?_)
      rw [filter_flatMap']
      apply flatMap_congr'
      intro r _
      unfold Run.edgesForSrc
      rw [List.filter_filter]
      apply List.filter_congr
      intro e _; rw [Bool.and_comm]

/-- incoming neighbours are unchanged (as a multiset) by a compaction of tombstone-free runs,
    provided `incoming_neighbors` guards against a missing reverse index (fix f429866) or the runs
    hold at least one edge -/
theorem compact_incoming (c : Cfg) (s : Engine) (h : NoTombs s.runs)
    (hg : c.csrGuard = true ∨ s.runs.flatMap (·.edges) ≠ []) (n : Nat) (rel : Option Nat) :
    PermOpt ((s.compact c).incoming c n rel) (s.incoming c n rel) := by
  cases he : s.runs.isEmpty with
  | true =>
    have : s.compact c = s := by unfold Engine.compact; rw [he]; rfl
    rw [this]
    cases hq : s.incoming c n rel with
    | none => exact Or.inl ⟨rfl, rfl⟩
    | some l => exact Or.inr ⟨l, l, rfl, rfl, List.Perm.refl _⟩
  | false =>
    obtain ⟨h1, _, _, h4⟩ := compact_fields c s he
    rw [incoming_eq]; unfold Engine.incomingFlushed
    rw [h1, h4, inRuns_noTombs n rel s.runs h]
    simp only [inRuns, List.contains_nil, Bool.false_eq_true, if_false]
    rw [mapM_cons_some, collect_noTombs _ _ h]
    obtain ⟨l0, hl0, hperm⟩ := built_incoming c.csrGuard s.nextSegId (s.runs.flatMap (·.edges)) n rel hg
    rw [hl0]
    simp only [Option.map_some, Option.bind_some]
    cases hm : s.segs.mapM (fun (g : Seg) => (g.incomingG c.csrGuard n rel).map (·.filter (fun e => !blockedIn [] [] e))) with
    | none => exact Or.inl ⟨rfl, rfl⟩
    | some ls =>
      refine Or.inr ⟨_, _, rfl, rfl, ?_⟩
      simp only [Option.map_some, List.nil_append, List.flatten_cons]
      apply List.Perm.append_right
      have e1 : l0.filter (fun e => !blockedIn [] [] e) = l0 := by
        apply List.filter_eq_self.mpr; intro e _; simp [blockedIn_nil]
      rw [e1]
      refine hperm.trans (List.Perm.of_eq ?_)
      rw [filter_flatMap']
      apply flatMap_congr'
      intro r _
      unfold Run.edgesForDst
      rw [List.filter_filter]
      apply List.filter_congr
      intro e _; rw [Bool.and_comm]

end Nervus.Storage
