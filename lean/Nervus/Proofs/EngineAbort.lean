/-
  Proofs/EngineAbort.lean — an abandoned write transaction changes nothing a read can see
  (C07): the only write-through effects are interned names (and, before the C07 fix, vectors).
-/
import Nervus.Proofs.EngineHist
import Nervus.Proofs.StoreRoot
import Nervus.Proofs.IterFlush
namespace Nervus.Storage
open Nervus.GraphSpec (TxOp Op)

/-- everything a read looks at is unchanged; the interner only grew -/
structure SameView (s s' : Engine) : Prop where
  runs : s'.runs = s.runs
  idmap : s'.idmap = s.idmap
  segs : s'.segs = s.segs
  segStore : s'.segStore = s.segStore
  store : s'.store = s.store
  root : s'.propsRoot = s.propsRoot
  storeRoot : s'.storeRoot = s.storeRoot
  vecs : s'.vecs = s.vecs
  epoch : s'.epoch = s.epoch
  ckpt : s'.ckptTxid = s.ckptTxid
  pre : s.interner <+: s'.interner

theorem SameView.refl (s : Engine) : SameView s s :=
  ⟨rfl, rfl, rfl, rfl, rfl, rfl, rfl, rfl, rfl, rfl, List.prefix_refl _⟩

theorem SameView.trans {a b c : Engine} (h1 : SameView a b) (h2 : SameView b c) : SameView a c :=
  ⟨h2.runs.trans h1.runs, h2.idmap.trans h1.idmap, h2.segs.trans h1.segs, h2.segStore.trans h1.segStore,
   h2.store.trans h1.store, h2.root.trans h1.root, h2.storeRoot.trans h1.storeRoot, h2.vecs.trans h1.vecs, h2.epoch.trans h1.epoch,
   h2.ckpt.trans h1.ckpt, h1.pre.trans h2.pre⟩

theorem getOrCreateLabel_view (s : Engine) (nm : Nat) : SameView s (s.getOrCreateLabel nm).1 := by
  unfold Engine.getOrCreateLabel
  split
  · exact SameView.refl s
  · exact ⟨rfl, rfl, rfl, rfl, rfl, rfl, rfl, rfl, rfl, rfl, List.prefix_append _ _⟩

/-- one staged write, when vectors are staged (after the C07 fix) -/
theorem stepTx_view (c : Cfg) (hc : c.vecStaged = true) (s : Engine) (t : Txn) (op : TxOp) :
    SameView s (stepTx c (s, t) op).1 := by
  cases op with
  | node x lab =>
    have hi : SameView s (internLabel s lab).1 := by
      cases lab with
      | none => exact SameView.refl s
      | some l => exact getOrCreateLabel_view s l
    simp only [stepTx]
    split <;> exact hi
  | labelAdd n nm => exact getOrCreateLabel_view s nm
  | labelDel n nm => exact getOrCreateLabel_view s nm
  | edge a nm b => exact getOrCreateLabel_view s nm
  | tombNode n => exact SameView.refl s
  | tombEdge a nm b => exact getOrCreateLabel_view s nm
  | nprop n k v => exact SameView.refl s
  | npropDel n k => exact SameView.refl s
  | eprop a nm b k v => exact getOrCreateLabel_view s nm
  | epropDel a nm b k => exact getOrCreateLabel_view s nm
  | vec n v =>
    show SameView s (t.setVector c s n v).1
    unfold Txn.setVector
    rw [hc]; exact SameView.refl s

theorem fold_view (c : Cfg) (hc : c.vecStaged = true) (ops : List TxOp) :
    ∀ st : Engine × Txn, SameView st.1 (ops.foldl (stepTx c) st).1 := by
  induction ops with
  | nil => intro st; exact SameView.refl _
  | cons op ops ih =>
    intro st
    have h1 : SameView st.1 (stepTx c st op).1 := stepTx_view c hc st.1 st.2 op
    exact h1.trans (ih (stepTx c st op))

/-- the observable state: every read interface of the engine, labels by NAME, vector search -/
structure Obs where
  nodes : List Nat
  nodesSnap : List Nat
  tomb : Nat → Bool
  ext : Nat → Option Nat
  labelIds : Nat → Option (List Nat)
  labelNames : Nat → List Nat
  nprop : Nat → Nat → Option PV
  nprops : Nat → List (Nat × PV)
  out : Nat → Option Nat → Option (List Edge)
  inc : Nat → Option Nat → Option (List Edge)
  eprop : Edge → Nat → Option PV
  eprops : Edge → List (Nat × PV)
  extLookup : Nat → Option Nat
  vecNodes : List Nat
  relName : Nat → Option Nat       -- names of the ids that were interned

/-- `abs'` -/
def Engine.obs (c : Cfg) (s : Engine) : Obs :=
  { nodes := s.nodes, nodesSnap := s.nodesSnap, tomb := s.isTombstoned, ext := s.resolveExternal,
    labelIds := s.nodeLabels, labelNames := s.nodeLabelNames, nprop := s.nodeProp, nprops := s.nodeProps,
    out := s.neighbors, inc := s.incoming c, eprop := s.edgeProp, eprops := s.edgeProps,
    extLookup := s.lookupInternal, vecNodes := s.vecNodes, relName := s.interner.getName }

theorem getName_prefix {t t' : Interner} (hp : t <+: t') (id : Nat) (h : id < t.length) :
    t'.getName id = t.getName id := by
  unfold Interner.getName
  obtain ⟨x, rfl⟩ := hp
  rw [List.getElem?_append_left h]

/-- same view ⇒ same answers from every read interface that works on ids -/
theorem SameView.reads (c : Cfg) {s s' : Engine} (h : SameView s s') :
    s'.nodes = s.nodes ∧ s'.nodesSnap = s.nodesSnap ∧ s'.isTombstoned = s.isTombstoned ∧
    s'.resolveExternal = s.resolveExternal ∧ s'.nodeLabels = s.nodeLabels ∧ s'.nodeProp = s.nodeProp ∧
    s'.nodeProps = s.nodeProps ∧ s'.neighbors = s.neighbors ∧ s'.incoming c = s.incoming c ∧
    s'.edgeProp = s.edgeProp ∧ s'.edgeProps = s.edgeProps ∧ s'.lookupInternal = s.lookupInternal ∧
    s'.vecNodes = s.vecNodes := by
  refine ⟨?_, ?_, ?_, ?_, ?_, ?_, ?_, ?_, ?_, ?_, ?_, ?_, ?_⟩
  · unfold Engine.nodes; rw [h.idmap, h.runs]
  · unfold Engine.nodesSnap; rw [h.idmap, h.runs]
  · funext n; unfold Engine.isTombstoned; rw [h.runs]
  · funext n; unfold Engine.resolveExternal; rw [h.idmap]
  · funext n; unfold Engine.nodeLabels; rw [h.idmap]
  · funext n k; unfold Engine.nodeProp; rw [h.runs, visibleStore_congr h.store h.root h.storeRoot]
  · funext n; unfold Engine.nodeProps; rw [h.runs, h.root, visibleStore_congr h.store h.root h.storeRoot]
  · funext n rel; rw [neighbors_eq]; unfold Engine.neighborsFlushed; rw [h.runs, h.segs]
  · funext n rel; rw [incoming_eq]; unfold Engine.incomingFlushed; rw [h.runs, h.segs]
  · funext e k; unfold Engine.edgeProp; rw [h.runs, visibleStore_congr h.store h.root h.storeRoot]
  · funext e; unfold Engine.edgeProps; rw [h.runs, h.root, visibleStore_congr h.store h.root h.storeRoot]
  · funext x; unfold Engine.lookupInternal; rw [h.idmap]
  · unfold Engine.vecNodes; rw [h.vecs, h.runs]

theorem filterMap_congr' {α β} (f g : α → Option β) (l : List α) (h : ∀ a ∈ l, f a = g a) :
    l.filterMap f = l.filterMap g := by
  induction l with
  | nil => rfl
  | cons a as ih =>
    rw [List.filterMap_cons, List.filterMap_cons, h a List.mem_cons_self,
      ih (fun b hb => h b (List.mem_cons_of_mem _ hb))]

/-- label NAMES: unchanged as long as every stored label id is an interned id or `LabelId::MAX`
    and the interner stays below `LabelId::MAX` -/
theorem SameView.labelNames {s s' : Engine} (h : SameView s s')
    (hids : ∀ (n l : Nat), l ∈ (s.idmap.i2l[n]?).getD [] → l = labelMax ∨ l < s.interner.length)
    (hsmall : s'.interner.length ≤ labelMax) (n : Nat) :
    s'.nodeLabelNames n = s.nodeLabelNames n := by
  unfold Engine.nodeLabelNames Engine.nodeLabels
  rw [h.idmap]
  apply filterMap_congr'
  intro l hl
  rcases hids n l hl with h1 | h1
  · subst h1
    unfold Interner.getName
    rw [List.getElem?_eq_none hsmall, List.getElem?_eq_none (Nat.le_trans h.pre.length_le hsmall)]
  · exact getName_prefix h.pre l h1

end Nervus.Storage
