/-
  C28 helper lemmas: reachability is monotone in the successor function; vacuum's successors contain
  the reader's when it reads every page list; keeping a superset of the reader-reachable pages leaves
  the reader-reachable subgraph unchanged.
-/
import Nervus.Model.Vacuum
set_option linter.unusedVariables false
namespace Nervus.Vacuum
open Nervus

theorem reach_mono {s1 s2 : Node → List Node} {rs : List Node}
    (h : ∀ n, Reach s1 rs n → ∀ m ∈ s1 n, m ∈ s2 n) : ∀ n, Reach s1 rs n → Reach s2 rs n := by
  intro n hn
  induction hn with
  | root hr => exact Reach.root hr
  | step hreach hm ih => exact Reach.step ih (h _ hreach _ hm)

theorem get_filter {α : Type} (m : BTree.PageMap α) (keep : Nat → Bool) (p : Nat) :
    BTree.PageMap.get (m.filter (fun x => keep x.1)) p = if keep p then BTree.PageMap.get m p else none := by
  induction m with
  | nil => simp [BTree.PageMap.get]
  | cons x xs ih =>
    obtain ⟨q, a⟩ := x
    by_cases hk : keep q = true
    · simp only [List.filter_cons, hk, if_true, BTree.PageMap.get]
      by_cases e : q = p
      · subst e; simp [hk]
      · simp only [e, if_false]; exact ih
    · have hf : keep q = false := by simpa using hk
      simp only [List.filter_cons, hf, Bool.false_eq_true, if_false, BTree.PageMap.get]
      by_cases e : q = p
      · subst e
        simp only [if_true]
        rw [ih]; simp [hf]
      · simp only [e, if_false]; exact ih

theorem nz_mem {l : List Nat} {x : Nat} : x ∈ nz l ↔ x ∈ l ∧ x ≠ 0 := by
  simp [nz]

/-- following more page lists can only add successors -/
theorem succOf_mono (k k' : Nat) (hk : k ≤ k') (role : Role) (pg : Option Page) :
    ∀ m ∈ succOf k role pg, m ∈ succOf k' role pg := by
  intro m hm
  cases role <;> cases pg <;> (try exact hm)
  all_goals (rename_i p; cases p <;> (try exact hm))
  case csrMeta.some.csrMeta lists =>
      simp only [succOf, List.mem_map] at hm ⊢
      obtain ⟨x, hx, rfl⟩ := hm
      refine ⟨x, ?_, rfl⟩
      rw [nz_mem] at hx ⊢
      refine ⟨?_, hx.2⟩
      obtain ⟨l, hl, hxl⟩ := List.mem_flatten.mp hx.1
      have : l ∈ lists.take k' := by
        have e : lists.take k = (lists.take k').take k := by
          rw [List.take_take]; congr 1; omega
        rw [e] at hl
        exact List.mem_of_mem_take hl
      exact List.mem_flatten.mpr ⟨l, this, hxl⟩

/-- when a meta page has at most `k` lists, reading `k` lists reads them all -/
theorem succOf_all (k k' : Nat) (role : Role) (pg : Option Page)
    (h : ∀ lists, pg = some (.csrMeta lists) → lists.length ≤ k) :
    ∀ m ∈ succOf k' role pg, m ∈ succOf k role pg := by
  intro m hm
  cases role <;> cases pg <;> (try exact hm)
  all_goals (rename_i p; cases p <;> (try exact hm))
  case csrMeta.some.csrMeta lists =>
      have hl := h lists rfl
      simp only [succOf, List.mem_map] at hm ⊢
      obtain ⟨x, hx, rfl⟩ := hm
      refine ⟨x, ?_, rfl⟩
      rw [nz_mem] at hx ⊢
      refine ⟨?_, hx.2⟩
      obtain ⟨l, hl', hxl⟩ := List.mem_flatten.mp hx.1
      have : l ∈ lists.take k := by
        rw [List.take_of_length_le hl]
        exact List.mem_of_mem_take hl'
      exact List.mem_flatten.mpr ⟨l, this, hxl⟩

/-- **inclusion obligation**: if vacuum reads at least as many page lists as any meta page holds,
    every page a reader can reach is reached by vacuum's mark -/
theorem reader_sub_vacuum (L : Layout) (d : Db) (rs : List Node)
    (hL : ∀ p lists, d.pages.get p = some (.csrMeta lists) → lists.length ≤ L.csrLists) :
    ∀ n, Reach (succR d) rs n → Reach (succV L d) rs n := by
  apply reach_mono
  intro n _ m hm
  exact succOf_all L.csrLists allLists n.2 (d.pages.get n.1) (fun lists h => hL n.1 lists h) m hm

theorem roots_keep (L : Layout) (d : Db) (keep : List Nat) : roots L (keepPages d keep) = roots L d := rfl

theorem get_keep (d : Db) (keep : List Nat) (p : Nat) (h : p ∈ keep) :
    (keepPages d keep).pages.get p = d.pages.get p := by
  simp only [keepPages]
  rw [get_filter d.pages (fun q => keep.contains q) p]
  simp [h]

/-- **vacuum preserves what a reader sees**: if every reader-reachable page is kept, the reader reaches
    exactly the same nodes afterwards and finds the same content in each of them -/
theorem keep_preserves (L : Layout) (d : Db) (keep : List Nat)
    (h : ∀ n, Reach (succR d) (roots L d) n → n.1 ∈ keep) :
    (∀ n, Reach (succR (keepPages d keep)) (roots L (keepPages d keep)) n ↔ Reach (succR d) (roots L d) n) ∧
    (∀ n, Reach (succR d) (roots L d) n → (keepPages d keep).pages.get n.1 = d.pages.get n.1) := by
  have hget : ∀ n, Reach (succR d) (roots L d) n → (keepPages d keep).pages.get n.1 = d.pages.get n.1 :=
    fun n hn => get_keep d keep n.1 (h n hn)
  refine ⟨fun n => ⟨?_, ?_⟩, hget⟩
  · intro hn
    rw [roots_keep] at hn
    induction hn with
    | root hr => exact Reach.root hr
    | step hreach hm ih =>
      apply Reach.step ih
      simp only [succR] at hm ⊢
      rw [hget _ ih] at hm
      exact hm
  · intro hn
    rw [roots_keep]
    induction hn with
    | root hr => exact Reach.root hr
    | step hreach hm ih =>
      apply Reach.step ih
      simp only [succR] at hm ⊢
      rw [hget _ hreach]
      exact hm

/-! ### the worklist marks everything vacuum can reach -/

theorem seenPage_iff (done : List Node) (p : Nat) : seenPage done p = true ↔ ∃ r, (p, r) ∈ done := by
  simp only [seenPage, List.any_eq_true, beq_iff_eq]
  constructor
  · rintro ⟨x, hx, rfl⟩; exact ⟨x.2, hx⟩
  · rintro ⟨r, h⟩; exact ⟨(p, r), h, rfl⟩

/-- successors of marked nodes are marked or still to do -/
def Frontier (L : Layout) (d : Db) (work done : List Node) : Prop :=
  ∀ n ∈ done, ∀ m ∈ succV L d n, (∃ r, (m.1, r) ∈ done) ∨ m ∈ work

/-- the final set is closed under vacuum's successor function (up to the role a page was marked in) -/
def Closed (L : Layout) (d : Db) (res : List Node) : Prop :=
  ∀ n ∈ res, ∀ m ∈ succV L d n, ∃ r, (m.1, r) ∈ res

theorem markLoop_closed (L : Layout) (d : Db) : ∀ (fuel : Nat) (work done res : List Node),
    Frontier L d work done → markLoop L d fuel work done = .ok res →
    Closed L d res ∧ (∀ n ∈ done, n ∈ res) ∧ (∀ n ∈ work, ∃ r, (n.1, r) ∈ res) ∧
    (∀ n ∈ res, n ∈ done ∨ n ∈ work ∨ ∃ k ∈ res, n ∈ succV L d k)
  | 0, [], done, res, hf, h => by
    simp only [markLoop, Except.ok.injEq] at h; subst h
    refine ⟨?_, fun n hn => hn, fun n hn => (by cases hn), fun n hn => Or.inl hn⟩
    intro n hn m hm
    rcases hf n hn m hm with h | h
    · exact h
    · cases h
  | 0, _ :: _, done, res, hf, h => by simp [markLoop] at h
  | f + 1, [], done, res, hf, h => by
    simp only [markLoop, Except.ok.injEq] at h; subst h
    refine ⟨?_, fun n hn => hn, fun n hn => (by cases hn), fun n hn => Or.inl hn⟩
    intro n hn m hm
    rcases hf n hn m hm with h | h
    · exact h
    · cases h
  | f + 1, n :: work, done, res, hf, h => by
    simp only [markLoop] at h
    by_cases hs : seenPage done n.1 = true
    · simp only [hs, if_true] at h
      by_cases hb : n.2 = Role.blob
      · simp [hb] at h
      · simp only [hb, if_false] at h
        obtain ⟨r0, hr0⟩ := (seenPage_iff done n.1).mp hs
        have hf' : Frontier L d work done := by
          intro x hx m hm
          rcases hf x hx m hm with h1 | h1
          · exact Or.inl h1
          · rcases List.mem_cons.mp h1 with e | e
            · subst e; exact Or.inl ⟨r0, hr0⟩
            · exact Or.inr e
        obtain ⟨c1, c2, c3, c4⟩ := markLoop_closed L d f work done res hf' h
        refine ⟨c1, c2, ?_, ?_⟩
        · intro x hx
          rcases List.mem_cons.mp hx with e | e
          · subst e; exact ⟨r0, c2 _ hr0⟩
          · exact c3 x e
        · intro x hx
          rcases c4 x hx with h1 | h1 | h1
          · exact Or.inl h1
          · exact Or.inr (Or.inl (List.mem_cons_of_mem _ h1))
          · exact Or.inr (Or.inr h1)
    · simp only [hs] at h
      cases hc : checkV L n.2 (d.pages.get n.1) with
      | error e => simp [hc] at h
      | ok u =>
        simp only [hc] at h
        have hf' : Frontier L d (succV L d n ++ work) (n :: done) := by
          intro x hx m hm
          rcases List.mem_cons.mp hx with e | e
          · subst e; exact Or.inr (List.mem_append_left _ hm)
          · rcases hf x e m hm with ⟨r, h1⟩ | h1
            · exact Or.inl ⟨r, List.mem_cons_of_mem _ h1⟩
            · rcases List.mem_cons.mp h1 with e2 | e2
              · subst e2; exact Or.inl ⟨m.2, List.mem_cons_self ..⟩
              · exact Or.inr (List.mem_append_right _ e2)
        obtain ⟨c1, c2, c3, c4⟩ := markLoop_closed L d f _ _ res hf' h
        refine ⟨c1, fun x hx => c2 x (List.mem_cons_of_mem _ hx), ?_, ?_⟩
        · intro x hx
          rcases List.mem_cons.mp hx with e | e
          · subst e; exact ⟨x.2, c2 _ (List.mem_cons_self ..)⟩
          · exact c3 x (List.mem_append_right _ e)
        · intro x hx
          rcases c4 x hx with h1 | h1 | h1
          · rcases List.mem_cons.mp h1 with e | e
            · subst e; exact Or.inr (Or.inl (List.mem_cons_self ..))
            · exact Or.inl e
          · rcases List.mem_append.mp h1 with e | e
            · exact Or.inr (Or.inr ⟨n, c2 _ (List.mem_cons_self ..), e⟩)
            · exact Or.inr (Or.inl (List.mem_cons_of_mem _ e))
          · exact Or.inr (Or.inr h1)

/-- everything marked is reachable -/
theorem markLoop_sound (L : Layout) (d : Db) (rs : List Node) : ∀ (fuel : Nat) (work done res : List Node),
    (∀ x ∈ work, Reach (succV L d) rs x) → (∀ x ∈ done, Reach (succV L d) rs x) →
    markLoop L d fuel work done = .ok res → ∀ n ∈ res, Reach (succV L d) rs n
  | 0, [], done, res, hw, hd, h => by
    simp only [markLoop, Except.ok.injEq] at h; subst h; exact hd
  | 0, _ :: _, done, res, hw, hd, h => by simp [markLoop] at h
  | f + 1, [], done, res, hw, hd, h => by
    simp only [markLoop, Except.ok.injEq] at h; subst h; exact hd
  | f + 1, n :: work, done, res, hw, hd, h => by
    simp only [markLoop] at h
    by_cases hs : seenPage done n.1 = true
    · simp only [hs, if_true] at h
      by_cases hb : n.2 = Role.blob
      · simp [hb] at h
      · simp only [hb, if_false] at h
        exact markLoop_sound L d rs f work done res (fun x hx => hw x (List.mem_cons_of_mem _ hx)) hd h
    · simp only [hs] at h
      cases hc : checkV L n.2 (d.pages.get n.1) with
      | error e => simp [hc] at h
      | ok u =>
        simp only [hc] at h
        have hn := hw n (List.mem_cons_self ..)
        apply markLoop_sound L d rs f _ _ res _ _ h
        · intro x hx
          rcases List.mem_append.mp hx with e | e
          · exact Reach.step hn e
          · exact hw x (List.mem_cons_of_mem _ e)
        · intro x hx
          rcases List.mem_cons.mp hx with e | e
          · subst e; exact hn
          · exact hd x e

/-- every page is read in one role only: a typing of the pages that the roots and all successor
    edges respect (what a well-formed database file satisfies) -/
def Typed (L : Layout) (d : Db) (τ : Nat → Role) : Prop :=
  (∀ n ∈ fixed ++ roots L d, τ n.1 = n.2) ∧ (∀ p, ∀ m ∈ succV L d (p, τ p), τ m.1 = m.2)

theorem typed_reach (L : Layout) (d : Db) (τ : Nat → Role) (ht : Typed L d τ) :
    ∀ n, Reach (succV L d) (fixed ++ roots L d) n → τ n.1 = n.2 := by
  intro n hn
  induction hn with
  | root hr => exact ht.1 _ hr
  | step hreach hm ih =>
    rename_i a b
    have : a = (a.1, τ a.1) := by rw [ih]
    rw [this] at hm
    exact ht.2 _ _ hm

/-- **mark is complete**: on a typed database, when the mark phase returns Ok, every page vacuum's
    traversal can reach from the roots is in the returned set -/
theorem mark_complete (L : Layout) (d : Db) (τ : Nat → Role) (ht : Typed L d τ) (fuel : Nat) (keep : List Nat)
    (h : mark L d fuel = .ok keep) :
    ∀ n, Reach (succV L d) (roots L d) n → n.1 ∈ keep := by
  unfold mark at h
  cases hm : markLoop L d fuel (roots L d) fixed with
  | error e => simp [hm] at h
  | ok res =>
    simp only [hm, Except.ok.injEq] at h
    subst h
    have hf0 : Frontier L d (roots L d) fixed := by
      intro n hn m hm'
      simp only [fixed, List.mem_cons, List.not_mem_nil, or_false] at hn
      rcases hn with rfl | rfl <;> simp [succV, succOf] at hm'
    obtain ⟨c1, c2, c3, c4⟩ := markLoop_closed L d fuel _ _ res hf0 hm
    -- everything marked is reachable (from the fixed pages or the roots), hence typed
    have hres_reach : ∀ n ∈ res, Reach (succV L d) (fixed ++ roots L d) n := by
      -- by strong induction along the derivation order we only need membership facts; use c4 with well-founded
      -- recursion on the position in `res` is awkward — instead prove by induction on fuel separately
      intro n hn
      exact markLoop_sound L d _ fuel _ _ res (fun x hx => Reach.root (List.mem_append_right _ hx))
        (fun x hx => Reach.root (List.mem_append_left _ hx)) hm n hn
    intro n hn
    have hn' : Reach (succV L d) (fixed ++ roots L d) n := by
      induction hn with
      | root hr => exact Reach.root (List.mem_append_right _ hr)
      | step _ hm' ih => exact Reach.step ih hm'
    -- marked in the role it is reachable in
    have key : ∀ n, Reach (succV L d) (roots L d) n → n ∈ res := by
      intro n hn
      induction hn with
      | root hr =>
        obtain ⟨r, hr'⟩ := c3 _ hr
        have t1 := typed_reach L d τ ht _ (hres_reach _ hr')
        have t2 := ht.1 _ (List.mem_append_right _ hr)
        simp only at t1
        rename_i a
        have : r = a.2 := by rw [← t1, t2]
        rw [this] at hr'
        exact hr'
      | step hreach hm' ih =>
        rename_i a b
        obtain ⟨r, hr'⟩ := c1 _ ih _ hm'
        have t1 := typed_reach L d τ ht _ (hres_reach _ hr')
        have hb : Reach (succV L d) (fixed ++ roots L d) b := by
          have ha : Reach (succV L d) (fixed ++ roots L d) a := hres_reach _ ih
          exact Reach.step ha hm'
        have t2 := typed_reach L d τ ht _ hb
        simp only at t1
        have : r = b.2 := by rw [← t1, t2]
        rw [this] at hr'
        exact hr'
    exact List.mem_map_of_mem (key n hn)

theorem get_mem {α : Type} (m : BTree.PageMap α) (p : Nat) (a : α) (h : BTree.PageMap.get m p = some a) :
    (p, a) ∈ m := by
  induction m with
  | nil => simp [BTree.PageMap.get] at h
  | cons x xs ih =>
    obtain ⟨q, b⟩ := x
    simp only [BTree.PageMap.get] at h
    by_cases e : q = p
    · simp only [e, if_true, Option.some.injEq] at h
      subst e h; exact List.mem_cons_self ..
    · simp only [e, if_false] at h
      exact List.mem_cons_of_mem _ (ih h)

theorem succOf_none (k : Nat) (r : Role) : succOf k r none = [] := by
  cases r <;> rfl

/-- a typing only has to be checked on the roots and on the pages that exist -/
theorem typed_of_pages (L : Layout) (d : Db) (τ : Nat → Role)
    (h1 : ∀ n ∈ fixed ++ roots L d, τ n.1 = n.2)
    (h2 : ∀ x ∈ d.pages, ∀ m ∈ succV L d (x.1, τ x.1), τ m.1 = m.2) : Typed L d τ := by
  refine ⟨h1, ?_⟩
  intro p m hm
  cases hg : d.pages.get p with
  | none => simp only [succV, hg, succOf_none] at hm; cases hm
  | some pg => exact h2 (p, pg) (get_mem _ _ _ hg) m hm

/-- the list-count condition only has to be checked on the pages that exist -/
def listsOk (k : Nat) : Page → Bool
  | .csrMeta lists => decide (lists.length ≤ k)
  | _ => true

theorem lists_of_pages (d : Db) (k : Nat) (h : ∀ x ∈ d.pages, listsOk k x.2 = true) :
    ∀ p lists, d.pages.get p = some (.csrMeta lists) → lists.length ≤ k := by
  intro p lists hp
  have := h _ (get_mem _ _ _ hp)
  simpa [listsOk] using this

/-! ### the two WAL scans select the same roots -/

/-- the fields the two scan states share -/
def RootsRel (s : VRoots) (e : ERoots) : Prop :=
  s.epoch = e.epoch ∧ s.segments = e.segments ∧ s.props = e.props ∧ s.stats = e.stats

theorem step_rel (o : ScanOps) (s : VRoots) (e : ERoots) (h : RootsRel s e) (r : Rec) :
    RootsRel (vacuumStep o s r) (engineStep o e r) := by
  obtain ⟨h1, h2, h3, h4⟩ := h
  cases r with
  | manifest ep segs p st =>
    simp only [vacuumStep, engineStep]
    rw [← h1]
    by_cases hc : cmpHolds o.manifestCmp ep s.epoch = true
    · simp only [hc, if_true]; exact ⟨rfl, rfl, rfl, rfl⟩
    · simp only [hc]; first | exact ⟨h1, h2, h3, h4⟩ | exact ⟨rfl, h2, h3, h4⟩
  | checkpoint up ep p st =>
    simp only [vacuumStep, engineStep]
    rw [← h1]
    by_cases hc : cmpHolds o.checkpointCmp ep s.epoch = true
    · simp only [hc, if_true]; first | exact ⟨rfl, h2, rfl, rfl⟩ | exact ⟨h1, h2, rfl, rfl⟩
    · simp only [hc]; first | exact ⟨h1, h2, h3, h4⟩ | exact ⟨rfl, h2, h3, h4⟩
  | other => exact ⟨h1, h2, h3, h4⟩

theorem ops_rel (o : ScanOps) : ∀ (ops : List Rec) (s : VRoots) (e : ERoots), RootsRel s e →
    RootsRel (ops.foldl (vacuumStep o) s) (ops.foldl (engineStep o) e)
  | [], s, e, h => h
  | r :: rs, s, e, h => ops_rel o rs _ _ (step_rel o s e h r)

theorem log_rel (o : ScanOps) : ∀ (log : List Tx) (s : VRoots) (e : ERoots), RootsRel s e →
    RootsRel (log.foldl (fun s tx => tx.ops.foldl (vacuumStep o) s) s)
      (log.foldl (fun s tx => tx.ops.foldl (engineStep o) { s with maxTxid := max s.maxTxid tx.txid }) e)
  | [], s, e, h => h
  | tx :: rest, s, e, h => by
    simp only [List.foldl_cons]
    apply log_rel o rest
    apply ops_rel o tx.ops
    exact ⟨h.1, h.2.1, h.2.2.1, h.2.2.2⟩

/-- **for every log**: with the same comparison operators vacuum's scan and the engine's recovery
    scan end with the same epoch, segment list, property root and statistics root -/
theorem scan_agree (o : ScanOps) (log : List Tx) : (vacuumScan o log).roots = (engineScan o log).roots := by
  have h := log_rel o log ⟨o.initEpoch, [], 0, 0⟩ ⟨o.initEpoch, [], 0, 0, 0, 0⟩ ⟨rfl, rfl, rfl, rfl⟩
  unfold vacuumScan engineScan VRoots.roots ERoots.roots
  obtain ⟨_, h2, h3, h4⟩ := h
  rw [h2, h3, h4]

end Nervus.Vacuum
